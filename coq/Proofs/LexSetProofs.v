(* Lemmas about the lexicon-set model (Model/LexSet.v): word-id stamping, capacity, POS tables of layered dictionaries. *)
From Coq Require Import String List Arith NArith ZArith Bool Lia ZifyBool ZifyNat ZifyN.
From SudachiVerif Require Generated.Limits Generated.LexFacts.
From SudachiVerif Require Import Model.Harness Model.Trie Model.WordIdTable Model.LexSet Proofs.TrieProofs.
Import ListNotations.
Open Scope N_scope.

Arguments N.add : simpl never.
Arguments N.sub : simpl never.
Arguments N.mul : simpl never.
Arguments N.ltb : simpl never.
Arguments N.leb : simpl never.
Arguments N.eqb : simpl never.
Arguments N.lor : simpl never.
Arguments N.land : simpl never.
Arguments N.shiftl : simpl never.
Arguments N.shiftr : simpl never.
Arguments N.of_nat : simpl never.
Arguments N.to_nat : simpl never.

(* ---------- decidable side conditions on the generated facts ---------- *)
Definition layout_ok : bool :=
  (LF.DIC_SHIFT =? 28) && (LF.DIC_SHIFT_READ =? 28) && (LF.DIC_MASK =? 15) && (LM.WORD_MASK =? N.ones 28)
  && (LF.OOV_DIC =? 15).

Definition guards_ok : bool :=
  String.eqb LF.is_full_cmp ">=" && (LM.MAX_DICTIONARIES =? 15)
  && String.eqb LF.rebase_dic_cmp ">" && (LF.rebase_dic_rhs =? 0) && String.eqb LF.rebase_pos_cmp ">="
  && String.eqb LF.restamp_cmp ">" && (LF.restamp_rhs =? 0).

Definition preload_ok : bool := LF.preload_system_only.

(* RawLexiconEntry::should_index is `left_id >= 0` *)
Definition index_rule_ok : bool := String.eqb LF.should_index_cmp ">=" && Z.eqb LF.should_index_rhs 0.

Lemma builder_indexes_spec : index_rule_ok = true -> forall r : row, builder_indexes (snd r) = indexed r.
Proof.
  unfold index_rule_ok. rewrite andb_true_iff, String.eqb_eq, Z.eqb_eq. intros [E1 E2] r.
  unfold builder_indexes, indexed. rewrite E1, E2. reflexivity.
Qed.

(* ---------- word ids ---------- *)
Section Layout.
Hypothesis H : layout_ok = true.

Lemma layout_facts : LF.DIC_SHIFT = 28 /\ LF.DIC_SHIFT_READ = 28 /\ LF.DIC_MASK = 15 /\ WORD_MASK = N.ones 28 /\ LF.OOV_DIC = 15.
Proof. unfold layout_ok in H. unfold WORD_MASK. repeat rewrite andb_true_iff in H. repeat rewrite N.eqb_eq in H. tauto. Qed.

Lemma stamp_eq d raw : d < 16 -> raw <= WORD_MASK -> stamp d raw = N.lor (N.shiftl d 28) raw.
Proof.
  intros Hd Hr. destruct layout_facts as [E1 [_ [E3 [E4 _]]]]. unfold stamp. rewrite E1, E3, E4.
  change 15 with (N.ones 4). rewrite !N.land_ones.
  rewrite (N.mod_small d) by (change (2 ^ 4) with 16; lia).
  rewrite (N.mod_small raw); [reflexivity|].
  rewrite E4 in Hr. rewrite N.ones_equiv in Hr. change (2 ^ 28) with 268435456 in *. lia.
Qed.

Lemma raw_small raw : raw <= WORD_MASK -> raw < 2 ^ 28.
Proof.
  destruct layout_facts as [_ [_ [_ [E4 _]]]]. rewrite E4, N.ones_equiv. change (2 ^ 28) with 268435456. lia.
Qed.

Lemma dic_of_stamp d raw : d < 16 -> raw <= WORD_MASK -> dic_of (stamp d raw) = d.
Proof.
  intros Hd Hr. rewrite stamp_eq by assumption. destruct layout_facts as [_ [E2 _]]. unfold dic_of. rewrite E2.
  rewrite N.shiftr_lor. rewrite N.shiftr_shiftl_l by lia. rewrite N.sub_diag, N.shiftl_0_r.
  rewrite (N.shiftr_div_pow2 raw). rewrite N.div_small by (apply raw_small; exact Hr).
  rewrite N.lor_0_r. apply N.mod_small. lia.
Qed.

Lemma word_of_stamp d raw : d < 16 -> raw <= WORD_MASK -> word_of (stamp d raw) = raw.
Proof.
  intros Hd Hr. rewrite stamp_eq by assumption. destruct layout_facts as [_ [_ [_ [E4 _]]]]. unfold word_of. rewrite E4.
  rewrite N.land_lor_distr_l. rewrite !N.land_ones. rewrite N.shiftl_mul_pow2.
  rewrite N.mod_mul by (change (2 ^ 28) with 268435456; lia).
  rewrite N.lor_0_l. apply N.mod_small. apply raw_small. exact Hr.
Qed.

Lemma stamp_inj d1 r1 d2 r2 :
  d1 < 16 -> d2 < 16 -> r1 <= WORD_MASK -> r2 <= WORD_MASK -> stamp d1 r1 = stamp d2 r2 -> d1 = d2 /\ r1 = r2.
Proof.
  intros H1 H2 H3 H4 E. split.
  - rewrite <- (dic_of_stamp d1 r1), <- (dic_of_stamp d2 r2) by assumption. rewrite E. reflexivity.
  - rewrite <- (word_of_stamp d1 r1), <- (word_of_stamp d2 r2) by assumption. rewrite E. reflexivity.
Qed.

(* Morpheme::dictionary_id: position of the supplying dictionary; -1 for OOV nodes *)
Lemma reported_dic_stamp d raw : d < 15 -> raw <= WORD_MASK -> reported_dic (stamp d raw) = Z.of_N d.
Proof.
  intros Hd Hr. unfold reported_dic, is_oov. rewrite dic_of_stamp by (try lia; assumption).
  destruct layout_facts as [_ [_ [_ [_ E5]]]]. rewrite E5.
  destruct (d =? 15) eqn:E; [lia|reflexivity].
Qed.

Lemma reported_dic_oov p : p <= WORD_MASK -> reported_dic (oov_id p) = (-1)%Z.
Proof.
  intros Hp. unfold reported_dic, is_oov, oov_id. destruct layout_facts as [_ [_ [_ [_ E5]]]]. rewrite E5.
  rewrite dic_of_stamp by (try lia; assumption). reflexivity.
Qed.
End Layout.

(* ---------- lookup stamps every entry with the number of its lexicon ---------- *)
Lemma stamp_all_spec dic e : forall ids l,
  stamp_all dic ids e = Some l -> l = map (fun r => (stamp dic r, e)) ids.
Proof.
  induction ids as [|r t IH]; intros l Hl; cbn [stamp_all] in Hl.
  - injection Hl as <-. reflexivity.
  - unfold stamp_dbg in Hl.
    destruct ((N.land dic LF.DIC_MASK =? dic) && (N.land r WORD_MASK =? r)); [|discriminate].
    destruct (stamp_all dic t e) as [l'|]; [|discriminate]. injection Hl as <-.
    cbn [map]. f_equal. apply IH. reflexivity.
Qed.

Lemma expand_in tbl dic : forall es l,
  expand tbl dic es = Some l ->
  forall w e, In (w, e) l <-> exists v ids r, In (v, e) es /\ entries tbl v = Some ids /\ In r ids /\ w = stamp dic r.
Proof.
  induction es as [|[v0 e0] t IH]; intros l Hl w e; cbn [expand] in Hl.
  - injection Hl as <-. split; [intros []|intros [v [ids [r [[] _]]]]].
  - destruct (entries tbl v0) as [ids0|] eqn:He; [|discriminate].
    destruct (stamp_all dic ids0 e0) as [x|] eqn:Hs; [|discriminate].
    destruct (expand tbl dic t) as [y|] eqn:Hy; [|discriminate]. injection Hl as <-.
    apply stamp_all_spec in Hs. subst x. rewrite in_app_iff, in_map_iff. rewrite (IH y eq_refl w e). split.
    + intros [[r [Heq Hr]]|[v [ids [r [Hin Hrest]]]]].
      * injection Heq as <- <-. exists v0, ids0, r. repeat split; try assumption. left. reflexivity.
      * exists v, ids, r. split; [right; exact Hin|exact Hrest].
    + intros [v [ids [r [[Heq|Hin] [Hent [Hr ->]]]]]].
      * injection Heq as <- <-. rewrite He in Hent. injection Hent as <-. left. exists r. split; [reflexivity|exact Hr].
      * right. exists v, ids, r. repeat split; assumption.
Qed.

(* one lexicon: the entries returned are exactly the ids of the table groups of the accepted prefixes, stamped *)
Lemma lex_lookup_in L dic text off l :
  lex_lookup L dic text off = Some l ->
  forall w e, In (w, e) l <->
    exists key v ids r, key <> [] /\ accept_value (lx_trie L) key = Some v /\ is_prefix key (skipn off text)
                        /\ e = N.of_nat (off + length key) /\ entries (lx_table L) v = Some ids /\ In r ids /\ w = stamp dic r.
Proof.
  intros Hl w e. unfold lex_lookup in Hl. rewrite (expand_in _ _ _ _ Hl w e). split.
  - intros [v [ids [r [Hin [He [Hr ->]]]]]]. apply traverse_in in Hin.
    destruct Hin as [key [Hne [Ha [Hp ->]]]]. exists key, v, ids, r. repeat split; assumption.
  - intros [key [v [ids [r [Hne [Ha [Hp [-> [He [Hr ->]]]]]]]]]]. exists v, ids, r.
    split; [|repeat split; assumption]. apply traverse_in. exists key. repeat split; assumption.
Qed.

Lemma number_in {A} (l : list A) : forall i d x, In (d, x) (number i l) <-> exists n, d = i + N.of_nat n /\ nth_error l n = Some x.
Proof.
  induction l as [|y t IH]; intros i d x; cbn [number].
  - split; [intros []|intros [n [_ Hn]]; destruct n; discriminate].
  - cbn [In]. rewrite IH. split.
    + intros [Heq|[n [-> Hn]]]; [injection Heq as <- <-; exists 0%nat; split; [lia|reflexivity]|].
      exists (S n). split; [lia|exact Hn].
    + intros [[|n] [-> Hn]]; [left; cbn in Hn; injection Hn as <-; f_equal; lia|].
      right. exists n. split; [lia|exact Hn].
Qed.

Lemma lookup_order_in {A} (l : list A) x : In x (lookup_order l) <-> In x l.
Proof. unfold lookup_order. destruct LF.lookup_reversed; [symmetry; apply in_rev|reflexivity]. Qed.

(* the set: an entry is returned iff some lexicon d returns it, stamped with d = the lexicon's position *)
Lemma lookup_set_in lexs text off l :
  lookup_set lexs text off = Some l ->
  forall w e, In (w, e) l <->
    exists d L ld, nth_error lexs d = Some L /\ lex_lookup L (N.of_nat d) text off = Some ld /\ In (w, e) ld.
Proof.
  intros Hl w e. unfold lookup_set in Hl.
  destruct (concat_opt_spec _ _ Hl) as [_ Hin]. rewrite Hin. split.
  - intros [y [Hy Hx]]. apply in_map_iff in Hy. destruct Hy as [[d L] [Hk Hdl]]. cbn [fst snd] in Hk.
    apply (proj1 (lookup_order_in _ _)) in Hdl. apply (proj1 (number_in _ _ _ _)) in Hdl. destruct Hdl as [n [-> Hn]].
    exists n, L, y. rewrite N.add_0_l in Hk. repeat split; assumption.
  - intros [d [L [ld [Hn [Hk Hx]]]]]. exists ld. split; [|exact Hx].
    apply in_map_iff. exists (N.of_nat d, L). split; [exact Hk|].
    apply (proj2 (lookup_order_in _ _)). apply (proj2 (number_in _ _ _ _)). exists d. split; [lia|exact Hn].
Qed.

(* ---------- capacity ---------- *)
Section Guards.
Hypothesis H : guards_ok = true.

Lemma guard_facts :
  LF.is_full_cmp = ">="%string /\ LM.MAX_DICTIONARIES = 15 /\ LF.rebase_dic_cmp = ">"%string /\ LF.rebase_dic_rhs = 0
  /\ LF.rebase_pos_cmp = ">="%string /\ LF.restamp_cmp = ">"%string /\ LF.restamp_rhs = 0.
Proof.
  unfold guards_ok in H. repeat rewrite andb_true_iff in H. repeat rewrite N.eqb_eq in H. repeat rewrite String.eqb_eq in H. tauto.
Qed.

Lemma is_full_spec s : is_full s = (15 <=? N.of_nat (length (s_words s))).
Proof. destruct guard_facts as [E1 [E2 _]]. unfold is_full. rewrite E1, E2. reflexivity. Qed.

Lemma merge_all_capacity : forall us s,
  (exists s', merge_all s us = Some s') <-> (length (s_words s) + length us <= 15)%nat \/ us = [].
Proof.
  induction us as [|u t IH]; intros s.
  - cbn. split; [intros _; right; reflexivity|intros _; eexists; reflexivity].
  - cbn [merge_all]. unfold merge_user. rewrite is_full_spec.
    destruct (15 <=? N.of_nat (length (s_words s))) eqn:E.
    + split; [intros [s' Hs]; discriminate|]. intros [Hl|Hn]; [cbn [length] in Hl; lia|discriminate].
    + rewrite IH. cbn [s_words length]. rewrite app_length. cbn [length]. split.
      * intros [Hl|Hn]; left; [lia|subst t; cbn [length]; lia].
      * intros [Hl|Hn]; [left; lia|discriminate].
Qed.

(* system dictionary + 14 user dictionaries are accepted, the 15th is rejected *)
Lemma fifteenth_rejected : forall s us,
  length (s_words s) = 1%nat -> ((exists s', merge_all s us = Some s') <-> (length us <= 14)%nat).
Proof.
  intros s us H1. rewrite merge_all_capacity. rewrite H1. split.
  - intros [Hl | ->]; [lia|cbn; lia].
  - intros Hl. left. lia.
Qed.

(* ---------- references are re-stamped with the number of the dictionary that holds the word ---------- *)
Lemma restamp_spec dic ids :
  restamp dic ids = map (fun w => if 0 <? dic_of w then stamp dic (word_of w) else w) ids.
Proof. destruct guard_facts as [_ [_ [_ [_ [_ [E6 E7]]]]]]. unfold restamp. rewrite E6, E7. reflexivity. Qed.
End Guards.

Lemma split_restamp : layout_ok = true -> guards_ok = true ->
  forall d w, d < 16 -> w <= WORD_MASK ->
  restamp d [stamp 1 w] = [stamp d w] /\ restamp d [stamp 0 w] = [stamp 0 w].
Proof.
  intros HL HG d w Hd Hw. rewrite !(restamp_spec HG). cbn [map].
  rewrite !(dic_of_stamp HL) by (try lia; assumption). rewrite (word_of_stamp HL) by (try lia; assumption).
  split; reflexivity.
Qed.

(* restamped references only ever point into the system dictionary or into the word's own dictionary *)
Lemma restamp_targets : layout_ok = true -> guards_ok = true ->
  forall d ids w, d < 16 -> In w (restamp d ids) -> dic_of w = 0 \/ dic_of w = d.
Proof.
  intros HL HG d ids w Hd Hin. rewrite (restamp_spec HG) in Hin. apply in_map_iff in Hin.
  destruct Hin as [x [<- _]]. destruct (0 <? dic_of x) eqn:E.
  - right. apply (dic_of_stamp HL); [exact Hd|]. unfold word_of.
    destruct (layout_facts HL) as [_ [_ [_ [E4 _]]]]. rewrite E4, N.land_ones, N.ones_equiv.
    pose proof (N.mod_upper_bound x (2 ^ 28)). change (2 ^ 28) with 268435456 in *. lia.
  - left. lia.
Qed.

(* ---------- part-of-speech tables ---------- *)
Lemma nth_error_app_some {A} (l l' : list A) n x : nth_error l n = Some x -> nth_error (l ++ l') n = Some x.
Proof.
  intros Hn. rewrite nth_error_app1; [exact Hn|]. apply nth_error_Some. congruence.
Qed.

Lemma index_of_spec p : forall l i r,
  index_of p l i = Some r -> exists n, r = i + N.of_nat n /\ nth_error l n = Some p.
Proof.
  induction l as [|x t IH]; intros i r Hr; cbn [index_of] in Hr; [discriminate|].
  destruct (x =? p) eqn:E.
  - injection Hr as <-. exists 0%nat. split; [lia|]. cbn. f_equal. lia.
  - destruct (IH _ _ Hr) as [n [-> Hn]]. exists (S n). split; [lia|exact Hn].
Qed.

Lemma register_pos_spec pl p pl' r :
  register_pos pl p = (pl', r) -> (exists ext, pl' = pl ++ ext) /\ nth_error pl' (N.to_nat r) = Some p.
Proof.
  unfold register_pos. destruct (index_of p pl 0) as [i|] eqn:E; intros Heq; injection Heq as <- <-.
  - destruct (index_of_spec _ _ _ _ E) as [n [-> Hn]]. split; [exists []; rewrite app_nil_r; reflexivity|].
    replace (N.to_nat (0 + N.of_nat n)) with n by lia. exact Hn.
  - split; [exists [p]; reflexivity|]. replace (N.to_nat (N.of_nat (length pl))) with (length pl) by lia.
    rewrite nth_error_app2 by lia. rewrite Nat.sub_diag. reflexivity.
Qed.

Lemma assign_pos_spec : forall ps known all ids,
  assign_pos known ps = (all, ids) ->
  (exists ext, all = known ++ ext) /\ length ids = length ps /\
  forall i p, nth_error ps i = Some p -> nth_error all (N.to_nat (nth i ids 0)) = Some p.
Proof.
  induction ps as [|p t IH]; intros known all ids Ha; cbn [assign_pos] in Ha.
  - injection Ha as <- <-. split; [exists []; rewrite app_nil_r; reflexivity|]. split; [reflexivity|].
    intros [|i] q Hq; discriminate.
  - destruct (register_pos known p) as [k1 r] eqn:Hr. destruct (assign_pos k1 t) as [k2 ids'] eqn:Ht.
    injection Ha as <- <-. destruct (register_pos_spec _ _ _ _ Hr) as [[e1 ->] Hn1].
    destruct (IH _ _ _ Ht) as [[e2 ->] [Hlen Hnth]]. split; [exists (e1 ++ e2); rewrite app_assoc; reflexivity|].
    split; [cbn [length]; rewrite Hlen; reflexivity|].
    intros [|i] q Hq; cbn [nth_error nth] in *.
    + injection Hq as <-. apply nth_error_app_some. exact Hn1.
    + apply Hnth. exact Hq.
Qed.

Lemma skipn_length_app {A} (a b : list A) : skipn (length a) (a ++ b) = b.
Proof. induction a as [|x t IH]; cbn; [reflexivity|exact IH]. Qed.

Lemma firstn_length_app {A} (a b : list A) : firstn (length a) (a ++ b) = a.
Proof. induction a as [|x t IH]; cbn; [reflexivity|rewrite IH; reflexivity]. Qed.

(* POS declared by row j of a dictionary source *)
Definition declared (reqs : list pos) (idx : list nat) (j : nat) : option pos :=
  match nth_error idx j with
  | Some i => nth_error reqs i
  | None => None
  end.

Lemma build_dict_spec pre reqs idx j p :
  declared reqs idx j = Some p ->
  exists raw, nth_error (u_word_pos (build_dict pre reqs idx)) j = Some raw
              /\ nth_error (pre ++ u_table (build_dict pre reqs idx)) (N.to_nat raw) = Some p.
Proof.
  unfold declared, build_dict. destruct (nth_error idx j) as [i|] eqn:Hi; [|discriminate]. intros Hp.
  destruct (assign_pos pre reqs) as [all ids] eqn:Ha. cbn [u_word_pos u_table].
  destruct (assign_pos_spec _ _ _ _ Ha) as [[ext ->] [_ Hnth]].
  exists (nth i ids 0). split.
  - apply (map_nth_error (fun i0 => nth i0 ids 0)). exact Hi.
  - rewrite skipn_length_app. apply Hnth. exact Hp.
Qed.

(* invariant of the loaded set: offsets and lexicons go together; the grammar starts with the system POS *)
Definition inv (sys_pos : list pos) (s : lexset) : Prop :=
  length (s_offsets s) = length (s_words s) /\ s_num_system_pos s = N.of_nat (length sys_pos)
  /\ (exists more, s_pos_list s = sys_pos ++ more) /\ (1 <= length (s_words s))%nat.

Section Pos.
Hypothesis HG : guards_ok = true.

Lemma rebase_spec s dic raw :
  rebase s dic raw =
  if (0 <? dic) && (s_num_system_pos s <=? raw)
  then match nth_error (s_offsets s) (N.to_nat dic) with Some o => Some (raw - s_num_system_pos s + o) | None => None end
  else Some raw.
Proof.
  destruct (guard_facts HG) as [_ [_ [E3 [E4 [E5 _]]]]]. unfold rebase. rewrite E3, E4, E5. reflexivity.
Qed.

Lemma merge_user_inv sys_pos s u s' : inv sys_pos s -> merge_user s u = Some s' -> inv sys_pos s'.
Proof.
  intros [I1 [I2 [[more I3] I4]]] Hm. unfold merge_user in Hm. destruct (is_full s); [discriminate|].
  injection Hm as <-. unfold inv. cbn [s_offsets s_words s_num_system_pos s_pos_list].
  rewrite !app_length. cbn [length]. split; [lia|]. split; [exact I2|]. split; [|lia].
  exists (more ++ u_table u). rewrite I3, app_assoc. reflexivity.
Qed.

(* words already present keep their POS when another dictionary is merged *)
Lemma merge_user_preserves s u s' d j p :
  length (s_offsets s) = length (s_words s) ->
  merge_user s u = Some s' -> word_pos s d j = Some p -> word_pos s' d j = Some p.
Proof.
  intros I1 Hm Hw. unfold merge_user in Hm. destruct (is_full s); [discriminate|]. injection Hm as <-.
  unfold word_pos, word_pos_id in *. cbn [s_words s_pos_list].
  destruct (nth_error (s_words s) (N.to_nat d)) as [ws|] eqn:Hd; [|discriminate].
  rewrite (nth_error_app_some _ _ _ _ Hd).
  destruct (nth_error ws (N.to_nat j)) as [raw|]; [|discriminate].
  rewrite rebase_spec in *. cbn [s_num_system_pos s_offsets].
  destruct ((0 <? d) && (s_num_system_pos s <=? raw)).
  - destruct (nth_error (s_offsets s) (N.to_nat d)) as [o|] eqn:Ho; [|discriminate].
    rewrite (nth_error_app_some _ _ _ _ Ho). apply nth_error_app_some. exact Hw.
  - apply nth_error_app_some. exact Hw.
Qed.

(* the words of a freshly merged dictionary compiled from the system POS report what their rows declare *)
Lemma merge_user_new sys_pos s reqs idx s' j p :
  inv sys_pos s ->
  merge_user s (build_dict sys_pos reqs idx) = Some s' ->
  declared reqs idx j = Some p ->
  word_pos s' (N.of_nat (length (s_words s))) (N.of_nat j) = Some p.
Proof.
  intros [I1 [I2 [[more I3] I4]]] Hm Hd.
  destruct (build_dict_spec sys_pos reqs idx j p Hd) as [raw [Hraw Hp]].
  unfold merge_user in Hm. destruct (is_full s); [discriminate|]. injection Hm as <-.
  unfold word_pos, word_pos_id. cbn [s_words s_pos_list].
  replace (N.to_nat (N.of_nat (length (s_words s)))) with (length (s_words s)) by lia.
  rewrite nth_error_app2 by lia. rewrite Nat.sub_diag. cbn [nth_error].
  replace (N.to_nat (N.of_nat j)) with j by lia. rewrite Hraw.
  rewrite rebase_spec. cbn [s_num_system_pos s_offsets]. rewrite I2.
  replace (0 <? N.of_nat (length (s_words s))) with true by lia. cbn [andb].
  destruct (N.of_nat (length sys_pos) <=? raw) eqn:E.
  - replace (N.to_nat (N.of_nat (length (s_words s)))) with (length (s_offsets s)) by lia.
    rewrite nth_error_app2 by lia. rewrite Nat.sub_diag. cbn [nth_error].
    rewrite nth_error_app2 in Hp by lia.
    rewrite nth_error_app2 by lia.
    replace (N.to_nat (raw - N.of_nat (length sys_pos) + N.of_nat (length (s_pos_list s))) - length (s_pos_list s))%nat
      with (N.to_nat raw - length sys_pos)%nat by lia.
    exact Hp.
  - rewrite nth_error_app1 in Hp by lia. rewrite I3. apply nth_error_app_some. apply nth_error_app_some. exact Hp.
Qed.

Lemma preload_spec sys_pos s : preload_ok = true -> inv sys_pos s -> preload (s_pos_list s) (length sys_pos) = sys_pos.
Proof.
  intros HP [_ [_ [[more I3] _]]]. unfold preload. unfold preload_ok in HP. rewrite HP, I3. apply firstn_length_app.
Qed.

Lemma stack_users_spec sys_pos : preload_ok = true -> forall us s sf,
  inv sys_pos s -> stack_users s us sys_pos = Some sf ->
  inv sys_pos sf /\
  (forall d j p, word_pos s d j = Some p -> word_pos sf d j = Some p) /\
  (forall k cf reqs idx j p, nth_error us k = Some (cf, reqs, idx) -> declared reqs idx j = Some p ->
                             word_pos sf (N.of_nat (length (s_words s) + k)) (N.of_nat j) = Some p).
Proof.
  intros HP. induction us as [|[[cf reqs] idx] t IH]; intros s sf Hinv Hs; cbn [stack_users] in Hs.
  - injection Hs as <-. split; [exact Hinv|]. split; [auto|]. intros [|k]; discriminate.
  - assert (Hpre : (if cf then preload (s_pos_list s) (length sys_pos) else sys_pos) = sys_pos)
      by (destruct cf; [apply preload_spec; assumption|reflexivity]).
    rewrite Hpre in Hs.
    destruct (merge_user s (build_dict sys_pos reqs idx)) as [s1|] eqn:Hm; [|discriminate].
    pose proof (merge_user_inv _ _ _ _ Hinv Hm) as Hinv1.
    destruct (IH s1 sf Hinv1 Hs) as [Hf [Hkeep Hnew]]. split; [exact Hf|]. split.
    + intros d j p Hw. apply Hkeep. apply (merge_user_preserves s _ s1 d j p (proj1 Hinv) Hm Hw).
    + assert (Hlen : length (s_words s1) = S (length (s_words s))).
      { unfold merge_user in Hm. destruct (is_full s); [discriminate|]. injection Hm as <-. cbn [s_words].
        rewrite app_length. cbn [length]. lia. }
      intros [|k] cf' reqs' idx' j p Hk Hd; cbn [nth_error] in Hk.
      * injection Hk as <- <- <-. apply Hkeep. rewrite Nat.add_0_r.
        apply (merge_user_new sys_pos s reqs idx s1 j p Hinv Hm Hd).
      * replace (length (s_words s) + S k)%nat with (length (s_words s1) + k)%nat by lia.
        apply (Hnew k cf' reqs' idx' j p Hk Hd).
Qed.

Lemma handle_user_pos_spec pl p allow pl' i :
  handle_user_pos pl p allow = Some (pl', i) -> (exists ext, pl' = pl ++ ext) /\ nth_error pl' (N.to_nat i) = Some p.
Proof.
  unfold handle_user_pos. destruct (index_of p pl 0) as [r|] eqn:E.
  - intros Heq. injection Heq as <- <-. destruct (index_of_spec _ _ _ _ E) as [n [-> Hn]].
    split; [exists []; rewrite app_nil_r; reflexivity|]. replace (N.to_nat (0 + N.of_nat n)) with n by lia. exact Hn.
  - destruct allow; [|discriminate]. intros Heq. injection Heq as Heq. apply register_pos_spec. exact Heq.
Qed.

(* plugins only append to the grammar, and every plugin gets an id naming the POS it asked for *)
Lemma load_plugins_spec : forall reqs pl pl' ids,
  load_plugins pl reqs = Some (pl', ids) ->
  (exists ext, pl' = pl ++ ext) /\ length ids = length reqs /\
  forall k p allow, nth_error reqs k = Some (p, allow) -> nth_error pl' (N.to_nat (nth k ids 0)) = Some p.
Proof.
  induction reqs as [|[p allow] t IH]; intros pl pl' ids Hl; cbn [load_plugins] in Hl.
  - injection Hl as <- <-. split; [exists []; rewrite app_nil_r; reflexivity|]. split; [reflexivity|].
    intros [|k]; discriminate.
  - destruct (handle_user_pos pl p allow) as [[pl1 i]|] eqn:Hh; [|discriminate].
    destruct (load_plugins pl1 t) as [[pl2 ids']|] eqn:Ht; [|discriminate]. injection Hl as <- <-.
    destruct (handle_user_pos_spec _ _ _ _ _ Hh) as [[e1 ->] Hi].
    destruct (IH _ _ _ Ht) as [[e2 ->] [Hlen Hnth]].
    split; [exists (e1 ++ e2); rewrite app_assoc; reflexivity|]. split; [cbn [length]; rewrite Hlen; reflexivity|].
    intros [|k] q a Hk; cbn [nth_error nth] in *.
    + injection Hk as <- <-. apply nth_error_app_some. exact Hi.
    + apply (Hnth k q a Hk).
Qed.

(* the system dictionary alone: its words report their declared POS *)
Lemma system_new sys_reqs sys_idx pl j p :
  (exists ext, pl = u_table (build_dict [] sys_reqs sys_idx) ++ ext) ->
  declared sys_reqs sys_idx j = Some p ->
  word_pos (mkSet (N.of_nat (length (u_table (build_dict [] sys_reqs sys_idx)))) pl [0]
                  [u_word_pos (build_dict [] sys_reqs sys_idx)]) 0 (N.of_nat j) = Some p.
Proof.
  intros [ext ->] Hd. destruct (build_dict_spec [] sys_reqs sys_idx j p Hd) as [raw [Hraw Hp]].
  unfold word_pos, word_pos_id. cbn [s_words s_pos_list]. change (N.to_nat 0) with 0%nat. cbn [nth_error].
  replace (N.to_nat (N.of_nat j)) with j by lia. rewrite Hraw. rewrite rebase_spec.
  replace (0 <? 0) with false by reflexivity. cbn [andb app] in *. apply nth_error_app_some. exact Hp.
Qed.

(* headline: any system dictionary, any plugin registrations, any stack of user dictionaries compiled by either route:
   every word of every layer reports exactly the POS its row declares *)
Lemma pos_strings_preserved : preload_ok = true ->
  forall sys_reqs sys_idx plugins us s, configure sys_reqs sys_idx plugins us = Some s ->
  (forall j p, declared sys_reqs sys_idx j = Some p -> word_pos s 0 (N.of_nat j) = Some p) /\
  (forall k cf reqs idx j p, nth_error us k = Some (cf, reqs, idx) -> declared reqs idx j = Some p ->
                             word_pos s (N.of_nat (S k)) (N.of_nat j) = Some p).
Proof.
  intros HP sys_reqs sys_idx plugins us s Hc. unfold configure in Hc.
  destruct (load_plugins (u_table (build_dict [] sys_reqs sys_idx)) plugins) as [[pl ids]|] eqn:Hl; [|discriminate].
  destruct (load_plugins_spec _ _ _ _ Hl) as [Hext _].
  set (sysd := build_dict [] sys_reqs sys_idx) in *.
  set (s0 := mkSet (N.of_nat (length (u_table sysd))) pl [0] [u_word_pos sysd]) in *.
  assert (Hinv : inv (u_table sysd) s0).
  { unfold inv, s0. cbn [s_offsets s_words s_num_system_pos s_pos_list length]. split; [reflexivity|]. split; [reflexivity|]. split; [exact Hext|lia]. }
  destruct (stack_users_spec (u_table sysd) HP us s0 s Hinv Hc) as [_ [Hkeep Hnew]]. split.
  - intros j p Hd. apply Hkeep. apply system_new; assumption.
  - intros k cf reqs idx j p Hk Hd. apply (Hnew k cf reqs idx j p Hk Hd).
Qed.

(* pos_list_shape: the grammar of a configured stack is  system POS ++ what plugins registered ++ user tables in order *)
Lemma stack_users_shape sys_pos : preload_ok = true -> forall us s sf,
  inv sys_pos s -> stack_users s us sys_pos = Some sf ->
  s_pos_list sf = s_pos_list s ++ flat_map (fun src => u_table (build_dict sys_pos (snd (fst src)) (snd src))) us.
Proof.
  intros HP. induction us as [|[[cf reqs] idx] t IH]; intros s sf Hinv Hs; cbn [stack_users] in Hs.
  - injection Hs as <-. cbn. rewrite app_nil_r. reflexivity.
  - assert (Hpre : (if cf then preload (s_pos_list s) (length sys_pos) else sys_pos) = sys_pos)
      by (destruct cf; [apply preload_spec; assumption|reflexivity]).
    rewrite Hpre in Hs.
    destruct (merge_user s (build_dict sys_pos reqs idx)) as [s1|] eqn:Hm; [|discriminate].
    rewrite (IH s1 sf (merge_user_inv _ _ _ _ Hinv Hm) Hs).
    unfold merge_user in Hm. destruct (is_full s); [discriminate|]. injection Hm as <-.
    cbn [s_pos_list flat_map fst snd]. rewrite app_assoc. reflexivity.
Qed.
End Pos.

(* ====================================================================================================
   The per-dictionary certificate: cert_lex = true makes Lexicon::lookup equal to the naive scan of the CSV,
   for every byte text and every offset
   ==================================================================================================== *)
Lemma list_eqb_N_eq : forall l1 l2 : list N, list_eqb N.eqb l1 l2 = true <-> l1 = l2.
Proof.
  induction l1 as [|x t IH]; intros [|y u]; cbn; split; intros H; try reflexivity; try discriminate.
  - apply andb_true_iff in H. destruct H as [H1 H2]. apply N.eqb_eq in H1. apply IH in H2. subst. reflexivity.
  - injection H as -> ->. apply andb_true_iff. split; [apply N.eqb_refl|apply IH; reflexivity].
Qed.

Lemma prefix_b_spec : forall k rest, prefix_b k rest = true <-> is_prefix k rest.
Proof.
  induction k as [|x k IH]; intros rest; cbn [prefix_b].
  - split; [intros _; exists rest; reflexivity|reflexivity].
  - destruct rest as [|y r].
    + split; [discriminate|intros [s Hs]; discriminate].
    + rewrite andb_true_iff, N.eqb_eq, IH. split.
      * intros [-> [s ->]]. exists s. reflexivity.
      * intros [s Hs]. cbn in Hs. injection Hs as -> ->. split; [reflexivity|exists s; reflexivity].
Qed.

Lemma rows_with_in k rows i :
  In i (rows_with k rows) <-> exists r, nth_error rows (N.to_nat i) = Some r /\ indexed r = true /\ fst r = k.
Proof.
  unfold rows_with. rewrite in_flat_map. split.
  - intros [[j r] [Hin Hi]]. cbn [fst snd] in Hi. apply (proj1 (number_in _ _ _ _)) in Hin.
    destruct Hin as [n [-> Hn]].
    destruct (indexed r && bytes_eqb (fst r) k) eqn:E; [|contradiction].
    destruct Hi as [<-|[]]. apply andb_true_iff in E. destruct E as [E1 E2]. apply list_eqb_N_eq in E2.
    exists r. replace (N.to_nat (0 + N.of_nat n)) with n by lia. repeat split; assumption.
  - intros [r [Hn [Hi <-]]]. exists (i, r). split.
    + apply (proj2 (number_in _ _ _ _)). exists (N.to_nat i). split; [lia|exact Hn].
    + cbn [fst snd]. rewrite Hi. replace (bytes_eqb (fst r) (fst r)) with true
        by (symmetry; apply list_eqb_N_eq; reflexivity). left. reflexivity.
Qed.

Lemma naive_lex_in dic rows text off w e :
  In (w, e) (naive_lex dic rows text off) <->
  exists i r, nth_error rows (N.to_nat i) = Some r /\ indexed r = true /\ is_prefix (fst r) (skipn off text)
              /\ w = stamp dic i /\ e = N.of_nat (off + length (fst r)).
Proof.
  unfold naive_lex. rewrite in_flat_map. split.
  - intros [[j r] [Hin Hi]]. cbn [fst snd] in Hi. apply (proj1 (number_in _ _ _ _)) in Hin.
    destruct Hin as [n [-> Hn]].
    destruct (indexed r && prefix_b (fst r) (skipn off text)) eqn:E; [|contradiction].
    destruct Hi as [Heq|[]]. injection Heq as <- <-. apply andb_true_iff in E. destruct E as [E1 E2].
    apply prefix_b_spec in E2. exists (0 + N.of_nat n), r.
    replace (N.to_nat (0 + N.of_nat n)) with n by lia. repeat split; assumption.
  - intros [i [r [Hn [Hi [Hp [-> ->]]]]]]. exists (i, r). split.
    + apply (proj2 (number_in _ _ _ _)). exists (N.to_nat i). split; [lia|exact Hn].
    + cbn [fst snd]. rewrite Hi. apply prefix_b_spec in Hp. rewrite Hp. left. reflexivity.
Qed.

Lemma stamp_all_total dic e : N.land dic LF.DIC_MASK = dic -> forall ids,
  Forall (fun r => N.land r WORD_MASK = r) ids -> exists l, stamp_all dic ids e = Some l.
Proof.
  intros Hd. induction ids as [|r t IH]; intros Hf; [eexists; reflexivity|].
  inversion Hf as [|r' t' Hr Ht]; subst. destruct (IH Ht) as [l Hl]. cbn [stamp_all]. unfold stamp_dbg.
  rewrite Hd, Hr, !N.eqb_refl. cbn [andb]. rewrite Hl. eexists. reflexivity.
Qed.

Lemma expand_total tbl dic : N.land dic LF.DIC_MASK = dic -> forall es,
  (forall v e, In (v, e) es -> exists ids, entries tbl v = Some ids /\ Forall (fun r => N.land r WORD_MASK = r) ids) ->
  exists l, expand tbl dic es = Some l.
Proof.
  intros Hd. induction es as [|[v e] t IH]; intros H; [eexists; reflexivity|].
  destruct (H v e (or_introl eq_refl)) as [ids [He Hf]].
  destruct (stamp_all_total dic e Hd ids Hf) as [x Hx].
  destruct (IH (fun v' e' Hin => H v' e' (or_intror Hin))) as [y Hy].
  cbn [expand]. rewrite He, Hx, Hy. eexists. reflexivity.
Qed.

Lemma accept_value_nonempty a key v : accept_value a key = Some v -> key <> [].
Proof. intros H ->. unfold accept_value, accept_from, value_at in H. cbn in H. discriminate. Qed.

(* what the per-dictionary certificate says, as a proposition: the keys the array accepts are the indexed surfaces of the CSV and
   every key's table group lists exactly the rows carrying that surface, in row order *)
Definition cert_prop (L : lexicon) (rows : list row) (fuel : nat) : Prop :=
  exists ks, keys_of (lx_trie L) fuel = Some ks /\
  (forall k v, In (k, v) ks -> rows_with k rows <> [] /\ entries (lx_table L) v = Some (rows_with k rows)
                               /\ Forall (fun r => N.land r WORD_MASK = r) (rows_with k rows)) /\
  (forall r, In r rows -> indexed r = true -> exists v, In (fst r, v) ks).

Lemma cert_parts (L : lexicon) (rows : list row) (fuel : nat) : cert_lex L rows fuel = true -> cert_prop L rows fuel.
Proof.
  intros Hcert. unfold cert_prop.
  unfold cert_lex in Hcert. destruct (keys_of (lx_trie L) fuel) as [ks|]; [|discriminate].
  apply andb_true_iff in Hcert. destruct Hcert as [H1 H2]. exists ks. split; [reflexivity|]. split.
  - intros k v Hin. rewrite forallb_forall in H1. specialize (H1 (k, v) Hin). cbn [fst snd] in H1.
    destruct (rows_with k rows) as [|i0 t] eqn:E; [discriminate|].
    apply andb_true_iff in H1. destruct H1 as [Ha Hb]. split; [discriminate|]. split.
    + destruct (entries (lx_table L) v) as [ids|]; cbn in Ha; [|discriminate].
      apply list_eqb_N_eq in Ha. subst. reflexivity.
    + rewrite forallb_forall in Hb. apply Forall_forall. intros r Hr. apply N.eqb_eq. apply Hb. exact Hr.
  - intros r Hin Hi. rewrite forallb_forall in H2. specialize (H2 r Hin). rewrite Hi in H2. cbn [negb orb] in H2.
    apply existsb_exists in H2. destruct H2 as [[k v] [Hk He]]. cbn [fst] in He. apply list_eqb_N_eq in He. subst k.
    exists v. exact Hk.
Qed.

Section Cert.
Variables (L : lexicon) (rows : list row) (fuel : nat).
Hypothesis Hcp : cert_prop L rows fuel.

(* certified dictionary: for EVERY byte text and offset, Lexicon::lookup succeeds and returns exactly the rows of the CSV
   that are indexed and whose surface is a prefix of the text at that offset, with the right end and word number *)
Lemma lex_lookup_exact_of_cert_prop : forall dic text off,
  N.land dic LF.DIC_MASK = dic -> bytes text ->
  exists l, lex_lookup L dic text off = Some l /\
            forall w e, In (w, e) l <-> In (w, e) (naive_lex dic rows text off).
Proof.
  intros dic text off Hd Hb. destruct Hcp as [ks [Hk [Hks Hrows]]].
  assert (Hbs : forall key, is_prefix key (skipn off text) -> bytes key).
  { intros key [suffix Hs]. assert (Hb2 : bytes (skipn off text)).
    { unfold bytes in *. rewrite Forall_forall in *. intros x Hx. apply Hb.
      rewrite <- (firstn_skipn off text). apply in_or_app. right. exact Hx. }
    rewrite Hs in Hb2. unfold bytes in Hb2. apply Forall_app in Hb2. exact (proj1 Hb2). }
  assert (Htot : exists l, lex_lookup L dic text off = Some l).
  { unfold lex_lookup. apply expand_total; [exact Hd|]. intros v e Hin.
    apply traverse_in in Hin. destruct Hin as [key [Hne [Ha [Hp _]]]].
    assert (Hin : In (key, v) ks) by (apply (check_trie_sound _ _ _ Hk); split; [exact (Hbs key Hp)|exact Ha]).
    destruct (Hks key v Hin) as [_ [He Hf]]. exists (rows_with key rows). split; assumption. }
  destruct Htot as [l Hl]. exists l. split; [exact Hl|]. intros w e.
  rewrite (lex_lookup_in L dic text off l Hl w e), naive_lex_in. split.
  - intros [key [v [ids [r [Hne [Ha [Hp [-> [He [Hr ->]]]]]]]]]].
    assert (Hin : In (key, v) ks) by (apply (check_trie_sound _ _ _ Hk); split; [exact (Hbs key Hp)|exact Ha]).
    destruct (Hks key v Hin) as [_ [He' _]]. rewrite He' in He. injection He as <-.
    apply rows_with_in in Hr. destruct Hr as [rw [Hn [Hi Hf]]]. exists r, rw. subst key. repeat split; assumption.
  - intros [i [rw [Hn [Hi [Hp [-> ->]]]]]].
    destruct (Hrows rw (nth_error_In _ _ Hn) Hi) as [v Hin].
    destruct (Hks (fst rw) v Hin) as [_ [He _]].
    apply (check_trie_sound _ _ _ Hk) in Hin. destruct Hin as [_ Ha].
    exists (fst rw), v, (rows_with (fst rw) rows), i.
    split; [exact (accept_value_nonempty _ _ _ Ha)|]. split; [exact Ha|]. split; [exact Hp|]. split; [reflexivity|].
    split; [exact He|]. split; [|reflexivity]. apply rows_with_in. exists rw. repeat split; assumption.
Qed.
End Cert.

Lemma lex_lookup_exact_of_cert (L : lexicon) (rows : list row) (fuel : nat) :
  cert_lex L rows fuel = true ->
  forall dic text off, N.land dic LF.DIC_MASK = dic -> bytes text ->
  exists l, lex_lookup L dic text off = Some l /\
            forall w e, In (w, e) l <-> In (w, e) (naive_lex dic rows text off).
Proof. intros H. exact (lex_lookup_exact_of_cert_prop L rows fuel (cert_parts L rows fuel H)). Qed.

(* exact-surface lookup: the ids of lookup(q, 0) whose end is the end of the query *)
Lemma exact_lookup_spec lexs q ids :
  exact_lookup lexs q = Some ids ->
  forall w, In w ids <-> exists l, lookup_set lexs q 0 = Some l /\ In (w, N.of_nat (length q)) l.
Proof.
  unfold exact_lookup. destruct (lookup_set lexs q 0) as [l|]; [|discriminate]. intros Heq. injection Heq as <-.
  intros w. rewrite in_map_iff. split.
  - intros [[w' e] [<- Hin]]. apply filter_In in Hin. destruct Hin as [Hin He]. cbn [snd fst] in *.
    apply N.eqb_eq in He. subst e. exists l. split; [reflexivity|exact Hin].
  - intros [l' [Heq Hin]]. injection Heq as <-. exists (w, N.of_nat (length q)). split; [reflexivity|].
    apply filter_In. split; [exact Hin|]. cbn [snd]. apply N.eqb_refl.
Qed.

(* ---------- each entry exactly once ---------- *)
Lemma NoDup_app_disjoint {A} (x y : list A) :
  NoDup x -> NoDup y -> (forall a, In a x -> ~ In a y) -> NoDup (x ++ y).
Proof.
  induction x as [|a t IH]; intros Hx Hy Hd; [exact Hy|].
  inversion Hx as [|a' t' Ha Ht]; subst. cbn [app]. constructor.
  - rewrite in_app_iff. intros [H|H]; [exact (Ha H)|exact (Hd a (or_introl eq_refl) H)].
  - apply IH; [exact Ht|exact Hy|]. intros b Hb. apply Hd. right. exact Hb.
Qed.

Lemma rows_with_from_nodup k : forall rows i,
  let l := flat_map (fun ir : N * row => if indexed (snd ir) && bytes_eqb (fst (snd ir)) k then [fst ir] else [])
                    (number i rows) in
  NoDup l /\ forall x, In x l -> i <= x.
Proof.
  induction rows as [|r t IH]; intros i; cbn [number flat_map]; [split; [constructor|intros x []]|].
  destruct (IH (i + 1)) as [Hn Hge]. cbn [fst snd].
  destruct (indexed r && bytes_eqb (fst r) k); cbn [app].
  - split.
    + constructor; [|exact Hn]. intros Hin. specialize (Hge i Hin). lia.
    + intros x [<-|Hx]; [lia|]. specialize (Hge x Hx). lia.
  - split; [exact Hn|]. intros x Hx. specialize (Hge x Hx). lia.
Qed.

Lemma rows_with_nodup k rows : NoDup (rows_with k rows).
Proof. exact (proj1 (rows_with_from_nodup k rows 0)). Qed.

Lemma expand_nodup tbl dic : layout_ok = true -> dic < 16 -> forall es l lo,
  expand tbl dic es = Some l -> ends_above lo es ->
  (forall v e ids, In (v, e) es -> entries tbl v = Some ids -> NoDup ids /\ Forall (fun r => r <= WORD_MASK) ids) ->
  NoDup l.
Proof.
  intros HL Hd. induction es as [|[v0 e0] t IH]; intros l lo Hl He Hids; cbn [expand] in Hl.
  - injection Hl as <-. constructor.
  - destruct (entries tbl v0) as [ids0|] eqn:Hent; [|discriminate].
    destruct (stamp_all dic ids0 e0) as [x|] eqn:Hs; [|discriminate].
    destruct (expand tbl dic t) as [y|] eqn:Hy; [|discriminate]. injection Hl as <-.
    apply stamp_all_spec in Hs. subst x. cbn [ends_above] in He. destruct He as [_ He].
    destruct (Hids v0 e0 ids0 (or_introl eq_refl) Hent) as [Hnd Hsmall].
    apply NoDup_app_disjoint.
    + clear -HL Hd Hnd Hsmall. induction ids0 as [|r u IHu]; [constructor|].
      inversion Hnd as [|r' u' Hr Hu]; subst. inversion Hsmall as [|r' u' Hr1 Hu1]; subst. cbn [map]. constructor.
      * intros Hin. apply in_map_iff in Hin. destruct Hin as [r2 [Heq Hin2]]. injection Heq as Heq.
        assert (Hr2 : r2 <= WORD_MASK) by (rewrite Forall_forall in Hu1; exact (Hu1 r2 Hin2)).
        destruct (stamp_inj HL dic r2 dic r Hd Hd Hr2 Hr1 Heq) as [_ ->]. exact (Hr Hin2).
      * exact (IHu Hu Hu1).
    + apply (IH y e0 eq_refl He). intros v e ids Hin Hent'. apply (Hids v e ids); [right; exact Hin|exact Hent'].
    + intros [w e] Hin Hin2. apply in_map_iff in Hin. destruct Hin as [r [Heq _]]. injection Heq as _ <-.
      apply (expand_in tbl dic t y Hy w e0) in Hin2. destruct Hin2 as [v [ids [r2 [Hin2 _]]]].
      pose proof (ends_above_all e0 t He v e0 Hin2). lia.
Qed.

(* certified dictionary: Lexicon::lookup reports no entry twice, for every byte text and offset *)
Lemma lex_lookup_nodup_of_cert_prop L rows fuel :
  layout_ok = true -> cert_prop L rows fuel ->
  forall dic text off l, dic < 16 -> bytes text -> lex_lookup L dic text off = Some l -> NoDup l.
Proof.
  intros HL Hcert dic text off l Hd Hb Hl. destruct Hcert as [ks [Hk [Hks _]]].
  unfold lex_lookup in Hl.
  apply (expand_nodup _ dic HL Hd _ l (N.of_nat off) Hl (traverse_ends_increase _ text off)).
  intros v e ids Hin Hent. apply traverse_in in Hin. destruct Hin as [key [Hne [Ha [Hp _]]]].
  assert (Hbk : bytes key).
  { destruct Hp as [suffix Hs]. assert (Hb2 : bytes (skipn off text)).
    { unfold bytes in *. rewrite Forall_forall in *. intros x Hx. apply Hb.
      rewrite <- (firstn_skipn off text). apply in_or_app. right. exact Hx. }
    rewrite Hs in Hb2. unfold bytes in Hb2. apply Forall_app in Hb2. exact (proj1 Hb2). }
  assert (Hin : In (key, v) ks) by (apply (check_trie_sound _ _ _ Hk); split; assumption).
  destruct (Hks key v Hin) as [_ [He Hf]]. rewrite He in Hent. injection Hent as <-.
  split; [apply rows_with_nodup|].
  destruct (layout_facts HL) as [_ [_ [_ [E4 _]]]].
  rewrite Forall_forall in *. intros r Hr. specialize (Hf r Hr). rewrite <- Hf. rewrite E4, N.land_ones, N.ones_equiv.
  pose proof (N.mod_upper_bound r (2 ^ 28)). change (2 ^ 28) with 268435456 in *. lia.
Qed.

Lemma lex_lookup_nodup_of_cert L rows fuel :
  layout_ok = true -> cert_lex L rows fuel = true ->
  forall dic text off l, dic < 16 -> bytes text -> lex_lookup L dic text off = Some l -> NoDup l.
Proof. intros HL H. exact (lex_lookup_nodup_of_cert_prop L rows fuel HL (cert_parts L rows fuel H)). Qed.

(* ---------- tokens joined by path rewrite plugins ---------- *)
(* Morpheme::dictionary_id / is_oov / WordId::is_oov as Model/LexSet.v reported_dic / is_oov have them *)
Definition accessor_shape_ok : bool :=
  String.eqb LF.dictionary_id_shape "oov->-1;else->dic" && (LF.IS_OOV_DIC =? LF.OOV_DIC).

(* every reference list is re-stamped under its own subset flag; a split unit is a word id literal only as a whole *)
Definition reference_shapes_ok : bool :=
  LF.restamp_per_list && String.eqb LF.unit_literal_rule "whole-unit ^U?[0-9]+$".

Definition join_shapes_ok : bool :=
  String.eqb LF.join_oov_wid_rule "max-of-parts;non-oov->(dic,MAX_WORD)" && LF.user_dict_per_listing.

Lemma fold_max_acc : forall ws a, a <= fold_left N.max ws a.
Proof. induction ws as [|x t IH]; intros a; cbn [fold_left]; [lia|]. specialize (IH (N.max a x)). lia. Qed.

Lemma fold_max_ge : forall ws a w, In w ws -> w <= fold_left N.max ws a.
Proof.
  induction ws as [|x t IH]; intros a w Hin; [contradiction|]. cbn [fold_left]. destruct Hin as [->|Hin].
  - pose proof (fold_max_acc t (N.max a w)). lia.
  - apply IH. exact Hin.
Qed.

Lemma fold_max_lt : forall ws a b, a < b -> Forall (fun w => w < b) ws -> fold_left N.max ws a < b.
Proof.
  induction ws as [|x t IH]; intros a b Ha Hf; cbn [fold_left]; [exact Ha|].
  inversion Hf as [|x' t' Hx Ht]; subst. apply IH; [lia|exact Ht].
Qed.

Lemma fold_max_in : forall ws a, fold_left N.max ws a = a \/ In (fold_left N.max ws a) ws.
Proof.
  induction ws as [|x t IH]; intros a; cbn [fold_left]; [left; reflexivity|].
  destruct (IH (N.max a x)) as [H|H]; [|right; right; exact H].
  rewrite H. destruct (N.max_spec a x) as [[_ E]|[_ E]]; rewrite E; [right; left; reflexivity|left; reflexivity].
Qed.

Lemma dic_of_u32 w : layout_ok = true -> w < 4294967296 -> dic_of w = w / 268435456 /\ dic_of w < 16.
Proof.
  intros HL Hw. destruct (layout_facts HL) as (_ & E2 & _). unfold dic_of. rewrite E2, N.shiftr_div_pow2.
  change (2 ^ 28) with 268435456.
  assert (w / 268435456 < 16) by (apply N.div_lt_upper_bound; lia).
  rewrite N.mod_small by lia. split; [reflexivity|assumption].
Qed.

(* a joined token with an out-of-vocabulary part is out of vocabulary and reports dictionary -1, whatever the other parts and
   their order are *)
Lemma joined_oov_reports_minus_one : layout_ok = true -> forall ws w,
  Forall (fun x => x < 4294967296) ws -> In w ws -> is_oov w = true ->
  is_oov (join_oov_wid ws) = true /\ reported_dic (join_oov_wid ws) = (-1)%Z.
Proof.
  intros HL ws w Hf Hin Ho. destruct (layout_facts HL) as (_ & _ & _ & _ & E5).
  assert (Hw : w < 4294967296) by (rewrite Forall_forall in Hf; exact (Hf w Hin)).
  set (m := fold_left N.max ws 0).
  assert (Hm : m < 4294967296) by (apply fold_max_lt; [lia|exact Hf]).
  assert (Hge : w <= m) by (apply fold_max_ge; exact Hin).
  destruct (dic_of_u32 w HL Hw) as [Ew Hw16]. destruct (dic_of_u32 m HL Hm) as [Em Hm16].
  unfold is_oov in Ho. rewrite E5 in Ho. apply N.eqb_eq in Ho.
  assert (Hdm : dic_of m = 15).
  { pose proof (N.div_le_mono w m 268435456 ltac:(lia) Hge). lia. }
  assert (Hom : is_oov m = true) by (unfold is_oov; rewrite E5, Hdm; reflexivity).
  unfold join_oov_wid. fold m. rewrite Hom. split; [exact Hom|]. unfold reported_dic. rewrite Hom. reflexivity.
Qed.

(* a joined token made of dictionary words only reports the dictionary of one of its parts *)
Lemma joined_dictionary_parts : layout_ok = true -> forall ws,
  ws <> [] -> Forall (fun x => x < 4294967296) ws -> Forall (fun x => is_oov x = false) ws ->
  exists w, In w ws /\ reported_dic (join_oov_wid ws) = Z.of_N (dic_of w).
Proof.
  intros HL ws Hne Hf Hno. destruct (layout_facts HL) as (_ & _ & _ & E4 & E5).
  set (m := fold_left N.max ws 0).
  assert (Hin : In m ws).
  { destruct (fold_max_in ws 0) as [H|H]; [|exact H]. fold m in H.
    destruct ws as [|x t]; [congruence|]. assert (x <= m) by (apply fold_max_ge; left; reflexivity).
    assert (x = 0) by lia. subst x. rewrite H. left. reflexivity. }
  exists m. split; [exact Hin|].
  assert (Hm : m < 4294967296) by (rewrite Forall_forall in Hf; exact (Hf m Hin)).
  assert (Hom : is_oov m = false) by (rewrite Forall_forall in Hno; exact (Hno m Hin)).
  destruct (dic_of_u32 m HL Hm) as [_ Hm16].
  unfold join_oov_wid. fold m. rewrite Hom. apply (reported_dic_stamp HL).
  - unfold is_oov in Hom. rewrite E5 in Hom. apply N.eqb_neq in Hom. lia.
  - rewrite E4. vm_compute. discriminate.
Qed.


(* the accessor: dictionary number for every dictionary 0..14 (also 8..14, whose number has the top bit of the nibble set),
   -1 exactly for out-of-vocabulary ids *)
Lemma dictionary_id_accessor : layout_ok = true ->
  (forall d raw, d < 15 -> raw <= WORD_MASK -> reported_dic (stamp d raw) = Z.of_N d /\ is_oov (stamp d raw) = false) /\
  (forall p, p <= WORD_MASK -> reported_dic (oov_id p) = (-1)%Z /\ is_oov (oov_id p) = true) /\
  (forall w, reported_dic w = (-1)%Z <-> is_oov w = true).
Proof.
  intros HL. destruct (layout_facts HL) as (_ & _ & _ & _ & E5). split; [|split].
  - intros d raw Hd Hr. split; [exact (reported_dic_stamp HL d raw Hd Hr)|].
    unfold is_oov. rewrite (dic_of_stamp HL d raw) by (try lia; assumption). rewrite E5. apply N.eqb_neq. lia.
  - intros p Hp. split; [exact (reported_dic_oov HL p Hp)|].
    unfold is_oov, oov_id. rewrite E5. rewrite (dic_of_stamp HL 15 p) by (try lia; assumption). reflexivity.
  - intros w. unfold reported_dic. destruct (is_oov w); split; intros H; try reflexivity; try discriminate. lia.
Qed.

(* ---------- the plugin set-up sequence ---------- *)
Definition plugin_order_ok : bool := oov_before_rewrite LF.plugin_setup_order.

Lemma index_of_complete p : forall l a, In p l -> exists i, index_of p l a = Some i.
Proof.
  induction l as [|x t IH]; intros a Hin; [contradiction|]. cbn [index_of].
  destruct (x =? p) eqn:E; [eexists; reflexivity|]. destruct Hin as [->|Hin]; [rewrite N.eqb_refl in E; discriminate|].
  exact (IH (a + 1) Hin).
Qed.

Lemma index_of_names p : forall l a i, index_of p l a = Some i -> a <= i /\ nth_error l (N.to_nat (i - a)) = Some p.
Proof.
  induction l as [|x t IH]; intros a i H; cbn [index_of] in H; [discriminate|].
  destruct (x =? p) eqn:E.
  - injection H as <-. apply N.eqb_eq in E. subst x. rewrite N.sub_diag. split; [lia|reflexivity].
  - destruct (IH _ _ H) as [Hle Hn]. split; [lia|].
    replace (N.to_nat (i - a)) with (S (N.to_nat (i - (a + 1)))) by lia. exact Hn.
Qed.

Lemma resolve_all_total pl : forall ps, (forall p, In p ps -> In p pl) -> exists ids, resolve_all pl ps = Some ids.
Proof.
  induction ps as [|p t IH]; intros H; [eexists; reflexivity|]. cbn [resolve_all].
  destruct (index_of_complete p pl 0 (H p (or_introl eq_refl))) as [i ->].
  destruct (IH (fun q Hq => H q (or_intror Hq))) as [l ->]. eexists. reflexivity.
Qed.

Lemma resolve_all_names pl : forall ps ids, resolve_all pl ps = Some ids ->
  length ids = length ps /\ forall k p, nth_error ps k = Some p -> nth_error pl (N.to_nat (nth k ids 0)) = Some p.
Proof.
  induction ps as [|p t IH]; intros ids H; cbn [resolve_all] in H.
  - injection H as <-. split; [reflexivity|]. intros [|k]; discriminate.
  - destruct (index_of p pl 0) as [i|] eqn:Ei; [|discriminate]. destruct (resolve_all pl t) as [l|] eqn:El; [|discriminate].
    injection H as <-. destruct (IH l eq_refl) as [Hlen Hn]. split; [cbn [length]; rewrite Hlen; reflexivity|].
    intros [|k] q Hq; cbn [nth_error nth] in *.
    + injection Hq as <-. destruct (index_of_names p pl 0 i Ei) as [_ Hi]. rewrite N.sub_0_r in Hi. exact Hi.
    + exact (Hn k q Hq).
Qed.

Section SetupOrder.
Hypothesis HG : guards_ok = true.

(* providers first: whenever the providers load, every POS any of them asked for -- registered by it or known before -- is in
   the table the path-rewrite plugins see, so a path-rewrite plugin that names only such POS (or POS of the dictionary) loads
   too, and each of its ids names the POS it asked for *)
Lemma setup_oov_first_total pl oov rw pl' ids :
  load_plugins pl oov = Some (pl', ids) ->
  (forall p, In p rw -> In p pl \/ exists allow, In (p, allow) oov) ->
  exists rids, setup_oov_first pl oov rw = Some (pl', ids, rids) /\
               forall k p, nth_error rw k = Some p -> nth_error pl' (N.to_nat (nth k rids 0)) = Some p.
Proof.
  intros Hl Hrw. destruct (load_plugins_spec HG _ _ _ _ Hl) as ([ext ->] & _ & Hn).
  assert (Hin : forall p, In p rw -> In p (pl ++ ext)).
  { intros p Hp. destruct (Hrw p Hp) as [H|[allow H]]; [apply in_or_app; left; exact H|].
    destruct (In_nth_error _ _ H) as [k Hk]. exact (nth_error_In _ _ (Hn k p allow Hk)). }
  destruct (resolve_all_total (pl ++ ext) rw Hin) as [rids Hr]. exists rids. unfold setup_oov_first. rewrite Hl, Hr.
  split; [reflexivity|]. exact (proj2 (resolve_all_names _ _ _ Hr)).
Qed.

(* ids handed out earlier never change: the providers only append, so every id of the dictionary's own POS (and of every
   provider set up before) still names the same POS after the whole set-up *)
Lemma setup_ids_stable pl oov rw pl' ids rids :
  setup_oov_first pl oov rw = Some (pl', ids, rids) ->
  (forall i p, nth_error pl i = Some p -> nth_error pl' i = Some p) /\
  (forall k p allow, nth_error oov k = Some (p, allow) -> nth_error pl' (N.to_nat (nth k ids 0)) = Some p) /\
  (forall k p, nth_error rw k = Some p -> nth_error pl' (N.to_nat (nth k rids 0)) = Some p).
Proof.
  unfold setup_oov_first. destruct (load_plugins pl oov) as [[pl1 ids1]|] eqn:Hl; [|discriminate].
  destruct (resolve_all pl1 rw) as [r1|] eqn:Hr; [|discriminate]. intros H. injection H as <- <- <-.
  destruct (load_plugins_spec HG _ _ _ _ Hl) as ([ext ->] & _ & Hn). split; [|split].
  - intros i p Hi. apply nth_error_app_some. exact Hi.
  - exact Hn.
  - exact (proj2 (resolve_all_names _ _ _ Hr)).
Qed.

(* whatever loads with the path-rewrite plugins first also loads, with the same result, with the providers first *)
Lemma setup_rewrite_first_weaker pl oov rw r :
  setup_rewrite_first pl oov rw = Some r -> setup_oov_first pl oov rw = Some r.
Proof.
  unfold setup_rewrite_first, setup_oov_first. destruct (resolve_all pl rw) as [rids|] eqn:Hr; [|discriminate].
  destruct (load_plugins pl oov) as [[pl' ids]|] eqn:Hl; [|discriminate]. intros H. injection H as <-.
  destruct (load_plugins_spec HG _ _ _ _ Hl) as ([ext ->] & _ & _).
  assert (Hsame : resolve_all (pl ++ ext) rw = Some rids).
  { clear Hl. revert rids Hr. induction rw as [|p t IH]; intros rids Hr; cbn [resolve_all] in *; [exact Hr|].
    destruct (index_of p pl 0) as [i|] eqn:Ei; [|discriminate]. destruct (resolve_all pl t) as [l|] eqn:El; [|discriminate].
    injection Hr as <-. rewrite (IH l eq_refl).
    assert (Hi : index_of p (pl ++ ext) 0 = Some i).
    { clear -Ei. revert Ei. generalize 0 as a. induction pl as [|x u IHu]; intros a Ei; cbn [index_of app] in *; [discriminate|].
      destruct (x =? p); [exact Ei|exact (IHu _ Ei)]. }
    rewrite Hi. reflexivity. }
  rewrite Hsame. reflexivity.
Qed.
End SetupOrder.

(* with the order the code has, the set-up is the providers-first one *)
Lemma setup_is_oov_first : plugin_order_ok = true -> forall pl oov rw, setup pl oov rw = setup_oov_first pl oov rw.
Proof. unfold plugin_order_ok, setup. intros -> pl oov rw. reflexivity. Qed.

(* the swapped order fails to load a configuration the documented order loads: the dictionary has POS 0, a provider registers
   POS 5 (userPOS allow), a path-rewrite plugin names POS 5 *)
Lemma setup_swapped_refuted :
  exists pl oov rw, setup_oov_first pl oov rw <> None /\ setup_rewrite_first pl oov rw = None.
Proof. exists [0], [(5, true)], [5]. split; [vm_compute; discriminate|vm_compute; reflexivity]. Qed.
