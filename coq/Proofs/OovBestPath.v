(* C13 through the best path: every node of the path that Model/Tokenizer.v reads back from the lattice (pre_split: before
   path rewriting and splitting) is, together with the word id threaded along by loop_ids / wid_at, either a dictionary entry
   found by the lookup at its position, or a candidate of one of the configured OOV providers carrying the ids, cost and part
   of speech of one of that provider's templates, its word id being WordId::oov(part of speech of the template).
   Builder A's files are used as they are; what they lack (the alignment of the id list with the lattice rows) is proved here. *)
From Coq Require Import String List NArith ZArith Bool Arith Lia.
From SudachiVerif Require Import Model.Buffer Model.Lattice Model.BuildLattice Proofs.LatticeProofs Proofs.BuildLatticeProofs
     Proofs.BuildOptimal.
From SudachiVerif Require Import Model.LexSet Model.DictCands Model.Tokenizer.
From SudachiVerif Require Model.Oov Proofs.OovFallback Proofs.OovWf Proofs.OovLattice Proofs.TotalitySimple Proofs.OovTotal
     Proofs.EndToEnd Proofs.LookupLattice.
Import ListNotations.
Local Open Scope nat_scope.

Module W := SudachiVerif.Proofs.OovWf.
Module OF_ := SudachiVerif.Proofs.OovFallback.
Module OT := SudachiVerif.Proofs.OovTotal.
Module E2E := SudachiVerif.Proofs.EndToEnd.
Module LL := SudachiVerif.Proofs.LookupLattice.

(* ------------------------------------------------------------------ templates of a provider *)
Definition provider_templates (p : O.provider) : list O.oovdef :=
  match p with
  | O.PMecab m => flat_map snd (O.m_oovs m)      (* every unk.def line *)
  | O.PSimple o => [o]
  | O.PRegex x => [O.x_def x]
  end.

(* nd is a candidate made from template o at offset off *)
Definition from_template (off : nat) (o : O.oovdef) (nd : O.node) : Prop := exists e, nd = O.oov_node off e o.
Definition from_provider (ps : list O.provider) (off : nat) (nd : O.node) : Prop :=
  exists q o, In q ps /\ In o (provider_templates q) /\ from_template off o nd.

Lemma len_loop_template n len off ll oovs : forall fuel i nd,
  In nd (O.len_loop fuel i n len off ll oovs) -> exists o, In o oovs /\ from_template off o nd.
Proof.
  induction fuel as [|f IH]; intros i nd H; [contradiction|].
  cbn [O.len_loop] in H. destruct (O.loop_done i n); [contradiction|].
  destruct (O.cmp_eval O.OF.mecab_break_cmp (O.char_distance len off i) ll || _); [contradiction|].
  apply in_app_iff in H. destruct H as [H|H].
  - apply in_map_iff in H. destruct H as [o [<- Ho]]. exists o. split; [exact Ho|]. eexists. reflexivity.
  - eapply IH. exact H.
Qed.

Lemma candidate_template p c off other result ns :
  O.provide p c off other result = O.ROk ns -> forall nd, In nd ns ->
  exists o, In o (provider_templates p) /\ from_template off o nd.
Proof.
  intros H nd Hnd. destruct p as [m|o|x]; cbn [O.provide provider_templates] in *.
  - unfold O.mecab_provide in H.
    destruct (nth_error (O.c_conts c) off) as [k|]; [|discriminate]. destruct (nth_error (O.c_cats c) off) as [ct|]; [|discriminate].
    destruct (Nat.eqb k 0); injection H as <-; [contradiction|].
    apply in_flat_map in Hnd. destruct Hnd as [ty [_ Hnd]]. unfold O.mecab_class in Hnd.
    destruct (O.find_cinfo m ty) as [ci|]; [|contradiction].
    destruct (negb (O.ci_invoke ci) && negb (N.eqb other 0)); [contradiction|].
    destruct (O.find_oovs m (O.ci_type ci)) as [oovs|] eqn:E; [|contradiction].
    assert (Hsub : forall o, In o oovs -> In o (flat_map snd (O.m_oovs m))).
    { intros o Ho. unfold O.find_oovs in E.
      destruct (find (fun p => N.eqb (fst p) (O.ci_type ci)) (O.m_oovs m)) as [[t l]|] eqn:F; [|discriminate].
      cbn in E. injection E as ->. apply find_some in F. destruct F as [F _].
      apply in_flat_map. exists (t, oovs). split; [exact F|exact Ho]. }
    apply in_app_iff in Hnd. destruct Hnd as [Hnd|Hnd].
    + destruct (O.ci_group ci); [|contradiction]. apply in_map_iff in Hnd. destruct Hnd as [o [<- Ho]].
      exists o. split; [apply Hsub; exact Ho|]. eexists. reflexivity.
    + apply len_loop_template in Hnd. destruct Hnd as [o [Ho Ht]]. exists o. split; [apply Hsub; exact Ho|exact Ht].
  - unfold O.simple_provide in H. destruct (negb (N.eqb other 0)); [injection H as <-; contradiction|].
    destruct (Nat.ltb off (length (O.c_bows c))); [|discriminate]. injection H as <-. destruct Hnd as [<-|[]].
    exists o. split; [left; reflexivity|]. eexists. reflexivity.
  - exists (O.x_def x). split; [left; reflexivity|].
    unfold O.regex_provide in H.
    destruct (if O.x_strict x && Nat.ltb 0 off then _ else Some false) as [[|]|]; try discriminate.
    { injection H as <-. contradiction. }
    destruct (nth_error (O.x_matches x) off) as [[[at0 mlen]|]|]; try discriminate.
    2:{ injection H as <-. contradiction. }
    destruct at0; cbn [negb] in H.
    2:{ destruct (O.x_debug x); [discriminate|]. injection H as <-. contradiction. }
    destruct (O.OF.regex_ignores_empty_match && Nat.eqb mlen 0); [injection H as <-; contradiction|].
    destruct (O.cw_has_word other (N.of_nat mlen)) as [[| |]|]; try discriminate.
    + injection H as <-. contradiction.
    + injection H as <-. destruct Hnd as [<-|[]]. eexists. reflexivity.
    + destruct (existsb _ result); injection H as <-; [contradiction|]. destruct Hnd as [<-|[]]. eexists. reflexivity.
Qed.

(* ------------------------------------------------------------------ the node buffer of a position = dictionary nodes
   followed by provider candidates *)
Lemma provide_all_appended c off : forall ps0 ps st st',
  (forall q, In q ps -> In q ps0) ->
  O.provide_all c off st ps = O.ROk st' ->
  exists extra, snd st' = snd st ++ extra /\ Forall (from_provider ps0 off) extra.
Proof.
  intros ps0. induction ps as [|p ps IH]; intros st st' Hsub H.
  - cbn in H. injection H as <-. exists []. split; [now rewrite app_nil_r|constructor].
  - cbn [O.provide_all] in H. destruct (O.provide_oovs c off st p) as [st1| |] eqn:E; try discriminate.
    apply OF_.provide_oovs_inv in E. destruct E as [ns [P1 [P2 _]]].
    destruct (IH st1 st' (fun q Hq => Hsub q (or_intror Hq)) H) as [extra [E1 E2]].
    exists (ns ++ extra). split; [rewrite E1, P2, app_assoc; reflexivity|].
    apply Forall_app. split; [|exact E2]. apply Forall_forall. intros nd Hnd.
    destruct (candidate_template p c off _ _ ns P1 nd Hnd) as [o [Ho Ht]].
    exists p, o. split; [apply Hsub; left; reflexivity|]. split; assumption.
Qed.

Lemma position_step_split c ps off dict buf :
  O.position_step c ps off dict = O.ROk buf ->
  exists rest, buf = dict ++ rest /\ Forall (from_provider ps off) rest.
Proof.
  intros H. destruct (OF_.fallback_iff_nothing c ps off dict buf H) as (cw1 & normal & En & Hcase).
  assert (Hn : exists rest, normal = dict ++ rest /\ Forall (from_provider ps off) rest).
  { unfold O.normal_pass, O.normal_pass_g in En.
    destruct (O.cw_add_all 0 (map O.node_len dict)) as [cw0|]; [|discriminate].
    destruct (nth_error (O.c_cats c) off) as [cat|]; [|discriminate].
    destruct (O.inter cat O.OF.oov_gate_mask).
    - injection En as _ <-. exists []. split; [now rewrite app_nil_r|constructor].
    - apply (provide_all_appended c off ps) in En; [|auto]. exact En. }
  destruct Hcase as [[_ ->]|[-> (p & extra & Hfb & Hp & _ & ->)]]; [exact Hn|].
  destruct Hn as [rest [Hd _]]. symmetry in Hd. apply app_eq_nil in Hd. destruct Hd as [-> _].
  exists extra. split; [reflexivity|]. apply Forall_forall. intros nd Hnd.
  destruct (candidate_template p c off _ _ extra Hp nd Hnd) as [o [Ho Ht]].
  exists p, o. split; [apply W.fallback_of_in; exact Hfb|]. split; assumption.
Qed.

(* ------------------------------------------------------------------ what a position offers, paired with the word ids *)
Section Pairs.
  Variable cfg : bcfg.
  Variable tk : tokenizer.
  Variable t : list N.

  Definition pairs_at (p : nat) : list (node * N) := combine (offered_at cfg tk t p) (offered_ids cfg tk t p).

  (* (nd, w) is a dictionary entry found at position p, or a provider candidate with the id WordId::oov(its part of speech) *)
  Definition provenance (p : nat) (x : node * N) : Prop :=
    (exists wc, In wc (dict_ids cfg tk t p) /\ snd x = fst wc /\ nbeg (fst x) = p /\ nend (fst x) = snd wc)
    \/ (exists c, from_provider (tk_provs tk) p c /\ fst x = TS.of_oov c /\ snd x = oov_id (O.n_pos c)).

  Lemma combine_app {A B} (a1 a2 : list A) (b1 b2 : list B) :
    length a1 = length b1 -> combine (a1 ++ a2) (b1 ++ b2) = combine a1 b1 ++ combine a2 b2.
  Proof.
    revert b1. induction a1 as [|x a1 IH]; intros [|y b1] H; cbn in H; try discriminate; [reflexivity|].
    cbn. f_equal. apply IH. lia.
  Qed.

  Lemma pairs_at_spec p :
    length (offered_ids cfg tk t p) = length (offered_at cfg tk t p) /\ Forall (provenance p) (pairs_at p).
  Proof.
    unfold pairs_at, offered_at, offered_ids, OL.oov_offered.
    destruct (O.position_step (O.mk_ctx (classes tk t)) (tk_provs tk) p (dict_onodes cfg tk t p)) as [buf| |] eqn:E;
      [|split; [reflexivity|constructor] | split; [reflexivity|constructor]].
    destruct (position_step_split _ _ _ _ _ E) as [rest [-> Hrest]].
    assert (Hl : length (dict_onodes cfg tk t p) = length (dict_ids cfg tk t p)) by (unfold dict_onodes; apply map_length).
    rewrite <- Hl, skipn_app, skipn_all, Nat.sub_diag. cbn [skipn app].
    split; [repeat (rewrite ?app_length, ?map_length); lia|].
    rewrite map_app, combine_app by (rewrite !map_length; lia).
    apply Forall_app. split.
    - unfold dict_onodes. rewrite map_map. apply Forall_forall. intros [nd w] H.
      (* combine (map f l) (map g l): pairs (f x, g x) *)
      assert (G : forall (l : list (N * nat)), In (nd, w) (combine (map (fun x => TS.of_oov (let '(lf, r, c0) := tk_params tk (fst x) in O.mkNode p (snd x) lf r c0 0%N)) l) (map fst l)) ->
                  exists wc, In wc l /\ w = fst wc /\ nbeg nd = p /\ nend nd = snd wc).
      { induction l as [|x l IH]; intros Hin; [contradiction|]. cbn in Hin. destruct Hin as [Hin|Hin].
        - injection Hin as <- <-. exists x. split; [left; reflexivity|]. destruct (tk_params tk (fst x)) as [[lf r] c0]. cbn. auto.
        - destruct (IH Hin) as [wc [H1 H2]]. exists wc. split; [right; exact H1|exact H2]. }
      left. destruct (G _ H) as [wc [H1 [H2 [H3 H4]]]]. exists wc. cbn [fst snd]. auto.
    - apply Forall_forall. intros [nd w] H. right.
      assert (G : forall l, Forall (from_provider (tk_provs tk) p) l ->
                  In (nd, w) (combine (map TS.of_oov l) (map (fun c => oov_id (O.n_pos c)) l)) ->
                  exists c, from_provider (tk_provs tk) p c /\ nd = TS.of_oov c /\ w = oov_id (O.n_pos c)).
      { induction l as [|x l IH]; intros Hf Hin; [contradiction|]. inversion Hf as [|? ? Hx Hl']; subst.
        cbn in Hin. destruct Hin as [Hin|Hin]; [injection Hin as <- <-; exists x; auto|]. apply IH; assumption. }
      destruct (G rest Hrest H) as [c [H1 [H2 H3]]]. exists c. cbn [fst snd]. auto.
  Qed.
End Pairs.

(* ------------------------------------------------------------------ the rows of a lattice are the inserted nodes, in order *)
Lemma row_insert_all conn : forall ns L r,
  Forall (fun m => nend m < length L) ns ->
  map enode (Lattice.row (insert_all conn L ns) r) = map enode (Lattice.row L r) ++ map Some (filter (fun m => Nat.eqb (nend m) r) ns).
Proof.
  induction ns as [|m ns IH]; intros L r H; [cbn; now rewrite app_nil_r|].
  inversion H as [|? ? Hm Hns]; subst. unfold insert_all. cbn [fold_left]. fold (insert_all conn (fst (insert conn L m)) ns).
  assert (Hrow : map enode (Lattice.row (fst (insert conn L m)) r) = map enode (Lattice.row L r) ++ (if Nat.eqb (nend m) r then [Some m] else [])
                 /\ length (fst (insert conn L m)) = length L).
  { unfold insert. destruct (connect_node conn L (nbeg m) (nleft m) (ncost m)) as [[i c]|]; cbn [fst];
      (split; [|apply push_length]); rewrite row_push by exact Hm; rewrite (Nat.eqb_sym r (nend m));
      destruct (Nat.eqb (nend m) r); [rewrite map_app; reflexivity | now rewrite app_nil_r | rewrite map_app; reflexivity | now rewrite app_nil_r]. }
  destruct Hrow as [Hr Hl]. rewrite IH by (rewrite Hl; exact Hns). rewrite Hr. cbn [filter].
  destruct (Nat.eqb (nend m) r); cbn [map app]; rewrite <- app_assoc; reflexivity.
Qed.

(* ------------------------------------------------------------------ loop_ids keeps the id list aligned with the lattice *)
Section Loop.
  Variable cfg : bcfg.
  Variable tk : tokenizer.
  Variable t : list N.
  Let n := length t.
  Let conn := tk_conn tk.
  (* what every position offers is well formed (C13_oov_offered_wf / EndToEnd.offered_wf) *)
  Hypothesis offered_ok : forall p m, In m (offered_at cfg tk t p) -> node_wf n p m.

  Definition key (x : node * N) : nat * N := (nend (fst x), snd x).
  Definition J (L : lattice) (ids : list (nat * N)) (pairs : list (node * N)) : Prop :=
    L = insert_all conn (reset n) (map fst pairs) /\ ids = map key pairs /\
    Forall (fun x => provenance cfg tk t (nbeg (fst x)) x /\ 1 <= nend (fst x) <= n) pairs.

  Lemma combine_key (ns : list node) (ws : list N) : combine (map nend ns) ws = map key (combine ns ws).
  Proof. revert ws. induction ns as [|m ns IH]; intros [|w ws]; cbn; try reflexivity. f_equal. apply IH. Qed.

  Lemma fst_combine {A B} : forall (a : list A) (b : list B), length b = length a -> map fst (combine a b) = a.
  Proof. induction a as [|x a IH]; intros [|y b] H; cbn in H; try discriminate; [reflexivity|]. cbn. f_equal. apply IH. lia. Qed.

  Lemma loop_ids_J : forall todo L ids p pairs L' ids',
    J L ids pairs -> loop_ids cfg tk t L ids p todo = Some (L', ids') -> exists pairs', J L' ids' pairs'.
  Proof.
    induction todo as [|k IH]; intros L ids p pairs L' ids' HJ H.
    - cbn in H. injection H as <- <-. eauto.
    - cbn [loop_ids] in H. destruct (has_previous_node L p); [|eapply IH; eauto].
      destruct (offered_at cfg tk t p) as [|x xs] eqn:E; [discriminate|].
      eapply (IH _ _ _ (pairs ++ pairs_at cfg tk t p)); [|exact H].
      destruct HJ as (HL & Hids & Hp). destruct (pairs_at_spec cfg tk t p) as [Hlen Hprov].
      unfold pairs_at in *. rewrite E in *. split; [|split].
      + rewrite map_app, fst_combine by exact Hlen. fold conn. rewrite insert_all_app, <- HL. reflexivity.
      + rewrite map_app, <- combine_key, Hids. reflexivity.
      + apply Forall_app. split; [exact Hp|]. apply Forall_forall. intros y Hy. rewrite Forall_forall in Hprov.
        assert (Hin : In (fst y) (x :: xs)) by (destruct y; apply in_combine_l in Hy; exact Hy).
        rewrite <- E in Hin. destruct (offered_ok p (fst y) Hin) as (Hb & H1 & H2).
        rewrite Hb. split; [apply Hprov; exact Hy|lia].
  Qed.

  (* every (node, id) that pre_split reads back from the lattice is one of the inserted pairs *)
  Lemma path_pairs L ids pairs : J L ids pairs -> forall pos e nd,
    get L pos = Some e -> enode e = Some nd -> In (nd, wid_at ids pos) pairs.
  Proof.
    intros (HL & Hids & Hp) [r i] e nd Hg He. unfold get in Hg. cbn [fst snd] in Hg.
    pose proof (row_insert_all conn (map fst pairs) (reset n) r) as Hrow.
    rewrite <- HL in Hrow.
    assert (Hlen : Forall (fun m => nend m < length (reset n)) (map fst pairs)).
    { apply Forall_forall. intros m Hm. apply in_map_iff in Hm. destruct Hm as [x [<- Hx]].
      rewrite Forall_forall in Hp. destruct (Hp x Hx) as [_ Hr]. unfold reset. cbn [length]. rewrite repeat_length. lia. }
    specialize (Hrow Hlen). rewrite row_reset in Hrow.
    set (F := filter (fun x : node * N => Nat.eqb (nend (fst x)) r) pairs).
    assert (HF1 : filter (fun m => Nat.eqb (nend m) r) (map fst pairs) = map fst F).
    { unfold F. clear. induction pairs as [|x l IH]; [reflexivity|]. cbn. destruct (Nat.eqb (nend (fst x)) r); cbn; now rewrite IH. }
    assert (HF2 : map snd (filter (fun x => Nat.eqb (fst x) r) ids) = map snd F).
    { rewrite Hids. unfold F. clear. induction pairs as [|x l IH]; [reflexivity|]. cbn. destruct (Nat.eqb (nend (fst x)) r); cbn; now rewrite IH. }
    assert (Hnth : nth_error (map enode (Lattice.row L r)) i = Some (Some nd)) by (rewrite nth_error_map, Hg; cbn; now rewrite He).
    rewrite Hrow, HF1 in Hnth.
    destruct (Nat.eqb r 0) eqn:Er.
    - (* row 0: BOS only, no node ends at 0 *)
      apply Nat.eqb_eq in Er. subst r. exfalso.
      assert (HFe : F = []).
      { unfold F. clear - Hp. induction pairs as [|x l IH]; [reflexivity|]. inversion Hp as [|? ? Hx Hl]; subst.
        cbn [filter]. destruct (Nat.eqb_spec (nend (fst x)) 0) as [Z|NZ]; [lia|]. apply IH. exact Hl. }
      rewrite HFe in Hnth. cbn in Hnth. destruct i as [|i]; [discriminate|]. destruct i; discriminate.
    - cbn [map app] in Hnth. rewrite !nth_error_map in Hnth.
      destruct (nth_error F i) as [x|] eqn:Ex; [|discriminate]. cbn in Hnth. injection Hnth as Hx.
      unfold wid_at. cbn [fst snd]. rewrite HF2.
      assert (Hw : nth i (map snd F) WID_INVALID = snd x).
      { apply nth_error_nth. rewrite nth_error_map, Ex. reflexivity. }
      rewrite Hw, <- Hx. destruct x as [a b]. cbn [fst snd].
      apply nth_error_In in Ex. unfold F in Ex. apply filter_In in Ex. tauto.
  Qed.
End Loop.

(* ------------------------------------------------------------------ the path read back by pre_split *)
Section Path.
  Variable cfg : bcfg.
  Variable tk : tokenizer.
  Variable t : list N.
  Hypothesis offered_ok : forall p m, In m (offered_at cfg tk t p) -> node_wf (length t) p m.

  Theorem pre_split_path_provenance a :
    pre_split cfg tk t = Ok a -> forall x, In x (pr_path a) -> provenance cfg tk t (nbeg (fst x)) x.
  Proof.
    intros H x Hx. unfold pre_split in H.
    destruct (loop_ids cfg tk t (reset (length t)) [] 0 (length t)) as [[L ids]|] eqn:El; [|discriminate].
    assert (J0 : J cfg tk t (reset (length t)) [] []) by (split; [reflexivity|split; [reflexivity|constructor]]).
    destruct (loop_ids_J cfg tk t offered_ok _ _ _ _ _ _ _ J0 El) as [pairs HJ].
    destruct (connect_eos (tk_conn tk) L) as [[[r i] c]|]; [|discriminate].
    destruct (walk_pos L (length L) (r, i)) as [rps|]; [|discriminate].
    destruct (Rw.run_plugins (tk_rewrite tk) _) as [[q| |]|]; try discriminate.
    injection H as <-. cbn [pr_path] in Hx.
    apply in_flat_map in Hx. destruct Hx as [pos [_ Hx]].
    destruct (get L pos) as [e|] eqn:Eg; [|contradiction]. destruct (enode e) as [nd|] eqn:Ee; [|contradiction].
    destruct Hx as [<-|[]].
    pose proof (path_pairs cfg tk t offered_ok L ids pairs HJ pos e nd Eg Ee) as Hin.
    destruct HJ as (_ & _ & Hp). rewrite Forall_forall in Hp. apply (Hp _ Hin).
  Qed.

  (* spelled out: a dictionary entry of that position, or a provider candidate with the ids, cost and part of speech of one
     of the provider's templates *)
  Theorem oov_pos_on_best_path_generic a :
    pre_split cfg tk t = Ok a -> forall nd w, In (nd, w) (pr_path a) ->
    (exists wc, In wc (dict_ids cfg tk t (nbeg nd)) /\ w = fst wc /\ nend nd = snd wc)
    \/ (exists q o, In q (tk_provs tk) /\ In o (provider_templates q) /\ w = oov_id (O.o_pos o)
                    /\ nleft nd = O.o_left o /\ nright nd = O.o_right o /\ ncost nd = O.o_cost o).
  Proof.
    intros H nd w Hin. destruct (pre_split_path_provenance a H (nd, w) Hin) as [(wc & H1 & H2 & _ & H4)|(c & Hc & H1 & H2)];
      cbn [fst snd] in *.
    - left. exists wc. auto.
    - right. destruct Hc as (q & o & Hq & Ho & e & ->). exists q, o. rewrite H1, H2.
      unfold TS.of_oov, O.oov_node. cbn. auto 10.
  Qed.

  (* an OOV word id on the path is WordId::oov of the part of speech of a template of a configured provider (when the
     lookup returns dictionary ids only) *)
  Corollary oov_id_on_best_path a :
    pre_split cfg tk t = Ok a -> forall nd w, In (nd, w) (pr_path a) -> is_oov w = true ->
    (forall wc, In wc (dict_ids cfg tk t (nbeg nd)) -> is_oov (fst wc) = false) ->
    exists q o, In q (tk_provs tk) /\ In o (provider_templates q) /\ w = oov_id (O.o_pos o)
                /\ nleft nd = O.o_left o /\ nright nd = O.o_right o /\ ncost nd = O.o_cost o.
  Proof.
    intros H nd w Hin Hoov Hd. destruct (oov_pos_on_best_path_generic a H nd w Hin) as [(wc & H1 & -> & _)|Hr]; [|exact Hr].
    rewrite (Hd wc H1) in Hoov. discriminate.
  Qed.
End Path.

(* ------------------------------------------------------------------ H7 of the end-to-end theorem: no provider fails *)
Section H7.
  Hypothesis Hfwd : O.OF.continuity_forward = true.
  Hypothesis Hfix : O.OF.regex_ignores_empty_match = true.
  Variable cfg : bcfg.
  Hypothesis Hcfg : cfg_ok cfg = true.

  Theorem e2e_providers_ok tk t :
    Forall E2E.scalar t -> (forall L, In L (tk_lexs tk) -> LL.lex_keys_utf8 L) ->
    (forall q, In q (tk_provs tk) -> OT.provider_total q (length t) /\ W.provider_oracle_ok q (length t)) ->
    forall p, p < length t ->
      exists st, O.normal_pass (O.mk_ctx (classes tk t)) (tk_provs tk) p (dict_onodes cfg tk t p) = O.ROk st.
  Proof.
    intros Hsc Hkeys Hq p Hp.
    assert (Hl : length (classes tk t) = length t) by (unfold classes; apply map_length).
    apply (OT.providers_never_fail Hfwd Hfix); rewrite ?Hl; auto.
    apply Forall_forall. intros m Hm. apply (E2E.dict_onodes_wf cfg Hcfg tk t Hsc Hkeys p m Hm).
  Qed.
End H7.

(* the same under the hypotheses of the end-to-end theorem (C01_tokenizer_end_to_end H5-H7) *)
Section E2EPath.
  Hypothesis Hfwd : O.OF.continuity_forward = true.
  Hypothesis Hfix : O.OF.regex_ignores_empty_match = true.
  Variable cfg : bcfg.
  Hypothesis Hcfg : cfg_ok cfg = true.

  Theorem oov_pos_on_best_path_e2e tk t a :
    Forall E2E.scalar t -> (forall L, In L (tk_lexs tk) -> LL.lex_keys_utf8 L) ->
    (forall q, In q (tk_provs tk) -> W.provider_oracle_ok q (length t)) ->
    pre_split cfg tk t = Ok a -> forall nd w, In (nd, w) (pr_path a) ->
    (exists wc, In wc (dict_ids cfg tk t (nbeg nd)) /\ w = fst wc /\ nend nd = snd wc)
    \/ (exists q o, In q (tk_provs tk) /\ In o (provider_templates q) /\ w = oov_id (O.o_pos o)
                    /\ nleft nd = O.o_left o /\ nright nd = O.o_right o /\ ncost nd = O.o_cost o).
  Proof.
    intros Hsc Hkeys Hor. apply oov_pos_on_best_path_generic.
    intros p m Hm. apply (E2E.offered_wf Hfwd Hfix cfg Hcfg tk t Hsc Hkeys Hor p).
    unfold offered, OL.no_fallback. destruct (offered_at cfg tk t p); [contradiction|exact Hm].
  Qed.
End E2EPath.
