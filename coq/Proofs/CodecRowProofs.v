(* C05 — row_roundtrip: from the fields of the CSV rows through the field parsers, POS numbering, resolution, the
   writer, the file and the reader to the accessors *)
From Coq Require Import List NArith ZArith Bool String Lia ZifyBool ZifyNat ZifyN.
From SudachiVerif Require Import Model.GuardLang Model.Codec Model.CodecResolve Model.CodecCsv.
From SudachiVerif Require Import Proofs.CodecProofs Proofs.CodecLexProofs Proofs.CodecResolveProofs Proofs.CodecResolveLexProofs Proofs.CodecCsvProofs.
From SudachiVerif Require Generated.FieldOrder Generated.CsvFacts.
Import ListNotations.
Open Scope N_scope.

Arguments N.add : simpl never.
Arguments N.sub : simpl never.
Arguments N.mul : simpl never.
Arguments N.ltb : simpl never.
Arguments N.leb : simpl never.
Arguments N.eqb : simpl never.

(* ------------------------------------------------------------------ ranges of what the field parsers return *)
Lemma parse_i16_range : forall s z, parse_i16 s = ROk z -> (-32768 <= z < 32768)%Z.
Proof.
  intros s z H. unfold parse_i16 in H. destruct (int_of_text true s) as [v|]; [|discriminate].
  destruct ((-32768 <=? v)%Z && (v <=? 32767)%Z) eqn:E; [|discriminate]. inversion H; subst. lia.
Qed.

Lemma parse_u32_lt : forall s v, parse_u32 s = ROk v -> v < 4294967296.
Proof.
  intros s v H. unfold parse_u32 in H. destruct (int_of_text false s) as [z|]; [|discriminate].
  destruct (z <=? 4294967295)%Z eqn:E; [|discriminate]. inversion H; subst. lia.
Qed.

Definition word_mask_ok : bool := (CF.WORD_MASK =? 268435455)%Z.

Lemma parse_wordid_raw_le : word_mask_ok = true -> forall s v, parse_wordid_raw s = ROk v -> v <= 268435455.
Proof.
  unfold word_mask_ok. intros HM s v H. unfold parse_wordid_raw in H. destruct (parse_u32 s) as [x|]; [|discriminate].
  destruct (Z.of_N x <=? CF.WORD_MASK)%Z eqn:E; [|discriminate]. inversion H; subst. lia.
Qed.

Lemma parse_wordid_lt : word_mask_ok = true -> forall s w, parse_wordid s = ROk w -> w < 4294967296.
Proof.
  intros HM s w H. unfold parse_wordid in H. destruct s as [|c t].
  - apply (parse_wordid_raw_le HM) in H. lia.
  - destruct (c =? UPPER_U).
    + destruct (parse_wordid_raw t) as [v|] eqn:E; [|discriminate]. cbn [bind] in H. inversion H; subst.
      apply (parse_wordid_raw_le HM) in E. unfold DIC. lia.
    + apply (parse_wordid_raw_le HM) in H. lia.
Qed.

Lemma parse_dic_form_lt : word_mask_ok = true -> forall s w, parse_dic_form s = ROk w -> w < 4294967296.
Proof.
  intros HM s w H. unfold parse_dic_form in H. destruct (is_star s); [inversion H; lia|apply (parse_wordid_lt HM s w H)].
Qed.

Lemma map_res_forall : forall {A B} (f : A -> res B) (P : B -> Prop) l out,
  (forall a b, f a = ROk b -> P b) -> map_res f l = ROk out -> Forall P out.
Proof.
  intros A B f P. induction l as [|x t IH]; intros out Hf H; cbn [map_res] in H.
  - inversion H. constructor.
  - destruct (f x) as [y|] eqn:E; [|discriminate]. cbn [bind] in H.
    destruct (map_res f t) as [ys|] eqn:Et; [|discriminate]. cbn [bind] in H. inversion H; subst.
    constructor; [apply (Hf x y E)|apply (IH ys Hf eq_refl)].
Qed.

Lemma forall_lt_forallb : forall l, Forall (fun x => x < 4294967296) l -> forallb (fun x => x <? 4294967296) l = true.
Proof. intros l H. apply forallb_forall. intros x Hx. rewrite Forall_forall in H. specialize (H x Hx). lia. Qed.

Lemma parse_slash_list_forall : forall {B} (f : text -> res B) (P : B -> Prop) s out,
  (forall a b, f a = ROk b -> P b) -> parse_slash_list f s = ROk out -> Forall P out.
Proof.
  intros B f P s out Hf H. unfold parse_slash_list in H.
  destruct (map_res f (split_on SLASH s)) as [l|] eqn:E; [|discriminate]. cbn [bind] in H.
  destruct (list_too_long l); [discriminate|]. inversion H; subst. apply (map_res_forall f P _ _ Hf E).
Qed.

Lemma parse_wordid_list_lt : word_mask_ok = true -> forall s l, parse_wordid_list s = ROk l -> forallb (fun x => x <? 4294967296) l = true.
Proof.
  intros HM s l H. unfold parse_wordid_list in H. destruct (empty_or_star s); [inversion H; reflexivity|].
  apply forall_lt_forallb. apply (parse_slash_list_forall parse_wordid _ s l (parse_wordid_lt HM) H).
Qed.
Lemma parse_u32_list_lt : forall s l, parse_u32_list s = ROk l -> forallb (fun x => x <? 4294967296) l = true.
Proof.
  intros s l H. unfold parse_u32_list in H. destruct (empty_or_star s); [inversion H; reflexivity|].
  apply forall_lt_forallb. apply (parse_slash_list_forall parse_u32 _ s l parse_u32_lt H).
Qed.

(* ------------------------------------------------------------------ the head columns *)
Definition fields_scalar (f : list text) : Prop := Forall (fun s => forallb is_scalar s = true) f.

Lemma get_in : forall f v s, get f v = ROk s -> In s f.
Proof.
  intros f v s H. unfold get in H. destruct (nth_error f (N.to_nat (column_of CF.record_columns v))) as [x|] eqn:E; [|discriminate].
  inversion H; subst. eapply nth_error_In. exact E.
Qed.

Lemma get_unescape_scalar : forall f v o, fields_scalar f -> bind (get f v) unescape = ROk o -> forallb is_scalar o = true.
Proof.
  intros f v o Hf H. destruct (get f v) as [s|] eqn:E; [|discriminate]. cbn [bind] in H.
  apply (unescape_scalar s o); [|exact H]. unfold fields_scalar in Hf. rewrite Forall_forall in Hf. apply Hf. eapply get_in. exact E.
Qed.

Definition head_ok (h : head) : Prop :=
  forallb is_scalar (h_surface h) = true /\ forallb is_scalar (h_headword h) = true /\
  forallb is_scalar (h_reading h) = true /\ forallb is_scalar (h_norm h) = true /\
  posrow_ok (h_pos h) /\
  (-32768 <= h_left h < 32768)%Z /\ (-32768 <= h_right h < 32768)%Z /\ (-32768 <= h_cost h < 32768)%Z /\
  h_dic h < 4294967296.

Tactic Notation "step" hyp(H) ident(x) ident(E) :=
  match type of H with
  | bind ?r _ = ROk _ => destruct r as [x|] eqn:E; [cbn [bind] in H|discriminate]
  end.

Lemma decode_head_ok : word_mask_ok = true -> forall f h, fields_scalar f -> decode_head f = ROk h -> head_ok h.
Proof.
  intros HM f h Hf H. unfold decode_head in H.
  step H surface E0. step H lid E1. step H rid E2. step H cost E3. step H headword E4.
  step H p1 E5. step H p2 E6. step H p3 E7. step H p4 E8. step H p5 E9. step H p6 E10.
  step H reading E11. step H normalized E12. step H dic E13. step H md E14.
  inversion H; subst h; clear H. unfold head_ok. cbn [h_surface h_headword h_reading h_norm h_pos h_left h_right h_cost h_dic].
  split; [apply (get_unescape_scalar f _ _ Hf E0)|]. split; [apply (get_unescape_scalar f _ _ Hf E4)|].
  split; [apply (get_unescape_scalar f _ _ Hf E11)|]. split; [apply (get_unescape_scalar f _ _ Hf E12)|].
  split.
  { split; [reflexivity|]. repeat (constructor; [eapply get_unescape_scalar; eassumption|]). constructor. }
  assert (Hi : forall v z, bind (get f v) parse_i16 = ROk z -> (-32768 <= z < 32768)%Z).
  { intros v z Hz. destruct (get f v); [|discriminate]. apply (parse_i16_range _ _ Hz). }
  split; [apply (Hi _ _ E1)|]. split; [apply (Hi _ _ E2)|]. split; [apply (Hi _ _ E3)|].
  destruct (get f "dic_form_id"); [|discriminate]. apply (parse_dic_form_lt HM _ _ E13).
Qed.

Lemma decode_tail_ok : word_mask_ok = true -> forall f t, decode_tail f = ROk t ->
  forallb (fun x => x <? 4294967296) (fst t) = true /\ forallb (fun x => x <? 4294967296) (snd t) = true.
Proof.
  intros HM f t H. unfold decode_tail in H. step H ws E1. step H syn E2. inversion H; subst t. cbn [fst snd]. split.
  - destruct (get f "parts"); [|discriminate]. apply (parse_wordid_list_lt HM _ _ E1).
  - destruct (get f "synonyms"); [apply (parse_u32_list_lt _ _ E2)|inversion E2; reflexivity].
Qed.

(* ------------------------------------------------------------------ the POS table along the records *)
Definition extends (st st' : pos_state) : Prop := exists ext, st' = st ++ ext.
Lemma extends_refl : forall st, extends st st.
Proof. intros st. exists []. rewrite app_nil_r. reflexivity. Qed.
Lemma extends_trans : forall a b c, extends a b -> extends b c -> extends a c.
Proof. intros a b c [x ->] [y ->]. exists (x ++ y). rewrite app_assoc. reflexivity. Qed.
Lemma extends_nth : forall st st' n p, extends st st' -> nth_error st n = Some p -> nth_error st' n = Some p.
Proof. intros st st' n p [e ->] H. apply nth_error_app_keep. exact H. Qed.

Lemma pos_of_extends : pos_limit_ok = true -> forall st p st' id, pos_inv st -> pos_of st p = ROk (st', id) ->
  extends st st' /\ pos_inv st' /\ nth_error st' (N.to_nat id) = Some p /\ id < 65536.
Proof.
  intros HL st p st' id Hinv H. destruct (pos_of_spec HL st p st' id Hinv H) as (Hi & Hn & Hle & Hc).
  split; [destruct Hc as [[_ ->]|(_ & -> & _)]; [apply extends_refl|exists [p]; reflexivity]|].
  split; [exact Hi|]. split; [exact Hn|].
  unfold pos_limit_ok in HL. apply andb_true_iff in HL as [_ H65]. lia.
Qed.

Lemma parse_split_extends : pos_limit_ok = true -> forall st item st' u, pos_inv st -> parse_split st item = ROk (st', u) ->
  extends st st' /\ pos_inv st'.
Proof.
  intros HL st item st' u Hinv H. unfold parse_split in H.
  destruct (is_wid_literal item).
  - destruct (parse_wordid item); [|discriminate]. cbn [bind] in H. inversion H; subst. split; [apply extends_refl|exact Hinv].
  - destruct (splitn (N.to_nat CF.inline_splitn) COMMA item) as [|f0 rest]; [discriminate|].
    destruct (unescape f0) as [surface|]; [|discriminate]. cbn [bind] in H.
    (* six POS fields, then the reading *)
    destruct rest as [|f1 rest]; [discriminate|]. destruct (unescape f1) as [q1|]; [|discriminate]. cbn [bind] in H.
    destruct rest as [|f2 rest]; [discriminate|]. destruct (unescape f2) as [q2|]; [|discriminate]. cbn [bind] in H.
    destruct rest as [|f3 rest]; [discriminate|]. destruct (unescape f3) as [q3|]; [|discriminate]. cbn [bind] in H.
    destruct rest as [|f4 rest]; [discriminate|]. destruct (unescape f4) as [q4|]; [|discriminate]. cbn [bind] in H.
    destruct rest as [|f5 rest]; [discriminate|]. destruct (unescape f5) as [q5|]; [|discriminate]. cbn [bind] in H.
    destruct rest as [|f6 rest]; [discriminate|]. destruct (unescape f6) as [q6|]; [|discriminate]. cbn [bind] in H.
    destruct rest as [|f7 rest]; [discriminate|]. destruct (unescape f7) as [rd|]; [|discriminate]. cbn [bind] in H.
    destruct (pos_of st (((((([] ++ [q1]) ++ [q2]) ++ [q3]) ++ [q4]) ++ [q5]) ++ [q6])) as [[st1 pid]|] eqn:Ep; [|discriminate].
    cbn [bind fst snd] in H. inversion H; subst.
    destruct (pos_of_extends HL _ _ _ _ Hinv Ep) as (He & Hi & _). split; assumption.
Qed.

Lemma parse_split_items_extends : pos_limit_ok = true -> forall items st st' us, pos_inv st ->
  parse_split_items st items = ROk (st', us) -> extends st st' /\ pos_inv st'.
Proof.
  intros HL. induction items as [|x t IH]; intros st st' us Hinv H; cbn [parse_split_items] in H.
  - inversion H; subst. split; [apply extends_refl|exact Hinv].
  - destruct (parse_split st x) as [[st1 u]|] eqn:E1; [|discriminate]. cbn [bind fst snd] in H.
    destruct (parse_split_items st1 t) as [[st2 us']|] eqn:E2; [|discriminate]. cbn [bind fst snd] in H. inversion H; subst.
    destruct (parse_split_extends HL _ _ _ _ Hinv E1) as [He1 Hi1]. destruct (IH _ _ _ Hi1 E2) as [He2 Hi2].
    split; [eapply extends_trans; eassumption|exact Hi2].
Qed.

Lemma parse_splits_extends : pos_limit_ok = true -> forall st s st' us, pos_inv st ->
  parse_splits st s = ROk (st', us) -> extends st st' /\ pos_inv st'.
Proof.
  intros HL st s st' us Hinv H. unfold parse_splits in H. destruct (empty_or_star s).
  - inversion H; subst. split; [apply extends_refl|exact Hinv].
  - destruct (parse_split_items st (split_on SLASH s)) as [[st1 us1]|] eqn:E; [|discriminate]. cbn [bind snd] in H.
    destruct (list_too_long us1); [discriminate|]. inversion H; subst. apply (parse_split_items_extends HL _ _ _ _ Hinv E).
Qed.

(* one record: what it is made of *)
Lemma parse_record_spec : pos_limit_ok = true -> forall st f st' r, pos_inv st -> parse_record st f = ROk (st', r) ->
  exists h t pid,
    decode_head f = ROk h /\ decode_tail f = ROk t /\
    r_surface r = h_surface h /\
    r_entry r = mkEntry (h_headword h) (utf8_len (h_surface h)) pid (h_norm h) (h_dic h) (h_reading h) [] []
                        (fst t) (snd t) (h_left h) (h_right h) (h_cost h) /\
    (exists st0 sa, bind (get f "split_a") (parse_splits st) = ROk (st0, sa) /\ r_a r = sa) /\
    (exists st0 st1 sb, bind (get f "split_b") (parse_splits st0) = ROk (st1, sb) /\ r_b r = sb) /\
    nth_error st' (N.to_nat pid) = Some (h_pos h) /\ pid < 65536 /\
    extends st st' /\ pos_inv st'.
Proof.
  intros HL st f st' r Hinv H. unfold parse_record in H.
  destruct (decode_head f) as [h|] eqn:Eh; [|discriminate]. cbn [bind] in H.
  destruct (bind (get f "split_a") (parse_splits st)) as [[st1 sa]|] eqn:Ea; [|discriminate]. cbn [bind fst snd] in H.
  destruct (bind (get f "split_b") (parse_splits st1)) as [[st2 sb]|] eqn:Eb; [|discriminate]. cbn [bind fst snd] in H.
  destruct (decode_tail f) as [t|] eqn:Et; [|discriminate]. cbn [bind] in H.
  destruct (pos_of st2 (h_pos h)) as [[st3 pid]|] eqn:Ep; [|discriminate]. cbn [bind fst snd] in H.
  destruct ((h_mode h =? 0) && negb match sa with [] => match sb with [] => true | _ :: _ => false end | _ :: _ => false end); [discriminate|].
  destruct (match h_surface h with [] => true | _ :: _ => false end); [discriminate|].
  destruct (has_nul (h_surface h)); [discriminate|]. inversion H; subst st' r; clear H.
  assert (Ha : extends st st1 /\ pos_inv st1).
  { destruct (get f "split_a"); [|discriminate]. cbn [bind] in Ea. apply (parse_splits_extends HL _ _ _ _ Hinv Ea). }
  destruct Ha as [He1 Hi1].
  assert (Hb : extends st1 st2 /\ pos_inv st2).
  { destruct (get f "split_b"); [|discriminate]. cbn [bind] in Eb. apply (parse_splits_extends HL _ _ _ _ Hi1 Eb). }
  destruct Hb as [He2 Hi2].
  destruct (pos_of_extends HL _ _ _ _ Hi2 Ep) as (He3 & Hi3 & Hn & Hlt).
  exists h, t, pid. cbn [r_surface r_entry r_a r_b].
  split; [reflexivity|]. split; [reflexivity|]. split; [reflexivity|]. split; [reflexivity|].
  split; [exists st1, sa; split; reflexivity|].
  split; [exists st1, st2, sb; split; [exact Eb|reflexivity]|].
  split; [exact Hn|]. split; [exact Hlt|].
  split; [eapply extends_trans; [eapply extends_trans; eassumption|exact He3]|exact Hi3].
Qed.

(* all records *)
Lemma parse_records_spec : pos_limit_ok = true -> forall rows st st' rrows, pos_inv st ->
  parse_records st rows = ROk (st', rrows) ->
  extends st st' /\ pos_inv st' /\
  forall k f, nth_error rows k = Some f ->
    exists stk stk' r, nth_error rrows k = Some r /\ pos_inv stk /\ parse_record stk f = ROk (stk', r) /\ extends stk' st'.
Proof.
  intros HL. induction rows as [|f0 t IH]; intros st st' rrows Hinv H; cbn [parse_records] in H.
  - inversion H; subst. split; [apply extends_refl|]. split; [exact Hinv|]. intros [|k] f Hk; discriminate.
  - destruct (parse_record st f0) as [[st1 r0]|] eqn:E0; [|discriminate]. cbn [bind fst snd] in H.
    destruct (parse_records st1 t) as [[st2 rs]|] eqn:Et; [|discriminate]. cbn [bind fst snd] in H. inversion H; subst st' rrows.
    destruct (parse_record_spec HL _ _ _ _ Hinv E0) as (h & tl & pid & _ & _ & _ & _ & _ & _ & _ & _ & He1 & Hi1).
    destruct (IH _ _ _ Hi1 Et) as (He2 & Hi2 & Hall).
    split; [eapply extends_trans; eassumption|]. split; [exact Hi2|].
    intros [|k] f Hk; cbn [nth_error] in Hk |- *.
    + inversion Hk; subst f. exists st, st1, r0. split; [reflexivity|]. split; [exact Hinv|]. split; [exact E0|exact He2].
    + apply Hall. exact Hk.
Qed.

(* ------------------------------------------------------------------ the composition *)
(* what DictBuilder::compile checks before writing (validate_entries): references name existing words *)
Definition refs_valid (es : list entry) : Prop :=
  forall e, In e es ->
    (to_i32 (e_dic_form e) < Z.of_nat (List.length es))%Z /\
    forallb (fun x => x <? 4294967296) (e_splits_a e) = true /\ forallb (fun x => x <? 4294967296) (e_splits_b e) = true.

(* what the row says, column by column, once the table `st` and the resolved entries `es` are there *)
Definition row_says (st : pos_state) (rrows : list rrow) (es : list entry) (k : nat) (f : list text) (info : winfo) (params : option (Z * Z * Z)) : Prop :=
  exists h t pid r,
    decode_head f = ROk h /\ decode_tail f = ROk t /\ nth_error rrows k = Some r /\
    accessor A_surface info = VText (h_headword h) /\
    accessor A_hwlen info = VNum (utf8_len (h_surface h)) /\
    accessor A_pos info = VNum pid /\ nth_error st (N.to_nat pid) = Some (h_pos h) /\
    accessor A_norm info = VText (match h_norm h with [] => h_headword h | _ => h_norm h end) /\
    accessor A_reading info = VText (match h_reading h with [] => h_headword h | _ => h_reading h end) /\
    accessor A_dfwi info = VInt (to_i32 (h_dic h)) /\
    (exists e, nth_error es k = Some e /\ accessor A_dicform info = VText (declared_dicform es k e)) /\
    accessor A_ws info = VArr (fst t) /\ accessor A_syn info = VArr (snd t) /\
    (exists a b, accessor A_a info = VArr a /\ accessor A_b info = VArr b /\
                 Forall2 (unit_target rrows) (r_a r) a /\ Forall2 (unit_target rrows) (r_b r) b) /\
    params = Some (h_left h, h_right h, h_cost h).

Theorem row_roundtrip :
  FO.writer_fields = expected_writer -> reader_facts_ok -> len_thresholds_ok = true ->
  pos_limit_ok = true -> word_mask_ok = true ->
  forall rows st rrows es prefix sec,
  Forall fields_scalar rows ->
  parse_records [] rows = ROk (st, rrows) ->
  resolve_rows false rrows [] = Some es ->
  refs_valid es ->
  write_words_section (N.of_nat (List.length prefix)) es = Some sec ->
  N.of_nat (List.length (prefix ++ sec)) < 4294967296 ->
  forall k f, nth_error rows k = Some f ->
  exists info,
    get_word_info (lexicon_of_file (prefix ++ sec) (N.of_nat (List.length prefix))) true (N.of_nat k) ALL = Some info /\
    row_says st rrows es k f info (file_params (prefix ++ sec) (N.of_nat (List.length prefix)) (N.of_nat k)).
Proof.
  intros HW HR Hok HL HM rows st rrows es prefix sec Hsc Hparse Hres Hrefs Hsec Hsize k f Hk.
  assert (Hinv0 : pos_inv []).
  { split; [constructor|]. unfold pos_limit_ok in HL. apply andb_true_iff in HL as [HL _]. apply andb_true_iff in HL as [_ H0]. cbn. lia. }
  destruct (parse_records_spec HL rows [] st rrows Hinv0 Hparse) as (_ & _ & Hall).
  pose proof (resolve_rows_with_spec _ _ _ _ _ Hres) as Hspec.
  (* every entry is well formed *)
  assert (Hwf : lexicon_wf es).
  { intros e Hin. apply In_nth_error in Hin as (j & Hj).
    assert (Hjr : exists r, nth_error rrows j = Some r /\ exists a b, e = with_splits (r_entry r) a b).
    { clear - Hspec Hj. revert j Hj. induction Hspec as [|r0 e0 rs es0 (a & b & -> & _) _ IH]; intros j Hj; [destruct j; discriminate|].
      destruct j as [|j]; cbn [nth_error] in *; [inversion Hj; subst; eauto|apply IH; exact Hj]. }
    destruct Hjr as (r & Hr & a & b & ->).
    assert (Hrow : exists fj, nth_error rows j = Some fj).
    { destruct (nth_error rows j) as [fj|] eqn:E; [eauto|]. exfalso.
      assert (Hlen : List.length rrows = List.length rows).
      { clear - Hparse. revert Hparse. generalize (@nil posrow) as s0. revert st rrows.
        induction rows as [|x t IH]; intros st rrows s0 H; cbn [parse_records] in H; [inversion H; reflexivity|].
        destruct (parse_record s0 x) as [[s1 r1]|]; [|discriminate]. cbn [bind fst snd] in H.
        destruct (parse_records s1 t) as [[s2 rs]|] eqn:Et; [|discriminate]. cbn [bind fst snd] in H. inversion H; subst.
        cbn [List.length]. f_equal. apply (IH _ _ _ Et). }
      apply nth_error_None in E. assert (j < List.length rrows)%nat by (apply nth_error_Some; congruence). lia. }
    destruct Hrow as (fj & Hfj). destruct (Hall j fj Hfj) as (stk & stk' & r' & Hr' & Hik & Hpr & _).
    rewrite Hr in Hr'. inversion Hr'; subst r'.
    destruct (parse_record_spec HL _ _ _ _ Hik Hpr) as (h & t & pid & Hh & Ht & _ & Hent & _ & _ & _ & Hpid & _ & _).
    assert (Hfs : fields_scalar fj). { rewrite Forall_forall in Hsc. apply Hsc. eapply nth_error_In. exact Hfj. }
    destruct (decode_head_ok HM fj h Hfs Hh) as (S1 & S2 & S3 & S4 & _ & R1 & R2 & R3 & D).
    destruct (decode_tail_ok HM fj t Ht) as [T1 T2].
    destruct (Hrefs _ (nth_error_In _ _ Hj)) as (V1 & V2 & V3).
    rewrite Hent in *. unfold with_splits in *. cbn [e_headword e_surface_len e_pos e_norm e_dic_form e_reading e_splits_a e_splits_b e_word_structure e_synonyms e_left e_right e_cost] in *.
    split.
    { unfold entry_ok. cbn [e_headword e_norm e_reading e_pos e_dic_form e_splits_a e_splits_b e_word_structure e_synonyms].
      rewrite S2, S4, S3, V2, V3, T1, T2. cbn [andb]. apply andb_true_iff. split; lia. }
    cbn [e_left e_right e_cost e_dic_form]. repeat split; try lia; exact V1. }
  destruct (lexicon_roundtrip HW HR Hok prefix es sec Hsec Hsize Hwf) as (_ & Hlex).
  (* row k *)
  destruct (Hall k f Hk) as (stk & stk' & r & Hr & Hik & Hpr & Hext).
  destruct (parse_record_spec HL _ _ _ _ Hik Hpr) as (h & t & pid & Hh & Ht & Hsf & Hent & (sta & sa & _ & Hsa) & (stb0 & stb & sb & _ & Hsb) & Hnth & Hpid & _ & _).
  destruct (Forall2_nth_error_l _ _ _ _ _ Hspec Hr) as (e & He & a & b & -> & Ha & Hb).
  destruct (Hlex k _ He) as ((info & Hinfo & Hl) & Hparams).
  exists info. split; [exact Hinfo|].
  unfold loaded_as in Hl. destruct Hl as (L1 & L2 & L3 & L4 & L5 & L6 & L7 & L8 & L9 & L10 & L11).
  rewrite Hent in *. unfold with_splits in *.
  cbn [e_headword e_surface_len e_pos e_norm e_dic_form e_reading e_splits_a e_splits_b e_word_structure e_synonyms e_left e_right e_cost] in *.
  unfold or_headword in L4, L7. cbn [e_headword] in L4, L7.
  exists h, t, pid, r.
  split; [exact Hh|]. split; [exact Ht|]. split; [exact Hr|]. split; [exact L1|]. split; [exact L2|]. split; [exact L3|].
  split; [apply (extends_nth _ _ _ _ Hext Hnth)|]. split; [exact L4|]. split; [exact L7|]. split; [exact L5|].
  split; [eexists; split; [exact He|exact L6]|]. split; [exact L10|]. split; [exact L11|].
  split; [|exact Hparams].
  exists a, b. split; [exact L8|]. split; [exact L9|].
  split; [apply (Forall2_imp _ _ _ _ (system_unit_target rrows) Ha)|apply (Forall2_imp _ _ _ _ (system_unit_target rrows) Hb)].
Qed.

(* ------------------------------------------------------------------ the POS table of the records is writable text *)
Definition scalar (s : text) : Prop := forallb is_scalar s = true.

Lemma split_on_scalar : forall sep s, scalar s -> Forall scalar (split_on sep s).
Proof.
  unfold scalar. induction s as [|c t IH]; intros H; cbn [split_on]; [repeat constructor|].
  cbn [forallb] in H. apply andb_true_iff in H as [Hc Ht]. specialize (IH Ht).
  destruct (c =? sep); [constructor; [reflexivity|exact IH]|].
  destruct (split_on sep t) as [|h r]; [repeat constructor; cbn; rewrite Hc; reflexivity|].
  inversion IH; subst. constructor; [cbn [forallb]; rewrite Hc; assumption|assumption].
Qed.

Lemma splitn_scalar : forall sep s n, scalar s -> Forall scalar (splitn n sep s).
Proof.
  unfold scalar. induction s as [|c t IH]; intros n H.
  - destruct n as [|[|k]]; cbn [splitn]; repeat constructor.
  - assert (H' := H). cbn [forallb] in H. apply andb_true_iff in H as [Hc Ht].
    destruct n as [|[|k]]; cbn [splitn]; [constructor|repeat constructor; exact H'|].
    destruct (c =? sep); [constructor; [reflexivity|apply IH; exact Ht]|].
    pose proof (IH (S (S k)) Ht) as IH2.
    destruct (splitn (S (S k)) sep t) as [|h r]; [repeat constructor; cbn; rewrite Hc; reflexivity|].
    inversion IH2; subst. constructor; [cbn [forallb]; rewrite Hc; assumption|assumption].
Qed.

Definition table_ok (st : pos_state) : Prop := pos_inv st /\ Forall posrow_ok st.

Lemma pos_of_table : pos_limit_ok = true -> forall st p st' id, table_ok st -> posrow_ok p -> pos_of st p = ROk (st', id) -> table_ok st'.
Proof.
  intros HL st p st' id [Hi Hf] Hp H. destruct (pos_of_spec HL st p st' id Hi H) as (Hi' & _ & _ & Hc).
  split; [exact Hi'|]. destruct Hc as [[_ ->]|(_ & -> & _)]; [exact Hf|]. apply Forall_app. split; [exact Hf|constructor; [exact Hp|constructor]].
Qed.

Lemma parse_split_table : pos_limit_ok = true -> forall st item st' u, table_ok st -> scalar item ->
  parse_split st item = ROk (st', u) -> table_ok st'.
Proof.
  intros HL st item st' u Hinv Hsc H. unfold parse_split in H.
  destruct (is_wid_literal item).
  - destruct (parse_wordid item); [|discriminate]. cbn [bind] in H. inversion H; subst. exact Hinv.
  - pose proof (splitn_scalar COMMA item (N.to_nat CF.inline_splitn) Hsc) as Hp.
    destruct (splitn (N.to_nat CF.inline_splitn) COMMA item) as [|f0 rest]; [discriminate|].
    inversion Hp as [|? ? _ Hp1]; subst.
    destruct (unescape f0) as [surface|]; [|discriminate]. cbn [bind] in H.
    destruct rest as [|f1 rest]; [discriminate|]. inversion Hp1 as [|? ? S1 Hp2]; subst. destruct (unescape f1) as [q1|] eqn:U1; [|discriminate]. cbn [bind] in H.
    destruct rest as [|f2 rest]; [discriminate|]. inversion Hp2 as [|? ? S2 Hp3]; subst. destruct (unescape f2) as [q2|] eqn:U2; [|discriminate]. cbn [bind] in H.
    destruct rest as [|f3 rest]; [discriminate|]. inversion Hp3 as [|? ? S3 Hp4]; subst. destruct (unescape f3) as [q3|] eqn:U3; [|discriminate]. cbn [bind] in H.
    destruct rest as [|f4 rest]; [discriminate|]. inversion Hp4 as [|? ? S4 Hp5]; subst. destruct (unescape f4) as [q4|] eqn:U4; [|discriminate]. cbn [bind] in H.
    destruct rest as [|f5 rest]; [discriminate|]. inversion Hp5 as [|? ? S5 Hp6]; subst. destruct (unescape f5) as [q5|] eqn:U5; [|discriminate]. cbn [bind] in H.
    destruct rest as [|f6 rest]; [discriminate|]. inversion Hp6 as [|? ? S6 Hp7]; subst. destruct (unescape f6) as [q6|] eqn:U6; [|discriminate]. cbn [bind] in H.
    destruct rest as [|f7 rest]; [discriminate|]. destruct (unescape f7) as [rd|]; [|discriminate]. cbn [bind] in H.
    destruct (pos_of st (((((([] ++ [q1]) ++ [q2]) ++ [q3]) ++ [q4]) ++ [q5]) ++ [q6])) as [[st1 pid]|] eqn:Ep; [|discriminate].
    cbn [bind fst snd] in H. inversion H; subst.
    apply (pos_of_table HL _ _ _ _ Hinv) in Ep; [exact Ep|]. cbn [app]. split; [reflexivity|].
    constructor; [exact (unescape_scalar _ _ S1 U1)|]. constructor; [exact (unescape_scalar _ _ S2 U2)|].
    constructor; [exact (unescape_scalar _ _ S3 U3)|]. constructor; [exact (unescape_scalar _ _ S4 U4)|].
    constructor; [exact (unescape_scalar _ _ S5 U5)|]. constructor; [exact (unescape_scalar _ _ S6 U6)|]. constructor.
Qed.

Lemma parse_split_items_table : pos_limit_ok = true -> forall items st st' us, table_ok st -> Forall scalar items ->
  parse_split_items st items = ROk (st', us) -> table_ok st'.
Proof.
  intros HL. induction items as [|x t IH]; intros st st' us Hinv Hsc H; cbn [parse_split_items] in H.
  - inversion H; subst. exact Hinv.
  - inversion Hsc as [|? ? Hx Ht]; subst. destruct (parse_split st x) as [[st1 u]|] eqn:E1; [|discriminate]. cbn [bind fst snd] in H.
    destruct (parse_split_items st1 t) as [[st2 us']|] eqn:E2; [|discriminate]. cbn [bind fst snd] in H. inversion H; subst.
    apply (IH _ _ _ (parse_split_table HL _ _ _ _ Hinv Hx E1) Ht E2).
Qed.

Lemma parse_splits_table : pos_limit_ok = true -> forall st s st' us, table_ok st -> scalar s ->
  parse_splits st s = ROk (st', us) -> table_ok st'.
Proof.
  intros HL st s st' us Hinv Hsc H. unfold parse_splits in H. destruct (empty_or_star s); [inversion H; subst; exact Hinv|].
  destruct (parse_split_items st (split_on SLASH s)) as [[st1 us1]|] eqn:E; [|discriminate]. cbn [bind snd] in H.
  destruct (list_too_long us1); [discriminate|]. inversion H; subst.
  apply (parse_split_items_table HL _ _ _ _ Hinv (split_on_scalar SLASH s Hsc) E).
Qed.

Lemma parse_record_table : pos_limit_ok = true -> word_mask_ok = true -> forall st f st' r, table_ok st -> fields_scalar f ->
  parse_record st f = ROk (st', r) -> table_ok st'.
Proof.
  intros HL HM st f st' r Hinv Hf H. unfold parse_record in H.
  destruct (decode_head f) as [h|] eqn:Eh; [|discriminate]. cbn [bind] in H.
  destruct (bind (get f "split_a") (parse_splits st)) as [[st1 sa]|] eqn:Ea; [|discriminate]. cbn [bind fst snd] in H.
  destruct (bind (get f "split_b") (parse_splits st1)) as [[st2 sb]|] eqn:Eb; [|discriminate]. cbn [bind fst snd] in H.
  destruct (decode_tail f) as [t|]; [|discriminate]. cbn [bind] in H.
  destruct (pos_of st2 (h_pos h)) as [[st3 pid]|] eqn:Ep; [|discriminate]. cbn [bind fst snd] in H.
  destruct ((h_mode h =? 0) && negb match sa with [] => match sb with [] => true | _ :: _ => false end | _ :: _ => false end); [discriminate|].
  destruct (match h_surface h with [] => true | _ :: _ => false end); [discriminate|].
  destruct (has_nul (h_surface h)); [discriminate|]. inversion H; subst st' r; clear H.
  assert (Hsc : forall v s, get f v = ROk s -> scalar s).
  { intros v s Hg. unfold fields_scalar in Hf. rewrite Forall_forall in Hf. apply Hf. eapply get_in. exact Hg. }
  assert (T1 : table_ok st1).
  { destruct (get f "split_a") as [s|] eqn:G; [|discriminate]. cbn [bind] in Ea. apply (parse_splits_table HL _ _ _ _ Hinv (Hsc _ _ G) Ea). }
  assert (T2 : table_ok st2).
  { destruct (get f "split_b") as [s|] eqn:G; [|discriminate]. cbn [bind] in Eb. apply (parse_splits_table HL _ _ _ _ T1 (Hsc _ _ G) Eb). }
  destruct (decode_head_ok HM f h Hf Eh) as (_ & _ & _ & _ & Hp & _).
  apply (pos_of_table HL _ _ _ _ T2 Hp Ep).
Qed.

Lemma parse_records_table : pos_limit_ok = true -> word_mask_ok = true -> forall rows st st' rrows, table_ok st -> Forall fields_scalar rows ->
  parse_records st rows = ROk (st', rrows) -> table_ok st'.
Proof.
  intros HL HM. induction rows as [|f t IH]; intros st st' rrows Hinv Hf H; cbn [parse_records] in H.
  - inversion H; subst. exact Hinv.
  - inversion Hf as [|? ? Hx Ht]; subst. destruct (parse_record st f) as [[st1 r]|] eqn:E; [|discriminate]. cbn [bind fst snd] in H.
    destruct (parse_records st1 t) as [[st2 rs]|] eqn:Et; [|discriminate]. cbn [bind fst snd] in H. inversion H; subst.
    apply (IH _ _ _ (parse_record_table HL HM _ _ _ _ Hinv Hx E) Ht Et).
Qed.

(* the POS table of a compiled system lexicon, written by write_pos_table, is read back by the grammar reader as the very
   table the records were numbered against: part_of_speech(id) = pos_list[id] = the six components of the row *)
Theorem records_pos_table_roundtrip :
  len_thresholds_ok = true -> pos_limit_ok = true -> word_mask_ok = true -> CF.POS_DEPTH = 6 ->
  forall rows st rrows b rest,
  Forall fields_scalar rows -> parse_records [] rows = ROk (st, rrows) ->
  pos_table_bytes st = Some b -> read_pos_table (b ++ rest) = Some (st, rest).
Proof.
  intros Hok HL HM Hd rows st rrows b rest Hf Hp Hb.
  assert (H0 : table_ok []).
  { split; [split; [constructor|]|constructor]. unfold pos_limit_ok in HL. apply andb_true_iff in HL as [HL _]. apply andb_true_iff in HL as [_ H0]. cbn. lia. }
  destruct (parse_records_table HL HM rows [] st rrows H0 Hf Hp) as [[_ Hlen] Hall].
  apply (pos_table_roundtrip Hok Hd st b rest Hall); [|exact Hb].
  unfold pos_limit_ok in HL. apply andb_true_iff in HL as [_ H65]. lia.
Qed.

(* the index forms of the parsed rows are texts of scalar values (their UTF-8 bytes are the keys of the index) *)
Lemma parse_records_surfaces_scalar : pos_limit_ok = true -> word_mask_ok = true -> forall rows st st' rrows,
  pos_inv st -> Forall fields_scalar rows -> parse_records st rows = ROk (st', rrows) ->
  Forall (fun r => forallb is_scalar (r_surface r) = true) rrows.
Proof.
  intros HL HM. induction rows as [|f t IH]; intros st st' rrows Hinv Hf H; cbn [parse_records] in H.
  - inversion H; subst. constructor.
  - inversion Hf as [|? ? Hx Ht]; subst. destruct (parse_record st f) as [[st1 r]|] eqn:E; [|discriminate]. cbn [bind fst snd] in H.
    destruct (parse_records st1 t) as [[st2 rs]|] eqn:Et; [|discriminate]. cbn [bind fst snd] in H. inversion H; subst.
    destruct (parse_record_spec HL _ _ _ _ Hinv E) as (h & tl & pid & Hh & _ & Hs & _ & _ & _ & _ & _ & _ & Hi1).
    constructor; [|apply (IH _ _ _ Hi1 Ht Et)].
    rewrite Hs. destruct (decode_head_ok HM f h Hx Hh) as (S1 & _). exact S1.
Qed.
