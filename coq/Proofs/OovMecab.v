(* C13, part 3: the candidates of MeCabOovPlugin::provide_oov_gen are exactly those the definition prescribes. *)
From Coq Require Import List NArith Bool Lia ZifyBool ZifyNat ZifyN PeanoNat String.
From SudachiVerif Require Import Model.Oov Proofs.OovContinuity.
Import ListNotations.
Open Scope N_scope.

Arguments N.land : simpl never.
Arguments N.eqb : simpl never.

Lemma in_flat_nodes off oovs L nd :
  In nd (flat_map (fun l => map (oov_node off (off + l)) oovs) L)
  <-> exists l o, In l L /\ In o oovs /\ nd = oov_node off (off + l)%nat o.
Proof.
  rewrite in_flat_map. split.
  - intros [l [Hl H]]. apply in_map_iff in H. destruct H as [o [<- Ho]]. exists l, o. auto.
  - intros [l [o [Hl [Ho ->]]]]. exists l. split; [exact Hl|]. apply in_map_iff. exists o. auto.
Qed.

Section Mecab.
  Hypothesis Hbreak : OF.mecab_break_cmp = ">"%string.
  Hypothesis Hincl : OF.mecab_len_inclusive = true.
  Hypothesis Hdec : OF.mecab_group_dec = 1%nat.

  Lemma break_eval a b : cmp_eval OF.mecab_break_cmp a b = Nat.ltb b a.
  Proof. rewrite Hbreak. reflexivity. Qed.

  (* everything the length loop produces has a length within the limits *)
  Lemma len_loop_sound len off ll oovs : forall k s nd,
    In nd (len_loop (seq s k) len off ll oovs) ->
    exists l o, In o oovs /\ nd = oov_node off (off + l)%nat o
                /\ (l <= ll /\ l < s + k /\ Nat.min s (len - off) <= l)%nat.
  Proof.
    induction k as [|k IH]; intros s nd H; [contradiction|].
    cbn [seq len_loop] in H. rewrite break_eval in H.
    destruct (Nat.ltb_spec ll (char_distance len off s)) as [L|L]; [contradiction|].
    apply in_app_iff in H. destruct H as [H|H].
    - apply in_map_iff in H. destruct H as [o [<- Ho]].
      exists (char_distance len off s), o. unfold char_distance in *. repeat split; auto; lia.
    - apply IH in H. destruct H as [l [o [Ho [-> B]]]]. exists l, o. repeat split; auto; lia.
  Qed.

  (* and every length within the limits is produced *)
  Lemma len_loop_complete len off ll oovs : (off + ll <= len)%nat -> forall k s l o,
    (s <= l < s + k)%nat -> (l <= ll)%nat -> In o oovs ->
    In (oov_node off (off + l)%nat o) (len_loop (seq s k) len off ll oovs).
  Proof.
    intros Hll. induction k as [|k IH]; intros s l o Hl Hle Ho; [lia|].
    cbn [seq len_loop]. rewrite break_eval.
    assert (E : char_distance len off s = s) by (unfold char_distance; lia).
    rewrite E. destruct (Nat.ltb_spec ll s) as [L|L]; [lia|].
    apply in_app_iff. destruct (Nat.eq_dec l s) as [->|N].
    - left. apply in_map. exact Ho.
    - right. apply IH; auto. lia.
  Qed.

  Lemma class_nodes_spec len off char_len n (group : bool) oovs nd :
    (1 <= char_len)%nat -> (off + char_len <= len)%nat ->
    In nd ((if group then map (oov_node off (off + char_len)) oovs else [])
           ++ len_loop (seq 1 n) len off (if group then (char_len - 1)%nat else char_len) oovs)
    <-> exists l o, In l ((if group then [char_len] else [])
                          ++ seq 1 (Nat.min n (if group then pred char_len else char_len)))
                    /\ In o oovs /\ nd = oov_node off (off + l)%nat o.
  Proof.
    intros H1 H2. rewrite in_app_iff. split.
    - intros [H|H].
      + destruct group; [|contradiction]. apply in_map_iff in H. destruct H as [o [<- Ho]].
        exists char_len, o. repeat split; auto. apply in_app_iff. left. left. reflexivity.
      + apply len_loop_sound in H. destruct H as [l [o [Ho [-> B]]]]. exists l, o. repeat split; auto.
        apply in_app_iff. right. apply in_seq. destruct group; lia.
    - intros [l [o [Hl [Ho ->]]]]. apply in_app_iff in Hl. destruct Hl as [Hl|Hl].
      + destruct group; [|contradiction]. destruct Hl as [<-|[]]. left. apply in_map. exact Ho.
      + right. apply in_seq in Hl. apply len_loop_complete; auto; destruct group; lia.
  Qed.

  Lemma mecab_class_spec m len off char_len other ctype nd :
    (1 <= char_len)%nat -> (off + char_len <= len)%nat ->
    In nd (mecab_class m len off char_len other ctype) <-> In nd (prescribed_class m off char_len other ctype).
  Proof.
    intros H1 H2. unfold mecab_class, prescribed_class.
    destruct (find_cinfo m ctype) as [ci|]; [|tauto].
    assert (E : negb (ci_invoke ci) && negb (other =? 0) = negb (ci_invoke ci || (other =? 0)))
      by (destruct (ci_invoke ci), (other =? 0); reflexivity).
    rewrite E. destruct (ci_invoke ci || (other =? 0)); cbn [negb]; [|tauto].
    destruct (find_oovs m (ci_type ci)) as [oovs|]; [|tauto].
    unfold len_range, prescribed_lengths. rewrite Hincl, Hdec, in_flat_nodes.
    apply class_nodes_spec; assumption.
  Qed.

  (* MeCabOovPlugin: for all definitions, texts, offsets and states of the created-words set, the produced candidates are
     (as a set) the prescribed ones, where the class run is the one of the left-to-right specification *)
  Lemma mecab_candidates_generic m cs off other ns :
    continuity cs = continuity_spec cs ->
    mecab_provide m cs (continuity cs) off other = ROk ns ->
    forall nd, In nd ns <-> In nd (prescribed m cs off other).
  Proof.
    intros Hc H nd. unfold mecab_provide in H. unfold prescribed. rewrite Hc in H.
    destruct (nth_error (continuity_spec cs) off) as [char_len|] eqn:E1; [|discriminate].
    destruct (nth_error cs off) as [c|] eqn:E2; [|discriminate].
    apply spec_bound in E1. destruct E1 as [B1 B2].
    destruct (Nat.eqb_spec char_len 0) as [Z|Z]; [lia|]. injection H as <-.
    rewrite !in_flat_map. split; intros [ct [Hct Hn]]; exists ct; (split; [exact Hct|]);
      apply (mecab_class_spec m (List.length cs) off char_len other ct nd); auto.
  Qed.
End Mecab.

(* what [prescribed] says, spelled out *)
Lemma prescribed_iff m cs off other nd :
  In nd (prescribed m cs off other) <->
  exists char_len c ctype ci oovs o l,
    nth_error (continuity_spec cs) off = Some char_len /\ nth_error cs off = Some c
    /\ In ctype (iter_flags c)                               (* a class of the character *)
    /\ find_cinfo m ctype = Some ci                          (* its definition in char.def *)
    /\ (ci_invoke ci = true \/ other = 0)                    (* always invoked, or nothing created yet *)
    /\ find_oovs m (ci_type ci) = Some oovs /\ In o oovs     (* one of its unknown-word definitions *)
    /\ nd = oov_node off (off + l)%nat o                     (* ids, cost, part of speech of that definition *)
    /\ ((ci_group ci = true /\ l = char_len)                 (* the grouped candidate spanning the run *)
        \/ (1 <= l <= ci_length ci /\ l <= (if ci_group ci then pred char_len else char_len))%nat).
Proof.
  unfold prescribed. split.
  - destruct (nth_error (continuity_spec cs) off) as [char_len|]; [|contradiction].
    destruct (nth_error cs off) as [c|]; [|contradiction].
    intros H. apply in_flat_map in H. destruct H as [ct [Hct H]]. unfold prescribed_class in H.
    destruct (find_cinfo m ct) as [ci|] eqn:E1; [|contradiction].
    destruct (ci_invoke ci || (other =? 0)) eqn:E2; [|contradiction].
    destruct (find_oovs m (ci_type ci)) as [oovs|] eqn:E3; [|contradiction].
    apply in_flat_nodes in H. destruct H as [l [o [Hl [Ho ->]]]].
    exists char_len, c, ct, ci, oovs, o, l. repeat split; auto.
    + apply orb_true_iff in E2. destruct E2 as [E2|E2]; [left; exact E2|right; lia].
    + unfold prescribed_lengths in Hl. apply in_app_iff in Hl. destruct Hl as [Hl|Hl].
      * destruct (ci_group ci); [|contradiction]. destruct Hl as [<-|[]]. left. auto.
      * right. apply in_seq in Hl. lia.
  - intros [char_len [c [ct [ci [oovs [o [l [-> [-> [Hct [E1 [E2 [E3 [Ho [-> Hl]]]]]]]]]]]]]]].
    apply in_flat_map. exists ct. split; [exact Hct|]. unfold prescribed_class. rewrite E1.
    replace (ci_invoke ci || (other =? 0)) with true by (destruct E2 as [->| ->]; [reflexivity|symmetry; apply orb_true_r]).
    rewrite E3. apply in_flat_nodes. exists l, o. repeat split; auto.
    unfold prescribed_lengths. apply in_app_iff. destruct Hl as [[G ->]|Hl].
    + left. rewrite G. left. reflexivity.
    + right. apply in_seq. lia.
Qed.

Lemma bool_sub_diff (r g s : bool) : r && s = r -> (r && negb g) && s = r && negb g.
Proof. destruct r, g, s; cbn; congruence. Qed.
Lemma bool_keep_diff (r p f : bool) : r && f = f -> p && f = false -> (r && negb p) && f = f.
Proof. destruct r, p, f; cbn; congruence. Qed.

(* ---- the classes of a character, as iterated: a named single-bit class is visited iff the character has it ---- *)
Lemma iter_names_in : forall flags source remaining f,
  In f (fst (iter_names flags source remaining)) -> In f flags /\ contains source f = true.
Proof.
  induction flags as [|g t IH]; intros source remaining f H; [contradiction|].
  cbn [iter_names] in H. destruct (remaining =? 0); [contradiction|].
  destruct (contains source g && inter remaining g) eqn:E.
  - destruct (iter_names t source (N.ldiff remaining g)) as [l r] eqn:E2. cbn [fst] in H.
    destruct H as [<-|H].
    + split; [left; reflexivity|]. apply andb_true_iff in E. tauto.
    + specialize (IH source (N.ldiff remaining g) f). rewrite E2 in IH. destruct (IH H). split; [right|]; assumption.
  - destruct (IH _ _ _ H). split; [right|]; assumption.
Qed.

(* a flag that shares no bit with the flags declared before it is visited iff it is contained in the source *)
Lemma iter_names_complete : forall flags source remaining f,
  f <> 0 -> contains source f = true -> N.land remaining f = f ->
  forall pre post, flags = pre ++ f :: post -> (forall g, In g pre -> N.land g f = 0) ->
  In f (fst (iter_names flags source remaining)).
Proof.
  induction flags as [|g t IH]; intros source remaining f Hnz Hc Hr pre post E Hd.
  - destruct pre; discriminate.
  - cbn [iter_names].
    assert (Hrem : remaining <> 0) by (intros Z; rewrite Z, N.land_0_l in Hr; congruence).
    replace (remaining =? 0) with false by lia.
    destruct pre as [|p pre].
    + cbn in E. injection E as -> ->. rewrite Hc. unfold inter. rewrite Hr.
      replace (f =? 0) with false by lia. cbn [negb andb].
      destruct (iter_names post source (N.ldiff remaining f)). left. reflexivity.
    + cbn in E. injection E as -> ->.
      assert (Hpf : N.land p f = 0) by (apply Hd; left; reflexivity).
      destruct (contains source p && inter remaining p).
      * destruct (iter_names (pre ++ f :: post) source (N.ldiff remaining p)) as [l r] eqn:E2. cbn [fst]. right.
        specialize (IH source (N.ldiff remaining p) f Hnz Hc). rewrite E2 in IH. cbn [fst] in IH.
        apply (IH) with (pre := pre) (post := post); auto.
        -- apply N.bits_inj. intros n. rewrite N.land_spec, N.ldiff_spec.
           assert (B1 : N.testbit (N.land remaining f) n = N.testbit f n) by (rewrite Hr; reflexivity).
           assert (B2 : N.testbit (N.land p f) n = false) by (rewrite Hpf; apply N.bits_0).
           rewrite N.land_spec in B1, B2. apply bool_keep_diff; assumption.
        -- intros g Hg. apply Hd. right. exact Hg.
      * apply (IH source remaining f Hnz Hc Hr pre post); auto. intros g Hg. apply Hd. right. exact Hg.
Qed.

Lemma iter_flags_named c f pre post :
  flag_values = pre ++ f :: post -> (forall g, In g pre -> N.land g f = 0) -> f <> 0 ->
  (In f (iter_flags c) <-> contains c f = true).
Proof.
  intros E Hd Hnz. unfold iter_flags.
  destruct (iter_names flag_values c c) as [l r] eqn:E2.
  assert (Hl : In f l <-> contains c f = true).
  { split.
    - intros H. pose proof (iter_names_in flag_values c c f) as X. rewrite E2 in X. apply X. exact H.
    - intros H. pose proof (iter_names_complete flag_values c c f Hnz H) as X. rewrite E2 in X.
      apply X with (pre := pre) (post := post); auto. unfold contains in H. lia. }
  destruct (r =? 0) eqn:Er; [exact Hl|].
  rewrite in_app_iff. split; [|intros H; left; apply Hl; exact H].
  intros [H|[<-|[]]]; [apply Hl; exact H|].
  (* the residual value: bits of c not covered by any visited flag; it is a subset of c *)
  assert (Hsub : forall flags source remaining, N.land remaining source = remaining ->
                 N.land (snd (iter_names flags source remaining)) source = snd (iter_names flags source remaining)).
  { induction flags as [|g t IH]; intros source remaining Hs; cbn [iter_names]; [exact Hs|].
    destruct (remaining =? 0); [exact Hs|].
    destruct (contains source g && inter remaining g).
    - destruct (iter_names t source (N.ldiff remaining g)) as [l' r'] eqn:E3. cbn [snd].
      specialize (IH source (N.ldiff remaining g)). rewrite E3 in IH. apply IH.
      apply N.bits_inj. intros n. rewrite N.land_spec, N.ldiff_spec.
      assert (B : N.testbit (N.land remaining source) n = N.testbit remaining n) by (rewrite Hs; reflexivity).
      rewrite N.land_spec in B. apply bool_sub_diff. exact B.
    - apply IH. exact Hs. }
  specialize (Hsub flag_values c c (N.land_diag c)). rewrite E2 in Hsub. cbn [snd] in Hsub.
  unfold contains. rewrite N.land_comm. lia.
Qed.

(* the flags that share no bit with any flag declared before them (all single-bit classes of CategoryType) *)
Fixpoint simple_from (pre rest : list N) : list N :=
  match rest with
  | [] => []
  | f :: t => (if negb (f =? 0) && forallb (fun g => N.land g f =? 0) pre then [f] else []) ++ simple_from (pre ++ [f]) t
  end.

Lemma simple_from_split : forall rest pre f, In f (simple_from pre rest) ->
  exists a b, rest = a ++ f :: b /\ f <> 0 /\ forall g, In g (pre ++ a) -> N.land g f = 0.
Proof.
  induction rest as [|x t IH]; intros pre f H; [contradiction|].
  cbn [simple_from] in H. apply in_app_iff in H. destruct H as [H|H].
  - destruct (negb (x =? 0) && forallb (fun g => N.land g x =? 0) pre) eqn:E; [|contradiction].
    destruct H as [<-|[]]. apply andb_true_iff in E. destruct E as [E1 E2].
    exists [], t. split; [reflexivity|]. split; [lia|]. rewrite app_nil_r. intros g Hg.
    rewrite forallb_forall in E2. specialize (E2 g Hg). lia.
  - apply IH in H. destruct H as [a [b [-> [Hnz Hd]]]]. exists (x :: a), b. split; [reflexivity|]. split; [exact Hnz|].
    intros g Hg. apply Hd. rewrite <- app_assoc. exact Hg.
Qed.

Lemma classes_iterated_generic c f :
  In f (simple_from [] flag_values) -> (In f (iter_flags c) <-> contains c f = true).
Proof.
  intros H. apply simple_from_split in H. destruct H as [a [b [E [Hnz Hd]]]].
  apply (iter_flags_named c f a b E); auto.
Qed.

(* the statement of mecab_candidates with the prescription spelled out *)
Definition prescribed_prop (m : mecab) (cs : list N) (off : nat) (other : N) (nd : node) : Prop :=
  exists char_len c ctype ci oovs o l,
    nth_error (continuity_spec cs) off = Some char_len /\ nth_error cs off = Some c
    /\ In ctype (iter_flags c)
    /\ find_cinfo m ctype = Some ci
    /\ (ci_invoke ci = true \/ other = 0)
    /\ find_oovs m (ci_type ci) = Some oovs /\ In o oovs
    /\ nd = oov_node off (off + l)%nat o
    /\ ((ci_group ci = true /\ l = char_len)
        \/ (1 <= l <= ci_length ci /\ l <= (if ci_group ci then pred char_len else char_len))%nat).

Lemma mecab_candidates_explicit :
  OF.mecab_break_cmp = ">"%string -> OF.mecab_len_inclusive = true -> OF.mecab_group_dec = 1%nat ->
  OF.continuity_forward = true ->
  forall m cs off other ns,
    mecab_provide m cs (continuity cs) off other = ROk ns ->
    forall nd, In nd ns <-> prescribed_prop m cs off other nd.
Proof.
  intros F1 F2 F3 F4 m cs off other ns H nd.
  rewrite (mecab_candidates_generic F1 F2 F3 m cs off other ns (continuity_eq_spec_generic F4 cs) H nd).
  apply prescribed_iff.
Qed.
