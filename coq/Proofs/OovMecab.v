(* C13, part 3: the candidates of MeCabOovPlugin::provide_oov_gen are exactly those the definition prescribes. *)
From Coq Require Import List NArith Bool Lia ZifyBool ZifyNat ZifyN PeanoNat String FinFun.
From SudachiVerif Require Import Model.Oov Proofs.OovContinuity.
Import ListNotations.
Open Scope N_scope.

Arguments N.land : simpl never.
Arguments N.eqb : simpl never.

Lemma in_flat_nodes off oovs L nd :
  In nd (flat_map (fun l => map (oov_node off (off + l)) oovs) L)
  <-> exists l o, In l L /\ In o oovs /\ nd = oov_node off (off + l)%nat o.
Proof.
  rewrite in_flat_map. split.
  - intros [l [Hl H]]. apply in_map_iff in H. destruct H as [o [<- Ho]]. exists l, o. auto.
  - intros [l [o [Hl [Ho ->]]]]. exists l. split; [exact Hl|]. apply in_map_iff. exists o. auto.
Qed.

(* candidate lengths 1..min(length, ll); length is a u32 in N *)
Definition lens_upto (n : N) (ll : nat) : nat := N.to_nat (N.min n (N.of_nat ll)).

Section Mecab.
  Hypothesis Hbreak : OF.mecab_break_cmp = ">"%string.
  Hypothesis Hincl : OF.mecab_len_inclusive = true.
  Hypothesis Hdec : OF.mecab_group_dec = 1%nat.
  Hypothesis Hclamp : OF.mecab_break_on_clamp = true.

  Lemma break_eval a b : cmp_eval OF.mecab_break_cmp a b = Nat.ltb b a.
  Proof. rewrite Hbreak. reflexivity. Qed.

  (* the length loop, given enough fuel, produces exactly one block of candidates for every length i..min(length, ll),
     whatever `length` is: when i passes ll or the end of the text the loop leaves *)
  Lemma len_loop_closed len off ll oovs n : (off + ll <= len)%nat ->
    forall fuel i, (S (lens_upto n ll) - i <= fuel)%nat ->
    len_loop fuel i n len off ll oovs
    = flat_map (fun l => map (oov_node off (off + l)) oovs) (seq i (S (lens_upto n ll) - i)).
  Proof.
    intros Hll. unfold lens_upto. induction fuel as [|f IH]; intros i Hf.
    - replace (S (N.to_nat (N.min n (N.of_nat ll))) - i)%nat with 0%nat by lia. reflexivity.
    - cbn [len_loop]. unfold loop_done. rewrite Hincl, Hclamp, break_eval. cbn [andb].
      destruct (Nat.le_gt_cases i (N.to_nat (N.min n (N.of_nat ll)))) as [L|L].
      + replace (n <? N.of_nat i) with false by lia.
        assert (E : char_distance len off i = i) by (unfold char_distance; lia). rewrite E.
        replace (Nat.ltb ll i) with false by (symmetry; apply Nat.ltb_ge; lia).
        replace (Nat.ltb i i) with false by (symmetry; apply Nat.ltb_irrefl). cbn [orb].
        rewrite IH by lia.
        replace (S (N.to_nat (N.min n (N.of_nat ll))) - i)%nat with (S (S (N.to_nat (N.min n (N.of_nat ll))) - S i)) by lia.
        reflexivity.
      + replace (S (N.to_nat (N.min n (N.of_nat ll))) - i)%nat with 0%nat by lia. cbn [seq flat_map].
        destruct (N.ltb_spec n (N.of_nat i)); [reflexivity|].
        assert (Hi : (ll < i)%nat) by lia.
        destruct (Nat.ltb_spec ll (char_distance len off i)); [reflexivity|].
        replace (Nat.ltb (char_distance len off i) i) with true by (symmetry; apply Nat.ltb_lt; lia). reflexivity.
  Qed.

  Lemma class_nodes_eq len off char_len n (group : bool) oovs :
    (1 <= char_len)%nat -> (off + char_len <= len)%nat ->
    (if group then map (oov_node off (off + char_len)) oovs else [])
      ++ len_loop (mecab_fuel n len off) 1 n len off (if group then (char_len - 1)%nat else char_len) oovs
    = flat_map (fun l => map (oov_node off (off + l)) oovs)
               ((if group then [char_len] else []) ++ seq 1 (lens_upto n (if group then pred char_len else char_len))).
  Proof.
    intros H1 H2. rewrite flat_map_app. f_equal.
    - destruct group; [cbn; now rewrite app_nil_r|reflexivity].
    - unfold mecab_fuel. rewrite Hclamp.
      rewrite len_loop_closed; [| destruct group; lia | unfold lens_upto; destruct group; lia ].
      replace (char_len - 1)%nat with (pred char_len) by lia.
      f_equal. f_equal. lia.
  Qed.

  (* per class, the produced list IS the prescribed list (same order, no repetition) *)
  Lemma mecab_class_eq m len off char_len other ctype :
    (1 <= char_len)%nat -> (off + char_len <= len)%nat ->
    mecab_class m len off char_len other ctype = prescribed_class m off char_len other ctype.
  Proof.
    intros H1 H2. unfold mecab_class, prescribed_class.
    destruct (find_cinfo m ctype) as [ci|]; [|reflexivity].
    assert (E : negb (ci_invoke ci) && negb (other =? 0) = negb (ci_invoke ci || (other =? 0)))
      by (destruct (ci_invoke ci), (other =? 0); reflexivity).
    rewrite E. destruct (ci_invoke ci || (other =? 0)); cbn [negb]; [|reflexivity].
    destruct (find_oovs m (ci_type ci)) as [oovs|]; [|reflexivity].
    unfold prescribed_lengths. rewrite Hdec. apply class_nodes_eq; assumption.
  Qed.

  Lemma mecab_class_spec m len off char_len other ctype nd :
    (1 <= char_len)%nat -> (off + char_len <= len)%nat ->
    In nd (mecab_class m len off char_len other ctype) <-> In nd (prescribed_class m off char_len other ctype).
  Proof. intros H1 H2. rewrite mecab_class_eq by assumption. tauto. Qed.

  (* MeCabOovPlugin: for all definitions, texts, offsets and states of the created-words set, the produced candidates are
     the prescribed ones, where the class run is the one of the left-to-right specification *)
  Lemma mecab_provide_eq_prescribed m cs off other ns :
    continuity cs = continuity_spec cs ->
    mecab_provide m cs (continuity cs) off other = ROk ns -> ns = prescribed m cs off other.
  Proof.
    intros Hc H. unfold mecab_provide in H. unfold prescribed. rewrite Hc in H.
    destruct (nth_error (continuity_spec cs) off) as [char_len|] eqn:E1; [|discriminate].
    destruct (nth_error cs off) as [c|] eqn:E2; [|discriminate].
    apply spec_bound in E1. destruct E1 as [B1 B2].
    destruct (Nat.eqb_spec char_len 0) as [Z|Z]; [lia|]. injection H as <-.
    apply flat_map_ext. intros ct. apply mecab_class_eq; assumption.
  Qed.

  Lemma mecab_candidates_generic m cs off other ns :
    continuity cs = continuity_spec cs ->
    mecab_provide m cs (continuity cs) off other = ROk ns ->
    forall nd, In nd ns <-> In nd (prescribed m cs off other).
  Proof. intros Hc H nd. rewrite (mecab_provide_eq_prescribed m cs off other ns Hc H). tauto. Qed.

  (* ---- no repeated candidate, and a bound that does not depend on `length` ---- *)
  Lemma oov_node_inj b e : FinFun.Injective (oov_node b e).
  Proof. intros [l1 r1 c1 p1] [l2 r2 c2 p2] H. unfold oov_node in H. cbn in H. injection H as -> -> -> ->. reflexivity. Qed.

  Lemma NoDup_app_disjoint {A} (l1 l2 : list A) :
    NoDup l1 -> NoDup l2 -> (forall x, In x l1 -> ~ In x l2) -> NoDup (l1 ++ l2).
  Proof.
    induction l1 as [|a t IH]; intros N1 N2 D; [exact N2|].
    inversion N1 as [|? ? Ha Nt]; subst. cbn. constructor.
    - intros H. apply in_app_iff in H. destruct H as [H|H]; [contradiction|]. apply (D a); [left; reflexivity|exact H].
    - apply IH; auto. intros x Hx. apply D. right. exact Hx.
  Qed.

  Lemma NoDup_flat_nodes off oovs : NoDup oovs -> forall L, NoDup L ->
    NoDup (flat_map (fun l => map (oov_node off (off + l)) oovs) L).
  Proof.
    intros No. induction L as [|a L IH]; intros NL; [constructor|].
    inversion NL as [|? ? Ha NL']; subst. cbn [flat_map]. apply NoDup_app_disjoint.
    - apply FinFun.Injective_map_NoDup; [apply oov_node_inj|exact No].
    - apply IH. exact NL'.
    - intros x Hx Hy. apply in_map_iff in Hx. destruct Hx as [o [<- _]].
      apply in_flat_nodes in Hy. destruct Hy as [l [o' [Hl [_ E]]]].
      assert (a = l) by (apply (f_equal n_end) in E; cbn in E; lia). subst. contradiction.
  Qed.

  Lemma prescribed_lengths_NoDup ci char_len : (1 <= char_len)%nat -> NoDup (prescribed_lengths ci char_len).
  Proof.
    intros H. unfold prescribed_lengths. apply NoDup_app_disjoint.
    - destruct (ci_group ci); [constructor; [intros []|constructor]|constructor].
    - apply seq_NoDup.
    - intros x Hx Hy. destruct (ci_group ci); [|contradiction]. destruct Hx as [<-|[]]. apply in_seq in Hy. lia.
  Qed.

  Lemma prescribed_lengths_length ci char_len : (1 <= char_len)%nat ->
    (List.length (prescribed_lengths ci char_len) <= char_len)%nat.
  Proof.
    intros H. unfold prescribed_lengths. rewrite app_length, seq_length. destruct (ci_group ci); cbn [List.length]; lia.
  Qed.

  Theorem mecab_no_duplicates_generic m len off char_len other ctype :
    (1 <= char_len)%nat -> (off + char_len <= len)%nat ->
    (forall t oovs, In (t, oovs) (m_oovs m) -> NoDup oovs) ->
    NoDup (mecab_class m len off char_len other ctype).
  Proof.
    intros H1 H2 Hn. rewrite mecab_class_eq by assumption. unfold prescribed_class.
    destruct (find_cinfo m ctype) as [ci|]; [|constructor].
    destruct (ci_invoke ci || (other =? 0)); [|constructor].
    destruct (find_oovs m (ci_type ci)) as [oovs|] eqn:E; [|constructor].
    apply NoDup_flat_nodes; [|apply prescribed_lengths_NoDup; exact H1].
    unfold find_oovs in E. destruct (find (fun p => fst p =? ci_type ci) (m_oovs m)) as [[t o]|] eqn:F; [|discriminate].
    cbn in E. injection E as ->. apply find_some in F. destruct F as [F _]. apply (Hn t oovs F).
  Qed.

  Lemma flat_nodes_length off oovs L :
    List.length (flat_map (fun l => map (oov_node off (off + l)) oovs) L) = (List.length L * List.length oovs)%nat.
  Proof. induction L as [|a L IH]; [reflexivity|]. cbn [flat_map List.length]. rewrite app_length, map_length, IH. lia. Qed.

  Theorem mecab_candidates_bounded_generic m len off char_len other ctype bound :
    (1 <= char_len)%nat -> (off + char_len <= len)%nat ->
    (forall t oovs, In (t, oovs) (m_oovs m) -> (List.length oovs <= bound)%nat) ->
    (List.length (mecab_class m len off char_len other ctype) <= char_len * bound)%nat.
  Proof.
    intros H1 H2 Hb. rewrite mecab_class_eq by assumption. unfold prescribed_class.
    destruct (find_cinfo m ctype) as [ci|]; [|cbn; lia].
    destruct (ci_invoke ci || (other =? 0)); [|cbn; lia].
    destruct (find_oovs m (ci_type ci)) as [oovs|] eqn:E; [|cbn; lia].
    rewrite flat_nodes_length. pose proof (prescribed_lengths_length ci char_len H1).
    unfold find_oovs in E. destruct (find (fun p => fst p =? ci_type ci) (m_oovs m)) as [[t o]|] eqn:F; [|discriminate].
    cbn in E. injection E as ->. apply find_some in F. destruct F as [F _]. specialize (Hb t oovs F). nia.
  Qed.
End Mecab.

(* what [prescribed] says, spelled out *)
Lemma prescribed_iff m cs off other nd :
  In nd (prescribed m cs off other) <->
  exists char_len c ctype ci oovs o l,
    nth_error (continuity_spec cs) off = Some char_len /\ nth_error cs off = Some c
    /\ In ctype (iter_flags c)                               (* a class of the character *)
    /\ find_cinfo m ctype = Some ci                          (* its definition in char.def *)
    /\ (ci_invoke ci = true \/ other = 0)                    (* always invoked, or nothing created yet *)
    /\ find_oovs m (ci_type ci) = Some oovs /\ In o oovs     (* one of its unknown-word definitions *)
    /\ nd = oov_node off (off + l)%nat o                     (* ids, cost, part of speech of that definition *)
    /\ ((ci_group ci = true /\ l = char_len)                 (* the grouped candidate spanning the run *)
        \/ ((1 <= l)%nat /\ N.of_nat l <= ci_length ci /\ (l <= (if ci_group ci then pred char_len else char_len))%nat)).
Proof.
  unfold prescribed. split.
  - destruct (nth_error (continuity_spec cs) off) as [char_len|]; [|contradiction].
    destruct (nth_error cs off) as [c|]; [|contradiction].
    intros H. apply in_flat_map in H. destruct H as [ct [Hct H]]. unfold prescribed_class in H.
    destruct (find_cinfo m ct) as [ci|] eqn:E1; [|contradiction].
    destruct (ci_invoke ci || (other =? 0)) eqn:E2; [|contradiction].
    destruct (find_oovs m (ci_type ci)) as [oovs|] eqn:E3; [|contradiction].
    apply in_flat_nodes in H. destruct H as [l [o [Hl [Ho ->]]]].
    exists char_len, c, ct, ci, oovs, o, l. repeat split; auto.
    + apply orb_true_iff in E2. destruct E2 as [E2|E2]; [left; exact E2|right; lia].
    + unfold prescribed_lengths in Hl. apply in_app_iff in Hl. destruct Hl as [Hl|Hl].
      * destruct (ci_group ci); [|contradiction]. destruct Hl as [<-|[]]. left. auto.
      * right. apply in_seq in Hl. lia.
  - intros [char_len [c [ct [ci [oovs [o [l [-> [-> [Hct [E1 [E2 [E3 [Ho [-> Hl]]]]]]]]]]]]]]].
    apply in_flat_map. exists ct. split; [exact Hct|]. unfold prescribed_class. rewrite E1.
    replace (ci_invoke ci || (other =? 0)) with true by (destruct E2 as [->| ->]; [reflexivity|symmetry; apply orb_true_r]).
    rewrite E3. apply in_flat_nodes. exists l, o. repeat split; auto.
    unfold prescribed_lengths. apply in_app_iff. destruct Hl as [[G ->]|Hl].
    + left. rewrite G. left. reflexivity.
    + right. apply in_seq. lia.
Qed.

Lemma bool_sub_diff (r g s : bool) : r && s = r -> (r && negb g) && s = r && negb g.
Proof. destruct r, g, s; cbn; congruence. Qed.
Lemma bool_keep_diff (r p f : bool) : r && f = f -> p && f = false -> (r && negb p) && f = f.
Proof. destruct r, p, f; cbn; congruence. Qed.

(* ---- the classes of a character, as iterated: a named single-bit class is visited iff the character has it ---- *)
Lemma iter_names_in : forall flags source remaining f,
  In f (fst (iter_names flags source remaining)) -> In f flags /\ contains source f = true.
Proof.
  induction flags as [|g t IH]; intros source remaining f H; [contradiction|].
  cbn [iter_names] in H. destruct (remaining =? 0); [contradiction|].
  destruct (contains source g && inter remaining g) eqn:E.
  - destruct (iter_names t source (N.ldiff remaining g)) as [l r] eqn:E2. cbn [fst] in H.
    destruct H as [<-|H].
    + split; [left; reflexivity|]. apply andb_true_iff in E. tauto.
    + specialize (IH source (N.ldiff remaining g) f). rewrite E2 in IH. destruct (IH H). split; [right|]; assumption.
  - destruct (IH _ _ _ H). split; [right|]; assumption.
Qed.

(* a flag that shares no bit with the flags declared before it is visited iff it is contained in the source *)
Lemma iter_names_complete : forall flags source remaining f,
  f <> 0 -> contains source f = true -> N.land remaining f = f ->
  forall pre post, flags = pre ++ f :: post -> (forall g, In g pre -> N.land g f = 0) ->
  In f (fst (iter_names flags source remaining)).
Proof.
  induction flags as [|g t IH]; intros source remaining f Hnz Hc Hr pre post E Hd.
  - destruct pre; discriminate.
  - cbn [iter_names].
    assert (Hrem : remaining <> 0) by (intros Z; rewrite Z, N.land_0_l in Hr; congruence).
    replace (remaining =? 0) with false by lia.
    destruct pre as [|p pre].
    + cbn in E. injection E as -> ->. rewrite Hc. unfold inter. rewrite Hr.
      replace (f =? 0) with false by lia. cbn [negb andb].
      destruct (iter_names post source (N.ldiff remaining f)). left. reflexivity.
    + cbn in E. injection E as -> ->.
      assert (Hpf : N.land p f = 0) by (apply Hd; left; reflexivity).
      destruct (contains source p && inter remaining p).
      * destruct (iter_names (pre ++ f :: post) source (N.ldiff remaining p)) as [l r] eqn:E2. cbn [fst]. right.
        specialize (IH source (N.ldiff remaining p) f Hnz Hc). rewrite E2 in IH. cbn [fst] in IH.
        apply (IH) with (pre := pre) (post := post); auto.
        -- apply N.bits_inj. intros n. rewrite N.land_spec, N.ldiff_spec.
           assert (B1 : N.testbit (N.land remaining f) n = N.testbit f n) by (rewrite Hr; reflexivity).
           assert (B2 : N.testbit (N.land p f) n = false) by (rewrite Hpf; apply N.bits_0).
           rewrite N.land_spec in B1, B2. apply bool_keep_diff; assumption.
        -- intros g Hg. apply Hd. right. exact Hg.
      * apply (IH source remaining f Hnz Hc Hr pre post); auto. intros g Hg. apply Hd. right. exact Hg.
Qed.

Lemma iter_flags_named c f pre post :
  flag_values = pre ++ f :: post -> (forall g, In g pre -> N.land g f = 0) -> f <> 0 ->
  (In f (iter_flags c) <-> contains c f = true).
Proof.
  intros E Hd Hnz. unfold iter_flags.
  destruct (iter_names flag_values c c) as [l r] eqn:E2.
  assert (Hl : In f l <-> contains c f = true).
  { split.
    - intros H. pose proof (iter_names_in flag_values c c f) as X. rewrite E2 in X. apply X. exact H.
    - intros H. pose proof (iter_names_complete flag_values c c f Hnz H) as X. rewrite E2 in X.
      apply X with (pre := pre) (post := post); auto. unfold contains in H. lia. }
  destruct (r =? 0) eqn:Er; [exact Hl|].
  rewrite in_app_iff. split; [|intros H; left; apply Hl; exact H].
  intros [H|[<-|[]]]; [apply Hl; exact H|].
  (* the residual value: bits of c not covered by any visited flag; it is a subset of c *)
  assert (Hsub : forall flags source remaining, N.land remaining source = remaining ->
                 N.land (snd (iter_names flags source remaining)) source = snd (iter_names flags source remaining)).
  { induction flags as [|g t IH]; intros source remaining Hs; cbn [iter_names]; [exact Hs|].
    destruct (remaining =? 0); [exact Hs|].
    destruct (contains source g && inter remaining g).
    - destruct (iter_names t source (N.ldiff remaining g)) as [l' r'] eqn:E3. cbn [snd].
      specialize (IH source (N.ldiff remaining g)). rewrite E3 in IH. apply IH.
      apply N.bits_inj. intros n. rewrite N.land_spec, N.ldiff_spec.
      assert (B : N.testbit (N.land remaining source) n = N.testbit remaining n) by (rewrite Hs; reflexivity).
      rewrite N.land_spec in B. apply bool_sub_diff. exact B.
    - apply IH. exact Hs. }
  specialize (Hsub flag_values c c (N.land_diag c)). rewrite E2 in Hsub. cbn [snd] in Hsub.
  unfold contains. rewrite N.land_comm. lia.
Qed.

(* the flags that share no bit with any flag declared before them (all single-bit classes of CategoryType) *)
Fixpoint simple_from (pre rest : list N) : list N :=
  match rest with
  | [] => []
  | f :: t => (if negb (f =? 0) && forallb (fun g => N.land g f =? 0) pre then [f] else []) ++ simple_from (pre ++ [f]) t
  end.

Lemma simple_from_split : forall rest pre f, In f (simple_from pre rest) ->
  exists a b, rest = a ++ f :: b /\ f <> 0 /\ forall g, In g (pre ++ a) -> N.land g f = 0.
Proof.
  induction rest as [|x t IH]; intros pre f H; [contradiction|].
  cbn [simple_from] in H. apply in_app_iff in H. destruct H as [H|H].
  - destruct (negb (x =? 0) && forallb (fun g => N.land g x =? 0) pre) eqn:E; [|contradiction].
    destruct H as [<-|[]]. apply andb_true_iff in E. destruct E as [E1 E2].
    exists [], t. split; [reflexivity|]. split; [lia|]. rewrite app_nil_r. intros g Hg.
    rewrite forallb_forall in E2. specialize (E2 g Hg). lia.
  - apply IH in H. destruct H as [a [b [-> [Hnz Hd]]]]. exists (x :: a), b. split; [reflexivity|]. split; [exact Hnz|].
    intros g Hg. apply Hd. rewrite <- app_assoc. exact Hg.
Qed.

Lemma classes_iterated_generic c f :
  In f (simple_from [] flag_values) -> (In f (iter_flags c) <-> contains c f = true).
Proof.
  intros H. apply simple_from_split in H. destruct H as [a [b [E [Hnz Hd]]]].
  apply (iter_flags_named c f a b E); auto.
Qed.

(* the statement of mecab_candidates with the prescription spelled out *)
Definition prescribed_prop (m : mecab) (cs : list N) (off : nat) (other : N) (nd : node) : Prop :=
  exists char_len c ctype ci oovs o l,
    nth_error (continuity_spec cs) off = Some char_len /\ nth_error cs off = Some c
    /\ In ctype (iter_flags c)
    /\ find_cinfo m ctype = Some ci
    /\ (ci_invoke ci = true \/ other = 0)
    /\ find_oovs m (ci_type ci) = Some oovs /\ In o oovs
    /\ nd = oov_node off (off + l)%nat o
    /\ ((ci_group ci = true /\ l = char_len)
        \/ ((1 <= l)%nat /\ N.of_nat l <= ci_length ci /\ (l <= (if ci_group ci then pred char_len else char_len))%nat)).

Lemma mecab_candidates_explicit :
  OF.mecab_break_cmp = ">"%string -> OF.mecab_len_inclusive = true -> OF.mecab_group_dec = 1%nat ->
  OF.mecab_break_on_clamp = true -> OF.continuity_forward = true ->
  forall m cs off other ns,
    mecab_provide m cs (continuity cs) off other = ROk ns ->
    forall nd, In nd ns <-> prescribed_prop m cs off other nd.
Proof.
  intros F1 F2 F3 F5 F4 m cs off other ns H nd.
  rewrite (mecab_candidates_generic F1 F2 F3 F5 m cs off other ns (continuity_eq_spec_generic F4 cs) H nd).
  apply prescribed_iff.
Qed.
