From Coq Require Import List ZArith NArith Bool Arith Lia.
From SudachiVerif Require Import Model.Lattice.
Import ListNotations.
Open Scope Z_scope.

Section Proofs.
  Variable conn : N -> N -> Z.

  (* ---------- reversed chains: last node first ---------- *)
  Definition rend (rp : list node) : nat := match rp with [] => 0%nat | m :: _ => nend m end.
  Definition rright (rp : list node) : N := match rp with [] => 0%N | m :: _ => nright m end.
  Fixpoint rcost (rp : list node) : Z :=
    match rp with
    | [] => 0
    | n :: rp' => rcost rp' + conn (rright rp') (nleft n) + ncost n
    end.
  Fixpoint valid (done : list node) (rp : list node) : Prop :=
    match rp with
    | [] => True
    | n :: rp' => In n done /\ (nbeg n < nend n)%nat /\ nbeg n = rend rp' /\ valid done rp'
    end.
  Definition rep (e : entry) (rp : list node) : Prop :=
    match enode e with None => rp = [] | Some m => exists rp', rp = m :: rp' end.

  Definition entry_ok (done : list node) (e : entry) : Prop :=
    match etotal e with
    | None => forall rp, valid done rp -> rep e rp -> False
    | Some c => (exists rp, valid done rp /\ rep e rp /\ rcost rp = c) /\
                (forall rp, valid done rp -> rep e rp -> c <= rcost rp)
    end.

  Lemma rep_right e rp : rep e rp -> rright rp = eright e.
  Proof.
    unfold rep, eright. destruct (enode e) as [m|]; [intros [rp' ->]|intros ->]; reflexivity.
  Qed.

  Lemma valid_ext d1 d2 rp : (forall x, In x d1 -> In x d2) -> valid d1 rp -> valid d2 rp.
  Proof.
    intros H. induction rp as [|n rp IH]; cbn; [auto|]. intros (H1 & H2 & H3 & H4). auto.
  Qed.

  (* a chain only uses nodes that end at or before its end *)
  Lemma valid_strengthen n done rp :
    valid (n :: done) rp -> (rend rp < nend n)%nat -> valid done rp.
  Proof.
    induction rp as [|m rp IH]; cbn; [auto|]. intros (H1 & H2 & H3 & H4) Hlt.
    assert (Hm : In m done).
    { destruct H1 as [<-|H1]; [lia|exact H1]. }
    repeat split; auto. apply IH; [exact H4|lia].
  Qed.

  (* ---------- the scan of connect_node computes a minimum ---------- *)
  Definition val (lft : N) (cst : Z) (e : entry) : option Z :=
    option_map (fun t => t + conn (eright e) lft + cst) (etotal e).

  Lemma scan_acc_le es : forall i0 lft cst j m,
    exists i c, scan conn es i0 lft cst (Some (j, m)) = Some (i, c) /\ c <= m.
  Proof.
    induction es as [|e es IH]; intros i0 lft cst j m; cbn [scan].
    - exists j, m. split; [reflexivity|lia].
    - destruct (etotal e) as [t|].
      + destruct (t + conn (eright e) lft + cst <? m) eqn:E.
        * destruct (IH (S i0) lft cst i0 (t + conn (eright e) lft + cst)) as (i & c & H1 & H2).
          exists i, c. split; [exact H1|lia].
        * apply IH.
      + apply IH.
  Qed.

  Lemma scan_le es : forall i0 lft cst acc e t,
    In e es -> etotal e = Some t ->
    exists i c, scan conn es i0 lft cst acc = Some (i, c) /\ c <= t + conn (eright e) lft + cst.
  Proof.
    induction es as [|e0 es IH]; intros i0 lft cst acc e t Hin Ht; [contradiction|].
    cbn [scan]. destruct Hin as [->|Hin].
    - rewrite Ht. destruct acc as [[j m]|].
      + destruct (t + conn (eright e) lft + cst <? m) eqn:E.
        * apply scan_acc_le.
        * destruct (scan_acc_le es (S i0) lft cst j m) as (i & c & H1 & H2).
          exists i, c. split; [exact H1|lia].
      + apply scan_acc_le.
    - eapply IH; eauto.
  Qed.

  Lemma scan_witness es : forall i0 lft cst acc i c,
    scan conn es i0 lft cst acc = Some (i, c) ->
    acc = Some (i, c) \/
    (exists e t, (i0 <= i)%nat /\ nth_error es (i - i0) = Some e /\ etotal e = Some t /\
                 c = t + conn (eright e) lft + cst).
  Proof.
    induction es as [|e es IH]; intros i0 lft cst acc i c; cbn [scan].
    - intros ->. left; reflexivity.
    - intros H. apply IH in H. destruct H as [H|(e' & t' & Hle & Hn & Ht & Hc)].
      + destruct (etotal e) as [t|] eqn:Et.
        * assert (Hnew : Some (i, c) = Some (i0, t + conn (eright e) lft + cst) ->
                         exists e0 t0, (i0 <= i)%nat /\ nth_error (e :: es) (i - i0) = Some e0 /\ etotal e0 = Some t0 /\
                                       c = t0 + conn (eright e0) lft + cst).
          { intros Heq. inversion Heq; subst. exists e, t. rewrite Nat.sub_diag. cbn. auto. }
          destruct acc as [[j m]|].
          -- destruct (t + conn (eright e) lft + cst <? m); [right; apply Hnew; congruence|left; exact H].
          -- right; apply Hnew; congruence.
        * left; exact H.
      + right. exists e', t'. split; [lia|]. split; [|auto].
        replace (i - i0)%nat with (S (i - S i0)) by lia. exact Hn.
  Qed.

  Lemma scan_none es : forall i0 lft cst,
    scan conn es i0 lft cst None = None -> forall e, In e es -> etotal e = None.
  Proof.
    intros i0 lft cst H e Hin. destruct (etotal e) as [t|] eqn:Et; [|reflexivity].
    destruct (scan_le es i0 lft cst None e t Hin Et) as (i & c & H1 & _). congruence.
  Qed.

  (* ---------- rows ---------- *)
  Lemma row_push L : forall i e j, (i < length L)%nat ->
    row (push_row L i e) j = if Nat.eqb j i then row L j ++ [e] else row L j.
  Proof.
    unfold row. induction L as [|r L IH]; intros i e j Hi; cbn in Hi; [lia|].
    destruct i as [|i]; cbn [push_row].
    - destruct j; reflexivity.
    - destruct j as [|j]; [reflexivity|]. cbn [nth]. rewrite IH by lia. reflexivity.
  Qed.

  Lemma push_length L : forall i e, length (push_row L i e) = length L.
  Proof. induction L as [|r L IH]; intros [|i] e; cbn; auto. Qed.

  Lemma get_push L i e q pe : (i < length L)%nat -> get L q = Some pe -> get (push_row L i e) q = Some pe.
  Proof.
    unfold get. intros Hi H. rewrite row_push by exact Hi.
    destruct (Nat.eqb (fst q) i); [|exact H].
    rewrite nth_error_app1; [exact H|]. apply nth_error_Some. congruence.
  Qed.

  (* ---------- the invariant ---------- *)
  Definition node_link (L : lattice) (m : node) (e : entry) : Prop :=
    match etotal e with
    | None => eprev e = None
    | Some c => exists q pe t, eprev e = Some q /\ fst q = nbeg m /\ get L q = Some pe /\
                               etotal pe = Some t /\ c = t + conn (eright pe) (nleft m) + ncost m
    end.

  Record Inv (len : nat) (done : list node) (L : lattice) (cur : nat) : Prop := {
    inv_len : length L = S len;
    inv_pos : forall i e, In e (row L i) ->
              match enode e with
              | None => i = 0%nat /\ etotal e = Some 0 /\ eprev e = None
              | Some m => nend m = i /\ In m done /\ (nbeg m <= cur)%nat /\ (nbeg m < nend m)%nat /\
                          (nend m <= len)%nat /\ node_link L m e
              end;
    inv_bos : exists e, In e (row L 0) /\ enode e = None;
    inv_complete : forall m, In m done -> exists e, In e (row L (nend m)) /\ enode e = Some m;
    inv_ok : forall i e, In e (row L i) -> entry_ok done e;
  }.

  Lemma row_reset len i : row (reset len) i = if Nat.eqb i 0 then [bos] else [].
  Proof.
    unfold row, reset. destruct i as [|i]; [reflexivity|]. cbn [nth Nat.eqb].
    revert i. induction len as [|len IH]; intros i; cbn; [destruct i; reflexivity|].
    destruct i; [reflexivity|apply IH].
  Qed.

  Lemma inv_reset len : Inv len [] (reset len) 0.
  Proof.
    constructor.
    - unfold reset. cbn. rewrite repeat_length. reflexivity.
    - intros i e. rewrite row_reset. destruct (Nat.eqb_spec i 0); [|intros []].
      intros [<-|[]]. cbn. auto.
    - exists bos. rewrite row_reset. cbn. auto.
    - intros m [].
    - intros i e. rewrite row_reset. destruct (Nat.eqb i 0); [|intros []].
      intros [<-|[]]. unfold entry_ok. cbn. split.
      + exists []. cbn. auto.
      + intros rp _ ->. cbn. lia.
  Qed.

  (* what connect_node returns, in terms of chains ending at `b` *)
  Lemma connect_spec len done L cur b lft cst :
    Inv len done L cur ->
    match connect_node conn L b lft cst with
    | None => forall rp, valid done rp -> rend rp = b -> False
    | Some (i, c) =>
        (exists pe t, get L (b, i) = Some pe /\ etotal pe = Some t /\ c = t + conn (eright pe) lft + cst) /\
        (exists rp, valid done rp /\ rend rp = b /\ c = rcost rp + conn (rright rp) lft + cst) /\
        (forall rp, valid done rp -> rend rp = b -> c <= rcost rp + conn (rright rp) lft + cst)
    end.
  Proof.
    intros HI. unfold connect_node.
    (* every valid chain ending at b is represented by an entry of row b *)
    assert (Hrep : forall rp, valid done rp -> rend rp = b -> exists e, In e (row L b) /\ rep e rp).
    { intros rp Hv Hb. destruct rp as [|m rp'].
      - cbn in Hb. subst b. destruct (inv_bos _ _ _ _ HI) as (e & He & Hn). exists e. split; [exact He|].
        unfold rep. rewrite Hn. reflexivity.
      - cbn in Hb. destruct Hv as (Hm & _). destruct (inv_complete _ _ _ _ HI m Hm) as (e & He & Hn).
        rewrite Hb in He. exists e. split; [exact He|]. unfold rep. rewrite Hn. eauto. }
    assert (Hpos : forall e rp, In e (row L b) -> rep e rp -> rend rp = b).
    { intros e rp He Hr. pose proof (inv_pos _ _ _ _ HI b e He) as Hp. unfold rep in Hr.
      destruct (enode e) as [m|].
      - destruct Hr as [rp' ->]. cbn. tauto.
      - subst rp. cbn. destruct Hp as [-> _]. reflexivity. }
    destruct (scan conn (row L b) 0 lft cst None) as [[i c]|] eqn:Es.
    - destruct (scan_witness _ _ _ _ _ _ _ Es) as [H|(e & t & _ & Hn & Ht & Hc)]; [discriminate|].
      rewrite Nat.sub_0_r in Hn.
      assert (He : In e (row L b)) by (eapply nth_error_In; eauto).
      split; [|split].
      + exists e, t. unfold get. cbn. auto.
      + pose proof (inv_ok _ _ _ _ HI b e He) as Hok. unfold entry_ok in Hok. rewrite Ht in Hok.
        destruct Hok as [(rp & Hv & Hr & Hcst) _]. exists rp. split; [exact Hv|]. split; [eauto|].
        rewrite (rep_right e rp Hr). lia.
      + intros rp Hv Hb. destruct (Hrep rp Hv Hb) as (e' & He' & Hr').
        pose proof (inv_ok _ _ _ _ HI b e' He') as Hok. unfold entry_ok in Hok.
        destruct (etotal e') as [t'|] eqn:Et'.
        * destruct Hok as [_ Hmin]. specialize (Hmin rp Hv Hr').
          destruct (scan_le (row L b) 0 lft cst None e' t' He' Et') as (i2 & c2 & H1 & H2).
          rewrite Es in H1. inversion H1; subst. rewrite (rep_right e' rp Hr'). lia.
        * exfalso. eapply Hok; eauto.
    - intros rp Hv Hb. destruct (Hrep rp Hv Hb) as (e' & He' & Hr').
      pose proof (scan_none _ _ _ _ Es e' He') as Et'.
      pose proof (inv_ok _ _ _ _ HI b e' He') as Hok. unfold entry_ok in Hok. rewrite Et' in Hok.
      eapply Hok; eauto.
  Qed.

  Lemma valid_mono done rp : valid done rp -> forall m rp', rp = m :: rp' -> (rend rp' < rend rp)%nat.
  Proof. intros Hv m rp' ->. cbn in *. lia. Qed.

  (* ---------- one insertion preserves the invariant ---------- *)
  Lemma inv_insert len done L cur n :
    Inv len done L cur -> (cur <= nbeg n)%nat -> (nbeg n < nend n)%nat -> (nend n <= len)%nat ->
    Inv len (n :: done) (fst (insert conn L n)) (nbeg n).
  Proof.
    intros HI Hcur Hlt Hlen.
    pose proof (connect_spec len done L cur (nbeg n) (nleft n) (ncost n) HI) as Hc.
    pose proof (inv_len _ _ _ _ HI) as HL.
    assert (Hi : (nend n < length L)%nat) by lia.
    (* old chains are unaffected by the new node *)
    assert (Hold : forall rp, valid (n :: done) rp -> (rend rp <= nbeg n)%nat -> valid done rp).
    { intros rp Hv Hle. apply (valid_strengthen n); [exact Hv|lia]. }
    set (ne := match connect_node conn L (nbeg n) (nleft n) (ncost n) with
               | None => mkEntry (Some n) None None
               | Some (i, c) => mkEntry (Some n) (Some c) (Some (nbeg n, i))
               end).
    assert (EL : fst (insert conn L n) = push_row L (nend n) ne).
    { unfold insert, ne. destruct (connect_node conn L (nbeg n) (nleft n) (ncost n)) as [[i c]|]; reflexivity. }
    rewrite EL.
    assert (Hne_node : enode ne = Some n).
    { unfold ne. destruct (connect_node conn L (nbeg n) (nleft n) (ncost n)) as [[i c]|]; reflexivity. }
    (* the new entry is linked and optimal *)
    assert (Hne_link : node_link (push_row L (nend n) ne) n ne).
    { unfold node_link, ne. destruct (connect_node conn L (nbeg n) (nleft n) (ncost n)) as [[i c]|]; cbn [etotal eprev]; [|reflexivity].
      destruct Hc as ((pe & t & Hg & Ht & Hcc) & _). exists (nbeg n, i), pe, t. cbn [fst].
      repeat split; auto. apply get_push; assumption. }
    assert (Hne_ok : entry_ok (n :: done) ne).
    { unfold entry_ok, ne. destruct (connect_node conn L (nbeg n) (nleft n) (ncost n)) as [[i c]|]; cbn [etotal].
      - destruct Hc as (_ & (rp & Hv & Hb & Hcc) & Hmin). split.
        + exists (n :: rp). split; [|split].
          * cbn. repeat split; auto. apply (valid_ext done); [intros; cbn; auto|exact Hv].
          * unfold rep. cbn. eauto.
          * cbn. lia.
        + intros rp' Hv' Hr'. unfold rep in Hr'. cbn in Hr'. destruct Hr' as [rp'' ->].
          cbn in Hv'. destruct Hv' as (_ & _ & Hb' & Hv''). cbn [rcost].
          apply Hmin; [apply Hold; [exact Hv''|lia]|congruence].
      - intros rp' Hv' Hr'. unfold rep in Hr'. cbn in Hr'. destruct Hr' as [rp'' ->].
        cbn in Hv'. destruct Hv' as (_ & _ & Hb' & Hv''). apply (Hc rp''); [apply Hold; [exact Hv''|lia]|congruence]. }
    constructor.
    - rewrite push_length. exact HL.
    - intros i e. rewrite row_push by exact Hi. intros He.
      assert (Hcase : In e (row L i) \/ (i = nend n /\ e = ne)).
      { destruct (Nat.eqb_spec i (nend n)); [|left; exact He].
        apply in_app_or in He. destruct He as [He|[<-|[]]]; auto. }
      destruct Hcase as [He' | [-> ->] ].
      + pose proof (inv_pos _ _ _ _ HI i e He') as Hp. destruct (enode e) as [m|]; [|exact Hp].
        destruct Hp as (H1 & H2 & H3 & H4 & H5 & H6). repeat split; auto; [cbn; auto|lia|].
        unfold node_link in *. destruct (etotal e) as [c|]; [|exact H6].
        destruct H6 as (q & pe & t & Hq1 & Hq2 & Hq3 & Hq4 & Hq5). exists q, pe, t.
        repeat split; auto. apply get_push; assumption.
      + rewrite Hne_node. repeat split; auto; [cbn; auto].
    - destruct (inv_bos _ _ _ _ HI) as (e & He & Hn). exists e. split; [|exact Hn].
      rewrite row_push by exact Hi. destruct (Nat.eqb 0 (nend n)); [apply in_or_app; left|]; exact He.
    - intros m [<-|Hm].
      + exists ne. split; [|exact Hne_node]. rewrite row_push by exact Hi. rewrite Nat.eqb_refl.
        apply in_or_app. right. cbn. auto.
      + destruct (inv_complete _ _ _ _ HI m Hm) as (e & He & Hn). exists e. split; [|exact Hn].
        rewrite row_push by exact Hi. destruct (Nat.eqb (nend m) (nend n)); [apply in_or_app; left|]; exact He.
    - intros i e. rewrite row_push by exact Hi. intros He.
      assert (Hcase : In e (row L i) \/ e = ne).
      { destruct (Nat.eqb i (nend n)); [|left; exact He].
        apply in_app_or in He. destruct He as [He|[<-|[]]]; auto. }
      destruct Hcase as [He' | -> ]; [|exact Hne_ok].
      pose proof (inv_ok _ _ _ _ HI i e He') as Hok.
      pose proof (inv_pos _ _ _ _ HI i e He') as Hp.
      (* chains represented by an old entry never contain the new node *)
      assert (Hsame : forall rp, valid (n :: done) rp -> rep e rp -> valid done rp).
      { intros rp Hv Hr. unfold rep in Hr. destruct (enode e) as [m|].
        - destruct Hr as [rp' ->]. destruct Hp as (H1 & H2 & H3 & H4 & _).
          cbn in Hv. destruct Hv as (_ & Hv2 & Hv3 & Hv4). cbn. repeat split; auto.
          apply Hold; [exact Hv4|lia].
        - subst rp. exact I. }
      unfold entry_ok in *. destruct (etotal e) as [c|].
      + destruct Hok as [(rp & Hv & Hr & Hcst) Hmin]. split.
        * exists rp. split; [apply (valid_ext done); [intros; cbn; auto|exact Hv]|auto].
        * intros rp' Hv' Hr'. apply Hmin; auto.
      + intros rp' Hv' Hr'. eapply Hok; eauto.
  Qed.

  Lemma inv_weaken_done len d1 d2 L cur :
    (forall x, In x d1 <-> In x d2) -> Inv len d1 L cur -> Inv len d2 L cur.
  Proof.
    intros Heq HI. constructor.
    - exact (inv_len _ _ _ _ HI).
    - intros i e He. pose proof (inv_pos _ _ _ _ HI i e He) as Hp. destruct (enode e); [|exact Hp].
      destruct Hp as (H1 & H2 & H3). repeat split; auto; try tauto. apply Heq; exact H2.
    - exact (inv_bos _ _ _ _ HI).
    - intros m Hm. apply (inv_complete _ _ _ _ HI). apply Heq; exact Hm.
    - intros i e He. pose proof (inv_ok _ _ _ _ HI i e He) as Hok. unfold entry_ok in *.
      destruct (etotal e) as [c|].
      + destruct Hok as [(rp & Hv & Hr & Hc) Hmin]. split.
        * exists rp. split; [apply (valid_ext d1); [apply Heq|exact Hv]|auto].
        * intros rp' Hv' Hr'. apply Hmin; [apply (valid_ext d2); [apply Heq|exact Hv']|exact Hr'].
      + intros rp' Hv' Hr'. apply (Hok rp'); [apply (valid_ext d2); [apply Heq|exact Hv']|exact Hr'].
  Qed.

  Lemma inv_insert_all len : forall ns done L cur,
    Inv len done L cur -> sorted_from cur ns ->
    (forall n, In n ns -> (nbeg n < nend n)%nat /\ (nend n <= len)%nat) ->
    exists cur', Inv len (rev ns ++ done) (insert_all conn L ns) cur'.
  Proof.
    induction ns as [|n ns IH]; intros done L cur HI Hs Hok; cbn [insert_all fold_left].
    - exists cur. exact HI.
    - cbn in Hs. destruct Hs as [Hs1 Hs2]. destruct (Hok n (or_introl eq_refl)) as [Hn1 Hn2].
      pose proof (inv_insert len done L cur n HI Hs1 Hn1 Hn2) as HI'.
      destruct (IH (n :: done) (fst (insert conn L n)) (nbeg n) HI' Hs2) as [cur' HI''].
      { intros; apply Hok; cbn; auto. }
      exists cur'. cbn [rev]. rewrite <- app_assoc. exact HI''.
  Qed.

  (* ---------- forward chains vs reversed chains ---------- *)
  Lemma chain_valid ns : forall p from to rp0,
    valid ns rp0 -> rend rp0 = from -> chain ns from to p ->
    valid ns (rev p ++ rp0) /\ rend (rev p ++ rp0) = to /\
    cost_from conn (rright rp0) p + rcost rp0 = rcost (rev p ++ rp0) + conn (rright (rev p ++ rp0)) 0%N.
  Proof.
    induction p as [|n p IH]; intros from to rp0 Hv Hr Hc; cbn [chain] in Hc.
    - cbn. subst. repeat split; auto. lia.
    - destruct Hc as (H1 & H2 & H3 & H4).
      destruct (IH (nend n) to (n :: rp0)) as (A & B & C).
      + cbn. repeat split; auto. congruence.
      + reflexivity.
      + exact H4.
      + cbn [rev]. rewrite <- app_assoc. cbn [app]. repeat split; auto.
        cbn [cost_from]. cbn [rright rcost] in C. lia.
  Qed.

  Lemma valid_chain ns : forall rp p0 to,
    valid ns rp -> chain ns (rend rp) to p0 -> chain ns 0 to (rev rp ++ p0).
  Proof.
    induction rp as [|n rp IH]; intros p0 to Hv Hc; cbn in *; [exact Hc|].
    destruct Hv as (H1 & H2 & H3 & H4). rewrite <- app_assoc. cbn [app].
    apply IH; [exact H4|]. cbn. repeat split; auto.
  Qed.

  (* ---------- C02: the EOS cost is the minimum over all covering chains ---------- *)
  Theorem viterbi_optimal len ns :
    nodes_ok len ns ->
    match connect_eos conn (insert_all conn (reset len) ns) with
    | None => forall p, ~ chain ns 0 len p
    | Some (_, _, c) => (exists p, chain ns 0 len p /\ path_cost conn p = c) /\
                        (forall p, chain ns 0 len p -> c <= path_cost conn p)
    end.
  Proof.
    intros [Hs Hok].
    destruct (inv_insert_all len ns [] (reset len) 0 (inv_reset len) Hs Hok) as [cur HI].
    rewrite app_nil_r in HI.
    assert (HI' : Inv len ns (insert_all conn (reset len) ns) cur).
    { apply (inv_weaken_done len (rev ns)); [intros x; symmetry; apply in_rev|exact HI]. }
    clear HI. set (L := insert_all conn (reset len) ns) in *.
    unfold connect_eos. rewrite (inv_len _ _ _ _ HI'). cbn [length Nat.sub]. rewrite Nat.sub_0_r.
    pose proof (connect_spec len ns L cur len 0%N 0 HI') as Hc.
    destruct (connect_node conn L len 0%N 0) as [[i c]|].
    - destruct Hc as (_ & (rp & Hv & Hb & Hcc) & Hmin). split.
      + exists (rev rp). split.
        * rewrite <- (app_nil_r (rev rp)). apply valid_chain; [exact Hv|]. cbn. exact Hb.
        * unfold path_cost.
          destruct (chain_valid ns (rev rp) 0%nat len [] I eq_refl) as (_ & _ & C).
          { rewrite <- (app_nil_r (rev rp)). apply valid_chain; [exact Hv|]. cbn. exact Hb. }
          rewrite app_nil_r, rev_involutive in C. cbn [rright rcost] in C. lia.
      + intros p Hp. destruct (chain_valid ns p 0%nat len [] I eq_refl Hp) as (A & B & C).
        rewrite app_nil_r in A, B, C. specialize (Hmin (rev p) A B). unfold path_cost.
        cbn [rright rcost] in C. lia.
    - intros p Hp. destruct (chain_valid ns p 0%nat len [] I eq_refl Hp) as (A & B & _).
      rewrite app_nil_r in A, B. exact (Hc (rev p) A B).
  Qed.

  (* ---------- the returned path: stored totals are the prefix sums along it ---------- *)
  Fixpoint rtotals (rp : list node) : list Z :=
    match rp with [] => [] | n :: rp' => rcost rp :: rtotals rp' end.

  Lemma walk_spec len done L cur : Inv len done L cur ->
    forall fuel p e m c, (fst p < fuel)%nat -> get L p = Some e -> enode e = Some m -> etotal e = Some c ->
    exists es rp, walk L fuel p = Some es /\ hd_error es = Some e /\ map enode es = map Some rp /\
                  valid done rp /\ hd_error rp = Some m /\ map etotal es = map Some (rtotals rp).
  Proof.
    intros HI. induction fuel as [|f IH]; intros p e m c Hf Hg Hn Ht; [lia|].
    assert (He : In e (row L (fst p))) by (eapply nth_error_In; exact Hg).
    pose proof (inv_pos _ _ _ _ HI _ e He) as Hp. rewrite Hn in Hp.
    destruct Hp as (Hend & Hin & _ & Hlt & _ & Hlink). unfold node_link in Hlink. rewrite Ht in Hlink.
    destruct Hlink as (q & pe & t & Hq & Hqb & Hgq & Htq & Hc).
    assert (Hpe : In pe (row L (fst q))) by (eapply nth_error_In; exact Hgq).
    pose proof (inv_pos _ _ _ _ HI _ pe Hpe) as Hpp.
    cbn [walk]. rewrite Hg, Hq.
    destruct (Nat.eqb_spec (fst q) 0) as [Hz|Hnz].
    - destruct (enode pe) as [m'|] eqn:En'; [destruct Hpp as (A & _ & _ & B & _); lia|].
      destruct Hpp as (_ & Ht0 & _). rewrite Ht0 in Htq. inversion Htq; subst t.
      exists [e], [m]. cbn. rewrite Hn, Ht. repeat split; auto; try lia.
      unfold eright in Hc. rewrite En' in Hc. do 2 f_equal. lia.
    - destruct (enode pe) as [m'|] eqn:En'; [|destruct Hpp as (A & _); lia].
      destruct Hpp as (Hend' & _).
      destruct (IH q pe m' t) as (es' & rp' & Hw & Hh & Hmn & Hv & Hhr & Hmt); auto; [lia|].
      rewrite Hw. exists (e :: es'), (m :: rp'). cbn [hd_error map]. rewrite Hn, Ht, Hmn, Hmt.
      destruct rp' as [|m0 rp'']; [discriminate|]. cbn in Hhr. inversion Hhr; subst m0.
      destruct es' as [|pe0 es'']; [discriminate|]. cbn in Hh. inversion Hh; subst pe0.
      cbn in Hmt. rewrite Htq in Hmt. injection Hmt as Ht' Hrest.
      cbn in Hv. destruct Hv as (Hv1 & Hv2 & Hv3 & Hv4).
      repeat split; auto.
      + cbn. lia.
      + cbn [rtotals map]. do 2 f_equal. cbn [rcost]. cbn [rright].
        unfold eright in Hc. rewrite En' in Hc. lia.
  Qed.

  Fixpoint lastacc (prev : N) (acc : Z) (p : list node) : Z :=
    match p with [] => acc | n :: t => lastacc (nright n) (acc + conn prev (nleft n) + ncost n) t end.
  Fixpoint lastright (prev : N) (p : list node) : N :=
    match p with [] => prev | n :: t => lastright (nright n) t end.

  Lemma prefix_app : forall p prev acc n,
    prefix_costs conn prev acc (p ++ [n]) =
    prefix_costs conn prev acc p ++ [lastacc prev acc p + conn (lastright prev p) (nleft n) + ncost n].
  Proof. induction p as [|m p IH]; intros; cbn; [reflexivity|]. rewrite IH. reflexivity. Qed.
  Lemma lastacc_app : forall p prev acc n,
    lastacc prev acc (p ++ [n]) = lastacc prev acc p + conn (lastright prev p) (nleft n) + ncost n.
  Proof. induction p as [|m p IH]; intros; cbn; [reflexivity|]. apply IH. Qed.
  Lemma lastright_app : forall p prev n, lastright prev (p ++ [n]) = nright n.
  Proof. induction p as [|m p IH]; intros; cbn; [reflexivity|]. apply IH. Qed.

  Lemma last_rev rp : lastacc 0%N 0 (rev rp) = rcost rp /\ lastright 0%N (rev rp) = rright rp.
  Proof.
    induction rp as [|n rp [IH1 IH2]]; cbn; [auto|].
    rewrite lastacc_app, lastright_app, IH1, IH2. auto.
  Qed.

  Lemma prefix_rev rp : prefix_costs conn 0%N 0 (rev rp) = rev (rtotals rp).
  Proof.
    induction rp as [|n rp IH]; [reflexivity|]. cbn [rev rtotals].
    rewrite prefix_app, IH. destruct (last_rev rp) as [-> ->]. reflexivity.
  Qed.

  Theorem total_cost_along_path len ns r i c :
    nodes_ok len ns -> (0 < len)%nat ->
    connect_eos conn (insert_all conn (reset len) ns) = Some (r, i, c) ->
    exists es p, top_path conn (insert_all conn (reset len) ns) = Some es /\
                 map enode es = map Some p /\ chain ns 0 len p /\ path_cost conn p = c /\
                 map etotal es = map Some (prefix_costs conn 0%N 0 p).
  Proof.
    intros [Hs Hok] Hpos Heos.
    destruct (inv_insert_all len ns [] (reset len) 0 (inv_reset len) Hs Hok) as [cur HI].
    rewrite app_nil_r in HI.
    assert (HI' : Inv len ns (insert_all conn (reset len) ns) cur).
    { apply (inv_weaken_done len (rev ns)); [intros x; symmetry; apply in_rev|exact HI]. }
    clear HI. set (L := insert_all conn (reset len) ns) in *.
    unfold top_path. rewrite Heos. unfold connect_eos in Heos.
    rewrite (inv_len _ _ _ _ HI') in *. cbn [length Nat.sub] in Heos. rewrite Nat.sub_0_r in Heos.
    pose proof (connect_spec len ns L cur len 0%N 0 HI') as Hc.
    destruct (connect_node conn L len 0%N 0) as [[i' c']|]; [|discriminate]. inversion Heos; subst r i' c'.
    destruct Hc as ((pe & t & Hg & Ht & Hcc) & _).
    assert (Hpe : In pe (row L len)) by (eapply nth_error_In; exact Hg).
    pose proof (inv_pos _ _ _ _ HI' _ pe Hpe) as Hpp.
    destruct (enode pe) as [m|] eqn:En; [|destruct Hpp; lia].
    destruct (walk_spec len ns L cur HI' (S len) (len, i) pe m t) as (es & rp & Hw & Hh & Hmn & Hv & Hhr & Hmt); auto.
    rewrite Hw. cbn [option_map]. exists (rev es), (rev rp).
    assert (Hrend : rend rp = len).
    { destruct rp as [|m0 rp']; [discriminate|]. cbn in Hhr. inversion Hhr; subst. cbn. tauto. }
    assert (Hch : chain ns 0 len (rev rp)).
    { rewrite <- (app_nil_r (rev rp)). apply valid_chain; [exact Hv|]. cbn. exact Hrend. }
    repeat split; auto.
    - rewrite !map_rev. f_equal. exact Hmn.
    - destruct (chain_valid ns (rev rp) 0%nat len [] I eq_refl Hch) as (_ & _ & C).
      rewrite app_nil_r, rev_involutive in C. cbn [rright rcost] in C. unfold path_cost.
      destruct rp as [|m0 rp']; [discriminate|]. cbn in Hhr. inversion Hhr; subst m0.
      destruct es as [|e0 es']; [discriminate|]. cbn in Hh. inversion Hh; subst e0.
      cbn in Hmt. rewrite Ht in Hmt. injection Hmt as Ht' _.
      unfold eright in Hcc. rewrite En in Hcc. cbn [rright rcost] in C. lia.
    - rewrite prefix_rev, !map_rev. f_equal. exact Hmt.
  Qed.
End Proofs.
