(* split_into between lists: the parts depend on the token, the mode and the dictionary of the list that HOLDS the token only. *)
From Coq Require Import List NArith Bool String.
From SudachiVerif Require Import Model.Harness Model.Split Model.SplitLists.
From SudachiVerif Require Generated.SplitFacts.
Import ListNotations.
Open Scope string_scope.
Open Scope list_scope.
Open Scope N_scope.

(* what split_into has to compute: Split.split_into run with the SOURCE list's dictionary and text on the empty list; the
   target keeps its dictionary and nodes, receives the source's input part and the parts *)
Definition split_into_spec (m : mode) (src : mlist) (idx : nat) (out : mlist) : option (bool * mlist) :=
  match nth_error (ml_nodes src) idx with
  | None => None
  | Some n =>
    match split_into (sd_hw (ml_dict src)) (ml_text src) (sd_units (ml_dict src) m) n [] with
    | None => None
    | Some (b, l) =>
        Some (b, if b then mkMList (ml_dict out) (ml_text src) (ml_subset src) (ml_nodes out ++ l) else out)
    end
  end.

Lemma gen_spec m src idx out :
  split_into_lists_gen Self Self true m src idx out = split_into_spec m src idx out.
Proof.
  unfold split_into_lists_gen, split_into_spec, split_into.
  destruct (nth_error (ml_nodes src) idx) as [n|]; [|reflexivity].
  destruct (nothing_when _); [reflexivity|].
  cbn [pick ml_dict ml_text ml_subset ml_nodes].
  destruct (split_node _ _ n _) as [l|]; reflexivity.
Qed.

Lemma has_true_eqb s : who_of s = Self <-> String.eqb s "self" = true.
Proof. unfold who_of. destruct (String.eqb s "self"); split; congruence. Qed.

Theorem split_into_lists_spec :
  sources_ok = true ->
  forall m src idx out, split_into_lists m src idx out = split_into_spec m src idx out.
Proof.
  unfold sources_ok, sources_ok_of. intro H.
  repeat (apply andb_prop in H; destruct H as [H ?]).
  intros m src idx out. unfold split_into_lists.
  match goal with Hl : String.eqb Generated.SplitFacts.split_into_lexicon_of _ = true |- _ => apply has_true_eqb in Hl; rewrite Hl end.
  match goal with Hi : String.eqb Generated.SplitFacts.split_into_input_of _ = true |- _ => apply has_true_eqb in Hi; rewrite Hi end.
  match goal with Ha : has "assign_input" _ = true |- _ => rewrite Ha end.
  apply gen_spec.
Qed.

(* Non-interference: for two targets with arbitrary dictionaries, input parts and prior contents, split_into answers the same
   flag (or panics for both), appends the same parts, leaves the prior nodes and the target's dictionary in place, and binds
   the target to the source's input part when it appended. *)
Theorem split_into_noninterference :
  sources_ok = true ->
  forall m src idx out out',
    match split_into_lists m src idx out, split_into_lists m src idx out' with
    | None, None => True
    | Some (b, r), Some (b', r') =>
        b = b' /\
        exists l, ml_nodes r = ml_nodes out ++ l /\ ml_nodes r' = ml_nodes out' ++ l /\
                  ml_dict r = ml_dict out /\ ml_dict r' = ml_dict out' /\
                  (if b then ml_text r = ml_text src /\ ml_subset r = ml_subset src /\
                             ml_text r' = ml_text src /\ ml_subset r' = ml_subset src
                   else r = out /\ r' = out' /\ l = [])
    | _, _ => False
    end.
Proof.
  intros H m src idx out out'. rewrite !(split_into_lists_spec H). unfold split_into_spec.
  destruct (nth_error (ml_nodes src) idx) as [n|]; [|exact I].
  destruct (split_into _ _ _ n []) as [[b l]|] eqn:E; [|exact I].
  split; [reflexivity|].
  destruct b.
  - exists l. cbn. repeat split; reflexivity.
  - exists []. rewrite !app_nil_r.
    unfold split_into in E. destruct (nothing_when _); [|destruct (split_node _ _ _ _); discriminate].
    repeat split; reflexivity.
Qed.

(* the flag and the parts as a function of (token, mode, the token's own dictionary and input) alone *)
Definition parts_of (d : sdict) (t : list N) (m : mode) (n : node) : option (bool * list node) :=
  split_into (sd_hw d) t (sd_units d m) n [].

Theorem split_into_is_function_of_source :
  sources_ok = true ->
  forall m src idx out n,
    nth_error (ml_nodes src) idx = Some n ->
    match split_into_lists m src idx out, parts_of (ml_dict src) (ml_text src) m n with
    | None, None => True
    | Some (b, r), Some (b', l) => b = b' /\ ml_nodes r = ml_nodes out ++ (if b then l else [])
    | _, _ => False
    end.
Proof.
  intros H m src idx out n Hn. rewrite (split_into_lists_spec H). unfold split_into_spec, parts_of. rewrite Hn.
  destruct (split_into _ _ _ n []) as [[b l]|]; [|exact I].
  split; [reflexivity|]. destruct b; cbn; [reflexivity|now rewrite app_nil_r].
Qed.
