(* Closed form for thousands separators: d..d , ddd , ddd ...  -- accepted iff the groups are well-formed, and then the
   normalised form is the digits without the separators; otherwise rejected with the COMMA error. *)
From Coq Require Import List NArith ZArith Bool Arith Lia ZifyBool ZifyNat ZifyN.
From SudachiVerif Require Import Model.Numeric Proofs.NumericProofs.
Import ListNotations.

Arguments N.add : simpl never.
Arguments N.mul : simpl never.
Arguments N.ltb : simpl never.
Arguments N.leb : simpl never.
Arguments N.eqb : simpl never.

Notation C := std_cfg.

Definition all_zero (ds : list N) : bool := forallb (fun d => N.eqb d 0) ds.
Definition is_nil {A} (l : list A) : bool := match l with [] => true | _ => false end.

(* a separator is accepted: after the first group when it has 1..3 digits, not all zero; after a later group when it
   has exactly three digits *)
Definition comma_ok (hc : bool) (dl : nat) (az : bool) : bool :=
  if hc then dl =? 3 else (dl <=? 3) && negb az.

Fixpoint commas_ok (hc : bool) (dl : nat) (az : bool) (gs : list (list N)) : bool :=
  match gs with
  | [] => true
  | g :: gs' => comma_ok hc dl az && commas_ok true (length g) (az && all_zero g) gs'
  end.

(* g0 , g1 , ... , gn  (n >= 1): first group non-empty, 1..3 digits, not all zero; every later group exactly 3 digits *)
Definition groups_ok (g0 : list N) (gs : list (list N)) : bool :=
  negb (is_nil g0) && commas_ok false (length g0) (all_zero g0) gs && (length (last gs []) =? 3).

(* the same, spelled out *)
Lemma groups_ok_spec g0 gs :
  gs <> [] ->
  groups_ok g0 gs = true <->
  (1 <= length g0 <= 3 /\ all_zero g0 = false /\ Forall (fun g => length g = 3) gs).
Proof.
  intros Hne. unfold groups_ok. destruct gs as [|g1 gs]; [contradiction|]. clear Hne. cbn [commas_ok comma_ok].
  assert (Hrest : forall az g gs, (commas_ok true (length g) az gs = true /\ (length (last (g :: gs) []) =? 3) = true) <->
                                  Forall (fun g => length g = 3) (g :: gs)).
  { intros az g gs'. revert az g. induction gs' as [|g2 gs' IH]; intros az g.
    - cbn. rewrite Nat.eqb_eq. split; [intros [_ H]; constructor; [assumption | constructor] | intros H; inversion H; tauto].
    - change (last (g :: g2 :: gs') []) with (last (g2 :: gs') []). cbn [commas_ok comma_ok].
      rewrite andb_true_iff, Nat.eqb_eq.
      split.
      + intros [[H1 H2] H3]. constructor; [assumption|]. apply (IH (az && all_zero g2) g2). tauto.
      + intros H. inversion H as [|? ? H1 H2]; subst. apply (IH (az && all_zero g2) g2) in H2. tauto. }
  specialize (Hrest (all_zero g0 && all_zero g1) g1 gs).
  rewrite !andb_true_iff, Nat.leb_le, !negb_true_iff.
  destruct g0 as [|d g0']; cbn [is_nil length].
  - split; [intros [[H _] _]; discriminate | intros [H _]; lia].
  - split.
    + intros [[_ [[Hl Hz] Hc]] Hlast]. split; [lia|]. split; [assumption|]. apply Hrest. tauto.
    + intros (Hl & Hz & HF). apply Hrest in HF. repeat split; try tauto; lia.
Qed.

(* ------------------------------------------------------------------ parser states between groups *)
Definition ginv (p : parser) : Prop :=
  fd p = false /\ hp p = false /\ er p = 0%N /\ tot p = s0 /\ sub p = s0 /\
  sg (tmp p) <> [] /\ sc (tmp p) = 0 /\ pt (tmp p) = None.

Lemma check_comma_ginv p : ginv p -> check_comma C p = comma_ok (hc p) (dl p) (az (tmp p)).
Proof.
  intros (Hfd & _ & _ & _ & _ & Hne & _). unfold check_comma, comma_ok, s_is_zero. rewrite Hfd.
  cbn [fg_cmp fg_len ng_cmp ng_len C cmp_nat]. destruct (hc p); cbn [negb]; [reflexivity|].
  destruct (sg (tmp p)); [contradiction|]. cbn [negb]. now rewrite andb_true_r.
Qed.

Lemma append_comma p :
  ginv p ->
  p_append C p 44%N =
  if comma_ok (hc p) (dl p) (az (tmp p))
  then (true, mkP 0 (fd p) true (hp p) (er p) (tot p) (sub p) (tmp p))
  else (false, set_er p E_COMMA).
Proof.
  intros Hp. unfold p_append. cbn [point_c comma_c C]. change (N.eqb 44 46) with false. change (N.eqb 44 44) with true.
  cbv iota. now rewrite (check_comma_ginv p Hp).
Qed.

Lemma after_digits_fields p ds :
  fd p = false -> hp p = false ->
  let q := after_digits p ds in
  dl q = dl p + length ds /\ fd q = false /\ hc q = hc p /\ hp q = false /\ er q = er p /\
  tot q = tot p /\ sub q = sub p /\ tmp q = app_digits (tmp p) ds.
Proof.
  intros H1 H2. destruct ds as [|d ds]; cbn [after_digits length dl fd hc hp er tot sub tmp].
  - rewrite Nat.add_0_r. repeat split; assumption.
  - repeat split.
Qed.

Lemma after_digits_fields_ne p d ds :
  let q := after_digits p (d :: ds) in
  dl q = dl p + length (d :: ds) /\ fd q = false /\ hc q = hc p /\ hp q = false /\ er q = er p /\
  tot q = tot p /\ sub q = sub p /\ tmp q = app_digits (tmp p) (d :: ds).
Proof. cbn [after_digits dl fd hc hp er tot sub tmp]. repeat split. Qed.

Lemma all_zero_az s ds : az (app_digits s ds) = az s && all_zero ds.
Proof. apply app_digits_az. Qed.

Lemma feed_commas gsc gs :
  Forall2 (Forall2 digit_of) gsc gs ->
  forall p, ginv p ->
  let inp := concat (map (cons 44%N) gsc) in
  if commas_ok (hc p) (dl p) (az (tmp p)) gs
  then exists p', p_feed C p inp = (true, p') /\ ginv p' /\ sg (tmp p') = sg (tmp p) ++ concat gs /\
                  (gs <> [] -> hc p' = true /\ dl p' = length (last gs [])) /\ (gs = [] -> p' = p)
  else exists p', p_feed C p inp = (false, p') /\ er p' = 2%N.
Proof.
  induction 1 as [|gc g gsc gs Hg _ IH]; intros p Hp; cbv zeta.
  - cbn [commas_ok map concat p_feed]. exists p. split; [reflexivity|]. split; [exact Hp|]. split; [now rewrite app_nil_r|].
    split; [contradiction | reflexivity].
  - cbn [commas_ok map concat]. rewrite <- app_comm_cons. cbn [p_feed]. rewrite (append_comma p Hp).
    destruct (comma_ok (hc p) (dl p) (az (tmp p))); cbn [andb].
    2:{ eexists; split; [reflexivity | reflexivity]. }
    pose proof Hp as (Hfd & Hhp & Her & Htot & Hsub & Hne & Hsc & Hpt).
    set (p0 := mkP 0 (fd p) true (hp p) (er p) (tot p) (sub p) (tmp p)).
    rewrite p_feed_app, (feed_digits _ _ Hg).
    destruct (after_digits_fields p0 g) as (Hdl & Hfd1 & Hhc1 & Hhp1 & Her1 & Htot1 & Hsub1 & Htmp1); [assumption | assumption |].
    set (p1 := after_digits p0 g) in *. cbn [dl hc er tot sub tmp p0] in *.
    destruct (app_digits_fields (tmp p) g) as (Hsg & Hsc1 & Hpt1).
    assert (Hp1 : ginv p1).
    { unfold ginv. rewrite Hfd1, Hhp1, Her1, Htot1, Hsub1, Htmp1, Hsg, Hsc1, Hpt1. repeat split; try assumption.
      intros E. apply app_eq_nil in E. tauto. }
    specialize (IH p1 Hp1). cbv zeta in IH. rewrite Hhc1, Hdl, Htmp1, all_zero_az in IH. cbn [Nat.add] in IH.
    destruct (commas_ok true (length g) (az (tmp p) && all_zero g) gs).
    + destruct IH as (p' & Hf & Hp' & Hs' & Hl & Hn). exists p'. split; [assumption|]. split; [assumption|]. split.
      * rewrite Hs'. rewrite ?Htmp1, Hsg. now rewrite <- app_assoc.
      * split; [|discriminate]. intros _. destruct gs as [|g2 gs'].
        -- rewrite (Hn eq_refl). cbn [last]. now rewrite Hhc1, Hdl.
        -- change (last (g :: g2 :: gs') []) with (last (g2 :: gs') []). apply Hl. discriminate.
    + exact IH.
Qed.

(* done() on a state between groups *)
Lemma done_grouped_eq p :
  ginv p ->
  p_done C p =
  let p' := mkP (dl p) (fd p) (hc p) false (er p) (mkS (sg (tmp p)) 0 None true) (mkS (sg (tmp p)) 0 None true) (tmp p) in
  if hc p && negb (dl p =? 3) then (false, set_er p' E_COMMA) else (true, p').
Proof.
  intros (Hfd & Hhp & Her & Htot & Hsub & Hne & Hsc & Hpt). unfold p_done. rewrite Htot, Hsub, Hhp.
  unfold s_add, s_is_zero. destruct (sg (tmp p)) as [|x l] eqn:E; [contradiction|].
  cbn [sg s0 app sc pt az andb negb]. rewrite Hsc, Hpt. cbn [lg_cmp lg_len C cmp_nat]. reflexivity.
Qed.

Lemma done_grouped p :
  ginv p ->
  if hc p && negb (dl p =? 3)
  then exists p', p_done C p = (false, p') /\ er p' = 2%N
  else exists p', p_done C p = (true, p') /\ er p' = 0%N /\ tot p' = mkS (sg (tmp p)) 0 None true.
Proof.
  intros Hp. rewrite (done_grouped_eq p Hp). cbv zeta. destruct Hp as (_ & _ & Her & _).
  destruct (hc p && negb (dl p =? 3)); eexists; (split; [reflexivity|]); cbn [er tot set_er]; [reflexivity | split; [assumption | reflexivity]].
Qed.

Theorem grouped_std g0c g0 gsc gs :
  Forall2 digit_of g0c g0 -> Forall2 (Forall2 digit_of) gsc gs -> gs <> [] ->
  let inp := g0c ++ concat (map (cons 44%N) gsc) in
  if groups_ok g0 gs
  then parse C inp = (true, 0%N, map digit_char (g0 ++ concat gs))
  else fst (parse C inp) = (false, 2%N).
Proof.
  intros H0 Hgs Hne. cbv zeta. unfold groups_ok, parse. rewrite p_feed_app, (feed_digits _ _ H0).
  destruct g0 as [|d g0'].
  - (* no digit before the first separator *)
    cbn [is_nil negb andb after_digits]. destruct Hgs as [|gc g gsc gs Hg Hgs]; [contradiction|].
    cbn [map concat]. rewrite <- app_comm_cons. cbn [p_feed]. unfold p_append at 1. cbn [point_c comma_c C].
    change (N.eqb 44 46) with false. change (N.eqb 44 44) with true. cbv iota. reflexivity.
  - cbn [is_nil negb andb].
    destruct (after_digits_fields_ne (p_new C) d g0') as (Hdl & Hfd1 & Hhc1 & Hhp1 & Her1 & Htot1 & Hsub1 & Htmp1).
    set (p0 := after_digits (p_new C) (d :: g0')) in *.
    destruct (app_digits_fields (tmp (p_new C)) (d :: g0')) as (Hsg & Hsc1 & Hpt1).
    cbn [p_new s_new C new_sc new_az dl hc er tot sub tmp sg sc pt app] in *.
    assert (Hp0 : ginv p0).
    { unfold ginv. rewrite Hfd1, Hhp1, Her1, Htot1, Hsub1, Htmp1, Hsg, Hsc1, Hpt1. repeat split; discriminate. }
    pose proof (feed_commas gsc gs Hgs p0 Hp0) as Hf. cbv zeta in Hf.
    rewrite Hhc1, Hdl, Htmp1, all_zero_az in Hf.
    change (commas_ok false (0 + length (d :: g0')) (az (s_new C) && all_zero (d :: g0')) gs)
      with (commas_ok false (length (d :: g0')) (all_zero (d :: g0')) gs) in Hf.
    destruct (commas_ok false (length (d :: g0')) (all_zero (d :: g0')) gs).
    + destruct Hf as (p' & -> & Hp' & Hs' & Hl & _). destruct (Hl Hne) as [Hhc' Hdl']. cbn [andb].
      pose proof (done_grouped p' Hp') as Hd. rewrite Hhc', Hdl' in Hd. cbn [andb] in Hd.
      destruct (length (last gs []) =? 3); cbn [negb] in Hd.
      * destruct Hd as (p2 & -> & He & Ht). rewrite He, Ht, Hs', Hsg. cbn [app].
        unfold s_to_string, s_is_zero, s_normalize. cbn [sg sc pt]. reflexivity.
      * destruct Hd as (p2 & -> & He). cbn [fst]. now rewrite He.
    + destruct Hf as (p' & -> & He). cbn [andb fst]. now rewrite He.
Qed.

(* accepted iff well-formed *)
Corollary grouped_accepted_iff_std g0c g0 gsc gs :
  Forall2 digit_of g0c g0 -> Forall2 (Forall2 digit_of) gsc gs -> gs <> [] ->
  fst (fst (parse C (g0c ++ concat (map (cons 44%N) gsc)))) = groups_ok g0 gs.
Proof.
  intros H0 Hgs Hne. pose proof (grouped_std g0c g0 gsc gs H0 Hgs Hne) as H. cbv zeta in H.
  destruct (groups_ok g0 gs); [now rewrite H | now rewrite H].
Qed.

Theorem grouped cfg g0c g0 gsc gs :
  cfg = std_cfg -> Forall2 digit_of g0c g0 -> Forall2 (Forall2 digit_of) gsc gs -> gs <> [] ->
  let inp := g0c ++ concat (map (cons 44%N) gsc) in
  if groups_ok g0 gs
  then parse cfg inp = (true, 0%N, map digit_char (g0 ++ concat gs))
  else fst (parse cfg inp) = (false, 2%N).
Proof. intros ->. apply grouped_std. Qed.

Theorem grouped_accepted_iff cfg g0c g0 gsc gs :
  cfg = std_cfg -> Forall2 digit_of g0c g0 -> Forall2 (Forall2 digit_of) gsc gs -> gs <> [] ->
  fst (fst (parse cfg (g0c ++ concat (map (cons 44%N) gsc)))) = groups_ok g0 gs.
Proof. intros ->. apply grouped_accepted_iff_std. Qed.
