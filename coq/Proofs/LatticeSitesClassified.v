(* analysis/lattice.rs: the panic-capable constructs per function (regenerated into Generated/LatticeSites.v on every run)
   against the sites of the panicking-index model Model/LatticeP.v, and how each is discharged. *)
From Coq Require Import List NArith String.
Import ListNotations.
Open Scope string_scope.

(* Generated.lattice_fns of the pinned tree, as reviewed; the obligation compares the keys at the end of this file *)
Definition lattice_classified : list (string * list string * N * list string * list string) :=
  [ ("reset_vec", [], 0%N, [], []);
    ("reset", [], 0%N, [], []);
    ("connect_bos", ["self.ends[0]"], 0%N, [], []);
    ("connect_eos", [], 0%N, ["(len-1) as u16"; "(len-1) as u16"], ["len-1"; "len-1"]);
    ("insert", ["self.ends[end_idx]"; "self.indices[end_idx]"; "self.ends_full[end_idx]"], 0%N, [], []);
    ("connect_node", ["self.ends[begin]"], 0%N,
       ["r_node.cost() as i32"; "conn.cost(l_node.right_id(),r_node.left_id()) as i32"; "begin as u16"; "i as u16"], []);
    ("has_previous_node", [], 0%N, [], []);
    ("node", ["self.ends_full[id.end()asusize][id.index()asusize]"; "self.ends[id.end()asusize][id.index()asusize]"], 0%N, [], []);
    ("fill_top_path", ["self.indices[idx.end()asusize][idx.index()asusize]"], 1%N, [], []);
    ("dump", ["self.ends_full[boundary]"; "nodes[node_idx]"; "grammar.pos_list[pos_id]"; "grammar.pos_list[winfo.pos_id()asusize]";
              "self.ends[r_node.begin()]"], 0%N, [], []) ].

(* (function, construct, site of Model/LatticeP.v, status) *)
Definition lattice_site_status : list (string * string * string * string) :=
  [ ("connect_bos", "self.ends[0]", "S_bos_ends0", "proved: C03_lattice_no_index_panic (reset_vec leaves >= length+1 >= 1 rows)");
    ("connect_eos", "len-1", "S_eos_len", "proved: C03_lattice_no_index_panic (size = length+1 after reset)");
    ("connect_eos", "(len-1) as u16", "as_u16", "proved: identity under round_wf (length <= 65535), used by C03_lattice_no_index_panic");
    ("insert", "self.ends[end_idx]", "S_insert_ends_end", "proved: C03_lattice_no_index_panic");
    ("insert", "self.indices[end_idx]", "S_insert_indices_end", "proved: C03_lattice_no_index_panic");
    ("insert", "self.ends_full[end_idx]", "S_insert_full_end", "proved: C03_lattice_no_index_panic");
    ("connect_node", "self.ends[begin]", "S_connect_ends_begin", "proved: C03_lattice_no_index_panic");
    ("connect_node", "conn.cost(..)", "S_conn_left / S_conn_right / S_conn_index / PUB", "proved: C03_conn_cost_in_table, C03_lattice_no_index_panic (ids below the matrix dimensions: C20_accepted_config_index_safe)");
    ("connect_node", "l_node.total_cost() + connect_cost + node_cost", "S_add_overflow", "proved under the cost bound: C03_lattice_never_panics_debug (= C03_no_overflow_if_bounded carried over to the panicking model by C03_lattice_models_agree); wraps without overflow checks: C03_lattice_no_panic_release; beyond the bound: known finding i32_cost_overflow");
    ("connect_node", "r_node.cost() as i32 / conn.cost(..) as i32", "-", "widening i16 -> i32: lossless by type");
    ("connect_node", "begin as u16", "as_u16", "proved: identity under round_wf (begin < end <= length <= 65535)");
    ("connect_node", "i as u16", "as_u16", "proved: identity under round_wf (rows_small: at most 65535 words end at one boundary; invariant i_small)");
    ("node", "self.ends_full[id.end()][id.index()]", "S_node_full_row / S_node_full_col", "proved: C03_lattice_no_index_panic (ids of fill_top_path are valid_id)");
    ("node", "self.ends[id.end()][id.index()]", "S_node_ends_row / S_node_ends_col", "proved: C03_lattice_no_index_panic");
    ("fill_top_path", "self.eos.unwrap()", "S_eos_unwrap", "proved: unreachable, guarded by the is_none() return just before (the model has no path to the site)");
    ("fill_top_path", "self.indices[idx.end()][idx.index()]", "S_path_indices_row / S_path_indices_col / PFuel", "proved: C03_lattice_no_index_panic (every connected entry points to a connected entry of a lower row; needs length >= 1: the tokenizer returns before build_lattice for an empty text, see Witness empty_text_api_panics)");
    ("dump", "5 index expressions", "-", "reviewed: debug dump only (StatefulTokenizer debug flag), exercised by the debug-mode runs of the check") ].

Fixpoint assoc_s {A} (k : string) (l : list (string * A)) : option A :=
  match l with
  | [] => None
  | (k', v) :: t => if String.eqb k k' then Some v else assoc_s k t
  end.
(* count of one kind of construct in one file of the inventory Generated.PanicSites.sites *)
Definition inventory_count (sites : list (string * list (string * N))) (file kind : string) : option N :=
  match assoc_s file sites with Some row => assoc_s kind row | None => None end.

(* The classified constructs as keys (gen/sitekeys.py), per function: Generated.LatticeSites.lattice_site_keys has to stay WITHIN this table
   (obligation C03_fact_lattice_sites: Proofs/SiteCover.covered).  A construct that disappears from the code, or an index /
   cast operand spelled differently, leaves the obligation closed; a new construct or one more of a kind re-opens it.
   The table `lattice_classified` above is the reviewed inventory with the full expressions of the pinned tree (what the site-status
   table talks about); Generated/LatticeSites.v still lists the current expressions next to the keys. *)
Definition lattice_keys_classified : list (string * list string) :=
  [ ("reset_vec", []);
    ("reset", []);
    ("connect_bos", ["idx:self.ends[i]"]);
    ("connect_eos", ["cast:u16"; "cast:u16"; "sub"; "sub"]);
    ("insert", ["idx:self.ends[i]"; "idx:self.ends_full[i]"; "idx:self.indices[i]"]);
    ("connect_node", ["cast:i32"; "cast:i32"; "cast:u16"; "cast:u16"; "idx:self.ends[i]"]);
    ("has_previous_node", []);
    ("node", ["idx:self.ends[i][i]"; "idx:self.ends_full[i][i]"]);
    ("fill_top_path", ["idx:self.indices[i][i]"; "unwrap"]);
    ("dump", ["idx:grammar.pos_list[i]"; "idx:grammar.pos_list[i]"; "idx:nodes[i]"; "idx:self.ends[i]"; "idx:self.ends_full[i]"]) ].
