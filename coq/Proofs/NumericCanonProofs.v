(* The reference evaluator (hence, by parse_refines, the model parser) assigns to every canonical writing of a value
   the decimal rendering of that value; behaviour at repeated / increasing large units. *)
From Coq Require Import List NArith ZArith Bool Arith Lia ZifyBool ZifyNat ZifyN.
From SudachiVerif Require Import Model.Numeric Model.NumericRef Model.NumericCanon
     Proofs.NumericProofs Proofs.NumericRefProofs Proofs.NumericGrouped.
Import ListNotations.
Close Scope N_scope.

Arguments N.add : simpl never.
Arguments N.mul : simpl never.
Arguments N.ltb : simpl never.
Arguments N.leb : simpl never.
Arguments N.eqb : simpl never.
Arguments N.div : simpl never.
Arguments N.modulo : simpl never.
Arguments N.pow : simpl never.

Notation C := std_cfg.

(* ------------------------------------------------------------------ reference parser: single steps *)
(* clean state between groups: total tot, subtotal s, nothing being read *)
Definition ss (tot s : rnum) : rparser := mkRP 0 true false false 0%N tot s [] None.

Lemma r_feed_app rp a b :
  r_feed C rp (a ++ b) = (let '(ok, rp') := r_feed C rp a in if ok then r_feed C rp' b else (false, rp')).
Proof.
  revert rp. induction a as [|c a IH]; intros rp; cbn [app r_feed]; [reflexivity|].
  destruct (r_append C rp c) as [[|] rp']; [apply IH | reflexivity].
Qed.

Lemma digit_cases d : (d < 10)%N -> d = 0%N \/ d = 1%N \/ d = 2%N \/ d = 3%N \/ d = 4%N \/ d = 5%N \/ d = 6%N \/ d = 7%N \/ d = 8%N \/ d = 9%N.
Proof. lia. Qed.

Lemma digit_of_cdigit ar d : (d < 10)%N -> digit_of (cdigit ar d) d.
Proof.
  intros H. destruct (digit_cases d H) as [E|[E|[E|[E|[E|[E|[E|[E|[E|E]]]]]]]]]; subst d; destruct ar;
    (split; [vm_compute; reflexivity | lia]).
Qed.

Lemma r_append_digit rp c d :
  digit_of c d -> rfp rp = None ->
  r_append C rp c = (true, mkRP (S (rdl rp)) false (rhc rp) false (rer rp) (rtot rp) (rsub rp) (rip rp ++ [d]) None).
Proof.
  intros Hd Hfp. destruct (digit_not_sep _ _ Hd) as [H46 H44]. destruct Hd as [Hl Hlt].
  unfold r_append. cbn [point_c comma_c table C].
  destruct (N.eqb_spec c 46); [contradiction|]. destruct (N.eqb_spec c 44); [contradiction|].
  rewrite Hl. unfold is_small_unit, is_large_unit. cbn [small_lo small_hi large_below C].
  replace (Z.ltb (Z.of_N d) 0) with false by lia. rewrite andb_false_r.
  replace (Z.ltb (Z.of_N d) (-3)) with false by lia. now rewrite N2Z.id, Hfp.
Qed.

Definition r_after (rp : rparser) (ds : list N) : rparser :=
  match ds with
  | [] => rp
  | _ => mkRP (rdl rp + length ds) false (rhc rp) false (rer rp) (rtot rp) (rsub rp) (rip rp ++ ds) None
  end.

Lemma r_feed_digits cs ds : Forall2 digit_of cs ds -> forall rp, rfp rp = None -> r_feed C rp cs = (true, r_after rp ds).
Proof.
  induction 1 as [|c d cs ds Hd _ IH]; intros rp Hfp; [reflexivity|].
  cbn [r_feed]. rewrite (r_append_digit _ _ _ Hd Hfp). rewrite IH by reflexivity. f_equal.
  destruct ds as [|d' ds']; cbn [r_after rdl rhc rer rtot rsub rip length].
  - now rewrite Nat.add_1_r.
  - rewrite <- app_assoc. cbn [app]. f_equal. lia.
Qed.

Definition small_unit (u : N) (e : nat) : Prop := (u = U1000 /\ e = 3) \/ (u = U100 /\ e = 2) \/ (u = U10 /\ e = 1).
Definition large_unit (u : N) (e : nat) : Prop := (u = UCHO /\ e = 12) \/ (u = UOKU /\ e = 8) \/ (u = UMAN /\ e = 4).

Lemma r_append_small rp u e :
  small_unit u e ->
  r_append C rp u =
  match r_add (rsub rp) (r_shift (r_tmp rp) e) with
  | Some s' => (true, mkRP 0 true false (rhp rp) (rer rp) (rtot rp) s' [] None)
  | None => (false, rp)
  end.
Proof. intros [[-> ->]|[[-> ->]|[-> ->]]]; reflexivity. Qed.

Lemma r_append_large rp u e :
  large_unit u e ->
  r_append C rp u =
  match r_add (rsub rp) (r_tmp rp) with
  | None => (false, rp)
  | Some s' =>
      if r_is_empty s' then (false, rp)
      else match r_add (rtot rp) (r_shift s' e) with
           | Some tl => (true, mkRP 0 true false (rhp rp) (rer rp) tl REmpty [] None)
           | None => (false, rp)
           end
  end.
Proof. intros [[-> ->]|[[-> ->]|[-> ->]]]; reflexivity. Qed.

(* ------------------------------------------------------------------ one coefficient + small unit *)
Definition slot_num (x : N) (e : nat) : rnum := RNum (x :: repeat 0%N e) [] e.

Lemma dshift_nil ip j : dshift (ip, []) j = (ip ++ repeat 0%N j, []).
Proof. unfold dshift. cbn [fst snd app]. now rewrite firstn_repeat, Nat.min_id, skipn_nil. Qed.

Lemma r_shift_int ip k j : r_shift (RNum ip [] k) j = RNum (ip ++ repeat 0%N j) [] (k + j).
Proof. unfold r_shift. rewrite dshift_nil. cbn [fst snd length]. now rewrite Nat.sub_0_r. Qed.

Lemma slot_feed ex ar u e x tot s s' :
  small_unit u e -> (x < 10)%N -> x <> 0%N -> r_add s (slot_num x e) = Some s' ->
  r_feed C (ss tot s) (coef_text ex ar u x) = (true, ss tot s').
Proof.
  intros Hu Hx Hnz Hadd. unfold coef_text. destruct (N.eqb_spec x 0); [contradiction|].
  destruct (N.eqb x 1 && negb ex) eqn:E1.
  - apply andb_prop in E1. destruct E1 as [E1 _]. apply N.eqb_eq in E1. subst x.
    cbn [r_feed]. rewrite (r_append_small _ _ _ Hu). unfold ss. cbn [rsub r_tmp rip r_shift rhp rer rtot].
    change (RNum (1%N :: repeat 0%N e) [] e) with (slot_num 1 e). now rewrite Hadd.
  - cbn [r_feed]. rewrite (r_append_digit _ _ x (digit_of_cdigit ar x Hx)) by reflexivity.
    rewrite (r_append_small _ _ _ Hu). unfold ss. cbn [rsub r_tmp rip app rfp frac_of rhp rer rtot rdl rhc].
    rewrite r_shift_int. cbn [app Nat.add]. fold (slot_num x e). now rewrite Hadd.
Qed.

Lemma coef_text_zero ex ar u : coef_text ex ar u 0 = [].
Proof. reflexivity. Qed.

(* ------------------------------------------------------------------ one group with kanji units *)
Definition gsub (a b c : N) : rnum :=
  match strip [a; b; c] with [] => REmpty | _ => RNum (strip [a; b; c; 0%N]) [] (groom3 a b c) end.
(* state after the text of the group *)
Definition gstate (tot : rnum) (g : grp) : rparser :=
  let '(a, b, c, d) := g in
  if N.eqb d 0 then ss tot (gsub a b c) else mkRP 1 false false false 0%N tot (gsub a b c) [d] None.

Definition gdigits (g : grp) : Prop := let '(a, b, c, d) := g in (a < 10 /\ b < 10 /\ c < 10 /\ d < 10)%N.

Lemma su1000 : small_unit U1000 3. Proof. left; split; reflexivity. Qed.
Lemma su100 : small_unit U100 2. Proof. right; left; split; reflexivity. Qed.
Lemma su10 : small_unit U10 1. Proof. right; right; split; reflexivity. Qed.

(* the subtotal after the 千, 百, 十 slots, as the evaluator builds it *)
Definition opt_get (o : option rnum) : rnum := match o with Some s => s | None => REmpty end.
Definition s1 (a : N) : rnum := if N.eqb a 0 then REmpty else slot_num a 3.
Definition s2 (a b : N) : rnum := if N.eqb b 0 then s1 a else opt_get (r_add (s1 a) (slot_num b 2)).
Definition s3 (a b c : N) : rnum := if N.eqb c 0 then s2 a b else opt_get (r_add (s2 a b) (slot_num c 1)).

Lemma s1_add a : a <> 0%N -> r_add REmpty (slot_num a 3) = Some (s1 a).
Proof. intros H. unfold s1. destruct (N.eqb_spec a 0); [contradiction | reflexivity]. Qed.

Lemma s2_add a b : b <> 0%N -> r_add (s1 a) (slot_num b 2) = Some (s2 a b).
Proof.
  intros H. unfold s2. destruct (N.eqb_spec b 0); [contradiction|].
  unfold s1. destruct (N.eqb a 0); reflexivity.
Qed.

Lemma s3_add a b c : c <> 0%N -> r_add (s2 a b) (slot_num c 1) = Some (s3 a b c).
Proof.
  intros H. unfold s3. destruct (N.eqb_spec c 0); [contradiction|].
  unfold s2, s1. destruct (N.eqb a 0), (N.eqb b 0); reflexivity.
Qed.

Lemma s3_gsub a b c : s3 a b c = gsub a b c.
Proof.
  unfold s3, s2, s1, gsub, groom3. cbn [strip].
  destruct (N.eqb_spec a 0) as [->|Ha], (N.eqb_spec b 0) as [->|Hb], (N.eqb_spec c 0) as [->|Hc];
    apply N.eqb_neq in Ha || idtac; apply N.eqb_neq in Hb || idtac; apply N.eqb_neq in Hc || idtac;
    cbn; rewrite ?Ha, ?Hb, ?Hc; reflexivity.
Qed.

Lemma slot_feed' ex ar u e x tot s s' :
  small_unit u e -> (x < 10)%N -> (x <> 0%N -> r_add s (slot_num x e) = Some s') ->
  r_feed C (ss tot s) (coef_text ex ar u x) = (true, ss tot (if N.eqb x 0 then s else s')).
Proof.
  intros Hu Hx Hadd. destruct (N.eqb_spec x 0) as [->|Hnz]; [reflexivity|].
  apply (slot_feed ex ar u e x tot s s' Hu Hx Hnz (Hadd Hnz)).
Qed.

Lemma kanji_group_feed st g tot :
  gdigits g -> r_feed C (ss tot REmpty) (kanji_group st g) = (true, gstate tot g).
Proof.
  destruct g as [[[a b] c] d]. intros (Ha & Hb & Hc & Hd). unfold kanji_group, gstate. rewrite <- s3_gsub.
  rewrite r_feed_app, (slot_feed' _ _ _ _ a tot REmpty (s1 a) su1000 Ha (s1_add a)).
  replace (if N.eqb a 0 then REmpty else s1 a) with (s1 a) by (unfold s1; now destruct (N.eqb a 0)).
  rewrite r_feed_app, (slot_feed' _ _ _ _ b tot (s1 a) (s2 a b) su100 Hb (s2_add a b)).
  replace (if N.eqb b 0 then s1 a else s2 a b) with (s2 a b) by (unfold s2; now destruct (N.eqb b 0)).
  rewrite r_feed_app, (slot_feed' _ _ _ _ c tot (s2 a b) (s3 a b c) su10 Hc (s3_add a b c)).
  replace (if N.eqb c 0 then s2 a b else s3 a b c) with (s3 a b c) by (unfold s3; now destruct (N.eqb c 0)).
  destruct (N.eqb d 0); [reflexivity|].
  cbn [r_feed]. now rewrite (r_append_digit _ _ d (digit_of_cdigit _ d Hd)) by reflexivity.
Qed.

(* ------------------------------------------------------------------ lists of digits *)
Lemma strip_app X Y : strip (X ++ Y) = match strip X with [] => strip Y | D => D ++ Y end.
Proof.
  induction X as [|x X IH]; [reflexivity|]. cbn [app strip]. destruct (N.eqb x 0); [apply IH | reflexivity].
Qed.

Lemma strip_pad l : l = repeat 0%N (length l - length (strip l)) ++ strip l.
Proof.
  induction l as [|x l IH]; [reflexivity|]. cbn [strip]. destruct (N.eqb_spec x 0) as [->|H].
  - pose proof (f_equal (@length N) IH) as HL. rewrite app_length, repeat_length in HL.
    cbn [length]. replace (S (length l) - length (strip l)) with (S (length l - length (strip l))) by lia.
    cbn [repeat app]. now rewrite <- IH.
  - cbn [length]. now rewrite Nat.sub_diag.
Qed.

Lemma strip_length l : length (strip l) <= length l.
Proof. induction l as [|x l IH]; [reflexivity|]. cbn [strip]. destruct (N.eqb x 0); cbn [length]; lia. Qed.

Lemma strip_digits l : all_digits l -> all_digits (strip l).
Proof. induction 1 as [|x l Hx Hl IH]; [constructor|]. cbn [strip]. destruct (N.eqb x 0); [assumption | now constructor]. Qed.

Lemma strip_head l x t : strip l = x :: t -> x <> 0%N.
Proof.
  induction l as [|y l IH]; [discriminate|]. cbn [strip]. destruct (N.eqb_spec y 0); [apply IH|]. now intros [= <- _].
Qed.

Lemma sdig_length g : length (sdig g) <= 4.
Proof. unfold sdig. etransitivity; [apply strip_length|]. destruct g as [[[a b] c] d]. reflexivity. Qed.

Lemma gdig_pad g : gdig g = repeat 0%N (4 - length (sdig g)) ++ sdig g.
Proof. unfold sdig. rewrite (strip_pad (gdig g)) at 1. destruct g as [[[a b] c] d]. reflexivity. Qed.

Lemma gdigits_all g : gdigits g -> all_digits (gdig g).
Proof. destruct g as [[[a b] c] d]. intros (Ha & Hb & Hc & Hd). repeat constructor; assumption. Qed.

(* ------------------------------------------------------------------ group writers *)
(* the number a group contributes: its digits without leading zeros, and the room below its last small unit *)
Lemma kanji_group_num tot g :
  gz g = false ->
  r_add (rsub (gstate tot g)) (r_tmp (gstate tot g)) = Some (RNum (sdig g) [] (groom g)).
Proof.
  destruct g as [[[a b] c] d]. unfold gz, sdig, gstate, groom, gsub, groom3. cbn [gdig strip].
  destruct (N.eqb_spec a 0) as [->|Ha], (N.eqb_spec b 0) as [->|Hb], (N.eqb_spec c 0) as [->|Hc], (N.eqb_spec d 0) as [->|Hd];
    apply N.eqb_neq in Ha || idtac; apply N.eqb_neq in Hb || idtac; apply N.eqb_neq in Hc || idtac; apply N.eqb_neq in Hd || idtac;
    cbn; rewrite ?Ha, ?Hb, ?Hc, ?Hd; cbn; try discriminate; intros _; reflexivity.
Qed.

(* a group writer: from a clean state it leads to a state whose subtotal + number being read is the group's number *)
Definition gw_ok (w : grp -> list N) (room : grp -> nat) : Prop :=
  forall g tot, gdigits g -> gz g = false ->
  exists rp', r_feed C (ss tot REmpty) (w g) = (true, rp') /\ rtot rp' = tot /\ rhp rp' = false /\ rhc rp' = false /\
              rer rp' = 0%N /\ r_add (rsub rp') (r_tmp rp') = Some (RNum (sdig g) [] (room g)).

Lemma kanji_group_ok st : gw_ok (kanji_group st) groom.
Proof.
  intros g tot Hd Hz. exists (gstate tot g). split; [now apply kanji_group_feed|].
  split; [|split; [|split; [|split; [|now apply kanji_group_num]]]];
    destruct g as [[[a b] c] d]; unfold gstate; destruct (N.eqb d 0); reflexivity.
Qed.

Lemma Forall2_adigit ds : all_digits ds -> Forall2 digit_of (map adigit ds) ds.
Proof. induction 1 as [|d ds Hd _ IH]; constructor; [exact (digit_of_cdigit true d Hd) | assumption]. Qed.

Lemma arabic_group_ok : gw_ok arabic_group (fun _ => 0).
Proof.
  intros g tot Hd Hz. unfold arabic_group.
  assert (Hds : all_digits (sdig g)) by (apply strip_digits, gdigits_all, Hd).
  rewrite (r_feed_digits _ _ (Forall2_adigit _ Hds)) by reflexivity.
  unfold gz in Hz. destruct (sdig g) as [|x t] eqn:E; [discriminate|].
  eexists; split; [reflexivity|]. cbn [r_after ss rtot rhp rhc rer rsub rip app r_tmp rfp frac_of r_add]. repeat split.
Qed.

Lemma group_writer_ok kinds sty i :
  gw_ok (group_writer kinds sty i) (if kinds i then (fun _ => 0) else groom).
Proof. unfold group_writer. destruct (kinds i); [apply arabic_group_ok | apply kanji_group_ok]. Qed.

(* ------------------------------------------------------------------ a large unit after a group *)
(* In ANY state with a non-empty total of room kt: the group followed by the large unit 10^E is accepted iff the digits of
   the group plus E fit into the room; then the group is written into the zero positions of the total (exact addition,
   see r_add_exact); otherwise the parser rejects without an error state. *)
Lemma large_step w room g u E ipt kt :
  gw_ok w room -> gdigits g -> gz g = false -> large_unit u E ->
  r_feed C (ss (RNum ipt [] kt) REmpty) (w g ++ [u]) =
  if length (sdig g) + E <=? kt
  then (true, ss (RNum (firstn (length ipt - (length (sdig g) + E)) ipt ++ sdig g ++ repeat 0%N E) [] (room g + E)) REmpty)
  else (false, snd (r_feed C (ss (RNum ipt [] kt) REmpty) (w g ++ [u]))).
Proof.
  intros Hw Hd Hz Hu. destruct (Hw g (RNum ipt [] kt) Hd Hz) as (rp' & Hf & Ht & Hhp & Hhc & Her & Hadd).
  rewrite r_feed_app, Hf. cbn [r_feed]. rewrite (r_append_large _ _ _ Hu), Hadd. cbn [r_is_empty].
  rewrite r_shift_int, Ht. cbn [r_add]. rewrite app_length, repeat_length.
  destruct (length (sdig g) + E <=? kt); [|reflexivity].
  rewrite Hhp, Her. reflexivity.
Qed.

Lemma large_step_empty w room g u E :
  gw_ok w room -> gdigits g -> gz g = false -> large_unit u E ->
  r_feed C (ss REmpty REmpty) (w g ++ [u]) = (true, ss (RNum (sdig g ++ repeat 0%N E) [] (room g + E)) REmpty).
Proof.
  intros Hw Hd Hz Hu. destruct (Hw g REmpty Hd Hz) as (rp' & Hf & Ht & Hhp & Hhc & Her & Hadd).
  rewrite r_feed_app, Hf. cbn [r_feed]. rewrite (r_append_large _ _ _ Hu), Hadd. cbn [r_is_empty].
  rewrite r_shift_int, Ht. cbn [r_add]. now rewrite Hhp, Her.
Qed.

(* ------------------------------------------------------------------ the total while the groups are read in order *)
(* X: the digits (four per group, zero groups included) of the groups read so far; E: exponent of the last position *)
Definition tinv (tot : rnum) (X : list N) (E : nat) : Prop :=
  match strip X with
  | [] => tot = REmpty
  | D => exists kt, E <= kt /\ tot = RNum (D ++ repeat 0%N E) [] kt
  end.

Lemma tinv_step w room g u E tot X :
  gw_ok w room -> gdigits g -> large_unit u E -> tinv tot X (E + 4) ->
  exists tot', r_feed C (ss tot REmpty) (part w g u) = (true, ss tot' REmpty) /\ tinv tot' (X ++ gdig g) E.
Proof.
  intros Hw Hd Hu Hinv. unfold part, tinv in *. rewrite strip_app. fold (sdig g).
  destruct (gz g) eqn:Hz.
  - (* nothing is written for a zero group *)
    exists tot. split; [reflexivity|]. unfold gz in Hz. destruct (sdig g) eqn:Es; [|discriminate].
    assert (Hg : gdig g = repeat 0%N 4) by (rewrite (gdig_pad g), Es; reflexivity).
    destruct (strip X) as [|x D]; [assumption|]. destruct Hinv as (kt & Hk & ->). exists kt. split; [lia|].
    rewrite Hg. change (x :: D ++ repeat 0%N 4) with ((x :: D) ++ repeat 0%N 4).
    rewrite <- app_assoc, repeat_app_add. now replace (4 + E) with (E + 4) by lia.
  - assert (Hne : sdig g <> []) by (unfold gz in Hz; destruct (sdig g); [discriminate | discriminate]).
    pose proof (sdig_length g) as Hlen.
    destruct (strip X) as [|x D] eqn:EX.
    + subst tot. rewrite (large_step_empty w room g u E Hw Hd Hz Hu). eexists; split; [reflexivity|].
      destruct (sdig g) eqn:Es; [contradiction|]. exists (room g + E). split; [lia | reflexivity].
    + destruct Hinv as (kt & Hk & ->). rewrite (large_step w room g u E _ kt Hw Hd Hz Hu).
      destruct (Nat.leb_spec (length (sdig g) + E) kt); [|lia].
      eexists; split; [reflexivity|]. exists (room g + E). split; [lia|]. f_equal.
      rewrite app_length, repeat_length.
      replace (length (x :: D) + (E + 4) - (length (sdig g) + E)) with (length (x :: D) + (4 - length (sdig g))) by lia.
      rewrite firstn_app_2, firstn_repeat. replace (Nat.min (4 - length (sdig g)) (E + 4)) with (4 - length (sdig g)) by lia.
      rewrite (gdig_pad g). change (x :: D ++ ?a) with ((x :: D) ++ a). now rewrite <- !app_assoc.
Qed.

(* the last group and done() *)
Lemma tinv_done w room g tot X :
  gw_ok w room -> gdigits g -> tinv tot X 4 -> strip (X ++ gdig g) <> [] ->
  exists rp k, r_feed C (ss tot REmpty) (if gz g then [] else w g) = (true, rp) /\
               r_done C rp = (true, 0%N, RNum (strip (X ++ gdig g)) [] k).
Proof.
  intros Hw Hd Hinv Hnz. unfold tinv in *. rewrite strip_app in *. fold (sdig g) in *.
  destruct (gz g) eqn:Hz.
  - unfold gz in Hz. destruct (sdig g) eqn:Es; [|discriminate].
    assert (Hg : gdig g = repeat 0%N 4) by (rewrite (gdig_pad g), Es; reflexivity).
    destruct (strip X) as [|x D]; [contradiction|]. destruct Hinv as (kt & Hk & ->).
    exists (ss (RNum ((x :: D) ++ repeat 0%N 4) [] kt) REmpty), kt. split; [reflexivity|]. now rewrite Hg.
  - assert (Hne : sdig g <> []) by (unfold gz in Hz; destruct (sdig g); [discriminate | discriminate]).
    pose proof (sdig_length g) as Hlen.
    destruct (Hw g tot Hd Hz) as (rp' & Hf & Ht & Hhp & Hhc & Her & Hadd).
    exists rp'. unfold r_done. rewrite Hadd, Ht, Hhp, Hhc, Her. cbn [andb].
    destruct (strip X) as [|x D] eqn:EX.
    + subst tot. exists (room g). split; [assumption|]. cbn [r_add]. destruct (sdig g); [contradiction | reflexivity].
    + destruct Hinv as (kt & Hk & ->). exists (room g). split; [assumption|]. cbn [r_add].
      destruct (Nat.leb_spec (length (sdig g)) kt); [|lia]. do 2 f_equal.
      rewrite app_length, repeat_length.
      replace (length (x :: D) + 4 - length (sdig g)) with (length (x :: D) + (4 - length (sdig g))) by lia.
      rewrite firstn_app_2, firstn_repeat. replace (Nat.min (4 - length (sdig g)) 4) with (4 - length (sdig g)) by lia.
      rewrite (gdig_pad g). now rewrite <- !app_assoc.
Qed.

Lemma lu_cho : large_unit UCHO 12. Proof. left; split; reflexivity. Qed.
Lemma lu_oku : large_unit UOKU 8. Proof. right; left; split; reflexivity. Qed.
Lemma lu_man : large_unit UMAN 4. Proof. right; right; split; reflexivity. Qed.

(* the whole numeral: four groups, each with its own writer *)
Theorem wnum_value (w : nat -> grp -> list N) (room : nat -> grp -> nat) g3 g2 g1 g0 :
  (forall i, gw_ok (w i) (room i)) ->
  gdigits g3 -> gdigits g2 -> gdigits g1 -> gdigits g0 ->
  strip (gdig g3 ++ gdig g2 ++ gdig g1 ++ gdig g0) <> [] ->
  exists k, r_parse C (wnum w (g3, g2, g1, g0)) =
            (true, 0%N, RNum (strip (gdig g3 ++ gdig g2 ++ gdig g1 ++ gdig g0)) [] k).
Proof.
  intros Hw H3 H2 H1 H0 Hnz. unfold r_parse, wnum. change (r_new) with (ss REmpty REmpty).
  destruct (tinv_step (w 3) (room 3) g3 UCHO 12 REmpty [] (Hw 3) H3 lu_cho) as (t3 & F3 & I3); [reflexivity|].
  destruct (tinv_step (w 2) (room 2) g2 UOKU 8 t3 _ (Hw 2) H2 lu_oku I3) as (t2 & F2 & I2).
  destruct (tinv_step (w 1) (room 1) g1 UMAN 4 t2 _ (Hw 1) H1 lu_man I2) as (t1 & F1 & I1).
  cbn [app] in I1. rewrite <- !app_assoc in I1.
  destruct (tinv_done (w 0) (room 0) g0 t1 _ (Hw 0) H0 I1) as (rp & k & F0 & D0); [now rewrite <- !app_assoc|].
  exists k. rewrite r_feed_app, F3. cbv beta iota. rewrite r_feed_app, F2. cbv beta iota.
  rewrite r_feed_app, F1. cbv beta iota. rewrite F0. now rewrite <- !app_assoc in D0.
Qed.

(* ------------------------------------------------------------------ digits of a value *)
Lemma digitsk_length k n : length (digitsk k n) = k.
Proof. revert n; induction k as [|k IH]; intros n; cbn [digitsk]; [reflexivity|]. rewrite app_length, IH. cbn. lia. Qed.

Lemma digitsk_digits k n : all_digits (digitsk k n).
Proof.
  revert n; induction k as [|k IH]; intros n; cbn [digitsk]; [constructor|].
  apply all_digits_app; [apply IH|]. constructor; [|constructor]. apply N.mod_lt. lia.
Qed.

Lemma to_N_snoc l d : to_N (l ++ [d]) = (10 * to_N l + d)%N.
Proof. rewrite to_N_app. cbn [length]. change (N.of_nat 1) with 1%N. rewrite N.pow_1_r. unfold to_N at 2. cbn [to_N_acc]. lia. Qed.

(* the digit string denotes n (mod 10^k): digitsk IS the decimal expansion *)
Lemma to_N_digitsk k n : to_N (digitsk k n) = (n mod 10 ^ N.of_nat k)%N.
Proof.
  revert n; induction k as [|k IH]; intros n.
  - cbn [digitsk]. change (N.of_nat 0) with 0%N. rewrite N.pow_0_r, N.mod_1_r. reflexivity.
  - cbn [digitsk]. rewrite to_N_snoc, IH, Nat2N.inj_succ, N.pow_succ_r'.
    rewrite (N.mod_mul_r n 10 (10 ^ N.of_nat k)) by (try apply N.pow_nonzero; lia). lia.
Qed.

Lemma digitsk_add a b n : digitsk (a + b) n = digitsk a (n / 10 ^ N.of_nat b) ++ digitsk b n.
Proof.
  revert n; induction b as [|b IH]; intros n.
  - rewrite Nat.add_0_r. change (N.of_nat 0) with 0%N. rewrite N.pow_0_r, N.div_1_r. cbn [digitsk]. now rewrite app_nil_r.
  - rewrite Nat.add_succ_r. cbn [digitsk]. rewrite IH, <- app_assoc. do 2 f_equal.
    rewrite Nat2N.inj_succ, N.pow_succ_r', N.div_div by (try apply N.pow_nonzero; lia). reflexivity.
Qed.

Lemma gdig_grp_of m : gdig (grp_of m) = digitsk 4 m.
Proof. reflexivity. Qed.

Lemma gdigits_grp_of m : gdigits (grp_of m).
Proof. unfold gdigits, grp_of. repeat split; apply N.mod_lt; lia. Qed.

Lemma groups16_digits n :
  let '(g3, g2, g1, g0) := groups16 n in gdig g3 ++ gdig g2 ++ gdig g1 ++ gdig g0 = digitsk 16 n.
Proof.
  unfold groups16. rewrite !gdig_grp_of.
  change 16 with (4 + 12). rewrite (digitsk_add 4 12 n). f_equal.
  change 12 with (4 + 8). rewrite (digitsk_add 4 8 n). f_equal.
  change 8 with (4 + 4). rewrite (digitsk_add 4 4 n). reflexivity.
Qed.

Lemma to_N_strip l : to_N (strip l) = to_N l.
Proof.
  induction l as [|x l IH]; [reflexivity|]. cbn [strip]. destruct (N.eqb_spec x 0) as [->|]; [|reflexivity].
  rewrite IH. change (0%N :: l) with ([0%N] ++ l). rewrite to_N_app. unfold to_N at 2. cbn [to_N_acc]. lia.
Qed.

(* dec16 n is THE decimal rendering of 0 < n < 10^16: decimal digits, no leading zero, value n *)
Theorem dec16_spec n :
  (0 < n < 10 ^ 16)%N ->
  to_N (dec16 n) = n /\ all_digits (dec16 n) /\ exists x t, dec16 n = x :: t /\ x <> 0%N.
Proof.
  intros Hn. unfold dec16.
  assert (Hv : to_N (strip (digitsk 16 n)) = n).
  { rewrite to_N_strip, to_N_digitsk. apply N.mod_small. exact (proj2 Hn). }
  split; [assumption|]. split; [apply strip_digits, digitsk_digits|].
  destruct (strip (digitsk 16 n)) as [|x t] eqn:E.
  - cbn in Hv. lia.
  - exists x, t. split; [reflexivity|]. eapply strip_head; eassumption.
Qed.

(* two digit strings without leading zero that denote the same value are equal: the rendering is unique *)
Lemma to_N_bound l : all_digits l -> (to_N l < 10 ^ N.of_nat (length l))%N.
Proof.
  induction l as [|d l IH] using rev_ind; intros Hd.
  - cbn. lia.
  - unfold all_digits in Hd. rewrite Forall_app in Hd. destruct Hd as [Hl Hd]. inversion Hd; subst.
    rewrite to_N_snoc, app_length. cbn [length]. rewrite Nat.add_1_r, Nat2N.inj_succ, N.pow_succ_r'.
    specialize (IH Hl). lia.
Qed.

Lemma to_N_lower x t : x <> 0%N -> (10 ^ N.of_nat (length t) <= to_N (x :: t))%N.
Proof.
  intros Hx. change (x :: t) with ([x] ++ t). rewrite to_N_app. unfold to_N at 1. cbn [to_N_acc].
  assert (1 <= x)%N by lia. nia.
Qed.

Lemma to_N_inj_len l1 l2 : all_digits l1 -> all_digits l2 -> length l1 = length l2 -> to_N l1 = to_N l2 -> l1 = l2.
Proof.
  revert l2. induction l1 as [|d1 l1 IH] using rev_ind; intros l2 H1 H2 Hl Hv.
  - destruct l2; [reflexivity | discriminate].
  - destruct l2 as [|d2 l2] using rev_ind; [rewrite app_length in Hl; cbn in Hl; lia|]. clear IHl2.
    unfold all_digits in *. rewrite Forall_app in H1, H2. destruct H1 as [H1 Hd1], H2 as [H2 Hd2].
    inversion Hd1; inversion Hd2; subst. rewrite !to_N_snoc in Hv. rewrite !app_length in Hl. cbn [length] in Hl.
    assert (d1 = d2 /\ to_N l1 = to_N l2) as [-> Hv'] by lia.
    f_equal. apply IH; [assumption | assumption | lia | assumption].
Qed.

Theorem decimal_rendering_unique l1 l2 x1 t1 x2 t2 :
  all_digits l1 -> all_digits l2 -> l1 = x1 :: t1 -> l2 = x2 :: t2 -> x1 <> 0%N -> x2 <> 0%N ->
  to_N l1 = to_N l2 -> l1 = l2.
Proof.
  intros H1 H2 -> -> Hx1 Hx2 Hv. apply to_N_inj_len; try assumption.
  pose proof (to_N_bound _ H1) as B1. pose proof (to_N_bound _ H2) as B2.
  pose proof (to_N_lower x1 t1 Hx1) as L1. pose proof (to_N_lower x2 t2 Hx2) as L2.
  cbn [length] in *. rewrite Nat2N.inj_succ, N.pow_succ_r' in B1, B2.
  destruct (Nat.lt_trichotomy (length t1) (length t2)) as [Hlt|[Heq|Hgt]]; [exfalso | now rewrite Heq | exfalso].
  - assert (10 ^ N.of_nat (length t2) >= 10 * 10 ^ N.of_nat (length t1))%N.
    { replace (length t2) with (S (length t1) + (length t2 - S (length t1))) by lia.
      rewrite Nat2N.inj_add, Nat2N.inj_succ, N.pow_add_r, N.pow_succ_r'.
      assert (1 <= 10 ^ N.of_nat (length t2 - S (length t1)))%N by (apply N.lt_pred_le, N.neq_0_lt_0, N.pow_nonzero; lia). nia. }
    lia.
  - assert (10 ^ N.of_nat (length t1) >= 10 * 10 ^ N.of_nat (length t2))%N.
    { replace (length t1) with (S (length t2) + (length t1 - S (length t2))) by lia.
      rewrite Nat2N.inj_add, Nat2N.inj_succ, N.pow_add_r, N.pow_succ_r'.
      assert (1 <= 10 ^ N.of_nat (length t1 - S (length t2)))%N by (apply N.lt_pred_le, N.neq_0_lt_0, N.pow_nonzero; lia). nia. }
    lia.
Qed.

(* ------------------------------------------------------------------ canonical writings denote their value *)
Lemma render_int D k : D <> [] -> render_r (RNum D [] k) = map digit_char D.
Proof. intros H. unfold render_r, render. cbn [fst snd strip_zero_digits]. destruct D; [contradiction | reflexivity]. Qed.

Theorem canonical_value_ref kinds sty n :
  (0 < n < 10 ^ 16)%N -> exists k, r_parse C (canon_of kinds sty n) = (true, 0%N, RNum (dec16 n) [] k).
Proof.
  intros Hn. unfold canon_of, dec16. pose proof (groups16_digits n) as Hg.
  destruct (groups16 n) as [[[g3 g2] g1] g0] eqn:Eg. rewrite <- Hg.
  unfold groups16 in Eg. injection Eg as <- <- <- <-.
  apply (wnum_value (group_writer kinds sty) (fun i => if kinds i then (fun _ => 0) else groom)).
  - intros i. apply group_writer_ok.
  - apply gdigits_grp_of.
  - apply gdigits_grp_of.
  - apply gdigits_grp_of.
  - apply gdigits_grp_of.
  - fold (groups16 n) in Hg. change (strip (gdig (grp_of (n / 10 ^ 12)) ++ gdig (grp_of (n / 10 ^ 8)) ++ gdig (grp_of (n / 10 ^ 4)) ++ gdig (grp_of n)) <> []).
    pose proof (groups16_digits n) as Hg'. unfold groups16 in Hg'. rewrite Hg'.
    destruct (dec16_spec n Hn) as (_ & _ & x & t & E & _). unfold dec16 in E. rewrite E. discriminate.
Qed.

(* the model parser on a canonical writing of n: accepted, normalised to the decimal rendering of n *)
Theorem canonical_value_std kinds sty n :
  (0 < n < 10 ^ 16)%N -> parse C (canon_of kinds sty n) = (true, 0%N, map digit_char (dec16 n)).
Proof.
  intros Hn. destruct (canonical_value_ref kinds sty n Hn) as (k & Hr).
  pose proof (parse_refines_std (canon_of kinds sty n)) as H. rewrite Hr in H.
  destruct (parse C (canon_of kinds sty n)) as [[ok e] out]. destruct H as (-> & -> & Hout).
  rewrite (Hout eq_refl). f_equal. apply render_int.
  destruct (dec16_spec n Hn) as (_ & _ & x & t & E & _). rewrite E. discriminate.
Qed.

Theorem canonical_value cfg kinds sty n :
  cfg = std_cfg -> (0 < n < 10 ^ 16)%N -> parse cfg (canon_of kinds sty n) = (true, 0%N, map digit_char (dec16 n)).
Proof. intros ->. apply canonical_value_std. Qed.

(* ------------------------------------------------------------------ large units that repeat or increase *)
Lemma r_done_clean tot : r_done C (ss tot REmpty) = (true, 0%N, tot).
Proof. unfold r_done, ss. cbn [rsub r_tmp rip r_add rtot rhp rhc rer andb]. now destruct tot. Qed.

(* group + large unit in a state with a non-empty total, failing state exposed *)
Lemma large_step' w room g u E ipt kt :
  gw_ok w room -> gdigits g -> gz g = false -> large_unit u E ->
  exists rp', rer rp' = 0%N /\
  r_feed C (ss (RNum ipt [] kt) REmpty) (w g ++ [u]) =
  if length (sdig g) + E <=? kt
  then (true, ss (RNum (firstn (length ipt - (length (sdig g) + E)) ipt ++ sdig g ++ repeat 0%N E) [] (room g + E)) REmpty)
  else (false, rp').
Proof.
  intros Hw Hd Hz Hu. destruct (Hw g (RNum ipt [] kt) Hd Hz) as (rp' & Hf & Ht & Hhp & Hhc & Her & Hadd).
  exists rp'. split; [assumption|].
  rewrite r_feed_app, Hf. cbn [r_feed]. rewrite (r_append_large _ _ _ Hu), Hadd. cbn [r_is_empty].
  rewrite r_shift_int, Ht. cbn [r_add]. rewrite app_length, repeat_length.
  destruct (length (sdig g) + E <=? kt); [|reflexivity]. rewrite Hhp, Her. reflexivity.
Qed.

(* the numeral  <group 1> U1 <group 2> U2  with ARBITRARY large units U1 = 10^E1, U2 = 10^E2 (in order, repeated, or
   increasing): accepted iff the digits of group 2 plus E2 fit into room(group 1) + E1; the value is then group 1 with
   group 2 written into its zero positions; otherwise rejected, error state NONE *)

Theorem unit_order_ref w1 room1 w2 room2 g1 u1 E1 g2 u2 E2 :
  gw_ok w1 room1 -> gw_ok w2 room2 -> gdigits g1 -> gdigits g2 -> gz g1 = false -> gz g2 = false ->
  large_unit u1 E1 -> large_unit u2 E2 ->
  if two_unit_fits room1 g1 E1 g2 E2
  then r_parse C (two_unit_text w1 w2 g1 u1 g2 u2) = (true, 0%N, RNum (two_unit_digits g1 E1 g2 E2) [] (room2 g2 + E2))
  else fst (r_parse C (two_unit_text w1 w2 g1 u1 g2 u2)) = (false, 0%N).
Proof.
  intros Hw1 Hw2 Hd1 Hd2 Hz1 Hz2 Hu1 Hu2. unfold r_parse, two_unit_text, two_unit_fits, two_unit_digits.
  change r_new with (ss REmpty REmpty).
  rewrite r_feed_app, (large_step_empty w1 room1 g1 u1 E1 Hw1 Hd1 Hz1 Hu1). cbv beta iota.
  destruct (large_step' w2 room2 g2 u2 E2 (sdig g1 ++ repeat 0%N E1) (room1 g1 + E1) Hw2 Hd2 Hz2 Hu2) as (rp' & Her & ->).
  rewrite app_length, repeat_length.
  destruct (length (sdig g2) + E2 <=? room1 g1 + E1).
  - now rewrite r_done_clean.
  - cbn [fst]. now rewrite Her.
Qed.

Theorem unit_order_std w1 room1 w2 room2 g1 u1 E1 g2 u2 E2 :
  gw_ok w1 room1 -> gw_ok w2 room2 -> gdigits g1 -> gdigits g2 -> gz g1 = false -> gz g2 = false ->
  large_unit u1 E1 -> large_unit u2 E2 ->
  if two_unit_fits room1 g1 E1 g2 E2
  then parse C (two_unit_text w1 w2 g1 u1 g2 u2) = (true, 0%N, map digit_char (two_unit_digits g1 E1 g2 E2))
  else fst (parse C (two_unit_text w1 w2 g1 u1 g2 u2)) = (false, 0%N).
Proof.
  intros Hw1 Hw2 Hd1 Hd2 Hz1 Hz2 Hu1 Hu2.
  pose proof (unit_order_ref w1 room1 w2 room2 g1 u1 E1 g2 u2 E2 Hw1 Hw2 Hd1 Hd2 Hz1 Hz2 Hu1 Hu2) as Hr.
  pose proof (parse_refines_std (two_unit_text w1 w2 g1 u1 g2 u2)) as H.
  destruct (parse C (two_unit_text w1 w2 g1 u1 g2 u2)) as [[ok e] out].
  destruct (two_unit_fits room1 g1 E1 g2 E2).
  - rewrite Hr in H. destruct H as (-> & -> & Hout). rewrite (Hout eq_refl). f_equal. apply render_int.
    unfold two_unit_digits. intros E. apply app_eq_nil in E. destruct E as [_ E]. apply app_eq_nil in E. destruct E as [E _].
    unfold gz in Hz2. now rewrite E in Hz2.
  - destruct (r_parse C (two_unit_text w1 w2 g1 u1 g2 u2)) as [[ok' e'] v]. cbn [fst] in *.
    injection Hr as -> ->. destruct H as (-> & -> & _). reflexivity.
Qed.

Lemma groom_le g : groom g <= 3.
Proof. destruct g as [[[a b] c] d]. unfold groom, groom3. destruct (N.eqb d 0), (N.eqb c 0), (N.eqb b 0); cbn; lia. Qed.

Lemma sdig_nonempty g : gz g = false -> 1 <= length (sdig g).
Proof. unfold gz. destruct (sdig g); [discriminate | cbn; lia]. Qed.

(* an INCREASING large unit (億 after 万, 兆 after 億 or 万) is always rejected, whatever the groups and spellings *)
Corollary increasing_unit_rejected w1 room1 w2 room2 g1 u1 E1 g2 u2 E2 :
  gw_ok w1 room1 -> gw_ok w2 room2 -> gdigits g1 -> gdigits g2 -> gz g1 = false -> gz g2 = false ->
  large_unit u1 E1 -> large_unit u2 E2 -> room1 g1 <= 3 -> E1 < E2 ->
  fst (parse C (two_unit_text w1 w2 g1 u1 g2 u2)) = (false, 0%N).
Proof.
  intros Hw1 Hw2 Hd1 Hd2 Hz1 Hz2 Hu1 Hu2 Hr Hlt.
  pose proof (unit_order_std w1 room1 w2 room2 g1 u1 E1 g2 u2 E2 Hw1 Hw2 Hd1 Hd2 Hz1 Hz2 Hu1 Hu2) as H.
  assert (Hf : two_unit_fits room1 g1 E1 g2 E2 = false).
  { unfold two_unit_fits. pose proof (sdig_nonempty g2 Hz2). apply Nat.leb_gt.
    destruct Hu1 as [[_ ->]|[[_ ->]|[_ ->]]], Hu2 as [[_ ->]|[[_ ->]|[_ ->]]]; lia. }
  now rewrite Hf in H.
Qed.

(* a REPEATED large unit is accepted exactly when group 2 has no more digits than the room left by the last small unit
   of group 1 (0 after a ones digit or Arabic digits: always rejected; 1 / 2 / 3 after 十 / 百 / 千) *)
Corollary repeated_unit_iff w1 room1 w2 room2 g1 u E g2 :
  gw_ok w1 room1 -> gw_ok w2 room2 -> gdigits g1 -> gdigits g2 -> gz g1 = false -> gz g2 = false ->
  large_unit u E ->
  fst (fst (parse C (two_unit_text w1 w2 g1 u g2 u))) = (length (sdig g2) <=? room1 g1).
Proof.
  intros Hw1 Hw2 Hd1 Hd2 Hz1 Hz2 Hu.
  pose proof (unit_order_std w1 room1 w2 room2 g1 u E g2 u E Hw1 Hw2 Hd1 Hd2 Hz1 Hz2 Hu Hu) as H.
  unfold two_unit_fits in H. replace (length (sdig g2) + E <=? room1 g1 + E) with (length (sdig g2) <=? room1 g1) in H
    by (destruct (Nat.leb_spec (length (sdig g2)) (room1 g1)), (Nat.leb_spec (length (sdig g2) + E) (room1 g1 + E)); lia).
  destruct (length (sdig g2) <=? room1 g1); now rewrite H.
Qed.

(* when accepted, the value is the SUM of the two parts (no digit of group 1 is overwritten) *)
Lemma groom_zeros g : gz g = false -> exists h, sdig g = h ++ repeat 0%N (groom g).
Proof.
  destruct g as [[[a b] c] d]. unfold gz, sdig, groom, groom3. cbn [gdig strip].
  destruct (N.eqb_spec a 0) as [->|Ha], (N.eqb_spec b 0) as [->|Hb], (N.eqb_spec c 0) as [->|Hc], (N.eqb_spec d 0) as [->|Hd];
    apply N.eqb_neq in Ha || idtac; apply N.eqb_neq in Hb || idtac; apply N.eqb_neq in Hc || idtac; apply N.eqb_neq in Hd || idtac;
    cbn; rewrite ?Ha, ?Hb, ?Hc, ?Hd; cbn; try discriminate; intros _;
    first [ now exists [] | now (eexists [_]) | now (eexists [_; _]) | now (eexists [_; _; _]) | now (eexists [_; _; _; _]) ].
Qed.

Theorem two_unit_value_is_sum room1 g1 E1 g2 E2 :
  (exists h, sdig g1 = h ++ repeat 0%N (room1 g1)) ->
  two_unit_fits room1 g1 E1 g2 E2 = true ->
  to_N (two_unit_digits g1 E1 g2 E2) = (to_N (sdig g1 ++ repeat 0%N E1) + to_N (sdig g2 ++ repeat 0%N E2))%N.
Proof.
  intros (h & Eh) Hfit. unfold two_unit_fits in Hfit. apply Nat.leb_le in Hfit. unfold two_unit_digits.
  set (x := sdig g2 ++ repeat 0%N E2). assert (Hx : length x = length (sdig g2) + E2) by (unfold x; now rewrite app_length, repeat_length).
  rewrite <- Hx. rewrite Eh, <- app_assoc, repeat_app_add.
  replace (repeat 0%N (room1 g1 + E1)) with (repeat 0%N (room1 g1 + E1 - length x) ++ repeat 0%N (length x))
    by (rewrite repeat_app_add; f_equal; lia).
  rewrite app_assoc. set (hh := h ++ repeat 0%N (room1 g1 + E1 - length x)).
  replace (length (h ++ repeat 0%N (room1 g1)) + E1 - length x) with (length hh)
    by (unfold hh; rewrite !app_length, !repeat_length; lia).
  rewrite firstn_app_exact. symmetry. apply concat_is_sum.
Qed.

(* ------------------------------------------------------------------ (c) thousands separators, (d) fractions *)
Lemma chunk3_spec k : forall l, length l = 3 * k ->
  concat (chunk3 l) = l /\ Forall (fun g => length g = 3) (chunk3 l) /\ (0 < k -> chunk3 l <> []).
Proof.
  induction k as [|k IH]; intros l Hl.
  - destruct l; [|discriminate]. cbn. repeat split; [constructor | lia].
  - destruct l as [|a [|b [|c t]]]; try (cbn in Hl; lia). cbn [chunk3 concat app].
    destruct (IH t) as (H1 & H2 & _); [cbn in Hl; lia|]. rewrite H1. repeat split; [now constructor | discriminate].
Qed.

Lemma Forall2_adigit_groups gs : Forall all_digits gs -> Forall2 (Forall2 digit_of) (map (map adigit) gs) gs.
Proof. induction 1; constructor; [now apply Forall2_adigit | assumption]. Qed.

Lemma all_digits_concat gs : all_digits (concat gs) -> Forall all_digits gs.
Proof.
  induction gs as [|g gs IH]; intros H; constructor; cbn [concat] in H; unfold all_digits in H; rewrite Forall_app in H; [tauto | apply IH; tauto].
Qed.

(* a digit string without leading zero and with more than three digits, written with separators every three digits
   from the right, is accepted and normalised to the digits themselves *)
Theorem grouped_canonical_std ds x t :
  all_digits ds -> ds = x :: t -> x <> 0%N -> 3 < length ds ->
  parse C (grouped_text ds) = (true, 0%N, map digit_char ds).
Proof.
  intros Hd Eds Hx Hlen. unfold grouped_text, groups3.
  set (m := (length ds - 1) mod 3). set (q := (length ds - 1) / 3).
  assert (Hdm : length ds - 1 = 3 * q + m) by (apply Nat.div_mod; lia).
  assert (Hm : m < 3) by (apply Nat.mod_upper_bound; lia).
  set (g0 := firstn (m + 1) ds). set (rest := skipn (m + 1) ds).
  assert (Hrest : length rest = 3 * q) by (unfold rest; rewrite skipn_length; lia).
  assert (Hq : 0 < q) by lia.
  destruct (chunk3_spec q rest Hrest) as (Hc & Hf & Hne).
  assert (Hsplit : g0 ++ rest = ds) by apply firstn_skipn.
  assert (Hd0 : all_digits g0 /\ all_digits rest) by (unfold all_digits in *; rewrite <- Hsplit, Forall_app in Hd; exact Hd).
  assert (Hok : groups_ok g0 (chunk3 rest) = true).
  { apply groups_ok_spec; [now apply Hne|]. split; [|split; [|assumption]].
    - unfold g0. rewrite firstn_length. lia.
    - unfold g0. rewrite Eds. replace (m + 1) with (S m) by lia. cbn [firstn all_zero forallb].
      destruct (N.eqb_spec x 0); [contradiction | reflexivity]. }
  pose proof (grouped_std (map adigit g0) g0 (map (map adigit) (chunk3 rest)) (chunk3 rest)
                (Forall2_adigit _ (proj1 Hd0))
                (Forall2_adigit_groups _ (all_digits_concat _ (eq_ind_r all_digits (proj2 Hd0) Hc)))
                (Hne Hq)) as H.
  cbv zeta in H. rewrite Hok, map_map in H. rewrite H, Hc, Hsplit. reflexivity.
Qed.

Theorem grouped_canonical cfg ds x t :
  cfg = std_cfg -> all_digits ds -> ds = x :: t -> x <> 0%N -> 3 < length ds ->
  parse cfg (grouped_text ds) = (true, 0%N, map digit_char ds).
Proof. intros ->. apply grouped_canonical_std. Qed.

(* as a statement about values: 1000 <= n < 10^16 written with separators *)
Theorem grouped_value cfg n :
  cfg = std_cfg -> (1000 <= n < 10 ^ 16)%N -> parse cfg (grouped_text (dec16 n)) = (true, 0%N, map digit_char (dec16 n)).
Proof.
  intros -> Hn. destruct (dec16_spec n) as (Hv & Hd & x & t & E & Hx); [lia|].
  apply (grouped_canonical_std _ x t Hd E Hx).
  pose proof (to_N_bound _ Hd) as Hb. rewrite Hv in Hb.
  destruct (Nat.le_gt_cases (length (dec16 n)) 3) as [Hle|]; [exfalso | assumption].
  assert (10 ^ N.of_nat (length (dec16 n)) <= 10 ^ 3)%N by (apply N.pow_le_mono_r; lia).
  change (10 ^ 3)%N with 1000%N in *. lia.
Qed.

(* (d) integer digits '.' fraction digits *)
Theorem fraction_canonical cfg ip fp :
  cfg = std_cfg -> all_digits ip -> all_digits fp -> ip <> [] -> fp <> [] ->
  parse cfg (fraction_text ip fp) = (true, 0%N, render (ip, fp)).
Proof.
  intros -> Hi Hf Hni Hnf. unfold fraction_text.
  apply (fraction_std _ _ _ _ (Forall2_adigit _ Hi) (Forall2_adigit _ Hf) Hni Hnf).
Qed.

(* generic forms of the unit-order statements *)
Theorem unit_order cfg w1 room1 w2 room2 g1 u1 E1 g2 u2 E2 :
  cfg = std_cfg ->
  gw_ok w1 room1 -> gw_ok w2 room2 -> gdigits g1 -> gdigits g2 -> gz g1 = false -> gz g2 = false ->
  large_unit u1 E1 -> large_unit u2 E2 ->
  if two_unit_fits room1 g1 E1 g2 E2
  then parse cfg (two_unit_text w1 w2 g1 u1 g2 u2) = (true, 0%N, map digit_char (two_unit_digits g1 E1 g2 E2))
  else fst (parse cfg (two_unit_text w1 w2 g1 u1 g2 u2)) = (false, 0%N).
Proof. intros ->. apply unit_order_std. Qed.

Theorem increasing_unit_rejected_g cfg w1 room1 w2 room2 g1 u1 E1 g2 u2 E2 :
  cfg = std_cfg ->
  gw_ok w1 room1 -> gw_ok w2 room2 -> gdigits g1 -> gdigits g2 -> gz g1 = false -> gz g2 = false ->
  large_unit u1 E1 -> large_unit u2 E2 -> room1 g1 <= 3 -> E1 < E2 ->
  fst (parse cfg (two_unit_text w1 w2 g1 u1 g2 u2)) = (false, 0%N).
Proof. intros ->. apply increasing_unit_rejected. Qed.

Theorem repeated_unit_iff_g cfg w1 room1 w2 room2 g1 u E g2 :
  cfg = std_cfg ->
  gw_ok w1 room1 -> gw_ok w2 room2 -> gdigits g1 -> gdigits g2 -> gz g1 = false -> gz g2 = false ->
  large_unit u E ->
  fst (fst (parse cfg (two_unit_text w1 w2 g1 u g2 u))) = (length (sdig g2) <=? room1 g1).
Proof. intros ->. apply repeated_unit_iff. Qed.
