(* The reference evaluator (hence, by parse_refines, the model parser) assigns to every canonical writing of a value
   the decimal rendering of that value; behaviour at repeated / increasing large units. *)
From Coq Require Import List NArith ZArith Bool Arith Lia ZifyBool ZifyNat ZifyN.
From SudachiVerif Require Import Model.Numeric Model.NumericRef Model.NumericCanon
     Proofs.NumericProofs Proofs.NumericRefProofs Proofs.NumericGrouped.
Import ListNotations.
Close Scope N_scope.

Arguments N.add : simpl never.
Arguments N.mul : simpl never.
Arguments N.ltb : simpl never.
Arguments N.leb : simpl never.
Arguments N.eqb : simpl never.
Arguments N.div : simpl never.
Arguments N.modulo : simpl never.
Arguments N.pow : simpl never.

Notation C := std_cfg.

(* ------------------------------------------------------------------ reference parser: single steps *)
(* clean state between groups: total tot, subtotal s, nothing being read *)
Definition ss (tot s : rnum) : rparser := mkRP 0 true false false 0%N tot s [] None.

Lemma r_feed_app rp a b :
  r_feed C rp (a ++ b) = (let '(ok, rp') := r_feed C rp a in if ok then r_feed C rp' b else (false, rp')).
Proof.
  revert rp. induction a as [|c a IH]; intros rp; cbn [app r_feed]; [reflexivity|].
  destruct (r_append C rp c) as [[|] rp']; [apply IH | reflexivity].
Qed.

Lemma digit_cases d : (d < 10)%N -> d = 0%N \/ d = 1%N \/ d = 2%N \/ d = 3%N \/ d = 4%N \/ d = 5%N \/ d = 6%N \/ d = 7%N \/ d = 8%N \/ d = 9%N.
Proof. lia. Qed.

Lemma digit_of_cdigit ar d : (d < 10)%N -> digit_of (cdigit ar d) d.
Proof.
  intros H. destruct (digit_cases d H) as [E|[E|[E|[E|[E|[E|[E|[E|[E|E]]]]]]]]]; subst d; destruct ar;
    (split; [vm_compute; reflexivity | lia]).
Qed.

Lemma r_append_digit rp c d :
  digit_of c d -> rfp rp = None ->
  r_append C rp c = (true, mkRP (S (rdl rp)) false (rhc rp) false (rer rp) (rtot rp) (rsub rp) (rip rp ++ [d]) None).
Proof.
  intros Hd Hfp. destruct (digit_not_sep _ _ Hd) as [H46 H44]. destruct Hd as [Hl Hlt].
  unfold r_append. cbn [point_c comma_c table C].
  destruct (N.eqb_spec c 46); [contradiction|]. destruct (N.eqb_spec c 44); [contradiction|].
  rewrite Hl. unfold is_small_unit, is_large_unit. cbn [small_lo small_hi large_below C].
  replace (Z.ltb (Z.of_N d) 0) with false by lia. rewrite andb_false_r.
  replace (Z.ltb (Z.of_N d) (-3)) with false by lia. now rewrite N2Z.id, Hfp.
Qed.

Definition r_after (rp : rparser) (ds : list N) : rparser :=
  match ds with
  | [] => rp
  | _ => mkRP (rdl rp + length ds) false (rhc rp) false (rer rp) (rtot rp) (rsub rp) (rip rp ++ ds) None
  end.

Lemma r_feed_digits cs ds : Forall2 digit_of cs ds -> forall rp, rfp rp = None -> r_feed C rp cs = (true, r_after rp ds).
Proof.
  induction 1 as [|c d cs ds Hd _ IH]; intros rp Hfp; [reflexivity|].
  cbn [r_feed]. rewrite (r_append_digit _ _ _ Hd Hfp). rewrite IH by reflexivity. f_equal.
  destruct ds as [|d' ds']; cbn [r_after rdl rhc rer rtot rsub rip length].
  - now rewrite Nat.add_1_r.
  - rewrite <- app_assoc. cbn [app]. f_equal. lia.
Qed.

Definition small_unit (u : N) (e : nat) : Prop := (u = U1000 /\ e = 3) \/ (u = U100 /\ e = 2) \/ (u = U10 /\ e = 1).
Definition large_unit (u : N) (e : nat) : Prop := (u = UCHO /\ e = 12) \/ (u = UOKU /\ e = 8) \/ (u = UMAN /\ e = 4).

Lemma r_append_small rp u e :
  small_unit u e ->
  r_append C rp u =
  match r_add (rsub rp) (r_shift (r_tmp rp) e) with
  | Some s' => (true, mkRP 0 true false (rhp rp) (rer rp) (rtot rp) s' [] None)
  | None => (false, rp)
  end.
Proof. intros [[-> ->]|[[-> ->]|[-> ->]]]; reflexivity. Qed.

Lemma r_append_large rp u e :
  large_unit u e ->
  r_append C rp u =
  match r_add (rsub rp) (r_tmp rp) with
  | None => (false, rp)
  | Some s' =>
      if r_is_empty s' then (false, rp)
      else match r_add (rtot rp) (r_shift s' e) with
           | Some tl => (true, mkRP 0 true false (rhp rp) (rer rp) tl REmpty [] None)
           | None => (false, rp)
           end
  end.
Proof. intros [[-> ->]|[[-> ->]|[-> ->]]]; reflexivity. Qed.

(* ------------------------------------------------------------------ one coefficient + small unit *)
Definition slot_num (x : N) (e : nat) : rnum := RNum (x :: repeat 0%N e) [] e.

Lemma dshift_nil ip j : dshift (ip, []) j = (ip ++ repeat 0%N j, []).
Proof. unfold dshift. cbn [fst snd app]. now rewrite firstn_repeat, Nat.min_id, skipn_nil. Qed.

Lemma r_shift_int ip k j : r_shift (RNum ip [] k) j = RNum (ip ++ repeat 0%N j) [] (k + j).
Proof. unfold r_shift. rewrite dshift_nil. cbn [fst snd length]. now rewrite Nat.sub_0_r. Qed.

Lemma slot_feed ex ar u e x tot s s' :
  small_unit u e -> (x < 10)%N -> x <> 0%N -> r_add s (slot_num x e) = Some s' ->
  r_feed C (ss tot s) (coef_text ex ar u x) = (true, ss tot s').
Proof.
  intros Hu Hx Hnz Hadd. unfold coef_text. destruct (N.eqb_spec x 0); [contradiction|].
  destruct (N.eqb x 1 && negb ex) eqn:E1.
  - apply andb_prop in E1. destruct E1 as [E1 _]. apply N.eqb_eq in E1. subst x.
    cbn [r_feed]. rewrite (r_append_small _ _ _ Hu). unfold ss. cbn [rsub r_tmp rip r_shift rhp rer rtot].
    change (RNum (1%N :: repeat 0%N e) [] e) with (slot_num 1 e). now rewrite Hadd.
  - cbn [r_feed]. rewrite (r_append_digit _ _ x (digit_of_cdigit ar x Hx)) by reflexivity.
    rewrite (r_append_small _ _ _ Hu). unfold ss. cbn [rsub r_tmp rip app rfp frac_of rhp rer rtot rdl rhc].
    rewrite r_shift_int. cbn [app Nat.add]. fold (slot_num x e). now rewrite Hadd.
Qed.

Lemma coef_text_zero ex ar u : coef_text ex ar u 0 = [].
Proof. reflexivity. Qed.

(* ------------------------------------------------------------------ one group with kanji units *)
Definition groom3 (a b c : N) : nat := if negb (N.eqb c 0) then 1 else if negb (N.eqb b 0) then 2 else 3.
Definition gsub (a b c : N) : rnum :=
  match strip [a; b; c] with [] => REmpty | _ => RNum (strip [a; b; c; 0%N]) [] (groom3 a b c) end.
(* state after the text of the group *)
Definition gstate (tot : rnum) (g : grp) : rparser :=
  let '(a, b, c, d) := g in
  if N.eqb d 0 then ss tot (gsub a b c) else mkRP 1 false false false 0%N tot (gsub a b c) [d] None.
Definition groom (g : grp) : nat := let '(a, b, c, d) := g in if N.eqb d 0 then groom3 a b c else 0.

Definition gdigits (g : grp) : Prop := let '(a, b, c, d) := g in (a < 10 /\ b < 10 /\ c < 10 /\ d < 10)%N.

Lemma su1000 : small_unit U1000 3. Proof. left; split; reflexivity. Qed.
Lemma su100 : small_unit U100 2. Proof. right; left; split; reflexivity. Qed.
Lemma su10 : small_unit U10 1. Proof. right; right; split; reflexivity. Qed.

(* the subtotal after the 千, 百, 十 slots, as the evaluator builds it *)
Definition opt_get (o : option rnum) : rnum := match o with Some s => s | None => REmpty end.
Definition s1 (a : N) : rnum := if N.eqb a 0 then REmpty else slot_num a 3.
Definition s2 (a b : N) : rnum := if N.eqb b 0 then s1 a else opt_get (r_add (s1 a) (slot_num b 2)).
Definition s3 (a b c : N) : rnum := if N.eqb c 0 then s2 a b else opt_get (r_add (s2 a b) (slot_num c 1)).

Lemma s1_add a : a <> 0%N -> r_add REmpty (slot_num a 3) = Some (s1 a).
Proof. intros H. unfold s1. destruct (N.eqb_spec a 0); [contradiction | reflexivity]. Qed.

Lemma s2_add a b : b <> 0%N -> r_add (s1 a) (slot_num b 2) = Some (s2 a b).
Proof.
  intros H. unfold s2. destruct (N.eqb_spec b 0); [contradiction|].
  unfold s1. destruct (N.eqb a 0); reflexivity.
Qed.

Lemma s3_add a b c : c <> 0%N -> r_add (s2 a b) (slot_num c 1) = Some (s3 a b c).
Proof.
  intros H. unfold s3. destruct (N.eqb_spec c 0); [contradiction|].
  unfold s2, s1. destruct (N.eqb a 0), (N.eqb b 0); reflexivity.
Qed.

Lemma s3_gsub a b c : s3 a b c = gsub a b c.
Proof.
  unfold s3, s2, s1, gsub, groom3. cbn [strip].
  destruct (N.eqb_spec a 0) as [->|Ha], (N.eqb_spec b 0) as [->|Hb], (N.eqb_spec c 0) as [->|Hc];
    apply N.eqb_neq in Ha || idtac; apply N.eqb_neq in Hb || idtac; apply N.eqb_neq in Hc || idtac;
    cbn; rewrite ?Ha, ?Hb, ?Hc; reflexivity.
Qed.

Lemma slot_feed' ex ar u e x tot s s' :
  small_unit u e -> (x < 10)%N -> (x <> 0%N -> r_add s (slot_num x e) = Some s') ->
  r_feed C (ss tot s) (coef_text ex ar u x) = (true, ss tot (if N.eqb x 0 then s else s')).
Proof.
  intros Hu Hx Hadd. destruct (N.eqb_spec x 0) as [->|Hnz]; [reflexivity|].
  apply (slot_feed ex ar u e x tot s s' Hu Hx Hnz (Hadd Hnz)).
Qed.

Lemma kanji_group_feed st g tot :
  gdigits g -> r_feed C (ss tot REmpty) (kanji_group st g) = (true, gstate tot g).
Proof.
  destruct g as [[[a b] c] d]. intros (Ha & Hb & Hc & Hd). unfold kanji_group, gstate. rewrite <- s3_gsub.
  rewrite r_feed_app, (slot_feed' _ _ _ _ a tot REmpty (s1 a) su1000 Ha (s1_add a)).
  replace (if N.eqb a 0 then REmpty else s1 a) with (s1 a) by (unfold s1; now destruct (N.eqb a 0)).
  rewrite r_feed_app, (slot_feed' _ _ _ _ b tot (s1 a) (s2 a b) su100 Hb (s2_add a b)).
  replace (if N.eqb b 0 then s1 a else s2 a b) with (s2 a b) by (unfold s2; now destruct (N.eqb b 0)).
  rewrite r_feed_app, (slot_feed' _ _ _ _ c tot (s2 a b) (s3 a b c) su10 Hc (s3_add a b c)).
  replace (if N.eqb c 0 then s2 a b else s3 a b c) with (s3 a b c) by (unfold s3; now destruct (N.eqb c 0)).
  destruct (N.eqb d 0); [reflexivity|].
  cbn [r_feed]. now rewrite (r_append_digit _ _ d (digit_of_cdigit _ d Hd)) by reflexivity.
Qed.

(* ------------------------------------------------------------------ lists of digits *)
Lemma strip_app X Y : strip (X ++ Y) = match strip X with [] => strip Y | D => D ++ Y end.
Proof.
  induction X as [|x X IH]; [reflexivity|]. cbn [app strip]. destruct (N.eqb x 0); [apply IH | reflexivity].
Qed.

Lemma strip_pad l : l = repeat 0%N (length l - length (strip l)) ++ strip l.
Proof.
  induction l as [|x l IH]; [reflexivity|]. cbn [strip]. destruct (N.eqb_spec x 0) as [->|H].
  - pose proof (f_equal (@length N) IH) as HL. rewrite app_length, repeat_length in HL.
    cbn [length]. replace (S (length l) - length (strip l)) with (S (length l - length (strip l))) by lia.
    cbn [repeat app]. now rewrite <- IH.
  - cbn [length]. now rewrite Nat.sub_diag.
Qed.

Lemma strip_length l : length (strip l) <= length l.
Proof. induction l as [|x l IH]; [reflexivity|]. cbn [strip]. destruct (N.eqb x 0); cbn [length]; lia. Qed.

Lemma strip_digits l : all_digits l -> all_digits (strip l).
Proof. induction 1 as [|x l Hx Hl IH]; [constructor|]. cbn [strip]. destruct (N.eqb x 0); [assumption | now constructor]. Qed.

Lemma strip_head l x t : strip l = x :: t -> x <> 0%N.
Proof.
  induction l as [|y l IH]; [discriminate|]. cbn [strip]. destruct (N.eqb_spec y 0); [apply IH|]. now intros [= <- _].
Qed.

Lemma sdig_length g : length (sdig g) <= 4.
Proof. unfold sdig. etransitivity; [apply strip_length|]. destruct g as [[[a b] c] d]. reflexivity. Qed.

Lemma gdig_pad g : gdig g = repeat 0%N (4 - length (sdig g)) ++ sdig g.
Proof. unfold sdig. rewrite (strip_pad (gdig g)) at 1. destruct g as [[[a b] c] d]. reflexivity. Qed.

Lemma gdigits_all g : gdigits g -> all_digits (gdig g).
Proof. destruct g as [[[a b] c] d]. intros (Ha & Hb & Hc & Hd). repeat constructor; assumption. Qed.

(* ------------------------------------------------------------------ group writers *)
(* the number a group contributes: its digits without leading zeros, and the room below its last small unit *)
Lemma kanji_group_num tot g :
  gz g = false ->
  r_add (rsub (gstate tot g)) (r_tmp (gstate tot g)) = Some (RNum (sdig g) [] (groom g)).
Proof.
  destruct g as [[[a b] c] d]. unfold gz, sdig, gstate, groom, gsub, groom3. cbn [gdig strip].
  destruct (N.eqb_spec a 0) as [->|Ha], (N.eqb_spec b 0) as [->|Hb], (N.eqb_spec c 0) as [->|Hc], (N.eqb_spec d 0) as [->|Hd];
    apply N.eqb_neq in Ha || idtac; apply N.eqb_neq in Hb || idtac; apply N.eqb_neq in Hc || idtac; apply N.eqb_neq in Hd || idtac;
    cbn; rewrite ?Ha, ?Hb, ?Hc, ?Hd; cbn; try discriminate; intros _; reflexivity.
Qed.

(* a group writer: from a clean state it leads to a state whose subtotal + number being read is the group's number *)
Definition gw_ok (w : grp -> list N) (room : grp -> nat) : Prop :=
  forall g tot, gdigits g -> gz g = false ->
  exists rp', r_feed C (ss tot REmpty) (w g) = (true, rp') /\ rtot rp' = tot /\ rhp rp' = false /\ rhc rp' = false /\
              rer rp' = 0%N /\ r_add (rsub rp') (r_tmp rp') = Some (RNum (sdig g) [] (room g)).

Lemma kanji_group_ok st : gw_ok (kanji_group st) groom.
Proof.
  intros g tot Hd Hz. exists (gstate tot g). split; [now apply kanji_group_feed|].
  split; [|split; [|split; [|split; [|now apply kanji_group_num]]]];
    destruct g as [[[a b] c] d]; unfold gstate; destruct (N.eqb d 0); reflexivity.
Qed.

Lemma Forall2_adigit ds : all_digits ds -> Forall2 digit_of (map adigit ds) ds.
Proof. induction 1 as [|d ds Hd _ IH]; constructor; [exact (digit_of_cdigit true d Hd) | assumption]. Qed.

Lemma arabic_group_ok : gw_ok arabic_group (fun _ => 0).
Proof.
  intros g tot Hd Hz. unfold arabic_group.
  assert (Hds : all_digits (sdig g)) by (apply strip_digits, gdigits_all, Hd).
  rewrite (r_feed_digits _ _ (Forall2_adigit _ Hds)) by reflexivity.
  unfold gz in Hz. destruct (sdig g) as [|x t] eqn:E; [discriminate|].
  eexists; split; [reflexivity|]. cbn [r_after ss rtot rhp rhc rer rsub rip app r_tmp rfp frac_of r_add]. repeat split.
Qed.

Lemma group_writer_ok kinds sty i :
  gw_ok (group_writer kinds sty i) (if kinds i then (fun _ => 0) else groom).
Proof. unfold group_writer. destruct (kinds i); [apply arabic_group_ok | apply kanji_group_ok]. Qed.

(* ------------------------------------------------------------------ a large unit after a group *)
(* In ANY state with a non-empty total of room kt: the group followed by the large unit 10^E is accepted iff the digits of
   the group plus E fit into the room; then the group is written into the zero positions of the total (exact addition,
   see r_add_exact); otherwise the parser rejects without an error state. *)
Lemma large_step w room g u E ipt kt :
  gw_ok w room -> gdigits g -> gz g = false -> large_unit u E ->
  r_feed C (ss (RNum ipt [] kt) REmpty) (w g ++ [u]) =
  if length (sdig g) + E <=? kt
  then (true, ss (RNum (firstn (length ipt - (length (sdig g) + E)) ipt ++ sdig g ++ repeat 0%N E) [] (room g + E)) REmpty)
  else (false, snd (r_feed C (ss (RNum ipt [] kt) REmpty) (w g ++ [u]))).
Proof.
  intros Hw Hd Hz Hu. destruct (Hw g (RNum ipt [] kt) Hd Hz) as (rp' & Hf & Ht & Hhp & Hhc & Her & Hadd).
  rewrite r_feed_app, Hf. cbn [r_feed]. rewrite (r_append_large _ _ _ Hu), Hadd. cbn [r_is_empty].
  rewrite r_shift_int, Ht. cbn [r_add]. rewrite app_length, repeat_length.
  destruct (length (sdig g) + E <=? kt); [|reflexivity].
  rewrite Hhp, Her. reflexivity.
Qed.

Lemma large_step_empty w room g u E :
  gw_ok w room -> gdigits g -> gz g = false -> large_unit u E ->
  r_feed C (ss REmpty REmpty) (w g ++ [u]) = (true, ss (RNum (sdig g ++ repeat 0%N E) [] (room g + E)) REmpty).
Proof.
  intros Hw Hd Hz Hu. destruct (Hw g REmpty Hd Hz) as (rp' & Hf & Ht & Hhp & Hhc & Her & Hadd).
  rewrite r_feed_app, Hf. cbn [r_feed]. rewrite (r_append_large _ _ _ Hu), Hadd. cbn [r_is_empty].
  rewrite r_shift_int, Ht. cbn [r_add]. now rewrite Hhp, Her.
Qed.

(* ------------------------------------------------------------------ the total while the groups are read in order *)
(* X: the digits (four per group, zero groups included) of the groups read so far; E: exponent of the last position *)
Definition tinv (tot : rnum) (X : list N) (E : nat) : Prop :=
  match strip X with
  | [] => tot = REmpty
  | D => exists kt, E <= kt /\ tot = RNum (D ++ repeat 0%N E) [] kt
  end.

Lemma tinv_step w room g u E tot X :
  gw_ok w room -> gdigits g -> large_unit u E -> tinv tot X (E + 4) ->
  exists tot', r_feed C (ss tot REmpty) (part w g u) = (true, ss tot' REmpty) /\ tinv tot' (X ++ gdig g) E.
Proof.
  intros Hw Hd Hu Hinv. unfold part, tinv in *. rewrite strip_app. fold (sdig g).
  destruct (gz g) eqn:Hz.
  - (* nothing is written for a zero group *)
    exists tot. split; [reflexivity|]. unfold gz in Hz. destruct (sdig g) eqn:Es; [|discriminate].
    assert (Hg : gdig g = repeat 0%N 4) by (rewrite (gdig_pad g), Es; reflexivity).
    destruct (strip X) as [|x D]; [assumption|]. destruct Hinv as (kt & Hk & ->). exists kt. split; [lia|].
    rewrite Hg. change (x :: D ++ repeat 0%N 4) with ((x :: D) ++ repeat 0%N 4).
    rewrite <- app_assoc, repeat_app_add. now replace (4 + E) with (E + 4) by lia.
  - assert (Hne : sdig g <> []) by (unfold gz in Hz; destruct (sdig g); [discriminate | discriminate]).
    pose proof (sdig_length g) as Hlen.
    destruct (strip X) as [|x D] eqn:EX.
    + subst tot. rewrite (large_step_empty w room g u E Hw Hd Hz Hu). eexists; split; [reflexivity|].
      destruct (sdig g) eqn:Es; [contradiction|]. exists (room g + E). split; [lia | reflexivity].
    + destruct Hinv as (kt & Hk & ->). rewrite (large_step w room g u E _ kt Hw Hd Hz Hu).
      destruct (Nat.leb_spec (length (sdig g) + E) kt); [|lia].
      eexists; split; [reflexivity|]. exists (room g + E). split; [lia|]. f_equal.
      rewrite app_length, repeat_length.
      replace (length (x :: D) + (E + 4) - (length (sdig g) + E)) with (length (x :: D) + (4 - length (sdig g))) by lia.
      rewrite firstn_app_2, firstn_repeat. replace (Nat.min (4 - length (sdig g)) (E + 4)) with (4 - length (sdig g)) by lia.
      rewrite (gdig_pad g). change (x :: D ++ ?a) with ((x :: D) ++ a). now rewrite <- !app_assoc.
Qed.

(* the last group and done() *)
Lemma tinv_done w room g tot X :
  gw_ok w room -> gdigits g -> tinv tot X 4 -> strip (X ++ gdig g) <> [] ->
  exists rp k, r_feed C (ss tot REmpty) (if gz g then [] else w g) = (true, rp) /\
               r_done C rp = (true, 0%N, RNum (strip (X ++ gdig g)) [] k).
Proof.
  intros Hw Hd Hinv Hnz. unfold tinv in *. rewrite strip_app in *. fold (sdig g) in *.
  destruct (gz g) eqn:Hz.
  - unfold gz in Hz. destruct (sdig g) eqn:Es; [|discriminate].
    assert (Hg : gdig g = repeat 0%N 4) by (rewrite (gdig_pad g), Es; reflexivity).
    destruct (strip X) as [|x D]; [contradiction|]. destruct Hinv as (kt & Hk & ->).
    exists (ss (RNum ((x :: D) ++ repeat 0%N 4) [] kt) REmpty), kt. split; [reflexivity|]. now rewrite Hg.
  - assert (Hne : sdig g <> []) by (unfold gz in Hz; destruct (sdig g); [discriminate | discriminate]).
    pose proof (sdig_length g) as Hlen.
    destruct (Hw g tot Hd Hz) as (rp' & Hf & Ht & Hhp & Hhc & Her & Hadd).
    exists rp'. unfold r_done. rewrite Hadd, Ht, Hhp, Hhc, Her. cbn [andb].
    destruct (strip X) as [|x D] eqn:EX.
    + subst tot. exists (room g). split; [assumption|]. cbn [r_add]. destruct (sdig g); [contradiction | reflexivity].
    + destruct Hinv as (kt & Hk & ->). exists (room g). split; [assumption|]. cbn [r_add].
      destruct (Nat.leb_spec (length (sdig g)) kt); [|lia]. do 2 f_equal.
      rewrite app_length, repeat_length.
      replace (length (x :: D) + 4 - length (sdig g)) with (length (x :: D) + (4 - length (sdig g))) by lia.
      rewrite firstn_app_2, firstn_repeat. replace (Nat.min (4 - length (sdig g)) 4) with (4 - length (sdig g)) by lia.
      rewrite (gdig_pad g). now rewrite <- !app_assoc.
Qed.

Lemma lu_cho : large_unit UCHO 12. Proof. left; split; reflexivity. Qed.
Lemma lu_oku : large_unit UOKU 8. Proof. right; left; split; reflexivity. Qed.
Lemma lu_man : large_unit UMAN 4. Proof. right; right; split; reflexivity. Qed.

(* the whole numeral: four groups, each with its own writer *)
Theorem wnum_value (w : nat -> grp -> list N) (room : nat -> grp -> nat) g3 g2 g1 g0 :
  (forall i, gw_ok (w i) (room i)) ->
  gdigits g3 -> gdigits g2 -> gdigits g1 -> gdigits g0 ->
  strip (gdig g3 ++ gdig g2 ++ gdig g1 ++ gdig g0) <> [] ->
  exists k, r_parse C (wnum w (g3, g2, g1, g0)) =
            (true, 0%N, RNum (strip (gdig g3 ++ gdig g2 ++ gdig g1 ++ gdig g0)) [] k).
Proof.
  intros Hw H3 H2 H1 H0 Hnz. unfold r_parse, wnum. change (r_new) with (ss REmpty REmpty).
  destruct (tinv_step (w 3) (room 3) g3 UCHO 12 REmpty [] (Hw 3) H3 lu_cho) as (t3 & F3 & I3); [reflexivity|].
  destruct (tinv_step (w 2) (room 2) g2 UOKU 8 t3 _ (Hw 2) H2 lu_oku I3) as (t2 & F2 & I2).
  destruct (tinv_step (w 1) (room 1) g1 UMAN 4 t2 _ (Hw 1) H1 lu_man I2) as (t1 & F1 & I1).
  cbn [app] in I1. rewrite <- !app_assoc in I1.
  destruct (tinv_done (w 0) (room 0) g0 t1 _ (Hw 0) H0 I1) as (rp & k & F0 & D0); [now rewrite <- !app_assoc|].
  exists k. rewrite r_feed_app, F3. cbv beta iota. rewrite r_feed_app, F2. cbv beta iota.
  rewrite r_feed_app, F1. cbv beta iota. rewrite F0. now rewrite <- !app_assoc in D0.
Qed.
