(* Python: Dictionary.create(mode=C, fields=F) followed by Morpheme.split(X).  When F names split_a / split_b (or there is no
   fields argument) the tokenizer's loaded field set contains the split list of X and head_word_length, and the word infos it
   loads report that split list and head_word_length exactly as the full word info does -- which is what the source-level
   theorems of Proofs/SplitDict.v speak about.  Built from the parser lemmas of Proofs/PyProjectionProofs.v (builder G) and
   the subset lemmas of Proofs/CodecProofs.v (builder B). *)
From Coq Require Import List NArith Bool String Lia.
From SudachiVerif Require Import Model.Harness Model.Codec Model.PyProjection Proofs.CodecProofs Proofs.PyProjectionProofs.
From SudachiVerif Require Generated.PyFacts Generated.FieldOrder.
Import ListNotations.
Open Scope string_scope.
Open Scope list_scope.
Open Scope N_scope.

Definition split_field (a : bool) : string := if a then "split_a" else "split_b".
Definition split_acc (a : bool) : acc := if a then A_a else A_b.

(* fact obligation on the name -> flag table of python/src/dictionary.rs parse_field_subset: the four names this property and
   its neighbours depend on map to their own InfoSubset flags, and no other name maps to one of these flags *)
Definition split_field_names_ok_of (tbl : list (string * string)) : bool :=
  forallb (fun p => match assoc (fst p) tbl with Some f => String.eqb f (snd p) | None => false end)
          [("split_a", "SPLIT_A"); ("split_b", "SPLIT_B"); ("word_structure", "WORD_STRUCTURE"); ("synonym_group_id", "SYNONYM_GROUP_ID")] &&
  forallb (fun f => Nat.eqb (List.length (filter (fun p => String.eqb (snd p) f) tbl)) 1)
          ["SPLIT_A"; "SPLIT_B"; "WORD_STRUCTURE"; "SYNONYM_GROUP_ID"].
Definition split_field_names_ok : bool := split_field_names_ok_of Generated.PyFacts.field_names.

(* decidable obligation on the regenerated closure rules of InfoSubset::normalize: a request for a split list also loads
   head_word_length (the iterator needs it for the boundaries of the parts) *)
Definition hw_closure_ok : bool :=
  forallb (fun s => implb (N.testbit s 6 || N.testbit s 7) (N.testbit (normalize s) 1)) (below 1024).

Lemma mask_spec_bit : forall names m n b,
  mask_spec names = Some m -> In n names -> flag_bit_of_field n = Some b -> N.testbit m b = true.
Proof.
  induction names as [|x names IH]; cbn [mask_spec]; intros m n b H Hin Hb; [destruct Hin|].
  destruct (flag_bit_of_field x) as [bx|] eqn:Ex; [|discriminate].
  destruct (mask_spec names) as [m'|] eqn:Em; [|discriminate]. injection H as <-.
  rewrite N.lor_spec. destruct Hin as [->|Hin].
  - rewrite Hb in Ex. injection Ex as <-. change (N.pos (Pos.shiftl 1 b)) with (N.shiftl 1 b). replace (N.shiftl 1 b) with (2 ^ b) by (symmetry; apply N.shiftl_1_l). rewrite N.pow2_bits_eqb, N.eqb_refl. reflexivity.
  - rewrite (IH _ _ _ eq_refl Hin Hb). apply orb_true_r.
Qed.

Lemma lor_lt_1024 a b : a < 1024 -> b < 1024 -> N.lor a b < 1024.
Proof.
  intros Ha Hb. destruct (N.eq_dec (N.lor a b) 0) as [->|Hne]; [reflexivity|].
  change 1024 with (2 ^ 10). apply N.log2_lt_pow2; [lia|]. rewrite N.log2_lor. apply N.max_lub_lt.
  - destruct (N.eq_dec a 0) as [->|Hn]; [reflexivity|]. apply N.log2_lt_pow2; [lia|exact Ha].
  - destruct (N.eq_dec b 0) as [->|Hn]; [reflexivity|]. apply N.log2_lt_pow2; [lia|exact Hb].
Qed.

Lemma flag_bit_lt n b : flag_bit_of_field n = Some b -> N.shiftl 1 b < 1024.
Proof.
  unfold flag_bit_of_field.
  repeat (match goal with |- context [String.eqb n ?s] => destruct (String.eqb n s) end;
          [intro H; injection H as <-; reflexivity|]).
  discriminate.
Qed.

Lemma mask_spec_lt : forall names m, mask_spec names = Some m -> m < 1024.
Proof.
  induction names as [|x names IH]; cbn [mask_spec]; intros m H; [injection H as <-; reflexivity|].
  destruct (flag_bit_of_field x) as [bx|] eqn:Ex; [|discriminate].
  destruct (mask_spec names) as [m'|] eqn:Em; [|discriminate]. injection H as <-.
  apply lor_lt_1024; [exact (flag_bit_lt _ _ Ex)|apply IH; reflexivity].
Qed.

Lemma required_lt : py_facts_ok -> forall k, (match k with Some k => required_subset k | None => 0 end) < 1024.
Proof.
  intros (_ & Hr & _ & _ & _ & _ & _ & _ & _ & _ & _ & _ & _ & Hb) k.
  destruct k as [k|]; [|reflexivity]. unfold required_subset. rewrite Hr, Hb. destruct k; reflexivity.
Qed.

Theorem python_fields_load_split_list :
  py_facts_ok -> reader_facts_ok -> closure_ok = true -> hw_closure_ok = true ->
  forall (fields : option (list string)) (k : option pkind) (a : bool) (m : N),
    parse_field_subset fields = Some m ->
    match fields with None => True | Some names => In (split_field a) names end ->
    let L := loaded_subset m k in
    N.testbit L (acc_flag (split_acc a)) = true /\ N.testbit L (acc_flag A_hwlen) = true /\
    forall lx has_syn wid iA,
      lex_ok lx -> get_word_info lx has_syn wid ALL = Some iA ->
      exists iS, get_word_info lx has_syn wid L = Some iS /\
                 accessor (split_acc a) iS = accessor (split_acc a) iA /\
                 accessor A_hwlen iS = accessor A_hwlen iA.
Proof.
  intros HP HR HC HW fields k a m Hparse Hin L.
  destruct (fields_spec HP) as (_ & Hnone & Hsome).
  set (s := create_subset m k).
  assert (Hm : m < 1024 /\ N.testbit m (acc_flag (split_acc a)) = true).
  { destruct fields as [names|].
    - rewrite Hsome in Hparse. split; [exact (mask_spec_lt _ _ Hparse)|].
      apply (mask_spec_bit names m (split_field a)); [exact Hparse|exact Hin|]. destruct a; reflexivity.
    - rewrite Hnone in Hparse. injection Hparse as <-. split; [reflexivity|destruct a; reflexivity]. }
  destruct Hm as [Hlt Hbit].
  assert (Hs : s < 1024) by (apply lor_lt_1024; [exact Hlt|exact (required_lt HP k)]).
  assert (Hsb : N.testbit s (acc_flag (split_acc a)) = true).
  { unfold s, create_subset. rewrite N.lor_spec, Hbit. reflexivity. }
  destruct (loads_ok_spec _ _ (normalize_loads HC s Hs)) as [Hsub Hdeps].
  assert (HLa : N.testbit L (acc_flag (split_acc a)) = true).
  { apply (Hdeps (split_acc a) Hsb). destruct a; left; reflexivity. }
  assert (HLh : N.testbit L 1 = true).
  { unfold hw_closure_ok in HW. rewrite forallb_forall in HW. specialize (HW s (below_in 1024 s Hs)).
    assert (E : (N.testbit s 6 || N.testbit s 7)%bool = true).
    { destruct a; cbn [split_acc acc_flag] in Hsb; rewrite Hsb; [reflexivity|apply orb_true_r]. }
    rewrite E in HW. exact HW. }
  split; [exact HLa|]. split; [exact HLh|].
  intros lx has_syn wid iA Hlex HA.
  destruct (accessor_preserved HR lx has_syn wid L (split_acc a) iA Hlex Hsub (Hdeps _ Hsb) HA) as (iS & H1 & H2).
  destruct (accessor_preserved HR lx has_syn wid L A_hwlen iA Hlex Hsub) as (iS' & H1' & H2'); [|exact HA|].
  { intros d [<-|[]]. exact HLh. }
  rewrite H1 in H1'. injection H1' as <-. exists iS. repeat split; assumption.
Qed.
