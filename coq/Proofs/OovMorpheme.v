(* C13: what the result reports for an OOV node of the best path -- is_oov, dictionary -1, the part of speech carried by the
   node's word id, and the normalised text of its range as normalized / dictionary / reading form. *)
From Coq Require Import List NArith ZArith Bool Lia ZifyBool ZifyNat ZifyN PeanoNat String.
From SudachiVerif Require Import Model.Oov.
Import ListNotations.
Open Scope N_scope.

Arguments N.land : simpl never.
Arguments N.lor : simpl never.
Arguments N.eqb : simpl never.
Arguments N.shiftl : simpl never.
Arguments N.shiftr : simpl never.
Arguments N.ones : simpl never.
Arguments N.modulo : simpl never.
Arguments N.pow : simpl never.

Section WordId.
  Variable s : N.
  Hypothesis Hshift : OF.word_id_dic_shift = s.
  Hypothesis Hmask : OF.word_mask = N.ones s.

  (* WordId::new packs losslessly: dic() and word() give the parts back *)
  Lemma wid_dic_new dic word : wid_dic (wid_new dic word) = N.land dic 15.
  Proof.
    unfold wid_dic, wid_new. rewrite Hshift, Hmask, N.shiftr_lor.
    rewrite N.shiftr_shiftl_l by lia. rewrite N.sub_diag, N.shiftl_0_r.
    rewrite N.land_ones, N.shiftr_div_pow2, N.div_small; [apply N.lor_0_r|].
    apply N.mod_lt. apply N.pow_nonzero. lia.
  Qed.

  Lemma wid_word_new dic word : wid_word (wid_new dic word) = N.land word (N.ones s).
  Proof.
    unfold wid_word, wid_new. rewrite Hshift, Hmask, N.land_lor_distr_l.
    rewrite (N.land_ones (N.shiftl _ s)), N.shiftl_mul_pow2, N.mod_mul by (apply N.pow_nonzero; lia).
    rewrite N.lor_0_l, <- N.land_assoc, N.land_diag. reflexivity.
  Qed.
End WordId.

Section Fields.
  Hypothesis Hshift : OF.word_id_dic_shift = 28.
  Hypothesis Hmask : OF.word_mask = N.ones 28.
  Hypothesis Hdic : OF.oov_dic_id = 15.
  Hypothesis Hfields : OF.oov_info_fields = [("pos_id", "word_id.word:u16"); ("surface", "curr_slice_c")]%string.
  Hypothesis Hfb : OF.form_fallbacks =
                   [("normalized_form", "surface"); ("dictionary_form", "surface"); ("reading_form", "surface")]%string.
  Hypothesis Hid : OF.oov_dictionary_id = (-1)%Z.

  Lemma oov_wid_is_oov pos : wid_is_oov (wid_oov pos) = true.
  Proof. unfold wid_is_oov, wid_oov. rewrite (wid_dic_new 28 Hshift Hmask), Hdic. reflexivity. Qed.

  Lemma oov_wid_word pos : pos < 65536 -> wid_word (wid_oov pos) = pos.
  Proof.
    intros H. unfold wid_oov. rewrite (wid_word_new 28 Hshift Hmask), N.land_ones, N.mod_small; [reflexivity|].
    change (2 ^ 28) with 268435456. lia.
  Qed.

  (* a dictionary word (dictionary 0..14) is never taken for an OOV one and reports its dictionary *)
  Lemma dict_wid_not_oov dic word : dic < 15 ->
    wid_is_oov (wid_new dic word) = false /\ dictionary_id (wid_new dic word) = Z.of_N dic.
  Proof.
    intros H. unfold dictionary_id, wid_is_oov. rewrite (wid_dic_new 28 Hshift Hmask), Hdic.
    assert (E : N.land dic 15 = dic).
    { change 15 with (N.ones 4). rewrite N.land_ones, N.mod_small; [reflexivity|]. change (2 ^ 4) with 16. lia. }
    rewrite E. replace (dic =? 15) with false by lia. split; reflexivity.
  Qed.

  Theorem oov_morpheme_fields_generic orig norm pos b e :
    pos < 65536 ->
    oov_morpheme orig norm (wid_oov pos) b e =
    mkMV true (-1)%Z pos (slice orig b e) (slice norm b e) (slice norm b e) (slice norm b e).
  Proof.
    intros Hp. unfold oov_morpheme, dictionary_id. rewrite oov_wid_is_oov, Hid.
    unfold normalized_form, dictionary_form, reading_form, form_of, oov_word_info.
    rewrite Hfields, Hfb. cbn [wi_normalized wi_dictionary wi_reading wi_surface wi_pos].
    change (assoc "surface" [("pos_id", "word_id.word:u16"); ("surface", "curr_slice_c")]%string) with "curr_slice_c"%string.
    change (assoc "pos_id" [("pos_id", "word_id.word:u16"); ("surface", "curr_slice_c")]%string) with "word_id.word:u16"%string.
    change (String.eqb "curr_slice_c" "curr_slice_c") with true.
    change (String.eqb "word_id.word:u16" "word_id.word:u16") with true.
    change (String.eqb (assoc "normalized_form" _) "surface") with true.
    change (String.eqb (assoc "dictionary_form" _) "surface") with true.
    change (String.eqb (assoc "reading_form" _) "surface") with true.
    cbn beta iota. rewrite (oov_wid_word pos Hp), N.mod_small by lia. reflexivity.
  Qed.
End Fields.
