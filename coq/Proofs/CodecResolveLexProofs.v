(* C05 — resolution and the compiled lexicon together:
   (1) the keys BinDictResolver computes from a loaded dictionary (get_word_info_subset with SURFACE|POS_ID|READING_FORM)
       are the keys `sys_key` of the entries the dictionary was compiled from;
   (2) in a compiled system lexicon every split unit read back from the file is the reference as written, or, for an
       inline reference, the first row with that index form, POS and reading. *)
From Coq Require Import List NArith ZArith Bool String Lia ZifyBool ZifyNat ZifyN.
From SudachiVerif Require Import Model.Codec Model.CodecResolve Proofs.CodecProofs Proofs.CodecLexProofs Proofs.CodecResolveProofs.
From SudachiVerif Require Generated.FieldOrder.
Import ListNotations.
Open Scope N_scope.

(* InfoSubset::SURFACE | InfoSubset::READING_FORM | InfoSubset::POS_ID *)
Definition RESOLVER_SUBSET : N := 37.

Lemma resolver_subset_all : subset_of RESOLVER_SUBSET ALL.
Proof.
  intros k H. unfold RESOLVER_SUBSET in H. unfold ALL.
  destruct (N.ltb k 6) eqn:E.
  - assert (k = 0 \/ k = 1 \/ k = 2 \/ k = 3 \/ k = 4 \/ k = 5) as [->|[->|[->|[->|[->| ->]]]]] by lia; reflexivity.
  - assert (N.testbit 37 k = false). { apply N.bits_above_log2. change (N.log2 37) with 5. lia. } congruence.
Qed.

(* get_word_info changes nothing but the dictionary form on top of the parse *)
Lemma get_word_info_raw : forall lx w s i, get_word_info lx true w s = Some i ->
  exists bs wi, lex_get lx w = Some bs /\ parse s bs = Some wi /\ forall f, f <> F_dicform -> i f = wi f.
Proof.
  intros lx w s i H. rewrite get_word_info_consult in H.
  destruct (lex_get lx w) as [bs|]; [|discriminate].
  destruct (parse s bs) as [wi|] eqn:Ep; [|discriminate].
  rewrite consult_eq in H. destruct (consult_val lx w (as_int (wi F_dfwi))) as [o|]; [|discriminate].
  cbn [option_map] in H. inversion H; subst i.
  exists bs, wi. split; [reflexivity|]. split; [exact Ep|].
  intros f Hf. destruct o; cbn [with_dic]; [apply set_field_other; exact Hf|reflexivity].
Qed.

Section Compiled.
Hypothesis HW : FO.writer_fields = expected_writer.
Hypothesis HR : reader_facts_ok.
Hypothesis Hok : len_thresholds_ok = true.
Variables (prefix : bytes) (es : list entry) (sec : bytes).
Hypothesis Hsec : write_words_section (N.of_nat (List.length prefix)) es = Some sec.
Hypothesis Hsize : N.of_nat (List.length (prefix ++ sec)) < 4294967296.
Hypothesis Hwf : lexicon_wf es.

Let lx : lexicon := lexicon_of_file (prefix ++ sec) (N.of_nat (List.length prefix)).

Lemma compiled_lex_ok : lex_ok lx.
Proof.
  intros bs Hin. unfold lx, lexicon_of_file in Hin. rewrite (file_count_ok prefix es sec Hsec Hsize) in Hin.
  rewrite Nat2N.id in Hin. apply in_map_iff in Hin as (w & <- & Hw).
  apply In_nth_error in Hw as (k & Hk).
  assert (Hlt : (k < List.length es)%nat).
  { rewrite <- (nrange_length (List.length es) 0). apply nth_error_Some. congruence. }
  rewrite nth_error_nrange in Hk by exact Hlt. inversion Hk; subst w. rewrite N.add_0_l.
  destruct (nth_error es k) as [e|] eqn:Ee; [|apply nth_error_None in Ee; lia].
  destruct (word_at_offset prefix es sec Hsec Hsize k e Ee) as (b & rest & Hwr & Hb).
  rewrite Hb. destruct (Hwf e (nth_error_In _ _ Ee)) as (He & _).
  destruct (wordinfo_roundtrip_raw HW HR Hok e b rest He Hwr) as (i & Hp & _). congruence.
Qed.

(* (1) *)
Theorem resolver_key_of_loaded : forall k e, nth_error es k = Some e ->
  exists i, get_word_info lx true (N.of_nat k) RESOLVER_SUBSET = Some i /\
            bin_key (as_text (i F_surface)) (as_num (i F_pos)) (as_text (i F_reading)) = sys_key e.
Proof.
  intros k e Hk.
  destruct (lexicon_roundtrip HW HR Hok prefix es sec Hsec Hsize Hwf) as (_ & Hall).
  destruct (Hall k e Hk) as ((iA & HA & _) & _). fold lx in HA.
  assert (Hdeps : deps_loaded RESOLVER_SUBSET A_surface) by (intros d [<-|[]]; reflexivity).
  destruct (accessor_preserved HR lx true (N.of_nat k) RESOLVER_SUBSET A_surface iA compiled_lex_ok resolver_subset_all Hdeps HA)
    as (iS & HS & _).
  exists iS. split; [exact HS|].
  destruct (get_word_info_raw _ _ _ _ HS) as (bs & wiS & Hb & HpS & HrawS).
  destruct (lexicon_get prefix es sec Hsec Hsize k e Hk) as (b & rest & Hwr & Hb').
  fold lx in Hb'. rewrite Hb in Hb'. inversion Hb'; subst bs.
  destruct (Hwf e (nth_error_In _ _ Hk)) as (He & _).
  destruct (wordinfo_roundtrip_raw HW HR Hok e b rest He Hwr) as (wiA & HpA & Hst).
  destruct (parse_subset_gen HR _ _ _ _ resolver_subset_all HpA) as (wiS' & HpS' & Hag & _).
  rewrite HpS in HpS'. inversion HpS'; subst wiS'.
  rewrite !HrawS by discriminate.
  rewrite (proj1 (Hag F_surface ltac:(discriminate)) eq_refl), (proj1 (Hag F_pos ltac:(discriminate)) eq_refl),
          (proj1 (Hag F_reading ltac:(discriminate)) eq_refl).
  rewrite !Hst. reflexivity.
Qed.
End Compiled.

(* (2) *)
Definition unit_target (rows : list rrow) (u : split_unit) (w : N) : Prop :=
  match u with
  | SRef x => w = x
  | SInline s p rd => exists j, w = N.of_nat j /\ first_match (map own_key rows) j s p rd
  end.

Lemma Forall2_nth_error_l : forall {A B} (R : A -> B -> Prop) la lb i a,
  Forall2 R la lb -> nth_error la i = Some a -> exists b, nth_error lb i = Some b /\ R a b.
Proof.
  intros A B R la lb i a H. revert i. induction H as [|x y la lb Hxy H IH]; intros i Hi; [destruct i; discriminate|].
  destruct i as [|i]; cbn [nth_error] in *; [inversion Hi; subst; eauto|apply IH; exact Hi].
Qed.

Lemma Forall2_imp : forall {A B} (R S : A -> B -> Prop) la lb,
  (forall a b, R a b -> S a b) -> Forall2 R la lb -> Forall2 S la lb.
Proof. intros A B R S la lb H F. induction F; constructor; auto. Qed.

Lemma system_unit_target : forall rows u w,
  resolve_unit 0 (map own_key rows) [] u = Some w -> unit_target rows u w.
Proof.
  intros rows [x|s p rd] w H; cbn [resolve_unit unit_target] in *; [congruence|].
  destruct (resolve_inline_sound _ _ _ _ _ _ _ H) as [(j & -> & Hf)|(_ & j & _ & (k & Hk & _) & _)].
  - exists j. split; [lia|exact Hf].
  - destruct j; discriminate.
Qed.

Theorem inline_reference_roundtrip :
  FO.writer_fields = expected_writer -> reader_facts_ok -> len_thresholds_ok = true ->
  forall rows es prefix sec,
  resolve_rows false rows [] = Some es ->
  write_words_section (N.of_nat (List.length prefix)) es = Some sec ->
  N.of_nat (List.length (prefix ++ sec)) < 4294967296 ->
  lexicon_wf es ->
  forall i r, nth_error rows i = Some r ->
  exists info a b,
    get_word_info (lexicon_of_file (prefix ++ sec) (N.of_nat (List.length prefix))) true (N.of_nat i) ALL = Some info /\
    accessor A_a info = VArr a /\ accessor A_b info = VArr b /\
    Forall2 (unit_target rows) (r_a r) a /\ Forall2 (unit_target rows) (r_b r) b.
Proof.
  intros HW HR Hok rows es prefix sec Hres Hsec Hsize Hwf i r Hi.
  unfold resolve_rows in Hres. cbn [map] in Hres.
  pose proof (resolve_rows_with_spec _ _ _ _ _ Hres) as Hspec.
  destruct (Forall2_nth_error_l _ _ _ _ _ Hspec Hi) as (e & He & a & b & -> & Ha & Hb).
  destruct (lexicon_roundtrip HW HR Hok prefix es sec Hsec Hsize Hwf) as (_ & Hall).
  destruct (Hall i _ He) as ((info & Hinfo & Hl) & _).
  exists info, a, b. split; [exact Hinfo|].
  unfold loaded_as in Hl. destruct Hl as (_ & _ & _ & _ & _ & _ & _ & La & Lb & _).
  split; [exact La|]. split; [exact Lb|].
  split; [apply (Forall2_imp _ _ _ _ (system_unit_target rows) Ha)|apply (Forall2_imp _ _ _ _ (system_unit_target rows) Hb)].
Qed.
