(* C03, second part: the glue between the lattice path and the result (StatefulTokenizer::resolve_best_path) and the
   accessors of Morpheme (begin / end / begin_c / end_c / surface) never index outside the tables of InputBuffer.
   Composes Proofs/BufferCharProofs.v (builder A: char <-> byte tables, morpheme_offsets) with the reachability of the
   buffer and the well-formedness of lattice nodes. *)
From Coq Require Import String List NArith ZArith Bool Arith Lia.
From SudachiVerif Require Import Model.Buffer Proofs.BufferProofs Proofs.BufferCharProofs.
From SudachiVerif Require Model.Lattice Proofs.PipelineFull.
Import ListNotations.
Local Open Scope nat_scope.

(* x as u16 *)
Definition cast_u16 (x : nat) : nat := N.to_nat (N.of_nat x mod 65536)%N.

(* the body of the loop of resolve_best_path for one lattice node (dictionary lookup left out):
     curr_slice_c(inner.char_range())                      -- surface of an OOV word
     byte_begin = to_curr_byte_idx(inner.begin()); byte_end = to_curr_byte_idx(inner.end())
     ResultNode::new(inner, cost, byte_begin as u16, byte_end as u16, wi)
   None = a panic of one of the index expressions / the slice *)
Definition resolve_node (t : list N) (n : Lattice.node) : option (rnode * list N) :=
  match curr_slice_c t (Lattice.nbeg n) (Lattice.nend n), to_curr_byte_idx t (Lattice.nbeg n), to_curr_byte_idx t (Lattice.nend n) with
  | Some sl, Some bb, Some eb => Some (mkRN (Lattice.nbeg n) (Lattice.nend n) (cast_u16 bb) (cast_u16 eb), sl)
  | _, _, _ => None
  end.

(* every accessor of Morpheme answers (no index / slice panic) *)
Definition accessors_ok (cfg : bcfg) (s : buf) (n : rnode) : Prop :=
  exists b e bc ec sf,
    morpheme_begin s n = Some b /\ morpheme_end s n = Some e /\
    morpheme_begin_c cfg s n = Some bc /\ morpheme_end_c cfg s n = Some ec /\ morpheme_surface s n = Some sf.

Section Cfg.
  Variable cfg : bcfg.
  Hypothesis Hcfg : cfg_ok cfg = true.
  Hypothesis Hg : guards_ok cfg = true.

  Lemma cast_u16_small : forall x, (N.of_nat x <= 65535)%N -> cast_u16 x = x.
  Proof. intros x H. unfold cast_u16. rewrite N.mod_small by lia. apply Nat2N.id. Qed.

  (* a lattice node of a text of char_len characters: begin <= end <= char_len (every candidate word has begin < end <= len) *)
  Theorem resolve_node_ok : forall o s n, wf_text o = true -> Reach cfg o s ->
    Lattice.nbeg n <= Lattice.nend n -> Lattice.nend n <= char_len (cur s) ->
    exists rn sl, resolve_node (cur s) n = Some (rn, sl) /\ rnode_ok (cur s) rn
                  /\ rn_bc rn = Lattice.nbeg n /\ rn_ec rn = Lattice.nend n.
  Proof.
    intros o s n Hwf HR Hbe He.
    destruct (curr_slice_c_spec (cur s) _ _ Hbe He) as (x & y & Hx & Hy & Hxy & Hs & _).
    pose proof (reach_len_u16 cfg Hcfg o s Hg Hwf HR) as Hlen.
    destruct (to_curr_byte_idx_props _ _ _ Hx) as (_ & Lx & _). destruct (to_curr_byte_idx_props _ _ _ Hy) as (_ & Ly & _).
    unfold resolve_node. rewrite Hs, Hx, Hy. rewrite !cast_u16_small by lia.
    eexists. eexists. split; [reflexivity|]. unfold rnode_ok. cbn [rn_bc rn_ec rn_bb rn_eb]. auto.
  Qed.

  Theorem accessors_of_rnode_ok : forall o s n, wf_text o = true -> Reach cfg o s -> rnode_ok (cur s) n -> accessors_ok cfg s n.
  Proof.
    intros o s n Hwf HR Hn.
    destruct (morpheme_offsets cfg Hcfg o s n (reach_inv cfg Hcfg o s Hwf HR) Hn) as (b & e & H1 & H2 & _ & _ & _ & H3 & H4 & H5 & _).
    unfold accessors_ok. eauto 10.
  Qed.

  (* resolve_best_path followed by any accessor, for a whole path of lattice nodes *)
  Theorem path_accessors_ok : forall o s (p : list Lattice.node), wf_text o = true -> Reach cfg o s ->
    (forall n, In n p -> Lattice.nbeg n <= Lattice.nend n /\ Lattice.nend n <= char_len (cur s)) ->
    Forall (fun n => exists rn sl, resolve_node (cur s) n = Some (rn, sl) /\ accessors_ok cfg s rn) p.
  Proof.
    intros o s p Hwf HR Hp. apply Forall_forall. intros n Hn. destruct (Hp n Hn) as [H1 H2].
    destruct (resolve_node_ok o s n Hwf HR H1 H2) as (rn & sl & Hr & Hok & _).
    exists rn, sl. split; [exact Hr|]. exact (accessors_of_rnode_ok o s rn Hwf HR Hok).
  Qed.

  (* whatever the path-rewrite plugins and the A/B split make of the path: as long as the result is a boundary-aligned
     chain of byte ranges over the rewritten text (path_ok_b: what PipelineFull proves for the modelled stages), every
     range is the range of a result node whose character coordinates are ch_idx of its ends, and all accessors answer *)
  Theorem chain_accessors_ok : forall o s (p : list (nat * nat)), wf_text o = true -> Reach cfg o s -> cur s <> [] ->
    path_ok_b (cur s) p = true ->
    Forall (fun r => exists bc ec, ch_idx cfg (cur s) (fst r) = Some bc /\ ch_idx cfg (cur s) (snd r) = Some ec
                                   /\ rnode_ok (cur s) (mkRN bc ec (fst r) (snd r))
                                   /\ accessors_ok cfg s (mkRN bc ec (fst r) (snd r))) p.
  Proof.
    intros o s p Hwf HR Hne Hp. pose proof (reach_inv cfg Hcfg o s Hwf HR) as HI.
    assert (Hwt : wf_text (cur s) = true) by (destruct HI as (_ & _ & _ & _ & _ & H & _); exact H).
    unfold path_ok_b in Hp. apply andb_true_iff in Hp. destruct Hp as [Hch Hb]. rewrite forallb_forall in Hb.
    apply Forall_forall. intros r Hr. specialize (Hb r Hr). apply andb_true_iff in Hb. destruct Hb as [B1 B2].
    pose proof (PipelineFull.chain_ranges_le p 0 (length (cur s)) r Hch Hr) as Hle.
    destruct (byte_range_node cfg Hcfg (cur s) (fst r) (snd r) Hwt Hne B1 B2 Hle) as (bc & ec & E1 & E2 & Hok).
    exists bc, ec. split; [exact E1|]. split; [exact E2|]. split; [exact Hok|]. exact (accessors_of_rnode_ok o s _ Hwf HR Hok).
  Qed.
End Cfg.

(* ------------------------------------------------------------------ lattice path -> result nodes -> accessors *)
From SudachiVerif Require Import Model.LatticeP Proofs.LatticePProofs.

Section Composed.
  Variable cfg : bcfg.
  Hypothesis Hcfg : cfg_ok cfg = true.
  Hypothesis Hg : guards_ok cfg = true.

  (* build_lattice resets the lattice to current_chars().len() = char_len (cur s) and inserts well-formed candidates;
     resolve_best_path then walks the best path: every node on it resolves to a result node (no index / slice panic,
     the `as u16` of the byte offsets lossless), and every accessor of that result node answers *)
  Theorem lattice_path_accessors_ok : forall (dbg ovf : bool) (nl nr : N) (data : list Z), matrix_ok nl nr data = true ->
    forall (L0 : plat) o s (ns : list Lattice.node), wf_text o = true -> Reach cfg o s ->
      round_wf nl nr data (char_len (cur s), ns) = true ->
      okp ovf (fun p => Forall (fun n => exists rn sl, resolve_node (cur s) n = Some (rn, sl) /\ accessors_ok cfg s rn) p)
          (pround_path dbg ovf nl nr data L0 (char_len (cur s)) ns).
  Proof.
    intros dbg ovf nl nr data Hm L0 o s ns Hwf HR Hr.
    eapply okp_weaken; [exact (pround_path_ok dbg ovf nl nr data Hm L0 _ ns Hr)|].
    intros p Hp. apply (path_accessors_ok cfg Hcfg Hg o s p Hwf HR).
    intros n Hn. rewrite Forall_forall in Hp. specialize (Hp n Hn).
    unfold round_wf in Hr. cbn [fst snd] in Hr. repeat rewrite andb_true_iff in Hr. destruct Hr as [[[[_ _] H3] _] _].
    rewrite forallb_forall in H3. specialize (H3 n Hp). unfold pnode_wf in H3. apply andb_true_iff in H3.
    destruct H3 as [A B]. apply Nat.ltb_lt in A. apply Nat.leb_le in B. lia.
  Qed.
End Composed.
