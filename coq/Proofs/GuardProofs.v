(* Meaning of the decidable side conditions of Model/GuardLang.v: generic lemmas, proved once for every guard list /
   index expression that satisfies the side condition. *)
From Coq Require Import List ZArith Bool Lia.
From SudachiVerif Require Import Model.GuardLang.
Import ListNotations.
Open Scope Z_scope.

Lemma accepted_forall : forall gs nl nr x, accepted gs nl nr x = true -> forall g, In g gs -> fires g nl nr x = false.
Proof.
  intros gs nl nr x H g Hin. unfold accepted in H. apply negb_true_iff in H.
  destruct (fires g nl nr x) eqn:E; [|reflexivity].
  assert (existsb (fun g0 => fires g0 nl nr x) gs = true) as Hex by (apply existsb_exists; exists g; split; assumption).
  congruence.
Qed.

Lemma dim_eqb_eq : forall a b, dim_eqb a b = true -> a = b.
Proof. destruct a, b; cbn; congruence. Qed.

Lemma usize_nonneg : forall x, 0 <= x < 18446744073709551616 -> x mod 18446744073709551616 = x.
Proof. intros. apply Z.mod_small. lia. Qed.

Lemma usize_neg : forall x, -9223372036854775808 <= x < 0 -> x mod 18446744073709551616 = x + 18446744073709551616.
Proof.
  intros x H.
  pose proof (Z.div_mod x 18446744073709551616 ltac:(lia)) as E.
  pose proof (Z.mod_pos_bound x 18446744073709551616 ltac:(lia)) as B. lia.
Qed.

Lemma rejects_all_neg_sound : forall g d nl nr x,
  rejects_all_neg g d = true -> 0 <= dim_val d nl nr < 9223372036854775808 -> -9223372036854775808 <= x ->
  fires g nl nr x = false -> 0 <= x.
Proof.
  intros [k c o] d nl nr x Hr Hd Hx Hf. unfold rejects_all_neg in Hr. unfold fires in Hf. cbn [g_cast g_cmp g_rhs] in *.
  destruct (Z_lt_ge_dec x 0) as [Hneg|]; [exfalso|lia].
  destruct k, c, o as [z|d'|d' m]; try discriminate; cbn [cast_eval cmp_eval operand_eval] in Hf.
  - apply Z.leb_le in Hr. apply Z.ltb_ge in Hf. lia.
  - apply Z.leb_le in Hr. apply Z.leb_gt in Hf. lia.
  - apply dim_eqb_eq in Hr. subst d'. rewrite usize_neg in Hf by lia. unfold Z.gtb in Hf.
    destruct (x + 18446744073709551616 ?= dim_val d nl nr) eqn:E; try discriminate.
    + apply Z.compare_eq in E. lia.
    + rewrite Z.compare_lt_iff in E. lia.
  - apply dim_eqb_eq in Hr. subst d'. rewrite usize_neg in Hf by lia. unfold Z.geb in Hf.
    destruct (x + 18446744073709551616 ?= dim_val d nl nr) eqn:E; try discriminate.
    rewrite Z.compare_lt_iff in E. lia.
  - apply andb_true_iff in Hr as [Hr Hm]. apply dim_eqb_eq in Hr. subst d'. apply Z.leb_le in Hm.
    rewrite usize_neg in Hf by lia. unfold Z.geb in Hf.
    destruct (x + 18446744073709551616 ?= Z.max (dim_val d nl nr) m) eqn:E; try discriminate.
    rewrite Z.compare_lt_iff in E. lia.
Qed.

Lemma rejects_all_ge_sound : forall g d nl nr x,
  rejects_all_ge g d = true -> 1 <= dim_val d nl nr -> 0 <= x < 9223372036854775808 -> fires g nl nr x = false -> x < dim_val d nl nr.
Proof.
  intros [k c o] d nl nr x Hr Hd Hx Hf. unfold rejects_all_ge in Hr. unfold fires in Hf. cbn [g_cast g_cmp g_rhs] in *.
  assert (cast_eval k x = x) as Ec by (destruct k; cbn [cast_eval]; [reflexivity|apply usize_nonneg; lia]).
  rewrite Ec in Hf.
  destruct c, o as [z|d'|d' m]; try discriminate.
  - apply dim_eqb_eq in Hr. subst d'. cbn [cmp_eval operand_eval] in Hf. unfold Z.geb in Hf.
    destruct (x ?= dim_val d nl nr) eqn:E; try discriminate. rewrite Z.compare_lt_iff in E. exact E.
  - apply andb_true_iff in Hr as [Hr Hm]. apply dim_eqb_eq in Hr. subst d'. apply Z.leb_le in Hm.
    cbn [cmp_eval operand_eval] in Hf. unfold Z.geb in Hf.
    destruct (x ?= Z.max (dim_val d nl nr) m) eqn:E; try discriminate. rewrite Z.compare_lt_iff in E. lia.
Qed.

(* the generic lemma behind every id check: a guard list that `covers` dimension d accepts only 0 <= x < d *)
Lemma guard_sound : forall gs d nl nr x,
  covers gs d = true -> 1 <= dim_val d nl nr < 9223372036854775808 ->
  -9223372036854775808 <= x < 9223372036854775808 ->
  accepted gs nl nr x = true -> 0 <= x < dim_val d nl nr.
Proof.
  intros gs d nl nr x Hc Hd Hx Ha. unfold covers in Hc. apply andb_true_iff in Hc as [Hge Hneg].
  apply existsb_exists in Hge as [g1 [Hin1 Hg1]]. apply existsb_exists in Hneg as [g2 [Hin2 Hg2]].
  pose proof (accepted_forall _ _ _ _ Ha) as Hall.
  assert (0 <= x) as Hnn by (apply (rejects_all_neg_sound g2 d nl nr x Hg2); [lia|lia|apply Hall; exact Hin2]).
  split; [exact Hnn|]. apply (rejects_all_ge_sound g1 d nl nr x Hg1); [lia|lia|apply Hall; exact Hin1].
Qed.

Lemma confines_sound : forall gs lo hi nl nr x,
  confines gs lo hi = true -> accepted gs nl nr x = true -> lo <= x <= hi.
Proof.
  intros gs lo hi nl nr x Hc Ha. unfold confines in Hc. apply andb_true_iff in Hc as [Hb Ht].
  apply existsb_exists in Hb as [g1 [Hin1 Hg1]]. apply existsb_exists in Ht as [g2 [Hin2 Hg2]].
  pose proof (accepted_forall _ _ _ _ Ha) as Hall.
  pose proof (Hall _ Hin1) as F1. pose proof (Hall _ Hin2) as F2.
  destruct g1 as [k1 c1 o1], g2 as [k2 c2 o2]. unfold rejects_below in Hg1. unfold rejects_above in Hg2.
  unfold fires in F1, F2. cbn [g_cast g_cmp g_rhs] in *.
  split.
  - destruct k1, c1, o1 as [z| |]; try discriminate; cbn [cast_eval cmp_eval operand_eval] in F1.
    + apply Z.leb_le in Hg1. apply Z.ltb_ge in F1. lia.
    + apply Z.leb_le in Hg1. apply Z.leb_gt in F1. lia.
  - destruct k2, c2, o2 as [z| |]; try discriminate; cbn [cast_eval cmp_eval operand_eval] in F2.
    + apply Z.leb_le in Hg2. unfold Z.gtb in F2. destruct (x ?= z) eqn:E; try discriminate.
      * apply Z.compare_eq in E. lia.
      * rewrite Z.compare_lt_iff in E. lia.
    + apply Z.leb_le in Hg2. unfold Z.geb in F2. destruct (x ?= z) eqn:E; try discriminate.
      rewrite Z.compare_lt_iff in E. lia.
Qed.

Lemma iexp_eqb_eq : forall a b, iexp_eqb a b = true -> a = b.
Proof.
  induction a; destruct b; cbn; try discriminate; try reflexivity; intros H.
  - apply Z.eqb_eq in H. congruence.
  - apply andb_true_iff in H as [H1 H2]. f_equal; auto.
  - apply andb_true_iff in H as [H1 H2]. f_equal; auto.
Qed.

Lemma index_shape_eval : forall e l r nl nr, index_shape_ok e = true -> iexp_eval e l r nl nr = r * nl + l.
Proof.
  intros e l r nl nr H. unfold index_shape_ok in H. cbn [existsb] in H.
  repeat (apply orb_true_iff in H as [H|H]); try discriminate;
    apply iexp_eqb_eq in H; subst e; cbn [iexp_eval]; lia.
Qed.

(* row-major index of an in-range cell lies inside the matrix, and distinct cells have distinct indices *)
Lemma index_in_range : forall l r nl nr, 0 <= l < nl -> 0 <= r < nr -> 0 <= r * nl + l < nl * nr.
Proof.
  intros l r nl nr Hl Hr.
  assert (r * nl <= (nr - 1) * nl) as H1 by (apply Z.mul_le_mono_nonneg_r; lia).
  assert (0 <= r * nl) as H2 by (apply Z.mul_nonneg_nonneg; lia).
  replace (nl * nr) with ((nr - 1) * nl + nl) by ring. lia.
Qed.

Lemma index_injective : forall l r a b nl, 0 <= l < nl -> 0 <= a < nl -> r * nl + l = b * nl + a -> r = b /\ l = a.
Proof.
  intros l r a b nl Hl Ha E.
  assert (r = b) as Hrb.
  { destruct (Z.lt_trichotomy r b) as [Hlt|[Heq|Hgt]]; [exfalso|exact Heq|exfalso].
    - assert ((r + 1) * nl <= b * nl) as H1 by (apply Z.mul_le_mono_nonneg_r; lia). lia.
    - assert ((b + 1) * nl <= r * nl) as H1 by (apply Z.mul_le_mono_nonneg_r; lia). lia. }
  subst b. split; [reflexivity|lia].
Qed.

(* ---- variants for guards without the `.max(k)` form: sound for every dimension >= 0 ---- *)

Lemma rejects_all_ge_plain_sound : forall g d nl nr x,
  rejects_all_ge g d && plain_rhs g = true -> 0 <= x < 9223372036854775808 -> fires g nl nr x = false -> x < dim_val d nl nr.
Proof.
  intros [k c o] d nl nr x Hr Hx Hf. apply andb_true_iff in Hr as [Hr Hp].
  unfold rejects_all_ge in Hr. unfold plain_rhs in Hp. unfold fires in Hf. cbn [g_cast g_cmp g_rhs] in *.
  assert (cast_eval k x = x) as Ec by (destruct k; cbn [cast_eval]; [reflexivity|apply usize_nonneg; lia]).
  rewrite Ec in Hf.
  destruct c, o as [z|d'|d' m]; try discriminate.
  apply dim_eqb_eq in Hr. subst d'. cbn [cmp_eval operand_eval] in Hf. unfold Z.geb in Hf.
  destruct (x ?= dim_val d nl nr) eqn:E; try discriminate. rewrite Z.compare_lt_iff in E. exact E.
Qed.

Lemma guard_sound_strict : forall gs d nl nr x,
  covers_strict gs d = true -> 0 <= dim_val d nl nr < 9223372036854775808 ->
  -9223372036854775808 <= x < 9223372036854775808 ->
  accepted gs nl nr x = true -> 0 <= x < dim_val d nl nr.
Proof.
  intros gs d nl nr x Hc Hd Hx Ha. unfold covers_strict in Hc. apply andb_true_iff in Hc as [Hge Hneg].
  apply existsb_exists in Hge as [g1 [Hin1 Hg1]]. apply existsb_exists in Hneg as [g2 [Hin2 Hg2]].
  pose proof (accepted_forall _ _ _ _ Ha) as Hall.
  assert (0 <= x) as Hnn by (apply (rejects_all_neg_sound g2 d nl nr x Hg2); [lia|lia|apply Hall; exact Hin2]).
  split; [exact Hnn|]. apply (rejects_all_ge_plain_sound g1 d nl nr x Hg1); [lia|apply Hall; exact Hin1].
Qed.

Lemma accepted_app : forall a b nl nr x, accepted (a ++ b) nl nr x = accepted a nl nr x && accepted b nl nr x.
Proof. intros. unfold accepted. rewrite existsb_app. apply negb_orb. Qed.
