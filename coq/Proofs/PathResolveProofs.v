(* The resolved file is the first existing anchor in the documented order; a lower-priority location is never chosen when a
   higher one holds the file. *)
From Coq Require Import List Bool Arith Lia.
From SudachiVerif Require Import Model.PathResolve.
Import ListNotations.
Local Open Scope nat_scope.

Section Proofs.
  Variable dir : Type.
  Variable file : Type.
  Variable is_absolute : file -> bool.
  Variable exists_in : dir -> file -> bool.
  Variable exists_cwd : file -> bool.

  Lemma first_existing_spec : forall roots f d, first_existing dir file exists_in roots f = Some d ->
    exists pre post, roots = pre ++ d :: post /\ exists_in d f = true /\ forall x, In x pre -> exists_in x f = false.
  Proof.
    induction roots as [|r roots IH]; intros f d H; cbn [first_existing] in H; [discriminate H|].
    destruct (exists_in r f) eqn:E.
    - inversion H; subst. exists [], roots. repeat split; auto. intros x [].
    - destruct (IH f d H) as (pre & post & -> & Hd & Hpre). exists (r :: pre), post. repeat split; auto.
      intros x [<-|Hx]; auto.
  Qed.

  Lemma first_existing_none : forall roots f, first_existing dir file exists_in roots f = None ->
    forall x, In x roots -> exists_in x f = false.
  Proof.
    induction roots as [|r roots IH]; intros f H x Hx; [contradiction|]. cbn [first_existing] in H.
    destruct (exists_in r f) eqn:E; [discriminate H|]. destruct Hx as [<-|Hx]; auto.
  Qed.

  (* what complete_path answers, case by case *)
  Theorem complete_path_spec : forall roots f,
    match complete_path dir file is_absolute exists_in exists_cwd roots f with
    | AsIs => is_absolute f = true
    | InAnchor d => is_absolute f = false /\
                    exists pre post, roots = pre ++ d :: post /\ exists_in d f = true /\ forall x, In x pre -> exists_in x f = false
    | InCwd => is_absolute f = false /\ (forall x, In x roots -> exists_in x f = false) /\ exists_cwd f = true
    | NotFound => is_absolute f = false /\ (forall x, In x roots -> exists_in x f = false) /\ exists_cwd f = false
    end.
  Proof.
    intros roots f. unfold complete_path. destruct (is_absolute f) eqn:Ea; [reflexivity|].
    destruct (first_existing dir file exists_in roots f) as [d|] eqn:Ef.
    - split; [reflexivity|]. exact (first_existing_spec roots f d Ef).
    - destruct (exists_cwd f) eqn:Ec; (split; [reflexivity|]); split; auto; exact (first_existing_none roots f Ef).
  Qed.

  (* no lower-priority location wins over a higher one: if the anchor at position i holds the file (relative name), the
     answer is an anchor at a position <= i - never a later anchor, never the working directory, never an error *)
  Theorem higher_anchor_wins : forall roots f i d, is_absolute f = false ->
    nth_error roots i = Some d -> exists_in d f = true ->
    exists j d', j <= i /\ nth_error roots j = Some d' /\
                 complete_path dir file is_absolute exists_in exists_cwd roots f = InAnchor d'.
  Proof.
    intros roots f i d Ha Hn He. pose proof (complete_path_spec roots f) as Hs.
    assert (Hin : In d roots) by (eapply nth_error_In; eauto).
    destruct (complete_path dir file is_absolute exists_in exists_cwd roots f) as [|d'| |].
    - congruence.
    - destruct Hs as (_ & pre & post & -> & Hd & Hpre). exists (length pre), d'.
      split; [|split; [rewrite nth_error_app2 by lia; rewrite Nat.sub_diag; reflexivity | reflexivity]].
      destruct (Nat.le_gt_cases (length pre) i) as [|Hlt]; [assumption|].
      rewrite nth_error_app1 in Hn by lia. rewrite (Hpre d (nth_error_In _ _ Hn)) in He. discriminate He.
    - destruct Hs as (_ & Hnone & _). rewrite (Hnone d Hin) in He. discriminate He.
    - destruct Hs as (_ & Hnone & _). rewrite (Hnone d Hin) in He. discriminate He.
  Qed.
End Proofs.

(* the anchors of a configuration with `path` p, resource directory r and root directory o, all different: p, r, o in
   this order *)
Lemma anchors_order : forall (dir : Type) (eqb : dir -> dir -> bool) p r o,
  eqb r p = false -> eqb o p = false -> eqb o r = false ->
  anchors dir eqb (Some p) r (Some o) = [p; r; o].
Proof.
  intros dir eqb p r o H1 H2 H3. unfold anchors, opt. cbn [app dedup existsb]. rewrite H1. cbn [orb existsb].
  rewrite H3, H2. reflexivity.
Qed.
