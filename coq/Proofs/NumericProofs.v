(* Lemmas about Model/Numeric.v, proved for the configuration [std_cfg]; the generic forms at the end take any
   configuration equal to it (the equality is a decidable obligation on the generated facts). *)
From Coq Require Import List NArith ZArith Bool Arith Lia ZifyBool ZifyNat ZifyN.
From SudachiVerif Require Import Model.Numeric.
Import ListNotations.

Arguments N.add : simpl never.
Arguments N.mul : simpl never.
Arguments N.ltb : simpl never.
Arguments N.leb : simpl never.
Arguments N.eqb : simpl never.

Notation C := std_cfg.

(* ------------------------------------------------------------------ list helpers *)
Lemma firstn_app_exact {A} (a b : list A) : firstn (length a) (a ++ b) = a.
Proof. induction a; cbn; congruence. Qed.

Lemma skipn_app_exact {A} (a b : list A) : skipn (length a) (a ++ b) = b.
Proof. induction a; cbn; congruence. Qed.

Lemma firstn_repeat {A} (x : A) n k : firstn k (repeat x n) = repeat x (Nat.min k n).
Proof. revert k; induction n; intros [|k]; cbn; try reflexivity. now rewrite IHn. Qed.

Lemma repeat_app_add {A} (x : A) a b : repeat x a ++ repeat x b = repeat x (a + b).
Proof. induction a; cbn; congruence. Qed.

(* ------------------------------------------------------------------ digits *)
Definition digit_of (c d : N) : Prop := lookup_char std_table c = Some (Z.of_N d) /\ (d < 10)%N.

Definition app_digits (s : snum) (ds : list N) : snum := fold_left s_append ds s.

Lemma app_digits_fields s ds :
  sg (app_digits s ds) = sg s ++ ds /\ sc (app_digits s ds) = sc s /\ pt (app_digits s ds) = pt s.
Proof.
  unfold app_digits. revert s. induction ds as [|d ds IH]; intros s; cbn [fold_left].
  - now rewrite app_nil_r.
  - destruct (IH (s_append s d)) as (H1 & H2 & H3). rewrite H1, H2, H3. cbn. now rewrite <- app_assoc.
Qed.

Lemma app_digits_az s ds : az (app_digits s ds) = az s && forallb (fun d => N.eqb d 0) ds.
Proof.
  unfold app_digits. revert s. induction ds as [|d ds IH]; intros s; cbn [fold_left forallb].
  - now rewrite andb_true_r.
  - rewrite IH. cbn. destruct (N.eqb d 0), (az s); reflexivity.
Qed.

Lemma digit_not_sep c d : digit_of c d -> c <> 46%N /\ c <> 44%N.
Proof. intros [H _]. split; intros ->; vm_compute in H; discriminate. Qed.

Lemma append_digit p c d :
  digit_of c d ->
  p_append C p c = (true, mkP (S (dl p)) false (hc p) false (er p) (tot p) (sub p) (s_append (tmp p) d)).
Proof.
  intros Hd. destruct (digit_not_sep _ _ Hd) as [H46 H44]. destruct Hd as [Hl Hlt].
  unfold p_append. cbn [point_c comma_c table C].
  destruct (N.eqb_spec c 46); [contradiction|]. destruct (N.eqb_spec c 44); [contradiction|].
  rewrite Hl. unfold is_small_unit, is_large_unit. cbn [small_lo small_hi large_below C].
  replace (Z.ltb (Z.of_N d) 0) with false by lia. rewrite andb_false_r.
  replace (Z.ltb (Z.of_N d) (-3)) with false by lia. now rewrite N2Z.id.
Qed.

Definition after_digits (p : parser) (ds : list N) : parser :=
  match ds with
  | [] => p
  | _ => mkP (dl p + length ds) false (hc p) false (er p) (tot p) (sub p) (app_digits (tmp p) ds)
  end.

Lemma feed_digits cs ds : Forall2 digit_of cs ds -> forall p, p_feed C p cs = (true, after_digits p ds).
Proof.
  induction 1 as [|c d cs ds Hd _ IH]; intros p; [reflexivity|].
  cbn [p_feed]. rewrite (append_digit _ _ _ Hd). rewrite IH. f_equal.
  destruct ds as [|d' ds']; cbn [after_digits dl hc er tot sub tmp length].
  - now rewrite Nat.add_1_r.
  - f_equal. lia.
Qed.

Lemma p_feed_app p a b :
  p_feed C p (a ++ b) = (let '(ok, p') := p_feed C p a in if ok then p_feed C p' b else (false, p')).
Proof.
  revert p. induction a as [|c a IH]; intros p; cbn [app p_feed]; [reflexivity|].
  destruct (p_append C p c) as [[|] p']; [apply IH|reflexivity].
Qed.

(* ------------------------------------------------------------------ done() on a single accumulated number *)
Definition s0 : snum := mkS [] 0 None true.

Lemma done_single p :
  tot p = s0 -> sub p = s0 -> hp p = false -> hc p = false -> sg (tmp p) <> [] ->
  exists p', p_done C p = (true, p') /\ er p' = er p /\
             tot p' = mkS (sg (tmp p)) (sc (tmp p)) (pt (tmp p)) true.
Proof.
  intros Ht Hs Hhp Hhc Hne. unfold p_done. rewrite Ht, Hs, Hhp, Hhc.
  unfold s_add at 1. unfold s_is_zero. destruct (sg (tmp p)) as [|x l] eqn:E; [contradiction|].
  cbn [sg s0 app sc pt az]. unfold s_add. unfold s_is_zero. cbn [sg app sc pt az s0 andb].
  eexists; split; [reflexivity|]. cbn. split; reflexivity.
Qed.

(* ------------------------------------------------------------------ rendering helpers *)
Definition all_digits (ds : list N) : Prop := Forall (fun d => (d < 10)%N) ds.

Lemma digit_char_zero d : (d < 10)%N -> N.eqb (digit_char d) 48 = N.eqb d 0.
Proof. intros H. unfold digit_char. destruct (N.eqb_spec d 0), (N.eqb_spec (48 + d) 48); lia. Qed.

Lemma digit_char_not_point d : (d < 10)%N -> N.eqb (digit_char d) 46 = false.
Proof. intros H. unfold digit_char. lia. Qed.

Lemma strip_zeros_digits ds :
  all_digits ds -> strip_zeros (map digit_char ds) = map digit_char (strip_zero_digits ds).
Proof.
  induction 1 as [|d ds Hd _ IH]; [reflexivity|].
  cbn [map strip_zeros strip_zero_digits]. rewrite IH.
  destruct (strip_zero_digits ds); cbn [map].
  - rewrite (digit_char_zero _ Hd). now destruct (N.eqb d 0).
  - reflexivity.
Qed.

Lemma strip_zeros_app_nonempty a b : strip_zeros b <> [] -> strip_zeros (a ++ b) = a ++ strip_zeros b.
Proof.
  intros Hb. induction a as [|x a IH]; [reflexivity|]. cbn [app strip_zeros]. rewrite IH.
  destruct (a ++ strip_zeros b) eqn:E; [|reflexivity].
  apply app_eq_nil in E. tauto.
Qed.

Lemma drop_last_point_app_digits a d r :
  drop_last_point (a ++ d :: r) = a ++ drop_last_point (d :: r).
Proof.
  induction a as [|x a IH]; [reflexivity|].
  destruct a as [|y a']; [reflexivity|].
  change (drop_last_point ((x :: y :: a') ++ d :: r)) with (x :: drop_last_point ((y :: a') ++ d :: r)).
  now rewrite IH.
Qed.

Lemma drop_last_point_digits ds : all_digits ds -> drop_last_point (map digit_char ds) = map digit_char ds.
Proof.
  induction 1 as [|d ds Hd Hds IH]; [reflexivity|].
  destruct ds as [|d' ds'].
  - cbn [map drop_last_point]. now rewrite (digit_char_not_point _ Hd).
  - change (drop_last_point (map digit_char (d :: d' :: ds')))
      with (digit_char d :: drop_last_point (map digit_char (d' :: ds'))).
    now rewrite IH.
Qed.

(* the characters produced by to_string for "ip . fp" are the rendering of the decimal (ip, fp) *)
Lemma point_string_render ip fp :
  all_digits ip -> all_digits fp -> ip <> [] ->
  drop_last_point (strip_zeros (map digit_char ip ++ [46%N] ++ map digit_char fp)) = render (ip, fp).
Proof.
  intros Hip Hfp Hne. unfold render. cbn [fst snd].
  destruct ip as [|i0 ip']; [contradiction|].
  set (ipc := map digit_char (i0 :: ip')).
  assert (Hsz : strip_zeros ([46%N] ++ map digit_char fp) =
                46%N :: map digit_char (strip_zero_digits fp)).
  { cbn [app strip_zeros]. rewrite (strip_zeros_digits _ Hfp). destruct (strip_zero_digits fp); reflexivity. }
  rewrite strip_zeros_app_nonempty by (rewrite Hsz; discriminate). rewrite Hsz.
  rewrite drop_last_point_app_digits.
  destruct (strip_zero_digits fp) as [|f fs] eqn:E; cbn [map].
  - cbn. now rewrite app_nil_r.
  - assert (Hfs : all_digits (f :: fs)).
    { clear - Hfp E. revert f fs E. induction Hfp as [|d ds Hd Hds IH]; intros f fs E; [discriminate|].
      cbn in E. destruct (strip_zero_digits ds) as [|g gs] eqn:E'.
      - destruct (N.eqb d 0); [discriminate|]. injection E as <- <-. now constructor.
      - injection E as <- <-. constructor; [assumption|]. eapply IH; reflexivity. }
    change (drop_last_point (46%N :: digit_char f :: map digit_char fs))
      with (46%N :: drop_last_point (map digit_char (f :: fs))).
    now rewrite (drop_last_point_digits _ Hfs).
Qed.

(* ------------------------------------------------------------------ closed form: plain digit strings *)
Lemma Forall2_digits_all cs ds : Forall2 digit_of cs ds -> all_digits ds.
Proof. induction 1 as [|c d cs ds [_ H] _ IH]; constructor; assumption. Qed.

Theorem plain_digits_std cs ds :
  Forall2 digit_of cs ds -> ds <> [] -> parse C cs = (true, 0%N, map digit_char ds).
Proof.
  intros H Hne. unfold parse. rewrite (feed_digits _ _ H).
  destruct ds as [|d ds']; [contradiction|]. cbn [after_digits].
  set (p := mkP _ _ _ _ _ _ _ _).
  destruct (done_single p) as (p' & Hd & He & Ht); try reflexivity.
  { subst p. cbn [tmp]. destruct (app_digits_fields (tmp (p_new C)) (d :: ds')) as (-> & _). cbn. discriminate. }
  rewrite Hd, He, Ht. subst p. cbn [er tmp p_new].
  destruct (app_digits_fields (s_new C) (d :: ds')) as (-> & -> & ->). cbn [s_new sg sc pt C new_sc app].
  reflexivity.
Qed.

(* ------------------------------------------------------------------ closed form: fractions *)
Theorem fraction_std ic fc ip fp :
  Forall2 digit_of ic ip -> Forall2 digit_of fc fp -> ip <> [] -> fp <> [] ->
  parse C (ic ++ 46%N :: fc) = (true, 0%N, render (ip, fp)).
Proof.
  intros Hi Hf Hni Hnf. unfold parse. rewrite p_feed_app, (feed_digits _ _ Hi).
  destruct ip as [|i0 ip']; [contradiction|]. cbn [after_digits].
  cbn [p_feed]. unfold p_append at 1. cbn [point_c C N.eqb]. rewrite N.eqb_refl.
  cbn [fd hc andb dl er tot sub tmp hp p_new].
  unfold s_set_point.
  destruct (app_digits_fields (s_new C) (i0 :: ip')) as (Hsg & Hsc & Hpt). rewrite Hsc, Hpt. cbn [s_new sc pt C new_sc].
  rewrite (feed_digits _ _ Hf). destruct fp as [|f0 fp']; [contradiction|]. cbn [after_digits dl hc er tot sub tmp].
  set (p := mkP _ _ _ _ _ _ _ _).
  destruct (done_single p) as (p' & Hd & He & Ht); try reflexivity.
  { subst p. cbn [tmp]. destruct (app_digits_fields (mkS (sg (app_digits (s_new C) (i0 :: ip'))) 0 (Some (length (sg (app_digits (s_new C) (i0 :: ip'))))) (az (app_digits (s_new C) (i0 :: ip')))) (f0 :: fp')) as (-> & _).
    cbn [sg]. intros E. apply app_eq_nil in E. destruct E; discriminate. }
  rewrite Hd, He, Ht. subst p. cbn [er tmp].
  match goal with |- context [app_digits ?s (f0 :: fp')] => destruct (app_digits_fields s (f0 :: fp')) as (-> & -> & ->) end.
  cbn [sg sc pt]. rewrite Hsg. cbn [s_new sg app].
  f_equal. unfold s_to_string, s_is_zero. cbn [sg app].
  unfold s_normalize. cbn [pt sg sc norm_cmp C cmp_nat].
  replace (0 <? length (i0 :: ip' ++ f0 :: fp') - length (i0 :: ip')) with true
    by (cbn [length]; rewrite app_length; cbn [length]; symmetry; apply Nat.ltb_lt; lia).
  cbn [sc pt sg]. rewrite Nat.add_0_r.
  change (i0 :: ip' ++ f0 :: fp') with ((i0 :: ip') ++ f0 :: fp').
  rewrite firstn_app_exact, skipn_app_exact. cbn [length].
  apply point_string_render; [eapply Forall2_digits_all; eassumption | eapply Forall2_digits_all; eassumption | discriminate].
Qed.

(* ------------------------------------------------------------------ string arithmetic refines exact decimals *)
Definition wf (s : snum) : Prop := match pt s with Some p => p <= length (sg s) | None => True end.

Lemma firstn_firstn_skipn {A} p k (l : list A) : firstn p l ++ firstn k (skipn p l) = firstn (p + k) l.
Proof. revert l; induction p; intros [|x l]; cbn; try reflexivity; [now destruct k | now rewrite IHp]. Qed.

Lemma skipn_skipn' {A} p k (l : list A) : skipn k (skipn p l) = skipn (p + k) l.
Proof. revert l; induction p; intros [|x l]; cbn; try reflexivity; [now destruct k | apply IHp]. Qed.

Lemma skipn_app_2 {A} (a b : list A) n : skipn (length a + n) (a ++ b) = skipn n b.
Proof. induction a; cbn; congruence. Qed.

Lemma dshift_le a b k : k <= length b -> dshift (a, b) k = (a ++ firstn k b, skipn k b).
Proof.
  intros H. unfold dshift. cbn [fst snd]. rewrite firstn_app.
  replace (k - length b) with 0 by lia. cbn [firstn]. now rewrite app_nil_r.
Qed.

Lemma dshift_ge a b k : length b <= k -> dshift (a, b) k = (a ++ b ++ repeat 0%N (k - length b), []).
Proof.
  intros H. unfold dshift. cbn [fst snd]. rewrite firstn_app, firstn_all2 by lia.
  rewrite firstn_repeat, skipn_all2 by lia. now replace (Nat.min (k - length b) k) with (k - length b) by lia.
Qed.

Lemma normalize_std s :
  s_normalize C s =
  match pt s with
  | None => s
  | Some p => if sc s <? length (sg s) - p then mkS (sg s) 0 (Some (p + sc s)) (az s)
              else mkS (sg s) (sc s - (length (sg s) - p)) None (az s)
  end.
Proof. reflexivity. Qed.

(* normalize_scale: identity on the denoted decimal *)
Lemma abs_normalize s :
  wf s ->
  abs (s_normalize C s) = abs s /\ wf (s_normalize C s) /\ sg (s_normalize C s) = sg s /\
  (pt (s_normalize C s) = None \/
   (sc (s_normalize C s) = 0 /\ exists p, pt (s_normalize C s) = Some p /\ p < length (sg s))).
Proof.
  unfold wf. rewrite normalize_std. destruct (pt s) as [p|] eqn:Ep; intros Hwf.
  2:{ rewrite Ep. repeat split; auto. }
  assert (Hlen : length (skipn p (sg s)) = length (sg s) - p) by apply skipn_length.
  destruct (Nat.ltb_spec (sc s) (length (sg s) - p)) as [Hlt|Hge].
  - unfold abs. cbn [pt sg sc]. rewrite Ep. repeat split; [|lia|right; split; [reflexivity|eexists; split; [reflexivity|lia]]].
    rewrite dshift_le by (rewrite skipn_length; lia). rewrite dshift_le by lia.
    cbn [firstn skipn]. now rewrite app_nil_r, firstn_firstn_skipn, skipn_skipn'.
  - unfold abs. cbn [pt sg sc]. rewrite Ep. repeat split; [|left; reflexivity].
    rewrite dshift_ge by lia. rewrite Hlen, app_assoc, firstn_skipn. reflexivity.
Qed.

(* append: one more digit, before or after the point *)
Lemma abs_append s d :
  wf s -> sc s = 0 ->
  abs (s_append s d) = match pt s with
                       | None => (fst (abs s) ++ [d], [])
                       | Some _ => (fst (abs s), snd (abs s) ++ [d])
                       end /\ wf (s_append s d).
Proof.
  unfold wf, abs, s_append. cbn [pt sg sc]. intros Hwf Hsc. rewrite Hsc. destruct (pt s) as [p|].
  - rewrite !dshift_le by lia. cbn [firstn skipn fst snd]. rewrite app_length. split; [|lia].
    rewrite firstn_app, skipn_app. replace (p - length (sg s)) with 0 by lia. cbn [firstn skipn].
    now rewrite !app_nil_r.
  - cbn [repeat fst snd]. now rewrite !app_nil_r.
Qed.

(* shift_scale k: multiplication by 10^k (digits move across the point, zeros are supplied) *)
Lemma dshift_dshift a b j k : dshift (dshift (a, b) j) k = dshift (a, b) (j + k).
Proof.
  destruct (Nat.le_gt_cases j (length b)) as [Hj|Hj].
  - rewrite (dshift_le a b j Hj).
    destruct (Nat.le_gt_cases (j + k) (length b)) as [Hk|Hk].
    + rewrite !dshift_le by (try rewrite skipn_length; lia).
      now rewrite <- app_assoc, firstn_firstn_skipn, skipn_skipn'.
    + rewrite (dshift_ge a b (j + k)) by lia.
      destruct (Nat.le_gt_cases k (length (skipn j b))) as [Hk'|Hk'].
      * rewrite skipn_length in Hk'. lia.
      * rewrite dshift_ge by lia. rewrite skipn_length. rewrite <- app_assoc.
        rewrite (app_assoc (firstn j b) (skipn j b)), firstn_skipn. now replace (k - (length b - j)) with (j + k - length b) by lia.
  - rewrite (dshift_ge a b j) by lia. rewrite (dshift_ge a b (j + k)) by lia.
    rewrite dshift_ge by (cbn; lia). cbn [length app]. rewrite <- !app_assoc, Nat.sub_0_r.
    rewrite repeat_app_add. now replace (j - length b + k) with (j + k - length b) by lia.
Qed.

Lemma abs_shift s k :
  sg s <> [] -> abs (s_shift C s k) = dshift (abs s) k /\ (wf s -> wf (s_shift C s k)).
Proof.
  intros Hne. unfold s_shift, s_is_zero, wf. destruct (sg s) as [|x l] eqn:E; [contradiction|].
  unfold abs. cbn [pt sg sc]. rewrite E. split; [|auto]. destruct (pt s) as [p|].
  - now rewrite dshift_dshift.
  - rewrite dshift_ge by (cbn; lia). cbn [length app]. rewrite Nat.sub_0_r, <- app_assoc, repeat_app_add. reflexivity.
Qed.

(* an empty number shifted by k denotes 10^k ("empty means 1") *)
Lemma abs_shift_empty s k :
  sg s = [] -> pt s = None -> sc s = 0 -> abs (s_shift C s k) = (1%N :: repeat 0%N k, []).
Proof.
  intros E Ep Es. unfold s_shift, s_is_zero, abs. cbn [pt sg sc]. now rewrite E, Ep, Es.
Qed.

Lemma abs_set_point s s' : s_set_point s = (true, s') -> abs s' = abs s /\ wf s'.
Proof.
  unfold s_set_point. destruct (sc s) eqn:Es; [|discriminate]. destruct (pt s) eqn:Ep; [discriminate|].
  intros [= <-]. unfold abs, wf. cbn [pt sg sc]. rewrite Ep, Es. split; [|lia].
  rewrite dshift_le by lia. cbn [firstn skipn repeat]. rewrite firstn_all, skipn_all. reflexivity.
Qed.

Lemma int_length_abs s s1 n :
  wf s -> s_int_length C s = (s1, n) -> s1 = s_normalize C s /\ n = length (fst (abs s)).
Proof.
  intros Hwf. unfold s_int_length. intros [= <- <-]. split; [reflexivity|].
  destruct (abs_normalize s Hwf) as (Ha & Hw & Hs & Hc). rewrite <- Ha. unfold abs.
  destruct Hc as [Hn | (Hz & p & Hp & Hlt)].
  - rewrite Hn. cbn [fst]. now rewrite app_length, repeat_length.
  - rewrite Hp, Hz. rewrite dshift_le by lia. cbn [fst firstn]. rewrite app_nil_r, firstn_length. rewrite Hs. lia.
Qed.

Lemma add_std self number :
  s_add C self number =
  if s_is_zero number then (true, self, number)
  else if s_is_zero self then (true, mkS (sg self ++ sg number) (sc number) (pt number) (az self), number)
  else
    let self1 := s_normalize C self in
    let '(number1, len) := s_int_length C number in
    if len <=? sc self1 then
      let sgz := sg self1 ++ repeat 0%N (sc self1 - len) in
      let p' := match pt number1 with Some p => Some (length sgz + p) | None => pt self1 end in
      (true, mkS (sgz ++ sg number1) (sc number1) p' (az self1), number1)
    else (false, self1, number1).
Proof. reflexivity. Qed.

(* add: when it succeeds on two non-empty numbers, self denotes hi * 10^n with n the number of integer digits of the
   addend, and the result is hi followed by the addend -- exact addition, no carry can occur *)
Lemma add_exact self number r number' :
  wf self -> wf number -> sg self <> [] -> sg number <> [] -> fst (abs number) <> [] ->
  s_add C self number = (true, r, number') ->
  exists hi, abs self = (hi ++ repeat 0%N (length (fst (abs number))), []) /\
             abs r = (hi ++ fst (abs number), snd (abs number)) /\ wf r /\ abs number' = abs number.
Proof.
  intros Hws Hwn Hns Hnn Hip. rewrite add_std. unfold s_is_zero.
  destruct (sg number) as [|xn ln] eqn:En; [contradiction|]. destruct (sg self) as [|xs ls] eqn:Es; [contradiction|].
  cbv zeta. destruct (s_int_length C number) as [number1 len] eqn:Eil.
  destruct (int_length_abs _ _ _ Hwn Eil) as (-> & ->).
  destruct (abs_normalize self Hws) as (Has & Hws1 & Hss & Hcs).
  destruct (abs_normalize number Hwn) as (Han & Hwn1 & Hsn & Hcn).
  set (self1 := s_normalize C self) in *. set (number1 := s_normalize C number) in *.
  set (len := length (fst (abs number))) in *.
  destruct (Nat.leb_spec len (sc self1)) as [Hle|Hgt]; [|discriminate].
  intros [= <- <-].
  assert (Hlen : 0 < len) by (subst len; destruct (fst (abs number)); [contradiction|cbn; lia]).
  assert (Hps : pt self1 = None) by (destruct Hcs as [H|(H & _)]; [assumption|lia]).
  exists (sg self1 ++ repeat 0%N (sc self1 - len)). split; [|split; [|split; [|assumption]]].
  - rewrite <- Has. unfold abs. rewrite Hps. rewrite <- app_assoc, repeat_app_add. do 3 f_equal. lia.
  - rewrite <- Han. unfold abs at 1. cbn [pt sg sc]. unfold abs. destruct Hcn as [Hn|(Hz & p & Hp & Hlt)].
    + rewrite Hn, Hps. cbn [fst snd]. now rewrite <- app_assoc.
    + rewrite Hp, Hz. rewrite !dshift_le by lia. cbn [firstn skipn fst snd].
      rewrite firstn_app_2, skipn_app_2. now rewrite !app_nil_r, <- app_assoc.
  - unfold wf. cbn [pt sg]. destruct Hcn as [Hn|(Hz & p & Hp & Hlt)].
    + now rewrite Hn, Hps.
    + rewrite Hp, Hsn, !app_length. lia.
Qed.

(* add refuses exactly when the integer part of the addend does not fit below the current scale *)
Lemma add_refuses self number :
  wf number -> sg self <> [] -> sg number <> [] ->
  fst (fst (s_add C self number)) = (length (fst (abs number)) <=? sc (s_normalize C self)).
Proof.
  intros Hwn Hns Hnn. rewrite add_std. unfold s_is_zero.
  destruct (sg number) as [|xn ln] eqn:En; [contradiction|]. destruct (sg self) as [|xs ls] eqn:Es; [contradiction|].
  cbv zeta. destruct (s_int_length C number) as [number1 len] eqn:Eil.
  destruct (int_length_abs _ _ _ Hwn Eil) as (-> & ->).
  now destruct (_ <=? _).
Qed.

(* numeric reading of digit strings; the sum of hi*10^n and an n-digit number is the concatenation *)
Lemma to_N_acc_app a l1 l2 : to_N_acc a (l1 ++ l2) = to_N_acc (to_N_acc a l1) l2.
Proof. revert a; induction l1; intros a0; cbn; [reflexivity|apply IHl1]. Qed.

Lemma to_N_acc_lin a l : to_N_acc a l = (a * 10 ^ N.of_nat (length l) + to_N_acc 0 l)%N.
Proof.
  revert a; induction l as [|d l IH]; intros a.
  - cbn [to_N_acc length]. change (N.of_nat 0) with 0%N. rewrite N.pow_0_r. lia.
  - cbn [to_N_acc length]. rewrite IH, (IH (10 * 0 + d)%N). rewrite Nat2N.inj_succ, N.pow_succ_r'.
    set (P := (10 ^ N.of_nat (length l))%N). lia.
Qed.

Lemma to_N_app a b : to_N (a ++ b) = (to_N a * 10 ^ N.of_nat (length b) + to_N b)%N.
Proof. unfold to_N. now rewrite to_N_acc_app, to_N_acc_lin. Qed.

Lemma to_N_zeros n : to_N (repeat 0%N n) = 0%N.
Proof. unfold to_N. induction n; cbn; [reflexivity|assumption]. Qed.

Lemma concat_is_sum hi x : (to_N (hi ++ repeat 0%N (length x)) + to_N x = to_N (hi ++ x))%N.
Proof. rewrite !to_N_app, to_N_zeros, repeat_length. lia. Qed.

(* to_string: the rendering of the denoted decimal *)
Lemma point_string_chars ipc fp :
  all_digits fp ->
  drop_last_point (strip_zeros (ipc ++ [46%N] ++ map digit_char fp)) =
  match strip_zero_digits fp with [] => ipc | f => ipc ++ 46%N :: map digit_char f end.
Proof.
  intros Hfp.
  assert (Hsz : strip_zeros ([46%N] ++ map digit_char fp) = 46%N :: map digit_char (strip_zero_digits fp)).
  { cbn [app strip_zeros]. rewrite (strip_zeros_digits _ Hfp). destruct (strip_zero_digits fp); reflexivity. }
  rewrite strip_zeros_app_nonempty by (rewrite Hsz; discriminate). rewrite Hsz.
  rewrite drop_last_point_app_digits.
  destruct (strip_zero_digits fp) as [|f fs] eqn:E; cbn [map].
  - cbn. now rewrite app_nil_r.
  - assert (Hfs : all_digits (f :: fs)).
    { clear - Hfp E. revert f fs E. induction Hfp as [|d ds Hd Hds IH]; intros f fs E; [discriminate|].
      cbn in E. destruct (strip_zero_digits ds) as [|g gs] eqn:E'.
      - destruct (N.eqb d 0); [discriminate|]. injection E as <- <-. now constructor.
      - injection E as <- <-. constructor; [assumption|]. eapply IH; reflexivity. }
    change (drop_last_point (46%N :: digit_char f :: map digit_char fs))
      with (46%N :: drop_last_point (map digit_char (f :: fs))).
    now rewrite (drop_last_point_digits _ Hfs).
Qed.

Lemma to_string_render s :
  wf s -> all_digits (sg s) -> sg s <> [] -> s_to_string C s = render (abs s).
Proof.
  intros Hwf Hd Hne. unfold s_to_string, s_is_zero. destruct (sg s) as [|x l] eqn:E; [contradiction|].
  destruct (abs_normalize s Hwf) as (Ha & Hw1 & Hs1 & Hc). rewrite <- Ha. set (s1 := s_normalize C s) in *.
  rewrite E in Hs1. unfold abs, render. destruct Hc as [Hn|(Hz & p & Hp & Hlt)].
  - rewrite Hn. cbn [fst snd strip_zero_digits]. rewrite Hs1. destruct (sc s1); cbn [app repeat]; [now rewrite app_nil_r|reflexivity].
  - rewrite Hp, Hz, Hs1. rewrite dshift_le by lia. cbn [fst snd firstn skipn]. rewrite app_nil_r.
    assert (Hfp : all_digits (skipn p (x :: l))).
    { rewrite <- (firstn_skipn p (x :: l)) in Hd. unfold all_digits in Hd. rewrite Forall_app in Hd. tauto. }
    destruct p as [|p'].
    + change (firstn 0 (x :: l)) with (@nil N). change (skipn 0 (x :: l)) with (x :: l) in *.
      change (48%N :: map digit_char [] ++ [46%N] ++ map digit_char (x :: l))
        with ([48%N] ++ [46%N] ++ map digit_char (x :: l)).
      rewrite (point_string_chars [48%N] (x :: l) Hfp). reflexivity.
    + rewrite (point_string_chars _ _ Hfp). cbn [firstn].
      destruct (strip_zero_digits (skipn (S p') (x :: l))); reflexivity.
Qed.

(* the bundle: the abstraction function commutes with every accumulator operation *)
Definition refines_decimal (cfg : ncfg) : Prop :=
  (forall s, wf s -> abs (s_normalize cfg s) = abs s /\ wf (s_normalize cfg s)) /\
  (forall s d, wf s -> sc s = 0 ->
     abs (s_append s d) = match pt s with None => (fst (abs s) ++ [d], []) | Some _ => (fst (abs s), snd (abs s) ++ [d]) end
     /\ wf (s_append s d)) /\
  (forall s k, sg s <> [] -> abs (s_shift cfg s k) = dshift (abs s) k /\ (wf s -> wf (s_shift cfg s k))) /\
  (forall s k, sg s = [] -> pt s = None -> sc s = 0 -> abs (s_shift cfg s k) = (1%N :: repeat 0%N k, [])) /\
  (forall s s', s_set_point s = (true, s') -> abs s' = abs s /\ wf s') /\
  (forall self number r number',
     wf self -> wf number -> sg self <> [] -> sg number <> [] -> fst (abs number) <> [] ->
     s_add cfg self number = (true, r, number') ->
     exists hi, abs self = (hi ++ repeat 0%N (length (fst (abs number))), []) /\
                abs r = (hi ++ fst (abs number), snd (abs number)) /\ wf r /\ abs number' = abs number /\
                (to_N (fst (abs self)) + to_N (fst (abs number)) = to_N (fst (abs r)))%N) /\
  (forall self number, wf number -> sg self <> [] -> sg number <> [] ->
     fst (fst (s_add cfg self number)) = (length (fst (abs number)) <=? sc (s_normalize cfg self))) /\
  (forall s, wf s -> all_digits (sg s) -> sg s <> [] -> s_to_string cfg s = render (abs s)).

Theorem string_arith_refines_decimal_std : refines_decimal C.
Proof.
  repeat split.
  - now apply abs_normalize.
  - now apply abs_normalize.
  - now apply abs_append.
  - now apply abs_append.
  - now apply abs_shift.
  - now apply abs_shift.
  - apply abs_shift_empty.
  - eapply abs_set_point; eassumption.
  - eapply abs_set_point; eassumption.
  - intros self number r number' H1 H2 H3 H4 H5 H6.
    destruct (add_exact _ _ _ _ H1 H2 H3 H4 H5 H6) as (hi & Ha & Hr & Hw & Hn).
    exists hi. repeat split; try assumption. rewrite Ha, Hr. cbn [fst]. apply concat_is_sum.
  - apply add_refuses.
  - apply to_string_render.
Qed.

Theorem string_arith_refines_decimal cfg : cfg = std_cfg -> refines_decimal cfg.
Proof. intros ->. exact string_arith_refines_decimal_std. Qed.

Theorem plain_digits cfg cs ds :
  cfg = std_cfg -> Forall2 digit_of cs ds -> ds <> [] -> parse cfg cs = (true, 0%N, map digit_char ds).
Proof. intros ->. apply plain_digits_std. Qed.

Theorem fraction cfg ic fc ip fp :
  cfg = std_cfg -> Forall2 digit_of ic ip -> Forall2 digit_of fc fp -> ip <> [] -> fp <> [] ->
  parse cfg (ic ++ 46%N :: fc) = (true, 0%N, render (ip, fp)).
Proof. intros ->. apply fraction_std. Qed.

(* ------------------------------------------------------------------ closed form: unit notation below 10^4 (exhaustive) *)
Inductive slot := Absent | Implicit | Coef (kanji : bool) (d : N).

Definition kanji_digit (d : N) : N :=
  nth (N.to_nat d) [12295; 19968; 20108; 19977; 22235; 20116; 20845; 19971; 20843; 20061]%N 0%N.
Definition dchar (k : bool) (d : N) : N := if k then kanji_digit d else (48 + d)%N.
Definition coefs : list slot := flat_map (fun d => [Coef false d; Coef true d]) [1; 2; 3; 4; 5; 6; 7; 8; 9]%N.
Definition slots : list slot := Absent :: Implicit :: coefs.
Definition ones : list slot := Absent :: coefs.
Definition slot_text (u : N) (sl : slot) : list N :=
  match sl with Absent => [] | Implicit => [u] | Coef k d => [dchar k d; u] end.
Definition ones_text (sl : slot) : list N := match sl with Coef k d => [dchar k d] | _ => [] end.
Definition slot_val (sl : slot) : N := match sl with Absent => 0 | Implicit => 1 | Coef _ d => d end.
Definition is_absent (sl : slot) : bool := match sl with Absent => true | _ => false end.

(* [d]千 [d]百 [d]十 [d] : coefficient absent (= 1) or a digit 1..9 in Arabic or kanji form *)
Definition su_text (a b c o : slot) : list N :=
  slot_text 21315 a ++ slot_text 30334 b ++ slot_text 21313 c ++ ones_text o.
Definition su_val (a b c o : slot) : N := (1000 * slot_val a + 100 * slot_val b + 10 * slot_val c + slot_val o)%N.

Fixpoint strip_leading (l : list N) : list N :=
  match l with
  | d :: (_ :: _) as t => if N.eqb d 0 then strip_leading t else l
  | _ => l
  end.
(* decimal digits of n < 10^4 *)
Definition dec4 (n : N) : list N := strip_leading [n / 1000; (n / 100) mod 10; (n / 10) mod 10; n mod 10]%N.

Definition su_ok (cfg : ncfg) (a b c o : slot) : bool :=
  (is_absent a && is_absent b && is_absent c && is_absent o) ||
  match parse cfg (su_text a b c o) with
  | (true, 0%N, s) => text_eqb s (map digit_char (dec4 (su_val a b c o)))
  | _ => false
  end.
Definition su_all (cfg : ncfg) : bool :=
  forallb (fun a => forallb (fun b => forallb (fun c => forallb (fun o => su_ok cfg a b c o) ones) slots) slots) slots.

Lemma su_all_std : su_all C = true.
Proof. vm_compute. reflexivity. Qed.

Lemma text_eqb_eq a b : text_eqb a b = true -> a = b.
Proof.
  revert b; induction a as [|x a IH]; intros [|y b]; cbn; try discriminate; [reflexivity|].
  intros H. apply andb_prop in H. destruct H as [H1 H2]. apply N.eqb_eq in H1. subst. f_equal. now apply IH.
Qed.

(* generic in the configuration: nothing can be unfolded by the kernel while this is checked *)
Lemma su_all_forall cfg a b c o :
  su_all cfg = true ->
  In a slots -> In b slots -> In c slots -> In o ones ->
  is_absent a && is_absent b && is_absent c && is_absent o = false ->
  parse cfg (su_text a b c o) = (true, 0%N, map digit_char (dec4 (su_val a b c o))).
Proof.
  intros H Ha Hb Hc Ho Hne. unfold su_all in H.
  rewrite forallb_forall in H. specialize (H a Ha). rewrite forallb_forall in H. specialize (H b Hb).
  rewrite forallb_forall in H. specialize (H c Hc). rewrite forallb_forall in H. specialize (H o Ho).
  unfold su_ok in H. rewrite Hne in H. cbn [orb] in H.
  destruct (parse cfg (su_text a b c o)) as [[[|] e] s]; [|discriminate].
  destruct e; [|discriminate]. apply text_eqb_eq in H. now subst.
Qed.

Theorem small_units cfg a b c o :
  cfg = std_cfg -> In a slots -> In b slots -> In c slots -> In o ones ->
  is_absent a && is_absent b && is_absent c && is_absent o = false ->
  parse cfg (su_text a b c o) = (true, 0%N, map digit_char (dec4 (su_val a b c o))).
Proof. intros ->. apply su_all_forall. exact su_all_std. Qed.
