(* Lemmas about Model/Numeric.v, proved for the configuration [std_cfg]; the generic forms at the end take any
   configuration equal to it (the equality is a decidable obligation on the generated facts). *)
From Coq Require Import List NArith ZArith Bool Arith Lia ZifyBool ZifyNat ZifyN.
From SudachiVerif Require Import Model.Numeric.
Import ListNotations.

Arguments N.add : simpl never.
Arguments N.mul : simpl never.
Arguments N.ltb : simpl never.
Arguments N.leb : simpl never.
Arguments N.eqb : simpl never.

Notation C := std_cfg.

(* ------------------------------------------------------------------ list helpers *)
Lemma firstn_app_exact {A} (a b : list A) : firstn (length a) (a ++ b) = a.
Proof. induction a; cbn; congruence. Qed.

Lemma skipn_app_exact {A} (a b : list A) : skipn (length a) (a ++ b) = b.
Proof. induction a; cbn; congruence. Qed.

Lemma firstn_repeat {A} (x : A) n k : firstn k (repeat x n) = repeat x (Nat.min k n).
Proof. revert k; induction n; intros [|k]; cbn; try reflexivity. now rewrite IHn. Qed.

Lemma repeat_app_add {A} (x : A) a b : repeat x a ++ repeat x b = repeat x (a + b).
Proof. induction a; cbn; congruence. Qed.

(* ------------------------------------------------------------------ digits *)
Definition digit_of (c d : N) : Prop := lookup_char std_table c = Some (Z.of_N d) /\ (d < 10)%N.

Definition app_digits (s : snum) (ds : list N) : snum := fold_left s_append ds s.

Lemma app_digits_fields s ds :
  sg (app_digits s ds) = sg s ++ ds /\ sc (app_digits s ds) = sc s /\ pt (app_digits s ds) = pt s.
Proof.
  unfold app_digits. revert s. induction ds as [|d ds IH]; intros s; cbn [fold_left].
  - now rewrite app_nil_r.
  - destruct (IH (s_append s d)) as (H1 & H2 & H3). rewrite H1, H2, H3. cbn. now rewrite <- app_assoc.
Qed.

Lemma app_digits_az s ds : az (app_digits s ds) = az s && forallb (fun d => N.eqb d 0) ds.
Proof.
  unfold app_digits. revert s. induction ds as [|d ds IH]; intros s; cbn [fold_left forallb].
  - now rewrite andb_true_r.
  - rewrite IH. cbn. destruct (N.eqb d 0), (az s); reflexivity.
Qed.

Lemma digit_not_sep c d : digit_of c d -> c <> 46%N /\ c <> 44%N.
Proof. intros [H _]. split; intros ->; vm_compute in H; discriminate. Qed.

Lemma append_digit p c d :
  digit_of c d ->
  p_append C p c = (true, mkP (S (dl p)) false (hc p) false (er p) (tot p) (sub p) (s_append (tmp p) d)).
Proof.
  intros Hd. destruct (digit_not_sep _ _ Hd) as [H46 H44]. destruct Hd as [Hl Hlt].
  unfold p_append. cbn [point_c comma_c table C].
  destruct (N.eqb_spec c 46); [contradiction|]. destruct (N.eqb_spec c 44); [contradiction|].
  rewrite Hl. unfold is_small_unit, is_large_unit. cbn [small_lo small_hi large_below C].
  replace (Z.ltb (Z.of_N d) 0) with false by lia. rewrite andb_false_r.
  replace (Z.ltb (Z.of_N d) (-3)) with false by lia. now rewrite N2Z.id.
Qed.

Definition after_digits (p : parser) (ds : list N) : parser :=
  match ds with
  | [] => p
  | _ => mkP (dl p + length ds) false (hc p) false (er p) (tot p) (sub p) (app_digits (tmp p) ds)
  end.

Lemma feed_digits cs ds : Forall2 digit_of cs ds -> forall p, p_feed C p cs = (true, after_digits p ds).
Proof.
  induction 1 as [|c d cs ds Hd _ IH]; intros p; [reflexivity|].
  cbn [p_feed]. rewrite (append_digit _ _ _ Hd). rewrite IH. f_equal.
  destruct ds as [|d' ds']; cbn [after_digits dl hc er tot sub tmp length].
  - now rewrite Nat.add_1_r.
  - f_equal. lia.
Qed.

Lemma p_feed_app p a b :
  p_feed C p (a ++ b) = (let '(ok, p') := p_feed C p a in if ok then p_feed C p' b else (false, p')).
Proof.
  revert p. induction a as [|c a IH]; intros p; cbn [app p_feed]; [reflexivity|].
  destruct (p_append C p c) as [[|] p']; [apply IH|reflexivity].
Qed.

(* ------------------------------------------------------------------ done() on a single accumulated number *)
Definition s0 : snum := mkS [] 0 None true.

Lemma done_single p :
  tot p = s0 -> sub p = s0 -> hp p = false -> hc p = false -> sg (tmp p) <> [] ->
  exists p', p_done C p = (true, p') /\ er p' = er p /\
             tot p' = mkS (sg (tmp p)) (sc (tmp p)) (pt (tmp p)) true.
Proof.
  intros Ht Hs Hhp Hhc Hne. unfold p_done. rewrite Ht, Hs, Hhp, Hhc.
  unfold s_add at 1. unfold s_is_zero. destruct (sg (tmp p)) as [|x l] eqn:E; [contradiction|].
  cbn [sg s0 app sc pt az]. unfold s_add. unfold s_is_zero. cbn [sg app sc pt az s0 andb].
  eexists; split; [reflexivity|]. cbn. split; reflexivity.
Qed.

(* ------------------------------------------------------------------ rendering helpers *)
Definition all_digits (ds : list N) : Prop := Forall (fun d => (d < 10)%N) ds.

Lemma digit_char_zero d : (d < 10)%N -> N.eqb (digit_char d) 48 = N.eqb d 0.
Proof. intros H. unfold digit_char. destruct (N.eqb_spec d 0), (N.eqb_spec (48 + d) 48); lia. Qed.

Lemma digit_char_not_point d : (d < 10)%N -> N.eqb (digit_char d) 46 = false.
Proof. intros H. unfold digit_char. lia. Qed.

Lemma strip_zeros_digits ds :
  all_digits ds -> strip_zeros (map digit_char ds) = map digit_char (strip_zero_digits ds).
Proof.
  induction 1 as [|d ds Hd _ IH]; [reflexivity|].
  cbn [map strip_zeros strip_zero_digits]. rewrite IH.
  destruct (strip_zero_digits ds); cbn [map].
  - rewrite (digit_char_zero _ Hd). now destruct (N.eqb d 0).
  - reflexivity.
Qed.

Lemma strip_zeros_app_nonempty a b : strip_zeros b <> [] -> strip_zeros (a ++ b) = a ++ strip_zeros b.
Proof.
  intros Hb. induction a as [|x a IH]; [reflexivity|]. cbn [app strip_zeros]. rewrite IH.
  destruct (a ++ strip_zeros b) eqn:E; [|reflexivity].
  apply app_eq_nil in E. tauto.
Qed.

Lemma drop_last_point_app_digits a d r :
  drop_last_point (a ++ d :: r) = a ++ drop_last_point (d :: r).
Proof.
  induction a as [|x a IH]; [reflexivity|].
  destruct a as [|y a']; [reflexivity|].
  change (drop_last_point ((x :: y :: a') ++ d :: r)) with (x :: drop_last_point ((y :: a') ++ d :: r)).
  now rewrite IH.
Qed.

Lemma drop_last_point_digits ds : all_digits ds -> drop_last_point (map digit_char ds) = map digit_char ds.
Proof.
  induction 1 as [|d ds Hd Hds IH]; [reflexivity|].
  destruct ds as [|d' ds'].
  - cbn [map drop_last_point]. now rewrite (digit_char_not_point _ Hd).
  - change (drop_last_point (map digit_char (d :: d' :: ds')))
      with (digit_char d :: drop_last_point (map digit_char (d' :: ds'))).
    now rewrite IH.
Qed.

(* the characters produced by to_string for "ip . fp" are the rendering of the decimal (ip, fp) *)
Lemma point_string_render ip fp :
  all_digits ip -> all_digits fp -> ip <> [] ->
  drop_last_point (strip_zeros (map digit_char ip ++ [46%N] ++ map digit_char fp)) = render (ip, fp).
Proof.
  intros Hip Hfp Hne. unfold render. cbn [fst snd].
  destruct ip as [|i0 ip']; [contradiction|].
  set (ipc := map digit_char (i0 :: ip')).
  assert (Hsz : strip_zeros ([46%N] ++ map digit_char fp) =
                46%N :: map digit_char (strip_zero_digits fp)).
  { cbn [app strip_zeros]. rewrite (strip_zeros_digits _ Hfp). destruct (strip_zero_digits fp); reflexivity. }
  rewrite strip_zeros_app_nonempty by (rewrite Hsz; discriminate). rewrite Hsz.
  rewrite drop_last_point_app_digits.
  destruct (strip_zero_digits fp) as [|f fs] eqn:E; cbn [map].
  - cbn. now rewrite app_nil_r.
  - assert (Hfs : all_digits (f :: fs)).
    { clear - Hfp E. revert f fs E. induction Hfp as [|d ds Hd Hds IH]; intros f fs E; [discriminate|].
      cbn in E. destruct (strip_zero_digits ds) as [|g gs] eqn:E'.
      - destruct (N.eqb d 0); [discriminate|]. injection E as <- <-. now constructor.
      - injection E as <- <-. constructor; [assumption|]. eapply IH; reflexivity. }
    change (drop_last_point (46%N :: digit_char f :: map digit_char fs))
      with (46%N :: drop_last_point (map digit_char (f :: fs))).
    now rewrite (drop_last_point_digits _ Hfs).
Qed.

(* ------------------------------------------------------------------ closed form: plain digit strings *)
Lemma Forall2_digits_all cs ds : Forall2 digit_of cs ds -> all_digits ds.
Proof. induction 1 as [|c d cs ds [_ H] _ IH]; constructor; assumption. Qed.

Theorem plain_digits_std cs ds :
  Forall2 digit_of cs ds -> ds <> [] -> parse C cs = (true, 0%N, map digit_char ds).
Proof.
  intros H Hne. unfold parse. rewrite (feed_digits _ _ H).
  destruct ds as [|d ds']; [contradiction|]. cbn [after_digits].
  set (p := mkP _ _ _ _ _ _ _ _).
  destruct (done_single p) as (p' & Hd & He & Ht); try reflexivity.
  { subst p. cbn [tmp]. destruct (app_digits_fields (tmp (p_new C)) (d :: ds')) as (-> & _). cbn. discriminate. }
  rewrite Hd, He, Ht. subst p. cbn [er tmp p_new].
  destruct (app_digits_fields (s_new C) (d :: ds')) as (-> & -> & ->). cbn [s_new sg sc pt C new_sc app].
  reflexivity.
Qed.

(* ------------------------------------------------------------------ closed form: fractions *)
Theorem fraction_std ic fc ip fp :
  Forall2 digit_of ic ip -> Forall2 digit_of fc fp -> ip <> [] -> fp <> [] ->
  parse C (ic ++ 46%N :: fc) = (true, 0%N, render (ip, fp)).
Proof.
  intros Hi Hf Hni Hnf. unfold parse. rewrite p_feed_app, (feed_digits _ _ Hi).
  destruct ip as [|i0 ip']; [contradiction|]. cbn [after_digits].
  cbn [p_feed]. unfold p_append at 1. cbn [point_c C N.eqb]. rewrite N.eqb_refl.
  cbn [fd hc andb dl er tot sub tmp hp p_new].
  unfold s_set_point.
  destruct (app_digits_fields (s_new C) (i0 :: ip')) as (Hsg & Hsc & Hpt). rewrite Hsc, Hpt. cbn [s_new sc pt C new_sc].
  rewrite (feed_digits _ _ Hf). destruct fp as [|f0 fp']; [contradiction|]. cbn [after_digits dl hc er tot sub tmp].
  set (p := mkP _ _ _ _ _ _ _ _).
  destruct (done_single p) as (p' & Hd & He & Ht); try reflexivity.
  { subst p. cbn [tmp]. destruct (app_digits_fields (mkS (sg (app_digits (s_new C) (i0 :: ip'))) 0 (Some (length (sg (app_digits (s_new C) (i0 :: ip'))))) (az (app_digits (s_new C) (i0 :: ip')))) (f0 :: fp')) as (-> & _).
    cbn [sg]. intros E. apply app_eq_nil in E. destruct E; discriminate. }
  rewrite Hd, He, Ht. subst p. cbn [er tmp].
  match goal with |- context [app_digits ?s (f0 :: fp')] => destruct (app_digits_fields s (f0 :: fp')) as (-> & -> & ->) end.
  cbn [sg sc pt]. rewrite Hsg. cbn [s_new sg app].
  f_equal. unfold s_to_string, s_is_zero. cbn [sg app].
  unfold s_normalize. cbn [pt sg sc norm_cmp C cmp_nat].
  replace (0 <? length (i0 :: ip' ++ f0 :: fp') - length (i0 :: ip')) with true
    by (cbn [length]; rewrite app_length; cbn [length]; symmetry; apply Nat.ltb_lt; lia).
  cbn [sc pt sg]. rewrite Nat.add_0_r.
  change (i0 :: ip' ++ f0 :: fp') with ((i0 :: ip') ++ f0 :: fp').
  rewrite firstn_app_exact, skipn_app_exact. cbn [length].
  apply point_string_render; [eapply Forall2_digits_all; eassumption | eapply Forall2_digits_all; eassumption | discriminate].
Qed.
