(* The composed tokenizer (Model/Tokenizer.v: tokenize_model) answers Ok with morphemes that partition the original text,
   with lossless surfaces and code-point offsets equal to code-point counts, and its lattice path is optimal among all
   covering chains of offered candidates.  Composition of
     C07 (Proofs/NormalizeBuffer.v)   plugin stacks -> reachable buffer whose text is the encoding of the specified text
     C04 (Proofs/LookupLattice.v)     dictionary candidates are well-formed lattice nodes
     C13 (Proofs/OovWf.v, OovLattice.v)  provider candidates are well formed; with the Simple fallback the lattice connects
     C02 (Proofs/BuildOptimal.v, LatticeProofs.v)  the tokenizer loop yields an optimal chain of offered candidates
     C14 (Proofs/RewriteTermination.v, RewriteProofs.v)  path rewriting terminates and is a grouping
     C09 (Proofs/SplitProofs.v)       splitting under well-formed declarations is a tiling
     C01 (Proofs/PipelineFull.v), C08 (Proofs/BufferCharProofs.v)  partition of the original, Morpheme offsets. *)
From Coq Require Import String List NArith ZArith Bool Arith Lia Relations.
From SudachiVerif Require Import Model.Buffer Proofs.BufferProofs Proofs.BufferCharProofs.
From SudachiVerif Require Import Model.Lattice Model.BuildLattice Proofs.LatticeProofs Proofs.BuildLatticeProofs Proofs.BuildOptimal.
From SudachiVerif Require Import Model.LexSet Model.DictCands Model.Tokenizer.
From SudachiVerif Require Proofs.PipelineProofs Proofs.PipelineFull Proofs.NormalizeBuffer Model.Normalize.
From SudachiVerif Require Proofs.TrieProofs Proofs.LookupLattice Model.Trie.
From SudachiVerif Require Model.Oov Proofs.OovWf Proofs.OovLattice Proofs.TotalitySimple.
From SudachiVerif Require Model.Rewrite Proofs.RewriteProofs Proofs.RewriteTermination Model.Split Proofs.SplitProofs.
Import ListNotations.
Local Open Scope nat_scope.

Module PP := SudachiVerif.Proofs.PipelineProofs.
Module LL := SudachiVerif.Proofs.LookupLattice.
Module TP := SudachiVerif.Proofs.TrieProofs.
Module Tr := SudachiVerif.Model.Trie.
Module W := SudachiVerif.Proofs.OovWf.
Module RP := SudachiVerif.Proofs.RewriteProofs.
Module RT := SudachiVerif.Proofs.RewriteTermination.
Module SP := SudachiVerif.Proofs.SplitProofs.
Notation enc := PF.enc.
Notation utf8 := PF.utf8.

(* ------------------------------------------------------------------ UTF-8 encodings are what the trie model calls a
   whole number of characters (lead byte of the right width followed by continuation bytes), for Unicode scalar values *)
Definition scalar (c : N) : Prop := (c < 1114112)%N.

Ltac Zify.zify_post_hook ::= Z.div_mod_to_equations.
Lemma utf8_chars c : scalar c ->
  exists b conts, utf8 c = b :: conts /\ Tr.lead_width b = S (length conts) /\
                  Forall (fun x => Tr.cont_byte x = true) conts /\ Forall (fun k => (k < 256)%N) (utf8 c).
Proof.
  unfold scalar, PF.utf8. intros Hc.
  assert (Hcont : forall x, Tr.cont_byte (128 + x mod 64)%N = true).
  { intros x. unfold Tr.cont_byte. pose proof (N.mod_upper_bound x 64 ltac:(lia)).
    apply andb_true_iff. split; [apply N.leb_le | apply N.ltb_lt]; lia. }
  assert (Hlt : forall x, (128 + x mod 64 < 256)%N) by (intros x; pose proof (N.mod_upper_bound x 64 ltac:(lia)); lia).
  destruct (N.ltb_spec c 128) as [H1|H1]; [|destruct (N.ltb_spec c 2048) as [H2|H2]; [|destruct (N.ltb_spec c 65536) as [H3|H3]]].
  - exists c, []. repeat split; [|constructor|repeat constructor; lia].
    unfold Tr.lead_width. replace (c <? 128)%N with true by (symmetry; apply N.ltb_lt; lia). reflexivity.
  - eexists; eexists. split; [reflexivity|]. split; [|split; [repeat constructor; apply Hcont | repeat constructor; try apply Hlt; lia]].
    unfold Tr.lead_width.
    replace (192 + c / 64 <? 128)%N with false by (symmetry; apply N.ltb_ge; lia).
    replace (192 + c / 64 <? 192)%N with false by (symmetry; apply N.ltb_ge; lia).
    replace (192 + c / 64 <? 224)%N with true by (symmetry; apply N.ltb_lt; lia). reflexivity.
  - eexists; eexists. split; [reflexivity|]. split; [|split; [repeat constructor; apply Hcont | repeat constructor; try apply Hlt; lia]].
    unfold Tr.lead_width.
    replace (224 + c / 4096 <? 128)%N with false by (symmetry; apply N.ltb_ge; lia).
    replace (224 + c / 4096 <? 192)%N with false by (symmetry; apply N.ltb_ge; lia).
    replace (224 + c / 4096 <? 224)%N with false by (symmetry; apply N.ltb_ge; lia).
    replace (224 + c / 4096 <? 240)%N with true by (symmetry; apply N.ltb_lt; lia). reflexivity.
  - eexists; eexists. split; [reflexivity|]. split; [|split; [repeat constructor; apply Hcont | repeat constructor; try apply Hlt; lia]].
    unfold Tr.lead_width.
    replace (240 + c / 262144 <? 128)%N with false by (symmetry; apply N.ltb_ge; lia).
    replace (240 + c / 262144 <? 192)%N with false by (symmetry; apply N.ltb_ge; lia).
    replace (240 + c / 262144 <? 224)%N with false by (symmetry; apply N.ltb_ge; lia).
    replace (240 + c / 262144 <? 240)%N with false by (symmetry; apply N.ltb_ge; lia). reflexivity.
Qed.
Ltac Zify.zify_post_hook ::= idtac.

Lemma enc_chars_ok : forall t, Forall scalar t -> Tr.chars_ok (enc t) /\ TP.bytes (enc t).
Proof.
  induction t as [|c t IH]; intros H; [split; constructor|].
  inversion H as [|? ? Hc Ht]; subst. destruct (IH Ht) as [I1 I2].
  destruct (utf8_chars c Hc) as (b & conts & Hu & Hw & Hco & Hb).
  cbn [PF.enc flat_map]. fold (enc t). split.
  - rewrite Hu. cbn [app]. constructor; assumption.
  - unfold TP.bytes in *. apply Forall_app. split; assumption.
Qed.

(* ------------------------------------------------------------------ number of characters of an encoded text *)
Lemma count_leads_enc : forall t, count_leads (enc t) = length t.
Proof.
  induction t as [|c t IH]; [reflexivity|]. cbn [PF.enc flat_map length]. fold (enc t). rewrite count_leads_app, IH.
  destruct (PF.utf8_shape c) as (b & r & Hu & Hl & _). pose proof (PF.utf8_tail_cont c b r Hu) as Hr. rewrite Hu.
  cbn [count_leads]. rewrite Hl. f_equal. clear - Hr. induction Hr as [|x r Hx _ IH]; [reflexivity|]. cbn [count_leads]. now rewrite Hx.
Qed.

Lemma nchars_enc : forall t, PP.nchars (enc t) = length t.
Proof. intros t. unfold PP.nchars, mod_c2b. rewrite app_length, c2b_scan_length, count_leads_enc. cbn. lia. Qed.

Lemma char_len_enc : forall t, char_len (enc t) = length t.
Proof. intros. unfold char_len. apply count_leads_enc. Qed.

(* the byte offset of character index |p1| of enc (p1 ++ p2) is |enc p1| *)
Lemma c2b_enc_prefix : forall cfg, cfg_ok cfg = true -> forall p1 p2, p1 ++ p2 <> [] ->
  to_curr_byte_idx (enc (p1 ++ p2)) (length p1) = Some (length (enc p1)).
Proof.
  intros cfg Hcfg p1 p2 Hne.
  assert (Hb : is_boundary (enc (p1 ++ p2)) (length (enc p1)) = true) by (rewrite PF.enc_length; apply PF.enc_boundary).
  assert (Hn : enc (p1 ++ p2) <> []) by (apply NormalizeBuffer.enc_nonempty; exact Hne).
  apply (to_curr_byte_idx_of_ch_idx cfg Hcfg _ _ _ (PF.enc_wf _) Hn Hb).
  rewrite (ch_idx_boundary cfg Hcfg _ _ (PF.enc_wf _) Hn Hb). f_equal.
  rewrite PF.enc_app, firstn_app, Nat.sub_diag, firstn_all. cbn [firstn]. rewrite app_nil_r. apply count_leads_enc.
Qed.

(* ------------------------------------------------------------------ stage 1: the input-text plugin stack *)
Section Stack.
  Hypothesis F_slow : Generated.NormalizeFacts.slow_search_earliest = false.
  Hypothesis F_guard : Generated.NormalizeFacts.lowercase_guard_is_uppercase = false.
  Hypothesis F_path : Generated.NormalizeFacts.path_guard_is_uppercase = false.
  Variable cfg : bcfg.
  Hypothesis Hcfg : cfg_ok cfg = true.
  Hypothesis Hrc : c_resolve_cmp cfg = ">"%string.
  Hypothesis Hcc : c_commit_cmp cfg = ">"%string.
  Hypothesis Hcl : (Z.of_N (c_commit_limit cfg) < 18446744073709551616)%Z.

  Lemma run_stack_ok : forall t0 ps s t,
    Forall NB.plugin_wf ps -> NB.stack_nonempty ps t -> NB.stack_fits cfg ps t ->
    PF.ReachU cfg (enc t0) s -> cur s = enc t ->
    exists s', run_stack cfg ps s t = Ok (s', NB.stack_spec ps t) /\
               PF.ReachU cfg (enc t0) s' /\ cur s' = enc (NB.stack_spec ps t).
  Proof.
    intros t0. induction ps as [|p ps IH]; intros s t Hwf Hne Hfit HR Hcur.
    - exists s. cbn [run_stack NB.stack_spec]. auto.
    - inversion Hwf as [|? ? Hp Hps]; subst. cbn [NB.stack_nonempty] in Hne. destruct Hne as [Hn1 Hn2].
      cbn [NB.stack_fits] in Hfit. destruct Hfit as (Ha & Hb & Hc).
      pose proof (reach_inv cfg Hcfg _ _ (PF.enc_wf t0) (PF.reachU_reach cfg _ _ HR)) as (_ & HB & _).
      pose proof (BMap_length _ _ _ HB) as Hlen.
      pose proof (NB.plugin_apply F_slow F_guard F_path p t Hp) as Happ.
      destruct (NB.tr_commit cfg Hcfg t s _ _ Hcur Hlen Happ) as [_ HBk].
      destruct (HBk (NB.within_from_simple cfg t _ _ Hrc Ha) (NB.commit_within_simple cfg _ Hcc Hcl Hb)) as [s1 Hc1].
      destruct (NB.plugin_step F_slow F_guard F_path cfg Hcfg t0 s t p s1 HR Hcur Hp Hn1 Hc1) as [HR1 Hcur1].
      destruct (IH s1 _ Hps Hn2 Hc HR1 Hcur1) as (s' & Hrun & HR' & Hcur').
      exists s'. cbn [run_stack NB.stack_spec]. rewrite Hc1, Happ. auto.
  Qed.
End Stack.

(* ------------------------------------------------------------------ stage 2: candidates, lattice, best path *)
Section LatticeStage.
  Hypothesis Hfwd : O.OF.continuity_forward = true.
  Hypothesis Hfix : O.OF.regex_ignores_empty_match = true.
  Variable cfg : bcfg.
  Hypothesis Hcfg : cfg_ok cfg = true.
  Variable tk : tokenizer.
  Variable t : list N.
  Hypothesis Hsc : Forall scalar t.
  Hypothesis Hkeys : forall L, In L (tk_lexs tk) -> LL.lex_keys_utf8 L.

  Let n := length t.
  Let cs := classes tk t.
  Let dict := dict_onodes cfg tk t.
  Let conn := tk_conn tk.
  Let offered_ := offered_at cfg tk t.

  Lemma classes_length : length cs = n.
  Proof. unfold cs, classes. apply map_length. Qed.

  (* C04: the dictionary candidates of every position are well-formed *)
  Lemma dict_onodes_wf : forall p m, In m (dict p) -> W.cand_wf n p m.
  Proof.
    intros p m H. unfold dict, dict_onodes, dict_ids in H.
    destruct (Nat.ltb_spec p (length t)) as [Hp|Hp]; [|contradiction].
    apply in_map_iff in H. destruct H as ([w ec] & <- & Hin). cbn [fst snd].
    destruct (enc_chars_ok t Hsc) as [Hch Hby].
    assert (Hnode : In (let '(l, r, c) := tk_params tk w in mkNode p ec l r c)
                       (dict_cands cfg (tk_lexs tk) (tk_params tk) (bow_at cfg tk t) (tb t) p)).
    { unfold dict_cands. apply in_map_iff. exists (w, ec). split; [reflexivity | exact Hin]. }
    pose proof (LL.dict_cands_wf cfg Hcfg (tk_lexs tk) (tk_params tk) (bow_at cfg tk t) (tb t) p _ Hkeys Hby Hch
                  ltac:(unfold tb; rewrite nchars_enc; exact Hp) Hnode) as Hwf.
    unfold tb in Hwf. rewrite nchars_enc in Hwf.
    destruct (tk_params tk w) as [[l r] c]. destruct Hwf as (H1 & H2 & H3). cbn [nbeg nend] in *.
    unfold W.cand_wf. cbn [O.n_begin O.n_end]. fold n. lia.
  Qed.

  Hypothesis Horacle : forall q, In q (tk_provs tk) -> W.provider_oracle_ok q n.

  Lemma offered_wf : forall p m, In m (offered offered_ OL.no_fallback p) -> node_wf n p m.
  Proof.
    intros p m H. rewrite <- classes_length.
    apply (OL.offered_wf_oov Hfwd Hfix cs (tk_provs tk) dict); [rewrite classes_length; exact dict_onodes_wf | rewrite classes_length; exact Horacle | exact H].
  Qed.

  (* the loop with ids is the loop of Model/BuildLattice.v *)
  Lemma loop_ids_fst : forall todo L ids p,
    option_map fst (loop_ids cfg tk t L ids p todo) = loop conn offered_ OL.no_fallback L p todo.
  Proof.
    induction todo as [|k IH]; intros L ids p; [reflexivity|].
    cbn [loop_ids loop]. unfold step. fold offered_. fold conn.
    destruct (has_previous_node L p); [|apply IH].
    destruct (offered_ p) as [|x xs] eqn:E; [reflexivity|]. cbn [OL.no_fallback]. apply IH.
  Qed.

  Variable o : O.oovdef.
  Hypothesis Hsimple : O.fallback_of (tk_provs tk) = Some (O.PSimple o).
  Hypothesis Hprov : forall p, p < n -> exists st, O.normal_pass (O.mk_ctx cs) (tk_provs tk) p (dict p) = O.ROk st.
  Hypothesis Hne : t <> [].

  (* C13 + C03 + C02: the lattice gets built and connected; it is the insertion of a well-formed node list; its EOS cost is
     attained by, and minimal among, the chains of offered candidates *)
  Theorem lattice_stage :
    exists L ids r i c ins,
      loop_ids cfg tk t (reset n) [] 0 n = Some (L, ids) /\
      connect_eos conn L = Some (r, i, c) /\
      L = insert_all conn (reset n) ins /\ nodes_ok n ins /\
      (forall m, In m ins -> Offered offered_ OL.no_fallback m) /\
      (exists p, chainP (Offered offered_ OL.no_fallback) 0 n p /\ path_cost conn p = c) /\
      (forall p, chainP (Offered offered_ OL.no_fallback) 0 n p -> (c <= path_cost conn p)%Z).
  Proof.
    assert (Hpos : 0 < n) by (unfold n; destruct t; [contradiction | cbn; lia]).
    destruct (OL.lattice_total_oov Hfwd Hfix cs (tk_provs tk) dict o) with (conn := conn) as (L & e & Hb).
    { rewrite classes_length. exact dict_onodes_wf. }
    { rewrite classes_length. exact Horacle. }
    { exact Hsimple. }
    { rewrite classes_length. exact Hprov. }
    rewrite classes_length in Hb. fold offered_ in Hb. destruct e as [[r i] c].
    pose proof (build_optimal conn offered_ OL.no_fallback n offered_wf L r i c Hpos Hb) as [Hatt Hmin].
    unfold build in Hb.
    match type of Hb with match ?X with _ => _ end = _ => destruct X as [L1|] eqn:El end; [|discriminate].
    match type of Hb with match ?X with _ => _ end = _ => destruct X as [e1|] eqn:Ee end; [|discriminate].
    inversion Hb; subst L1 e1; clear Hb.
    change (loop conn offered_ OL.no_fallback (reset n) 0 n = Some L) in El. change (connect_eos conn L = Some (r, i, c)) in Ee.
    pose proof (loop_ids_fst n (reset n) [] 0) as Hf. rewrite El in Hf.
    destruct (loop_ids cfg tk t (reset n) [] 0 n) as [[L2 ids]|] eqn:Eli; cbn in Hf; [|discriminate]. inversion Hf; subst L2.
    assert (K0 : K conn offered_ OL.no_fallback n (reset n) 0 []).
    { split; [reflexivity|]. split; [split; [exact I|intros m []]|]. split; [intros m []|intros q Hq; lia]. }
    destruct (loop_K conn offered_ OL.no_fallback n offered_wf n (reset n) 0 [] L eq_refl K0 El) as [ins (HL & Hok & Hin & _)].
    exists L, ids, r, i, c, ins. split; [reflexivity|]. split; [exact Ee|]. split; [exact HL|]. split; [exact Hok|].
    split; [intros m Hm; apply Hin; exact Hm|]. split; [exact Hatt | exact Hmin].
  Qed.
End LatticeStage.

(* ------------------------------------------------------------------ reading the path back, with positions *)
Lemma walk_pos_walk (L : lattice) : forall fuel p,
  match walk_pos L fuel p with
  | Some ps => exists es, walk L fuel p = Some es /\ map (get L) ps = map Some es
  | None => walk L fuel p = None
  end.
Proof.
  induction fuel as [|f IH]; intros p; cbn [walk_pos walk]; [reflexivity|].
  destruct (get L p) as [e|] eqn:Eg; [|reflexivity].
  destruct (eprev e) as [q|]; [|reflexivity].
  destruct (Nat.eqb (fst q) 0).
  - exists [e]. split; [reflexivity|]. cbn [map]. now rewrite Eg.
  - specialize (IH q). destruct (walk_pos L f q) as [ps|].
    + destruct IH as (es & -> & Hm). exists (e :: es). split; [reflexivity|]. cbn [map]. now rewrite Eg, Hm.
    + now rewrite IH.
Qed.

Lemma path_of_positions (L : lattice) (ids : list (nat * N)) : forall ps es p,
  map (get L) ps = map Some es -> map enode es = map Some p ->
  map fst (flat_map (fun q => match get L q with
                              | Some e => match enode e with Some nd => [(nd, wid_at ids q)] | None => [] end
                              | None => [] end) ps) = p.
Proof.
  induction ps as [|q ps IH]; intros es p H1 H2.
  - destruct es; [|discriminate]. destruct p; [reflexivity | discriminate].
  - destruct es as [|e es]; [discriminate|]. cbn [map] in H1. injection H1 as Hq H1.
    destruct p as [|nd p]; [discriminate|]. cbn [map] in H2. injection H2 as He H2.
    cbn [flat_map]. rewrite Hq, He. cbn [app map fst]. f_equal. eapply IH; eauto.
Qed.

(* ------------------------------------------------------------------ character / byte coordinates stay in agreement *)
Definition coordsR (tbytes : list N) (rn : Rw.node) : Prop :=
  to_curr_byte_idx tbytes (Rw.nb rn) = Some (Rw.bb rn) /\ to_curr_byte_idx tbytes (Rw.ne rn) = Some (Rw.be rn).
Definition coordsS (tbytes : list N) (sn : Sp.node) : Prop :=
  to_curr_byte_idx tbytes (N.to_nat (Sp.nb sn)) = Some (N.to_nat (Sp.bb sn)) /\
  to_curr_byte_idx tbytes (N.to_nat (Sp.ne sn)) = Some (N.to_nat (Sp.be sn)).

Lemma expected_coords cfg (Hcfg : cfg_ok cfg = true) key : forall us pre post,
  Forall (coordsS (enc (pre ++ concat (map key us) ++ post))) (Sp.expected pre us (map key us)).
Proof.
  induction us as [|u us IH]; intros pre post; cbn [map concat Sp.expected]; [constructor|].
  assert (Hk : forall p1 p2 : list N, p1 ++ p2 <> [] ->
             to_curr_byte_idx (enc (p1 ++ p2)) (N.to_nat (Sp.clen p1)) = Some (N.to_nat (Sp.blen p1))).
  { intros p1 p2 Hne. unfold Sp.clen. rewrite Nat2N.id, <- PF.enc_length. exact (c2b_enc_prefix cfg Hcfg p1 p2 Hne). }
  constructor.
  - unfold coordsS. cbn [Sp.nb Sp.ne Sp.bb Sp.be].
    destruct (pre ++ (key u ++ concat (map key us)) ++ post) as [|c0 r0] eqn:Et.
    + (* empty text: every piece is empty *)
      apply app_eq_nil in Et. destruct Et as [-> Et]. apply app_eq_nil in Et. destruct Et as [Et ->].
      apply app_eq_nil in Et. destruct Et as [-> _]. split; reflexivity.
    + rewrite <- Et. split.
      * apply Hk. rewrite Et. discriminate.
      * replace (pre ++ (key u ++ concat (map key us)) ++ post) with ((pre ++ key u) ++ concat (map key us) ++ post)
          by (rewrite <- !app_assoc; reflexivity).
        apply Hk. rewrite <- !app_assoc. cbn [app]. rewrite <- app_assoc in Et. rewrite Et. discriminate.
  - replace (pre ++ (key u ++ concat (map key us)) ++ post) with ((pre ++ key u) ++ concat (map key us) ++ post)
      by (rewrite <- !app_assoc; reflexivity).
    apply IH.
Qed.

Lemma split_path_coords cfg (Hcfg : cfg_ok cfg = true) hw key t units :
  Sp.split_facts_ok = true -> forall path path',
  PF.split_wf hw key t units path -> Forall (coordsS (enc t)) path ->
  Sp.split_path hw t units path = Some path' -> Forall (coordsS (enc t)) path'.
Proof.
  intros Hf. destruct (SP.facts_unpack Hf) as (_ & Hkeep & _).
  induction path as [|n r IH]; intros path' Hwf Hc Hs; cbn [Sp.split_path] in Hs.
  - inversion Hs. constructor.
  - inversion Hc as [|? ? Hcn Hcr]; subst. rewrite Hkeep in Hs.
    assert (Hwr : PF.split_wf hw key t units r) by (intros m Hm; apply Hwf; now right).
    destruct (N.leb_spec (N.of_nat (length (units (Sp.wid n)))) 1) as [Hk|Hk].
    + destruct (Sp.split_path hw t units r) as [l|] eqn:Er; [|discriminate]. inversion Hs; subst.
      constructor; [exact Hcn | exact (IH l Hwr Hcr eq_refl)].
    + destruct (Sp.split_node hw t n (units (Sp.wid n))) as [a|] eqn:Ea; [|discriminate].
      destruct (Sp.split_path hw t units r) as [l|] eqn:Er; [|discriminate]. inversion Hs; subst.
      apply Forall_app. split; [|exact (IH l Hwr Hcr eq_refl)].
      destruct (Hwf n (or_introl eq_refl)) as [(pre & post & Ht & Hnb & Hbb & Hne' & Hbe & Hkk) Hhw]; [lia|].
      assert (Hne : units (Sp.wid n) <> []) by (intros E; rewrite E in Hk; cbn in Hk; lia).
      unfold Sp.split_node in Ea. rewrite Hnb, Hbb, Hne', Hbe, Ht in Ea.
      rewrite (SP.split_go_expected hw key (units (Sp.wid n)) pre post Hne Hhw) in Ea. inversion Ea; subst a.
      rewrite Ht. apply (expected_coords cfg Hcfg).
Qed.

(* ------------------------------------------------------------------ what Morpheme reports for a final node *)
Section Report.
  Variable cfg : bcfg.
  Hypothesis Hcfg : cfg_ok cfg = true.

  Definition reported (o : list N) (s : buf) (n : Sp.node) (m : morpheme) : Prop :=
    (mo_begin m, mo_end m) = map_range (m2o s) (PF.sbytes n) /\ mo_wid m = Sp.wid n /\
    mo_surface m = byte_slice o (mo_begin m, mo_end m) /\
    mo_begin_c m = codepoints_before o (mo_begin m) /\ mo_end_c m = codepoints_before o (mo_end m).

  Lemma report_ok o s n : BufferProofs.Inv o s -> coordsS (cur s) n -> fst (PF.sbytes n) <= snd (PF.sbytes n) ->
    exists m, report cfg s n = Some m /\ reported o s n m.
  Proof.
    intros HI [Hb He] Hle. unfold PF.sbytes in Hle. cbn [fst snd] in Hle.
    set (rn := mkRN (N.to_nat (Sp.nb n)) (N.to_nat (Sp.ne n)) (N.to_nat (Sp.bb n)) (N.to_nat (Sp.be n))).
    assert (Hok : rnode_ok (cur s) rn).
    { unfold rnode_ok, rn. cbn [rn_bc rn_ec rn_bb rn_eb]. split; [exact Hb|]. split; [exact He|].
      destruct (Nat.le_gt_cases (N.to_nat (Sp.nb n)) (N.to_nat (Sp.ne n))) as [|Hgt]; [assumption|].
      pose proof (to_curr_byte_idx_strict _ _ _ _ _ Hgt He Hb). lia. }
    destruct (morpheme_offsets cfg Hcfg o s rn HI Hok) as (b & e & Mb & Me & _ & _ & _ & Mbc & Mec & Ms & _).
    unfold report. fold rn. rewrite Mb, Me, Mbc, Mec, Ms. eexists. split; [reflexivity|].
    unfold reported. cbn [mo_begin mo_end mo_wid mo_surface mo_begin_c mo_end_c]. repeat split; auto.
    unfold morpheme_begin, morpheme_end in Mb, Me. cbn [rn rn_bc rn_ec] in Mb, Me.
    rewrite (to_orig_byte_idx_via s _ _ Hb) in Mb. rewrite (to_orig_byte_idx_via s _ _ He) in Me.
    unfold map_range, PF.sbytes. cbn [fst snd]. f_equal; symmetry; now apply nth_error_nth.
  Qed.

  Lemma report_all_ok o s : forall ns, BufferProofs.Inv o s -> Forall (coordsS (cur s)) ns ->
    (forall n, In n ns -> fst (PF.sbytes n) <= snd (PF.sbytes n)) ->
    exists ms, report_all cfg s ns = Some ms /\ Forall2 (reported o s) ns ms.
  Proof.
    induction ns as [|n ns IH]; intros HI Hc Hle; [exists []; split; [reflexivity | constructor]|].
    inversion Hc as [|? ? Hcn Hcr]; subst.
    destruct (report_ok o s n HI Hcn (Hle n (or_introl eq_refl))) as (m & Hm & Hr).
    destruct (IH HI Hcr (fun x Hx => Hle x (or_intror Hx))) as (ms & Hms & Hrs).
    exists (m :: ms). cbn [report_all]. rewrite Hm, Hms. split; [reflexivity | constructor; assumption].
  Qed.

  Lemma reported_ranges o s : forall ns ms, Forall2 (reported o s) ns ms ->
    map (fun m => (mo_begin m, mo_end m)) ms = map (map_range (m2o s)) (map PF.sbytes ns).
  Proof. induction 1 as [|n m ns ms (H & _) _ IH]; cbn [map]; [reflexivity | now rewrite H, IH]. Qed.

  Lemma reported_surfaces o s : forall ns ms, Forall2 (reported o s) ns ms ->
    map mo_surface ms = map (byte_slice o) (map (map_range (m2o s)) (map PF.sbytes ns)).
  Proof.
    induction 1 as [|n m ns ms (H1 & _ & H3 & _) _ IH]; cbn [map]; [reflexivity|]. rewrite IH, H3, H1. reflexivity.
  Qed.
End Report.

(* ================================================================== the composed statement *)
Section EndToEnd.
  (* facts re-read from the sources on every run (closed by vm_compute in Properties/C01.v) *)
  Hypothesis F_slow : Generated.NormalizeFacts.slow_search_earliest = false.
  Hypothesis F_guard : Generated.NormalizeFacts.lowercase_guard_is_uppercase = false.
  Hypothesis F_path : Generated.NormalizeFacts.path_guard_is_uppercase = false.
  Hypothesis Hfwd : O.OF.continuity_forward = true.
  Hypothesis Hfix : O.OF.regex_ignores_empty_match = true.
  Hypothesis Hrwf : RT.rewrite_facts_ok.
  Hypothesis Hspf : Sp.split_facts_ok = true.
  Variable cfg : bcfg.
  Hypothesis Hcfg : cfg_ok cfg = true.
  Hypothesis Hsc_ : c_start_cmp cfg = ">"%string.
  Hypothesis Hrc : c_resolve_cmp cfg = ">"%string.
  Hypothesis Hcc : c_commit_cmp cfg = ">"%string.
  Hypothesis Hcl : (Z.of_N (c_commit_limit cfg) < 18446744073709551616)%Z.

  (* the analysis of a non-empty rewritten text *)
  Theorem analyse_ok : forall tk t0 s t o_simple key,
    PF.ReachU cfg (enc t0) s -> cur s = enc t -> t <> [] ->
    Forall scalar t ->
    (forall L, In L (tk_lexs tk) -> LL.lex_keys_utf8 L) ->
    (forall q, In q (tk_provs tk) -> W.provider_oracle_ok q (length t)) ->
    O.fallback_of (tk_provs tk) = Some (O.PSimple o_simple) ->
    (forall p, p < length t ->
       exists st, O.normal_pass (O.mk_ctx (classes tk t)) (tk_provs tk) p (dict_onodes cfg tk t p) = O.ROk st) ->
    (forall a, pre_split cfg tk t = Ok a ->
       PF.mode_wf (tk_hw tk) key t (tk_ua tk) (tk_ub tk) (tk_mode tk) (pr_split_in a)) ->
    exists a ms,
      analyse cfg tk s t = Ok a /\ report_all cfg s (an_final a) = Some ms /\
      Forall2 (reported (enc t0) s) (an_final a) ms /\
      partition_b (enc t0) (map (fun m => (mo_begin m, mo_end m)) ms) = true /\
      concat (map mo_surface ms) = enc t0 /\
      (* C02: the path read back from the lattice is a chain of offered candidates, its cost is the EOS cost, and no
         chain of offered candidates covering the text is cheaper *)
      (let p := map fst (pr_path (an_pre a)) in
       let off := Offered (offered_at cfg tk t) OL.no_fallback in
       chainP off 0 (length t) p /\ path_cost (tk_conn tk) p = snd (pr_eos (an_pre a)) /\
       forall p', chainP off 0 (length t) p' -> (path_cost (tk_conn tk) p <= path_cost (tk_conn tk) p')%Z).
  Proof.
    intros tk t0 s t o_simple key HRU Hcur Hne Hsc Hkeys Horacle Hsimple Hprov Hsplit.
    set (o := enc t0). set (n := length t). set (conn := tk_conn tk).
    pose proof (PF.reachU_reach cfg _ _ HRU) as HR.
    pose proof (reach_inv cfg Hcfg o s (PF.enc_wf t0) HR) as HI.
    destruct (lattice_stage Hfwd Hfix cfg Hcfg tk t Hsc Hkeys Horacle o_simple Hsimple Hprov Hne)
      as (L & ids & r & i & c & ins & Hloop & Heos & HL & Hok & Hoff & _ & Hmin).
    assert (Hpos : 0 < n) by (unfold n; destruct t; [contradiction | cbn; lia]).
    change (L = insert_all conn (reset n) ins) in HL. change (connect_eos conn L = Some (r, i, c)) in Heos.
    change (loop_ids cfg tk t (reset n) [] 0 n = Some (L, ids)) in Hloop. change (nodes_ok n ins) in Hok.
    (* the path *)
    pose proof Heos as Heos'. rewrite HL in Heos'.
    destruct (total_cost_along_path conn n ins r i c Hok Hpos Heos') as (es & p & Htop & Hen & Hchain & Hcost & _).
    rewrite <- HL in Htop. unfold top_path in Htop. rewrite Heos in Htop.
    pose proof (walk_pos_walk L (length L) (r, i)) as Hw.
    destruct (walk_pos L (length L) (r, i)) as [rps|] eqn:Ewp.
    2:{ rewrite Hw in Htop. discriminate. }
    destruct Hw as (esr & Hwalk & Hmap). rewrite Hwalk in Htop. cbn [option_map] in Htop. injection Htop as Hes.
    assert (Hmap' : map (get L) (rev rps) = map Some es) by (rewrite <- Hes, !map_rev, Hmap; reflexivity).
    set (path := flat_map (fun q => match get L q with
                                    | Some e => match enode e with Some nd => [(nd, wid_at ids q)] | None => [] end
                                    | None => [] end) (rev rps)).
    assert (Hpath : map fst path = p) by (apply (path_of_positions L ids (rev rps) es p Hmap' Hen)).
    set (result := map (fun x => result_node tk t (fst x) (snd x)) path).
    (* ResultNodes *)
    assert (Hwt : wf_text (enc t) = true) by apply PF.enc_wf.
    assert (Hrn : Forall2 (PF.rnode_of (enc t)) p result).
    { rewrite <- Hpath. unfold result. clear. induction path as [|x path IH]; cbn [map]; constructor; [|exact IH].
      unfold PF.rnode_of, result_node, PF.rbytes, PP.node_bytes, tb. cbn. auto. }
    assert (Hp0 : path_ok_b (enc t) (map PF.rbytes result) = true).
    { rewrite (PF.rnodes_bytes (enc t) p result Hrn). apply (PP.chain_path_ok (enc t) ins p Hwt). rewrite nchars_enc. exact Hchain. }
    (* path rewriting *)
    destruct (RT.rewrite_total (tk_rewrite tk) result Hrwf) as [q Hq].
    pose proof (PF.rewrite_stage (enc t) _ _ _ Hq) as Hs1.
    assert (Hp1 : path_ok_b (enc t) (map PF.rbytes q) = true) by (eapply PF.path_ok_stages; [apply rt_step; exact Hs1 | exact Hp0]).
    set (before := combine result (map snd path)).
    set (sin := map (split_node_of before) q).
    assert (Hsn : Forall2 PF.snode_of q sin).
    { unfold sin. clear. induction q as [|x q IH]; cbn [map]; constructor; [|exact IH].
      unfold PF.snode_of, split_node_of, PF.sbytes, PF.rbytes. cbn. rewrite !Nat2N.id. auto. }
    assert (Hpre : pre_split cfg tk t = Ok (mkPre L (r, i, c) path result q sin)).
    { unfold pre_split. fold n conn. rewrite Hloop, Heos, Ewp. fold path. fold result. rewrite Hq. reflexivity. }
    (* splitting *)
    pose proof (Hsplit _ Hpre) as Hmw. cbn [pr_split_in] in Hmw.
    rewrite <- (PF.snodes_bytes q sin Hsn) in Hp1.
    destruct (PF.tokenize_mode_stage (tk_hw tk) key t (tk_ua tk) (tk_ub tk) (tk_mode tk) sin Hspf Hmw Hp1) as (final & Hfin & Hs2).
    assert (Hp2 : path_ok_b (enc t) (map PF.sbytes final) = true) by (eapply PF.path_ok_stages; eauto).
    (* coordinates *)
    assert (Hcres : Forall (coordsR (enc t)) result).
    { apply Forall_forall. intros rn Hin. unfold result in Hin. apply in_map_iff in Hin. destruct Hin as ([nd w] & <- & Hin).
      assert (Hnd : In nd p) by (rewrite <- Hpath; apply in_map_iff; exists (nd, w); auto).
      assert (Hend : nend nd <= n).
      { assert (In nd ins) as Hi. { clear - Hchain Hnd. revert Hchain. generalize 0. induction p as [|x p IH]; intros from Hc; [contradiction|].
          cbn [chain] in Hc. destruct Hc as (H1 & _ & _ & H4). destruct Hnd as [->|Hnd]; [exact H1 | eapply IH; eauto]. }
        destruct Hok as [_ Hok]. apply Hok in Hi. lia. }
      assert (Hbeg : nbeg nd <= n).
      { assert (In nd ins) as Hi. { clear - Hchain Hnd. revert Hchain. generalize 0. induction p as [|x p IH]; intros from Hc; [contradiction|].
          cbn [chain] in Hc. destruct Hc as (H1 & _ & _ & H4). destruct Hnd as [->|Hnd]; [exact H1 | eapply IH; eauto]. }
        destruct Hok as [_ Hok]. apply Hok in Hi. lia. }
      unfold coordsR, result_node, to_curr_byte_idx, tb. cbn [Rw.nb Rw.ne Rw.bb Rw.be fst snd].
      split; apply nth_error_nth'; unfold mod_c2b; rewrite app_length, c2b_scan_length, count_leads_enc; cbn [length]; fold n; lia. }
    assert (Hcq : Forall (coordsR (enc t)) q).
    { apply Forall_forall. intros m Hm.
      destruct (RP.grouping_boundaries _ _ _ m (RP.rewrite_is_grouping _ _ _ Hq) Hm) as [(n1 & Hn1 & Eb & Ebb) (n2 & Hn2 & Ee & Eee)].
      rewrite Forall_forall in Hcres. destruct (Hcres n1 Hn1) as [C1 _]. destruct (Hcres n2 Hn2) as [_ C2].
      unfold coordsR. rewrite <- Eb, <- Ebb, <- Ee, <- Eee. auto. }
    assert (Hcs : Forall (coordsS (enc t)) sin).
    { apply Forall_forall. intros sn Hin. unfold sin in Hin. apply in_map_iff in Hin. destruct Hin as (m & <- & Hm).
      rewrite Forall_forall in Hcq. destruct (Hcq m Hm) as [C1 C2].
      unfold coordsS, split_node_of. cbn [Sp.nb Sp.ne Sp.bb Sp.be]. rewrite !Nat2N.id. auto. }
    assert (Hcf : Forall (coordsS (enc t)) final).
    { destruct (tk_mode tk); cbn [Sp.tokenize_mode PF.mode_wf] in Hfin, Hmw.
      - exact (split_path_coords cfg Hcfg _ key t _ Hspf sin final Hmw Hcs Hfin).
      - exact (split_path_coords cfg Hcfg _ key t _ Hspf sin final Hmw Hcs Hfin).
      - inversion Hfin; subst. exact Hcs. }
    (* Morpheme accessors *)
    assert (Hle : forall x, In x final -> fst (PF.sbytes x) <= snd (PF.sbytes x)).
    { intros x Hx. rewrite PF.path_ok_b_eq in Hp2. apply andb_true_iff in Hp2. destruct Hp2 as [Hc2 _].
      eapply PF.chain_ranges_le; [exact Hc2 | now apply in_map]. }
    rewrite <- Hcur in Hcf, Hp2.
    destruct (report_all_ok cfg Hcfg o s final HI Hcf Hle) as (ms & Hms & Hrep).
    destruct (surfaces_partition_reach cfg Hcfg o s _ (PF.enc_wf t0) HR Hp2) as (A & B & _).
    exists (mkAn s t (mkPre L (r, i, c) path result q sin) final), ms.
    split; [unfold analyse; rewrite Hpre; cbn [pr_split_in]; rewrite Hfin; reflexivity|].
    cbn [an_final an_pre pr_path pr_eos snd].
    split; [exact Hms|]. split; [exact Hrep|].
    split; [rewrite (reported_ranges o s _ _ Hrep); exact A|].
    split; [rewrite (reported_surfaces o s _ _ Hrep); exact B|].
    rewrite Hpath. split; [|split; [exact Hcost|]].
    - apply (chain_offered (offered_at cfg tk t) OL.no_fallback ins Hoff). exact Hchain.
    - intros p' Hp'. rewrite Hcost. apply Hmin. exact Hp'.
  Qed.
End EndToEnd.

Section Top.
  Hypothesis F_slow : Generated.NormalizeFacts.slow_search_earliest = false.
  Hypothesis F_guard : Generated.NormalizeFacts.lowercase_guard_is_uppercase = false.
  Hypothesis F_path : Generated.NormalizeFacts.path_guard_is_uppercase = false.
  Hypothesis Hfwd : O.OF.continuity_forward = true.
  Hypothesis Hfix : O.OF.regex_ignores_empty_match = true.
  Hypothesis Hrwf : RT.rewrite_facts_ok.
  Hypothesis Hspf : Sp.split_facts_ok = true.
  Variable cfg : bcfg.
  Hypothesis Hcfg : cfg_ok cfg = true.
  Hypothesis Hsc_ : c_start_cmp cfg = ">"%string.
  Hypothesis Hrc : c_resolve_cmp cfg = ">"%string.
  Hypothesis Hcc : c_commit_cmp cfg = ">"%string.
  Hypothesis Hcl : (Z.of_N (c_commit_limit cfg) < 18446744073709551616)%Z.

  Theorem tokenizer_end_to_end : forall tk t0 o_simple key t,
    t = NB.stack_spec (tk_plugins tk) t0 ->
    (Z.of_nat (length (enc t0)) <= Z.of_N (c_start_limit cfg))%Z ->
    Forall NB.plugin_wf (tk_plugins tk) -> NB.stack_nonempty (tk_plugins tk) t0 -> NB.stack_fits cfg (tk_plugins tk) t0 ->
    Forall scalar t ->
    (forall L, In L (tk_lexs tk) -> LL.lex_keys_utf8 L) ->
    (forall q, In q (tk_provs tk) -> W.provider_oracle_ok q (length t)) ->
    O.fallback_of (tk_provs tk) = Some (O.PSimple o_simple) ->
    (forall p, p < length t ->
       exists st, O.normal_pass (O.mk_ctx (classes tk t)) (tk_provs tk) p (dict_onodes cfg tk t p) = O.ROk st) ->
    (forall a, pre_split cfg tk t = Ok a ->
       PF.mode_wf (tk_hw tk) key t (tk_ua tk) (tk_ub tk) (tk_mode tk) (pr_split_in a)) ->
    exists ms, tokenize_model cfg tk t0 = Ok ms /\
      (t = [] -> ms = []) /\
      (t <> [] ->
         partition_b (enc t0) (map (fun m => (mo_begin m, mo_end m)) ms) = true /\
         concat (map mo_surface ms) = enc t0 /\
         Forall (fun m => mo_surface m = byte_slice (enc t0) (mo_begin m, mo_end m) /\
                          mo_begin_c m = codepoints_before (enc t0) (mo_begin m) /\
                          mo_end_c m = codepoints_before (enc t0) (mo_end m)) ms /\
         exists a, pre_split cfg tk t = Ok a /\
           let p := map fst (pr_path a) in
           let off := Offered (offered_at cfg tk t) OL.no_fallback in
           chainP off 0 (length t) p /\ path_cost (tk_conn tk) p = snd (pr_eos a) /\
           forall p', chainP off 0 (length t) p' -> (path_cost (tk_conn tk) p <= path_cost (tk_conn tk) p')%Z).
  Proof.
    intros tk t0 o_simple key t Ht Hlim Hpl Hne Hfit Hsc Hkeys Horacle Hsimple Hprov Hsplit.
    assert (Hs0 : exists s0, start_build cfg (enc t0) = Ok s0).
    { unfold start_build. rewrite Hsc_, cmp_gt. replace (Z.of_N (c_start_limit cfg) <? Z.of_nat (length (enc t0)))%Z with false by (symmetry; apply Z.ltb_ge; lia). eauto. }
    destruct Hs0 as [s0 Hs0]. destruct (NB.start_reach cfg t0 s0 Hs0) as [HR0 Hc0].
    destruct (run_stack_ok F_slow F_guard F_path cfg Hcfg Hrc Hcc Hcl t0 (tk_plugins tk) s0 t0 Hpl Hne Hfit HR0 Hc0) as (s & Hrun & HRU & Hcur).
    rewrite <- Ht in Hrun, Hcur. unfold tokenize_model. rewrite Hs0, Hrun. clear Ht.
    destruct t as [|c0 tr].
    - exists []. split; [reflexivity|]. split; [reflexivity | intros C; contradiction].
    - assert (Htne : c0 :: tr <> []) by discriminate.
      destruct (analyse_ok Hfwd Hfix Hrwf Hspf cfg Hcfg tk t0 s (c0 :: tr) o_simple key
                  HRU Hcur Htne Hsc Hkeys Horacle Hsimple Hprov Hsplit) as (a & ms & Ha & Hms & Hrep & Hpart & Hcat & Hopt).
      exists ms. rewrite Ha, Hms.
      split; [reflexivity|]. split; [intros C; discriminate|]. intros _.
      split; [exact Hpart|]. split; [exact Hcat|]. split.
      + clear - Hrep. induction Hrep as [|n m ns ms' (_ & _ & H3 & H4 & H5) _ IH]; constructor; auto.
      + exists (an_pre a). split; [|exact Hopt].
        unfold analyse in Ha. destruct (pre_split cfg tk (c0 :: tr)) as [pa| |]; try discriminate.
        destruct (Sp.tokenize_mode _ _ _ _ _ _); [|discriminate]. inversion Ha. reflexivity.
  Qed.
End Top.

(* ================================================================== hypotheses in the form the other properties deliver *)
(* C04: the per-dictionary certificate (the verified enumerator run on the bytes the trie builder produced returns exactly
   the indexed surfaces of the CSV) + CSV surfaces that are whole UTF-8 strings *)
Definition certified (lexs : list lexicon) : Prop :=
  forall L, In L lexs -> exists rows fuel, cert_lex L rows fuel = true /\ forall r, In r rows -> Tr.chars_ok (fst r).

Lemma keys_of_certificates lexs : certified lexs -> forall L, In L lexs -> LL.lex_keys_utf8 L.
Proof. intros H L HL. destruct (H L HL) as (rows & fuel & Hc & Hr). exact (LL.cert_keys_utf8 L rows fuel Hc Hr). Qed.

(* C09: the author-checkable condition on the rows (the keys of the declared units concatenate to the key of the word, every
   unit exists and has a non-empty key), for every node handed to split_path that declares two or more units and covers
   the key of its word *)
From SudachiVerif Require Model.SplitSource Proofs.SplitDict Model.CodecResolve Proofs.CodecProofs.
Module SS := SudachiVerif.Model.SplitSource.
Module SD := SudachiVerif.Proofs.SplitDict.

Definition rows_wf (ds : SS.srcs) (cs : list SS.compiled) (nsp : N) (po : N -> N) (t : list N) (a : bool) (path : list Sp.node) : Prop :=
  forall n, In n path -> 2 <= length (SS.ld_units cs nsp po a (Sp.wid n)) ->
    SS.rows_units_ok ds a (Sp.wid n) = true /\ SD.covers t n (SS.src_key ds (Sp.wid n)).

Definition rows_mode_wf ds cs nsp po t (m : Sp.mode) (path : list Sp.node) : Prop :=
  match m with
  | Sp.ModeA => rows_wf ds cs nsp po t true path
  | Sp.ModeB => rows_wf ds cs nsp po t false path
  | Sp.ModeC => True
  end.

Section Rows.
  Hypothesis HW : Generated.FieldOrder.writer_fields = SudachiVerif.Model.Codec.expected_writer.
  Hypothesis HRd : SudachiVerif.Proofs.CodecProofs.reader_facts_ok.
  Hypothesis HLn : SudachiVerif.Proofs.CodecProofs.len_thresholds_ok = true.
  Variable ds : SS.srcs.
  Variable cs : list SS.compiled.
  Hypothesis Hcomp : SD.stack_compiled ds cs.
  Hypothesis Hsrc : SD.srcs_ok ds.
  Variable nsp : N.
  Variable po : N -> N.

  Lemma mode_wf_of_rows t m path : rows_mode_wf ds cs nsp po t m path ->
    PF.mode_wf (SS.ld_hw cs nsp po) (SS.src_key ds) t (SS.ld_units cs nsp po true) (SS.ld_units cs nsp po false) m path.
  Proof.
    destruct m; cbn [rows_mode_wf PF.mode_wf]; intros H; [| |exact I]; intros n Hn Hl; destruct (H n Hn Hl) as [Hok Hcov];
      exact (SD.units_wf_of_rows HW HRd HLn ds cs Hcomp Hsrc nsp po _ t n Hok Hcov).
  Qed.
End Rows.
