(* Lemmas about Model/Rewrite.v: every rewrite step replaces a consecutive non-empty group by one node. *)
From Coq Require Import List NArith ZArith Bool Arith Lia.
From SudachiVerif Require Import Model.Numeric Model.Rewrite.
Import ListNotations.

(* m stands for the consecutive group g: union of the code-point ranges AND of the reported byte ranges (begin of the
   first, end of the last), concatenated dictionary-side surface *)
Definition mg (g : list node) (m : node) : Prop :=
  g <> [] /\ (nb m, bb m) = (nb (hd dnode g), bb (hd dnode g)) /\
  (ne m, be m) = (ne (last g dnode), be (last g dnode)) /\ surf m = concat (map surf g).

(* an output node is an input node itself, or a merge carrying an allowed part of speech and no split lists / word
   structure / synonym group ids (so it is never split again in modes A / B) *)
Definition mg' (allowed : N -> Prop) (g : list node) (m : node) : Prop :=
  g = [m] \/ (mg g m /\ allowed (pos m) /\ extra m = 0%N).

(* q is p with consecutive non-empty groups replaced by one node each *)
Definition grouping (allowed : N -> Prop) (p q : list node) : Prop :=
  exists gs, concat gs = p /\ Forall2 (mg' allowed) gs q.

Lemma mg_single m : mg [m] m.
Proof. repeat split; cbn; [discriminate | now rewrite app_nil_r]. Qed.

Lemma mg'_mg A g m : mg' A g m -> mg g m.
Proof. intros [->|[H _]]; [apply mg_single | exact H]. Qed.

Lemma grouping_refl A p : grouping A p p.
Proof.
  exists (map (fun n => [n]) p). split.
  - induction p; cbn; congruence.
  - induction p; cbn; constructor; [now left | assumption].
Qed.

Lemma grouping_weaken (A B : N -> Prop) p q : (forall x, A x -> B x) -> grouping A p q -> grouping B p q.
Proof.
  intros HAB (gs & Hc & HF). exists gs. split; [assumption|].
  clear Hc. induction HF as [|g m gs q H _ IH]; constructor; [|assumption]. destruct H as [->|(H1 & H2 & H3)]; [now left | right; auto].
Qed.

Lemma hd_app_ne {A} (d : A) a b : a <> [] -> hd d (a ++ b) = hd d a.
Proof. destruct a; [contradiction | reflexivity]. Qed.

Lemma last_app_ne {A} (d : A) a b : b <> [] -> last (a ++ b) d = last b d.
Proof.
  intros Hb. induction a as [|x a IH]; [reflexivity|]. cbn [app].
  destruct (a ++ b) eqn:E.
  - apply app_eq_nil in E. destruct E; contradiction.
  - rewrite <- IH. reflexivity.
Qed.

(* groups of groups flatten *)
Lemma mg_flatten A gs q m : Forall2 (mg' A) gs q -> q <> [] -> mg q m -> mg (concat gs) m.
Proof.
  intros HF Hq (_ & Hb & He & Hs).
  assert (Hsurf : concat (map surf (concat gs)) = concat (map surf q)).
  { clear - HF. induction HF as [|g n gs q Hg _ IH]; [reflexivity|].
    cbn [concat map]. rewrite map_app, concat_app, IH. apply mg'_mg in Hg. destruct Hg as (_ & _ & _ & ->). reflexivity. }
  assert (Hne : forall g n, mg' A g n -> g <> []) by (intros g n H; apply mg'_mg in H; apply H).
  destruct HF as [|g1 n1 gs q Hg1 HF]; [contradiction|].
  repeat split.
  - cbn. pose proof (Hne _ _ Hg1). destruct g1; [contradiction | discriminate].
  - rewrite Hb. cbn [concat hd]. rewrite hd_app_ne by (eapply Hne; eassumption).
    apply mg'_mg in Hg1. apply Hg1.
  - rewrite He. clear Hb Hs Hsurf Hq He. revert g1 n1 Hg1.
    induction HF as [|g2 n2 gs q Hg2 HF IH]; intros g1 n1 Hg1.
    + cbn [concat last]. rewrite app_nil_r. apply mg'_mg in Hg1. apply Hg1.
    + cbn [concat]. rewrite last_app_ne.
      2:{ pose proof (Hne _ _ Hg2). destruct g2; [contradiction | discriminate]. }
      change (last (n1 :: n2 :: q) dnode) with (last (n2 :: q) dnode). now apply IH.
  - rewrite Hs. now rewrite Hsurf.
Qed.

Lemma skipn_skipn' {A} p k (l : list A) : skipn k (skipn p l) = skipn (p + k) l.
Proof. revert l; induction p; intros [|x l]; cbn; try reflexivity; [now destruct k | apply IHp]. Qed.

Lemma split3 {A} (q : list A) b e : b <= e -> q = firstn b q ++ firstn (e - b) (skipn b q) ++ skipn e q.
Proof.
  intros H. rewrite <- (firstn_skipn b q) at 1. f_equal.
  rewrite <- (firstn_skipn (e - b) (skipn b q)) at 1. f_equal.
  rewrite skipn_skipn'. f_equal. lia.
Qed.

(* one merge step on the current path keeps it a grouping of the original path *)
Lemma grouping_step A p q b e m :
  grouping A p q -> b < e -> e <= length q -> mg (slice q b e) m -> A (pos m) -> extra m = 0%N ->
  grouping A p (firstn b q ++ m :: skipn e q).
Proof.
  intros (gs & Hc & HF) Hbe Hel Hm HA Hx.
  rewrite (split3 q b e) in HF by lia.
  apply Forall2_app_inv_r in HF. destruct HF as (gs1 & gs23 & H1 & H23 & ->).
  apply Forall2_app_inv_r in H23. destruct H23 as (gs2 & gs3 & H2 & H3 & ->).
  exists (gs1 ++ [concat gs2] ++ gs3). split.
  - rewrite <- Hc. now rewrite !concat_app; cbn; rewrite app_nil_r.
  - apply Forall2_app; [assumption|]. cbn [app]. constructor; [|assumption].
    right. split; [|split; assumption]. eapply mg_flatten; [exact H2 | | exact Hm].
    destruct Hm as (Hne & _). exact Hne.
Qed.

Lemma slice_length p b e : e <= length p -> length (slice p b e) = e - b.
Proof. intros H. unfold slice. rewrite firstn_length, skipn_length. lia. Qed.

Lemma slice_ne p b e : b < e -> e <= length p -> slice p b e <> [].
Proof. intros H1 H2 E. apply (f_equal (@length node)) in E. rewrite slice_length in E by assumption. cbn in E. lia. Qed.

Lemma skipn_nth {A} (d : A) p b : b < length p -> skipn b p = nth b p d :: skipn (S b) p.
Proof. revert p; induction b; intros [|x p] H; cbn in *; try lia; [reflexivity | apply IHb; lia]. Qed.

Lemma hd_slice p b e : b < e -> e <= length p -> hd dnode (slice p b e) = at_ p b.
Proof.
  intros H1 H2. unfold slice, at_. rewrite (skipn_nth dnode) by lia.
  destruct (e - b) eqn:E; [lia | reflexivity].
Qed.

Lemma mg_merged_oov g pid : g <> [] -> mg g (merged_oov g pid).
Proof. intros H. repeat split; assumption || reflexivity. Qed.

Lemma mg_merged_numeric g nf : g <> [] -> mg g (merged_numeric g nf).
Proof. intros H. repeat split; assumption || reflexivity. Qed.

Lemma concat_oov_ok p b e pid p' :
  concat_oov_nodes p b e pid = Ok p' ->
  b < e /\ e <= length p /\ p' = firstn b p ++ merged_oov (slice p b e) pid :: skipn e p.
Proof.
  unfold concat_oov_nodes. destruct (Nat.leb_spec e b); [discriminate|].
  destruct (Nat.ltb_spec (length p) e); [discriminate|]. intros [= <-]. repeat split; lia || reflexivity.
Qed.

Lemma concat_nodes_ok p b e nf p' :
  concat_nodes p b e nf = Ok p' ->
  b < e /\ e <= length p /\ p' = firstn b p ++ merged_numeric (slice p b e) nf :: skipn e p.
Proof.
  unfold concat_nodes. destruct (Nat.leb_spec e b); [discriminate|].
  destruct (Nat.ltb_spec (length p) e); [discriminate|]. intros [= <-]. repeat split; lia || reflexivity.
Qed.

(* ------------------------------------------------------------------ katakana loop *)
Theorem kat_loop_grouping ml op (A : N -> Prop) :
  A op -> forall fuel p0 p i q, grouping A p0 p -> kat_loop ml op fuel p i = Some (Ok q) -> grouping A p0 q.
Proof.
  intros HA. induction fuel as [|f IH]; intros p0 p i q Hg; cbn [kat_loop]; [discriminate|].
  destruct (length p <=? i); [intros [= <-]; assumption|].
  destruct (negb _ || negb _); [apply IH; assumption|].
  set (b := skip_nobow _ _ _ _). set (e := scan_right _ _ _).
  destruct (_ <? e - b); [|apply IH; assumption].
  destruct (concat_oov_nodes p b e op) as [p'| |] eqn:E; try discriminate.
  apply concat_oov_ok in E. destruct E as (Hbe & Hel & ->).
  apply IH. apply grouping_step; try assumption; try reflexivity.
  apply mg_merged_oov, slice_ne; assumption.
Qed.

(* ------------------------------------------------------------------ numeric loop *)
Lemma num_concat_grouping en npos (A : N -> Prop) p0 p b e ps p' :
  A npos -> grouping A p0 p -> num_concat en npos p b e ps = Ok p' -> grouping A p0 p'.
Proof.
  intros HA Hg. unfold num_concat.
  destruct (N.eqb_spec (pos (at_ p b)) npos) as [Hpos|]; cbn [negb]; [|intros [= <-]; assumption].
  assert (Hstep : forall nf, concat_nodes p b e nf = Ok p' -> grouping A p0 p').
  { intros nf E. apply concat_nodes_ok in E. destruct E as (Hbe & Hel & ->).
    apply grouping_step; try assumption; try reflexivity.
    - apply mg_merged_numeric, slice_ne; assumption.
    - cbn [merged_numeric pos]. rewrite hd_slice by assumption. now rewrite Hpos. }
  destruct en.
  - destruct (_ || _); [apply Hstep | intros [= <-]; assumption].
  - destruct (_ <? _); [apply Hstep | intros [= <-]; assumption].
Qed.

Lemma num_step_grouping en npos (A : N -> Prop) p0 st st' :
  A npos -> grouping A p0 (np st) -> num_step en npos st = Some (Ok st') -> grouping A p0 (np st').
Proof.
  intros HA Hg. unfold num_step.
  destruct (negb _); [discriminate|].
  destruct (_ || _ || _).
  - destruct (if (nbeg st <? 0)%Z then _ else _) as [beg ps].
    destruct (feed_chars ps _) as [[|] ps']; [intros [= <-]; assumption|].
    destruct (N.eqb _ _ && _); [intros [= <-]; assumption|].
    destruct (N.eqb _ _ && _); intros [= <-]; assumption.
  - destruct (Z.leb 0 (nbeg st)).
    + destruct (p_done gen_cfg (nps st)) as [[|] ps'].
      * destruct (num_concat _ _ _ _ _ _) as [p'| |] eqn:E; try discriminate.
        intros [= <-]. cbn [np]. eapply num_concat_grouping; eassumption.
      * destruct (_ || _).
        -- destruct (num_concat _ _ _ _ _ _) as [p'| |] eqn:E; try discriminate.
           intros [= <-]. cbn [np]. eapply num_concat_grouping; eassumption.
        -- intros [= <-]. assumption.
    + intros [= <-]. assumption.
Qed.

Lemma num_finish_grouping en npos (A : N -> Prop) p0 st q :
  A npos -> grouping A p0 (np st) -> num_finish en npos st = Ok q -> grouping A p0 q.
Proof.
  intros HA Hg. unfold num_finish.
  destruct (Z.leb 0 (nbeg st)); [|intros [= <-]; assumption].
  destruct (p_done gen_cfg (nps st)) as [[|] ps'].
  - intros E. eapply num_concat_grouping; eassumption.
  - destruct (_ || _); [|intros [= <-]; assumption].
    intros E. eapply num_concat_grouping; eassumption.
Qed.

Theorem num_loop_grouping en npos (A : N -> Prop) :
  A npos -> forall fuel p0 st q, grouping A p0 (np st) -> num_loop en npos fuel st = Some (Ok q) -> grouping A p0 q.
Proof.
  intros HA. induction fuel as [|f IH]; intros p0 st q Hg; cbn [num_loop]; [discriminate|].
  destruct (num_step en npos st) as [[st'| |]|] eqn:E; try discriminate.
  - apply IH. eapply num_step_grouping; eassumption.
  - intros [= H]. eapply num_finish_grouping; eassumption.
Qed.

(* ------------------------------------------------------------------ the plugin chain *)
Definition allowed_by (pls : list plugin) (x : N) : Prop := In x (map plugin_pos pls).

Theorem rewrite_is_grouping pls : forall p q, run_plugins pls p = Some (Ok q) -> grouping (allowed_by pls) p q.
Proof.
  intros p. assert (H : forall pls0 p1, grouping (allowed_by pls) p p1 -> (forall pl, In pl pls0 -> In pl pls) ->
             forall q, run_plugins pls0 p1 = Some (Ok q) -> grouping (allowed_by pls) p q).
  { induction pls0 as [|pl t IH]; intros p1 Hg Hsub q; cbn [run_plugins]; [intros [= <-]; assumption|].
    destruct (run_plugin pl p1) as [[p2| |]|] eqn:E; try discriminate.
    apply IH; [|intros; apply Hsub; now right].
    assert (HA : allowed_by pls (plugin_pos pl)) by (apply in_map, Hsub; now left).
    destruct pl as [en np|ml op]; cbn [run_plugin plugin_pos] in *.
    - unfold join_numeric in E. eapply num_loop_grouping; [exact HA| |exact E]. exact Hg.
    - unfold join_katakana in E. eapply kat_loop_grouping; [exact HA|exact Hg|exact E]. }
  intros q. apply H; [apply grouping_refl | auto].
Qed.

(* what a grouping means for boundaries and text: boundaries of q are boundaries of p, the concatenated dictionary-side
   surfaces are equal, the first and last offsets are kept *)
Lemma grouping_surface A p q : grouping A p q -> concat (map surf q) = concat (map surf p).
Proof.
  intros (gs & <- & HF). induction HF as [|g m gs q Hg _ IH]; [reflexivity|].
  cbn [map concat]. rewrite map_app, concat_app, IH. apply mg'_mg in Hg. destruct Hg as (_ & _ & _ & ->). reflexivity.
Qed.

Lemma grouping_boundaries A p q m :
  grouping A p q -> In m q ->
  (exists n, In n p /\ nb n = nb m /\ bb n = bb m) /\ (exists n, In n p /\ ne n = ne m /\ be n = be m).
Proof.
  intros (gs & <- & HF) Hin. induction HF as [|g m' gs q Hg _ IH]; [contradiction|].
  cbn [concat]. destruct Hin as [->|Hin].
  - apply mg'_mg in Hg. destruct Hg as (Hne & Hb & He & _). injection Hb as Hb Hbb. injection He as He Hee. split.
    + exists (hd dnode g). split; [|split; congruence]. apply in_or_app. left. destruct g; [contradiction | now left].
    + exists (last g dnode). split; [|split; congruence]. apply in_or_app. left.
      destruct (exists_last Hne) as (g' & x & ->). rewrite last_last. apply in_or_app. right. now left.
  - destruct (IH Hin) as [(n1 & H1 & E1) (n2 & H2 & E2)]. split; [exists n1 | exists n2]; (split; [apply in_or_app; now right | assumption]).
Qed.

Lemma grouping_length A p q : grouping A p q -> length q <= length p.
Proof.
  intros (gs & <- & HF). induction HF as [|g m gs q Hg _ IH]; [reflexivity|].
  cbn [concat length]. rewrite app_length. apply mg'_mg in Hg. destruct Hg as (Hne & _). destruct g; [contradiction|cbn; lia].
Qed.

Corollary rewrite_boundaries_subset pls p q m :
  run_plugins pls p = Some (Ok q) -> In m q ->
  (exists n, In n p /\ nb n = nb m /\ bb n = bb m) /\ (exists n, In n p /\ ne n = ne m /\ be n = be m).
Proof. intros H. eapply grouping_boundaries, rewrite_is_grouping, H. Qed.

Corollary rewrite_preserves_surface pls p q :
  run_plugins pls p = Some (Ok q) -> concat (map surf q) = concat (map surf p).
Proof. intros H. eapply grouping_surface, rewrite_is_grouping, H. Qed.

Corollary rewrite_never_longer pls p q : run_plugins pls p = Some (Ok q) -> length q <= length p.
Proof. intros H. eapply grouping_length, rewrite_is_grouping, H. Qed.

(* a node of the result is a node of the input, or it was built by a plugin and then has no A/B split lists, no word
   structure and no synonym group ids: it is never split again in modes A / B *)
Lemma grouping_extra A p q m : grouping A p q -> In m q -> In m p \/ extra m = 0%N.
Proof.
  intros (gs & <- & HF) Hin. induction HF as [|g m' gs q Hg _ IH]; [contradiction|].
  cbn [concat]. destruct Hin as [->|Hin].
  - destruct Hg as [->|(_ & _ & Hx)]; [left; apply in_or_app; left; now left | now right].
  - destruct (IH Hin) as [H|H]; [left; apply in_or_app; now right | now right].
Qed.

Corollary rewrite_built_nodes_have_no_splits pls p q m :
  run_plugins pls p = Some (Ok q) -> In m q -> In m p \/ extra m = 0%N.
Proof. intros H. eapply grouping_extra, rewrite_is_grouping, H. Qed.
