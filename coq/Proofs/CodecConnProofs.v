(* C05 — the connection cost of every id pair equals the matrix text (matrix_roundtrip) *)
From Coq Require Import List ZArith NArith Bool Lia ZifyBool ZifyNat ZifyN.
From SudachiVerif Require Import Model.GuardLang Model.Codec Model.CodecConn Proofs.GuardProofs Proofs.CodecProofs.
Import ListNotations.
Open Scope Z_scope.

(* ------------------------------------------------------------------ list update *)
Lemma upd_length : forall {A} n (x : A) l, List.length (upd n x l) = List.length l.
Proof. induction n as [|n IH]; destruct l as [|h t]; cbn; auto. Qed.

Lemma nth_upd_same : forall {A} n (x d : A) l, (n < List.length l)%nat -> nth n (upd n x l) d = x.
Proof.
  induction n as [|n IH]; destruct l as [|h t]; cbn; intros H; try lia; auto. apply IH. lia.
Qed.

Lemma nth_upd_other : forall {A} n k (x d : A) l, n <> k -> nth k (upd n x l) d = nth k l d.
Proof.
  induction n as [|n IH]; destruct l as [|h t]; destruct k as [|k]; cbn; intros H; auto; try congruence.
Qed.

Lemma Forall_upd : forall {A} (P : A -> Prop) n x l, P x -> Forall P l -> Forall P (upd n x l).
Proof.
  induction n as [|n IH]; destruct l as [|h t]; cbn; intros Hx Hl; auto; inversion Hl; subst; constructor; auto.
Qed.

Lemma nth_repeat0 : forall n k, nth k (repeat 0 n) 0 = 0.
Proof. induction n as [|n IH]; destruct k; cbn; auto. Qed.

Lemma Forall_nth0 : forall (P : Z -> Prop) l k, P 0 -> Forall P l -> P (nth k l 0).
Proof.
  intros P l. induction l as [|h t IH]; destruct k; cbn; intros H0 Hl; auto; inversion Hl; auto.
Qed.

(* ------------------------------------------------------------------ one line, then all lines *)
Section Generic.
Variables (gl gr : list guard) (wi ri : iexp).
Hypothesis Hgl : covers_strict gl NumLeft = true.
Hypothesis Hgr : covers_strict gr NumRight = true.
Hypothesis Hshape : index_shape_ok wi = true.
Hypothesis Hagree : iexp_eqb wi ri = true.

Definition step (l r : Z) (acc : Z) (t : cline) : Z :=
  let '(l', r', c) := t in if (l' =? l) && (r' =? r) then c else acc.

Lemma declared_fold : forall ls l r, declared ls l r = fold_left (step l r) ls 0.
Proof. reflexivity. Qed.

Lemma store_spec : forall nl nr m t m',
  0 <= nl < 32768 -> 0 <= nr < 32768 -> Z.of_nat (List.length m) = nl * nr -> cline_ok t = true ->
  store gl gr wi nl nr m t = Some m' ->
  List.length m' = List.length m /\
  (Forall (fun c => in_i16 c = true) m -> Forall (fun c => in_i16 c = true) m') /\
  forall l r, 0 <= l < nl -> 0 <= r < nr ->
    nth (Z.to_nat (r * nl + l)) m' 0 = step l r (nth (Z.to_nat (r * nl + l)) m 0) t.
Proof.
  intros nl nr m [[l' r'] c] m' Hnl Hnr Hlen Hok H.
  unfold cline_ok, in_i16 in Hok. unfold store in H.
  destruct (accepted gl nl nr l' && accepted gr nl nr r') eqn:Eg; [|discriminate].
  apply andb_true_iff in Eg as [Eg1 Eg2].
  assert (Hl' : 0 <= l' < nl).
  { apply (guard_sound_strict gl NumLeft nl nr l' Hgl); cbn [dim_val]; [lia|lia|exact Eg1]. }
  assert (Hr' : 0 <= r' < nr).
  { apply (guard_sound_strict gr NumRight nl nr r' Hgr); cbn [dim_val]; [lia|lia|exact Eg2]. }
  rewrite (index_shape_eval wi l' r' nl nr Hshape) in H.
  pose proof (index_in_range l' r' nl nr Hl' Hr') as Hin.
  destruct ((0 <=? r' * nl + l') && (r' * nl + l' <? Z.of_nat (List.length m))) eqn:Eb; [|discriminate].
  inversion H; subst m'; clear H.
  split; [apply upd_length|]. split.
  - intros Hall. apply Forall_upd; [|exact Hall]. unfold in_i16. lia.
  - intros l r Hl Hr. pose proof (index_in_range l r nl nr Hl Hr) as Hin2.
    unfold step. destruct ((l' =? l) && (r' =? r)) eqn:E.
    + assert (l' = l /\ r' = r) as [-> ->] by lia.
      apply nth_upd_same. lia.
    + apply nth_upd_other. intros Heq.
      assert (r' * nl + l' = r * nl + l) as Heq2 by lia.
      destruct (index_injective l' r' l r nl Hl' Hl Heq2). lia.
Qed.

Lemma store_lines_spec : forall nl nr ls m m',
  0 <= nl < 32768 -> 0 <= nr < 32768 -> Z.of_nat (List.length m) = nl * nr -> forallb cline_ok ls = true ->
  store_lines gl gr wi nl nr m ls = Some m' ->
  List.length m' = List.length m /\
  (Forall (fun c => in_i16 c = true) m -> Forall (fun c => in_i16 c = true) m') /\
  forall l r, 0 <= l < nl -> 0 <= r < nr ->
    nth (Z.to_nat (r * nl + l)) m' 0 = fold_left (step l r) ls (nth (Z.to_nat (r * nl + l)) m 0).
Proof.
  intros nl nr ls. induction ls as [|t ls IH]; intros m m' Hnl Hnr Hlen Hok H; cbn [store_lines] in H.
  - inversion H; subst. repeat split; auto.
  - cbn [forallb] in Hok. apply andb_true_iff in Hok as [Hok1 Hok2].
    destruct (store gl gr wi nl nr m t) as [m1|] eqn:E; [|discriminate].
    destruct (store_spec nl nr m t m1 Hnl Hnr Hlen Hok1 E) as (L1 & F1 & S1).
    assert (Hlen1 : Z.of_nat (List.length m1) = nl * nr) by (rewrite L1; exact Hlen).
    destruct (IH m1 m' Hnl Hnr Hlen1 Hok2 H) as (L2 & F2 & S2).
    split; [congruence|]. split; [auto|].
    intros l r Hl Hr. rewrite (S2 l r Hl Hr), (S1 l r Hl Hr). reflexivity.
Qed.

(* cell level: after compiling the text, the cell the reader's formula selects holds the declared cost *)
Lemma conn_compile_cells : forall nl nr ls m,
  nl < 32768 -> nr < 32768 -> forallb cline_ok ls = true ->
  conn_compile_with gl gr wi nl nr ls = Some m ->
  Z.of_nat (List.length m) = nl * nr /\ Forall (fun c => in_i16 c = true) m /\
  forall l r, 0 <= l < nl -> 0 <= r < nr ->
    0 <= iexp_eval ri l r nl nr < nl * nr /\
    nth (Z.to_nat (iexp_eval ri l r nl nr)) m 0 = declared ls l r.
Proof.
  intros nl nr ls m Hnl Hnr Hok H. unfold conn_compile_with in H.
  destruct ((nl <? 0) || (nr <? 0)) eqn:En; [discriminate|].
  assert (Hlen0 : Z.of_nat (List.length (repeat 0 (Z.to_nat (nl * nr)))) = nl * nr).
  { rewrite repeat_length. assert (0 <= nl * nr) by (apply Z.mul_nonneg_nonneg; lia). lia. }
  destruct (store_lines_spec nl nr ls _ m ltac:(lia) ltac:(lia) Hlen0 Hok H) as (L & Fa & S).
  split; [rewrite L; exact Hlen0|]. split.
  - apply Fa. apply Forall_forall. intros x Hx. apply repeat_spec in Hx. subst x. reflexivity.
  - intros l r Hl Hr. apply iexp_eqb_eq in Hagree. subst ri.
    rewrite (index_shape_eval wi l r nl nr Hshape). split; [apply index_in_range; assumption|].
    rewrite (S l r Hl Hr), nth_repeat0. reflexivity.
Qed.

(* ------------------------------------------------------------------ bytes *)
Lemma skipn_cells : forall (m : cells) k,
  skipn (2 * k) (flat_map (fun c => le16 (i16_bits c)) m) = flat_map (fun c => le16 (i16_bits c)) (skipn k m).
Proof.
  induction m as [|c m IH]; intros k.
  - rewrite !skipn_nil. reflexivity.
  - destruct k as [|k]; [reflexivity|].
    replace (2 * S k)%nat with (S (S (2 * k))) by lia. cbn [flat_map skipn le16 app]. apply IH.
Qed.

Lemma skipn_nth_cons : forall (m : cells) k, (k < List.length m)%nat -> exists t, skipn k m = nth k m 0 :: t.
Proof.
  induction m as [|c m IH]; intros k H; cbn [List.length] in H; [lia|].
  destruct k as [|k]; cbn [skipn nth]; [eauto|]. apply IH. lia.
Qed.

Lemma to_i16_le16 : forall z, in_i16 z = true ->
  to_i16 ((i16_bits z mod 256) + 256 * ((i16_bits z / 256) mod 256))%N = z.
Proof.
  intros z H. unfold in_i16 in H.
  replace ((i16_bits z mod 256) + 256 * ((i16_bits z / 256) mod 256))%N with (i16_bits z).
  - apply to_i16_bits. lia.
  - pose proof (i16_bits_lt z). lia.
Qed.

Theorem matrix_roundtrip_gen : forall nl nr ls m l r rest,
  nl < 32768 -> nr < 32768 -> forallb cline_ok ls = true ->
  conn_compile_with gl gr wi nl nr ls = Some m ->
  0 <= l < nl -> 0 <= r < nr ->
  section_cost_with ri (conn_section nl nr m ++ rest) l r = Some (declared ls l r).
Proof.
  intros nl nr ls m l r rest Hnl Hnr Hok Hc Hl Hr.
  destruct (conn_compile_cells nl nr ls m Hnl Hnr Hok Hc) as (Hlen & Hall & Hcell).
  destruct (Hcell l r Hl Hr) as [Hin Hval].
  unfold conn_section, section_cost_with. unfold le16 at 1 2. cbn [app].
  rewrite !to_i16_le16 by (unfold in_i16; lia).
  set (i := iexp_eval ri l r nl nr) in *.
  destruct ((0 <=? i) && (i <? nl * nr)) eqn:Eb; [|lia].
  assert (Hk : (Z.to_nat i < List.length m)%nat) by lia.
  rewrite skipn_app. rewrite skipn_cells.
  destruct (skipn_nth_cons m (Z.to_nat i) Hk) as (t & Ht). rewrite Ht.
  cbn [flat_map]. unfold le16 at 1. cbn [app].
  f_equal. rewrite to_i16_le16; [exact Hval|].
  apply (Forall_nth0 (fun c => in_i16 c = true)); [reflexivity|exact Hall].
Qed.
End Generic.

(* the instance for the regenerated facts *)
Theorem matrix_roundtrip :
  conn_facts_ok = true ->
  forall nl nr ls m l r rest,
  nl < 32768 -> nr < 32768 -> forallb cline_ok ls = true ->
  conn_compile nl nr ls = Some m ->
  0 <= l < nl -> 0 <= r < nr ->
  section_cost (conn_section nl nr m ++ rest) l r = Some (declared ls l r).
Proof.
  unfold conn_facts_ok, conn_facts_ok_with. intros H.
  apply andb_true_iff in H as [H H4]. apply andb_true_iff in H as [H H3]. apply andb_true_iff in H as [H1 H2].
  exact (matrix_roundtrip_gen _ _ _ _ H1 H2 H3 H4).
Qed.

