(* Every list a reused tokenizer delivers consists of the nodes of the text it is delivered for: whatever earlier results
   were collected, swapped out, moved into a list or never taken at all (Model/TokResult.v). *)
From Coq Require Import String List NArith Bool Lia.
From SudachiVerif Require Import Model.TokResult.
Import ListNotations.

Section Proofs.
  Variable A : Type.
  Variable path : N -> list A.
  Variable c : rcfg.
  Hypothesis Hc : rcfg_ok c = true.

  Lemma reset_kind : rc_reset c = "clear_or_recreate"%string.
  Proof.
    pose proof Hc as H. unfold rcfg_ok in H. apply andb_true_iff in H. destruct H as [H _].
    apply andb_true_iff in H. destruct H as [H _]. apply String.eqb_eq. exact H.
  Qed.

  (* reset leaves an EMPTY vector in top_path, whatever was there (stale nodes of a result nobody took, None after an error,
     the vector a caller swapped in) *)
  Theorem reset_leaves_empty_top_path : forall s k, top A (do_reset A c s k) = Some [] /\ txt A (do_reset A c s k) = k.
  Proof. intros s k. unfold do_reset. rewrite reset_kind. cbn. split; reflexivity. Qed.

  Lemma tokenize_after_reset : forall s k o,
    top A (do_tokenize A path c (do_reset A c s k) o) =
      match o with OOk => Some (path k) | OEmpty | OFailEarly => Some [] | OFailLate => None end /\
    txt A (do_tokenize A path c (do_reset A c s k) o) = k.
  Proof.
    intros s k o. destruct (reset_leaves_empty_top_path s k) as [Ht Hk].
    unfold do_tokenize. destruct o; cbn [top txt]; rewrite ?Ht, ?Hk; (split; [|reflexivity]); try reflexivity.
    destruct (String.eqb (rc_resolve c) "fresh"); reflexivity.
  Qed.

  (* one round delivers what the round alone determines, from ANY state *)
  Theorem round_independent_of_history : forall s r, snd (do_round A path c s r) = spec_round A path r.
  Proof.
    intros s [[k o] t]. unfold do_round, spec_round. destruct (tokenize_after_reset s k o) as [Ht Hk].
    set (s1 := do_tokenize A path c (do_reset A c s k) o) in *.
    unfold do_take. destruct t; [reflexivity| | |]; rewrite Ht; destruct o; cbn [snd]; rewrite ?Hk; reflexivity.
  Qed.

  (* ... hence a whole session, of any length, from any state: the k-th delivered list is the path of the k-th text *)
  Theorem session_delivers_own_paths : forall rs s, run A path c s rs = spec_run A path rs.
  Proof.
    induction rs as [|r rs IH]; intros s; [reflexivity|]. cbn [run spec_run].
    pose proof (round_independent_of_history s r) as H. destruct (do_round A path c s r) as [s' x]. cbn [snd] in H. subst x.
    destruct (spec_round A path r); try reflexivity; f_equal; apply IH.
  Qed.

  (* in particular: no node of another text in a delivered list *)
  Corollary delivered_nodes_belong_to_their_text : forall rs s k ns,
    In (RList k ns) (run A path c s rs) -> ns = path k \/ ns = [].
  Proof.
    intros rs s k ns. rewrite session_delivers_own_paths. clear s.
    induction rs as [|[[k' o] t] rs IH]; cbn [spec_run]; [intros []|].
    destruct (spec_round A path (k', o, t)) eqn:E; cbn [In]; intros H.
    - destruct H as [H|H]; [discriminate | now apply IH].
    - destruct H as [H|H]; [|now apply IH]. inversion H; subst.
      unfold spec_round in E. destruct t; try discriminate; destruct o; inversion E; subst; auto.
    - destruct H as [H|H]; [discriminate | now apply IH].
    - destruct H as [H|[]]. discriminate.
  Qed.
End Proofs.

(* the model distinguishes the shapes: with a reset that keeps a vector it finds, a result nobody took leaks into the
   next delivery; with a reset that does not re-create a missing vector, collecting after an early error panics *)
Example stale_nodes_with_keeping_reset :
  run N (fun k => [k]) (mkRC "keep_or_recreate" "taken_and_extended" "swap_then_clear_received") (init N)
      [(1%N, OOk, TNone); (2%N, OOk, TCollect)] = [RNothing; RList 2%N [1%N; 2%N]].
Proof. reflexivity. Qed.
Example panic_with_reset_that_does_not_recreate :
  run N (fun k => [k]) (mkRC "clear_if_some" "taken_and_extended" "swap") (init N)
      [(1%N, OFailLate, TNone); (2%N, OEmpty, TCollect)] = [RNothing; RPanic].
Proof. reflexivity. Qed.
