(* The table IndexBuilder hands to the trie builder is "all rows with left_id >= 0 grouped by surface, ids = their row numbers
   in order" (Model/IndexBuild.v). *)
From Coq Require Import String List Arith NArith ZArith Bool Lia.
From SudachiVerif Require Generated.IndexFacts Generated.TrieBits.
From SudachiVerif Require Import Model.Harness Model.Trie Model.WordIdTable Model.LexSet Model.IndexBuild.
From SudachiVerif Require Import Proofs.TrieProofs Proofs.WordIdTableProofs Proofs.LexSetProofs.
Import ListNotations.
Open Scope N_scope.

Arguments N.add : simpl never.
Arguments N.of_nat : simpl never.

(* decidable side condition on the generated facts *)
Definition index_shapes_ok : bool :=
  IF.append_to_existing && IF.ids_are_row_numbers && IF.offset_before_write && IF.every_record_is_a_row
  && String.eqb IF.trie_value "table-offset"
  && String.eqb IF.csv_reader_options "flexible(true);has_headers(false);trim(Trim::None)".

(* build_lattice's dictionary nodes are made as Model/DictCands.v says *)
Definition lattice_shape_ok : bool :=
  String.eqb IF.lattice_lookup_shape "lookup(mod_c2b[ch_off]);skip(end<len&&!can_bow(end));node(ch_off,mod_b2c[end])".

Lemma bytes_eqb_true a b : bytes_eqb a b = true <-> a = b.
Proof. apply list_eqb_N_eq. Qed.
Lemma bytes_eqb_refl a : bytes_eqb a a = true.
Proof. apply bytes_eqb_true. reflexivity. Qed.
Lemma bytes_eqb_false a b : bytes_eqb a b = false <-> a <> b.
Proof.
  split.
  - intros H E. apply bytes_eqb_true in E. congruence.
  - intros H. destruct (bytes_eqb a b) eqn:E; [apply bytes_eqb_true in E; contradiction|reflexivity].
Qed.

Section Shapes.
Hypothesis HS : index_shapes_ok = true.
Hypothesis HR : index_rule_ok = true.

Lemma shape_facts : IF.append_to_existing = true /\ IF.ids_are_row_numbers = true.
Proof. unfold index_shapes_ok in HS. repeat rewrite andb_true_iff in HS. tauto. Qed.

(* ---------- IndexBuilder::add ---------- *)
Lemma index_add_keys m k id :
  map fst (index_add m k id) = if existsb (bytes_eqb k) (map fst m) then map fst m else map fst m ++ [k].
Proof.
  induction m as [|[k' ids] t IH]; cbn [index_add map fst existsb]; [reflexivity|].
  destruct (bytes_eqb k' k) eqn:E.
  - apply bytes_eqb_true in E. subst k'. rewrite bytes_eqb_refl. reflexivity.
  - assert (E' : bytes_eqb k k' = false) by (apply bytes_eqb_false; apply bytes_eqb_false in E; congruence).
    rewrite E'. cbn [orb map fst]. rewrite IH. destruct (existsb (bytes_eqb k) (map fst t)); reflexivity.
Qed.

Lemma existsb_bytes_in k ks : existsb (bytes_eqb k) ks = true <-> In k ks.
Proof.
  rewrite existsb_exists. split.
  - intros [x [Hx He]]. apply bytes_eqb_true in He. subst. exact Hx.
  - intros H. exists k. split; [exact H|apply bytes_eqb_refl].
Qed.

Lemma index_add_nodup m k id : NoDup (map fst m) -> NoDup (map fst (index_add m k id)).
Proof.
  intros Hn. rewrite index_add_keys. destruct (existsb (bytes_eqb k) (map fst m)) eqn:E; [exact Hn|].
  apply NoDup_app_disjoint; [exact Hn|constructor; [intros []|constructor]|].
  intros a Ha [<-|[]]. apply existsb_bytes_in in Ha. congruence.
Qed.

Lemma index_add_other m k id k' x : k' <> k -> (In (k', x) (index_add m k id) <-> In (k', x) m).
Proof.
  intros Hne. induction m as [|[k0 ids] t IH]; cbn [index_add].
  - split; [intros [H|[]]; injection H as -> _; congruence|intros []].
  - destruct (bytes_eqb k0 k) eqn:E.
    + apply bytes_eqb_true in E. subst k0. cbn [In]. split; intros [H|H]; try (right; exact H); injection H as -> _; congruence.
    + cbn [In]. rewrite IH. reflexivity.
Qed.

Lemma index_add_absent m k id x : ~ In k (map fst m) -> (In (k, x) (index_add m k id) <-> x = [id]).
Proof.
  induction m as [|[k0 ids] t IH]; intros Hn; cbn [index_add].
  - split; [intros [H|[]]; injection H as <-; reflexivity|intros ->; left; reflexivity].
  - cbn [map fst In] in Hn. destruct (bytes_eqb k0 k) eqn:E; [apply bytes_eqb_true in E; tauto|].
    cbn [In]. rewrite IH by tauto. split; [intros [H|H]; [injection H as -> _; tauto|exact H]|intros H; right; exact H].
Qed.

Lemma index_add_present m k id ids x : NoDup (map fst m) -> In (k, ids) m ->
  (In (k, x) (index_add m k id) <-> x = ids ++ [id]).
Proof.
  destruct shape_facts as [Ha _].
  induction m as [|[k0 ids0] t IH]; intros Hn Hin; [contradiction|].
  cbn [map fst] in Hn. inversion Hn as [|? ? Hk0 Hnt]; subst. cbn [index_add].
  destruct (bytes_eqb k0 k) eqn:E.
  - apply bytes_eqb_true in E. subst k0. rewrite Ha.
    assert (ids0 = ids).
    { destruct Hin as [H|H]; [injection H as ->; reflexivity|]. exfalso. apply Hk0. apply in_map_iff. exists (k, ids). split; [reflexivity|exact H]. }
    subst ids0. cbn [In]. split.
    + intros [H|H]; [injection H as <-; reflexivity|]. exfalso. apply Hk0. apply in_map_iff. exists (k, x). split; [reflexivity|exact H].
    + intros ->. left. reflexivity.
  - apply bytes_eqb_false in E. destruct Hin as [H|H]; [injection H as -> _; congruence|].
    cbn [In]. rewrite (IH Hnt H). split; [intros [H1|H1]; [injection H1 as -> _; congruence|exact H1]|intros H1; right; exact H1].
Qed.

(* ---------- rows_with over a growing prefix ---------- *)
Lemma number_app {A} (l1 l2 : list A) : forall i, number i (l1 ++ l2) = number i l1 ++ number (i + N.of_nat (length l1)) l2.
Proof.
  induction l1 as [|x t IH]; intros i; cbn [app number length].
  - replace (i + N.of_nat 0) with i by lia. reflexivity.
  - rewrite IH. f_equal. f_equal. f_equal. lia.
Qed.

Lemma rows_with_snoc k pre r :
  rows_with k (pre ++ [r]) = rows_with k pre ++ (if indexed r && bytes_eqb (fst r) k then [N.of_nat (length pre)] else []).
Proof.
  unfold rows_with. rewrite number_app, flat_map_app. cbn [number flat_map fst snd]. rewrite app_nil_r.
  replace (0 + N.of_nat (length pre)) with (N.of_nat (length pre)) by lia. reflexivity.
Qed.

(* state of the loop after the rows `pre` *)
Definition Inv (m : list group) (pre : list row) : Prop :=
  NoDup (map fst m) /\ (forall k ids, In (k, ids) m <-> (ids = rows_with k pre /\ ids <> [])) /\
  map fst m = fold_left add_key (indexed_surfaces pre) [].

Lemma indexed_surfaces_snoc pre r :
  indexed_surfaces (pre ++ [r]) = indexed_surfaces pre ++ (if indexed r then [fst r] else []).
Proof.
  unfold indexed_surfaces. rewrite filter_app, map_app. cbn [filter]. destruct (indexed r); reflexivity.
Qed.

Lemma step_inv m pre r cnt : Inv m pre ->
  Inv (if builder_indexes (snd r)
       then index_add m (fst r) (if IF.ids_are_row_numbers then N.of_nat (length pre) else cnt) else m) (pre ++ [r]).
Proof.
  destruct shape_facts as [_ Hrn]. rewrite Hrn. rewrite (builder_indexes_spec HR r).
  intros (Hn & Hin & Hk). destruct (indexed r) eqn:Ei.
  - split; [apply index_add_nodup; exact Hn|]. split.
    + intros k ids. rewrite rows_with_snoc, Ei. cbn [andb].
      destruct (bytes_eqb (fst r) k) eqn:E.
      * apply bytes_eqb_true in E. subst k.
        destruct (in_dec (list_eq_dec N.eq_dec) (fst r) (map fst m)) as [Hp|Ha].
        -- apply in_map_iff in Hp. destruct Hp as [[k0 ids0] [Hk0 Hp]]. cbn [fst] in Hk0. subst k0.
           rewrite (index_add_present m (fst r) _ ids0 ids Hn Hp). destruct (proj1 (Hin _ _) Hp) as [-> Hne].
           split; [intros ->; split; [reflexivity|]; intros H; apply app_eq_nil in H; destruct H; discriminate|intros [-> _]; reflexivity].
        -- rewrite (index_add_absent m (fst r) _ ids Ha).
           assert (Hnil : rows_with (fst r) pre = []).
           { destruct (rows_with (fst r) pre) as [|i0 t] eqn:Er; [reflexivity|]. exfalso. apply Ha.
             apply in_map_iff. exists (fst r, i0 :: t). split; [reflexivity|]. apply Hin. rewrite Er. split; [reflexivity|discriminate]. }
           rewrite Hnil. cbn [app]. split; [intros ->; split; [reflexivity|discriminate]|intros [-> _]; reflexivity].
      * apply bytes_eqb_false in E. rewrite app_nil_r. rewrite index_add_other by congruence. apply Hin.
    + rewrite index_add_keys, indexed_surfaces_snoc, Ei, fold_left_app. cbn [fold_left]. rewrite <- Hk. reflexivity.
  - split; [exact Hn|]. split.
    + intros k ids. rewrite rows_with_snoc, Ei. cbn [andb]. rewrite app_nil_r. apply Hin.
    + rewrite indexed_surfaces_snoc, Ei, app_nil_r. exact Hk.
Qed.

Lemma index_rows_inv : forall rows pre m cnt, Inv m pre ->
  Inv (index_rows m (N.of_nat (length pre)) cnt rows) (pre ++ rows).
Proof.
  induction rows as [|r t IH]; intros pre m cnt HI; cbn [index_rows].
  - rewrite app_nil_r. exact HI.
  - pose proof (step_inv m pre r cnt HI) as Hs.
    replace (pre ++ r :: t) with ((pre ++ [r]) ++ t) by (rewrite <- app_assoc; reflexivity).
    replace (N.of_nat (length pre) + 1) with (N.of_nat (length (pre ++ [r]))) by (rewrite app_length; cbn [length]; lia).
    destruct (builder_indexes (snd r)); apply IH; exact Hs.
Qed.

(* the (surface, ids) table handed to the table writer and the trie builder *)
Lemma index_groups_spec rows :
  NoDup (map fst (index_groups rows)) /\
  (forall k ids, In (k, ids) (index_groups rows) <-> (ids = rows_with k rows /\ ids <> [])) /\
  map fst (index_groups rows) = first_occurrences (indexed_surfaces rows).
Proof.
  unfold index_groups, first_occurrences.
  assert (H0 : Inv [] []).
  { split; [constructor|]. split; [|reflexivity]. intros k ids. cbn. split; [intros []|intros [-> H]; congruence]. }
  exact (index_rows_inv rows [] [] 0 H0).
Qed.

(* ---------- the table bytes ---------- *)
Lemma rows_with_bound k rows i : In i (rows_with k rows) -> i < N.of_nat (length rows).
Proof.
  intros H. apply rows_with_in in H. destruct H as (r & Hn & _).
  assert (N.to_nat i < length rows)%nat by (apply nth_error_Some; congruence). lia.
Qed.

Lemma combine_nth_error {A B} : forall (l1 : list A) (l2 : list B) i a b,
  nth_error l1 i = Some a -> nth_error l2 i = Some b -> nth_error (combine l1 l2) i = Some (a, b).
Proof.
  induction l1 as [|x t IH]; intros [|y u] [|i] a b H1 H2; cbn in *; try discriminate.
  - injection H1 as ->. injection H2 as ->. reflexivity.
  - apply IH; assumption.
Qed.

Lemma combine_in_nth {A B} : forall (l1 : list A) (l2 : list B) a b,
  In (a, b) (combine l1 l2) -> exists i, nth_error l1 i = Some a /\ nth_error l2 i = Some b.
Proof.
  induction l1 as [|x t IH]; intros [|y u] a b H; cbn in H; try contradiction.
  destruct H as [H|H]; [injection H as -> ->; exists 0%nat; split; reflexivity|].
  destruct (IH u a b H) as [i [H1 H2]]. exists (S i). split; assumption.
Qed.

Lemma nth_error_map' {A B} (f : A -> B) : forall l n, nth_error (map f l) n = option_map f (nth_error l n).
Proof. induction l as [|x t IH]; intros [|n]; cbn; auto. Qed.

Lemma map_fst_combine {A B} : forall (l1 : list A) (l2 : list B), length l1 = length l2 -> map fst (combine l1 l2) = l1.
Proof. induction l1 as [|x t IH]; intros [|y u] H; cbn in *; try discriminate; [reflexivity|]. rewrite IH by lia. reflexivity. Qed.

(* every (key, offset) pair given to the trie builder points at a table group that lists exactly the row numbers of the
   indexed rows with that surface, in row order; keys are the distinct indexed surfaces *)
Lemma index_table_spec rows tbl kos :
  Generated.TrieBits.WID_MAX_GROUP <= 255 -> N.of_nat (length rows) <= 4294967296 ->
  index_table rows = Some (tbl, kos) ->
  NoDup (map fst kos) /\
  (forall k o, In (k, o) kos -> rows_with k rows <> [] /\ entries tbl o = Some (rows_with k rows)) /\
  (forall r, In r rows -> indexed r = true -> exists o, In (fst r, o) kos).
Proof.
  intros HM Hlen Ht. unfold index_table in Ht.
  destruct (encode_groups (map snd (index_groups rows))) as [[tbl' offs]|] eqn:He; [|discriminate].
  injection Ht as <- <-. destruct (index_groups_spec rows) as (Hn & Hin & _).
  assert (Hall : forall g, In g (map snd (index_groups rows)) -> Forall u32 g).
  { intros g Hg. apply in_map_iff in Hg. destruct Hg as [[k ids] [<- Hk]]. cbn [snd].
    destruct (proj1 (Hin _ _) Hk) as [-> _]. apply Forall_forall. intros x Hx. apply rows_with_bound in Hx. unfold u32. lia. }
  destruct (wid_table_roundtrip HM _ [] tbl' offs He Hall) as (_ & Hl & Hrt).
  rewrite map_length in Hl.
  assert (Hl2 : length (map fst (index_groups rows)) = length offs) by (rewrite map_length; lia).
  split; [rewrite map_fst_combine by exact Hl2; exact Hn|]. split.
  - intros k o Hko. destruct (combine_in_nth _ _ _ _ Hko) as (i & Hi1 & Hi2).
    rewrite nth_error_map' in Hi1.
    match type of Hi1 with option_map fst ?x = _ => destruct x as [[k' ids]|] eqn:Eg end; [|cbn in Hi1; discriminate].
    cbn in Hi1. injection Hi1 as ->.
    destruct (proj1 (Hin _ _) (nth_error_In _ _ Eg)) as [-> Hne]. split; [exact Hne|].
    destruct (Hrt i (rows_with k rows)) as (o' & Ho' & Hent).
    { rewrite nth_error_map', Eg. reflexivity. }
    rewrite Hi2 in Ho'. injection Ho' as <-. exact Hent.
  - intros r Hr Hi. destruct (In_nth_error _ _ Hr) as [j Hj].
    assert (Hne : rows_with (fst r) rows <> []).
    { intros E. assert (Hx : In (N.of_nat j) (rows_with (fst r) rows)).
      { apply rows_with_in. exists r. replace (N.to_nat (N.of_nat j)) with j by lia. repeat split; assumption. }
      rewrite E in Hx. exact Hx. }
    destruct (In_nth_error _ _ (proj2 (Hin _ _) (conj eq_refl Hne))) as [i Hi'].
    destruct (nth_error offs i) as [o|] eqn:Eo.
    + exists o. apply (nth_error_In _ i). apply combine_nth_error; [rewrite nth_error_map', Hi'; reflexivity|exact Eo].
    + apply nth_error_None in Eo. assert (i < length (index_groups rows))%nat.
      { apply nth_error_Some. intros E. pose proof (eq_trans (eq_sym E) Hi') as X. discriminate X. }
      lia.
Qed.

(* ---------- the model against a compiled dictionary ---------- *)
Lemma remove1_in {A} (eqb : A -> A -> bool) (Heq : forall x y, eqb x y = true -> x = y) x :
  forall l l', remove1 eqb x l = Some l' -> forall y, In y l <-> (y = x \/ In y l').
Proof.
  induction l as [|z t IH]; intros l' H y; cbn [remove1] in H; [discriminate|].
  destruct (eqb x z) eqn:E.
  - injection H as <-. apply Heq in E. subst z. cbn [In]. split; intros [H|H]; auto.
  - destruct (remove1 eqb x t) as [t'|] eqn:Er; [|discriminate]. injection H as <-.
    cbn [In]. rewrite (IH t' eq_refl y). tauto.
Qed.

Lemma perm_b_in {A} (eqb : A -> A -> bool) (Heq : forall x y, eqb x y = true -> x = y) :
  forall l1 l2, perm_b eqb l1 l2 = true -> forall y, In y l1 <-> In y l2.
Proof.
  induction l1 as [|x t IH]; intros l2 H y; cbn [perm_b] in H.
  - destruct l2; [reflexivity|discriminate].
  - destruct (remove1 eqb x l2) as [l2'|] eqn:Er; [|discriminate].
    rewrite (remove1_in eqb Heq x l2 l2' Er y). cbn [In]. rewrite (IH l2' H y). split; intros [Hx|Hx]; auto.
Qed.

Lemma kv_eqb_eq a b : kv_eqb a b = true -> a = b.
Proof.
  destruct a as [k v], b as [k' v']. unfold kv_eqb. cbn [fst snd]. rewrite andb_true_iff, bytes_eqb_true, N.eqb_eq.
  intros [-> ->]. reflexivity.
Qed.

(* when the model of IndexBuilder reproduces the table section byte for byte and the verified enumerator reads exactly the
   model's (key, offset) pairs out of the trie section, the dictionary is certified: the only component of the index that is
   validated per dictionary rather than proved is the yada builder *)
Lemma index_cert_prop L rows fuel :
  layout_ok = true -> Generated.TrieBits.WID_MAX_GROUP <= 255 -> N.of_nat (length rows) <= 268435456 ->
  index_cert L rows fuel = true -> cert_prop L rows fuel.
Proof.
  intros HL HM Hlen Hc. unfold index_cert in Hc.
  destruct (index_table rows) as [[tbl kos]|] eqn:Et; [|discriminate].
  destruct (keys_of (lx_trie L) fuel) as [ks|] eqn:Ek; [|discriminate].
  apply andb_true_iff in Hc. destruct Hc as [Htbl Hperm]. apply list_eqb_N_eq in Htbl. subst tbl.
  pose proof (perm_b_in kv_eqb kv_eqb_eq kos ks Hperm) as Hp.
  destruct (index_table_spec rows _ kos HM ltac:(lia) Et) as (_ & Hko & Hrows).
  exists ks. split; [exact Ek|]. split.
  - intros k v Hin. apply Hp in Hin. destruct (Hko k v Hin) as [Hne He]. split; [exact Hne|]. split; [exact He|].
    apply Forall_forall. intros r Hr. apply rows_with_bound in Hr.
    destruct (layout_facts HL) as (_ & _ & _ & E4 & _). rewrite E4, N.land_ones. apply N.mod_small.
    change (2 ^ 28) with 268435456. lia.
  - intros r Hr Hi. destruct (Hrows r Hr Hi) as [o Ho]. exists o. apply Hp. exact Ho.
Qed.

(* hence lookup = naive CSV scan for every byte text and offset, from the model-based certificate alone *)
Lemma lex_lookup_exact_of_index_cert L rows fuel :
  layout_ok = true -> Generated.TrieBits.WID_MAX_GROUP <= 255 -> N.of_nat (length rows) <= 268435456 ->
  index_cert L rows fuel = true ->
  forall dic text off, N.land dic Generated.LexFacts.DIC_MASK = dic -> bytes text ->
  exists l, lex_lookup L dic text off = Some l /\
            forall w e, In (w, e) l <-> In (w, e) (naive_lex dic rows text off).
Proof.
  intros HL HM Hlen Hc. exact (lex_lookup_exact_of_cert_prop L rows fuel (index_cert_prop L rows fuel HL HM Hlen Hc)).
Qed.
End Shapes.

(* ---------- several files: word numbers are positions in the concatenation in the order given ---------- *)
Lemma index_rows_app : forall r1 r2 m i cnt,
  index_rows m i cnt (r1 ++ r2) =
  index_rows (index_rows m i cnt r1) (i + N.of_nat (length r1))
             (cnt + N.of_nat (length (filter (fun r => builder_indexes (snd r)) r1))) r2.
Proof.
  induction r1 as [|r t IH]; intros r2 m i cnt; cbn [app index_rows length filter].
  - replace (i + N.of_nat 0) with i by lia. replace (cnt + N.of_nat 0) with cnt by lia. reflexivity.
  - destruct (builder_indexes (snd r)); rewrite IH; cbn [length].
    + replace (i + 1 + N.of_nat (length t)) with (i + N.of_nat (S (length t))) by lia.
      replace (cnt + 1 + N.of_nat (length (filter (fun r0 => builder_indexes (snd r0)) t)))
        with (cnt + N.of_nat (S (length (filter (fun r0 => builder_indexes (snd r0)) t)))) by lia.
      reflexivity.
    + replace (i + 1 + N.of_nat (length t)) with (i + N.of_nat (S (length t))) by lia. reflexivity.
Qed.

Lemma read_files_spec : forall fs m i cnt,
  fold_left read_file fs (m, i, cnt) =
  (index_rows m i cnt (concat fs), i + N.of_nat (length (concat fs)),
   cnt + N.of_nat (length (filter (fun r => builder_indexes (snd r)) (concat fs)))).
Proof.
  induction fs as [|f t IH]; intros m i cnt; cbn [fold_left concat].
  - cbn [index_rows length filter]. f_equal; [f_equal|]; lia.
  - change (read_file (m, i, cnt) f) with
      (index_rows m i cnt f, i + N.of_nat (length f), cnt + N.of_nat (length (filter (fun r => builder_indexes (snd r)) f))).
    rewrite IH. rewrite index_rows_app, app_length, filter_app, app_length.
    replace (i + N.of_nat (length f) + N.of_nat (length (concat t))) with (i + N.of_nat (length f + length (concat t))) by lia.
    replace (cnt + N.of_nat (length (filter (fun r => builder_indexes (snd r)) f)) + N.of_nat (length (filter (fun r => builder_indexes (snd r)) (concat t))))
      with (cnt + N.of_nat (length (filter (fun r => builder_indexes (snd r)) f) + length (filter (fun r => builder_indexes (snd r)) (concat t)))) by lia.
    reflexivity.
Qed.

(* reading the files one after the other = reading their concatenation in the order given *)
Lemma read_files_concat fs : fst (fst (read_files fs)) = index_groups (concat fs).
Proof. unfold read_files, index_groups. rewrite read_files_spec. reflexivity. Qed.
