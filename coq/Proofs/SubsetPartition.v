(* C11 — "surfaces always partition the input whatever the subset": builder A's composed pipeline theorem
   (Proofs/PipelineFull.v: pipeline_partitions_original) never mentions a word info; what the loaded subset can change is
   (a) the ResultNodes resolve_best_path builds -- their ranges come from the lattice for every subset -- and (b) the split
   lists and head-word lengths the split stage sees -- either those of the full load or none.  This file instantiates the
   theorem with the subset-parameterised glue of Model/SubsetPipeline.v. *)
From Coq Require Import List ZArith NArith Bool Arith Lia Relations.
From SudachiVerif Require Import Model.Lattice Model.Buffer Proofs.LatticeProofs Proofs.BufferProofs Proofs.PipelineProofs Proofs.PipelineFull.
From SudachiVerif Require Model.Rewrite Model.Split Proofs.SplitProofs.
From SudachiVerif Require Model.Codec Model.SubsetPipeline Proofs.CodecProofs Proofs.SubsetBoundaries.
Import ListNotations.
Open Scope nat_scope.

Module C := Model.Codec.
Module SP := Model.SubsetPipeline.
Module SB := Proofs.SubsetBoundaries.

(* how resolve_best_path takes a node of the best path over: character range, byte range through to_curr_byte_idx *)
Definition pnode_of (t : list N) (ln : Lattice.node) (pn : SP.pnode) : Prop :=
  SP.p_cb pn = nbeg ln /\ SP.p_ce pn = nend ln /\ (SP.p_bb pn, SP.p_be pn) = node_bytes t ln.

Lemma resolve_rnode_of : forall getinfo L t p path pr,
  Forall2 (pnode_of t) p path -> SP.resolve getinfo L path = Some pr -> Forall2 (rnode_of t) p pr.
Proof.
  intros getinfo L t p path pr Hp Hr. pose proof (SB.resolve_from_path getinfo L path pr Hr) as Hf. clear Hr.
  revert pr Hf. induction Hp as [|ln pn p path (H1 & H2 & H3) _ IH]; intros pr Hf; inversion Hf as [|? rn ? prs (F1 & F2 & F3 & F4 & _) Hfs]; subst.
  - constructor.
  - constructor; [|apply IH; exact Hfs]. unfold rnode_of, rbytes. rewrite F1, F2, F3, F4, H1, H2, <- H3. repeat split.
Qed.

Section AnySubset.
Variable getinfo : N -> N -> option C.winfo.
Hypothesis Hget : SB.getinfo_ok getinfo.

(* the well-formedness C09 asks of the split lists holds for what a subset loads if it holds for the full load *)
Lemma split_wf_subset : forall L f key t ps, CodecProofs.subset_of L C.ALL -> f = C.F_a \/ f = C.F_b ->
  SB.words_known getinfo ps ->
  split_wf (SP.hw_of getinfo C.ALL) key t (SP.units_of getinfo f C.ALL) ps ->
  split_wf (SP.hw_of getinfo L) key t (SP.units_of getinfo f L) ps.
Proof.
  intros L f key t ps Hsub Hf Hk Hwf n Hn Hlen.
  assert (Hw : SP.is_oov_id (Split.wid n) = false -> getinfo C.ALL (Split.wid n) <> None).
  { intros Ho. destruct (Hk n Hn Ho) as (i & -> & _). discriminate. }
  destruct (N.testbit L (C.bit_of_fid f)) eqn:Et.
  - rewrite (SB.units_loaded getinfo Hget L f (Split.wid n) Hsub Hf Et Hw) in Hlen |- *.
    destruct (Hwf n Hn Hlen) as [Hu Hh]. split; [exact Hu|].
    intros u Hu'. rewrite <- (Hh u Hu'). apply (SB.hw_loaded getinfo Hget); [exact Hsub| |].
    + destruct Hf as [-> | ->]; cbn [C.bit_of_fid] in Et; rewrite Et; [reflexivity|apply orb_true_r].
    + unfold SP.units_of in Hu'. destruct (SP.is_oov_id (Split.wid n)) eqn:Eo; [contradiction|].
      destruct (Hk n Hn Eo) as (i & Ei & Hus). rewrite Ei in Hu'. apply Hus. apply in_or_app.
      destruct Hf as [-> | ->]; [left|right]; exact Hu'.
  - (* not loaded: the list is empty, nothing is split *)
    exfalso. unfold SP.units_of in Hlen. destruct (SP.is_oov_id (Split.wid n)) eqn:Eo; [cbn in Hlen; lia|].
    destruct (Hk n Hn Eo) as (iA & EA & _). destruct (Hget L _ iA Hsub EA) as (iS & ES & _ & _ & Ha & Hb).
    rewrite ES in Hlen. destruct Hf as [-> | ->]; cbn [C.bit_of_fid] in Et; [rewrite (Ha Et) in Hlen|rewrite (Hb Et) in Hlen]; cbn in Hlen; lia.
Qed.

Lemma mode_wf_subset : forall L key t m ps, CodecProofs.subset_of L C.ALL -> SB.words_known getinfo ps ->
  mode_wf (SP.hw_of getinfo C.ALL) key t (SP.units_of getinfo C.F_a C.ALL) (SP.units_of getinfo C.F_b C.ALL) m ps ->
  mode_wf (SP.hw_of getinfo L) key t (SP.units_of getinfo C.F_a L) (SP.units_of getinfo C.F_b L) m ps.
Proof.
  intros L key t m ps Hsub Hk H. destruct m; cbn [mode_wf] in *; [| |exact I].
  - apply (split_wf_subset L C.F_a); auto.
  - apply (split_wf_subset L C.F_b); auto.
Qed.
End AnySubset.

(* C11_surfaces_partition_any_subset *)
Section Partition.
  Variable cfg : bcfg.
  Hypothesis Hcfg : cfg_ok cfg = true.
  Variable conn : N -> N -> Z.

  Theorem surfaces_partition_any_subset o s t ns r i c :
    wf_text o = true -> Reach cfg o s -> cur s = enc t ->
    nodes_ok (nchars (cur s)) ns -> (0 < nchars (cur s))%nat ->
    connect_eos conn (insert_all conn (reset (nchars (cur s))) ns) = Some (r, i, c) ->
    exists es p,
      SP.lattice_stage 0%N conn (nchars (cur s)) ns = Some es /\ map enode es = map Some p /\
      forall getinfo L path pr pls q ps key m,
        SB.getinfo_ok getinfo -> CodecProofs.subset_of L C.ALL ->
        Forall2 (pnode_of (cur s)) p path ->
        SP.resolve getinfo L path = Some pr ->
        Rewrite.run_plugins pls pr = Some (Rewrite.Ok q) ->
        Forall2 snode_of q ps ->
        Split.split_facts_ok = true -> SB.words_known getinfo ps ->
        mode_wf (SP.hw_of getinfo C.ALL) key t (SP.units_of getinfo C.F_a C.ALL) (SP.units_of getinfo C.F_b C.ALL) m ps ->
        exists final,
          Split.tokenize_mode (SP.hw_of getinfo L) t (SP.units_of getinfo C.F_a L) (SP.units_of getinfo C.F_b L) m ps = Some final /\
          let ranges := map (map_range (m2o s)) (map sbytes final) in
          partition_b o ranges = true /\
          concat (map (byte_slice o) ranges) = o /\
          (forall n, In n final ->
             orig_slice s (fst (sbytes n)) (snd (sbytes n)) = Some (byte_slice o (map_range (m2o s) (sbytes n)))).
  Proof.
    intros Hwo HR Henc Hok Hpos Heos.
    destruct (pipeline_partitions_original cfg Hcfg conn o s t ns r i c Hwo HR Henc Hok Hpos Heos) as (es & p & H1 & H2 & _ & Hall).
    exists es, p. split; [exact H1|]. split; [exact H2|].
    intros getinfo L path pr pls q ps key m Hget Hsub Hp Hr Hrun Hps Hf Hk Hwf.
    apply (Hall pr pls q ps (SP.hw_of getinfo L) key (SP.units_of getinfo C.F_a L) (SP.units_of getinfo C.F_b L) m).
    - apply (resolve_rnode_of getinfo L (cur s) p path pr Hp Hr).
    - exact Hrun.
    - exact Hps.
    - exact Hf.
    - apply (mode_wf_subset getinfo Hget L key t m ps Hsub Hk Hwf).
  Qed.
End Partition.
