(* Lemmas about the double-array reader model (Model/Trie.v). *)
From Coq Require Import List Arith NArith Bool Lia ZifyBool ZifyNat ZifyN.
From SudachiVerif Require Import Model.Trie.
Import ListNotations.
Open Scope N_scope.

Arguments N.add : simpl never.
Arguments N.ltb : simpl never.
Arguments N.eqb : simpl never.
Arguments N.lxor : simpl never.
Arguments N.land : simpl never.
Arguments N.of_nat : simpl never.

(* ---------- small list facts ---------- *)
Lemma flat_map_map {A B C} (f : B -> list C) (g : A -> B) l :
  flat_map f (map g l) = flat_map (fun x => f (g x)) l.
Proof. induction l as [|x t IH]; cbn; [reflexivity|]. rewrite IH. reflexivity. Qed.

Lemma flat_map_nil_all {A B} (f : A -> list B) l : (forall x, In x l -> f x = []) -> flat_map f l = [].
Proof.
  induction l as [|x t IH]; cbn; intros H; [reflexivity|].
  rewrite (H x (or_introl eq_refl)). cbn. apply IH. intros y Hy. apply H. right. exact Hy.
Qed.

(* ---------- the specification unfolds along the text exactly like the loop ---------- *)
Lemma accept_from_cons a st k t :
  accept_from a st (k :: t) = match step a (fst st) k with None => None | Some st' => accept_from a st' t end.
Proof. unfold accept_from. cbn [walk]. destruct (step a (fst st) k); reflexivity. Qed.

Lemma accept_from_nil a st : accept_from a st [] = value_at a st.
Proof. reflexivity. Qed.

Lemma pm_nil a st i : prefix_matches_from a st [] i = [].
Proof. reflexivity. Qed.

Lemma pm_cons a st k rest i :
  prefix_matches_from a st (k :: rest) i =
  match step a (fst st) k with
  | None => []
  | Some st' => (match value_at a st' with Some v => [(v, i + 1)] | None => [] end)
                ++ prefix_matches_from a st' rest (i + 1)
  end.
Proof.
  unfold prefix_matches_from. cbn [length].
  change (seq 1 (S (length rest))) with (1%nat :: seq 2 (length rest)).
  rewrite <- (seq_shift (length rest) 1). cbn [flat_map]. rewrite flat_map_map.
  cbn [firstn]. rewrite accept_from_cons.
  destruct (step a (fst st) k) as [st'|] eqn:Hs.
  - rewrite accept_from_nil. f_equal.
    apply flat_map_ext. intros n. cbn [firstn]. rewrite accept_from_cons, Hs.
    destruct (accept_from a st' (firstn n rest)); [|reflexivity].
    f_equal. f_equal. lia.
  - cbn [app]. apply flat_map_nil_all. intros n _. cbn [firstn]. rewrite accept_from_cons, Hs. reflexivity.
Qed.

Lemma drain_noleaf a f pos k rest i p' :
  step a pos k = Some (p', false) ->
  drain (S f) a pos (k :: rest) i = drain (S f) a p' rest (i + 1).
Proof. intros H. cbn [drain next]. rewrite H. reflexivity. Qed.

Lemma drain_spec a : forall rest fuel pos b i,
  (length rest < fuel)%nat -> drain fuel a pos rest i = prefix_matches_from a (pos, b) rest i.
Proof.
  induction rest as [|k rest IH]; intros fuel pos b i Hf.
  - destruct fuel as [|f]; [cbn in Hf; lia|]. reflexivity.
  - destruct fuel as [|f]; [cbn in Hf; lia|]. cbn [length] in Hf.
    rewrite pm_cons. cbn [fst].
    destruct (step a pos k) as [[p' leaf]|] eqn:Hs.
    + destruct leaf.
      * cbn [drain next]. rewrite Hs. unfold value_at. cbn [fst snd app].
        f_equal. apply IH. lia.
      * rewrite (drain_noleaf a f pos k rest i p' Hs). unfold value_at. cbn [fst snd app].
        apply IH. lia.
    + cbn [drain next]. rewrite Hs. reflexivity.
Qed.

(* headline: for every array, text and offset the iterator yields exactly the accepted prefixes, shortest first *)
Lemma traverse_exact : forall a text off, traverse a text off = prefix_matches a text off.
Proof.
  intros a text off. unfold traverse, prefix_matches. apply drain_spec.
  rewrite skipn_length. lia.
Qed.

(* ---------- membership form ---------- *)
Lemma pm_in a st rest i v e :
  In (v, e) (prefix_matches_from a st rest i) <->
  exists n, (1 <= n <= length rest)%nat /\ accept_from a st (firstn n rest) = Some v /\ e = i + N.of_nat n.
Proof.
  unfold prefix_matches_from. rewrite in_flat_map. split.
  - intros [n [Hn Hin]]. apply in_seq in Hn. exists n.
    destruct (accept_from a st (firstn n rest)) as [v'|]; [|contradiction].
    destruct Hin as [Heq|[]]. injection Heq as <- <-. repeat split; lia.
  - intros [n [Hn [Ha ->]]]. exists n. split; [apply in_seq; lia|]. rewrite Ha. left. reflexivity.
Qed.

Definition is_prefix (key rest : list N) : Prop := exists suffix, rest = key ++ suffix.

Lemma traverse_in : forall a text off v e,
  In (v, e) (traverse a text off) <->
  exists key, key <> [] /\ accept_value a key = Some v /\ is_prefix key (skipn off text)
              /\ e = N.of_nat (off + length key).
Proof.
  intros a text off v e. rewrite traverse_exact. unfold prefix_matches. rewrite pm_in. split.
  - intros [n [Hn [Ha ->]]]. exists (firstn n (skipn off text)).
    assert (Hl : length (firstn n (skipn off text)) = n) by (rewrite firstn_length; lia).
    split; [intros E; rewrite E in Hl; cbn in Hl; lia|].
    split; [exact Ha|]. split.
    + exists (skipn n (skipn off text)). symmetry. apply firstn_skipn.
    + rewrite Hl. lia.
  - intros [key [Hne [Ha [[suffix Hs] ->]]]]. exists (length key). rewrite Hs.
    split.
    + rewrite app_length. destruct key; [congruence|]. cbn [length]. lia.
    + rewrite firstn_app, Nat.sub_diag, firstn_O, app_nil_r, firstn_all. split; [exact Ha|lia].
Qed.

(* ---------- ends strictly increase: every accepted prefix is reported once ---------- *)
Fixpoint ends_above (lo : N) (l : list (N * N)) : Prop :=
  match l with
  | [] => True
  | (_, e) :: t => lo < e /\ ends_above e t
  end.

Lemma ends_above_weaken lo lo' l : lo' <= lo -> ends_above lo l -> ends_above lo' l.
Proof. destruct l as [|[v e] t]; cbn; [auto|]. intros H [H1 H2]. split; [lia|exact H2]. Qed.

Lemma pm_ends_above a : forall rest st i, ends_above i (prefix_matches_from a st rest i).
Proof.
  induction rest as [|k rest IH]; intros st i; [exact I|].
  rewrite pm_cons. destruct (step a (fst st) k) as [st'|]; [|exact I].
  specialize (IH st' (i + 1)).
  destruct (value_at a st') as [v|]; cbn [app].
  - cbn [ends_above]. split; [lia|exact IH].
  - apply (ends_above_weaken (i + 1)); [lia|exact IH].
Qed.

Lemma ends_above_all lo l : ends_above lo l -> forall v e, In (v, e) l -> lo < e.
Proof.
  revert lo. induction l as [|[v' e'] t IH]; cbn; intros lo H v e Hin; [contradiction|].
  destruct H as [H1 H2]. destruct Hin as [Heq|Hin].
  - injection Heq as <- <-. exact H1.
  - specialize (IH e' H2 v e Hin). lia.
Qed.

Lemma ends_above_nodup lo l : ends_above lo l -> NoDup (map snd l).
Proof.
  revert lo. induction l as [|[v e] t IH]; cbn; intros lo H; [constructor|].
  destruct H as [H1 H2]. constructor; [|exact (IH e H2)].
  intros Hin. apply in_map_iff in Hin. destruct Hin as [[v' e'] [Heq Hin]]. cbn in Heq. subst e'.
  pose proof (ends_above_all e t H2 v' e Hin). lia.
Qed.

Lemma traverse_ends_increase : forall a text off, ends_above (N.of_nat off) (traverse a text off).
Proof. intros. rewrite traverse_exact. apply pm_ends_above. Qed.

Lemma traverse_once : forall a text off, NoDup (map snd (traverse a text off)).
Proof. intros. exact (ends_above_nodup _ _ (traverse_ends_increase a text off)). Qed.

(* ---------- the enumerator ---------- *)
Lemma all_bytes_in k : In k all_bytes <-> k < 256.
Proof.
  unfold all_bytes. rewrite in_map_iff. split.
  - intros [n [<- Hn]]. apply in_seq in Hn. lia.
  - intros H. exists (N.to_nat k). split; [lia|]. apply in_seq. lia.
Qed.

Lemma concat_opt_spec {A} (l : list (option (list A))) : forall r,
  concat_opt l = Some r ->
  (forall o, In o l -> exists y, o = Some y) /\
  (forall x, In x r <-> exists y, In (Some y) l /\ In x y).
Proof.
  induction l as [|o t IH]; intros r H.
  - cbn in H. injection H as <-. split; [intros o []|]. intros x. split; [intros []|intros [y [[] _]]].
  - cbn [concat_opt] in H. destruct o as [y0|]; [|discriminate].
    destruct (concat_opt t) as [r'|] eqn:Hc; [|discriminate]. injection H as <-.
    destruct (IH r' eq_refl) as [Hall Hin]. split.
    + intros o [<-|Ho]; [eexists; reflexivity|exact (Hall o Ho)].
    + intros x. rewrite in_app_iff. split.
      * intros [Hx|Hx]; [exists y0; split; [left; reflexivity|exact Hx]|].
        apply Hin in Hx. destruct Hx as [y [Hy Hx]]. exists y. split; [right; exact Hy|exact Hx].
      * intros [y [[Heq|Hy] Hx]]; [injection Heq as ->; left; exact Hx|].
        right. apply Hin. exists y. split; assumption.
Qed.

Definition bytes (key : list N) : Prop := Forall (fun k => k < 256) key.

Lemma keys_from_spec a : forall fuel st rk ks,
  keys_from fuel a st rk = Some ks ->
  forall full v, In (full, v) ks <->
                 exists key, full = rev rk ++ key /\ bytes key /\ accept_from a st key = Some v.
Proof.
  induction fuel as [|f IH]; intros st rk ks H; [discriminate|].
  cbn [keys_from] in H.
  destruct (fst st <? N.of_nat (length a)) eqn:Hb; [|discriminate].
  match type of H with match concat_opt ?l with _ => _ end = _ => destruct (concat_opt l) as [r|] eqn:Hc; [|discriminate] end.
  injection H as <-. intros full v. rewrite in_app_iff.
  destruct (concat_opt_spec _ _ Hc) as [Hall Hin]. split.
  - intros [Hh|Hr].
    + destruct (value_at a st) as [v0|] eqn:Hv; [|contradiction].
      destruct Hh as [Heq|[]]. injection Heq as <- <-.
      exists []. rewrite app_nil_r. split; [reflexivity|]. split; [constructor|]. rewrite accept_from_nil. exact Hv.
    + apply Hin in Hr. destruct Hr as [y [Hy Hx]]. apply in_map_iff in Hy. destruct Hy as [k [Hk Hkin]].
      destruct (step a (fst st) k) as [st'|] eqn:Hs.
      * destruct (fst st' =? fst st); [discriminate|].
        apply (IH st' (k :: rk) y Hk) in Hx. destruct Hx as [key [-> [Hf Ha]]].
        exists (k :: key). split; [cbn [rev]; rewrite <- app_assoc; reflexivity|].
        split; [constructor; [apply all_bytes_in; exact Hkin|exact Hf]|].
        rewrite accept_from_cons, Hs. exact Ha.
      * injection Hk as <-. contradiction.
  - intros [key [-> [Hf Ha]]]. destruct key as [|k key].
    + left. rewrite accept_from_nil in Ha. rewrite Ha, app_nil_r. left. reflexivity.
    + right. apply Hin. rewrite accept_from_cons in Ha.
      destruct (step a (fst st) k) as [st'|] eqn:Hs; [|discriminate].
      inversion Hf as [|k' key' Hk Hf']; subst.
      assert (Hkin : In k all_bytes) by (apply all_bytes_in; exact Hk).
      assert (Hel : In (if fst st' =? fst st then None else keys_from f a st' (k :: rk))
                       (map (fun k0 => match step a (fst st) k0 with
                                       | None => Some []
                                       | Some st'0 => if fst st'0 =? fst st then None else keys_from f a st'0 (k0 :: rk)
                                       end) all_bytes)).
      { apply in_map_iff. exists k. rewrite Hs. split; [reflexivity|exact Hkin]. }
      destruct (Hall _ Hel) as [y Hy]. destruct (fst st' =? fst st); [discriminate|].
      exists y. split; [rewrite <- Hy; exact Hel|].
      apply (IH st' (k :: rk) y Hy). exists key. split; [cbn [rev]; rewrite <- app_assoc; reflexivity|].
      split; assumption.
Qed.

(* certificate: when the enumerator answers, its answer is the set of accepted byte keys with their values *)
Lemma check_trie_sound : forall a fuel ks,
  keys_of a fuel = Some ks ->
  forall key v, In (key, v) ks <-> (bytes key /\ accept_value a key = Some v).
Proof.
  intros a fuel ks H key v. unfold keys_of in H.
  destruct ((0 <? N.of_nat (length a)) && (N.of_nat (length a) mod 256 =? 0)); [|discriminate].
  rewrite (keys_from_spec a fuel _ _ _ H key v). cbn [rev app]. unfold accept_value. split.
  - intros [key' [-> [Hb Ha]]]. split; assumption.
  - intros [Hb Ha]. exists key. repeat split; assumption.
Qed.

(* accepted keys determine their value: the enumerated table is a function of the key *)
Lemma check_trie_functional : forall a fuel ks key v1 v2,
  keys_of a fuel = Some ks -> In (key, v1) ks -> In (key, v2) ks -> v1 = v2.
Proof.
  intros a fuel ks key v1 v2 H H1 H2.
  apply (check_trie_sound a fuel ks H) in H1. apply (check_trie_sound a fuel ks H) in H2.
  destruct H1 as [_ H1]. destruct H2 as [_ H2]. congruence.
Qed.

(* composition: a certified array answers every common-prefix query from the enumerated table *)
Lemma traverse_from_table : forall a fuel ks text off,
  keys_of a fuel = Some ks -> bytes text ->
  forall v e, In (v, e) (traverse a text off) <->
              exists key, key <> [] /\ In (key, v) ks /\ is_prefix key (skipn off text)
                          /\ e = N.of_nat (off + length key).
Proof.
  intros a fuel ks text off H Hb v e. rewrite traverse_in. split.
  - intros [key [Hne [Ha [Hp ->]]]]. exists key. split; [exact Hne|]. split; [|split; [exact Hp|reflexivity]].
    apply (check_trie_sound a fuel ks H). split; [|exact Ha].
    destruct Hp as [suffix Hs].
    assert (Hbs : bytes (skipn off text)).
    { unfold bytes in *. rewrite Forall_forall in *. intros x Hx. apply Hb.
      rewrite <- (firstn_skipn off text). apply in_or_app. right. exact Hx. }
    rewrite Hs in Hbs. unfold bytes in Hbs. apply Forall_app in Hbs. exact (proj1 Hbs).
  - intros [key [Hne [Hin [Hp ->]]]]. exists key. split; [exact Hne|].
    apply (check_trie_sound a fuel ks H) in Hin. split; [exact (proj2 Hin)|]. split; [exact Hp|reflexivity].
Qed.

(* ---------- in-bounds: on a certified array the unchecked reads of the traversal never leave the array ---------- *)
Definition alen (a : list N) : N := N.of_nat (length a).

Lemma get_opt_get a p : p < alen a -> get_opt a p = Some (get a p).
Proof. unfold alen, get_opt, get. intros H. apply nth_error_nth'. lia. Qed.

Lemma lxor_block pos k n : n mod 256 = 0 -> pos < n -> k < 256 -> N.lxor pos k < n.
Proof.
  intros Hn Hp Hk.
  assert (Hq : N.lxor pos k / 256 = pos / 256).
  { change 256 with (2 ^ 8). rewrite <- !N.shiftr_div_pow2. rewrite N.shiftr_lxor.
    rewrite (N.shiftr_div_pow2 k). rewrite (N.div_small k) by (change (2 ^ 8) with 256; lia).
    apply N.lxor_0_r. }
  pose proof (N.div_mod (N.lxor pos k) 256 ltac:(lia)) as E1.
  pose proof (N.mod_lt (N.lxor pos k) 256 ltac:(lia)) as B1.
  pose proof (N.div_mod pos 256 ltac:(lia)) as E2.
  pose proof (N.div_mod n 256 ltac:(lia)) as E3.
  rewrite Hq in E1. rewrite Hn in E3.
  remember (N.lxor pos k) as q. remember (pos / 256) as a. remember (n / 256) as b.
  remember (q mod 256) as r1. remember (pos mod 256) as r2.
  assert (a < b) by lia. lia.
Qed.

(* every node reachable from pos over byte keys lies inside the array *)
Definition invp (a : list N) (pos : N) : Prop :=
  forall key st', bytes key -> walk a (pos, false) key = Some st' -> fst st' < alen a.

Lemma invp_here a pos : invp a pos -> pos < alen a.
Proof. intros H. exact (H [] (pos, false) (Forall_nil _) eq_refl). Qed.

Lemma invp_step a pos k p' leaf : invp a pos -> k < 256 -> step a pos k = Some (p', leaf) -> invp a p'.
Proof.
  intros H Hk Hs key st' Hb Hw. destruct key as [|k' t].
  - cbn in Hw. injection Hw as <-. cbn [fst].
    apply (H [k] (p', leaf)); [constructor; [exact Hk|constructor]|]. cbn [walk fst]. rewrite Hs. reflexivity.
  - apply (H (k :: k' :: t) st'); [constructor; assumption|].
    cbn [walk fst] in *. rewrite Hs. cbn [fst]. exact Hw.
Qed.

Lemma keys_from_invp a : forall fuel st rk ks,
  keys_from fuel a st rk = Some ks ->
  forall key st', bytes key -> walk a st key = Some st' -> fst st' < alen a.
Proof.
  induction fuel as [|f IH]; intros st rk ks H; [discriminate|].
  cbn [keys_from] in H.
  destruct (fst st <? N.of_nat (length a)) eqn:Hb; [|discriminate].
  match type of H with match concat_opt ?l with _ => _ end = _ => destruct (concat_opt l) as [r|] eqn:Hc; [|discriminate] end.
  destruct (concat_opt_spec _ _ Hc) as [Hall _].
  intros key st' Hk Hw. destruct key as [|k t].
  - cbn in Hw. injection Hw as <-. unfold alen. lia.
  - cbn [walk] in Hw. destruct (step a (fst st) k) as [st1|] eqn:Hs; [|discriminate].
    inversion Hk as [|k' t' Hk1 Hk2]; subst.
    assert (Hel : In (if fst st1 =? fst st then None else keys_from f a st1 (k :: rk))
                     (map (fun k0 => match step a (fst st) k0 with
                                     | None => Some []
                                     | Some st'0 => if fst st'0 =? fst st then None else keys_from f a st'0 (k0 :: rk)
                                     end) all_bytes)).
    { apply in_map_iff. exists k. rewrite Hs. split; [reflexivity|apply all_bytes_in; exact Hk1]. }
    destruct (Hall _ Hel) as [y Hy]. destruct (fst st1 =? fst st); [discriminate|].
    exact (IH st1 (k :: rk) y Hy t st' Hk2 Hw).
Qed.

Section InBounds.
Variable a : list N.
Hypothesis Hblock : alen a mod 256 = 0.

Lemma step_opt_agree pos k : pos < alen a -> k < 256 -> step_opt a pos k = Some (step a pos k).
Proof.
  intros Hp Hk. unfold step_opt, step. destruct (TB.nul_stops && (k =? 0)); [reflexivity|].
  rewrite (get_opt_get a (N.lxor pos k)) by (apply lxor_block; assumption). reflexivity.
Qed.

Lemma next_opt_agree : forall rest pos i, bytes rest -> invp a pos -> next_opt a pos rest i = Some (next a pos rest i).
Proof.
  induction rest as [|k rest IH]; intros pos i Hb Hi; [reflexivity|].
  inversion Hb as [|k' t' Hk Hb']; subst. cbn [next_opt next].
  rewrite (step_opt_agree pos k (invp_here a pos Hi) Hk).
  destruct (step a pos k) as [[p' leaf]|] eqn:Hs; [|reflexivity].
  pose proof (invp_step a pos k p' leaf Hi Hk Hs) as Hi'.
  destruct leaf.
  - rewrite (get_opt_get a p' (invp_here a p' Hi')). reflexivity.
  - apply IH; assumption.
Qed.

Lemma next_state_inv : forall rest pos i e p' rest' i',
  bytes rest -> invp a pos -> next a pos rest i = Some (e, (p', rest', i')) -> invp a p' /\ bytes rest'.
Proof.
  induction rest as [|k rest IH]; intros pos i e p' rest' i' Hb Hi Hn; [discriminate|].
  inversion Hb as [|k' t' Hk Hb']; subst. cbn [next] in Hn.
  destruct (step a pos k) as [[p1 leaf]|] eqn:Hs; [|discriminate].
  pose proof (invp_step a pos k p1 leaf Hi Hk Hs) as Hi'.
  destruct leaf.
  - injection Hn as _ <- <- _. split; assumption.
  - exact (IH p1 (i + 1) e p' rest' i' Hb' Hi' Hn).
Qed.

Lemma drain_opt_agree : forall fuel pos rest i, bytes rest -> invp a pos ->
  drain_opt fuel a pos rest i = Some (drain fuel a pos rest i).
Proof.
  induction fuel as [|f IH]; intros pos rest i Hb Hi; [reflexivity|].
  cbn [drain_opt drain]. rewrite (next_opt_agree rest pos i Hb Hi).
  destruct (next a pos rest i) as [[e [[p' rest'] i']]|] eqn:Hn; [|reflexivity].
  destruct (next_state_inv rest pos i e p' rest' i' Hb Hi Hn) as [Hi' Hb'].
  rewrite (IH p' rest' i' Hb' Hi'). reflexivity.
Qed.
End InBounds.

(* the certificate also establishes that the faithful, bounds-checked traversal never fails and equals the totalised one:
   the argument of every unchecked read is inside the array, for every byte text and offset *)
Lemma traverse_in_bounds : forall a fuel ks text off,
  keys_of a fuel = Some ks -> bytes text -> traverse_opt a text off = Some (traverse a text off).
Proof.
  intros a fuel ks text off H Hb. unfold keys_of in H.
  destruct ((0 <? N.of_nat (length a)) && (N.of_nat (length a) mod 256 =? 0)) eqn:Hc; [|discriminate].
  assert (H0 : 0 < alen a) by (unfold alen; lia).
  assert (Hm : alen a mod 256 = 0) by (unfold alen; lia).
  unfold traverse_opt, traverse, root. change TB.ROOT_INDEX with 0.
  rewrite (get_opt_get a 0 H0).
  apply drain_opt_agree; [exact Hm| |].
  - unfold bytes in *. rewrite Forall_forall in *. intros x Hx. apply Hb.
    rewrite <- (firstn_skipn off text). apply in_or_app. right. exact Hx.
  - intros key st' Hk Hw. exact (keys_from_invp a fuel _ _ _ H key st' Hk Hw).
Qed.
