(* C09 composed with the C05 codec model (builder B's Model/Codec*.v, Proofs/Codec*Proofs.v, used as they are):
   from the rows a dictionary author writes, through DictBuilder::resolve, the words section, the file, the reader,
   WordInfos::get_word_info and LexiconSet::get_word_info_subset, to the hypotheses of the split theorems of
   Proofs/SplitProofs.v (head_word_length = byte length of the key; units_wf). *)
From Coq Require Import List Arith NArith ZArith Bool Lia ZifyBool ZifyNat ZifyN.
From SudachiVerif Require Import Model.Codec Proofs.CodecProofs Proofs.CodecLexProofs Proofs.CodecLexSetProofs.
From SudachiVerif Require Import Model.CodecResolve Proofs.CodecResolveProofs Proofs.CodecResolveLexProofs.
From SudachiVerif Require Import Model.SplitSource.
From SudachiVerif Require Model.Split Proofs.SplitProofs.
Import ListNotations.
Open Scope N_scope.

Module S := SudachiVerif.Model.Split.
Module SP := SudachiVerif.Proofs.SplitProofs.

(* ---------- the two models count UTF-8 bytes alike ---------- *)
Lemma blen_utf8_len : forall t, S.blen t = utf8_len t.
Proof. induction t as [|c t IH]; [reflexivity|]. cbn [S.blen utf8_len fold_right]. rewrite IH. reflexivity. Qed.

(* ---------- word ids ---------- *)
Lemma DIC_pos : 0 < DIC.
Proof. reflexivity. Qed.

Lemma dic_part_mk : forall d i, i < DIC -> dic_part (d * DIC + i) = d.
Proof. intros d i H. unfold dic_part. rewrite N.add_comm, N.div_add by (unfold DIC; lia). rewrite N.div_small by exact H. lia. Qed.
Lemma word_part_mk : forall d i, i < DIC -> word_part (d * DIC + i) = i.
Proof. intros d i H. unfold word_part. rewrite N.add_comm, N.mod_add by (unfold DIC; lia). apply N.mod_small. exact H. Qed.
Lemma wid_decompose : forall w, w = dic_part w * DIC + word_part w.
Proof. intros w. unfold dic_part, word_part. rewrite N.mul_comm. apply N.div_mod. unfold DIC. lia. Qed.
Lemma word_part_lt : forall w, word_part w < DIC.
Proof. intros w. unfold word_part. apply N.mod_lt. unfold DIC. lia. Qed.

(* restamp of the codec model = update_dict_id as Model/SplitSource.v writes it *)
Lemma restamp_global : forall d ids, restamp d ids = map (global_of d) ids.
Proof. intros d ids. reflexivity. Qed.

(* ---------- compilation of a stack of sources ---------- *)
(* one dictionary: rows resolved (user = against the system entries), laid out as a words section at some position of a
   file below 4 GiB, every entry within what validate_entries / the column parsers guarantee *)
Definition compiles_to (user : bool) (sys_es : list entry) (rows : list rrow) (es : list entry) (c : compiled) : Prop :=
  exists prefix sec,
    resolve_rows user rows sys_es = Some es /\
    write_words_section (N.of_nat (List.length prefix)) es = Some sec /\
    N.of_nat (List.length (prefix ++ sec)) < 4294967296 /\
    lexicon_wf es /\
    cp_file c = prefix ++ sec /\ cp_off c = N.of_nat (List.length prefix).

Definition stack_compiled (ds : srcs) (cs : list compiled) : Prop :=
  exists rows0 uds c0 ucs es0,
    ds = rows0 :: uds /\ cs = c0 :: ucs /\
    compiles_to false [] rows0 es0 c0 /\
    Forall2 (fun rows c => exists es, compiles_to true es0 rows es c) uds ucs.

(* the source is what the CSV reader hands to the writer, and no dictionary has 2^28 words or more *)
Definition srcs_ok (ds : srcs) : Prop :=
  Forall (fun rows => Forall from_csv rows /\ N.of_nat (List.length rows) <= DIC) ds.

(* resolution leaves headword, POS and reading alone: BinDictResolver's keys are those of the system rows *)
Lemma sys_keys_of_resolved : forall own_dic own sys rows es,
  resolve_rows_with own_dic own sys rows = Some es -> map sys_key es = map (fun r => sys_key (r_entry r)) rows.
Proof.
  intros own_dic own sys rows es H. apply resolve_rows_with_spec in H.
  induction H as [|r e rows es (a & b & -> & _) _ IH]; [reflexivity|].
  cbn [map]. rewrite IH. reflexivity.
Qed.

Lemma resolve_units_det : forall own_dic own sys us ws ws',
  Forall2 (fun u w => resolve_unit own_dic own sys u = Some w) us ws ->
  resolve_units own_dic own sys us = Some ws' -> ws = ws'.
Proof.
  intros own_dic own sys us ws ws' H. revert ws'. induction H as [|u w us ws Hu _ IH]; intros ws' H'; cbn [resolve_units] in H'.
  - congruence.
  - rewrite Hu in H'. destruct (resolve_units own_dic own sys us) as [x|]; [|discriminate].
    cbn [option_map] in H'. inversion H'. f_equal. apply IH. reflexivity.
Qed.

(* every dictionary of a compiled stack, by position *)
Lemma stack_nth : forall ds cs d rows,
  stack_compiled ds cs -> nth_error ds d = Some rows ->
  exists c es es0 rows0,
    nth_error cs d = Some c /\ nth_error ds 0 = Some rows0 /\
    resolve_rows false rows0 [] = Some es0 /\
    compiles_to (match d with O => false | S _ => true end) (match d with O => [] | S _ => es0 end) rows es c.
Proof.
  intros ds cs d rows (rows0 & uds & c0 & ucs & es0 & -> & -> & H0 & HU) Hd.
  assert (Hr0 : resolve_rows false rows0 [] = Some es0) by (destruct H0 as (p & s & H & _); exact H).
  destruct d as [|d]; cbn [nth_error] in *.
  - inversion Hd; subst rows. exists c0, es0, es0, rows0. repeat split; try reflexivity; assumption.
  - destruct (Forall2_nth_error_l _ _ _ _ _ HU Hd) as (c & Hc & es & He).
    exists c, es, es0, rows0. repeat split; try reflexivity; assumption.
Qed.

Section Loaded.
  Hypothesis HW : FO.writer_fields = expected_writer.
  Hypothesis HR : reader_facts_ok.
  Hypothesis HL : len_thresholds_ok = true.

  Variable ds : srcs.
  Variable cs : list compiled.
  Hypothesis Hcomp : stack_compiled ds cs.
  Hypothesis Hsrc : srcs_ok ds.
  Variable nsp : N.
  Variable po : N -> N.

  Lemma rows_of_nth : forall d rows, nth_error ds d = Some rows -> rows_of ds (N.of_nat d) = rows.
  Proof. intros d rows H. unfold rows_of. rewrite Nat2N.id. apply nth_error_nth. exact H. Qed.

  Lemma src_row_inv : forall w r, src_row ds w = Some r ->
    exists rows, nth_error ds (N.to_nat (dic_part w)) = Some rows /\ nth_error rows (N.to_nat (word_part w)) = Some r.
  Proof.
    intros w r H. unfold src_row in H. cbv zeta in H.
    destruct (word_part w <? N.of_nat (List.length (rows_of ds (dic_part w)))); [|discriminate].
    unfold rows_of in H.
    destruct (nth_error ds (N.to_nat (dic_part w))) as [rows|] eqn:E.
    - exists rows. split; [reflexivity|]. rewrite (nth_error_nth _ _ _ E) in H. exact H.
    - apply nth_error_None in E. rewrite nth_overflow in H by exact E. destruct (N.to_nat (word_part w)); discriminate.
  Qed.

  (* what the loaded LexiconSet reports for the word of a source row: the head_word_length the row carries and, for
     each split column, the stored ids re-stamped -- where the stored ids are the resolution of the column *)
  Lemma loaded_word : forall w r,
    src_row ds w = Some r ->
    exists info,
      ld_info cs nsp po w = Some info /\
      accessor A_hwlen info = VNum (e_surface_len (r_entry r)) /\
      (forall a, src_units ds a w = Some (as_arr (accessor (if a then A_a else A_b) info))).
  Proof.
    intros w r Hrow.
    destruct (src_row_inv w r Hrow) as (rows & Hd & Hi).
    destruct (stack_nth ds cs _ rows Hcomp Hd) as (c & es & es0 & rows0 & Hc & H0 & Hr0 & (prefix & sec & Hres & Hsec & Hsize & Hwf & Hfile & Hoff)).
    unfold resolve_rows in Hres.
    pose proof (resolve_rows_with_spec _ _ _ _ _ Hres) as Hspec.
    destruct (Forall2_nth_error_l _ _ _ _ _ Hspec Hi) as (e & He & a & b & -> & Ha & Hb).
    destruct (lexicon_roundtrip HW HR HL prefix es sec Hsec Hsize Hwf) as (_ & Hall).
    destruct (Hall _ _ He) as ((info & Hinfo & Hl) & _).
    rewrite N2Nat.id in Hinfo.
    unfold loaded_as in Hl. destruct Hl as (_ & Lh & _ & _ & _ & _ & _ & La & Lb & _).
    exists (lexset_fix (dic_part w) nsp (po (dic_part w)) ALL info).
    split; [|split].
    - unfold ld_info. rewrite Hc. unfold lexset_get. rewrite Hfile, Hoff, Hinfo. reflexivity.
    - cbn [accessor] in Lh |- *. rewrite lexset_fix_field. cbn [fix_field]. exact Lh.
    - assert (Hsys : (if dic_part w =? 0 then [] else sys_keys ds) =
                     (if match N.to_nat (dic_part w) with O => false | S _ => true end
                      then map sys_key match N.to_nat (dic_part w) with O => [] | S _ => es0 end else [])).
      { destruct (N.to_nat (dic_part w)) as [|k] eqn:Ek.
        - replace (dic_part w =? 0) with true by lia. reflexivity.
        - replace (dic_part w =? 0) with false by lia.
          unfold sys_keys. change 0 with (N.of_nat 0). rewrite (rows_of_nth 0 rows0 H0).
          unfold resolve_rows in Hr0. symmetry. apply (sys_keys_of_resolved _ _ _ _ _ Hr0). }
      assert (Hown : (if dic_part w =? 0 then 0 else 1) =
                     (if match N.to_nat (dic_part w) with O => false | S _ => true end then 1 else 0)).
      { destruct (N.to_nat (dic_part w)) eqn:Ek; [replace (dic_part w =? 0) with true by lia|replace (dic_part w =? 0) with false by lia]; reflexivity. }
      assert (Hrows : rows_of ds (dic_part w) = rows).
      { rewrite <- (N2Nat.id (dic_part w)). apply rows_of_nth. exact Hd. }
      intros [|]; unfold src_units; rewrite Hrow; unfold src_resolve_units; rewrite Hsys, Hown, Hrows.
      + destruct (resolve_units _ _ _ (r_a r)) as [a'|] eqn:Ea'.
        * rewrite <- (resolve_units_det _ _ _ _ _ _ Ha Ea'). cbn [option_map accessor] in La |- *.
          rewrite lexset_fix_field. cbn [fix_field]. change (N.testbit ALL 6) with true. cbn [as_arr].
          rewrite restamp_global. inversion La as [La']. rewrite La'. cbn [with_splits e_splits_a]. reflexivity.
        * exfalso. clear - Ha Ea'. revert Ea'. induction Ha as [|u x us xs Hu _ IH]; cbn [resolve_units]; [discriminate|].
          rewrite Hu. destruct (resolve_units _ _ _ us); [discriminate|]. intros _. apply IH. reflexivity.
      + destruct (resolve_units _ _ _ (r_b r)) as [b'|] eqn:Eb'.
        * rewrite <- (resolve_units_det _ _ _ _ _ _ Hb Eb'). cbn [option_map accessor] in Lb |- *.
          rewrite lexset_fix_field. cbn [fix_field]. change (N.testbit ALL 7) with true. cbn [as_arr].
          rewrite restamp_global. inversion Lb as [Lb']. rewrite Lb'. cbn [with_splits e_splits_b]. reflexivity.
        * exfalso. clear - Hb Eb'. revert Eb'. induction Hb as [|u x us xs Hu _ IH]; cbn [resolve_units]; [discriminate|].
          rewrite Hu. destruct (resolve_units _ _ _ us); [discriminate|]. intros _. apply IH. reflexivity.
  Qed.

  (* the writer's condition on the index form: write_len refuses a length above i16::MAX (a build error, no truncation) *)
  Lemma written_len_bound : forall e b, write_word_info e = Some b -> e_surface_len e <= FO.len_max.
  Proof.
    intros e b H. unfold write_word_info in H. rewrite HW in H. unfold expected_writer in H.
    apply write_fields_cons in H as (a1 & c1 & _ & H & _).
    apply write_fields_cons in H as (a2 & c2 & H & _ & _).
    cbn in H. unfold write_len in H. destruct (FO.len_max <? e_surface_len e) eqn:E; [discriminate|lia].
  Qed.

  Lemma src_row_from_csv : forall w r, src_row ds w = Some r -> from_csv r.
  Proof.
    intros w r H. destruct (src_row_inv w r H) as (rows & Hd & Hi).
    unfold srcs_ok in Hsrc. rewrite Forall_forall in Hsrc.
    destruct (Hsrc rows (nth_error_In _ _ Hd)) as [Hf _]. rewrite Forall_forall in Hf.
    apply Hf. exact (nth_error_In _ _ Hi).
  Qed.

  (* (1) the loaded head_word_length of every word is the UTF-8 length of its key (column 0) -- for every dictionary
         the writer accepts; it accepts only keys of at most len_max (32767) bytes *)
  Theorem head_word_length_is_key_length : forall w r,
    src_row ds w = Some r ->
    ld_hw cs nsp po w = utf8_len (r_surface r) /\ utf8_len (r_surface r) <= FO.len_max.
  Proof.
    intros w r Hrow. pose proof (src_row_from_csv w r Hrow) as Hcsv. unfold from_csv in Hcsv.
    destruct (loaded_word w r Hrow) as (info & Hinfo & Hh & _).
    split.
    - unfold ld_hw. rewrite Hinfo, Hh. cbn [as_num]. exact Hcsv.
    - rewrite <- Hcsv.
      destruct (src_row_inv w r Hrow) as (rows & Hd & Hi).
      destruct (stack_nth ds cs _ rows Hcomp Hd) as (c & es & es0 & rows0 & _ & _ & _ & (prefix & sec & Hres & Hsec & _)).
      unfold resolve_rows in Hres.
      destruct (Forall2_nth_error_l _ _ _ _ _ (resolve_rows_with_spec _ _ _ _ _ Hres) Hi) as (e & He & a & b & -> & _).
      unfold write_words_section in Hsec. destruct (write_infos es) as [infos|] eqn:Ei; [|discriminate].
      destruct (write_infos_nth _ _ _ _ Ei He) as (bb & _ & Hw).
      apply written_len_bound in Hw. exact Hw.
  Qed.

  Corollary ld_hw_is_blen_key : forall w, src_key ds w <> [] -> ld_hw cs nsp po w = S.blen (src_key ds w).
  Proof.
    intros w H. unfold src_key in *. destruct (src_row ds w) as [r|] eqn:E; [|congruence].
    rewrite blen_utf8_len. apply (head_word_length_is_key_length w r E).
  Qed.

  (* the unit lists the loaded dictionary reports are the ones computed from the rows *)
  Theorem loaded_units_are_source_units : forall a w r,
    src_row ds w = Some r -> src_units ds a w = Some (ld_units cs nsp po a w).
  Proof.
    intros a w r Hrow. destruct (loaded_word w r Hrow) as (info & Hinfo & _ & Hu).
    unfold ld_units. rewrite Hinfo. apply Hu.
  Qed.

  (* a C-mode node that covers, in the modified text t, exactly the key of its word (what the trie matched) *)
  Definition covers (t : list N) (n : S.node) (k : list N) : Prop :=
    exists pre post, t = pre ++ k ++ post /\ S.nb n = S.clen pre /\ S.bb n = S.blen pre /\ S.ne n = S.clen (pre ++ k) /\ S.be n = S.blen (pre ++ k).

  (* (2) the source-level condition gives units_wf for the loaded dictionary *)
  Theorem units_wf_of_rows : forall a t n,
    rows_units_ok ds a (S.wid n) = true ->
    covers t n (src_key ds (S.wid n)) ->
    SP.units_wf (src_key ds) t n (ld_units cs nsp po a (S.wid n)) /\
    (forall u, In u (ld_units cs nsp po a (S.wid n)) -> ld_hw cs nsp po u = S.blen (src_key ds u)).
  Proof.
    intros a t n Hok (pre & post & Ht & Hnb & Hbb & Hne & Hbe).
    unfold rows_units_ok in Hok.
    destruct (src_units ds a (S.wid n)) as [us|] eqn:Eu; [|discriminate].
    apply andb_prop in Hok as [Hcat Hne'].
    apply text_eqb_eq in Hcat.
    assert (Hus : ld_units cs nsp po a (S.wid n) = us).
    { unfold src_units in Eu. destruct (src_row ds (S.wid n)) as [r|] eqn:Er; [|discriminate].
      pose proof (loaded_units_are_source_units a _ r Er) as H. unfold src_units in H. rewrite Er in H.
      rewrite Eu in H. inversion H. reflexivity. }
    rewrite Hus. rewrite forallb_forall in Hne'.
    assert (Hk : forall u, In u us -> src_key ds u <> []).
    { intros u Hu Hc. specialize (Hne' u Hu). rewrite Hc in Hne'. discriminate. }
    split.
    - unfold SP.units_wf. exists pre, post. rewrite <- Hcat in Ht, Hne, Hbe. repeat split; assumption.
    - intros u Hu. apply ld_hw_is_blen_key. apply Hk. exact Hu.
  Qed.

  (* (3) the split theorems with a hypothesis on the source: the sub-tokens of a C-mode token are exactly the units the
         rows declare (resolved, in the dictionary the word was read from), never panic, tile the parent's range and
         each covers its unit's key *)
  Theorem split_exact_from_source : forall a t n us,
    rows_units_ok ds a (S.wid n) = true ->
    covers t n (src_key ds (S.wid n)) ->
    src_units ds a (S.wid n) = Some us -> us <> [] ->
    ld_units cs nsp po a (S.wid n) = us /\
    exists subs,
      S.split_node (ld_hw cs nsp po) t n us = Some subs /\
    map S.wid subs = us /\
    S.tiles (S.nb n) (S.bb n) (S.ne n) (S.be n) subs /\
    Forall2 (fun s u => S.slice t (S.nb s) (S.ne s) = src_key ds u) subs us.
  Proof.
    intros a t n us Hok Hcov Hsu Hne.
    destruct (units_wf_of_rows a t n Hok Hcov) as [Hwf Hhw].
    assert (Hus : ld_units cs nsp po a (S.wid n) = us).
    { unfold src_units in Hsu. destruct (src_row ds (S.wid n)) as [r|] eqn:Er; [|discriminate].
      pose proof (loaded_units_are_source_units a _ r Er) as H. unfold src_units in H. rewrite Er in H.
      rewrite Hsu in H. inversion H. reflexivity. }
    rewrite Hus in *. split; [reflexivity|].
    apply (SP.split_partitions_parent (ld_hw cs nsp po) (src_key ds) t n us Hhw Hne Hwf).
  Qed.
End Loaded.

(* the same through the public API: MorphemeList::split_into appends exactly those sub-tokens and answers true *)
Lemma split_into_exact_from_source :
  FO.writer_fields = expected_writer -> reader_facts_ok -> len_thresholds_ok = true -> S.split_facts_ok = true ->
  forall ds cs nsp po, stack_compiled ds cs -> srcs_ok ds ->
  forall a t n us out,
    rows_units_ok ds a (S.wid n) = true ->
    covers t n (src_key ds (S.wid n)) ->
    src_units ds a (S.wid n) = Some us -> us <> [] ->
    exists subs,
      S.split_into (ld_hw cs nsp po) t (ld_units cs nsp po a) n out = Some (true, out ++ subs) /\
      map S.wid subs = us /\
      S.tiles (S.nb n) (S.bb n) (S.ne n) (S.be n) subs /\
      Forall2 (fun s u => S.slice t (S.nb s) (S.ne s) = src_key ds u) subs us.
Proof.
  intros HW HR HL HF ds cs nsp po Hc Hs a t n us out Hok Hcov Hsu Hne.
  destruct (split_exact_from_source HW HR HL ds cs Hc Hs nsp po a t n us Hok Hcov Hsu Hne) as (Hus & subs & H1 & H2 & H3 & H4).
  exists subs. split; [|repeat split; assumption].
  destruct (SP.facts_unpack HF) as (_ & _ & Hn).
  unfold S.split_into. rewrite Hus, Hn, H1.
  destruct us as [|u us']; [congruence|]. cbn [List.length].
  replace (N.of_nat (S (List.length us')) =? 0) with false by lia. reflexivity.
Qed.
