(* Lemmas about Model/RewriteDefText.v: what an accepted rewrite.def text yields, and which text is rejected how. *)
From Coq Require Import List NArith Bool Arith Lia.
From SudachiVerif Require Generated.NormalizeFacts.
From SudachiVerif Require Import Model.Harness Model.Normalize Proofs.NormalizeProofs Model.RewriteDefText.
Import ListNotations.
Local Open Scope nat_scope.

Lemma words_aux_nonempty : forall l cur w, In w (words_aux cur l) -> w <> [].
Proof.
  induction l as [|b t IH]; intros cur w H; cbn [words_aux] in H.
  - destruct cur as [|c cur]; [contradiction|]. destruct H as [<-|[]].
    intro E. apply (f_equal (@length _)) in E. rewrite rev_length in E. discriminate E.
  - destruct (is_ws b).
    + destruct cur as [|c cur]; [exact (IH _ _ H)|]. destruct H as [<-|H]; [|exact (IH _ _ H)].
      intro E. apply (f_equal (@length _)) in E. rewrite rev_length in E. discriminate E.
    + exact (IH _ _ H).
Qed.

Lemma classify_rule_key_nonempty : forall raw k v, classify raw = LRule k v -> k <> [] /\ v <> [].
Proof.
  intros raw k v H. unfold classify in H. destruct (trim raw) as [|c l] eqn:E; [discriminate H|].
  destruct (c =? HASH)%N; [discriminate H|].
  destruct (words (c :: l)) as [|w1 [|w2 [|w3 ws]]] eqn:Ew; try discriminate H.
  - destruct w1 as [|x [|y w]]; discriminate H.
  - inversion H; subst. unfold words in Ew. split; apply (words_aux_nonempty (c :: l) []); rewrite Ew; cbn; auto.
Qed.

Lemma forallb_app' {A} (f : A -> bool) : forall a b, forallb f (a ++ b) = forallb f a && forallb f b.
Proof. induction a as [|x a IH]; intros b; cbn; [reflexivity|]. rewrite IH, andb_assoc. reflexivity. Qed.

Lemma existsb_app' {A} (f : A -> bool) : forall a b, existsb f (a ++ b) = existsb f a || existsb f b.
Proof. induction a as [|x a IH]; intros b; cbn; [reflexivity|]. rewrite IH, orb_assoc. reflexivity. Qed.

Lemma keys_distinct_snoc : forall tb k v,
  keys_distinct (tb ++ [(k, v)]) = keys_distinct tb && negb (has_key tb k).
Proof.
  induction tb as [|kv tb IH]; intros k v; cbn [app keys_distinct has_key existsb]; [reflexivity|].
  rewrite existsb_app', IH. cbn [existsb fst]. unfold has_key. rewrite orb_false_r.
  destruct (existsb (fun kv' => text_eqb (fst kv) (fst kv')) tb); cbn [negb orb andb]; [reflexivity|].
  destruct (text_eqb (fst kv) k); cbn [negb orb andb].
  - rewrite andb_false_r. reflexivity.
  - destruct (keys_distinct tb); reflexivity.
Qed.

Lemma table_wf_snoc : forall tb k v, table_wf tb = true -> k <> [] -> has_key tb k = false -> table_wf (tb ++ [(k, v)]) = true.
Proof.
  intros tb k v H Hk Hd. unfold table_wf in *. apply andb_true_iff in H. destruct H as [H1 H2].
  rewrite forallb_app', H1, keys_distinct_snoc, H2, Hd. cbn [forallb fst andb negb].
  destruct k; [contradiction|]. reflexivity.
Qed.

(* the loop, from any accumulator state *)
Lemma read_lines_ok : forall ls i ign tb ign' tb',
  read_lines i ign tb ls = RdOk ign' tb' ->
  forallb line_ok (map classify ls) = true
  /\ ign' = ign ++ ign_of (map classify ls)
  /\ tb' = tb ++ rules_of (map classify ls)
  /\ (table_wf tb = true -> table_wf tb' = true).
Proof.
  induction ls as [|raw ls IH]; intros i ign tb ign' tb' H; cbn [read_lines] in H.
  - inversion H; subst. cbn. rewrite !app_nil_r. auto.
  - cbn [map forallb ign_of rules_of flat_map]. destruct (classify raw) as [|c|k v| |] eqn:Ec; try discriminate H.
    + destruct (IH _ _ _ _ _ H) as (A & B & C & D). cbn [line_ok andb app]. auto.
    + destruct (IH _ _ _ _ _ H) as (A & B & C & D). cbn [line_ok andb app]. rewrite <- app_assoc in B. auto.
    + destruct (has_key tb k) eqn:Eh; [discriminate H|].
      destruct (IH _ _ _ _ _ H) as (A & B & C & D). cbn [line_ok andb app]. rewrite <- app_assoc in C.
      repeat split; auto. intros Hwf. apply D. apply table_wf_snoc; auto.
      exact (proj1 (classify_rule_key_nonempty _ _ _ Ec)).
Qed.

(* an accepted text: no malformed line; exempt set = the one-column lines, table = the two-column lines, in file order;
   and the table has distinct non-empty keys — the hypothesis of the normalisation theorems *)
Lemma read_ok_spec : forall t ign tb, read_rewrite_def t = RdOk ign tb ->
  forallb line_ok (map classify (lines t)) = true
  /\ ign = ign_of (map classify (lines t))
  /\ tb = rules_of (map classify (lines t))
  /\ table_wf tb = true.
Proof.
  intros t ign tb H. destruct (read_lines_ok _ _ _ _ _ _ H) as (A & B & C & D). repeat split; auto.
Qed.

(* a rejected text: the reported line is the first offending one, everything before it was read without error, and the
   error kind says what is wrong with that line *)
Lemma read_lines_err : forall ls i ign tb e j,
  read_lines i ign tb ls = RdErr e j ->
  exists n raw ign1 tb1, j = i + n /\ nth_error ls n = Some raw
    /\ read_lines i ign tb (firstn n ls) = RdOk ign1 tb1
    /\ match e with
       | ENotChar => classify raw = LBadChar
       | ECols => classify raw = LBadCols
       | EDup => exists k v, classify raw = LRule k v /\ has_key tb1 k = true
       end.
Proof.
  induction ls as [|raw ls IH]; intros i ign tb e j H; cbn [read_lines] in H; [discriminate H|].
  assert (Hstep : forall ign2 tb2, read_lines (S i) ign2 tb2 ls = RdErr e j ->
            (forall m, read_lines i ign tb (raw :: firstn m ls) = read_lines (S i) ign2 tb2 (firstn m ls)) ->
            exists n raw0 ign1 tb1, j = i + n /\ nth_error (raw :: ls) n = Some raw0
              /\ read_lines i ign tb (firstn n (raw :: ls)) = RdOk ign1 tb1
              /\ match e with
                 | ENotChar => classify raw0 = LBadChar
                 | ECols => classify raw0 = LBadCols
                 | EDup => exists k v, classify raw0 = LRule k v /\ has_key tb1 k = true
                 end).
  { intros ign2 tb2 H2 Hm. destruct (IH _ _ _ _ _ H2) as (n & raw0 & ign1 & tb1 & Hj & Hn & Hr & He).
    exists (S n), raw0, ign1, tb1. cbn [nth_error firstn]. rewrite Hm. repeat split; auto. lia. }
  destruct (classify raw) as [|c|k v| |] eqn:Ec.
  - apply (Hstep ign tb H). intros m. cbn [read_lines]. rewrite Ec. reflexivity.
  - apply (Hstep (ign ++ [c]) tb H). intros m. cbn [read_lines]. rewrite Ec. reflexivity.
  - destruct (has_key tb k) eqn:Eh.
    + inversion H; subst. exists 0, raw, ign, tb. cbn [nth_error firstn read_lines]. rewrite Nat.add_0_r. repeat split; eauto.
    + apply (Hstep ign (tb ++ [(k, v)]) H). intros m. cbn [read_lines]. rewrite Ec, Eh. reflexivity.
  - inversion H; subst. exists 0, raw, ign, tb. cbn [nth_error firstn read_lines]. rewrite Nat.add_0_r. repeat split; auto.
  - inversion H; subst. exists 0, raw, ign, tb. cbn [nth_error firstn read_lines]. rewrite Nat.add_0_r. repeat split; auto.
Qed.

Lemma read_err_spec : forall t e j, read_rewrite_def t = RdErr e j ->
  exists raw ign1 tb1, nth_error (lines t) j = Some raw
    /\ read_lines 0 [] [] (firstn j (lines t)) = RdOk ign1 tb1
    /\ match e with
       | ENotChar => classify raw = LBadChar
       | ECols => classify raw = LBadCols
       | EDup => exists k v, classify raw = LRule k v /\ has_key tb1 k = true
       end.
Proof.
  intros t e j H. destruct (read_lines_err _ _ _ _ _ _ H) as (n & raw & ign1 & tb1 & Hj & Hn & Hr & He).
  cbn [Nat.add] in Hj. subst n. exists raw, ign1, tb1. split; [exact Hn|]. split; [exact Hr | exact He].
Qed.

(* conversely: a text without malformed lines whose two-column lines have pairwise different keys is accepted *)
Lemma read_lines_total : forall ls i ign tb,
  forallb line_ok (map classify ls) = true -> keys_distinct (tb ++ rules_of (map classify ls)) = true ->
  exists ign' tb', read_lines i ign tb ls = RdOk ign' tb'.
Proof.
  induction ls as [|raw ls IH]; intros i ign tb Hok Hd; cbn [read_lines]; [eauto|].
  cbn [map forallb rules_of flat_map] in Hok, Hd. apply andb_true_iff in Hok. destruct Hok as [H1 H2].
  destruct (classify raw) as [|c|k v| |] eqn:Ec; try discriminate H1; cbn [app] in Hd.
  - apply IH; assumption.
  - apply IH; assumption.
  - assert (Hk : has_key tb k = false).
    { destruct (has_key tb k) eqn:E; [|reflexivity]. exfalso.
      assert (Hd' : keys_distinct ((tb ++ [(k, v)]) ++ rules_of (map classify ls)) = true)
        by (rewrite <- app_assoc; exact Hd).
      assert (G : forall a b, keys_distinct (a ++ b) = true -> keys_distinct a = true).
      { induction a as [|x a IHa]; intros b Hab; [reflexivity|]. cbn [app keys_distinct] in *.
        apply andb_true_iff in Hab. destruct Hab as [Ha Hb]. rewrite existsb_app' in Ha. apply negb_true_iff in Ha.
        apply orb_false_iff in Ha. destruct Ha as [Ha _]. rewrite Ha, (IHa _ Hb). reflexivity. }
      apply (G (tb ++ [(k, v)]) (rules_of (map classify ls))) in Hd'. rewrite keys_distinct_snoc, E in Hd'. rewrite andb_false_r in Hd'. discriminate Hd'. }
    rewrite Hk. apply IH; [assumption|]. rewrite <- app_assoc. exact Hd.
Qed.

Lemma read_total : forall t,
  forallb line_ok (map classify (lines t)) = true -> keys_distinct (rules_of (map classify (lines t))) = true ->
  exists ign tb, read_rewrite_def t = RdOk ign tb.
Proof. intros t H1 H2. apply read_lines_total; assumption. Qed.

(* from what the user writes to the normalisation theorem: the table hypothesis is produced by the reader *)
Section FromText.
  Hypothesis F_slow : Generated.NormalizeFacts.slow_search_earliest = false.
  Hypothesis F_guard : Generated.NormalizeFacts.lowercase_guard_is_uppercase = false.
  Hypothesis F_path : Generated.NormalizeFacts.path_guard_is_uppercase = false.

  Lemma read_then_rewrite : forall (lower : cp -> text) (nfkc : text -> text) (qc_yes upper : cp -> bool) deftext ign tb,
    read_rewrite_def deftext = RdOk ign tb ->
    (forall c, qc_yes c = true -> nfkc (lower c) = lower c) ->
    (forall c, head_law c (lower c) /\ head_law c (nfkc [c]) /\ head_law c (nfkc (lower c))) ->
    forall (qc_text : bool) t,
      (qc_text = true -> forall c, In c t -> qc_yes c = true) ->
      default_rewrite lower nfkc qc_yes upper tb (mem_n ign) qc_text t
      = Some (normalize_spec lower nfkc tb (mem_n ign) t).
  Proof.
    intros lower nfkc qc_yes upper deftext ign tb Hr Hqc Hh qc_text t Hq.
    destruct (read_ok_spec _ _ _ Hr) as (_ & _ & _ & Hwf).
    exact (rewrite_eq_spec F_slow F_guard F_path lower nfkc qc_yes upper tb (mem_n ign) Hwf Hqc Hh qc_text t Hq).
  Qed.
End FromText.
