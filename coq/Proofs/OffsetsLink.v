(* C07's code-point-level offset bookkeeping (Model/Normalize.v: ident_offs / repl_offs / resolve_offs / offsets_after)
   is C08's offset map: for the byte-level batch `tr_edits t es` that Proofs/NormalizeBuffer.v derives from a plugin's
   code-point edits, the m2o that `Buffer.commit` produces, read at the start of every character of the new text and at
   its end, is `offsets_after t es` looked up in the previous map.  On a fresh buffer (identity map) it IS offsets_after.
   So "the original range of a normalised character" in the C07 specification is the one C08's map reports, also through
   several stacked plugins. *)
From Coq Require Import String List NArith ZArith Bool Arith Lia.
From SudachiVerif Require Import Model.Buffer Proofs.BufferProofs Proofs.BufferCharProofs.
From SudachiVerif Require Proofs.PipelineFull Model.Normalize Proofs.NormalizeProofs Proofs.NormalizeBuffer Model.Split.
Import ListNotations.
Local Open Scope nat_scope.

Module Nz := SudachiVerif.Model.Normalize.
Module PF := SudachiVerif.Proofs.PipelineFull.
Module NB := SudachiVerif.Proofs.NormalizeBuffer.
Notation enc := PF.enc.
Notation utf8 := PF.utf8.

(* ------------------------------------------------------------------ the two byte-offset functions agree *)
Lemma width_eq : forall c, Nz.width c = Split.width c.
Proof. reflexivity. Qed.

Lemma utf8_len : forall c, length (utf8 c) = N.to_nat (Nz.width c).
Proof. intros c. destruct (PF.utf8_shape c) as (b & r & _ & _ & H). now rewrite width_eq. Qed.

Lemma utf8_len_pos : forall c, 1 <= length (utf8 c).
Proof. intros c. destruct (PF.utf8_shape c) as (b & r & -> & _). cbn. lia. Qed.

Lemma bytes_of_acc : forall t a, fold_left (fun x c => (x + Nz.width c)%N) t a = (a + Nz.bytes_of t)%N.
Proof.
  unfold Nz.bytes_of. induction t as [|c t IH]; intros a; cbn [fold_left]; [lia|].
  rewrite IH, (IH (0 + Nz.width c)%N). lia.
Qed.

Lemma bytes_of_enc : forall t, N.to_nat (Nz.bytes_of t) = length (enc t).
Proof.
  induction t as [|c t IH]; [reflexivity|].
  unfold Nz.bytes_of. cbn [fold_left]. rewrite bytes_of_acc. cbn [PF.enc flat_map]. fold (enc t).
  rewrite app_length, utf8_len, <- IH. lia.
Qed.

Lemma boff_eq : forall t i, N.to_nat (Nz.boff t i) = NB.boff t i.
Proof. intros. unfold Nz.boff, NB.boff. apply bytes_of_enc. Qed.

(* ------------------------------------------------------------------ reading a byte-indexed map at character starts *)
Fixpoint samp (txt : list N) (m : list nat) : list nat :=
  match txt with
  | [] => []
  | c :: r => hd 0 m :: samp r (skipn (length (utf8 c)) m)
  end.

(* ... and at the end of the text *)
Definition sample (txt : list N) (m : list nat) : list nat := samp txt m ++ [nth (length (enc txt)) m 0].

Lemma samp_length : forall txt m, length (samp txt m) = length txt.
Proof. induction txt as [|c r IH]; intros m; cbn [samp length]; [reflexivity | now rewrite IH]. Qed.

Lemma samp_app : forall a ma b mb, length ma = length (enc a) -> samp (a ++ b) (ma ++ mb) = samp a ma ++ samp b mb.
Proof.
  induction a as [|c a IH]; intros ma b mb H.
  - cbn in H. destruct ma; [reflexivity | discriminate].
  - cbn [PF.enc flat_map] in H. fold (enc a) in H. rewrite app_length in H. pose proof (utf8_len_pos c) as Hp.
    cbn [app samp]. f_equal.
    + destruct ma; [cbn in H; lia | reflexivity].
    + rewrite skipn_app. replace (length (utf8 c) - length ma) with 0 by lia. cbn [skipn].
      apply IH. rewrite skipn_length. lia.
Qed.

Lemma sample_app : forall a ma b mb, length ma = length (enc a) -> sample (a ++ b) (ma ++ mb) = samp a ma ++ sample b mb.
Proof.
  intros a ma b mb H. unfold sample. rewrite samp_app by exact H. rewrite <- app_assoc. do 2 f_equal.
  rewrite PF.enc_app, app_length, <- H. rewrite app_nth2 by lia. f_equal. f_equal. lia.
Qed.

Lemma skipn_firstn' {A} : forall w n (l : list A), skipn w (firstn n l) = firstn (n - w) (skipn w l).
Proof.
  induction w as [|w IH]; intros n l; [now rewrite Nat.sub_0_r|].
  destruct n as [|n]; [cbn; now destruct (skipn (S w) l) |]. destruct l as [|x l]; [cbn; now rewrite firstn_nil|].
  cbn [firstn skipn Nat.sub]. apply IH.
Qed.

Lemma samp_firstn : forall txt n m, length (enc txt) <= n -> samp txt (firstn n m) = samp txt m.
Proof.
  induction txt as [|c r IH]; intros n m H; [reflexivity|].
  cbn [PF.enc flat_map] in H. fold (enc r) in H. rewrite app_length in H. pose proof (utf8_len_pos c) as Hp.
  cbn [samp]. f_equal.
  - destruct n; [lia|]. now destruct m.
  - rewrite skipn_firstn'. apply IH. lia.
Qed.

(* an unchanged stretch: every character keeps the entry of its own first byte (Normalize.ident_offs) *)
Lemma samp_skipn_ident : forall txt k smap,
  samp txt (skipn k smap) = map (fun x => nth (N.to_nat x) smap 0) (Nz.ident_offs txt (N.of_nat k)).
Proof.
  induction txt as [|c r IH]; intros k smap; [reflexivity|].
  cbn [samp Nz.ident_offs map]. f_equal.
  - rewrite hd_skipn_nth. now rewrite Nat2N.id.
  - rewrite skipn_skipn'. rewrite IH. do 2 f_equal. rewrite utf8_len. lia.
Qed.

Lemma skipn_repeat {A} : forall n w (x : A), skipn w (repeat x n) = repeat x (n - w).
Proof.
  induction n as [|n IH]; intros w x; [cbn; now rewrite skipn_nil|].
  destruct w as [|w]; [reflexivity|]. cbn [repeat skipn Nat.sub]. apply IH.
Qed.

Lemma samp_repeat : forall txt n x, length (enc txt) <= n -> samp txt (repeat x n) = map (fun _ => x) txt.
Proof.
  induction txt as [|c r IH]; intros n x H; [reflexivity|].
  cbn [PF.enc flat_map] in H. fold (enc r) in H. rewrite app_length in H. pose proof (utf8_len_pos c) as Hp.
  cbn [samp map]. f_equal.
  - destruct n; [lia | reflexivity].
  - rewrite skipn_repeat. apply IH. lia.
Qed.

(* a replacement: first character -> entry of the start of the replaced range, the others -> entry of its end
   (Normalize.repl_offs); an empty replacement contributes nothing *)
Lemma samp_repl : forall repl xs xe s e smap, nth (N.to_nat s) smap 0 = xs -> nth (N.to_nat e) smap 0 = xe ->
  samp repl (match enc repl with [] => [] | _ => xs :: repeat xe (length (enc repl) - 1) end)
  = map (fun x => nth (N.to_nat x) smap 0) (Nz.repl_offs repl s e).
Proof.
  intros [|c r] xs xe s e smap Hs He; [reflexivity|].
  cbn [PF.enc flat_map]. fold (enc r). pose proof (utf8_len_pos c) as Hp.
  destruct (utf8 c ++ enc r) as [|b0 w0] eqn:Ew.
  { apply (f_equal (@length N)) in Ew. rewrite app_length in Ew. cbn in Ew. lia. }
  assert (Hl : length (b0 :: w0) = length (utf8 c) + length (enc r)) by (rewrite <- Ew; apply app_length).
  cbn [samp hd Nz.repl_offs map]. rewrite Hs. f_equal.
  destruct (length (utf8 c)) as [|w] eqn:Ewc; [lia|]. cbn [skipn].
  cbn [length] in *. rewrite skipn_repeat, samp_repeat by lia. rewrite map_map. apply map_ext. intros _. symmetry. exact He.
Qed.

(* ------------------------------------------------------------------ offsets_after only mentions offsets inside the text *)
Lemma ident_offs_le : forall txt off B, N.to_nat off + length (enc txt) <= B ->
  Forall (fun y => N.to_nat y <= B) (Nz.ident_offs txt off).
Proof.
  induction txt as [|c r IH]; intros off B H; cbn [Nz.ident_offs]; [constructor|].
  cbn [PF.enc flat_map] in H. fold (enc r) in H. rewrite app_length, utf8_len in H.
  constructor; [lia|]. apply IH. lia.
Qed.

Lemma repl_offs_le : forall repl s e B, N.to_nat s <= B -> N.to_nat e <= B -> Forall (fun y => N.to_nat y <= B) (Nz.repl_offs repl s e).
Proof.
  intros [|c r] s e B Hs He; cbn [Nz.repl_offs]; constructor; [exact Hs|].
  apply Forall_forall. intros y Hy. apply in_map_iff in Hy. destruct Hy as (_ & <- & _). exact He.
Qed.

Lemma resolve_offs_le : forall t es start, Nz.edits_ok_from start (length t) es = true ->
  Forall (fun y => N.to_nat y <= length (enc t)) (Nz.resolve_offs t start es).
Proof.
  intros t. induction es as [|e es IH]; intros start H; cbn [Nz.resolve_offs Nz.edits_ok_from] in *.
  - apply Forall_app. split; [|constructor; [rewrite bytes_of_enc; lia | constructor]].
    apply ident_offs_le. rewrite boff_eq. unfold NB.boff. rewrite <- app_length, <- PF.enc_app, firstn_skipn. lia.
  - repeat rewrite andb_true_iff in H. destruct H as [[[H1 H2] H3] H4]. apply Nat.leb_le in H1, H2, H3.
    apply Forall_app. split; [|apply Forall_app; split].
    + apply ident_offs_le. rewrite boff_eq. unfold Nz.slice. pose proof (NB.boff_diff t _ _ H1) as Hd. pose proof (NB.boff_le_len t (Nz.e_start e)) as Hb. rewrite Hd in Hb. exact Hb.
    + apply repl_offs_le; rewrite boff_eq; apply NB.boff_le_len.
    + apply IH. exact H4.
Qed.

Lemma Nz_offsets_bounded : forall t es, Nz.edits_ok t es = true ->
  Forall (fun y => N.to_nat y <= length (enc t)) (Nz.offsets_after t es).
Proof.
  intros t es H. unfold Nz.offsets_after. destruct es as [|e es].
  - apply Forall_app. split; [apply ident_offs_le; cbn; lia | constructor; [rewrite bytes_of_enc; lia | constructor]].
  - pose proof (resolve_offs_le t (e :: es) 0 H) as Hr. destruct (Nz.resolve_offs t 0 (e :: es)); [constructor|].
    inversion Hr; subst. constructor; [cbn; lia | assumption].
Qed.

(* ------------------------------------------------------------------ resolve_edits on a translated batch *)
Section Cfg.
Variable cfg : bcfg.
Hypothesis Hcfg : cfg_ok cfg = true.

Lemma resolve_sample : forall t smap, length smap = length (enc t) + 1 -> forall es start cl r tx m l,
  Nz.resolve t start es = Some r ->
  resolve cfg (enc t) smap (NB.tr_edits t es) (NB.boff t start) cl = ROk tx m l ->
  tx = enc r /\ sample r m = map (fun x => nth (N.to_nat x) smap 0) (Nz.resolve_offs t start es).
Proof.
  intros t smap Hlen. induction es as [|e es IH]; intros start cl r tx m l H Hres.
  - cbn [Nz.resolve] in H. match type of H with (if ?c then _ else _) = _ => destruct c eqn:Es end; [|discriminate H].
    inversion H; subst r; clear H. apply Nat.leb_le in Es.
    cbn [NB.tr_edits map resolve] in Hres. unfold str_slice, vec_slice in Hres.
    rewrite NB.boff_boundary, is_boundary_len, !Nat.leb_refl in Hres.
    replace (NB.boff t start <=? length (enc t)) with true in Hres by (symmetry; apply Nat.leb_le, NB.boff_le_len).
    replace (NB.boff t start <=? length smap) with true in Hres by (symmetry; apply Nat.leb_le; pose proof (NB.boff_le_len t start); lia).
    cbn [andb] in Hres. rewrite !firstn_all_ge in Hres by (rewrite skipn_length'; lia). rewrite NB.enc_skipn_cp in Hres.
    inversion Hres; subst tx m l; clear Hres. split; [reflexivity|].
    cbn [Nz.resolve_offs]. unfold sample. rewrite map_app. f_equal.
    + rewrite samp_skipn_ident. do 2 f_equal. rewrite <- boff_eq. now rewrite N2Nat.id.
    + cbn [map]. f_equal. rewrite nth_skipn', bytes_of_enc. f_equal.
      unfold NB.boff. rewrite <- app_length, <- PF.enc_app, firstn_skipn. reflexivity.
  - cbn [Nz.resolve] in H.
    match type of H with (if ?c then _ else _) = _ => destruct c eqn:C end; [|discriminate H].
    destruct (Nz.resolve t (Nz.e_end e) es) as [r'|] eqn:R; [|discriminate H]. inversion H; subst r; clear H.
    repeat rewrite andb_true_iff in C. destruct C as [[C1 C2] C3]. apply Nat.leb_le in C1, C2, C3.
    pose proof (NB.boff_le_len t (Nz.e_start e)) as Ls. pose proof (NB.boff_le_len t (Nz.e_end e)) as Le.
    pose proof (NB.boff_le t _ _ C1) as L1. pose proof (NB.boff_le t _ _ C2) as L2.
    assert (S1 : str_slice (enc t) (NB.boff t start) (NB.boff t (Nz.e_start e)) = Some (enc (Nz.slice t start (Nz.e_start e)))).
    { unfold str_slice. rewrite !NB.boff_boundary.
      replace (NB.boff t start <=? NB.boff t (Nz.e_start e)) with true by (symmetry; apply Nat.leb_le; exact L1).
      replace (NB.boff t (Nz.e_start e) <=? length (enc t)) with true by (symmetry; apply Nat.leb_le; exact Ls).
      cbn [andb]. rewrite NB.enc_slice_cp by exact C1. reflexivity. }
    assert (V1 : vec_slice smap (NB.boff t start) (NB.boff t (Nz.e_start e))
                 = Some (firstn (NB.boff t (Nz.e_start e) - NB.boff t start) (skipn (NB.boff t start) smap))).
    { unfold vec_slice.
      replace (NB.boff t start <=? NB.boff t (Nz.e_start e)) with true by (symmetry; apply Nat.leb_le; exact L1).
      replace (NB.boff t (Nz.e_start e) <=? length smap) with true by (symmetry; apply Nat.leb_le; lia).
      reflexivity. }
    destruct (NB.add_replace_total cfg smap (NB.boff t (Nz.e_start e)) (NB.boff t (Nz.e_end e)) (enc (Nz.e_repl e))) as [rm Har]; [lia | lia |].
    cbn [NB.tr_edits map resolve NB.tr_edit e_s e_e e_w] in Hres. fold (NB.tr_edits t es) in Hres. rewrite S1, V1, Har in Hres.
    destruct (cmp_eval (c_resolve_cmp cfg) _ (Z.of_N (c_resolve_limit cfg))); [discriminate Hres|].
    destruct (resolve cfg (enc t) smap (NB.tr_edits t es) (NB.boff t (Nz.e_end e)) _) as [t' m' l'| |] eqn:Erec; try discriminate Hres.
    inversion Hres; subst tx m l; clear Hres.
    destruct (IH _ _ _ _ _ _ R Erec) as [-> IHs].
    split; [now rewrite !PF.enc_app|].
    (* the replacement's map piece *)
    assert (Hrm : rm = match enc (Nz.e_repl e) with [] => [] | _ => nth (NB.boff t (Nz.e_start e)) smap 0 :: repeat (nth (NB.boff t (Nz.e_end e)) smap 0) (length (enc (Nz.e_repl e)) - 1) end).
    { destruct (add_replace_spec cfg Hcfg _ _ _ _ _ _ _ Har) as (_ & Hnil & Hcons).
      destruct (enc (Nz.e_repl e)) as [|b0 w0] eqn:Ew; [now apply Hnil|].
      destruct Hcons as (xs & xe & Hn1 & Hn2 & ->); [discriminate|].
      now rewrite (nth_error_nth _ _ 0 Hn1), (nth_error_nth _ _ 0 Hn2). }
    assert (Hd : NB.boff t (Nz.e_start e) = NB.boff t start + length (enc (Nz.slice t start (Nz.e_start e)))) by exact (NB.boff_diff t _ _ C1).
    assert (Lb : length (firstn (NB.boff t (Nz.e_start e) - NB.boff t start) (skipn (NB.boff t start) smap)) = length (enc (Nz.slice t start (Nz.e_start e)))).
    { rewrite firstn_length, skipn_length'. lia. }
    assert (Lrm : length rm = length (enc (Nz.e_repl e))).
    { rewrite Hrm. destruct (enc (Nz.e_repl e)) as [|b0 w0]; [reflexivity|]. cbn [length]. rewrite repeat_length. lia. }
    cbn [Nz.resolve_offs]. rewrite !map_app, <- IHs.
    rewrite (sample_app _ _ _ _ Lb), (sample_app _ _ _ _ Lrm). f_equal; [|f_equal].
    + rewrite samp_firstn by lia. rewrite samp_skipn_ident. do 2 f_equal. rewrite <- boff_eq. now rewrite N2Nat.id.
    + rewrite Hrm. apply samp_repl; now rewrite boff_eq.
Qed.

(* "first byte of mapping MUST be 0" on the sampled map *)
Definition force0 (l : list nat) : list nat := match l with [] => [] | _ :: r => 0 :: r end.

Lemma sample_force_first : forall r m, length m = length (enc r) + 1 -> c_first_forced cfg = 0 ->
  sample r (force_first cfg m) = force0 (sample r m).
Proof.
  intros r m Hl Hf. unfold force_first. rewrite Hf. destruct m as [|x m]; [cbn in Hl; lia|].
  unfold sample. destruct r as [|c r].
  - reflexivity.
  - pose proof (utf8_len_pos c) as Hp. cbn [samp app force0 hd]. f_equal.
    cbn [PF.enc flat_map]. fold (enc r). rewrite app_length.
    destruct (length (utf8 c)) as [|w] eqn:Ew; [lia|]. cbn [skipn plus nth]. reflexivity.
Qed.

(* reading the map at the start of every character and at the end = reading it at the entries of mod_c2b *)
Lemma c2b_scan_utf8 : forall c x i, c2b_scan (utf8 c ++ x) i = i :: c2b_scan x (i + length (utf8 c)).
Proof.
  intros c x i. destruct (PF.utf8_shape c) as (b & u & Hu & Hl & _). pose proof (PF.utf8_tail_cont c b u Hu) as Hc.
  rewrite Hu. cbn [app c2b_scan length]. rewrite Hl. f_equal.
  replace (i + S (length u)) with (S i + length u) by lia. generalize (S i). clear Hu Hl.
  induction u as [|y u IH]; intros j; cbn [app c2b_scan length]; [now rewrite Nat.add_0_r|].
  inversion Hc as [|? ? Hy Hc']; subst. rewrite Hy. rewrite IH by exact Hc'. f_equal. lia.
Qed.

Lemma sample_c2b : forall r m i, sample r (skipn i m) = map (fun p => nth p m 0) (c2b_scan (enc r) i ++ [i + length (enc r)]).
Proof.
  induction r as [|c r IH]; intros m i.
  - unfold sample. cbn [samp PF.enc flat_map c2b_scan app length map]. now rewrite nth_skipn'.
  - unfold sample in *. cbn [samp PF.enc flat_map]. fold (enc r). rewrite c2b_scan_utf8. cbn [app map]. f_equal.
    + rewrite hd_skipn_nth. reflexivity.
    + rewrite skipn_skipn'. specialize (IH m (i + length (utf8 c))). rewrite app_length.
      replace (i + (length (utf8 c) + length (enc r))) with (i + length (utf8 c) + length (enc r)) by lia.
      rewrite <- IH. f_equal. f_equal. rewrite !nth_skipn'. f_equal. lia.
Qed.

Corollary sample_mod_c2b : forall r m, sample r m = map (fun p => nth p m 0) (mod_c2b (enc r)).
Proof. intros r m. exact (sample_c2b r m 0). Qed.

Lemma force0_map : forall (l : list N) smap, nth 0 smap 0 = 0 ->
  force0 (map (fun x => nth (N.to_nat x) smap 0) l) = map (fun x => nth (N.to_nat x) smap 0) (match l with [] => [] | _ :: r => 0%N :: r end).
Proof. intros [|x l] smap H; [reflexivity|]. cbn [map force0 N.to_nat]. now rewrite H. Qed.

(* ------------------------------------------------------------------ the theorem *)
(* For a buffer state s whose text is enc t and whose map satisfies the invariant, a plugin's code-point edits es and the
   state s' that commit produces on their byte translation: the new map, read at the byte offset of every character of
   the new text and at its end (= at the entries of mod_c2b (cur s')), is Normalize.offsets_after t es composed with the
   old map.  offsets_after speaks of byte offsets of the text the plugin saw; the old map takes them to the original. *)
Theorem offsets_after_is_m2o : forall o t s es r s',
  Inv o s -> cur s = enc t -> Nz.apply_edits t es = Some r -> commit cfg s (NB.tr_edits t es) = Ok s' ->
  cur s' = enc r /\
  map (fun p => nth p (m2o s') 0) (mod_c2b (cur s')) = map (fun x => nth (N.to_nat x) (m2o s) 0) (Nz.offsets_after t es).
Proof.
  intros o t s es r s' HI Hcur Happ Hc. pose proof HI as (_ & HB & _ & Hhd & _).
  pose proof (BMap_length _ _ _ HB) as Hlen. rewrite Hcur in Hlen.
  assert (H0 : nth 0 (m2o s) 0 = 0) by (destruct (m2o s); [cbn in Hlen; lia | exact Hhd]).
  destruct (cfg_fields cfg Hcfg) as (_ & _ & Hff & _).
  destruct es as [|e es].
  - cbn in Happ. inversion Happ; subst r. cbn [NB.tr_edits map commit] in Hc. inversion Hc; subst s'.
    split; [exact Hcur|]. rewrite Hcur, <- sample_mod_c2b. cbn [Nz.offsets_after].
    rewrite <- (skipn_O (m2o s)) at 1. unfold sample. rewrite samp_skipn_ident, map_app. cbn [map]. do 2 f_equal.
    rewrite skipn_O, bytes_of_enc. reflexivity.
  - cbn [Nz.apply_edits] in Happ. unfold commit in Hc. cbn [NB.tr_edits map] in Hc. fold (NB.tr_edits t es) in Hc.
    change (NB.tr_edit t e :: NB.tr_edits t es) with (NB.tr_edits t (e :: es)) in Hc. rewrite Hcur in Hc.
    destruct (resolve cfg (enc t) (m2o s) (NB.tr_edits t (e :: es)) 0 (Z.of_nat (length (enc t)))) as [tx m l| |] eqn:Er; try discriminate Hc.
    2:{ destruct (cmp_eval _ _ _); discriminate Hc. }
    destruct (cmp_eval _ _ _); [discriminate Hc|]. inversion Hc; subst s'; clear Hc. cbn [cur m2o].
    rewrite <- (NB.boff_0 t) in Er. destruct (resolve_sample t (m2o s) Hlen _ _ _ _ _ _ _ Happ Er) as [-> Hs].
    split; [reflexivity|]. rewrite <- sample_mod_c2b.
    assert (Hlm : length m = length (enc r) + 1).
    { pose proof (f_equal (@length nat) Hs) as Hl. unfold sample in Hl. rewrite app_length, samp_length, map_length in Hl. cbn in Hl.
      (* length of m from the invariant of the new state is not needed: use resolve_ok *)
      assert (Hok : edits_ok (enc t) (NB.tr_edits t (e :: es)) = true).
      { apply NB.tr_edits_ok. eapply NB.apply_edits_ok. exact Happ. }
      rewrite NB.boff_0 in Er.
      destruct (resolve_ok cfg Hcfg o (enc t) (m2o s) 0 (NB.tr_edits t (e :: es)) 0 _ _ _ _ Hlen (Nat.le_0_l _)
                  (is_boundary_0 _ (PF.enc_wf t)) Hok ltac:(rewrite <- Hcur; exact HB)
                  ltac:(destruct HI as (_ & _ & HS & _); exact HS) Er) as (HBt & _).
      exact (BMap_length _ _ _ HBt). }
    rewrite (sample_force_first r m Hlm Hff), Hs. cbn [Nz.offsets_after].
    rewrite force0_map by exact H0. reflexivity.
Qed.

(* on a fresh buffer the old map is the identity: the sampled new map IS offsets_after *)
Corollary offsets_after_is_m2o_fresh : forall t s0 es r s',
  start_build cfg (enc t) = Ok s0 -> Nz.apply_edits t es = Some r -> commit cfg s0 (NB.tr_edits t es) = Ok s' ->
  cur s' = enc r /\ map (fun p => nth p (m2o s') 0) (mod_c2b (cur s')) = map N.to_nat (Nz.offsets_after t es).
Proof.
  intros t s0 es r s' Hs Happ Hc.
  pose proof (inv_start cfg Hcfg _ _ (PF.enc_wf t) Hs) as HI.
  assert (Hcur : cur s0 = enc t).
  { unfold start_build in Hs. destruct (cmp_eval _ _ _); [discriminate|]. inversion Hs; reflexivity. }
  destruct (offsets_after_is_m2o _ t s0 es r s' HI Hcur Happ Hc) as [H1 H2]. split; [exact H1|]. rewrite H2.
  (* the start map is seq 0 (len + 1): nth x = x for every offset offsets_after can mention (all <= bytes_of t) *)
  assert (Hm : m2o s0 = seq 0 (length (enc t) + 1)).
  { destruct (cfg_fields cfg Hcfg) as (Hf & He & _). unfold start_build in Hs. rewrite Hf, He in Hs.
    destruct (cmp_eval _ _ _); [discriminate|]. assert (E : m2o s0 = seq 0 (length (enc t) + 1 - 0)) by (now inversion Hs).
    rewrite E. f_equal. lia. }
  apply map_ext_in. intros x Hx. rewrite Hm.
  assert (Hb : N.to_nat x <= length (enc t)).
  { pose proof (Nz_offsets_bounded t es (NB.apply_edits_ok _ _ _ Happ)) as Hf. rewrite Forall_forall in Hf. exact (Hf x Hx). }
  rewrite seq_nth by lia. reflexivity.
Qed.
End Cfg.
