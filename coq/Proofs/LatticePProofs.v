(* Lemmas about Model/LatticeP.v: on well-formed nodes no indexing / unwrap / assertion of lattice.rs can panic. *)
From Coq Require Import List ZArith NArith Bool Arith Lia.
From SudachiVerif Require Import Model.Lattice Model.LatticeM Model.LatticeP.
From SudachiVerif Require Generated.ConnFacts.
Import ListNotations.
Local Open Scope nat_scope.

(* ------------------------------------------------------------------ vectors of vectors *)
Definition row {A} (M : list (list A)) (r : nat) : list A := nth r M [].

Lemma nth_error_row {A} : forall (M : list (list A)) r, r < length M -> nth_error M r = Some (row M r).
Proof. intros M r H. unfold row. apply nth_error_nth'. exact H. Qed.

Lemma row_nonempty_lt {A} : forall (M : list (list A)) r, row M r <> [] -> r < length M.
Proof.
  intros M r H. destruct (Nat.lt_ge_cases r (length M)) as [|Hge]; [assumption|].
  unfold row in H. rewrite nth_overflow in H by exact Hge. contradiction.
Qed.

Lemma push_at_some {A} : forall (v : list (list A)) i x, i < length v -> exists v', push_at v i x = Some v'.
Proof.
  induction v as [|r v IH]; intros i x H; cbn [length] in H; [lia|].
  destruct i as [|i]; cbn [push_at]; [eauto|]. destruct (IH i x) as [v' ->]; [lia|]. cbn. eauto.
Qed.

Lemma push_at_spec {A} : forall (v : list (list A)) i x v', push_at v i x = Some v' ->
  length v' = length v /\ row v' i = row v i ++ [x] /\ (forall j, j <> i -> row v' j = row v j).
Proof.
  induction v as [|r v IH]; intros i x v' H; [destruct i; discriminate H|].
  destruct i as [|i]; cbn [push_at] in H.
  - inversion H; subst. repeat split; auto. intros [|j] Hj; [contradiction | reflexivity].
  - destruct (push_at v i x) as [w|] eqn:E; [|discriminate H]. cbn in H. inversion H; subst.
    destruct (IH _ _ _ E) as (H1 & H2 & H3). repeat split.
    + cbn. lia.
    + exact H2.
    + intros [|j] Hj; [reflexivity|]. apply H3. lia.
Qed.

Lemma reset_vec_spec {A} : forall (d : list (list A)) t,
  t <= length (reset_vec d t) /\ forall r, row (reset_vec d t) r = [].
Proof.
  intros d t. unfold reset_vec. rewrite repeat_length. split; [lia|].
  intros r. unfold row. destruct (Nat.lt_ge_cases r (Nat.max (length d) t)) as [H|H].
  - apply nth_repeat.
  - apply nth_overflow. rewrite repeat_length. exact H.
Qed.

Lemma as_u16_small : forall x, (N.of_nat x < 65536)%N -> as_u16 x = x.
Proof. intros x H. unfold as_u16, U16. rewrite N.mod_small by exact H. apply Nat2N.id. Qed.

Lemma nth_error_app_l {A} : forall (l : list A) x j y, nth_error l j = Some y -> nth_error (l ++ [x]) j = Some y.
Proof. intros l x j y H. rewrite nth_error_app1; [exact H|]. apply nth_error_Some. congruence. Qed.

(* ------------------------------------------------------------------ results *)
(* no index / unwrap / assertion / usize-underflow panic, no undefined behaviour, no runaway loop: at most the i32 addition *)
Definition no_index_panic {A} (x : pres A) : Prop :=
  match x with
  | POk _ => True
  | PPanic S_add_overflow => True
  | _ => False
  end.

Definition conn_v (v : vnode) : bool := negb (v_total v =? MAX32)%Z.

Section WithConn.
  Variable dbg ovf : bool.
  Variable num_left num_right : N.
  Variable data : list Z.
  Hypothesis Hm : matrix_ok num_left num_right data = true.

  Lemma matrix_facts : (0 < num_left)%N /\ (0 < num_right)%N /\ N.to_nat (num_left * num_right) = length data.
  Proof.
    unfold matrix_ok in Hm. repeat rewrite andb_true_iff in Hm. destruct Hm as [[H1 H2] H3].
    apply N.ltb_lt in H1, H2. apply Nat.eqb_eq in H3. auto.
  Qed.

  (* ConnectionMatrix::cost with both ids below the dimensions: assertions hold, the read is inside the table *)
  Lemma pconn_ok : forall l r, (l < num_left)%N -> (r < num_right)%N -> exists c, pconn dbg num_left num_right data l r = POk c.
  Proof.
    intros l r Hl Hr. destruct matrix_facts as (_ & _ & Hd). unfold pconn.
    rewrite (proj2 (N.ltb_lt _ _) Hl), (proj2 (N.ltb_lt _ _) Hr). cbn [negb]. rewrite !andb_false_r.
    assert (Hi : N.to_nat (Generated.ConnFacts.conn_index l r num_left num_right) < length data).
    { rewrite <- Hd. unfold Generated.ConnFacts.conn_index. assert (r * num_left + l < num_left * num_right)%N by nia. lia. }
    rewrite (proj2 (Nat.ltb_lt _ _) Hi). cbn [negb]. rewrite andb_false_r.
    destruct (nth_error data _) eqn:E; [eauto | apply nth_error_None in E; lia].
  Qed.
End WithConn.

Section Main.
  Variable dbg ovf : bool.
  Variable nl nr : N.
  Variable data : list Z.
  Hypothesis Hm : matrix_ok nl nr data = true.

  Lemma padd_cases : forall a b, (exists z, padd ovf a b = POk z) \/ (ovf = true /\ padd ovf a b = PPanic S_add_overflow).
  Proof.
    intros a b. unfold padd, add32. destruct ((MIN32 <=? a + b)%Z && (a + b <=? MAX32)%Z); [eauto|].
    destruct ovf; eauto.
  Qed.

  (* connect_node's loop: it either stops at the i32 addition, or returns the accumulator it was given, or a strictly
     smaller cost together with a pointer to a connected entry of the scanned row *)
  Definition scan_post (row_ : list vnode) (begin : nat) (best : nidx) (minc : Z) (x : pres (nidx * Z)) : Prop :=
    match x with
    | POk (b', m') => (b' = best /\ m' = minc) \/
                      ((m' < minc)%Z /\ exists j v, b' = (begin, j) /\ nth_error row_ j = Some v /\ conn_v v = true)
    | PPanic S_add_overflow => ovf = true
    | _ => False
    end.

  Lemma pscan_spec : forall es pre begin lft cst best minc,
    (lft < nr)%N -> (forall v, In v es -> (v_right v < nl)%N) ->
    (N.of_nat (length pre + length es) <= 65536)%N -> (N.of_nat begin < 65536)%N ->
    scan_post (pre ++ es) begin best minc (pscan dbg ovf nl nr data es (length pre) begin lft cst best minc).
  Proof.
    induction es as [|l es IH]; intros pre begin lft cst best minc Hl Hr Hlen Hb.
    - cbn [pscan scan_post]. left. auto.
    - assert (Hpre : pre ++ l :: es = (pre ++ [l]) ++ es) by (rewrite <- app_assoc; reflexivity).
      assert (HS : S (length pre) = length (pre ++ [l])) by (rewrite app_length; cbn; lia).
      assert (Hr' : forall v, In v es -> (v_right v < nl)%N) by (intros; apply Hr; right; assumption).
      assert (Hlen' : (N.of_nat (length (pre ++ [l]) + length es) <= 65536)%N).
      { rewrite app_length. cbn [length] in *. lia. }
      cbn [pscan]. destruct (v_total l =? MAX32)%Z eqn:Et.
      + rewrite HS, Hpre. apply IH; assumption.
      + destruct (pconn_ok dbg nl nr data Hm (v_right l) lft) as [cc Hc]; [apply Hr; left; reflexivity | exact Hl |].
        rewrite Hc. cbn [pbind].
        destruct (padd_cases (v_total l) cc) as [[s1 H1]|[Ho H1]]; rewrite H1; cbn [pbind scan_post]; [|exact Ho].
        destruct (padd_cases s1 cst) as [[nc H2]|[Ho H2]]; rewrite H2; cbn [pbind scan_post]; [|exact Ho].
        destruct (nc <? minc)%Z eqn:Ec.
        * apply Z.ltb_lt in Ec.
          rewrite (as_u16_small begin Hb), (as_u16_small (length pre)) by (cbn [length] in Hlen; lia).
          rewrite HS, Hpre.
          pose proof (IH (pre ++ [l]) begin lft cst (begin, length pre) nc Hl Hr' Hlen' Hb) as Hi.
          destruct (pscan dbg ovf nl nr data es (length (pre ++ [l])) begin lft cst (begin, length pre) nc) as [[b' m']| s | |];
            cbn [scan_post] in *; try exact Hi.
          right. destruct Hi as [[-> ->]|[Hlt Hex]].
          -- split; [exact Ec|]. exists (length pre), l. split; [reflexivity|]. split.
             ++ rewrite <- Hpre. rewrite nth_error_app2 by lia. rewrite Nat.sub_diag. reflexivity.
             ++ unfold conn_v. rewrite Et. reflexivity.
          -- split; [lia | exact Hex].
        * rewrite HS, Hpre. apply IH; assumption.
  Qed.

  (* ---------------------------------------------------------------- the invariant between reset and fill_top_path *)
  Record Inv (len : nat) (rest : list node) (L : plat) : Prop := mkInv {
    i_size : p_size L = S len;
    i_cap_e : S len <= length (p_ends L);
    i_cap_f : S len <= length (p_full L);
    i_cap_i : S len <= length (p_idx L);
    i_row0 : row (p_ends L) 0 = [mkV Generated.ConnFacts.bos_total Generated.ConnFacts.bos_right];
    i_al : forall r, 1 <= r -> length (row (p_full L) r) = length (row (p_ends L) r)
                               /\ length (row (p_idx L) r) = length (row (p_ends L) r);
    i_small : forall r, (N.of_nat (length (row (p_ends L) r) + count_end r rest) <= 65536)%N;
    i_prev : forall r j v, 1 <= r -> nth_error (row (p_ends L) r) j = Some v -> conn_v v = true ->
               exists b i w, nth_error (row (p_idx L) r) j = Some (b, i) /\ b < r
                             /\ nth_error (row (p_ends L) b) i = Some w /\ conn_v w = true;
    i_ids : forall r v, In v (row (p_ends L) r) -> (v_right v < nl)%N
  }.

  Lemma idx_ok {A} : forall s (M : list (list A)) r, r < length M -> idx s M r = POk (row M r).
  Proof. intros s M r H. unfold idx. rewrite (nth_error_row M r H). reflexivity. Qed.

  Lemma push_idx_ok {A} : forall s (M : list (list A)) i x, i < length M ->
    exists M', push_idx s M i x = POk M' /\ length M' = length M /\ row M' i = row M i ++ [x]
               /\ (forall j, j <> i -> row M' j = row M j).
  Proof.
    intros s M i x H. destruct (push_at_some M i x H) as [M' E]. exists M'. unfold push_idx. rewrite E.
    destruct (push_at_spec _ _ _ _ E) as (A1 & A2 & A3). auto.
  Qed.

  Lemma count_end_cons : forall e n rest,
    count_end e (n :: rest) = (if Nat.eqb (nend n) e then 1 else 0) + count_end e rest.
  Proof. intros. unfold count_end. cbn [filter]. destruct (Nat.eqb (nend n) e); reflexivity. Qed.

  (* connect_node on an invariant state, for a node whose begin row exists *)
  Lemma pconnect_node_spec : forall len rest L n,
    Inv len rest L -> nbeg n <= len -> (N.of_nat len <= 65535)%N -> (nleft n < nr)%N ->
    scan_post (row (p_ends L) (nbeg n)) (nbeg n) EMPTY_IDX MAX32 (pconnect_node dbg ovf nl nr data L n).
  Proof.
    intros len rest L n HI Hb Hlen Hl. unfold pconnect_node.
    rewrite idx_ok by (pose proof (i_cap_e _ _ _ HI); lia). cbn [pbind].
    apply (pscan_spec (row (p_ends L) (nbeg n)) [] (nbeg n) (nleft n) (ncost n) EMPTY_IDX MAX32).
    - exact Hl.
    - intros v Hv. exact (i_ids _ _ _ HI _ _ Hv).
    - cbn [length Nat.add]. pose proof (i_small _ _ _ HI (nbeg n)). lia.
    - lia.
  Qed.

  Lemma pinsert_inv : forall len rest L n,
    Inv len (n :: rest) L -> pnode_wf len n = true -> ids_ok nl nr n = true -> (N.of_nat len <= 65535)%N ->
    match pinsert dbg ovf nl nr data L n with
    | POk (L', _) => Inv len rest L' /\ p_eos L' = p_eos L
    | PPanic S_add_overflow => ovf = true
    | _ => False
    end.
  Proof.
    intros len rest L n HI Hwf Hids Hlen.
    unfold pnode_wf in Hwf. apply andb_true_iff in Hwf. destruct Hwf as [Hbe Hel]. apply Nat.ltb_lt in Hbe. apply Nat.leb_le in Hel.
    unfold ids_ok in Hids. apply andb_true_iff in Hids. destruct Hids as [Hir Hil]. apply N.ltb_lt in Hir, Hil.
    pose proof (pconnect_node_spec len (n :: rest) L n HI ltac:(lia) Hlen Hil) as Hc.
    unfold pinsert. destruct (pconnect_node dbg ovf nl nr data L n) as [[best c]| s | |]; cbn [scan_post pbind fst snd] in *; try exact Hc.
    destruct (push_idx_ok S_insert_ends_end (p_ends L) (nend n) (mkV c (nright n))) as (E' & -> & Le & Re & Oe);
      [pose proof (i_cap_e _ _ _ HI); lia|].
    destruct (push_idx_ok S_insert_indices_end (p_idx L) (nend n) best) as (I' & -> & Li & Ri & Oi);
      [pose proof (i_cap_i _ _ _ HI); lia|].
    destruct (push_idx_ok S_insert_full_end (p_full L) (nend n) n) as (F' & -> & Lf & Rf & Of);
      [pose proof (i_cap_f _ _ _ HI); lia|].
    cbn [pbind fst snd]. split; [|reflexivity].
    assert (Hne0 : 0 <> nend n) by lia.
    constructor; cbn [p_size p_ends p_full p_idx].
    - exact (i_size _ _ _ HI).
    - rewrite Le. exact (i_cap_e _ _ _ HI).
    - rewrite Lf. exact (i_cap_f _ _ _ HI).
    - rewrite Li. exact (i_cap_i _ _ _ HI).
    - rewrite (Oe 0 Hne0). exact (i_row0 _ _ _ HI).
    - intros r Hr. destruct (i_al _ _ _ HI r Hr) as [A1 A2]. destruct (Nat.eq_dec r (nend n)) as [->|Hne].
      + rewrite Re, Rf, Ri, !app_length. cbn [length]. lia.
      + rewrite (Oe r Hne), (Of r Hne), (Oi r Hne). auto.
    - intros r. pose proof (i_small _ _ _ HI r) as Hs. rewrite count_end_cons in Hs.
      destruct (Nat.eq_dec r (nend n)) as [->|Hne].
      + rewrite Re, app_length. cbn [length]. rewrite Nat.eqb_refl in Hs. lia.
      + rewrite (Oe r Hne). destruct (Nat.eqb (nend n) r); lia.
    - intros r j v Hr Hn Hcv.
      assert (Hold : forall r0 j0 v0, 1 <= r0 -> nth_error (row (p_ends L) r0) j0 = Some v0 -> conn_v v0 = true ->
                exists b i w, nth_error (row I' r0) j0 = Some (b, i) /\ b < r0 /\ nth_error (row E' b) i = Some w /\ conn_v w = true).
      { intros r0 j0 v0 Hr0 Hn0 Hc0. destruct (i_prev _ _ _ HI r0 j0 v0 Hr0 Hn0 Hc0) as (b & i & w & P1 & P2 & P3 & P4).
        exists b, i, w. repeat split; auto.
        - destruct (Nat.eq_dec r0 (nend n)) as [->|Hne]; [rewrite Ri; apply nth_error_app_l; exact P1 | rewrite (Oi r0 Hne); exact P1].
        - destruct (Nat.eq_dec b (nend n)) as [->|Hne]; [rewrite Re; apply nth_error_app_l; exact P3 | rewrite (Oe b Hne); exact P3]. }
      destruct (Nat.eq_dec r (nend n)) as [->|Hne].
      + rewrite Re in Hn. destruct (Nat.lt_ge_cases j (length (row (p_ends L) (nend n)))) as [Hj|Hj].
        * rewrite nth_error_app1 in Hn by exact Hj. exact (Hold _ _ _ Hr Hn Hcv).
        * rewrite nth_error_app2 in Hn by exact Hj.
          destruct (j - length (row (p_ends L) (nend n))) as [|k] eqn:Ek; [|destruct k; discriminate Hn].
          cbn in Hn. inversion Hn; subst v. unfold conn_v in Hcv. cbn [v_total] in Hcv.
          destruct Hc as [[_ ->]|[_ (j' & w & -> & Hw & Hcw)]]; [rewrite Z.eqb_refl in Hcv; discriminate Hcv|].
          assert (j = length (row (p_idx L) (nend n))) as -> by (destruct (i_al _ _ _ HI (nend n) Hr); lia).
          exists (nbeg n), j', w. split; [|split; [exact Hbe|split; [|exact Hcw]]].
          -- rewrite Ri. rewrite nth_error_app2 by lia. rewrite Nat.sub_diag. reflexivity.
          -- rewrite (Oe (nbeg n)) by lia. exact Hw.
      + rewrite (Oe r Hne) in Hn. exact (Hold _ _ _ Hr Hn Hcv).
    - intros r v Hv. destruct (Nat.eq_dec r (nend n)) as [->|Hne].
      + rewrite Re in Hv. apply in_app_or in Hv. destruct Hv as [Hv|[<-|[]]]; [exact (i_ids _ _ _ HI _ _ Hv) | exact Hir].
      + rewrite (Oe r Hne) in Hv. exact (i_ids _ _ _ HI _ _ Hv).
  Qed.
End Main.

(* "POk with P, or the i32 addition" *)
Definition okp {A} (o : bool) (P : A -> Prop) (x : pres A) : Prop :=
  match x with
  | POk a => P a
  | PPanic S_add_overflow => o = true          (* only with overflow checks *)
  | _ => False
  end.

Lemma okp_bind {A B} : forall o (P : A -> Prop) (Q : B -> Prop) (x : pres A) (f : A -> pres B),
  okp o P x -> (forall a, P a -> okp o Q (f a)) -> okp o Q (pbind x f).
Proof.
  intros o P Q x f Hx Hf. destruct x as [a| s | |]; cbn [okp pbind] in *; try contradiction.
  - apply Hf. exact Hx.
  - destruct s; try contradiction. exact Hx.
Qed.

Lemma okp_weaken {A} : forall o (P Q : A -> Prop) (x : pres A), okp o P x -> (forall a, P a -> Q a) -> okp o Q x.
Proof. intros o P Q x H HPQ. destruct x as [a| s | |]; cbn [okp] in *; auto. Qed.

Lemma okp_no_index_panic {A} : forall o (P : A -> Prop) (x : pres A), okp o P x -> no_index_panic x.
Proof. intros o P x H. destruct x as [a| s | |]; cbn [okp no_index_panic] in *; auto. destruct s; auto. Qed.

Lemma okp_release {A} : forall (P : A -> Prop) (x : pres A), okp false P x -> exists a, x = POk a /\ P a.
Proof. intros P x H. destruct x as [a| s | |]; cbn [okp] in H; try contradiction; [eauto|]. destruct s; try contradiction; discriminate H. Qed.

Section Rounds.
  Variable dbg ovf : bool.
  Variable nl nr : N.
  Variable data : list Z.
  Hypothesis Hm : matrix_ok nl nr data = true.

  Lemma count_end_wf : forall len ns, forallb (pnode_wf len) ns = true -> rows_small len ns = true ->
    count_end 0 ns = 0 /\ forall r, (N.of_nat (count_end r ns) <= 65535)%N.
  Proof.
    intros len ns Hwf Hs.
    assert (Hout : forall r, (r = 0 \/ len < r) -> count_end r ns = 0).
    { intros r Hr. unfold count_end. induction ns as [|n ns IH]; [reflexivity|].
      cbn [forallb] in Hwf. apply andb_true_iff in Hwf. destruct Hwf as [Hn Hwf].
      unfold pnode_wf in Hn. apply andb_true_iff in Hn. destruct Hn as [H1 H2]. apply Nat.ltb_lt in H1. apply Nat.leb_le in H2.
      cbn [filter]. replace (Nat.eqb (nend n) r) with false by (symmetry; apply Nat.eqb_neq; lia).
      apply IH; [exact Hwf|].
      unfold rows_small in *. rewrite forallb_forall in *. intros e He. specialize (Hs e He). rewrite count_end_cons in Hs.
      apply N.leb_le in Hs. apply N.leb_le. lia. }
    split; [apply Hout; left; reflexivity|].
    intros r. destruct (Nat.le_gt_cases r len) as [Hr|Hr].
    - unfold rows_small in Hs. rewrite forallb_forall in Hs. apply N.leb_le. apply Hs. apply in_seq. lia.
    - rewrite Hout by (right; exact Hr). cbn. lia.
  Qed.

  Lemma preset_inv : forall L0 len ns, forallb (pnode_wf len) ns = true -> rows_small len ns = true ->
    exists L1, preset L0 len = POk L1 /\ Inv nl len ns L1 /\ p_eos L1 = None.
  Proof.
    intros L0 len ns Hwf Hs. unfold preset.
    destruct (reset_vec_spec (p_ends L0) (len + 1)) as [Ce Ee].
    destruct (reset_vec_spec (p_full L0) (len + 1)) as [Cf Ef].
    destruct (reset_vec_spec (p_idx L0) (len + 1)) as [Ci Ei].
    destruct (push_idx_ok S_bos_ends0 (reset_vec (p_ends L0) (len + 1)) 0
                (mkV Generated.ConnFacts.bos_total Generated.ConnFacts.bos_right)) as (E' & -> & Le & Re & Oe); [lia|].
    cbn [pbind]. eexists. split; [reflexivity|]. split; [|reflexivity].
    destruct (count_end_wf len ns Hwf Hs) as [C0 Cb]. destruct (matrix_facts nl nr data Hm) as (Hnl & _ & _).
    constructor; cbn [p_size p_ends p_full p_idx].
    - lia.
    - lia.
    - lia.
    - lia.
    - rewrite Re, Ee. reflexivity.
    - intros r Hr. rewrite (Oe r) by lia. rewrite Ee, Ef, Ei. auto.
    - intros r. destruct r as [|r].
      + rewrite Re, Ee, C0. cbn. lia.
      + rewrite (Oe (S r)) by lia. rewrite Ee. cbn [length Nat.add]. specialize (Cb (S r)). lia.
    - intros r j v Hr Hn. rewrite (Oe r) in Hn by lia. rewrite Ee in Hn. destruct j; discriminate Hn.
    - intros r v Hv. destruct r as [|r].
      + rewrite Re, Ee in Hv. destruct Hv as [<-|[]]. exact Hnl.
      + rewrite (Oe (S r)) in Hv by lia. rewrite Ee in Hv. contradiction.
  Qed.

  Lemma pinsert_all_inv : forall len ns L,
    Inv nl len ns L -> forallb (pnode_wf len) ns = true -> forallb (ids_ok nl nr) ns = true -> (N.of_nat len <= 65535)%N ->
    okp ovf (fun Lcs => Inv nl len [] (fst Lcs) /\ p_eos (fst Lcs) = p_eos L) (pinsert_all dbg ovf nl nr data L ns).
  Proof.
    intros len. induction ns as [|n ns IH]; intros L HI Hwf Hids Hlen; cbn [pinsert_all].
    - cbn [okp fst]. auto.
    - cbn [forallb] in Hwf, Hids. apply andb_true_iff in Hwf, Hids. destruct Hwf as [Hn Hwf]. destruct Hids as [Hi Hids].
      apply (okp_bind ovf (fun Lc => Inv nl len ns (fst Lc) /\ p_eos (fst Lc) = p_eos L)).
      + pose proof (pinsert_inv dbg ovf nl nr data Hm len ns L n HI Hn Hi Hlen) as H.
        destruct (pinsert dbg ovf nl nr data L n) as [[L' c]| s | |]; cbn [okp fst] in *; auto.
      + intros [L' c] [HI' He]. cbn [fst snd] in *.
        apply (okp_bind ovf (fun Lcs => Inv nl len [] (fst Lcs) /\ p_eos (fst Lcs) = p_eos L')).
        * apply IH; assumption.
        * intros [L'' cs] [HI'' He']. cbn [okp fst snd] in *. split; [exact HI''|congruence].
  Qed.

  (* EOS points to a connected entry of the last row *)
  Definition EosOk (len : nat) (L : plat) : Prop :=
    exists i c w, p_eos L = Some ((len, i), c) /\ nth_error (row (p_ends L) len) i = Some w /\ conn_v w = true.

  Lemma pconnect_eos_inv : forall len rest L, Inv nl len rest L -> (N.of_nat len <= 65535)%N ->
    okp ovf (fun Lb => Inv nl len rest (fst Lb) /\ (snd Lb = true -> EosOk len (fst Lb)))
        (pconnect_eos dbg ovf nl nr data L).
  Proof.
    intros len rest L HI Hlen. destruct (matrix_facts nl nr data Hm) as (_ & Hnr & _).
    unfold pconnect_eos. rewrite (i_size _ _ _ _ HI). rewrite (as_u16_small len) by lia.
    set (en := mkNode len len Generated.ConnFacts.eos_left Generated.ConnFacts.eos_right Generated.ConnFacts.eos_cost).
    pose proof (pconnect_node_spec dbg ovf nl nr data Hm len rest L en HI (le_n _) Hlen Hnr) as Hc.
    destruct (pconnect_node dbg ovf nl nr data L en) as [[best c]| s | |]; cbn [scan_post pbind okp fst snd] in *; try exact Hc.
    destruct (c =? MAX32)%Z eqn:Ec; cbn [okp fst snd].
    - split; [exact HI | intros H; discriminate H].
    - split.
      + destruct HI. constructor; cbn [p_size p_ends p_full p_idx]; first [assumption | reflexivity].
      + intros _. destruct Hc as [[_ ->]|[_ (j & w & -> & Hw & Hcw)]]; [rewrite Z.eqb_refl in Ec; discriminate Ec|].
        exists j, c, w. cbn [p_eos p_ends nbeg en]. auto.
  Qed.

  (* ids that node() can be asked for *)
  Definition valid_id (L : plat) (id : nidx) : Prop :=
    1 <= fst id /\ exists w, nth_error (row (p_ends L) (fst id)) (snd id) = Some w.

  Lemma ppath_loop_ok : forall len rest L, Inv nl len rest L -> forall fuel r j v,
    1 <= r -> nth_error (row (p_ends L) r) j = Some v -> conn_v v = true -> r < fuel ->
    exists ids, ppath_loop L fuel (r, j) = POk ids /\ Forall (valid_id L) ids.
  Proof.
    intros len rest L HI. induction fuel as [|f IH]; intros r j v Hr Hn Hc Hf; [lia|].
    destruct (i_prev _ _ _ _ HI r j v Hr Hn Hc) as (b & i & w & P1 & P2 & P3 & P4).
    cbn [ppath_loop fst snd].
    assert (Hrow : r < length (p_idx L)).
    { apply row_nonempty_lt. intro E. rewrite E in P1. destruct j; discriminate P1. }
    rewrite idx_ok by exact Hrow. cbn [pbind]. unfold idx at 1. rewrite P1. cbn [pbind fst].
    destruct (Nat.eqb b 0) eqn:Eb.
    - exists []. split; [reflexivity | constructor].
    - apply Nat.eqb_neq in Eb. destruct (IH b i w ltac:(lia) P3 P4 ltac:(lia)) as (ids & -> & Hv).
      cbn [pbind]. exists ((b, i) :: ids). split; [reflexivity|]. constructor; [|exact Hv].
      split; cbn [fst snd]; [lia | eauto].
  Qed.

  Lemma pnodes_ok : forall len rest L, Inv nl len rest L -> forall ids, Forall (valid_id L) ids ->
    exists xs, pnodes L ids = POk xs.
  Proof.
    intros len rest L HI. induction ids as [|[b i] ids IH]; intros Hv; cbn [pnodes]; [eauto|].
    inversion Hv as [|? ? [Hb [w Hw]] Hv']; subst. cbn [fst snd] in *.
    destruct (i_al _ _ _ _ HI b Hb) as [Af Ai].
    assert (Hi : i < length (row (p_ends L) b)) by (apply nth_error_Some; congruence).
    assert (Hbe : b < length (p_ends L)) by (apply row_nonempty_lt; intro E; rewrite E in Hi; cbn in Hi; lia).
    assert (Hbf : b < length (p_full L)) by (apply row_nonempty_lt; intro E; rewrite E in Af; cbn in Af; lia).
    unfold pnode. cbn [fst snd]. rewrite idx_ok by exact Hbf. cbn [pbind].
    destruct (nth_error (row (p_full L) b) i) as [n|] eqn:En; [|apply nth_error_None in En; lia].
    unfold idx at 1. rewrite En. cbn [pbind]. rewrite idx_ok by exact Hbe. cbn [pbind].
    unfold idx at 1. rewrite Hw. cbn [pbind].
    destruct (IH Hv') as [xs ->]. cbn [pbind]. eauto.
  Qed.

  Lemma pfill_top_path_ok : forall len rest L, Inv nl len rest L -> 1 <= len -> EosOk len L ->
    exists ids, pfill_top_path L = POk ids /\ Forall (valid_id L) ids.
  Proof.
    intros len rest L HI Hlen (i & c & w & He & Hw & Hc). unfold pfill_top_path. rewrite He.
    destruct (ppath_loop_ok len rest L HI (S (p_size L + entries L)) len i w Hlen Hw Hc) as (ids & -> & Hv).
    { rewrite (i_size _ _ _ _ HI). lia. }
    cbn [pbind]. exists ((len, i) :: ids). split; [reflexivity|]. constructor; [|exact Hv].
    split; cbn [fst snd]; [exact Hlen | eauto].
  Qed.

  (* one analysis *)
  Lemma pround_ok : forall L0 len ns, round_wf nl nr data (len, ns) = true ->
    okp ovf (fun _ => True) (pround dbg ovf nl nr data L0 len ns).
  Proof.
    intros L0 len ns Hwf. unfold round_wf in Hwf. cbn [fst snd] in Hwf. repeat rewrite andb_true_iff in Hwf.
    destruct Hwf as [[[[H1 H2] H3] H4] H5]. apply Nat.leb_le in H1. apply N.leb_le in H2.
    unfold pround. destruct (preset_inv L0 len ns H3 H5) as (L1 & -> & HI1 & _). cbn [pbind].
    apply (okp_bind ovf (fun Lcs => Inv nl len [] (fst Lcs))).
    { eapply okp_weaken; [apply pinsert_all_inv; eassumption|]. intros a [Ha _]. exact Ha. }
    intros [L2 cs] HI2. cbn [fst snd] in *.
    apply (okp_bind ovf (fun Lb => Inv nl len [] (fst Lb) /\ (snd Lb = true -> EosOk len (fst Lb)))).
    { apply pconnect_eos_inv; assumption. }
    intros [L3 b] [HI3 He]. cbn [fst snd] in *. destruct b; [|exact I].
    destruct (pfill_top_path_ok len [] L3 HI3 H1 (He eq_refl)) as (ids & -> & Hv). cbn [pbind].
    destruct (pnodes_ok len [] L3 HI3 (rev ids)) as [xs ->]; [apply Forall_rev; exact Hv|].
    cbn [pbind okp]. exact I.
  Qed.

  (* a tokenizer's life: any number of analyses through the same Lattice object, from any earlier state *)
  Lemma prounds_ok : forall rs L0, forallb (round_wf nl nr data) rs = true ->
    okp ovf (fun _ => True) (prounds dbg ovf nl nr data L0 rs).
  Proof.
    induction rs as [|[len ns] rs IH]; intros L0 H; cbn [prounds]; [exact I|].
    cbn [forallb] in H. apply andb_true_iff in H. destruct H as [Hr Hrs].
    apply (okp_bind ovf (fun _ => True)); [apply pround_ok; exact Hr|]. intros x _.
    apply (okp_bind ovf (fun _ => True)); [apply IH; exact Hrs|]. intros y _. exact I.
  Qed.

  Theorem lattice_no_index_panic : forall rs L0, forallb (round_wf nl nr data) rs = true ->
    no_index_panic (prounds dbg ovf nl nr data L0 rs).
  Proof. intros rs L0 H. eapply okp_no_index_panic. apply prounds_ok. exact H. Qed.
End Rounds.

(* ------------------------------------------------------------------ the path consists of inserted nodes *)
Section PathNodes.
  Variable dbg ovf : bool.
  Variable nl nr : N.
  Variable data : list Z.
  Hypothesis Hm : matrix_ok nl nr data = true.

  Definition FullOk (ins : list node) (L : plat) : Prop := forall r n, In n (row (p_full L) r) -> In n ins.

  Lemma pinsert_full : forall ins L n L' c, FullOk ins L -> In n ins ->
    pinsert dbg ovf nl nr data L n = POk (L', c) -> FullOk ins L'.
  Proof.
    intros ins L n L' c HF Hn H. unfold pinsert in H.
    destruct (pconnect_node dbg ovf nl nr data L n) as [[best c0]| | |]; cbn [pbind fst snd] in H; try discriminate H.
    unfold push_idx in H.
    destruct (push_at (p_ends L) (nend n) _) as [e|]; cbn [pbind] in H; [|discriminate H].
    destruct (push_at (p_idx L) (nend n) _) as [i|]; cbn [pbind] in H; [|discriminate H].
    destruct (push_at (p_full L) (nend n) n) as [f|] eqn:Ef; cbn [pbind] in H; [|discriminate H].
    inversion H; subst. destruct (push_at_spec _ _ _ _ Ef) as (_ & Rf & Of).
    intros r m Hm'. cbn [p_full] in Hm'. destruct (Nat.eq_dec r (nend n)) as [->|Hne].
    - rewrite Rf in Hm'. apply in_app_or in Hm'. destruct Hm' as [Hm'|[<-|[]]]; [exact (HF _ _ Hm') | exact Hn].
    - rewrite (Of r Hne) in Hm'. exact (HF _ _ Hm').
  Qed.

  Lemma pinsert_all_full : forall ins ns L L' cs, FullOk ins L -> (forall n, In n ns -> In n ins) ->
    pinsert_all dbg ovf nl nr data L ns = POk (L', cs) -> FullOk ins L'.
  Proof.
    intros ins. induction ns as [|n ns IH]; intros L L' cs HF Hs H; cbn [pinsert_all] in H.
    - inversion H; subst. exact HF.
    - destruct (pinsert dbg ovf nl nr data L n) as [[L1 c]| | |] eqn:E; cbn [pbind fst snd] in H; try discriminate H.
      destruct (pinsert_all dbg ovf nl nr data L1 ns) as [[L2 cs2]| | |] eqn:E2; cbn [pbind fst snd] in H; try discriminate H.
      inversion H; subst. eapply IH; [|intros; apply Hs; right; eassumption|exact E2].
      eapply pinsert_full; [exact HF | apply Hs; left; reflexivity | exact E].
  Qed.

  Lemma pnodes_full : forall ins L ids xs, FullOk ins L -> pnodes L ids = POk xs -> Forall (fun n => In n ins) (map fst xs).
  Proof.
    intros ins L. induction ids as [|id ids IH]; intros xs HF H; cbn [pnodes] in H.
    - inversion H; subst. constructor.
    - destruct (pnode L id) as [[n t]| | |] eqn:E; cbn [pbind] in H; try discriminate H.
      destruct (pnodes L ids) as [ys| | |] eqn:E2; cbn [pbind] in H; try discriminate H.
      inversion H; subst. cbn [map fst]. constructor; [|exact (IH _ HF eq_refl)].
      unfold pnode in E. unfold idx in E.
      destruct (nth_error (p_full L) (fst id)) as [fr|] eqn:E3; cbn [pbind] in E; [|discriminate E].
      destruct (nth_error fr (snd id)) as [m|] eqn:E4; cbn [pbind] in E; [|discriminate E].
      destruct (nth_error (p_ends L) (fst id)) as [er|]; cbn [pbind] in E; [|discriminate E].
      destruct (nth_error er (snd id)) as [v|]; cbn [pbind] in E; [|discriminate E].
      inversion E; subst. apply (HF (fst id)). unfold row. rewrite (nth_error_nth _ _ _ E3). exact (nth_error_In _ _ E4).
  Qed.

  (* what resolve_best_path iterates over: no index panic, and every node is one of the inserted candidates *)
  Theorem pround_path_ok : forall L0 len ns, round_wf nl nr data (len, ns) = true ->
    okp ovf (fun p => Forall (fun n => In n ns) p) (pround_path dbg ovf nl nr data L0 len ns).
  Proof.
    intros L0 len ns Hwf. pose proof Hwf as Hwf0. unfold round_wf in Hwf. cbn [fst snd] in Hwf. repeat rewrite andb_true_iff in Hwf.
    destruct Hwf as [[[[H1 H2] H3] H4] H5]. apply Nat.leb_le in H1. apply N.leb_le in H2.
    unfold pround_path. destruct (preset_inv nl nr data Hm L0 len ns H3 H5) as (L1 & E1 & HI1 & _). rewrite E1. cbn [pbind].
    assert (HF1 : FullOk ns L1).
    { unfold preset in E1. unfold push_idx in E1. destruct (push_at _ 0 _); cbn [pbind] in E1; [|discriminate E1].
      inversion E1; subst. intros r n Hn. cbn [p_full] in Hn. rewrite (proj2 (reset_vec_spec _ _) r) in Hn. contradiction. }
    pose proof (pinsert_all_inv dbg ovf nl nr data Hm len ns L1 HI1 H3 H4 H2) as Hins.
    destruct (pinsert_all dbg ovf nl nr data L1 ns) as [[L2 cs]| s | |] eqn:E2; cbn [okp pbind fst snd] in *; try contradiction; [|exact Hins].
    destruct Hins as [HI2 _]. pose proof (pinsert_all_full ns ns L1 L2 cs HF1 (fun n H => H) E2) as HF2.
    pose proof (pconnect_eos_inv dbg ovf nl nr data Hm len [] L2 HI2 H2) as Heos.
    destruct (pconnect_eos dbg ovf nl nr data L2) as [[L3 b]| s | |] eqn:E3; cbn [okp pbind fst snd] in *; try contradiction; [|exact Heos].
    destruct Heos as [HI3 He]. destruct b; [|cbn [okp]; constructor].
    assert (HF3 : FullOk ns L3).
    { unfold pconnect_eos in E3. rewrite (i_size _ _ _ _ HI2) in E3.
      destruct (pconnect_node dbg ovf nl nr data L2 _) as [[best c]| | |]; cbn [pbind snd] in E3; try discriminate E3.
      destruct (c =? MAX32)%Z; inversion E3; subst; exact HF2. }
    destruct (pfill_top_path_ok nl len [] L3 HI3 H1 (He eq_refl)) as (ids & -> & Hv). cbn [pbind].
    destruct (pnodes_ok nl len [] L3 HI3 (rev ids)) as [xs Ex]; [apply Forall_rev; exact Hv|]. rewrite Ex. cbn [pbind okp].
    exact (pnodes_full ns L3 (rev ids) xs HF3 Ex).
  Qed.
End PathNodes.

(* without overflow checks (release profile) the additions wrap: nothing panics at all *)
Theorem lattice_no_panic_release : forall dbg nl nr data, matrix_ok nl nr data = true ->
  forall rs L0, forallb (round_wf nl nr data) rs = true -> exists r, prounds dbg false nl nr data L0 rs = POk r.
Proof.
  intros dbg nl nr data Hm rs L0 H. destruct (okp_release _ _ (prounds_ok dbg false nl nr data Hm rs L0 H)) as (r & -> & _). eauto.
Qed.

