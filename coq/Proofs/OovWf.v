(* C13: every candidate of the MeCab, Simple and Regex provider models at character offset off of a text of len characters
   begins at off and ends strictly after off and not after len; the same for the node buffer of a whole position. *)
From Coq Require Import List NArith ZArith Bool Lia ZifyBool ZifyNat ZifyN PeanoNat String.
From SudachiVerif Require Import Model.Oov Proofs.OovContinuity Proofs.OovFallback.
Import ListNotations.
Open Scope N_scope.

Arguments N.land : simpl never.
Arguments N.eqb : simpl never.

Definition cand_wf (len off : nat) (nd : node) : Prop := n_begin nd = off /\ (off < n_end nd <= len)%nat.

(* ---------- MeCab ---------- *)
Lemma len_loop_wf len off ll oovs n : (off < len)%nat -> forall fuel i, (1 <= i)%nat ->
  forall nd, In nd (len_loop fuel i n len off ll oovs) -> cand_wf len off nd.
Proof.
  intros Hoff. induction fuel as [|f IH]; intros i Hi nd H; [contradiction|].
  cbn [len_loop] in H. destruct (loop_done i n); [contradiction|].
  destruct (cmp_eval OF.mecab_break_cmp (char_distance len off i) ll || _); [contradiction|].
  apply in_app_iff in H. destruct H as [H|H].
  - apply in_map_iff in H. destruct H as [o [<- _]].
    unfold cand_wf, oov_node, char_distance. cbn [n_begin n_end]. lia.
  - apply (IH (S i)); [lia|exact H].
Qed.

Lemma mecab_class_wf m len off char_len other ctype nd :
  (off < len)%nat -> (1 <= char_len)%nat -> (off + char_len <= len)%nat ->
  In nd (mecab_class m len off char_len other ctype) -> cand_wf len off nd.
Proof.
  intros Hoff H1 H2. unfold mecab_class.
  destruct (find_cinfo m ctype) as [ci|]; [|contradiction].
  destruct (negb (ci_invoke ci) && negb (other =? 0)); [contradiction|].
  destruct (find_oovs m (ci_type ci)) as [oovs|]; [|contradiction].
  intros H. apply in_app_iff in H. destruct H as [H|H].
  - destruct (ci_group ci); [|contradiction]. apply in_map_iff in H. destruct H as [o [<- _]].
    unfold cand_wf, oov_node. cbn [n_begin n_end]. lia.
  - eapply (len_loop_wf len off); [exact Hoff| |exact H]. lia.
Qed.

Lemma mecab_provide_wf m cs off other ns :
  continuity cs = continuity_spec cs ->
  mecab_provide m cs (continuity cs) off other = ROk ns -> forall nd, In nd ns -> cand_wf (List.length cs) off nd.
Proof.
  intros Hc H nd Hnd. unfold mecab_provide in H. rewrite Hc in H.
  destruct (nth_error (continuity_spec cs) off) as [char_len|] eqn:E1; [|discriminate].
  destruct (nth_error cs off) as [c|] eqn:E2; [|discriminate].
  assert (Hoff : (off < List.length cs)%nat) by (apply nth_error_Some; congruence).
  apply spec_bound in E1. destruct E1 as [B1 B2].
  destruct (Nat.eqb char_len 0); [injection H as <-; contradiction|]. injection H as <-.
  apply in_flat_map in Hnd. destruct Hnd as [ct [_ Hn]].
  eapply mecab_class_wf; eauto.
Qed.

(* ---------- Simple ---------- *)
Lemma bow_loop_length chain : forall cs nb prev, List.length (bow_loop chain nb prev cs) = List.length cs.
Proof.
  induction cs as [|x t IH]; intros nb prev; [reflexivity|].
  cbn [bow_loop]. destruct (eval_chain chain nb prev x). cbn [List.length]. now rewrite IH.
Qed.

Lemma simple_provide_wf o cs off other ns :
  simple_provide o (can_bow cs) off other = ROk ns -> forall nd, In nd ns -> cand_wf (List.length cs) off nd.
Proof.
  intros H nd Hnd.
  assert (Hlen : List.length (can_bow cs) = List.length cs) by apply bow_loop_length.
  destruct (Nat.ltb_spec off (List.length cs)) as [L|L].
  - destruct (simple_candidate_spec o cs off other L) as (ns' & E & Hnz & Hz). rewrite E in H. injection H as <-.
    destruct (N.eq_dec other 0) as [Z|NZ].
    + destruct (Hz Z) as (e & -> & Hr & _). destruct Hnd as [<-|[]].
      unfold cand_wf, oov_node. cbn [n_begin n_end]. lia.
    + rewrite (Hnz NZ) in Hnd. contradiction.
  - unfold simple_provide in H. destruct (negb (other =? 0)); [injection H as <-; contradiction|].
    rewrite Hlen in H. destruct (Nat.ltb_spec off (List.length cs)); [lia|discriminate].
Qed.

(* ---------- Regex ---------- *)
(* oracle hypothesis: a reported match ends within the searched window [off, min(len, off + max_length)) *)
Definition regex_oracle_ok (x : regexp) (len : nat) : Prop :=
  forall off at0 mlen, nth_error (x_matches x) off = Some (Some (at0, mlen)) ->
                       (mlen <= Nat.min (regex_max_length x) (len - off))%nat /\ (off < len)%nat.

Lemma regex_provide_wf x conts len off other result ns :
  OF.regex_ignores_empty_match = true -> regex_oracle_ok x len ->
  regex_provide x conts off other result = ROk ns -> forall nd, In nd ns -> cand_wf len off nd.
Proof.
  intros Hfix Hor H nd Hnd. unfold regex_provide in H.
  destruct (if x_strict x && Nat.ltb 0 off then _ else Some false) as [[|]|]; try discriminate.
  { injection H as <-. contradiction. }
  destruct (nth_error (x_matches x) off) as [[[at0 mlen]|]|] eqn:E; try discriminate.
  2:{ injection H as <-. contradiction. }
  destruct (Hor off at0 mlen E) as [B1 B2].
  destruct at0; cbn [negb] in H.
  2:{ destruct (x_debug x); [discriminate|]. injection H as <-. contradiction. }
  rewrite Hfix in H. cbn [andb] in H. destruct (Nat.eqb_spec mlen 0) as [Z|NZ]; [injection H as <-; contradiction|].
  assert (W : cand_wf len off (oov_node off (off + mlen) (x_def x))).
  { unfold cand_wf, oov_node. cbn [n_begin n_end]. lia. }
  destruct (cw_has_word other (N.of_nat mlen)) as [[| |]|]; try discriminate.
  - injection H as <-. contradiction.
  - injection H as <-. destruct Hnd as [<-|[]]. exact W.
  - destruct (existsb _ result); injection H as <-; [contradiction|]. destruct Hnd as [<-|[]]. exact W.
Qed.

(* ---------- any provider ---------- *)
Definition provider_oracle_ok (p : provider) (len : nat) : Prop :=
  match p with PRegex x => regex_oracle_ok x len | _ => True end.

Section Wf.
  Hypothesis Hfwd : OF.continuity_forward = true.
  Hypothesis Hfix : OF.regex_ignores_empty_match = true.

  Theorem candidates_wf p cs off other result ns :
    provider_oracle_ok p (List.length cs) ->
    provide p (mk_ctx cs) off other result = ROk ns ->
    forall nd, In nd ns -> cand_wf (List.length cs) off nd.
  Proof.
    intros Hor H. destruct p as [m|o|x]; cbn [provide mk_ctx c_cats c_bows c_conts] in H.
    - apply (mecab_provide_wf m cs off other ns (continuity_eq_spec_generic Hfwd cs) H).
    - apply (simple_provide_wf o cs off other ns H).
    - apply (regex_provide_wf x (continuity cs) (List.length cs) off other result ns Hfix Hor H).
  Qed.

  (* ---------- a whole position: dictionary nodes, every provider in order, the fallback provider ---------- *)
  Lemma provide_oovs_wf cs off st p st' :
    provider_oracle_ok p (List.length cs) ->
    provide_oovs (mk_ctx cs) off st p = ROk st' ->
    Forall (cand_wf (List.length cs) off) (snd st) -> Forall (cand_wf (List.length cs) off) (snd st').
  Proof.
    intros Hor H W. apply provide_oovs_inv in H. destruct H as [ns [P1 [P2 _]]]. rewrite P2.
    apply Forall_app. split; [exact W|]. apply Forall_forall. apply (candidates_wf p cs off _ _ ns Hor P1).
  Qed.

  Lemma provide_all_wf cs off : forall ps st st',
    (forall p, In p ps -> provider_oracle_ok p (List.length cs)) ->
    provide_all (mk_ctx cs) off st ps = ROk st' ->
    Forall (cand_wf (List.length cs) off) (snd st) -> Forall (cand_wf (List.length cs) off) (snd st').
  Proof.
    induction ps as [|p ps IH]; intros st st' Hor H W.
    - cbn in H. injection H as <-. exact W.
    - cbn [provide_all] in H. destruct (provide_oovs (mk_ctx cs) off st p) as [st1| |] eqn:E; try discriminate.
      apply (IH st1 st'); [intros q Hq; apply Hor; right; exact Hq|exact H|].
      apply (provide_oovs_wf cs off st p st1); [apply Hor; left; reflexivity|exact E|exact W].
  Qed.

  Lemma normal_pass_wf gate cs ps off dict st :
    (forall p, In p ps -> provider_oracle_ok p (List.length cs)) ->
    Forall (cand_wf (List.length cs) off) dict ->
    normal_pass_g gate (mk_ctx cs) ps off dict = ROk st -> Forall (cand_wf (List.length cs) off) (snd st).
  Proof.
    intros Hor W. unfold normal_pass_g.
    destruct (cw_add_all 0 (map node_len dict)) as [cw0|]; [|discriminate].
    destruct (nth_error (c_cats (mk_ctx cs)) off) as [cat|]; [|discriminate].
    destruct (inter cat gate).
    - intros H. injection H as <-. exact W.
    - intros H. apply (provide_all_wf cs off ps (cw0, dict) st Hor H W).
  Qed.

  Theorem position_step_wf gate fb cs ps off dict buf :
    (forall p, In p ps -> provider_oracle_ok p (List.length cs)) ->
    (forall p, fb = Some p -> provider_oracle_ok p (List.length cs)) ->
    Forall (cand_wf (List.length cs) off) dict ->
    position_step_g gate fb (mk_ctx cs) ps off dict = ROk buf -> Forall (cand_wf (List.length cs) off) buf.
  Proof.
    intros Hor Hfb W. unfold position_step_g.
    destruct (normal_pass_g gate (mk_ctx cs) ps off dict) as [st1| |] eqn:E; try discriminate.
    pose proof (normal_pass_wf gate cs ps off dict st1 Hor W E) as W1.
    destruct (fst st1 =? 0).
    - destruct fb as [p|]; [|discriminate].
      destruct (provide_oovs (mk_ctx cs) off st1 p) as [st2| |] eqn:E2; try discriminate.
      pose proof (provide_oovs_wf cs off st1 p st2 (Hfb p eq_refl) E2 W1) as W2.
      cbn beta iota. destruct (fst st2 =? 0); [discriminate|]. intros H. injection H as <-. exact W2.
    - cbn beta iota. destruct (fst st1 =? 0); [discriminate|]. intros H. injection H as <-. exact W1.
  Qed.
End Wf.

(* the fallback provider is one of the configured providers *)
Lemma fallback_of_in ps p : fallback_of ps = Some p -> In p ps.
Proof.
  unfold fallback_of. destruct (String.eqb OF.fallback_provider "last").
  - induction ps as [|q t IH]; [discriminate|]. cbn [map last].
    destruct t as [|r t'].
    + cbn. intros H. injection H as <-. left. reflexivity.
    + intros H. right. apply IH. exact H.
  - destruct ps as [|q t]; [discriminate|]. cbn. intros H. injection H as <-. left. reflexivity.
Qed.
