(* C11 — the fix-ups of LexiconSet::get_word_info_subset (POS re-basing, re-stamping of references of user
   dictionaries), each guarded by its own flag of the loaded subset, preserve every requested accessor *)
From Coq Require Import List NArith ZArith Bool Lia ZifyBool ZifyNat ZifyN.
From SudachiVerif Require Import Model.Codec Proofs.CodecProofs.
Import ListNotations.
Open Scope N_scope.

Lemma vnum_inj : forall a b, VNum a = VNum b -> a = b.
Proof. intros a b H. inversion H. reflexivity. Qed.
Lemma varr_inj : forall a b, VArr a = VArr b -> a = b.
Proof. intros a b H. inversion H. reflexivity. Qed.

Lemma deps_has_flag : forall L a, deps_loaded L a -> N.testbit L (acc_flag a) = true.
Proof. intros L a H. apply H. destruct a; cbn; tauto. Qed.

(* one conditional field update leaves an accessor alone unless it is the accessor's own stored field *)
Lemma accessor_set_other : forall a f v i, ~ In f (acc_fids a) -> accessor a (set_field f v i) = accessor a i.
Proof.
  intros a f v i H. apply accessor_ext. intros g Hg. apply set_field_other. intros ->. contradiction.
Qed.

(* field by field: what the fix-ups leave in the info *)
Definition fix_field (d n o s : N) (wi : winfo) (g : fid) : fval :=
  match g with
  | F_pos => if N.testbit s 2 && (0 <? d) && (n <=? as_num (wi F_pos))
             then VNum ((as_num (wi F_pos) - n + o) mod 65536) else wi F_pos
  | F_a => if N.testbit s 6 then VArr (restamp d (as_arr (wi F_a))) else wi F_a
  | F_b => if N.testbit s 7 then VArr (restamp d (as_arr (wi F_b))) else wi F_b
  | F_ws => if N.testbit s 8 then VArr (restamp d (as_arr (wi F_ws))) else wi F_ws
  | _ => wi g
  end.

Lemma lexset_fix_field : forall d n o s wi g, lexset_fix d n o s wi g = fix_field d n o s wi g.
Proof.
  intros d n o s wi g. unfold lexset_fix, fix_field.
  destruct (N.testbit s 2 && (0 <? d) && (n <=? as_num (wi F_pos))), (N.testbit s 6), (N.testbit s 7), (N.testbit s 8);
    destruct g; unfold set_field; cbn [fid_eqb]; reflexivity.
Qed.

Lemma lexset_fix_accessor : forall d n o L a iS iA,
  N.testbit L (acc_flag a) = true -> accessor a iS = accessor a iA ->
  accessor a (lexset_fix d n o L iS) = accessor a (lexset_fix d n o ALL iA).
Proof.
  intros d n o L a iS iA Hreq Heq.
  destruct a; cbn [acc_flag] in Hreq; cbn [accessor] in Heq |- *; unfold or_surface in *;
    rewrite !lexset_fix_field; cbn [fix_field]; rewrite ?Hreq;
    change (N.testbit ALL 2) with true; change (N.testbit ALL 6) with true;
    change (N.testbit ALL 7) with true; change (N.testbit ALL 8) with true; cbn [andb]; try exact Heq.
  - apply vnum_inj in Heq. rewrite Heq. destruct ((0 <? d) && (n <=? as_num (iA F_pos))); cbn [as_num]; congruence.
  - apply varr_inj in Heq. cbn [as_arr]. rewrite Heq. reflexivity.
  - apply varr_inj in Heq. cbn [as_arr]. rewrite Heq. reflexivity.
  - apply varr_inj in Heq. cbn [as_arr]. rewrite Heq. reflexivity.
Qed.

Theorem lexset_accessor_preserved :
  reader_facts_ok -> forall lx has_syn d n o wid L a iA,
  lex_ok lx -> subset_of L ALL -> deps_loaded L a ->
  lexset_get lx has_syn d n o wid ALL = Some iA ->
  exists iS, lexset_get lx has_syn d n o wid L = Some iS /\ accessor a iS = accessor a iA.
Proof.
  intros HR lx has_syn d n o wid L a iA Hlex Hsub Hdeps HA. unfold lexset_get in *.
  destruct (get_word_info lx has_syn wid ALL) as [jA|] eqn:EA; [|discriminate].
  cbn [option_map] in HA. inversion HA; subst iA; clear HA.
  destruct (accessor_preserved HR lx has_syn wid L a jA Hlex Hsub Hdeps EA) as (jS & ES & Hacc).
  rewrite ES. cbn [option_map]. eexists. split; [reflexivity|].
  apply lexset_fix_accessor; [apply deps_has_flag; exact Hdeps|exact Hacc].
Qed.
