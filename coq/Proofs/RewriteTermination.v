(* Termination of the two rewrite loops within explicit fuel, and absence of InvalidRange / index panics
   (concat is never called with begin >= end or end beyond the path). *)
From Coq Require Import List NArith ZArith Bool Arith Lia.
From SudachiVerif Require Import Model.Numeric Model.Rewrite Proofs.RewriteProofs.
Import ListNotations.

(* ------------------------------------------------------------------ katakana loop *)
Lemma scan_right_ge p e f : e <= scan_right p e f.
Proof. revert e; induction f as [|f IH]; intros e; cbn [scan_right]; [lia|]. destruct (_ && _); [specialize (IH (S e)); lia | lia]. Qed.

Lemma scan_right_le p e f : e <= length p -> scan_right p e f <= length p.
Proof.
  revert e; induction f as [|f IH]; intros e He; cbn [scan_right]; [lia|].
  destruct (Nat.ltb_spec e (length p)); cbn [andb]; [|lia]. destruct (is_kat _); [apply IH; lia | lia].
Qed.

Lemma concat_oov_nodes_total p b e pid :
  b < e -> e <= length p ->
  exists p', concat_oov_nodes p b e pid = Ok p' /\ length p' = b + 1 + (length p - e).
Proof.
  intros H1 H2. unfold concat_oov_nodes.
  destruct (Nat.leb_spec e b); [lia|]. destruct (Nat.ltb_spec (length p) e); [lia|].
  eexists; split; [reflexivity|]. rewrite app_length, firstn_length. cbn [length]. rewrite skipn_length. lia.
Qed.

Lemma kat_loop_total ml op :
  1 <= N.to_nat RF.kat_resume ->
  forall fuel p i, length p - i < fuel -> exists q, kat_loop ml op fuel p i = Some (Ok q).
Proof.
  intros Hres. induction fuel as [|f IH]; intros p i Hf; [lia|]. cbn [kat_loop].
  destruct (Nat.leb_spec (length p) i) as [|Hi]; [eexists; reflexivity|].
  destruct (negb _ || negb _); [apply IH; lia|].
  set (e := scan_right p (S i) (length p)).
  set (b := skip_nobow p (scan_left p i) e (length p)).
  assert (He1 : S i <= e) by apply scan_right_ge.
  assert (He2 : e <= length p) by (apply scan_right_le; lia).
  destruct (Nat.ltb_spec (N.to_nat RF.kat_merge_above) (e - b)) as [Hm|]; [|apply IH; lia].
  destruct (concat_oov_nodes_total p b e op) as (p' & -> & Hl); [lia | assumption |].
  apply IH. lia.
Qed.

Theorem katakana_terminates ml op p :
  1 <= N.to_nat RF.kat_resume -> exists q, join_katakana ml op p = Some (Ok q).
Proof. intros H. unfold join_katakana. apply kat_loop_total; [assumption | lia]. Qed.

(* ------------------------------------------------------------------ numeric loop *)
(* decidable conditions on the generated facts *)
Definition num_facts_ok : Prop :=
  RF.restart_requires_flag = true /\ (0 <= RF.num_resume)%Z /\ (0 <= RF.num_resume_sep)%Z /\
  fst (p_append gen_cfg (p_new gen_cfg) 44%N) = false /\ fst (p_append gen_cfg (p_new gen_cfg) 46%N) = false.

Section Num.
Variable en : bool.
Variable npos : N.

Notation lenZ st := (Z.of_nat (length (np st))).

(* invariant of the loop state; L bounds the path length *)
Record ninv (L : Z) (st : nstate) : Prop := mkInv {
  i_lo : (-1 <= ni st)%Z;
  beg_le : (0 <= nbeg st -> nbeg st <= ni st /\ ni st < lenZ st)%Z;
  len_le : (lenZ st <= L)%Z;
  (* a run that consists of its first node only: that node was fed to a fresh parser successfully *)
  single : (0 <= nbeg st -> ni st = nbeg st ->
            fst (feed_chars (p_new gen_cfg) (norm_of (at_ (np st) (Z.to_nat (nbeg st))))) = true)%Z }.

Definition flagsZ (st : nstate) : Z := ((if ncad st then 1 else 0) + (if npad st then 1 else 0))%Z.
Definition floorZ (st : nstate) : Z := if (0 <=? nbeg st)%Z then nbeg st else (ni st + 1)%Z.
Definition muv (L a fg r : Z) : Z := (a * (3 * (L + 1)) + fg * (L + 1) + r)%Z.
(* lexicographic in (distance of the earliest possible run start from the end, separators still counted as digits,
   nodes still to examine in this pass), flattened *)
Definition mu (L : Z) (st : nstate) : Z := muv L (lenZ st - floorZ st) (flagsZ st) (lenZ st - ni st - 1).

Lemma muv_dec1 L a a' fg fg' r r' : (a' = a -> fg' = fg -> r' < r -> muv L a' fg' r' < muv L a fg r)%Z.
Proof. unfold muv. intros -> ->. lia. Qed.

Lemma muv_dec2 L a a' fg fg' r r' :
  (a' = a -> 0 <= L -> fg' + 1 <= fg -> r' <= L -> 0 <= r -> muv L a' fg' r' < muv L a fg r)%Z.
Proof. unfold muv. intros ->. intros. nia. Qed.

Lemma muv_dec3 L a a' fg fg' r r' :
  (0 <= L -> a' + 1 <= a -> fg' <= 2 -> 0 <= fg -> r' <= L -> 0 <= r -> muv L a' fg' r' < muv L a fg r)%Z.
Proof. unfold muv. intros. nia. Qed.

Lemma floorZ_neg st : (nbeg st < 0)%Z -> floorZ st = (ni st + 1)%Z.
Proof. intros H. unfold floorZ. destruct (Z.leb_spec 0 (nbeg st)); lia. Qed.

Lemma floorZ_pos st : (0 <= nbeg st)%Z -> floorZ st = nbeg st.
Proof. intros H. unfold floorZ. destruct (Z.leb_spec 0 (nbeg st)); lia. Qed.

Lemma flagsZ_bounds st : (0 <= flagsZ st <= 2)%Z.
Proof. unfold flagsZ. destruct (ncad st), (npad st); lia. Qed.

Lemma num_concat_total p b e ps :
  b < e -> e <= length p -> exists p', num_concat en npos p b e ps = Ok p' /\ length p' <= length p.
Proof.
  intros H1 H2.
  assert (Hc : forall nf, exists p', concat_nodes p b e nf = Ok p' /\ length p' <= length p).
  { intros nf. unfold concat_nodes. destruct (Nat.leb_spec e b); [lia|]. destruct (Nat.ltb_spec (length p) e); [lia|].
    eexists; split; [reflexivity|]. rewrite app_length, firstn_length. cbn [length]. rewrite skipn_length. lia. }
  unfold num_concat. destruct (negb _); [eexists; split; [reflexivity|lia]|].
  destruct en.
  - destruct (_ || _); [apply Hc | eexists; split; [reflexivity|lia]].
  - destruct (_ <? _); [apply Hc | eexists; split; [reflexivity|lia]].
Qed.

Lemma feed_single ps c : fst (feed_chars ps [c]) = fst (p_append gen_cfg ps c).
Proof. cbn [feed_chars]. destruct (p_append gen_cfg ps c) as [[|] ps']; reflexivity. Qed.

Lemma is_str_eq s c : is_str s c = true -> s = [c].
Proof. destruct s as [|x [|y t]]; cbn; try discriminate. intros H. apply N.eqb_eq in H. now subst. Qed.

(* a run whose last node is a bare separator has at least one node before it *)
Lemma sep_not_single L st (k : nat) :
  num_facts_ok -> ninv L st -> (0 <= nbeg st)%Z -> Z.of_nat k = ni st ->
  (is_str (norm_of (at_ (np st) k)) 44 = true \/ is_str (norm_of (at_ (np st) k)) 46 = true) ->
  (nbeg st < ni st)%Z.
Proof.
  intros (_ & _ & _ & H44 & H46) HI Hb Hk Hs. destruct HI as [_ Hbeg _ Hsingle].
  destruct (Hbeg Hb) as [Hle _]. destruct (Z.eq_dec (ni st) (nbeg st)) as [E|]; [|lia].
  specialize (Hsingle Hb E). replace (Z.to_nat (nbeg st)) with k in Hsingle by lia.
  destruct Hs as [Hs|Hs]; apply is_str_eq in Hs; rewrite Hs, feed_single in Hsingle; congruence.
Qed.

Lemma num_step_progress L st r :
  num_facts_ok -> (0 <= L)%Z -> ninv L st -> num_step en npos st = Some r ->
  (1 <= mu L st)%Z /\ exists st', r = Ok st' /\ ninv L st' /\ (mu L st' < mu L st)%Z.
Proof.
  intros HF HL HI H. pose proof HF as (Hrf & Hr1 & Hr2 & _).
  pose proof HI as [Hlo Hbeg Hlen Hsingle].
  unfold num_step in H. cbv zeta in H.
  destruct (Z.ltb_spec (ni st) (lenZ st - 1)) as [Hguard|]; cbn [negb] in H; [|discriminate].
  pose proof (flagsZ_bounds st) as Hfl.
  assert (Hfl_le : (floorZ st <= ni st + 1)%Z).
  { unfold floorZ. destruct (Z.leb_spec 0 (nbeg st)) as [Hp|]; [destruct (Hbeg Hp); lia | lia]. }
  split; [unfold mu, muv; nia|].
  destruct (is_numcat _ || _ || _).
  - (* a numeral node, or a separator counted as a digit *)
    destruct (Z.ltb_spec (nbeg st) 0) as [Hneg|Hpos].
    + (* a new run starts here *)
      assert (Hfloor : floorZ st = (ni st + 1)%Z) by (unfold floorZ; destruct (Z.leb_spec 0 (nbeg st)); lia).
      destruct (feed_chars (p_new gen_cfg) _) as [[|] ps'] eqn:Efeed.
      * injection H as <-. eexists; split; [reflexivity|]. split.
        -- constructor; cbn [ni nbeg np]; try lia. intros _ _. now rewrite Efeed.
        -- unfold mu. cbn [np ni]. rewrite floorZ_pos by (cbn [nbeg]; lia). cbn [nbeg].
           rewrite Hfloor. apply muv_dec1; [lia | reflexivity | lia].
      * rewrite Hrf in H. cbn [negb orb] in H.
        destruct (N.eqb (er ps') E_COMMA && ncad st) eqn:Ec; [|destruct (N.eqb (er ps') E_POINT && npad st) eqn:Ep].
        -- injection H as <-. eexists; split; [reflexivity|]. split; [constructor; cbn [ni nbeg np]; lia|].
           apply andb_prop in Ec. destruct Ec as [_ Ec].
           unfold mu. cbn [np ni]. rewrite floorZ_neg by (cbn [nbeg]; lia). cbn [ni].
           rewrite Hfloor. apply muv_dec2; try lia. unfold flagsZ; cbn [ncad npad]. rewrite Ec. lia.
        -- injection H as <-. eexists; split; [reflexivity|]. split; [constructor; cbn [ni nbeg np]; lia|].
           apply andb_prop in Ep. destruct Ep as [_ Ep].
           unfold mu. cbn [np ni]. rewrite floorZ_neg by (cbn [nbeg]; lia). cbn [ni].
           rewrite Hfloor. apply muv_dec2; try lia. unfold flagsZ; cbn [ncad npad]. rewrite Ep. lia.
        -- injection H as <-. eexists; split; [reflexivity|]. split; [constructor; cbn [ni nbeg np]; lia|].
           unfold mu. cbn [np ni]. rewrite floorZ_neg by (cbn [nbeg]; lia). cbn [ni].
           rewrite Hfloor. pose proof (flagsZ_bounds st). apply muv_dec3; try lia. unfold flagsZ; cbn [ncad npad]. unfold flagsZ in *. lia.
    + (* the run continues *)
      destruct (Hbeg Hpos) as [Hb1 Hb2].
      assert (Hfloor : floorZ st = nbeg st) by (unfold floorZ; destruct (Z.leb_spec 0 (nbeg st)); lia).
      destruct (feed_chars (nps st) _) as [[|] ps'] eqn:Efeed.
      * injection H as <-. eexists; split; [reflexivity|]. split; [constructor; cbn [ni nbeg np]; lia|].
        unfold mu. cbn [np ni]. rewrite floorZ_pos by (cbn [nbeg]; lia). cbn [nbeg].
        rewrite Hfloor. apply muv_dec1; [lia | reflexivity | lia].
      * rewrite Hrf in H. cbn [negb orb] in H.
        destruct (N.eqb (er ps') E_COMMA && ncad st) eqn:Ec; [|destruct (N.eqb (er ps') E_POINT && npad st) eqn:Ep].
        -- injection H as <-. eexists; split; [reflexivity|]. split; [constructor; cbn [ni nbeg np]; lia|].
           apply andb_prop in Ec. destruct Ec as [_ Ec].
           unfold mu. cbn [np ni]. rewrite floorZ_neg by (cbn [nbeg]; lia). cbn [ni].
           rewrite Hfloor. apply muv_dec2; try lia. unfold flagsZ; cbn [ncad npad]. rewrite Ec. lia.
        -- injection H as <-. eexists; split; [reflexivity|]. split; [constructor; cbn [ni nbeg np]; lia|].
           apply andb_prop in Ep. destruct Ep as [_ Ep].
           unfold mu. cbn [np ni]. rewrite floorZ_neg by (cbn [nbeg]; lia). cbn [ni].
           rewrite Hfloor. apply muv_dec2; try lia. unfold flagsZ; cbn [ncad npad]. rewrite Ep. lia.
        -- injection H as <-. eexists; split; [reflexivity|]. split; [constructor; cbn [ni nbeg np]; lia|].
           unfold mu. cbn [np ni]. rewrite floorZ_neg by (cbn [nbeg]; lia). cbn [ni].
           rewrite Hfloor. pose proof (flagsZ_bounds st). apply muv_dec3; try lia. unfold flagsZ; cbn [ncad npad]. unfold flagsZ in *. lia.
  - (* any other node: a pending run is closed *)
    assert (Hgen : forall p' i' ps' cad pad,
               (length p' <= length (np st))%nat -> (floorZ st <= i')%Z ->
               let st' := mkNS p' i' (-1) cad pad ps' in ninv L st' /\ (mu L st' < mu L st)%Z).
    { intros p' i' ps' cad pad Hl Hi'. cbv zeta.
      assert (Hf0 : (0 <= floorZ st)%Z) by (unfold floorZ; destruct (Z.leb_spec 0 (nbeg st)); lia).
      split; [constructor; cbn [ni nbeg np]; lia|].
      unfold mu. cbn [np ni]. rewrite floorZ_neg by (cbn [nbeg]; lia). cbn [ni].
      apply muv_dec3; try lia.
      - unfold flagsZ; cbn [ncad npad]. destruct cad, pad; lia. }
    destruct (Z.leb_spec 0 (nbeg st)) as [Hpos|Hneg].
    + destruct (Hbeg Hpos) as [Hb1 Hb2].
      assert (Hfloor : floorZ st = nbeg st) by (unfold floorZ; destruct (Z.leb_spec 0 (nbeg st)); lia).
      destruct (p_done gen_cfg (nps st)) as [[|] ps'].
      * destruct (num_concat_total (np st) (Z.to_nat (nbeg st)) (Z.to_nat (ni st + 1)) ps') as (p' & E & Hl); [lia | lia |].
        rewrite E in H. injection H as <-. eexists; split; [reflexivity|]. apply Hgen; lia.
      * destruct (_ || _) eqn:Esep.
        -- assert (Hlt : (nbeg st < ni st)%Z).
           { apply (sep_not_single L st (Z.to_nat (ni st + 1) - 1)); try assumption; [lia|].
             apply orb_prop in Esep. destruct Esep as [Es|Es]; apply andb_prop in Es; tauto. }
           destruct (num_concat_total (np st) (Z.to_nat (nbeg st)) (Z.to_nat (ni st + 1) - 1) ps') as (p' & E & Hl); [lia | lia |].
           rewrite E in H. injection H as <-. eexists; split; [reflexivity|]. apply Hgen; lia.
        -- injection H as <-. eexists; split; [reflexivity|]. apply Hgen; lia.
    + injection H as <-. eexists; split; [reflexivity|]. apply Hgen; lia.
Qed.

Lemma num_finish_total L st :
  num_facts_ok -> ninv L st -> ~ (ni st < lenZ st - 1)%Z -> exists q, num_finish en npos st = Ok q.
Proof.
  intros HF HI Hend. pose proof HI as [Hlo Hbeg Hlen Hsingle]. unfold num_finish.
  destruct (Z.leb_spec 0 (nbeg st)) as [Hpos|]; [|eexists; reflexivity].
  destruct (Hbeg Hpos) as [Hb1 Hb2].
  destruct (p_done gen_cfg (nps st)) as [[|] ps'].
  - destruct (num_concat_total (np st) (Z.to_nat (nbeg st)) (length (np st)) ps') as (p' & E & _); [lia | lia |].
    eexists; exact E.
  - destruct (_ || _) eqn:Esep; [|eexists; reflexivity].
    assert (Hlt : (nbeg st < ni st)%Z).
    { apply (sep_not_single L st (length (np st) - 1)); try assumption; [lia|].
      apply orb_prop in Esep. destruct Esep as [Es|Es]; apply andb_prop in Es; tauto. }
    destruct (num_concat_total (np st) (Z.to_nat (nbeg st)) (length (np st) - 1) ps') as (p' & E & _); [lia | lia |].
    eexists; exact E.
Qed.

Lemma num_loop_total L :
  num_facts_ok -> (0 <= L)%Z ->
  forall fuel st, ninv L st -> (mu L st < Z.of_nat fuel)%Z -> 0 < fuel -> exists q, num_loop en npos fuel st = Some (Ok q).
Proof.
  intros HF HL. induction fuel as [|f IH]; intros st HI Hmu Hpos; [lia|].
  - cbn [num_loop]. destruct (num_step en npos st) as [r|] eqn:E.
    + destruct (num_step_progress L st r HF HL HI E) as (Hge & st' & -> & HI' & Hdec). apply IH; [assumption | lia | lia].
    + assert (Hend : ~ (ni st < lenZ st - 1)%Z).
      { intros Hlt. unfold num_step in E. cbv zeta in E.
        destruct (Z.ltb_spec (ni st) (lenZ st - 1)); [|lia]. cbn [negb] in E.
        repeat match type of E with
               | context [match ?x with _ => _ end] => destruct x
               | context [if ?x then _ else _] => destruct x
               end; discriminate. }
      destruct (num_finish_total L st HF HI Hend) as (q & ->). eexists; reflexivity.
Qed.

Theorem numeric_terminates p : num_facts_ok -> exists q, join_numeric en npos p = Some (Ok q).
Proof.
  intros HF. unfold join_numeric. apply (num_loop_total (Z.of_nat (length p))); [assumption | lia | | |].
  - constructor; cbn [ni nbeg np]; lia.
  - unfold mu, muv, num_fuel. rewrite floorZ_neg by (cbn [nbeg]; lia). unfold flagsZ. cbn [ni nbeg np ncad npad].
    rewrite !Nat2Z.inj_mul, Nat2Z.inj_succ. set (n := Z.of_nat (length p)). nia.
  - unfold num_fuel. lia.
Qed.
End Num.

(* ------------------------------------------------------------------ the chain *)
Definition rewrite_facts_ok : Prop := 1 <= N.to_nat RF.kat_resume /\ num_facts_ok.

Theorem rewrite_total pls p : rewrite_facts_ok -> exists q, run_plugins pls p = Some (Ok q).
Proof.
  intros [Hk Hn]. revert p. induction pls as [|pl t IH]; intros p; cbn [run_plugins]; [eexists; reflexivity|].
  destruct pl as [en np|ml op]; cbn [run_plugin].
  - destruct (numeric_terminates en np p Hn) as (q & ->). apply IH.
  - destruct (katakana_terminates ml op p Hk) as (q & ->). apply IH.
Qed.

(* concat_nodes / concat_oov_nodes answer ErrRange exactly when called with begin >= end and PanicIndex exactly when the
   end lies beyond the path: neither ever happens, and the fuel is never exhausted *)
Corollary no_invalid_range pls p :
  rewrite_facts_ok ->
  run_plugins pls p <> None /\ run_plugins pls p <> Some ErrRange /\ run_plugins pls p <> Some PanicIndex.
Proof. intros H. destruct (rewrite_total pls p H) as (q & ->). repeat split; discriminate. Qed.

(* with termination, the grouping theorem no longer has a hypothesis *)
Corollary rewrite_is_grouping_total pls p :
  rewrite_facts_ok -> exists q, run_plugins pls p = Some (Ok q) /\ grouping (allowed_by pls) p q.
Proof. intros H. destruct (rewrite_total pls p H) as (q & E). exists q. split; [assumption | now apply rewrite_is_grouping]. Qed.
