(* The hand matchers of Model/Sentence.v equal the generic regex matcher of Model/SentenceRegex.v on the patterns
   regenerated from sudachi/src/sentence_detector.rs (Generated/SentenceRegexFacts.v), for all texts. *)
From Coq Require Import List NArith ZArith Bool Arith Lia ZifyBool ZifyNat ZifyN.
From SudachiVerif Require Import Model.Sentence Model.SentenceRegex Proofs.SentenceProofs.
From SudachiVerif Require Generated.SentenceRegexFacts.
Import ListNotations.

Module RX := Generated.SentenceRegexFacts.

Arguments N.add : simpl never.
Arguments N.sub : simpl never.
Arguments N.ltb : simpl never.
Arguments N.leb : simpl never.
Arguments N.eqb : simpl never.
Arguments is_period : simpl never.
Arguments is_dot : simpl never.
Arguments is_comma : simpl never.
Arguments is_an : simpl never.
Arguments is_open : simpl never.
Arguments is_close : simpl never.
Arguments is_cdot : simpl never.
Arguments is_more : simpl never.
Arguments is_prohibited : simpl never.
Arguments is_ws : simpl never.
Arguments in_ranges : simpl never.

(* ================= generic facts about the matcher ================= *)
Lemma existsb_app_bool {A} (f : A -> bool) l1 l2 : existsb f (l1 ++ l2) = existsb f l1 || existsb f l2.
Proof. apply existsb_app. Qed.

Lemma in_ranges_union a b c : in_ranges (cls_union a b) c = in_ranges a c || in_ranges b c.
Proof.
  unfold in_ranges, cls_union, in_list. cbn [fst snd]. rewrite !existsb_app.
  destruct (existsb (N.eqb c) (fst a)), (existsb (N.eqb c) (fst b)), (existsb (in_range c) (snd a)); reflexivity.
Qed.

Lemma one_ext {A} p q s (k : st -> option A) : (forall c, p c = q c) -> one p s k = one q s k.
Proof. intros H. unfold one. destruct (rest s); [reflexivity|]. rewrite H. reflexivity. Qed.

(* a pattern that consumes exactly one character satisfying p *)
Definition onechar (r : re) (p : N -> bool) : Prop := forall A s (k : st -> option A), mt r A s k = one p s k.

Lemma onechar_cls c : onechar (RCls c) (in_ranges c).
Proof. intros A s k. reflexivity. Qed.
Lemma onechar_any : onechar RAny not_lf.
Proof. intros A s k. reflexivity. Qed.
Lemma onechar_ws : onechar RWs is_ws.
Proof. intros A s k. reflexivity. Qed.
Lemma onechar_lit1 a : onechar (RLit [a]) (N.eqb a).
Proof.
  intros A s k. cbn [mt lit]. unfold one. destruct (rest s) as [|c tl]; [reflexivity|].
  destruct (a =? c)%N; reflexivity.
Qed.
Lemma onechar_grp n r p : onechar r p -> onechar (RGrp n r) p.
Proof. intros H A s k. cbn [mt]. apply H. Qed.
Lemma onechar_ext r p q : onechar r p -> (forall c, p c = q c) -> onechar r q.
Proof. intros H E A s k. rewrite H. apply one_ext. assumption. Qed.

(* a|b of one-character patterns is a one-character pattern *)
Lemma onechar_alt a b p q : onechar a p -> onechar b q -> onechar (RAlt a b) (fun c => p c || q c).
Proof.
  intros Ha Hb A s k. cbn [mt]. rewrite Ha, Hb. unfold one. destruct (rest s) as [|c tl]; [reflexivity|].
  destruct (p c), (q c); cbn [orb]; try reflexivity; destruct (k (step s c tl)); reflexivity.
Qed.

(* advance n characters *)
Fixpoint advn (n : nat) (s : st) : st :=
  match n with
  | 0 => s
  | S n' => match rest s with c :: tl => advn n' (step s c tl) | [] => s end
  end.

Lemma advn_rest : forall n s, n <= length (rest s) -> rest (advn n s) = skipn n (rest s) /\ pos (advn n s) = pos s + n.
Proof.
  induction n as [|n IH]; intros s H; cbn [advn skipn]; [split; [reflexivity|lia]|].
  destruct (rest s) as [|c tl] eqn:E; [cbn in H; lia|].
  destruct (IH (step s c tl)) as [A B]; [cbn; cbn in H; lia|]. cbn [rest step pos] in A, B. rewrite A, B. split; [reflexivity|lia].
Qed.

(* the repetition loop of mt, named *)
Definition rep_loop {A} (body : st -> (st -> option A) -> option A) (lo : nat) (k : st -> option A) :=
  fix loop (n cnt : nat) (s : st) {struct n} : option A :=
    match n with
    | 0 => if lo <=? cnt then k s else None
    | S n' =>
        match body s (fun s' => if pos s <? pos s' then loop n' (S cnt) s' else None) with
        | Some x => Some x
        | None => if lo <=? cnt then k s else None
        end
    end.

Lemma mt_cat a b A s (k : st -> option A) : mt (RCat a b) A s k = mt a A s (fun s' => mt b A s' k).
Proof. reflexivity. Qed.

Lemma mt_bot A s (k : st -> option A) : mt RBot A s k = match prev s with None => k s | Some _ => None end.
Proof. reflexivity. Qed.

Lemma mt_atomic r A s (k : st -> option A) :
  mt (RAtomic r) A s k = match mt r st s (fun s' => Some s') with Some s' => k s' | None => None end.
Proof. reflexivity. Qed.

Lemma mt_rep r lo A s k : mt (RRep r lo) A s k = rep_loop (mt r A) lo k (length (rest s)) 0 s.
Proof. reflexivity. Qed.

(* greedy run of characters satisfying p, then k; backing off one character at a time while k fails, never below lo *)
Fixpoint greedy {A} (p : N -> bool) (k : st -> option A) (lo : nat) (s : st) (t : list N) : option A :=
  match t with
  | c :: tl =>
      if p c then
        match greedy p k (lo - 1) (step s c tl) tl with
        | Some x => Some x
        | None => if lo =? 0 then k s else None
        end
      else if lo =? 0 then k s else None
  | [] => if lo =? 0 then k s else None
  end.

Lemma rep_loop_one {A} body p lo (k : st -> option A) :
  (forall s k', body s k' = one p s k') ->
  forall n cnt s, length (rest s) <= n -> rep_loop body lo k n cnt s = greedy p k (lo - cnt) s (rest s).
Proof.
  intros Hb. induction n as [|n IH]; intros cnt s Hn.
  - destruct (rest s) as [|c tl] eqn:E; [|cbn in Hn; lia]. cbn [rep_loop greedy].
    destruct (lo <=? cnt) eqn:E1, (lo - cnt =? 0) eqn:E2; try reflexivity; lia.
  - cbn [rep_loop]. rewrite Hb. unfold one. destruct (rest s) as [|c tl] eqn:E.
    + cbn [greedy]. destruct (lo <=? cnt) eqn:E1, (lo - cnt =? 0) eqn:E2; try reflexivity; lia.
    + cbn [greedy]. destruct (p c) eqn:Ep.
      * cbn [pos step]. assert (Hlt : (pos s <? S (pos s)) = true) by lia. rewrite Hlt.
        rewrite IH by (cbn [rest step]; cbn in Hn; lia). cbn [rest step].
        replace (lo - S cnt) with (lo - cnt - 1) by lia.
        destruct (greedy p k (lo - cnt - 1) (step s c tl) tl); [reflexivity|].
        destruct (lo <=? cnt) eqn:E1, (lo - cnt =? 0) eqn:E2; try reflexivity; lia.
      * destruct (lo <=? cnt) eqn:E1, (lo - cnt =? 0) eqn:E2; try reflexivity; lia.
Qed.

Lemma mt_rep_one r p lo A s (k : st -> option A) : onechar r p -> mt (RRep r lo) A s k = greedy p k lo s (rest s).
Proof.
  intros H. rewrite mt_rep. rewrite (rep_loop_one (mt r A) p lo k (fun s0 k' => H A s0 k')) by lia.
  rewrite Nat.sub_0_r. reflexivity.
Qed.

(* when the rest of the pattern cannot fail the run is simply the longest one *)
Lemma greedy_total {A} p (k : st -> option A) : (forall s', k s' <> None) ->
  forall t lo s, rest s = t ->
    greedy p k lo s t = if lo <=? span p t then k (advn (span p t) s) else None.
Proof.
  intros Hk. induction t as [|c tl IH]; intros lo s Hs; cbn [greedy span].
  - cbn [advn]. destruct (lo =? 0) eqn:E1, (lo <=? 0) eqn:E2; try reflexivity; lia.
  - destruct (p c) eqn:Ep.
    + rewrite (IH (lo - 1) (step s c tl)) by reflexivity. cbn [advn]. rewrite Hs.
      destruct (lo - 1 <=? span p tl) eqn:E1.
      * destruct (k (advn (span p tl) (step s c tl))) eqn:E2; [|exfalso; eapply Hk; eassumption].
        destruct (lo <=? S (span p tl)) eqn:E3; [reflexivity|lia].
      * destruct (lo =? 0) eqn:E2; [lia|]. destruct (lo <=? S (span p tl)) eqn:E3; [lia|reflexivity].
    + cbn [advn]. destruct (lo =? 0) eqn:E1, (lo <=? 0) eqn:E2; try reflexivity; lia.
Qed.

Lemma span_ext p q : (forall c, p c = q c) -> forall t, span p t = span q t.
Proof. intros H. induction t as [|c tl IH]; [reflexivity|]. cbn [span]. rewrite H, IH. reflexivity. Qed.

(* r{lo,} of a one-character pattern at the end of the pattern (or before something that cannot fail) *)
Lemma mt_rep_one_end r p lo s : onechar r p ->
  mt (RRep r lo) st s (fun s' => Some s') = if lo <=? span p (rest s) then Some (advn (span p (rest s)) s) else None.
Proof.
  intros H. rewrite (mt_rep_one r p lo st s _ H). apply greedy_total; [discriminate|reflexivity].
Qed.

Lemma advn_nil : forall n s, rest s = [] -> advn n s = s.
Proof. destruct n; intros s H; cbn [advn]; [reflexivity|]. rewrite H. reflexivity. Qed.

Lemma advn_add : forall a b s, advn (a + b) s = advn b (advn a s).
Proof.
  induction a as [|a IH]; intros b s; [reflexivity|]. cbn [Nat.add advn].
  destruct (rest s) as [|c tl] eqn:E; [|apply IH]. symmetry. apply advn_nil. assumption.
Qed.

Definition pos_of (o : option st) : option nat := match o with Some s' => Some (pos s') | None => None end.

Lemma re_match_at_eq r pv t : re_match_at r pv t = pos_of (mt r st (mkSt pv 0 t) (fun s' => Some s')).
Proof. reflexivity. Qed.

(* ================= literals and alternations of literals ================= *)
Lemma lit_spec : forall w s, lit w s = if starts_with w (rest s) then Some (advn (length w) s) else None.
Proof.
  induction w as [|a w IH]; intros s; cbn [lit starts_with length advn]; [reflexivity|].
  destruct (rest s) as [|c tl] eqn:E; [reflexivity|]. destruct (a =? c)%N; [|reflexivity].
  rewrite IH. reflexivity.
Qed.

Lemma starts_with_both : forall a b t, starts_with a t = true -> starts_with b t = true -> length a <= length b ->
  starts_with a b = true.
Proof.
  induction a as [|x a IH]; intros b t Ha Hb Hl; [reflexivity|].
  destruct b as [|y b]; [cbn in Hl; lia|]. destruct t as [|c t]; [discriminate|].
  cbn [starts_with] in *. destruct (x =? c)%N eqn:E1; [|discriminate]. destruct (y =? c)%N eqn:E2; [|discriminate].
  assert (x = y) by lia. subst. rewrite N.eqb_refl. apply (IH b t); try assumption. cbn in Hl. lia.
Qed.

Definition tags_ok (L : list text) : Prop :=
  (forall w, In w L -> w <> []) /\
  (forall a b, In a L -> In b L -> starts_with a b = true -> length a = length b).

Definition tags_ok_b (L : list text) : bool :=
  forallb (fun w => match w with [] => false | _ :: _ => true end) L
  && forallb (fun w => forallb (list_eq_or_not_prefix w) L) L.

Lemma tags_ok_of_b L : tags_ok_b L = true -> tags_ok L.
Proof.
  unfold tags_ok_b. rewrite andb_true_iff, !forallb_forall. intros [H1 H2]. split.
  - intros w Hw E. specialize (H1 _ Hw). subst. discriminate.
  - intros a b Ha Hb Hs. specialize (H2 _ Ha). rewrite forallb_forall in H2. specialize (H2 _ Hb).
    unfold list_eq_or_not_prefix in H2. rewrite Hs in H2. lia.
Qed.

(* with tags none of which is a proper prefix of another the alternation takes the one tag that matches *)
Lemma mt_alt_of_lits A : forall ws w s (k : st -> option A),
  (forall a b, In a (w :: ws) -> In b (w :: ws) -> starts_with a b = true -> length a = length b) ->
  mt (alt_of_lits w ws) A s k =
  match first_tag (w :: ws) (rest s) with Some l => k (advn l s) | None => None end.
Proof.
  induction ws as [|w' tl IH]; intros w s k Hpf.
  - cbn [alt_of_lits mt first_tag]. rewrite lit_spec. destruct (starts_with w (rest s)); reflexivity.
  - cbn [alt_of_lits mt]. rewrite lit_spec.
    change (first_tag (w :: w' :: tl) (rest s)) with (if starts_with w (rest s) then Some (length w) else first_tag (w' :: tl) (rest s)).
    rewrite IH by (intros a b Ha Hb; apply Hpf; right; assumption).
    destruct (starts_with w (rest s)) eqn:Ew; [|reflexivity].
    destruct (k (advn (length w) s)) eqn:Ek; [reflexivity|].
    destruct (first_tag (w' :: tl) (rest s)) as [l|] eqn:Ef; [|reflexivity].
    destruct (first_tag_spec _ _ _ Ef) as [v [V1 [V2 [V3 V4]]]].
    assert (Hv : starts_with v (rest s) = true).
    { clear -V2 V3 V4. subst l. revert V3 V4. generalize (rest s). induction v as [|x v IHv]; intros t V3 V4; [reflexivity|].
      destruct t as [|c t]; [cbn in V4; lia|]. cbn [length firstn] in V3. inversion V3; subst. cbn [starts_with].
      rewrite N.eqb_refl. rewrite H1. apply IHv; [assumption|cbn in V4; lia]. }
    assert (length v = length w).
    { destruct (le_lt_dec (length v) (length w)) as [Hle|Hgt].
      - apply Hpf; [right; assumption|left; reflexivity|]. eapply starts_with_both; eassumption.
      - symmetry. apply Hpf; [left; reflexivity|right; assumption|]. eapply starts_with_both; try eassumption. lia. }
    replace l with (length w) by lia. assumption.
Qed.

Lemma tags_run_le : forall f t, fst (tags_run f t) <= snd (tags_run f t).
Proof.
  induction f as [|f IH]; intros t; cbn [tags_run]; [cbn; lia|].
  destruct (first_tag F.BR_TAGS t) as [[|l]|]; cbn [fst snd]; try lia. specialize (IH (skipn (S l) t)). lia.
Qed.

(* (tag|...){lo,} at the end of the pattern *)
Lemma rep_loop_tags body lo :
  (forall s (k' : st -> option st), body s k' = match first_tag F.BR_TAGS (rest s) with Some l => k' (advn l s) | None => None end) ->
  forall n cnt s,
    rep_loop body lo (fun s' => Some s') n cnt s =
    if lo <=? cnt + fst (tags_run n (rest s)) then Some (advn (snd (tags_run n (rest s))) s) else None.
Proof.
  intros Hb. induction n as [|n IH]; intros cnt s.
  - cbn [rep_loop tags_run fst snd advn]. rewrite Nat.add_0_r. reflexivity.
  - cbn [rep_loop tags_run]. rewrite Hb. destruct (first_tag F.BR_TAGS (rest s)) as [[|l]|] eqn:Ef.
    + cbn [advn fst snd]. assert (Hlt : (pos s <? pos s) = false) by lia. rewrite Hlt, Nat.add_0_r. reflexivity.
    + destruct (first_tag_spec _ _ _ Ef) as [v [V1 [V2 [V3 V4]]]].
      destruct (advn_rest (S l) s V4) as [A1 A2].
      assert (Hlt : (pos s <? pos (advn (S l) s)) = true) by lia. rewrite Hlt.
      rewrite IH, A1. cbn [fst snd]. rewrite advn_add.
      destruct (lo <=? S cnt + fst (tags_run n (skipn (S l) (rest s)))) eqn:E1.
      * destruct (lo <=? cnt + S (fst (tags_run n (skipn (S l) (rest s))))) eqn:E2; [reflexivity|lia].
      * destruct (lo <=? cnt) eqn:E2; [lia|]. destruct (lo <=? cnt + S (fst (tags_run n (skipn (S l) (rest s))))) eqn:E3; [lia|reflexivity].
    + cbn [advn fst snd]. rewrite Nat.add_0_r. reflexivity.
Qed.

Lemma first_tag_head : forall tags t l, first_tag tags t = Some (S l) ->
  match t with c :: _ => existsb (fun w => match w with a :: _ => (a =? c)%N | [] => false end) tags = true | [] => False end.
Proof.
  intros tags t l H. destruct (first_tag_spec _ _ _ H) as [v [V1 [V2 [V3 V4]]]].
  destruct t as [|c t]; [cbn in V4; lia|]. apply existsb_exists. exists v. split; [assumption|].
  destruct v as [|a v]; [discriminate|]. cbn in V3. inversion V3. lia.
Qed.

(* ================= SENTENCE_BREAKER ================= *)
Definition alt_of_tags (L : list text) : re := match L with [] => RCls ([], []) | w :: ws => alt_of_lits w ws end.

Definition EXT_RE : re := RRep (RCls (cls_union F.DOT F.PERIODS)) 0.
Definition A_PERIOD : re := RCls F.PERIODS.
Definition A_CDOTS : re := RAtomic (RRep (RLit [F.CDOT]) F.CDOTS_MIN).
Definition A_DOT : re := RCat (RNotBehind F.ALPHABET_OR_NUMBER) (RCat (RCls F.DOT) (RNotAhead (cls_union F.ALPHABET_OR_NUMBER F.COMMA))).
Definition BR_RE : re := RRep (RGrp 2 (alt_of_tags F.BR_TAGS)) F.BR_MIN.
(* the AST the hand matcher breaker_len was written for *)
Definition BREAKER_EXPECTED : re :=
  RAlt (RCat (RGrp 1 (RAlt A_PERIOD (RAlt A_CDOTS A_DOT))) EXT_RE) BR_RE.

Definition K_ext (s' : st) : option st := mt EXT_RE st s' (fun x => Some x).

Lemma onechar_more : onechar (RCls (cls_union F.DOT F.PERIODS)) is_more.
Proof. eapply onechar_ext; [apply onechar_cls|]. intros c. rewrite in_ranges_union. reflexivity. Qed.

Lemma K_ext_eq s' : K_ext s' = Some (advn (span is_more (rest s')) s').
Proof. unfold K_ext, EXT_RE. rewrite (mt_rep_one_end _ _ _ _ onechar_more). reflexivity. Qed.

Lemma pos_K_ext s' : pos_of (K_ext s') = Some (pos s' + span is_more (rest s')).
Proof.
  rewrite K_ext_eq. cbn [pos_of]. destruct (advn_rest (span is_more (rest s')) s' (span_le _ _)) as [_ B]. rewrite B. reflexivity.
Qed.

Lemma P_period pv t : pos_of (mt A_PERIOD st (mkSt pv 0 t) K_ext) = m_period t.
Proof.
  unfold A_PERIOD. cbn [mt]. unfold one, m_period. cbn [rest]. destruct t as [|c r]; [reflexivity|].
  change (in_ranges F.PERIODS c) with (is_period c). destruct (is_period c); [|reflexivity].
  rewrite pos_K_ext. cbn [pos step rest]. reflexivity.
Qed.

Lemma onechar_cdot : onechar (RLit [F.CDOT]) is_cdot.
Proof. eapply onechar_ext; [apply onechar_lit1|]. intros c. unfold is_cdot. apply N.eqb_sym. Qed.

Lemma P_cdots pv t : 1 <= F.CDOTS_MIN -> pos_of (mt A_CDOTS st (mkSt pv 0 t) K_ext) = m_cdots t.
Proof.
  intros Hmin. unfold A_CDOTS. rewrite mt_atomic. rewrite (mt_rep_one_end _ _ _ _ onechar_cdot). cbn [rest]. unfold m_cdots.
  destruct t as [|c r]; [cbn [span]; destruct (F.CDOTS_MIN <=? 0) eqn:E; [lia|reflexivity]|].
  destruct (is_cdot c) eqn:Ec.
  - set (t := c :: r). set (n := span is_cdot t).
    destruct (F.CDOTS_MIN <=? n); [|reflexivity].
    rewrite pos_K_ext. destruct (advn_rest n (mkSt pv 0 t) (span_le _ _)) as [A B]. cbn [rest pos] in A, B. rewrite A, B. reflexivity.
  - cbn [span]. rewrite Ec. destruct (F.CDOTS_MIN <=? 0) eqn:E; [lia|reflexivity].
Qed.

Lemma P_dot pv t : pos_of (mt A_DOT st (mkSt pv 0 t) K_ext) = m_dot pv t.
Proof.
  unfold A_DOT, m_dot. cbn [mt prev]. unfold one. cbn [rest].
  destruct t as [|c r].
  - destruct pv as [p|]; [destruct (in_ranges F.ALPHABET_OR_NUMBER p)|]; reflexivity.
  - change (in_ranges F.DOT c) with (is_dot c).
    assert (Hcore : pos_of (if is_dot c then match rest (step (mkSt pv 0 (c :: r)) c r) with
                                 | d :: _ => if in_ranges (cls_union F.ALPHABET_OR_NUMBER F.COMMA) d then None else K_ext (step (mkSt pv 0 (c :: r)) c r)
                                 | [] => K_ext (step (mkSt pv 0 (c :: r)) c r) end else None)
                    = if is_dot c then if (match r with d :: _ => is_an d || is_comma d | [] => false end) then None else Some (S (span is_more r)) else None).
    { destruct (is_dot c); [|reflexivity]. cbn [rest step]. destruct r as [|d r'].
      - rewrite pos_K_ext. reflexivity.
      - rewrite in_ranges_union. change (in_ranges F.ALPHABET_OR_NUMBER d) with (is_an d). change (in_ranges F.COMMA d) with (is_comma d).
        destruct (is_an d || is_comma d); [reflexivity|]. rewrite pos_K_ext. reflexivity. }
    destruct pv as [p|].
    + change (in_ranges F.ALPHABET_OR_NUMBER p) with (is_an p). destruct (is_an p).
      * destruct (is_dot c); reflexivity.
      * exact Hcore.
    + exact Hcore.
Qed.

Lemma P_br pv t : tags_ok F.BR_TAGS -> 1 <= F.BR_MIN ->
  pos_of (mt BR_RE st (mkSt pv 0 t) (fun s' => Some s')) = m_br t.
Proof.
  intros [Hne Hpf] Hmin. unfold BR_RE. rewrite mt_rep. cbn [rest].
  rewrite (rep_loop_tags (mt (RGrp 2 (alt_of_tags F.BR_TAGS)) st) F.BR_MIN).
  2:{ intros s k'. cbn [mt]. unfold alt_of_tags. destruct F.BR_TAGS as [|w ws] eqn:E; [cbn [mt first_tag]; unfold one; destruct (rest s); reflexivity|].
      apply mt_alt_of_lits. assumption. }
  cbn [rest Nat.add]. unfold m_br.
  pose proof (tags_run_le (length t) t) as Hle.
  destruct t as [|c r].
  - cbn [length tags_run fst]. destruct (F.BR_MIN <=? 0) eqn:E; [lia|reflexivity].
  - set (t := c :: r) in *.
    destruct (existsb (fun w => match w with a :: _ => (a =? c)%N | [] => false end) F.BR_TAGS) eqn:Eg.
    + destruct (F.BR_MIN <=? fst (tags_run (length t) t)) eqn:E; [|reflexivity].
      pose proof (tags_run_spec (length t) t) as [ts [T1 [T2 [T3 T4]]]].
      destruct (advn_rest (snd (tags_run (length t) t)) (mkSt pv 0 t) T4) as [_ B]. cbn [pos_of]. rewrite B. cbn [pos].
      destruct (snd (tags_run (length t) t)) eqn:E2; [lia|reflexivity].
    + assert (Hz : tags_run (length t) t = (0, 0)).
      { unfold t at 1. cbn [length tags_run]. destruct (first_tag F.BR_TAGS t) as [[|l]|] eqn:Ef; try reflexivity.
        apply first_tag_head in Ef. unfold t in Ef. congruence. }
      rewrite Hz. cbn [fst]. destruct (F.BR_MIN <=? 0) eqn:E; [lia|reflexivity].
Qed.

Lemma pos_of_match (a b : option st) :
  pos_of (match a with Some x => Some x | None => b end) = or_else (pos_of a) (pos_of b).
Proof. destruct a; reflexivity. Qed.

Lemma breaker_len_is_pattern pv t : tags_ok F.BR_TAGS -> 1 <= F.BR_MIN -> 1 <= F.CDOTS_MIN ->
  breaker_len pv t = re_match_at BREAKER_EXPECTED pv t.
Proof.
  intros Ht Hb Hc. rewrite re_match_at_eq. unfold BREAKER_EXPECTED. cbn [mt].
  change (fun s' : st => mt EXT_RE st s' (fun s'0 : st => Some s'0)) with K_ext.
  rewrite !pos_of_match. rewrite P_period, (P_cdots pv t Hc), P_dot, (P_br pv t Ht Hb).
  unfold breaker_len, or_else. destruct (m_period t), (m_cdots t), (m_dot pv t); reflexivity.
Qed.

Lemma candidates_is_find_iter : tags_ok F.BR_TAGS -> 1 <= F.BR_MIN -> 1 <= F.CDOTS_MIN ->
  forall t skip pv i, scan skip pv i t = re_find_iter_ends BREAKER_EXPECTED skip pv i t.
Proof.
  intros Ht Hb Hc. induction t as [|c tl IH]; intros skip pv i; [reflexivity|].
  cbn [scan re_find_iter_ends]. destruct skip; [|apply IH].
  rewrite <- (breaker_len_is_pattern pv (c :: tl) Ht Hb Hc).
  destruct (breaker_len pv (c :: tl)) as [[|m]|]; rewrite ?IH; reflexivity.
Qed.

(* ================= patterns anchored at the start: search only succeeds at position 0 ================= *)
Lemma match_bot_later x c t : re_match_at (RCat RBot x) (Some c) t = None.
Proof. reflexivity. Qed.

Lemma search_bot_later x : forall t c i, re_search (RCat RBot x) (Some c) i t = None.
Proof.
  induction t as [|d tl IH]; intros c i; cbn [re_search]; rewrite match_bot_later; [reflexivity|apply IH].
Qed.

Lemma find_bot x t : re_find (RCat RBot x) t =
  match re_match_at (RCat RBot x) None t with Some m => Some (0, m) | None => None end.
Proof.
  unfold re_find. destruct t as [|c tl]; cbn [re_search]; destruct (re_match_at (RCat RBot x) None _); try reflexivity.
  apply search_bot_later.
Qed.

(* ---- PROHIBITED_BOS ---- *)
Definition PROHIBITED_EXPECTED : re :=
  RCat RBot (RRep (RGrp 1 (RCls (cls_union F.CLOSE_PARENTHESIS (cls_union F.COMMA F.PERIODS)))) 1).

Lemma onechar_prohibited : onechar (RGrp 1 (RCls (cls_union F.CLOSE_PARENTHESIS (cls_union F.COMMA F.PERIODS)))) is_prohibited.
Proof.
  apply onechar_grp. eapply onechar_ext; [apply onechar_cls|]. intros c. rewrite !in_ranges_union.
  unfold is_prohibited, is_close, is_comma, is_period. rewrite orb_assoc. reflexivity.
Qed.

(* prohibited_bos(s): `if let Some(mat) = PROHIBITED_BOS.find(s) { mat.end() } else { 0 }` *)
Lemma prohibited_bos_is_pattern t :
  prohibited_bos t = match re_find PROHIBITED_EXPECTED t with Some (_, e) => e | None => 0 end.
Proof.
  unfold PROHIBITED_EXPECTED. rewrite find_bot. rewrite re_match_at_eq. rewrite mt_cat, mt_bot. cbn [prev].
  rewrite (mt_rep_one_end _ _ _ _ onechar_prohibited). cbn [rest]. unfold prohibited_bos.
  destruct (1 <=? span is_prohibited t) eqn:E.
  - cbn [pos_of]. destruct (advn_rest (span is_prohibited t) (mkSt None 0 t) (span_le _ _)) as [_ B]. rewrite B. reflexivity.
  - cbn [pos_of]. lia.
Qed.

(* ---- ITEMIZE_HEADER ---- *)
Definition ITEMIZE_EXPECTED : re :=
  RCat RBot (RCat (RGrp 1 (RCls F.ALPHABET_OR_NUMBER)) (RCat (RGrp 2 (RCls F.DOT)) REot)).

Lemma itemize_header_is_pattern s : itemize_header s = re_is_match ITEMIZE_EXPECTED s.
Proof.
  unfold re_is_match, ITEMIZE_EXPECTED. rewrite find_bot. rewrite re_match_at_eq. cbn [mt prev]. unfold one, itemize_header. cbn [rest].
  destruct s as [|a [|d [|x tl]]]; try reflexivity.
  - change (in_ranges F.ALPHABET_OR_NUMBER a) with (is_an a). destruct (is_an a); reflexivity.
  - change (in_ranges F.ALPHABET_OR_NUMBER a) with (is_an a). cbn [rest step]. change (in_ranges F.DOT d) with (is_dot d).
    destruct (is_an a), (is_dot d); reflexivity.
  - change (in_ranges F.ALPHABET_OR_NUMBER a) with (is_an a). cbn [rest step]. change (in_ranges F.DOT d) with (is_dot d).
    destruct (is_an a), (is_dot d); reflexivity.
Qed.

(* ---- EOS_ITEMIZE_HEADER ---- *)
Definition EOS_ITEMIZE_EXPECTED : re :=
  RCat (RGrp 1 (RCls F.ALPHABET_OR_NUMBER)) (RCat (RGrp 2 (RCls F.DOT)) REot).

Lemma eos_itemize_at pv t : re_match_at EOS_ITEMIZE_EXPECTED pv t =
  match t with [a; d] => if is_an a && is_dot d then Some 2 else None | _ => None end.
Proof.
  rewrite re_match_at_eq. unfold EOS_ITEMIZE_EXPECTED. cbn [mt]. unfold one. cbn [rest].
  destruct t as [|a [|d [|x tl]]]; try reflexivity;
    change (in_ranges F.ALPHABET_OR_NUMBER a) with (is_an a); destruct (is_an a); try reflexivity;
    cbn [rest step]; change (in_ranges F.DOT d) with (is_dot d); destruct (is_dot d); reflexivity.
Qed.

Lemma ends_an_dot_is_search : forall t pv i,
  ends_an_dot t = match re_search EOS_ITEMIZE_EXPECTED pv i t with Some _ => true | None => false end.
Proof.
  induction t as [|a tl IH]; intros pv i.
  - cbn [re_search ends_an_dot]. rewrite eos_itemize_at. reflexivity.
  - cbn [re_search]. rewrite eos_itemize_at. destruct tl as [|d tl'].
    + cbn [ends_an_dot re_search]. rewrite eos_itemize_at. reflexivity.
    + destruct tl' as [|x tl''].
      * cbn [ends_an_dot]. destruct (is_an a && is_dot d); [reflexivity|].
        cbn [re_search]. rewrite !eos_itemize_at. reflexivity.
      * rewrite <- (IH (Some a) (S i)). reflexivity.
Qed.

Lemma ends_an_dot_is_pattern t : ends_an_dot t = re_is_match EOS_ITEMIZE_EXPECTED t.
Proof. unfold re_is_match, re_find. apply ends_an_dot_is_search. Qed.

(* ---- PARENTHESIS ---- *)
Definition PARENTHESIS_EXPECTED : re := RAlt (RGrp 1 (RCls F.OPEN_PARENTHESIS)) (RGrp 2 (RCls F.CLOSE_PARENTHESIS)).

Lemma paren_at pv c tl :
  re_match_at (RAlt (RGrp 1 (RCls F.OPEN_PARENTHESIS)) (RGrp 2 (RCls F.CLOSE_PARENTHESIS))) pv (c :: tl)
  = if is_open c || is_close c then Some 1 else None.
Proof.
  rewrite re_match_at_eq. cbn [mt]. unfold one. cbn [rest].
  change (in_ranges F.OPEN_PARENTHESIS c) with (is_open c). change (in_ranges F.CLOSE_PARENTHESIS c) with (is_close c).
  destruct (is_open c), (is_close c); reflexivity.
Qed.

Lemma paren_open_at pv c tl :
  re_match_at (RGrp 1 (RCls F.OPEN_PARENTHESIS)) pv (c :: tl) = if is_open c then Some 1 else None.
Proof.
  rewrite re_match_at_eq. cbn [mt]. unfold one. cbn [rest].
  change (in_ranges F.OPEN_PARENTHESIS c) with (is_open c). destruct (is_open c); reflexivity.
Qed.

Lemma plevel_is_alt_level : forall t lv pv,
  plevel lv t = re_alt_level (RGrp 1 (RCls F.OPEN_PARENTHESIS)) (RGrp 2 (RCls F.CLOSE_PARENTHESIS)) lv 0 pv t.
Proof.
  induction t as [|c tl IH]; intros lv pv; [reflexivity|].
  cbn [plevel re_alt_level]. rewrite paren_at, paren_open_at.
  destruct (is_open c) eqn:Eo; cbn [orb]; [apply IH|]. destruct (is_close c); apply IH.
Qed.

Lemma plevel_is_pattern t : Some (plevel 0 t) = re_paren_level PARENTHESIS_EXPECTED t.
Proof. unfold PARENTHESIS_EXPECTED, re_paren_level. f_equal. apply plevel_is_alt_level. Qed.

(* ---- QUOTE_MARKER ---- *)
(* l1|l2|...|[cls] of single characters *)
Fixpoint alt_chars_then (cs : list N) (last : re) : re :=
  match cs with
  | [] => last
  | c :: tl => RAlt (RLit [c]) (alt_chars_then tl last)
  end.

Definition alt_of_words (L : list text) : re := match L with [] => RCls ([], []) | w :: ws => alt_of_lits w ws end.

Definition QUOTE_EXPECTED : re :=
  RCat (RGrp 1 (alt_chars_then F.QUOTE_FIRST (RCls F.CLOSE_PARENTHESIS))) (RGrp 2 (alt_of_words F.QUOTE_SECOND)).

Lemma onechar_alt_chars cs last q : onechar last q -> onechar (alt_chars_then cs last) (fun c => in_list cs c || q c).
Proof.
  intros Hq. induction cs as [|a tl IH]; cbn [alt_chars_then].
  - eapply onechar_ext; [exact Hq|]. reflexivity.
  - eapply onechar_ext; [apply onechar_alt; [apply onechar_lit1|exact IH]|].
    intros c. cbn beta. unfold in_list. cbn [existsb]. rewrite (N.eqb_sym a c). rewrite orb_assoc. reflexivity.
Qed.

(* an alternation of literals before a rest that cannot fail: some literal is a prefix *)
Lemma alt_of_lits_some : forall ws w s,
  match mt (alt_of_lits w ws) st s (fun s' => Some s') with Some _ => true | None => false end
  = existsb (fun v => starts_with v (rest s)) (w :: ws).
Proof.
  induction ws as [|w' tl IH]; intros w s.
  - cbn [alt_of_lits mt existsb]. rewrite lit_spec. destruct (starts_with w (rest s)); reflexivity.
  - cbn [alt_of_lits mt]. rewrite lit_spec. change (existsb (fun v => starts_with v (rest s)) (w :: w' :: tl))
      with (starts_with w (rest s) || existsb (fun v => starts_with v (rest s)) (w' :: tl)).
    destruct (starts_with w (rest s)); [reflexivity|]. cbn [orb]. apply IH.
Qed.

(* QUOTE_MARKER.find(&s[eos - last_char_len..]) with mat.start() == 0, the slice being l :: rest *)
Lemma quote_at_is_pattern l rest :
  quote_at l rest = match re_match_at QUOTE_EXPECTED None (l :: rest) with Some _ => true | None => false end.
Proof.
  rewrite re_match_at_eq. unfold QUOTE_EXPECTED. cbn [mt].
  rewrite (onechar_alt_chars F.QUOTE_FIRST (RCls F.CLOSE_PARENTHESIS) _ (onechar_cls _)).
  unfold one, quote_at. cbn [SentenceRegex.rest]. change (in_ranges F.CLOSE_PARENTHESIS l) with (is_close l).
  destruct (in_list F.QUOTE_FIRST l || is_close l); [|reflexivity]. cbn [andb].
  unfold alt_of_words. destruct F.QUOTE_SECOND as [|w ws].
  - cbn [mt existsb]. unfold one. cbn [SentenceRegex.rest step]. destruct rest; reflexivity.
  - pose proof (alt_of_lits_some ws w (step (mkSt None 0 (l :: rest)) l rest)) as H. cbn [SentenceRegex.rest step] in H.
    rewrite <- H. destruct (mt (alt_of_lits w ws) st _ _); reflexivity.
Qed.

(* ================= SPACES = .+\s+ ================= *)
Definition SPACES_EXPECTED : re := RCat (RRep RAny 1) (RRep RWs 1).

(* the rest of the pattern after `.+` *)
Definition K_ws (s' : st) : option st := mt (RRep RWs 1) st s' (fun x => Some x).

Lemma K_ws_eq s' : K_ws s' = if 1 <=? span is_ws (rest s') then Some (advn (span is_ws (rest s')) s') else None.
Proof. unfold K_ws. apply (mt_rep_one_end _ _ _ _ onechar_ws). Qed.

Lemma pos_K_ws s' : pos_of (K_ws s') = if 1 <=? span is_ws (rest s') then Some (pos s' + span is_ws (rest s')) else None.
Proof.
  rewrite K_ws_eq. destruct (1 <=? span is_ws (rest s')); [|reflexivity]. cbn [pos_of].
  destruct (advn_rest (span is_ws (rest s')) s' (span_le _ _)) as [_ B]. rewrite B. reflexivity.
Qed.

Lemma lf_is_ws : is_ws 10 = true.
Proof. vm_compute. reflexivity. Qed.

Lemma not_lf_false c : not_lf c = false -> c = 10%N.
Proof. unfold not_lf. intros H. lia. Qed.

(* `.*` (what is left of `.+` after its first character) followed by \s+ *)
Definition G0 (s : st) (t : list N) : option st := greedy not_lf K_ws 0 s t.

Lemma G0_ws s d tl : rest s = d :: tl -> is_ws d = true -> G0 s (d :: tl) <> None.
Proof.
  intros Hs Hd. unfold G0. cbn [greedy].
  assert (HK : K_ws s <> None).
  { rewrite K_ws_eq, Hs. cbn [span]. rewrite Hd. cbn. discriminate. }
  destruct (not_lf d).
  - destruct (greedy not_lf K_ws (0 - 1) (step s d tl) tl); [discriminate|]. cbn. assumption.
  - cbn. assumption.
Qed.

Lemma line_scan_is_G0 : forall t s acc, rest s = t ->
  or_else (pos_of (G0 s t)) acc = line_scan (pos s) t acc.
Proof.
  induction t as [|c tl IH]; intros s acc Hs.
  - unfold G0. cbn [greedy line_scan]. cbn [Nat.eqb]. rewrite pos_K_ws, Hs. reflexivity.
  - cbn [line_scan]. unfold G0. cbn [greedy].
    destruct (c =? 10)%N eqn:Ec.
    + assert (c = 10%N) by lia. subst c. unfold not_lf. cbn [negb]. rewrite N.eqb_refl. cbn [negb Nat.eqb].
      rewrite pos_K_ws, Hs. cbn [span]. rewrite lf_is_ws. cbn [Nat.leb]. reflexivity.
    + assert (Hnl : not_lf c = true) by (unfold not_lf; rewrite Ec; reflexivity). rewrite Hnl.
      change (greedy not_lf K_ws (0 - 1) (step s c tl) tl) with (G0 (step s c tl) tl).
      pose proof (IH (step s c tl) (if is_ws c then Some (S (pos s)) else acc) eq_refl) as HIH. cbn [pos step] in HIH.
      rewrite <- HIH. clear HIH.
      destruct (G0 (step s c tl) tl) as [x|] eqn:EG; [reflexivity|]. cbn [pos_of or_else Nat.eqb].
      rewrite pos_K_ws, Hs. cbn [span].
      destruct (is_ws c) eqn:Ew; [|reflexivity].
      assert (Hsp : span is_ws tl = 0).
      { destruct tl as [|d tl']; [reflexivity|]. cbn [span]. destruct (is_ws d) eqn:Ed; [|reflexivity].
        exfalso. eapply (G0_ws (step s c (d :: tl')) d tl'); [reflexivity|exact Ed|exact EG]. }
      rewrite Hsp. cbn [Nat.leb or_else]. f_equal. lia.
Qed.

(* one attempt of the engine at the head of t *)
Lemma spaces_at pv t :
  re_match_at SPACES_EXPECTED pv t =
  match t with
  | c :: r => if (c =? 10)%N then None else line_scan 1 r None
  | [] => None
  end.
Proof.
  rewrite re_match_at_eq. unfold SPACES_EXPECTED. rewrite mt_cat.
  change (fun s' : st => mt (RRep RWs 1) st s' (fun s'0 : st => Some s'0)) with K_ws.
  rewrite (mt_rep_one RAny not_lf 1 st _ K_ws onechar_any). cbn [rest].
  destruct t as [|c r]; [reflexivity|]. cbn [greedy]. unfold not_lf at 1.
  destruct (c =? 10)%N eqn:Ec; cbn [negb]; [reflexivity|].
  change (greedy not_lf K_ws (1 - 1) (step (mkSt pv 0 (c :: r)) c r) r) with (G0 (step (mkSt pv 0 (c :: r)) c r) r).
  pose proof (line_scan_is_G0 r (step (mkSt pv 0 (c :: r)) c r) None eq_refl) as H. cbn [pos step] in H.
  rewrite <- H. destruct (G0 _ r); reflexivity.
Qed.

Lemma line_scan_shift : forall t i j acc,
  line_scan (i + j) t (option_map (Nat.add i) acc) = option_map (Nat.add i) (line_scan j t acc).
Proof.
  induction t as [|c tl IH]; intros i j acc; cbn [line_scan]; [reflexivity|].
  destruct (c =? 10)%N; [cbn [option_map]; f_equal; lia|].
  replace (S (i + j)) with (i + S j) by lia.
  replace (if is_ws c then Some (i + S j) else option_map (Nat.add i) acc)
    with (option_map (Nat.add i) (if is_ws c then Some (S j) else acc)) by (destruct (is_ws c); reflexivity).
  apply IH.
Qed.

Lemma line_scan_keeps_acc : forall t n a, a <> None -> line_scan n t a <> None.
Proof.
  induction t as [|d tl IH]; intros n a Ha; cbn [line_scan]; [assumption|].
  destruct (d =? 10)%N; [discriminate|]. apply IH. destruct (is_ws d); [discriminate|assumption].
Qed.

Lemma line_scan_none : forall t j acc, line_scan j t acc = None -> Forall (fun c => is_ws c = false) t.
Proof.
  induction t as [|c tl IH]; intros j acc H; [constructor|]. cbn [line_scan] in H.
  destruct (c =? 10)%N; [discriminate|]. destruct (is_ws c) eqn:Ew.
  - exfalso. eapply line_scan_keeps_acc; [|exact H]. discriminate.
  - constructor; [assumption|]. eapply IH; eassumption.
Qed.

Lemma line_scan_no_ws : forall t j, Forall (fun c => is_ws c = false) t -> line_scan j t None = None.
Proof.
  induction t as [|c tl IH]; intros j H; [reflexivity|]. inversion H as [|? ? Hc Htl]; subst. cbn [line_scan].
  destruct (c =? 10)%N eqn:Ec.
  - assert (c = 10%N) by lia. subst. rewrite lf_is_ws in Hc. discriminate.
  - rewrite Hc. apply IH. assumption.
Qed.

Lemma search_no_ws : forall t pv i, Forall (fun c => is_ws c = false) t -> re_search SPACES_EXPECTED pv i t = None.
Proof.
  induction t as [|c tl IH]; intros pv i H; cbn [re_search]; rewrite spaces_at; [reflexivity|].
  inversion H as [|? ? Hc Htl]; subst.
  destruct (c =? 10)%N; [apply IH; assumption|]. rewrite (line_scan_no_ws tl 1 Htl). apply IH. assumption.
Qed.

(* SPACES.find(&s): end of the leftmost match *)
Lemma spaces_from_is_search : forall t pv i, spaces_from i t = option_map snd (re_search SPACES_EXPECTED pv i t).
Proof.
  induction t as [|c tl IH]; intros pv i; cbn [re_search spaces_from]; rewrite spaces_at; [reflexivity|].
  destruct (c =? 10)%N; [apply IH|].
  pose proof (line_scan_shift tl i 1 None) as Hs. cbn [option_map] in Hs. replace (i + 1) with (S i) in Hs by lia. rewrite Hs.
  destruct (line_scan 1 tl None) as [m|] eqn:E; [reflexivity|]. cbn [option_map].
  rewrite (search_no_ws tl (Some c) (S i) (line_scan_none _ _ _ E)). reflexivity.
Qed.

Lemma spaces_end_is_pattern s : spaces_end s = re_find_end SPACES_EXPECTED s.
Proof. unfold spaces_end, re_find_end, re_find. apply spaces_from_is_search. Qed.

(* ================= all patterns together, stated on the regenerated ASTs ================= *)
Definition patterns_as_expected : Prop :=
  RX.SENTENCE_BREAKER_RE = BREAKER_EXPECTED /\ RX.PARENTHESIS_RE = PARENTHESIS_EXPECTED /\
  RX.PROHIBITED_BOS_RE = PROHIBITED_EXPECTED /\ RX.ITEMIZE_HEADER_RE = ITEMIZE_EXPECTED /\
  RX.QUOTE_MARKER_RE = QUOTE_EXPECTED /\ RX.EOS_ITEMIZE_HEADER_RE = EOS_ITEMIZE_EXPECTED /\
  RX.SPACES_RE = SPACES_EXPECTED.

Definition matchers_agree_statement : Prop :=
  (* SENTENCE_BREAKER: one attempt at a position (pv = the character before it), and find_iter over the window *)
  (forall pv t, breaker_len pv t = re_match_at RX.SENTENCE_BREAKER_RE pv t) /\
  (forall s, candidates s = re_find_iter_ends RX.SENTENCE_BREAKER_RE 0 None 0 s) /\
  (* PARENTHESIS: captures_iter, +1 when group 1 took part, else -1 unless 0 *)
  (forall t, Some (plevel 0 t) = re_paren_level RX.PARENTHESIS_RE t) /\
  (* PROHIBITED_BOS: end of find(s), 0 without a match *)
  (forall t, prohibited_bos t = match re_find RX.PROHIBITED_BOS_RE t with Some (_, e) => e | None => 0 end) /\
  (* ITEMIZE_HEADER.is_match(s) *)
  (forall s, itemize_header s = re_is_match RX.ITEMIZE_HEADER_RE s) /\
  (* QUOTE_MARKER.find(slice) with mat.start() == 0, slice = last character l of the candidate followed by rest *)
  (forall l rest, quote_at l rest = match re_match_at RX.QUOTE_MARKER_RE None (l :: rest) with Some _ => true | None => false end) /\
  (* EOS_ITEMIZE_HEADER.is_match(&s[..eos]) *)
  (forall t, ends_an_dot t = re_is_match RX.EOS_ITEMIZE_HEADER_RE t) /\
  (* SPACES.find(&s): end of the match *)
  (forall s, spaces_end s = re_find_end RX.SPACES_RE s).

Lemma matchers_agree : patterns_as_expected -> tags_ok_b F.BR_TAGS = true -> 1 <= F.BR_MIN -> 1 <= F.CDOTS_MIN ->
  matchers_agree_statement.
Proof.
  intros [E1 [E2 [E3 [E4 [E5 [E6 E7]]]]]] Ht Hb Hc. apply tags_ok_of_b in Ht.
  unfold matchers_agree_statement. rewrite E1, E2, E3, E4, E5, E6, E7.
  split; [intros; apply breaker_len_is_pattern; assumption|].
  split; [intros; apply candidates_is_find_iter; assumption|].
  split; [apply plevel_is_pattern|].
  split; [apply prohibited_bos_is_pattern|].
  split; [apply itemize_header_is_pattern|].
  split; [apply quote_at_is_pattern|].
  split; [apply ends_an_dot_is_pattern|apply spaces_end_is_pattern].
Qed.
