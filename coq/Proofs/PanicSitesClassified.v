(* Classification of the panic-capable constructs of the analysis path (inventory regenerated into
   Generated/PanicSites.v on every run).  The table below is the inventory that was reviewed; a new unwrap / index /
   cast / assertion in these files makes the regenerated inventory differ and re-opens the obligation
   C03_fact_panic_sites.  Reasons (per file):
   - input_text/buffer/mod.rs: `expect("")` in `impl From<&str>` only (test helper path: start_build on a fresh buffer;
     fails only above MAX_LENGTH, not used by the tokenizer); debug_asserts check the RW/RO state machine that
     do_tokenize drives in a fixed order; index expressions are into m2o / mod_c2b / mod_b2c / mod_cat at offsets
     <= len (offset-map invariant, C08) .
   - input_text/buffer/edit.rs: slices of the current text at edit ranges supplied by the input-text plugins (on
     character boundaries: C07 plugin_edits_ok).
   - analysis/stateful_tokenizer.rs: `top_path.as_mut().unwrap()` in swap_result is None only after an Err of
     do_tokenize between resolve_best_path and the end (C10 failed_analysis_usable); `oov_providers.last().unwrap()`:
     loading rejects a configuration without OOV provider (NoOOVPluginProvided); `as u16` of positions <= 65535
     (C03_positions_fit_u16).
   - analysis/lattice.rs: `eos.unwrap()` after an is_none() check; rows indexed by begin/end <= size-1 (nodes_ok);
     `as u16` of positions.
   - analysis/created.rs: debug_assert!(raw > 0): every provider creates words of length >= 1 (empty regex match: fixed).
   - analysis/node.rs: panic! for Mode::C is guarded by num_splits(C) = 0; `get_word_info_subset(..).unwrap()` of split
     ids validated by the dictionary compiler (C06); index/slice expressions on split units (well-formed splits, C09).
   - dic/connect.rs: debug_asserts and get_unchecked with index < num_left * num_right (C02_fact_conn_index_in_range,
     ids validated at load: C20 / C06).
   - dic/lexicon/trie.rs, word_id_table.rs: bounds of the compiled arrays (C04 traverse_in_bounds).
   - plugin/oov/mecab_oov/mod.rs: `line.chars().next().unwrap()` on a line checked non-empty; casts of validated ids.
   - plugin/oov/simple_oov/mod.rs, regex_oov/mod.rs: casts of positions <= 65535. *)
From Coq Require Import List NArith String.
Import ListNotations.
Open Scope string_scope.

Definition classified : list (string * list (string * N)) :=
  [ ("input_text/buffer/mod.rs",
     [("panic_macro", 0%N); ("unwrap", 0%N); ("expect", 1%N); ("assert", 0%N); ("debug_assert", 27%N); ("get_unchecked", 0%N); ("narrowing_cast", 0%N); ("index_expr", 26%N)]);
    ("input_text/buffer/edit.rs",
     [("panic_macro", 0%N); ("unwrap", 0%N); ("expect", 0%N); ("assert", 0%N); ("debug_assert", 0%N); ("get_unchecked", 0%N); ("narrowing_cast", 0%N); ("index_expr", 6%N)]);
    ("analysis/stateful_tokenizer.rs",
     [("panic_macro", 0%N); ("unwrap", 2%N); ("expect", 0%N); ("assert", 0%N); ("debug_assert", 0%N); ("get_unchecked", 0%N); ("narrowing_cast", 7%N); ("index_expr", 1%N)]);
    ("analysis/lattice.rs",
     [("panic_macro", 0%N); ("unwrap", 1%N); ("expect", 0%N); ("assert", 0%N); ("debug_assert", 0%N); ("get_unchecked", 0%N); ("narrowing_cast", 6%N); ("index_expr", 16%N)]);
    ("analysis/created.rs",
     [("panic_macro", 0%N); ("unwrap", 0%N); ("expect", 0%N); ("assert", 0%N); ("debug_assert", 1%N); ("get_unchecked", 0%N); ("narrowing_cast", 1%N); ("index_expr", 0%N)]);
    ("analysis/node.rs",
     [("panic_macro", 1%N); ("unwrap", 1%N); ("expect", 0%N); ("assert", 0%N); ("debug_assert", 0%N); ("get_unchecked", 0%N); ("narrowing_cast", 8%N); ("index_expr", 21%N)]);
    ("dic/connect.rs",
     [("panic_macro", 0%N); ("unwrap", 0%N); ("expect", 0%N); ("assert", 0%N); ("debug_assert", 3%N); ("get_unchecked", 1%N); ("narrowing_cast", 0%N); ("index_expr", 0%N)]);
    ("dic/lexicon/trie.rs",
     [("panic_macro", 0%N); ("unwrap", 1%N); ("expect", 0%N); ("assert", 0%N); ("debug_assert", 2%N); ("get_unchecked", 2%N); ("narrowing_cast", 0%N); ("index_expr", 0%N)]);
    ("dic/lexicon/word_id_table.rs",
     [("panic_macro", 0%N); ("unwrap", 0%N); ("expect", 0%N); ("assert", 0%N); ("debug_assert", 2%N); ("get_unchecked", 0%N); ("narrowing_cast", 1%N); ("index_expr", 0%N)]);
    ("plugin/oov/regex_oov/mod.rs",
     [("panic_macro", 0%N); ("unwrap", 0%N); ("expect", 0%N); ("assert", 0%N); ("debug_assert", 0%N); ("get_unchecked", 0%N); ("narrowing_cast", 3%N); ("index_expr", 0%N)]);
    ("plugin/oov/mecab_oov/mod.rs",
     [("panic_macro", 0%N); ("unwrap", 2%N); ("expect", 0%N); ("assert", 0%N); ("debug_assert", 0%N); ("get_unchecked", 0%N); ("narrowing_cast", 5%N); ("index_expr", 12%N)]);
    ("plugin/oov/simple_oov/mod.rs",
     [("panic_macro", 0%N); ("unwrap", 0%N); ("expect", 0%N); ("assert", 0%N); ("debug_assert", 0%N); ("get_unchecked", 0%N); ("narrowing_cast", 3%N); ("index_expr", 0%N)]) ].

(* ---- status of the classes above: "reviewed" (reasons in the header comment) or "proved: <theorem>".
   The per-function tables behind a "proved" line are compared with the regenerated source shape by their own obligations
   (C03_fact_lattice_sites for analysis/lattice.rs: Proofs/LatticeSitesClassified.v). ---- *)
Definition site_status : list (string * string * string) :=
  [ ("analysis/lattice.rs", "unwrap", "proved: C03_lattice_no_index_panic (eos.unwrap() sits behind the is_none() return; no path to the site in Model/LatticeP.v)");
    ("analysis/lattice.rs", "narrowing_cast", "proved: C03_lattice_no_index_panic (4 `as u16` are identities under round_wf; 2 `as i32` widen i16)");
    ("analysis/lattice.rs", "index_expr", "proved: C03_lattice_no_index_panic for 11 of 16 brackets (connect_bos, connect_node, insert, node, fill_top_path); reviewed: the 5 of dump() (debug output only)");
    ("analysis/stateful_tokenizer.rs", "narrowing_cast", "proved for byte_begin / byte_end as u16 in resolve_best_path: C03_resolve_node_ok; reviewed: the others (positions <= 65535: C03_positions_fit_u16; OOV POS id)");
    ("analysis/stateful_tokenizer.rs", "unwrap", "reviewed (swap_result: C10 failed_analysis_usable; oov_providers.last(): NoOOVPluginProvided at load)");
    ("input_text/buffer/mod.rs", "index_expr", "proved for the 13 brackets of to_orig_byte_idx, to_orig_char_idx, to_curr_byte_idx, curr_slice_c, orig_slice, to_orig, ch_idx: C03_accessors_no_index_panic / C03_resolve_node_ok / C03_chain_accessors_ok (tables of Proofs/AccessorSitesClassified.v); proved in C08 for orig_slice_c / curr_slice; reviewed: build(), commit(), the category accessors");
    ("input_text/buffer/mod.rs", "debug_assert", "proved for to_orig_char_idx (res != usize::MAX) and the two boundary assertions of orig_slice: C03_accessors_no_index_panic; reviewed: the RW/RO state assertions");
    ("analysis/lattice.rs", "arithmetic (i32 +)", "proved under the cost bound: C03_lattice_never_panics_debug (the two lattice models agree: C03_lattice_models_agree)");
    ("analysis/node.rs", "index_expr", "proved: the 20 brackets of concat_nodes / concat_oov_nodes (C03_concat_no_panic) and self.splits[idx] (guarded); the ch_idx index of NodeSplitIterator::next: C03_split_panics_only_on_ill_formed_units");
    ("analysis/node.rs", "unwrap", "reviewed: get_word_info_subset of split ids validated by the dictionary compiler (C06)");
    ("analysis/node.rs", "panic_macro", "reviewed: Mode::C never reaches ResultNode::split (split_path returns first)");
    ("analysis/node.rs", "narrowing_cast", "reviewed: positions <= 65535 (C03_positions_fit_u16)");
    ("input_text/buffer/edit.rs", "index_expr", "proved: all 6 brackets, C03_resolve_edits_no_index_panic");
    ("input_text/buffer/mod.rs", "index_expr (build)", "proved: self.mod_bow[bidx] and the two usize subtractions of build(): C03_build_writes_in_range; reviewed: fill_cat_continuity / fill_orig_b2c (loop-bounded)");
    ("dic/lexicon/trie.rs", "debug_assert / get_unchecked", "proved for certified arrays: C03_trie_reader_no_index_panic; open for arrays the loader accepts unchecked: finding c03_damaged_dictionary");
    ("dic/lexicon/trie.rs", "unwrap", "proved by the loop range (self.data.get(i) with i in offset..data.len())");
    ("dic/lexicon/word_id_table.rs", "debug_assert", "proved for builder-written tables: C03_wid_table_reader_no_index_panic; open for tables the loader accepts unchecked: finding c03_damaged_dictionary");
    ("dic/connect.rs", "debug_assert", "proved for the lattice's calls: C03_conn_cost_in_table (ids below the dimensions: C20_accepted_config_index_safe)");
    ("dic/connect.rs", "get_unchecked", "proved for the lattice's calls: C03_conn_cost_in_table") ].
