(* C13, part 4: provider sequencing of build_lattice -- the fallback provider runs exactly when nothing else was produced,
   a processed position never ends up without a candidate, the Simple provider reaches the next permissible word start,
   the Regex provider never duplicates a span, NOOOVBOW/NOOOVBOW2 characters never start a word. *)
From Coq Require Import List NArith Bool Lia ZifyBool ZifyNat ZifyN PeanoNat String.
From SudachiVerif Require Import Model.Oov Proofs.OovCreated.
Import ListNotations.
Open Scope N_scope.

Arguments N.land : simpl never.
Arguments N.lor : simpl never.
Arguments N.eqb : simpl never.

(* ---------- the created-words carrier is zero iff the node buffer is empty ---------- *)
Definition consistent (st : N * list node) : Prop := fst st = 0 <-> snd st = [].

Lemma provide_oovs_inv c off st p st' :
  provide_oovs c off st p = ROk st' ->
  exists ns, provide p c off (fst st) (snd st) = ROk ns /\ snd st' = snd st ++ ns
             /\ cw_add_all (fst st) (map node_len ns) = Some (fst st').
Proof.
  unfold provide_oovs. destruct (provide p c off (fst st) (snd st)) as [ns| |]; try discriminate.
  destruct (cw_add_all (fst st) (map node_len ns)) as [cw|] eqn:E; [|discriminate].
  intros H. injection H as <-. exists ns. auto.
Qed.

Lemma provide_oovs_consistent c off st p st' :
  provide_oovs c off st p = ROk st' -> consistent st -> consistent st'.
Proof.
  intros H C. apply provide_oovs_inv in H. destruct H as [ns [_ [E2 E3]]].
  apply cw_add_all_zero in E3. unfold consistent in *. rewrite E2, E3.
  split.
  - intros [Z N]. apply C in Z. rewrite Z. destruct ns; [reflexivity|discriminate].
  - intros H. apply app_eq_nil in H. destruct H as [H1 ->]. split; [apply C; exact H1|reflexivity].
Qed.

Lemma provide_all_consistent c off : forall ps st st',
  provide_all c off st ps = ROk st' -> consistent st -> consistent st'.
Proof.
  induction ps as [|p ps IH]; intros st st' H C.
  - cbn in H. injection H as <-. exact C.
  - cbn [provide_all] in H. destruct (provide_oovs c off st p) as [st1| |] eqn:E; try discriminate.
    apply (IH st1); [exact H|]. eapply provide_oovs_consistent; eauto.
Qed.

Lemma provide_all_extends c off : forall ps st st',
  provide_all c off st ps = ROk st' -> exists extra, snd st' = snd st ++ extra.
Proof.
  induction ps as [|p ps IH]; intros st st' H.
  - cbn in H. injection H as <-. exists []. now rewrite app_nil_r.
  - cbn [provide_all] in H. destruct (provide_oovs c off st p) as [st1| |] eqn:E; try discriminate.
    apply provide_oovs_inv in E. destruct E as [ns [_ [E2 _]]].
    apply IH in H. destruct H as [extra H]. exists (ns ++ extra). rewrite H, E2, app_assoc. reflexivity.
Qed.

Lemma normal_pass_consistent gate c ps off dict st :
  normal_pass_g gate c ps off dict = ROk st -> consistent st.
Proof.
  unfold normal_pass_g. destruct (cw_add_all 0 (map node_len dict)) as [cw0|] eqn:E; [|discriminate].
  destruct (nth_error (c_cats c) off) as [cat|]; [|discriminate].
  assert (C0 : consistent (cw0, dict)).
  { unfold consistent. cbn [fst snd]. apply cw_add_all_zero in E. rewrite E. split.
    - intros [_ H]. destruct dict; [reflexivity|discriminate].
    - intros ->. auto. }
  destruct (inter cat gate).
  - intros H. injection H as <-. exact C0.
  - intros H. eapply provide_all_consistent; eauto.
Qed.

(* the dictionary nodes stay in front of the buffer *)
Lemma normal_pass_keeps_dict gate c ps off dict st :
  normal_pass_g gate c ps off dict = ROk st -> exists oov, snd st = dict ++ oov.
Proof.
  unfold normal_pass_g. destruct (cw_add_all 0 (map node_len dict)) as [cw0|]; [|discriminate].
  destruct (nth_error (c_cats c) off) as [cat|]; [|discriminate].
  destruct (inter cat gate).
  - intros H. injection H as <-. exists []. cbn. now rewrite app_nil_r.
  - intros H. apply provide_all_extends in H. exact H.
Qed.

(* providers are skipped at a character of a gated class *)
Lemma normal_pass_gated gate c ps off dict cat st :
  nth_error (c_cats c) off = Some cat -> inter cat gate = true ->
  normal_pass_g gate c ps off dict = ROk st -> snd st = dict.
Proof.
  unfold normal_pass_g. intros -> ->. destruct (cw_add_all 0 (map node_len dict)); [|discriminate].
  intros H. injection H as <-. reflexivity.
Qed.

(* ---------- fallback exactly when nothing else was produced ---------- *)
Theorem fallback_iff_nothing_g gate fb c ps off dict buf :
  position_step_g gate fb c ps off dict = ROk buf ->
  exists cw1 normal,
    normal_pass_g gate c ps off dict = ROk (cw1, normal)
    /\ ((normal <> [] /\ buf = normal)
        \/ (normal = [] /\ exists p extra, fb = Some p /\ provide p c off 0 [] = ROk extra
                                           /\ extra <> [] /\ buf = extra)).
Proof.
  unfold position_step_g. destruct (normal_pass_g gate c ps off dict) as [[cw1 normal]| |] eqn:E; try discriminate.
  pose proof (normal_pass_consistent _ _ _ _ _ _ E) as C. unfold consistent in C. cbn [fst snd] in *.
  intros H. exists cw1, normal. split; [reflexivity|].
  destruct (N.eqb_spec cw1 0) as [Z|NZ].
  - right. subst cw1. assert (normal = []) as -> by (apply C; reflexivity). split; [reflexivity|].
    destruct fb as [p|]; [|discriminate].
    destruct (provide_oovs c off (0, []) p) as [st2| |] eqn:E2; try discriminate.
    pose proof (provide_oovs_consistent _ _ _ _ _ E2) as C2.
    apply provide_oovs_inv in E2. destruct E2 as [ns [P1 [P2 _]]]. cbn [fst snd app] in *.
    cbn beta iota in H.
    destruct (N.eqb_spec (fst st2) 0) as [Z2|NZ2]; [discriminate|]. injection H as <-.
    exists p, ns. repeat split; auto.
    intros ->. apply NZ2. apply C2; [unfold consistent; cbn; tauto|exact P2].
  - left. replace (cw1 =? 0) with false in H by lia. cbn beta iota in H. cbn [fst snd] in H.
    replace (cw1 =? 0) with false in H by lia. injection H as <-.
    split; [|reflexivity]. intros ->. apply NZ. apply C. reflexivity.
Qed.

(* a processed position is never left without a candidate (otherwise the analysis stops with an error) *)
Theorem fallback_iff_nothing c ps off dict buf :
  position_step c ps off dict = ROk buf ->
  exists cw1 normal,
    normal_pass c ps off dict = ROk (cw1, normal)
    /\ ((normal <> [] /\ buf = normal)
        \/ (normal = [] /\ exists p extra, fallback_of ps = Some p /\ provide p c off 0 [] = ROk extra
                                           /\ extra <> [] /\ buf = extra)).
Proof. apply fallback_iff_nothing_g. Qed.

Theorem position_has_candidate gate fb c ps off dict buf :
  position_step_g gate fb c ps off dict = ROk buf -> buf <> [].
Proof.
  intros H. apply fallback_iff_nothing_g in H. destruct H as [cw1 [normal [_ [[N ->]|[_ [p [extra [_ [_ [N ->]]]]]]]]]]; exact N.
Qed.

Lemma lattice_loop_candidates gate fb c ps : forall offs dict ends r,
  lattice_loop_g gate fb c ps offs dict ends = ROk r -> Forall (fun x => x <> Some []) r.
Proof.
  induction offs as [|off t IH]; intros dict ends r H.
  - cbn in H. injection H as <-. constructor.
  - cbn [lattice_loop_g] in H. destruct (Nat.eqb off 0 || existsb (Nat.eqb off) ends).
    + destruct (position_step_g gate fb c ps off (dict_filter c off (hd [] dict))) as [buf| |] eqn:E; try discriminate.
      destruct (lattice_loop_g gate fb c ps t (tl dict) (map n_end buf ++ ends)) as [r'| |] eqn:E2; try discriminate.
      injection H as <-. constructor; [|eapply IH; eauto].
      intros X. injection X as ->. exact (position_has_candidate _ _ _ _ _ _ _ E eq_refl).
    + destruct (lattice_loop_g gate fb c ps t (tl dict) ends) as [r'| |] eqn:E2; try discriminate.
      injection H as <-. constructor; [discriminate|eapply IH; eauto].
Qed.

Theorem lattice_positions_have_candidates c ps dict r :
  build_lattice c ps dict = ROk r -> Forall (fun x => x <> Some []) r.
Proof. apply lattice_loop_candidates. Qed.

(* ---------- the Simple provider: one candidate reaching to the next permissible word start ---------- *)
Lemma next_bow_dist_spec : forall bs,
  let d := next_bow_dist bs in
  (d <= List.length bs)%nat /\ (forall i, (i < d)%nat -> nth i bs true = false)
  /\ (d = List.length bs \/ nth d bs false = true).
Proof.
  induction bs as [|b t IH]; cbn zeta.
  - cbn. repeat split; auto. intros i Hi. lia.
  - cbn [next_bow_dist]. destruct b.
    + cbn. repeat split; [lia| |auto]. intros i Hi. lia.
    + cbn zeta in IH. destruct IH as [I1 [I2 I3]]. cbn [List.length]. repeat split; [lia| |].
      * intros [|i] Hi; [reflexivity|]. cbn. apply I2. lia.
      * destruct I3 as [I3|I3]; [left; lia|right; exact I3].
Qed.

Theorem word_candidate_length_spec bows off :
  (off < List.length bows)%nat ->
  let e := (off + word_candidate_length bows off)%nat in
  (off < e <= List.length bows)%nat
  /\ (forall i, (off < i < e)%nat -> nth i bows true = false)
  /\ (e = List.length bows \/ nth e bows false = true).
Proof.
  intros Hoff. cbn zeta. unfold word_candidate_length.
  pose proof (next_bow_dist_spec (skipn (S off) bows)) as HS. cbn zeta in HS.
  set (d := next_bow_dist (skipn (S off) bows)) in *. destruct HS as [S1 [S2 S3]].
  rewrite skipn_length in S1, S3.
  assert (Hn : forall k dflt, nth k (skipn (S off) bows) dflt = nth (S off + k) bows dflt).
  { intros k dflt. rewrite <- (firstn_skipn (S off) bows) at 2.
    rewrite app_nth2; rewrite firstn_length; [f_equal; lia|lia]. }
  repeat split; [lia|lia| |].
  - intros i Hi. specialize (S2 (i - S off)%nat ltac:(lia)). rewrite Hn in S2.
    replace (S off + (i - S off))%nat with i in S2 by lia. exact S2.
  - destruct S3 as [S3|S3]; [left; lia|right]. rewrite Hn in S3.
    replace (off + S d)%nat with (S off + d)%nat by lia. exact S3.
Qed.

Lemma simple_provide_spec o bows off other :
  (off < List.length bows)%nat ->
  simple_provide o bows off other =
  ROk (if other =? 0 then [oov_node off (off + word_candidate_length bows off) o] else []).
Proof.
  intros H. unfold simple_provide. destruct (other =? 0); cbn [negb]; [|reflexivity].
  destruct (Nat.ltb_spec off (List.length bows)); [reflexivity|lia].
Qed.

(* with the Simple provider as fallback a processed position always gets its candidate: the analysis cannot stop there *)
Theorem simple_fallback_total c ps off dict o st :
  fallback_of ps = Some (PSimple o) -> (off < List.length (c_bows c))%nat ->
  normal_pass c ps off dict = ROk st ->
  exists buf, position_step c ps off dict = ROk buf
              /\ (snd st = [] -> buf = [oov_node off (off + word_candidate_length (c_bows c) off) o]).
Proof.
  intros F Hoff E. pose proof (normal_pass_consistent _ _ _ _ _ _ E) as C.
  unfold position_step, position_step_g. fold (normal_pass c ps off dict). rewrite E, F. destruct st as [cw1 normal]. unfold consistent in C. cbn [fst snd] in *.
  destruct (N.eqb_spec cw1 0) as [Z|NZ].
  - subst cw1. unfold provide_oovs. cbn [provide fst snd]. rewrite simple_provide_spec by exact Hoff.
    replace (0 =? 0) with true by reflexivity. cbn [map cw_add_all].
    unfold node_len, oov_node. cbn [n_end n_begin]. unfold cw_add_word.
    rewrite cw_single_pos by (unfold word_candidate_length; lia). cbn [option_map].
    set (m := N.lor 0 _). assert (m <> 0).
    { subst m. rewrite N.lor_0_l. apply N.pow_nonzero. lia. }
    cbn [fst snd]. replace (m =? 0) with false by lia.
    eexists. split; [reflexivity|]. intros _. assert (normal = []) as -> by (apply C; reflexivity). reflexivity.
  - replace (cw1 =? 0) with false by lia. cbn [fst snd]. replace (cw1 =? 0) with false by lia.
    exists normal. split; [reflexivity|]. intros ->. exfalso. apply NZ. apply C. reflexivity.
Qed.

Lemma fallback_is_last ps p : OF.fallback_provider = "last"%string -> fallback_of (ps ++ [p]) = Some p.
Proof.
  intros H. unfold fallback_of. rewrite H. cbn [String.eqb Ascii.eqb Bool.eqb]. rewrite map_app. cbn [map].
  apply last_last.
Qed.

(* ---------- the Regex provider never adds a span that is already there ---------- *)
Section Regex.
  Hypothesis Hcmp : OF.has_word_maybe_cmp = ">="%string.
  Hypothesis Hmax : 1 <= MAXV.
  Hypothesis Hassert : OF.single_asserts_positive = true.

  Theorem regex_no_duplicate_generic x conts off other result ns :
    cw_add_all 0 (map node_len result) = Some other ->
    (forall n, In n result -> n_begin n = off /\ (off < n_end n)%nat) ->
    regex_provide x conts off other result = ROk ns ->
    forall nd, In nd ns ->
      n_begin nd = off /\ (off < n_end nd)%nat /\ (forall n, In n result -> n_end n <> n_end nd)
      /\ ns = [nd] /\ exists mlen, nth_error (x_matches x) off = Some (Some (true, mlen)) /\ n_end nd = (off + mlen)%nat.
  Proof.
    intros Hcw Hres H nd Hnd. unfold regex_provide in H.
    destruct (if x_strict x && Nat.ltb 0 off then _ else Some false) as [[|]|]; try discriminate.
    { injection H as <-. contradiction. }
    destruct (nth_error (x_matches x) off) as [[[at0 mlen]|]|]; try discriminate.
    2:{ injection H as <-. contradiction. }
    destruct at0; cbn [negb] in H.
    2:{ destruct (x_debug x); [discriminate|]. injection H as <-. contradiction. }
    destruct (Nat.eq_dec mlen 0) as [->|Hm].
    { destruct OF.regex_ignores_empty_match; cbn [andb Nat.eqb] in H.
      - injection H as <-. contradiction.
      - unfold cw_has_word, cw_single in H. rewrite Hassert in H. cbn in H. discriminate. }
    replace (Nat.eqb mlen 0) with false in H by (symmetry; apply Nat.eqb_neq; exact Hm).
    rewrite andb_false_r in H.
    assert (Hpos : forall l, In l (map node_len result) -> (0 < l)%nat).
    { intros l Hl. apply in_map_iff in Hl. destruct Hl as [n [<- Hn]]. destruct (Hres n Hn). unfold node_len. lia. }
    pose proof (created_words_sound_generic Hcmp Hmax (map node_len result) other mlen Hcw Hpos ltac:(lia)) as HS.
    destruct (cw_has_word other (N.of_nat mlen)) as [[| |]|]; try discriminate.
    - injection H as <-. contradiction.
    - injection H as <-. destruct Hnd as [<-|[]]. cbn [oov_node n_begin n_end].
      repeat split; [lia| |exists mlen; auto].
      intros n Hn E. destruct HS as [HS _]. apply HS. apply in_map_iff. exists n. split; [|exact Hn].
      destruct (Hres n Hn). unfold node_len. lia.
    - destruct (existsb (fun n => Nat.eqb (n_end n) (off + mlen)) result) eqn:Ex.
      + injection H as <-. contradiction.
      + injection H as <-. destruct Hnd as [<-|[]]. cbn [oov_node n_begin n_end].
        repeat split; [lia| |exists mlen; auto].
        intros n Hn E. assert (existsb (fun n => Nat.eqb (n_end n) (off + mlen)) result = true); [|congruence].
        apply existsb_exists. exists n. split; [exact Hn|]. apply Nat.eqb_eq. exact E.
  Qed.
End Regex.

(* ---------- characters of a gated class (NOOOVBOW / NOOOVBOW2) never start a word ---------- *)
Lemma inter_lor c a b : inter c (N.lor a b) = inter c a || inter c b.
Proof.
  unfold inter. rewrite N.land_lor_distr_r.
  destruct (N.eqb_spec (N.land c a) 0) as [Ea|Ea], (N.eqb_spec (N.land c b) 0) as [Eb|Eb]; cbn [negb orb];
    destruct (N.eqb_spec (N.lor (N.land c a) (N.land c b)) 0) as [E|E]; try reflexivity; exfalso.
  - apply E. rewrite Ea, Eb. reflexivity.
  - apply N.lor_eq_0_iff in E. tauto.
  - apply N.lor_eq_0_iff in E. tauto.
  - apply N.lor_eq_0_iff in E. tauto.
Qed.

Section Bow.
  Variables m2 m1 ma : N.
  Hypothesis Hchain : bow_chain = [RPrevForbids; RForbidThisAndNext m2; RForbidThis m1; RNeedsClassChange ma].
  Hypothesis Hgate : OF.oov_gate_mask = N.lor m1 m2.

  Lemma eval_chain_gated nb prev c : fst (eval_chain bow_chain nb prev c) = true -> inter c OF.oov_gate_mask = false.
  Proof.
    rewrite Hchain, Hgate, inter_lor. cbn [eval_chain].
    destruct nb; cbn [negb]; [|discriminate].
    destruct (inter c m2); [discriminate|]. destruct (inter c m1); [discriminate|]. reflexivity.
  Qed.

  Lemma bow_loop_gated : forall cs nb prev i c,
    nth_error (bow_loop bow_chain nb prev cs) i = Some true -> nth_error cs i = Some c ->
    inter c OF.oov_gate_mask = false.
  Proof.
    induction cs as [|x t IH]; intros nb prev i c Hb Hc; [destruct i; discriminate|].
    cbn [bow_loop] in Hb. destruct (eval_chain bow_chain nb prev x) as [b nb'] eqn:E.
    destruct i as [|i].
    - cbn in Hb, Hc. injection Hb as ->. injection Hc as ->. apply (eval_chain_gated nb prev). rewrite E. reflexivity.
    - cbn [nth_error] in Hb, Hc. eapply IH; eauto.
  Qed.

  (* a character that carries NOOOVBOW or NOOOVBOW2 is never a permissible word start *)
  Lemma can_bow_never_gated_generic cs i c :
    nth_error (can_bow cs) i = Some true -> nth_error cs i = Some c -> inter c OF.oov_gate_mask = false.
  Proof. apply bow_loop_gated. Qed.

  (* the character after a NOOOVBOW2 character that was itself examined is not a word start either *)
  Lemma eval_chain_both nb prev c :
    nb = true -> inter c m2 = true -> eval_chain bow_chain nb prev c = (false, false).
  Proof. intros -> H. rewrite Hchain. cbn [eval_chain negb]. rewrite H. reflexivity. Qed.

  Lemma eval_chain_blocked prev c : eval_chain bow_chain false prev c = (false, true).
  Proof. rewrite Hchain. reflexivity. Qed.
End Bow.

Lemma can_bow_never_gated m2 m1 :
  (exists ma, bow_chain = [RPrevForbids; RForbidThisAndNext m2; RForbidThis m1; RNeedsClassChange ma]) ->
  OF.oov_gate_mask = N.lor m1 m2 ->
  forall cs i c, nth_error (can_bow cs) i = Some true -> nth_error cs i = Some c -> inter c OF.oov_gate_mask = false.
Proof. intros [ma H] G. exact (can_bow_never_gated_generic m2 m1 ma H G). Qed.

(* after a character of the this-and-next class that was examined, the next character is no word start, whatever it is *)
Lemma bow_next_forbidden m2 m1 :
  (exists ma, bow_chain = [RPrevForbids; RForbidThisAndNext m2; RForbidThis m1; RNeedsClassChange ma]) ->
  forall prev c d t, inter c m2 = true ->
    bow_loop bow_chain true prev (c :: d :: t) = false :: false :: bow_loop bow_chain true d t.
Proof.
  intros [ma H] prev c d t Hc. cbn [bow_loop].
  rewrite (eval_chain_both m2 m1 ma H true prev c eq_refl Hc).
  rewrite (eval_chain_blocked m2 m1 ma H c d). reflexivity.
Qed.

(* the Simple provider yields exactly one candidate when nothing was created yet, none otherwise; the candidate ends at the
   next permissible word start or at the end of the text *)
Lemma simple_candidate_spec o cs off other :
  (off < List.length cs)%nat ->
  exists ns, simple_provide o (can_bow cs) off other = ROk ns
    /\ (other <> 0 -> ns = [])
    /\ (other = 0 -> exists e, ns = [oov_node off e o] /\ (off < e <= List.length cs)%nat
                       /\ (forall i, (off < i < e)%nat -> nth i (can_bow cs) true = false)
                       /\ (e = List.length cs \/ nth e (can_bow cs) false = true)).
Proof.
  intros Hoff.
  assert (Hl : forall chain cs nb prev, List.length (bow_loop chain nb prev cs) = List.length cs).
  { intros chain. induction cs0 as [|x t IH]; intros nb prev; [reflexivity|].
    cbn [bow_loop]. destruct (eval_chain chain nb prev x). cbn [List.length]. now rewrite IH. }
  assert (Hlen : List.length (can_bow cs) = List.length cs) by apply Hl.
  rewrite simple_provide_spec by lia. eexists. split; [reflexivity|]. split.
  - intros H. replace (other =? 0) with false by lia. reflexivity.
  - intros ->. replace (0 =? 0) with true by reflexivity.
    pose proof (word_candidate_length_spec (can_bow cs) off ltac:(lia)) as W. cbn zeta in W. rewrite Hlen in W.
    eexists. split; [reflexivity|]. exact W.
Qed.

(* ---------- the re-read constants are those of the property statement ---------- *)
Lemma can_bow_eq_spec_generic : bow_chain = spec_chain -> forall cs, can_bow cs = can_bow_spec cs.
Proof. intros H cs. unfold can_bow, can_bow_spec. rewrite H. reflexivity. Qed.

Lemma build_lattice_eq_spec_generic :
  OF.oov_gate_mask = spec_gate -> OF.fallback_provider = "last"%string ->
  forall c ps dict, build_lattice c ps dict = build_lattice_spec c ps dict.
Proof.
  intros G F c ps dict. unfold build_lattice, build_lattice_spec. rewrite G.
  replace (fallback_of ps) with (spec_fallback ps); [reflexivity|].
  unfold fallback_of, spec_fallback. rewrite F. reflexivity.
Qed.
