(* C05 — the lexicon reader's text handling: unescape (what exactly it maps), POS numbering, the POS table round trip *)
From Coq Require Import List NArith ZArith Bool String Lia ZifyBool ZifyNat ZifyN.
From SudachiVerif Require Import Model.GuardLang Model.Codec Model.CodecResolve Model.CodecCsv Proofs.CodecProofs.
From SudachiVerif Require Generated.CsvFacts.
Import ListNotations.
Open Scope N_scope.

Arguments N.add : simpl never.
Arguments N.sub : simpl never.
Arguments N.mul : simpl never.
Arguments N.ltb : simpl never.
Arguments N.leb : simpl never.
Arguments N.eqb : simpl never.

(* ================================================================== unescape *)
Definition all_hex (hs : text) : bool := forallb is_hex hs.

(* the two escape forms of the regex, as texts *)
Definition braces_form (hs : text) : text := [BACKSLASH; LOWER_U; LBRACE] ++ hs ++ [RBRACE].
Definition four_form (hs : text) : text := [BACKSLASH; LOWER_U] ++ hs.

(* s begins with an escape the regex matches (whatever scalar or not it names) *)
Definition starts_escape (s : text) : Prop :=
  (exists hs r, all_hex hs = true /\ (1 <= List.length hs <= 6)%nat /\ s = braces_form hs ++ r)
  \/ (exists hs r, all_hex hs = true /\ List.length hs = 4%nat /\ s = four_form hs ++ r).

Lemma rbrace_not_hex : is_hex RBRACE = false.
Proof. reflexivity. Qed.
Lemma lbrace_not_hex : is_hex LBRACE = false.
Proof. reflexivity. Qed.

(* take_hex returns a run of hex digits of at most `max`, followed by the rest; it stops early only before a non-digit *)
Lemma take_hex_spec : forall max s hs r, take_hex max s = (hs, r) ->
  s = hs ++ r /\ all_hex hs = true /\ (List.length hs <= max)%nat /\
  ((List.length hs < max)%nat -> match r with c :: _ => is_hex c = false | [] => True end).
Proof.
  induction max as [|k IH]; intros s hs r H; cbn [take_hex] in H.
  - inversion H; subst. split; [reflexivity|]. split; [reflexivity|]. split; [cbn; lia|]. cbn. lia.
  - destruct s as [|c t].
    + inversion H; subst. split; [reflexivity|]. split; [reflexivity|]. split; [cbn; lia|]. intros _. exact I.
    + destruct (is_hex c) eqn:E.
      * destruct (take_hex k t) as [h r'] eqn:Et. inversion H; subst.
        destruct (IH _ _ _ Et) as (E1 & E2 & E3 & E4). subst t.
        split; [reflexivity|]. split; [cbn [all_hex forallb]; rewrite E; exact E2|].
        split; [cbn [List.length]; lia|]. intros Hl. apply E4. cbn [List.length] in Hl. lia.
      * inversion H; subst. split; [reflexivity|]. split; [reflexivity|]. split; [cbn; lia|]. intros _. exact E.
Qed.

Lemma take_hex_run : forall hs max r, all_hex hs = true -> (List.length hs <= max)%nat ->
  ((List.length hs < max)%nat -> match r with c :: _ => is_hex c = false | [] => True end) ->
  take_hex max (hs ++ r) = (hs, r).
Proof.
  induction hs as [|h t IH]; intros max r Hh Hl Hr.
  - cbn [app]. destruct max as [|k]; [reflexivity|]. cbn [take_hex]. destruct r as [|c r']; [reflexivity|].
    rewrite Hr by (cbn; lia). reflexivity.
  - cbn [all_hex forallb] in Hh. apply andb_true_iff in Hh as [Hh1 Hh2].
    destruct max as [|k]; [cbn in Hl; lia|]. cbn [app take_hex]. rewrite Hh1.
    rewrite (IH k r Hh2); [reflexivity|cbn in Hl; lia|]. intros Hlt. apply Hr. cbn [List.length]. lia.
Qed.

(* what try_escape finds, in terms of the two forms *)
Lemma try_escape_braces : forall hs r, all_hex hs = true -> (1 <= List.length hs <= 6)%nat ->
  try_escape (LOWER_U :: LBRACE :: hs ++ RBRACE :: r) = decode hs (3 + List.length hs).
Proof.
  intros hs r Hh Hl. cbn [try_escape]. rewrite !N.eqb_refl.
  rewrite (take_hex_run hs 6 (RBRACE :: r) Hh) by (try lia; intros _; exact rbrace_not_hex).
  destruct hs as [|h t]; [cbn in Hl; lia|]. rewrite N.eqb_refl. reflexivity.
Qed.

Lemma first_hex_not_lbrace : forall h, is_hex h = true -> (h =? LBRACE) = false.
Proof.
  intros h H. destruct (h =? LBRACE) eqn:E; [|reflexivity]. apply N.eqb_eq in E. subst h. discriminate.
Qed.

Lemma try_escape_four : forall hs r, all_hex hs = true -> List.length hs = 4%nat ->
  try_escape (LOWER_U :: hs ++ r) = decode hs 5.
Proof.
  intros hs r Hh Hl. cbn [try_escape]. rewrite N.eqb_refl.
  destruct hs as [|h t]; [discriminate|]. cbn [app].
  assert (Hh' := Hh). cbn [all_hex forallb] in Hh'. apply andb_true_iff in Hh' as [Hh1 _].
  rewrite (first_hex_not_lbrace h Hh1). unfold four_digits.
  change (h :: t ++ r) with ((h :: t) ++ r). rewrite (take_hex_run (h :: t) 4 r Hh) by lia.
  rewrite Hl. reflexivity.
Qed.

Lemma decode_not_none : forall hs n, decode hs n <> EscNone.
Proof. intros hs n. unfold decode. destruct (is_scalar (hexnum 0 hs)); discriminate. Qed.

Lemma try_escape_not_none : forall t, try_escape t <> EscNone -> starts_escape (BACKSLASH :: t).
Proof.
  intros t Hne. unfold try_escape in Hne.
  destruct t as [|u r]; [exfalso; apply Hne; reflexivity|].
  destruct (u =? LOWER_U) eqn:Eu; [apply N.eqb_eq in Eu; subst u|exfalso; apply Hne; reflexivity].
  destruct r as [|b r1]; [exfalso; apply Hne; reflexivity|].
  destruct (b =? LBRACE) eqn:Eb.
  - apply N.eqb_eq in Eb. subst b.
    destruct (take_hex 6 r1) as [hs r2] eqn:Et. destruct (take_hex_spec _ _ _ _ Et) as (E1 & E2 & E3 & _).
    destruct hs as [|h hs']; [exfalso; apply Hne; reflexivity|].
    destruct r2 as [|c r3]; [exfalso; apply Hne; reflexivity|].
    destruct (c =? RBRACE) eqn:Ec; [apply N.eqb_eq in Ec; subst c|exfalso; apply Hne; reflexivity].
    left. exists (h :: hs'), r3. split; [exact E2|]. split; [cbn [List.length] in *; lia|].
    unfold braces_form. rewrite E1. cbn [app]. rewrite <- app_assoc. reflexivity.
  - unfold four_digits in Hne. destruct (take_hex 4 (b :: r1)) as [hs r2] eqn:Et.
    destruct (take_hex_spec _ _ _ _ Et) as (E1 & E2 & E3 & _).
    destruct (Nat.eqb (List.length hs) 4) eqn:El; [apply Nat.eqb_eq in El|exfalso; apply Hne; reflexivity].
    right. exists hs, r2. split; [exact E2|]. split; [exact El|]. unfold four_form. cbn [app]. rewrite E1. reflexivity.
Qed.

Lemma try_escape_none_iff : forall t, try_escape t = EscNone <-> ~ starts_escape (BACKSLASH :: t).
Proof.
  intros t. split.
  - intros H [(hs & r & Hh & Hl & E)|(hs & r & Hh & Hl & E)]; unfold braces_form, four_form in E; cbn [app] in E;
      inversion E; subst t.
    + rewrite <- app_assoc in H. cbn [app] in H. rewrite (try_escape_braces hs r Hh Hl) in H.
      exact (decode_not_none _ _ H).
    + rewrite (try_escape_four hs r Hh Hl) in H. exact (decode_not_none _ _ H).
  - intros Hn. destruct (try_escape t) eqn:E; [reflexivity| |]; exfalso; apply Hn; apply try_escape_not_none; rewrite E; discriminate.
Qed.

(* the skip counter jumps over exactly the code points of the escape *)
Lemma unescape_go_skip : forall pre r, unescape_go (List.length pre) (pre ++ r) = unescape_go 0 r.
Proof. induction pre as [|c t IH]; intros r; [reflexivity|]. cbn [List.length app unescape_go]. apply IH. Qed.

Lemma unescape_go_cons0 : forall c t,
  unescape_go 0 (c :: t) =
  if c =? BACKSLASH then
    match try_escape t with
    | EscChar ch n => do r <- unescape_go n t; ROk (ch :: r)
    | EscBad hs => RErr (EChar hs)
    | EscNone => do r <- unescape_go 0 t; ROk (c :: r)
    end
  else do r <- unescape_go 0 t; ROk (c :: r).
Proof. reflexivity. Qed.

Definition decoded_or_err (hs : text) (k : res text) : res text :=
  if is_scalar (hexnum 0 hs) then (do x <- k; ROk (hexnum 0 hs :: x)) else RErr (EChar hs).

(* C05_unescape_spec: the four equations determine unescape_go 0 on every text *)
Theorem unescape_spec :
  unescape_go 0 [] = ROk []
  /\ (forall hs r, all_hex hs = true -> (1 <= List.length hs <= 6)%nat ->
        unescape_go 0 (braces_form hs ++ r) = decoded_or_err hs (unescape_go 0 r))
  /\ (forall hs r, all_hex hs = true -> List.length hs = 4%nat ->
        unescape_go 0 (four_form hs ++ r) = decoded_or_err hs (unescape_go 0 r))
  /\ (forall c t, ~ starts_escape (c :: t) -> unescape_go 0 (c :: t) = (do x <- unescape_go 0 t; ROk (c :: x))).
Proof.
  split; [reflexivity|]. split; [|split].
  - intros hs r Hh Hl. unfold braces_form. cbn [app]. rewrite unescape_go_cons0, N.eqb_refl.
    rewrite <- app_assoc. cbn [app]. rewrite (try_escape_braces hs r Hh Hl). unfold decode, decoded_or_err.
    destruct (is_scalar (hexnum 0 hs)); [|reflexivity].
    replace (3 + List.length hs)%nat with (List.length (LOWER_U :: LBRACE :: hs ++ [RBRACE]))
      by (cbn [List.length]; rewrite app_length; cbn [List.length]; lia).
    replace (LOWER_U :: LBRACE :: hs ++ RBRACE :: r) with ((LOWER_U :: LBRACE :: hs ++ [RBRACE]) ++ r)
      by (cbn [app]; rewrite <- app_assoc; reflexivity).
    rewrite unescape_go_skip. reflexivity.
  - intros hs r Hh Hl. unfold four_form. cbn [app]. rewrite unescape_go_cons0, N.eqb_refl.
    rewrite (try_escape_four hs r Hh Hl). unfold decode, decoded_or_err.
    destruct (is_scalar (hexnum 0 hs)); [|reflexivity].
    replace 5%nat with (List.length (LOWER_U :: hs)) by (cbn [List.length]; lia).
    change (LOWER_U :: hs ++ r) with ((LOWER_U :: hs) ++ r). rewrite unescape_go_skip. reflexivity.
  - intros c t Hn. rewrite unescape_go_cons0. destruct (c =? BACKSLASH) eqn:Ec; [|reflexivity].
    apply N.eqb_eq in Ec. subst c. rewrite (proj2 (try_escape_none_iff t) Hn). reflexivity.
Qed.

(* the forms are exclusive: a text starts with at most one of them, with determined digits *)
Lemma starts_escape_backslash : forall c t, starts_escape (c :: t) -> c = BACKSLASH.
Proof.
  intros c t [(hs & r & _ & _ & E)|(hs & r & _ & _ & E)]; unfold braces_form, four_form in E; cbn [app] in E; inversion E; reflexivity.
Qed.

(* C05_unescape_plain *)
Theorem unescape_go_plain : forall s, existsb (fun c => c =? BACKSLASH) s = false -> unescape_go 0 s = ROk s.
Proof.
  induction s as [|c t IH]; intros H; [reflexivity|].
  cbn [existsb] in H. apply orb_false_iff in H as [H1 H2].
  rewrite unescape_go_cons0, H1, (IH H2). reflexivity.
Qed.

Theorem unescape_plain : forall s, existsb (fun c => c =? BACKSLASH) s = false ->
  unescape s = if cmp_eval CF.str_len_cmp (Z.of_N (utf8_len s)) CF.MAX_DIC_STRING_LEN then RErr ESize else ROk s.
Proof. intros s H. unfold unescape. rewrite (unescape_go_plain s H). reflexivity. Qed.

(* what unescape returns consists of scalar values when the field does *)
Lemma unescape_go_scalar : forall s n o, forallb is_scalar s = true -> unescape_go n s = ROk o -> forallb is_scalar o = true.
Proof.
  induction s as [|c t IH]; intros n o Hs H; cbn [unescape_go] in H.
  - inversion H. reflexivity.
  - cbn [forallb] in Hs. apply andb_true_iff in Hs as [Hc Ht].
    destruct n as [|k]; [|apply (IH k o Ht H)].
    destruct (c =? BACKSLASH).
    + destruct (try_escape t) as [|ch m|hs] eqn:E.
      * destruct (unescape_go 0 t) as [x|] eqn:Ex; [|discriminate]. cbn [bind] in H. inversion H; subst o.
        cbn [forallb]. rewrite Hc. exact (IH 0%nat x Ht Ex).
      * destruct (unescape_go m t) as [x|] eqn:Ex; [|discriminate]. cbn [bind] in H. inversion H; subst o.
        cbn [forallb]. rewrite (IH m x Ht Ex), andb_true_r.
        (* ch comes from decode: it passed is_scalar *)
        unfold try_escape in E. destruct t as [|u r]; [discriminate|]. destruct (u =? LOWER_U); [|discriminate].
        destruct r as [|b r1]; [discriminate|]. destruct (b =? LBRACE).
        -- destruct (take_hex 6 r1) as [hs r2]. destruct hs as [|h hs']; [discriminate|]. destruct r2 as [|c2 r3]; [discriminate|].
           destruct (c2 =? RBRACE); [|discriminate]. unfold decode in E.
           destruct (is_scalar (hexnum 0 (h :: hs'))) eqn:Esc; [inversion E; subst; exact Esc|discriminate].
        -- unfold four_digits in E. destruct (take_hex 4 (b :: r1)) as [hs r2]. destruct (Nat.eqb (List.length hs) 4); [|discriminate].
           unfold decode in E. destruct (is_scalar (hexnum 0 hs)) eqn:Esc; [inversion E; subst; exact Esc|discriminate].
      * discriminate.
    + destruct (unescape_go 0 t) as [x|] eqn:Ex; [|discriminate]. cbn [bind] in H. inversion H; subst o.
      cbn [forallb]. rewrite Hc. exact (IH 0%nat x Ht Ex).
Qed.

Lemma unescape_scalar : forall s o, forallb is_scalar s = true -> unescape s = ROk o -> forallb is_scalar o = true.
Proof.
  intros s o Hs H. unfold unescape in H. destruct (cmp_eval CF.str_len_cmp _ _); [discriminate|].
  exact (unescape_go_scalar s 0 o Hs H).
Qed.

(* ================================================================== POS numbering *)
Lemma posrow_eqb_eq : forall a b, posrow_eqb a b = true <-> a = b.
Proof.
  induction a as [|x a IH]; destruct b as [|y b]; cbn [posrow_eqb]; split; intros H; try reflexivity; try discriminate.
  - apply andb_true_iff in H as [H1 H2]. apply text_eqb_eq in H1. apply IH in H2. subst. reflexivity.
  - inversion H; subst. apply andb_true_iff. split; [apply text_eqb_eq; reflexivity|apply IH; reflexivity].
Qed.

Lemma index_of_row_some : forall p l i r, index_of_row p l i = Some r ->
  exists n, r = i + N.of_nat n /\ nth_error l n = Some p /\ forall m q, (m < n)%nat -> nth_error l m = Some q -> q <> p.
Proof.
  induction l as [|x t IH]; intros i r H; cbn [index_of_row] in H; [discriminate|].
  destruct (posrow_eqb x p) eqn:E.
  - inversion H; subst. apply posrow_eqb_eq in E. subst x. exists 0%nat. split; [lia|]. split; [reflexivity|]. intros m q Hm. lia.
  - destruct (IH _ _ H) as (n & -> & Hn & Hfirst). exists (S n). split; [lia|]. split; [exact Hn|].
    intros m q Hm Hq. destruct m as [|m]; cbn [nth_error] in Hq.
    + inversion Hq; subst. intros ->. assert (posrow_eqb p p = true) by (apply posrow_eqb_eq; reflexivity). congruence.
    + apply (Hfirst m q); [lia|exact Hq].
Qed.

Lemma index_of_row_none : forall p l i, index_of_row p l i = None <-> ~ In p l.
Proof.
  induction l as [|x t IH]; intros i; cbn [index_of_row In]; [tauto|].
  destruct (posrow_eqb x p) eqn:E.
  - apply posrow_eqb_eq in E. subst x. split; [discriminate|]. intros H. exfalso. apply H. left. reflexivity.
  - rewrite IH. split; [|tauto]. intros H [Hx|Hin]; [|tauto]. subst x.
    assert (posrow_eqb p p = true) by (apply posrow_eqb_eq; reflexivity). congruence.
Qed.

Lemma NoDup_snoc : forall {A} (l : list A) a, NoDup l -> ~ In a l -> NoDup (l ++ [a]).
Proof.
  induction l as [|x t IH]; intros a Hnd Hin; cbn [app]; [constructor; [intros []|constructor]|].
  inversion Hnd; subst. constructor.
  - intros Hc. apply in_app_or in Hc as [Hc|[Hc|[]]]; [contradiction|]. subst. apply Hin. left. reflexivity.
  - apply IH; [assumption|]. intros Hc. apply Hin. right. exact Hc.
Qed.

(* the limit facts the numbering rests on *)
Definition pos_limit_ok : bool :=
  (match CF.pos_limit_cmp with CGt => true | _ => false end) && (0 <=? CF.MAX_POS_IDS)%Z && (CF.MAX_POS_IDS <=? 65534)%Z.

Definition pos_inv (st : pos_state) : Prop := NoDup st /\ (Z.of_nat (List.length st) <= CF.MAX_POS_IDS + 1)%Z.

Lemma pos_of_spec : pos_limit_ok = true -> forall st p st' id, pos_inv st -> pos_of st p = ROk (st', id) ->
  pos_inv st' /\ nth_error st' (N.to_nat id) = Some p /\ (Z.of_N id <= CF.MAX_POS_IDS)%Z /\
  ((In p st /\ st' = st) \/ (~ In p st /\ st' = st ++ [p] /\ id = N.of_nat (List.length st))).
Proof.
  unfold pos_limit_ok. intros HL st p st' id [Hnd Hlen] H.
  apply andb_true_iff in HL as [HL H65]. apply andb_true_iff in HL as [Hcmp H0].
  unfold pos_of in H. destruct (index_of_row p st 0) as [i|] eqn:E.
  - inversion H; subst st' id. destruct (index_of_row_some _ _ _ _ E) as (n & -> & Hn & _).
    split; [split; assumption|]. split; [replace (N.to_nat (0 + N.of_nat n)) with n by lia; exact Hn|].
    assert (n < List.length st)%nat by (apply nth_error_Some; congruence).
    split; [lia|]. left. split; [eapply nth_error_In; exact Hn|reflexivity].
  - destruct CF.pos_limit_cmp; try discriminate. cbn [cmp_eval] in H.
    destruct (Z.of_nat (List.length st) >? CF.MAX_POS_IDS)%Z eqn:Eg; [discriminate|].
    inversion H; subst st' id. apply (index_of_row_none p st 0) in E.
    assert (Hle : (Z.of_nat (List.length st) <= CF.MAX_POS_IDS)%Z) by lia.
    split.
    + split.
      * apply NoDup_snoc; assumption.
      * rewrite app_length. cbn [List.length]. lia.
    + split; [|split; [lia|right; repeat split; [exact E|lia]]].
      replace (N.to_nat (Z.to_N (Z.of_nat (List.length st)))) with (List.length st) by lia.
      rewrite nth_error_app2 by lia. rewrite Nat.sub_diag. reflexivity.
Qed.

Lemma existsb_posrow_in : forall p st, existsb (posrow_eqb p) st = true <-> In p st.
Proof.
  intros p st. rewrite existsb_exists. split.
  - intros (x & Hin & E). apply posrow_eqb_eq in E. subst. exact Hin.
  - intros H. exists p. split; [exact H|apply posrow_eqb_eq; reflexivity].
Qed.

Lemma nth_error_app_keep : forall {A} (l l' : list A) n x, nth_error l n = Some x -> nth_error (l ++ l') n = Some x.
Proof. intros A l l' n x H. rewrite nth_error_app1; [exact H|]. apply nth_error_Some. congruence. Qed.

(* C05_pos_ids_spec *)
Theorem assign_spec : pos_limit_ok = true -> forall ps st st' ids, pos_inv st -> assign st ps = ROk (st', ids) ->
  (* the table only grows, by the new rows in order of first appearance, each once *)
  st' = st ++ new_rows st ps /\ pos_inv st' /\
  List.length ids = List.length ps /\
  (* pos_table[id] = the row, ids fit the limit (hence u16) *)
  (forall i p, nth_error ps i = Some p ->
     nth_error st' (N.to_nat (nth i ids 0%N)) = Some p /\ (Z.of_N (nth i ids 0%N) <= CF.MAX_POS_IDS)%Z).
Proof.
  intros HL. induction ps as [|p t IH]; intros st st' ids Hinv H; cbn [assign] in H.
  - inversion H; subst. cbn [new_rows]. rewrite app_nil_r. split; [reflexivity|]. split; [exact Hinv|]. split; [reflexivity|].
    intros [|i] q Hq; discriminate.
  - destruct (pos_of st p) as [[st1 id]|] eqn:Ep; [|discriminate]. cbn [bind fst snd] in H.
    destruct (assign st1 t) as [[st2 ids']|] eqn:Et; [|discriminate]. cbn [bind fst snd] in H. inversion H; subst st' ids.
    destruct (pos_of_spec HL st p st1 id Hinv Ep) as (Hinv1 & Hnth & Hle & Hcase).
    destruct (IH st1 st2 ids' Hinv1 Et) as (E2 & Hinv2 & Hlen & Hall).
    split.
    { cbn [new_rows]. destruct Hcase as [[Hin ->]|(Hnin & -> & _)].
      - rewrite (proj2 (existsb_posrow_in p st) Hin). exact E2.
      - destruct (existsb (posrow_eqb p) st) eqn:Ee; [apply existsb_posrow_in in Ee; contradiction|].
        rewrite E2, <- app_assoc. reflexivity. }
    split; [exact Hinv2|]. split; [cbn [List.length]; rewrite Hlen; reflexivity|].
    intros [|i] q Hq; cbn [nth_error nth] in *.
    + inversion Hq; subst q. split; [|exact Hle]. rewrite E2. apply nth_error_app_keep. exact Hnth.
    + apply Hall. exact Hq.
Qed.

(* equal rows get equal ids and different rows different ids *)
Theorem assign_injective : pos_limit_ok = true -> forall ps st st' ids, pos_inv st -> assign st ps = ROk (st', ids) ->
  forall i j p q, nth_error ps i = Some p -> nth_error ps j = Some q -> (p = q <-> nth i ids 0 = nth j ids 0).
Proof.
  intros HL ps st st' ids Hinv H i j p q Hp Hq.
  destruct (assign_spec HL ps st st' ids Hinv H) as (_ & [Hnd _] & _ & Hall).
  destruct (Hall i p Hp) as [Hi _]. destruct (Hall j q Hq) as [Hj _]. split.
  - intros <-. assert (E : N.to_nat (nth i ids 0) = N.to_nat (nth j ids 0)).
    { apply (proj1 (NoDup_nth_error st') Hnd); [apply nth_error_Some; congruence|congruence]. }
    lia.
  - intros E. rewrite E in Hi. congruence.
Qed.

(* the numbering is the one C12's model (Model/LexSet.v: register_pos / assign_pos over interned POS) uses, for any
   injective interning of the six-string rows as numbers, as long as the limit is not hit *)
From SudachiVerif Require Model.LexSet.
Section Interned.
Variable enc : posrow -> N.
Hypothesis enc_inj : forall a b, enc a = enc b -> a = b.

Lemma index_of_interned : forall p l i, LexSet.index_of (enc p) (map enc l) i = index_of_row p l i.
Proof.
  induction l as [|x t IH]; intros i; [reflexivity|]. cbn [map LexSet.index_of index_of_row].
  destruct (posrow_eqb x p) eqn:E.
  - apply posrow_eqb_eq in E. subst x. rewrite N.eqb_refl. reflexivity.
  - destruct (enc x =? enc p) eqn:E2.
    + apply N.eqb_eq in E2. apply enc_inj in E2. subst x.
      assert (posrow_eqb p p = true) by (apply posrow_eqb_eq; reflexivity). congruence.
    + replace (N.succ i) with (i + 1) by lia. apply IH.
Qed.

Theorem assign_refines_lexset : forall ps st st' ids, assign st ps = ROk (st', ids) ->
  LexSet.assign_pos (map enc st) (map enc ps) = (map enc st', ids).
Proof.
  induction ps as [|p t IH]; intros st st' ids H; cbn [assign] in H.
  - inversion H; subst. reflexivity.
  - destruct (pos_of st p) as [[st1 id]|] eqn:Ep; [|discriminate]. cbn [bind fst snd] in H.
    destruct (assign st1 t) as [[st2 ids']|] eqn:Et; [|discriminate]. cbn [bind fst snd] in H. inversion H; subst st' ids.
    cbn [map LexSet.assign_pos]. unfold LexSet.register_pos. rewrite index_of_interned.
    unfold pos_of in Ep. destruct (index_of_row p st 0) as [i|].
    + inversion Ep; subst st1 id. cbv beta iota. rewrite (IH _ _ _ Et). reflexivity.
    + destruct (cmp_eval CF.pos_limit_cmp (Z.of_nat (List.length st)) CF.MAX_POS_IDS); [discriminate|].
      inversion Ep; subst st1 id. cbv beta iota. unfold LexSet.pos in *.
      replace (map enc st ++ [enc p]) with (map enc (st ++ [p])) by (rewrite map_app; reflexivity).
      rewrite (IH _ _ _ Et). rewrite map_length. f_equal. f_equal. lia.
Qed.
End Interned.

(* ================================================================== the POS table *)
Lemma concat_opt_app : forall a b x y, concat_opt a = Some x -> concat_opt b = Some y -> concat_opt (a ++ b) = Some (x ++ y).
Proof.
  induction a as [|o t IH]; intros b x y Ha Hb; cbn [concat_opt app] in *.
  - inversion Ha; subst. exact Hb.
  - destruct o as [o|]; [|discriminate]. destruct (concat_opt t) as [z|] eqn:Ez; [|discriminate]. inversion Ha; subst.
    rewrite (IH b z y eq_refl Hb). rewrite app_assoc. reflexivity.
Qed.
Lemma concat_opt_app_inv : forall a b z, concat_opt (a ++ b) = Some z ->
  exists x y, concat_opt a = Some x /\ concat_opt b = Some y /\ z = x ++ y.
Proof.
  induction a as [|o t IH]; intros b z H; cbn [concat_opt app] in *.
  - exists [], z. auto.
  - destruct o as [o|]; [|discriminate]. destruct (concat_opt (t ++ b)) as [w|] eqn:Ew; [|discriminate]. inversion H; subst.
    destruct (IH b w Ew) as (x & y & -> & Hy & ->). exists (o ++ x), y. repeat split; [exact Hy|rewrite app_assoc; reflexivity].
Qed.

Lemma read_strings_written : len_thresholds_ok = true -> forall ss b rest,
  Forall (fun s => forallb is_scalar s = true) ss ->
  concat_opt (map write_string ss) = Some b ->
  read_strings (List.length ss) (b ++ rest) = Some (ss, rest).
Proof.
  intros Hok. induction ss as [|s t IH]; intros b rest Hs H; cbn [map concat_opt List.length read_strings] in *.
  - inversion H. reflexivity.
  - inversion Hs as [|? ? Hs1 Hs2]; subst. destruct (write_string s) as [w|] eqn:Ew; [|discriminate].
    destruct (concat_opt (map write_string t)) as [z|] eqn:Ez; [|discriminate]. inversion H; subst b.
    rewrite <- app_assoc. rewrite (string_roundtrip Hok s w (z ++ rest) Hs1 Ew).
    rewrite (IH z rest Hs2 eq_refl). reflexivity.
Qed.

Definition posrow_ok (r : posrow) : Prop := List.length r = 6%nat /\ Forall (fun s => forallb is_scalar s = true) r.

Lemma read_pos_rows_written : len_thresholds_ok = true -> CF.POS_DEPTH = 6 -> forall rows b rest,
  Forall posrow_ok rows ->
  concat_opt (map write_string (List.concat rows)) = Some b ->
  read_pos_rows (List.length rows) (b ++ rest) = Some (rows, rest).
Proof.
  intros Hok Hd. induction rows as [|r t IH]; intros b rest Hr H; cbn [List.concat List.length read_pos_rows] in *.
  - cbn in H. inversion H. reflexivity.
  - inversion Hr as [|? ? [Hl Hs] Ht]; subst. rewrite map_app in H.
    destruct (concat_opt_app_inv _ _ _ H) as (x & y & Hx & Hy & ->).
    rewrite Hd. replace (N.to_nat 6) with (List.length r) by (rewrite Hl; reflexivity). rewrite <- app_assoc.
    pose proof (read_strings_written Hok r x (y ++ rest) Hs Hx) as K1. pose proof (IH y rest Ht Hy) as K2.
    unfold posrow, text, bytes in *. rewrite K1, K2. reflexivity.
Qed.

(* the POS table the compiler writes is read back by the grammar reader row for row *)
Theorem pos_table_roundtrip : len_thresholds_ok = true -> CF.POS_DEPTH = 6 -> forall rows b rest,
  Forall posrow_ok rows -> N.of_nat (List.length rows) < 65536 ->
  pos_table_bytes rows = Some b -> read_pos_table (b ++ rest) = Some (rows, rest).
Proof.
  intros Hok Hd rows b rest Hr Hn H. unfold pos_table_bytes in H.
  destruct (concat_opt (map write_string (List.concat rows))) as [z|] eqn:Ez; [|discriminate].
  assert (Hb : b = le16 (N.of_nat (List.length rows) mod 65536) ++ z) by (inversion H; reflexivity). subst b.
  unfold read_pos_table. rewrite <- app_assoc.
  rewrite N.mod_small by lia. rewrite read_le16_le16 by lia. rewrite Nat2N.id.
  apply (read_pos_rows_written Hok Hd); assumption.
Qed.
