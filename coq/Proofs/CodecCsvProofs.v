(* C05 — the lexicon reader's text handling: unescape (what exactly it maps), POS numbering, the POS table round trip *)
From Coq Require Import List NArith ZArith Bool String Lia ZifyBool ZifyNat ZifyN.
From SudachiVerif Require Import Model.GuardLang Model.Codec Model.CodecResolve Model.CodecCsv Proofs.CodecProofs.
From SudachiVerif Require Generated.CsvFacts.
Import ListNotations.
Open Scope N_scope.

Arguments N.add : simpl never.
Arguments N.sub : simpl never.
Arguments N.mul : simpl never.
Arguments N.ltb : simpl never.
Arguments N.leb : simpl never.
Arguments N.eqb : simpl never.

(* ================================================================== unescape *)
Definition all_hex (hs : text) : bool := forallb is_hex hs.

(* the two escape forms of the regex, as texts *)
Definition braces_form (hs : text) : text := [BACKSLASH; LOWER_U; LBRACE] ++ hs ++ [RBRACE].
Definition four_form (hs : text) : text := [BACKSLASH; LOWER_U] ++ hs.

(* s begins with an escape the regex matches (whatever scalar or not it names) *)
Definition starts_escape (s : text) : Prop :=
  (exists hs r, all_hex hs = true /\ (1 <= List.length hs <= 6)%nat /\ s = braces_form hs ++ r)
  \/ (exists hs r, all_hex hs = true /\ List.length hs = 4%nat /\ s = four_form hs ++ r).

Lemma rbrace_not_hex : is_hex RBRACE = false.
Proof. reflexivity. Qed.
Lemma lbrace_not_hex : is_hex LBRACE = false.
Proof. reflexivity. Qed.

(* take_hex returns a run of hex digits of at most `max`, followed by the rest; it stops early only before a non-digit *)
Lemma take_hex_spec : forall max s hs r, take_hex max s = (hs, r) ->
  s = hs ++ r /\ all_hex hs = true /\ (List.length hs <= max)%nat /\
  ((List.length hs < max)%nat -> match r with c :: _ => is_hex c = false | [] => True end).
Proof.
  induction max as [|k IH]; intros s hs r H; cbn [take_hex] in H.
  - inversion H; subst. split; [reflexivity|]. split; [reflexivity|]. split; [cbn; lia|]. cbn. lia.
  - destruct s as [|c t].
    + inversion H; subst. split; [reflexivity|]. split; [reflexivity|]. split; [cbn; lia|]. intros _. exact I.
    + destruct (is_hex c) eqn:E.
      * destruct (take_hex k t) as [h r'] eqn:Et. inversion H; subst.
        destruct (IH _ _ _ Et) as (E1 & E2 & E3 & E4). subst t.
        split; [reflexivity|]. split; [cbn [all_hex forallb]; rewrite E; exact E2|].
        split; [cbn [List.length]; lia|]. intros Hl. apply E4. cbn [List.length] in Hl. lia.
      * inversion H; subst. split; [reflexivity|]. split; [reflexivity|]. split; [cbn; lia|]. intros _. exact E.
Qed.

Lemma take_hex_run : forall hs max r, all_hex hs = true -> (List.length hs <= max)%nat ->
  ((List.length hs < max)%nat -> match r with c :: _ => is_hex c = false | [] => True end) ->
  take_hex max (hs ++ r) = (hs, r).
Proof.
  induction hs as [|h t IH]; intros max r Hh Hl Hr.
  - cbn [app]. destruct max as [|k]; [reflexivity|]. cbn [take_hex]. destruct r as [|c r']; [reflexivity|].
    rewrite Hr by (cbn; lia). reflexivity.
  - cbn [all_hex forallb] in Hh. apply andb_true_iff in Hh as [Hh1 Hh2].
    destruct max as [|k]; [cbn in Hl; lia|]. cbn [app take_hex]. rewrite Hh1.
    rewrite (IH k r Hh2); [reflexivity|cbn in Hl; lia|]. intros Hlt. apply Hr. cbn [List.length]. lia.
Qed.

(* what try_escape finds, in terms of the two forms *)
Lemma try_escape_braces : forall hs r, all_hex hs = true -> (1 <= List.length hs <= 6)%nat ->
  try_escape (LOWER_U :: LBRACE :: hs ++ RBRACE :: r) = decode hs (3 + List.length hs).
Proof.
  intros hs r Hh Hl. cbn [try_escape]. rewrite !N.eqb_refl.
  rewrite (take_hex_run hs 6 (RBRACE :: r) Hh) by (try lia; intros _; exact rbrace_not_hex).
  destruct hs as [|h t]; [cbn in Hl; lia|]. rewrite N.eqb_refl. reflexivity.
Qed.

Lemma first_hex_not_lbrace : forall h, is_hex h = true -> (h =? LBRACE) = false.
Proof.
  intros h H. destruct (h =? LBRACE) eqn:E; [|reflexivity]. apply N.eqb_eq in E. subst h. discriminate.
Qed.

Lemma try_escape_four : forall hs r, all_hex hs = true -> List.length hs = 4%nat ->
  try_escape (LOWER_U :: hs ++ r) = decode hs 5.
Proof.
  intros hs r Hh Hl. cbn [try_escape]. rewrite N.eqb_refl.
  destruct hs as [|h t]; [discriminate|]. cbn [app].
  assert (Hh' := Hh). cbn [all_hex forallb] in Hh'. apply andb_true_iff in Hh' as [Hh1 _].
  rewrite (first_hex_not_lbrace h Hh1). unfold four_digits.
  change (h :: t ++ r) with ((h :: t) ++ r). rewrite (take_hex_run (h :: t) 4 r Hh) by lia.
  rewrite Hl. reflexivity.
Qed.

Lemma decode_not_none : forall hs n, decode hs n <> EscNone.
Proof. intros hs n. unfold decode. destruct (is_scalar (hexnum 0 hs)); discriminate. Qed.

Lemma try_escape_not_none : forall t, try_escape t <> EscNone -> starts_escape (BACKSLASH :: t).
Proof.
  intros t Hne. unfold try_escape in Hne.
  destruct t as [|u r]; [exfalso; apply Hne; reflexivity|].
  destruct (u =? LOWER_U) eqn:Eu; [apply N.eqb_eq in Eu; subst u|exfalso; apply Hne; reflexivity].
  destruct r as [|b r1]; [exfalso; apply Hne; reflexivity|].
  destruct (b =? LBRACE) eqn:Eb.
  - apply N.eqb_eq in Eb. subst b.
    destruct (take_hex 6 r1) as [hs r2] eqn:Et. destruct (take_hex_spec _ _ _ _ Et) as (E1 & E2 & E3 & _).
    destruct hs as [|h hs']; [exfalso; apply Hne; reflexivity|].
    destruct r2 as [|c r3]; [exfalso; apply Hne; reflexivity|].
    destruct (c =? RBRACE) eqn:Ec; [apply N.eqb_eq in Ec; subst c|exfalso; apply Hne; reflexivity].
    left. exists (h :: hs'), r3. split; [exact E2|]. split; [cbn [List.length] in *; lia|].
    unfold braces_form. rewrite E1. cbn [app]. rewrite <- app_assoc. reflexivity.
  - unfold four_digits in Hne. destruct (take_hex 4 (b :: r1)) as [hs r2] eqn:Et.
    destruct (take_hex_spec _ _ _ _ Et) as (E1 & E2 & E3 & _).
    destruct (Nat.eqb (List.length hs) 4) eqn:El; [apply Nat.eqb_eq in El|exfalso; apply Hne; reflexivity].
    right. exists hs, r2. split; [exact E2|]. split; [exact El|]. unfold four_form. cbn [app]. rewrite E1. reflexivity.
Qed.

Lemma try_escape_none_iff : forall t, try_escape t = EscNone <-> ~ starts_escape (BACKSLASH :: t).
Proof.
  intros t. split.
  - intros H [(hs & r & Hh & Hl & E)|(hs & r & Hh & Hl & E)]; unfold braces_form, four_form in E; cbn [app] in E;
      inversion E; subst t.
    + rewrite <- app_assoc in H. cbn [app] in H. rewrite (try_escape_braces hs r Hh Hl) in H.
      exact (decode_not_none _ _ H).
    + rewrite (try_escape_four hs r Hh Hl) in H. exact (decode_not_none _ _ H).
  - intros Hn. destruct (try_escape t) eqn:E; [reflexivity| |]; exfalso; apply Hn; apply try_escape_not_none; rewrite E; discriminate.
Qed.

(* the skip counter jumps over exactly the code points of the escape *)
Lemma unescape_go_skip : forall pre r, unescape_go (List.length pre) (pre ++ r) = unescape_go 0 r.
Proof. induction pre as [|c t IH]; intros r; [reflexivity|]. cbn [List.length app unescape_go]. apply IH. Qed.

Lemma unescape_go_cons0 : forall c t,
  unescape_go 0 (c :: t) =
  if c =? BACKSLASH then
    match try_escape t with
    | EscChar ch n => do r <- unescape_go n t; ROk (ch :: r)
    | EscBad hs => RErr (EChar hs)
    | EscNone => do r <- unescape_go 0 t; ROk (c :: r)
    end
  else do r <- unescape_go 0 t; ROk (c :: r).
Proof. reflexivity. Qed.

Definition decoded_or_err (hs : text) (k : res text) : res text :=
  if is_scalar (hexnum 0 hs) then (do x <- k; ROk (hexnum 0 hs :: x)) else RErr (EChar hs).

(* C05_unescape_spec: the four equations determine unescape_go 0 on every text *)
Theorem unescape_spec :
  unescape_go 0 [] = ROk []
  /\ (forall hs r, all_hex hs = true -> (1 <= List.length hs <= 6)%nat ->
        unescape_go 0 (braces_form hs ++ r) = decoded_or_err hs (unescape_go 0 r))
  /\ (forall hs r, all_hex hs = true -> List.length hs = 4%nat ->
        unescape_go 0 (four_form hs ++ r) = decoded_or_err hs (unescape_go 0 r))
  /\ (forall c t, ~ starts_escape (c :: t) -> unescape_go 0 (c :: t) = (do x <- unescape_go 0 t; ROk (c :: x))).
Proof.
  split; [reflexivity|]. split; [|split].
  - intros hs r Hh Hl. unfold braces_form. cbn [app]. rewrite unescape_go_cons0, N.eqb_refl.
    rewrite <- app_assoc. cbn [app]. rewrite (try_escape_braces hs r Hh Hl). unfold decode, decoded_or_err.
    destruct (is_scalar (hexnum 0 hs)); [|reflexivity].
    replace (3 + List.length hs)%nat with (List.length (LOWER_U :: LBRACE :: hs ++ [RBRACE]))
      by (cbn [List.length]; rewrite app_length; cbn [List.length]; lia).
    replace (LOWER_U :: LBRACE :: hs ++ RBRACE :: r) with ((LOWER_U :: LBRACE :: hs ++ [RBRACE]) ++ r)
      by (cbn [app]; rewrite <- app_assoc; reflexivity).
    rewrite unescape_go_skip. reflexivity.
  - intros hs r Hh Hl. unfold four_form. cbn [app]. rewrite unescape_go_cons0, N.eqb_refl.
    rewrite (try_escape_four hs r Hh Hl). unfold decode, decoded_or_err.
    destruct (is_scalar (hexnum 0 hs)); [|reflexivity].
    replace 5%nat with (List.length (LOWER_U :: hs)) by (cbn [List.length]; lia).
    change (LOWER_U :: hs ++ r) with ((LOWER_U :: hs) ++ r). rewrite unescape_go_skip. reflexivity.
  - intros c t Hn. rewrite unescape_go_cons0. destruct (c =? BACKSLASH) eqn:Ec; [|reflexivity].
    apply N.eqb_eq in Ec. subst c. rewrite (proj2 (try_escape_none_iff t) Hn). reflexivity.
Qed.

(* the forms are exclusive: a text starts with at most one of them, with determined digits *)
Lemma starts_escape_backslash : forall c t, starts_escape (c :: t) -> c = BACKSLASH.
Proof.
  intros c t [(hs & r & _ & _ & E)|(hs & r & _ & _ & E)]; unfold braces_form, four_form in E; cbn [app] in E; inversion E; reflexivity.
Qed.

(* C05_unescape_plain *)
Theorem unescape_go_plain : forall s, existsb (fun c => c =? BACKSLASH) s = false -> unescape_go 0 s = ROk s.
Proof.
  induction s as [|c t IH]; intros H; [reflexivity|].
  cbn [existsb] in H. apply orb_false_iff in H as [H1 H2].
  rewrite unescape_go_cons0, H1, (IH H2). reflexivity.
Qed.

Theorem unescape_plain : forall s, existsb (fun c => c =? BACKSLASH) s = false ->
  unescape s = if cmp_eval CF.str_len_cmp (Z.of_N (utf8_len s)) CF.MAX_DIC_STRING_LEN then RErr ESize else ROk s.
Proof. intros s H. unfold unescape. rewrite (unescape_go_plain s H). reflexivity. Qed.

(* what unescape returns consists of scalar values when the field does *)
Lemma unescape_go_scalar : forall s n o, forallb is_scalar s = true -> unescape_go n s = ROk o -> forallb is_scalar o = true.
Proof.
  induction s as [|c t IH]; intros n o Hs H; cbn [unescape_go] in H.
  - inversion H. reflexivity.
  - cbn [forallb] in Hs. apply andb_true_iff in Hs as [Hc Ht].
    destruct n as [|k]; [|apply (IH k o Ht H)].
    destruct (c =? BACKSLASH).
    + destruct (try_escape t) as [|ch m|hs] eqn:E.
      * destruct (unescape_go 0 t) as [x|] eqn:Ex; [|discriminate]. cbn [bind] in H. inversion H; subst o.
        cbn [forallb]. rewrite Hc. exact (IH 0%nat x Ht Ex).
      * destruct (unescape_go m t) as [x|] eqn:Ex; [|discriminate]. cbn [bind] in H. inversion H; subst o.
        cbn [forallb]. rewrite (IH m x Ht Ex), andb_true_r.
        (* ch comes from decode: it passed is_scalar *)
        unfold try_escape in E. destruct t as [|u r]; [discriminate|]. destruct (u =? LOWER_U); [|discriminate].
        destruct r as [|b r1]; [discriminate|]. destruct (b =? LBRACE).
        -- destruct (take_hex 6 r1) as [hs r2]. destruct hs as [|h hs']; [discriminate|]. destruct r2 as [|c2 r3]; [discriminate|].
           destruct (c2 =? RBRACE); [|discriminate]. unfold decode in E.
           destruct (is_scalar (hexnum 0 (h :: hs'))) eqn:Esc; [inversion E; subst; exact Esc|discriminate].
        -- unfold four_digits in E. destruct (take_hex 4 (b :: r1)) as [hs r2]. destruct (Nat.eqb (List.length hs) 4); [|discriminate].
           unfold decode in E. destruct (is_scalar (hexnum 0 hs)) eqn:Esc; [inversion E; subst; exact Esc|discriminate].
      * discriminate.
    + destruct (unescape_go 0 t) as [x|] eqn:Ex; [|discriminate]. cbn [bind] in H. inversion H; subst o.
      cbn [forallb]. rewrite Hc. exact (IH 0%nat x Ht Ex).
Qed.

Lemma unescape_scalar : forall s o, forallb is_scalar s = true -> unescape s = ROk o -> forallb is_scalar o = true.
Proof.
  intros s o Hs H. unfold unescape in H. destruct (cmp_eval CF.str_len_cmp _ _); [discriminate|].
  exact (unescape_go_scalar s 0 o Hs H).
Qed.
