(* C18: (a) the correspondence evaluator `check_interleave` is sound for the statement of the theorem: an accepted observed run
   gives every thread exactly the sequential results of the texts it analysed; (b) a protocol whose steps may write the shared
   value coincides with the read-only protocol as soon as no step changes it -- the premise the regenerated inventory
   (Generated/MutAudit.v) ties to the code. *)
From Coq Require Import List Arith Bool NArith Lia.
From SudachiVerif Require Import Model.Interleave Proofs.InterleaveProofs.
Import ListNotations.

Lemma ev_eqb_eq : forall a b, ev_eqb a b = true -> a = b.
Proof.
  intros [a1 a2] [b1 b2] H. unfold ev_eqb in H. cbn [fst snd] in H.
  apply andb_true_iff in H. destruct H as [H1 H2].
  apply Nat.eqb_eq in H1. apply N.eqb_eq in H2. subst. reflexivity.
Qed.

Lemma evs_eqb_eq : forall a b, evs_eqb a b = true -> a = b.
Proof.
  induction a as [|x a IH]; intros [|y b] H; cbn [evs_eqb] in H; try discriminate; auto.
  apply andb_true_iff in H. destruct H as [H1 H2]. apply ev_eqb_eq in H1. apply IH in H2. subst. reflexivity.
Qed.

(* a thread that has texts left pops them in order: its solo outputs are the table entries of the first k texts *)
Lemma solo_tstep : forall (d : tbl) k (s : list N), k <= length s ->
  snd (solo tbl (list N) N tstep d s k) = map (lookup d) (firstn k s) /\
  fst (solo tbl (list N) N tstep d s k) = skipn k s.
Proof.
  intros d. induction k as [|k IH]; intros s Hk; cbn [solo firstn skipn map].
  - cbn. auto.
  - destruct s as [|x r]; cbn [length] in Hk; [lia|].
    cbn [tstep]. specialize (IH r ltac:(lia)).
    destruct (solo tbl (list N) N tstep d r k) as [s'' os]. cbn [fst snd] in *.
    destruct IH as [-> ->]. cbn [firstn skipn map]. auto.
Qed.

Theorem check_interleave_sound : forall d streams events,
  check_interleave d streams events = true ->
  forall t s, nth_error streams t = Some s ->
    let k := count_occ Nat.eq_dec (map fst events) t in
    outputs_of N t events = snd (solo tbl (list N) N tstep d s k).
Proof.
  intros d streams events H t s Hs k. unfold check_interleave in H. apply evs_eqb_eq in H.
  destruct (interleaving_noninterference tbl (list N) N tstep d (map fst events) streams t s Hs) as [H1 _].
  rewrite H in H1. exact H1.
Qed.

Corollary check_interleave_sequential : forall d streams events,
  check_interleave d streams events = true ->
  forall t s, nth_error streams t = Some s ->
    let k := count_occ Nat.eq_dec (map fst events) t in
    k <= length s ->
    outputs_of N t events = map (lookup d) (firstn k s).
Proof.
  intros d streams events H t s Hs k Hk.
  rewrite (check_interleave_sound d streams events H t s Hs).
  apply (solo_tstep d k s Hk).
Qed.

Section W.
  Variables (D St Out : Type).
  Variable stepw : D -> St -> D * (St * Out).

  (* no step changes the shared value  ==>  the run IS a run of the read-only protocol, the shared value is untouched *)
  Theorem read_only_runw : read_only D St Out stepw ->
    forall sched d st,
      runw D St Out stepw d st sched = (d, run D St Out (proj_step D St Out stepw) d st sched).
  Proof.
    intros Hro. induction sched as [|t rest IH]; intros d st; cbn [runw run].
    - reflexivity.
    - destruct (nth_error st t) as [s|] eqn:Et; [|apply IH].
      unfold proj_step at 1. pose proof (Hro d s) as Hd.
      destruct (stepw d s) as [d' [s' o]]. cbn [fst snd] in *. subst d'.
      rewrite IH. destruct (run D St Out (proj_step D St Out stepw) d (upd St st t s') rest) as [st' outs].
      reflexivity.
  Qed.

  Corollary read_only_noninterference : read_only D St Out stepw ->
    forall d sched st t s, nth_error st t = Some s ->
      fst (runw D St Out stepw d st sched) = d /\
      outputs_of Out t (snd (snd (runw D St Out stepw d st sched))) =
        snd (solo D St Out (proj_step D St Out stepw) d s (count_occ Nat.eq_dec sched t)).
  Proof.
    intros Hro d sched st t s Hs. rewrite (read_only_runw Hro). cbn [fst snd]. split; [reflexivity|].
    apply (interleaving_noninterference D St Out (proj_step D St Out stepw) d sched st t s Hs).
  Qed.
End W.
