(* The i32 lattice coincides with the exact one whenever costs are bounded: no overflow, no sentinel clash. *)
From Coq Require Import List ZArith NArith Bool Arith Lia.
From SudachiVerif Require Import Model.Lattice Model.LatticeM Proofs.LatticeProofs.
Import ListNotations.
Open Scope Z_scope.

Section Sim.
  Variable checked : bool.
  Variable conn : N -> N -> Z.
  Variables K1 K2 : Z.
  Hypothesis conn_bounded : forall l r, - K1 <= conn l r <= K1.
  Hypothesis K1_nonneg : 0 <= K1.
  Hypothesis K2_nonneg : 0 <= K2.

  Definition accrel (acc : option (nat * Z)) (m : option nat * Z) : Prop :=
    match acc with
    | None => fst m = None /\ snd m = MAX32
    | Some (i, c) => fst m = Some i /\ snd m = c /\ c < MAX32
    end.

  Definition row_bounded (B : Z) (es : list entry) : Prop :=
    forall e t, In e es -> etotal e = Some t -> - B <= t <= B.

  Lemma add32_in_range a b : MIN32 <= a + b <= MAX32 -> add32 checked a b = Ok (a + b).
  Proof.
    intros H. unfold add32. cbv zeta.
    replace ((MIN32 <=? a + b) && (a + b <=? MAX32)) with true; [reflexivity|].
    symmetry. apply andb_true_intro. split; apply Z.leb_le; lia.
  Qed.

  Lemma mscan_sim B lft cst : 0 <= B -> - K2 <= cst <= K2 -> B + K1 + K2 < MAX32 ->
    forall es i acc best minc, row_bounded B es -> accrel acc (best, minc) ->
    exists best' minc', mscan checked conn (map emb es) i lft cst best minc = Ok (best', minc') /\
                        accrel (scan conn es i lft cst acc) (best', minc').
  Proof.
    intros HB Hcst Hsum. unfold MAX32 in Hsum.
    induction es as [|e es IH]; intros i acc best minc Hb Hacc; cbn [map mscan scan].
    - eauto.
    - assert (Hb' : row_bounded B es) by (intros e' t' Hin; apply Hb; cbn; auto).
      destruct (etotal e) as [t|] eqn:Et.
      + pose proof (Hb e t (or_introl eq_refl) Et) as Ht.
        pose proof (conn_bounded (eright e) lft) as Hc.
        cbn [emb mtotal]. rewrite Et. cbn [embed].
        replace (t =? MAX32) with false by (symmetry; apply Z.eqb_neq; unfold MAX32; lia).
        replace (mright (emb e)) with (eright e) by reflexivity.
        rewrite add32_in_range by (unfold MIN32, MAX32; lia).
        rewrite add32_in_range by (unfold MIN32, MAX32; lia).
        destruct acc as [[j m]|]; cbn in Hacc.
        * destruct Hacc as (-> & -> & Hm).
          destruct (t + conn (eright e) lft + cst <? m) eqn:E.
          -- apply IH; [exact Hb'|]. cbn. repeat split; auto. unfold MAX32; lia.
          -- apply IH; [exact Hb'|]. cbn. auto.
        * destruct Hacc as (-> & ->).
          replace (t + conn (eright e) lft + cst <? MAX32) with true
            by (symmetry; apply Z.ltb_lt; unfold MAX32; lia).
          apply IH; [exact Hb'|]. cbn. repeat split; auto. unfold MAX32; lia.
      + cbn [emb mtotal]. rewrite Et. cbn [embed]. rewrite Z.eqb_refl. apply IH; assumption.
  Qed.

  Lemma mrow_emb L i : mrow (embL L) i = map emb (row L i).
  Proof. unfold mrow, row, embL. rewrite <- (map_nth (map emb)). reflexivity. Qed.

  Lemma mpush_emb L : forall i e, mpush_row (embL L) i (emb e) = embL (push_row L i e).
  Proof.
    induction L as [|r L IH]; intros [|i] e; cbn; auto.
    - rewrite map_app. reflexivity.
    - f_equal. apply IH.
  Qed.

  (* every stored total in row i is bounded by i * (K1 + K2) *)
  Definition lat_bounded (L : lattice) : Prop :=
    forall i e t, In e (row L i) -> etotal e = Some t ->
                  - (Z.of_nat i * (K1 + K2)) <= t <= Z.of_nat i * (K1 + K2).

  Lemma lat_bounded_reset len : lat_bounded (reset len).
  Proof.
    intros i e t. rewrite row_reset. destruct (Nat.eqb_spec i 0); [|intros []].
    intros [<-|[]]. cbn. intros H; inversion H; subst. lia.
  Qed.

  Lemma connect_bounded L b lft cst i c :
    lat_bounded L -> - K2 <= cst <= K2 ->
    connect_node conn L b lft cst = Some (i, c) ->
    - ((Z.of_nat b + 1) * (K1 + K2)) <= c <= (Z.of_nat b + 1) * (K1 + K2).
  Proof.
    intros HB Hcst H. unfold connect_node in H.
    destruct (scan_witness conn _ _ _ _ _ _ _ H) as [Hx|(e & t & _ & Hn & Ht & Hc)]; [discriminate|].
    rewrite Nat.sub_0_r in Hn. apply nth_error_In in Hn.
    pose proof (HB b e t Hn Ht). pose proof (conn_bounded (eright e) lft). nia.
  Qed.

  Lemma insert_bounded len L n :
    length L = S len -> lat_bounded L -> (nbeg n < nend n)%nat -> (nend n <= len)%nat -> - K2 <= ncost n <= K2 ->
    lat_bounded (fst (insert conn L n)).
  Proof.
    intros HL HB Hlt Hle Hc i e t. unfold insert.
    destruct (connect_node conn L (nbeg n) (nleft n) (ncost n)) as [[j c]|] eqn:Ec; cbn [fst];
      rewrite row_push by lia; (destruct (Nat.eqb_spec i (nend n)); [|apply HB]);
      intros Hin; apply in_app_or in Hin; (destruct Hin as [Hin|[<-|[]]]; [apply HB; exact Hin|]); cbn [etotal];
      intros Ht; inversion Ht; subst.
    pose proof (connect_bounded L (nbeg n) (nleft n) (ncost n) j t HB Hc Ec). nia.
  Qed.

  Lemma insert_length L n : length (fst (insert conn L n)) = length L.
  Proof.
    unfold insert. destruct (connect_node conn L (nbeg n) (nleft n) (ncost n)) as [[j c]|]; cbn [fst]; apply push_length.
  Qed.

  Lemma mconnect_sim len L b lft cst :
    lat_bounded L -> (b <= len)%nat -> - K2 <= cst <= K2 -> (Z.of_nat len + 1) * (K1 + K2) < MAX32 ->
    exists best minc, mconnect_node checked conn (embL L) b lft cst = Ok (best, minc) /\
                      accrel (connect_node conn L b lft cst) (best, minc).
  Proof.
    intros HB Hb Hcst Hsum. unfold mconnect_node, connect_node. rewrite mrow_emb.
    apply (mscan_sim (Z.of_nat b * (K1 + K2))); auto; try nia.
    - intros e t Hin Ht. apply (HB b e t Hin Ht).
    - cbn. auto.
  Qed.

  Lemma minsert_sim len L n :
    length L = S len -> lat_bounded L -> (nbeg n < nend n)%nat -> (nend n <= len)%nat -> - K2 <= ncost n <= K2 ->
    (Z.of_nat len + 1) * (K1 + K2) < MAX32 ->
    minsert checked conn (embL L) n = Ok (embL (fst (insert conn L n)), embed (snd (insert conn L n))).
  Proof.
    intros HL HB Hlt Hle Hc Hsum. unfold minsert, insert.
    destruct (mconnect_sim len L (nbeg n) (nleft n) (ncost n) HB) as (best & minc & -> & Hr); auto; [lia|].
    destruct (connect_node conn L (nbeg n) (nleft n) (ncost n)) as [[j c]|]; cbn in Hr.
    - destruct Hr as (-> & -> & _). cbn [fst snd embed option_map]. rewrite <- mpush_emb. reflexivity.
    - destruct Hr as (-> & ->). cbn [fst snd embed option_map]. rewrite <- mpush_emb. reflexivity.
  Qed.

  Lemma insert_trace_fst : forall ns L, fst (insert_trace conn L ns) = insert_all conn L ns.
  Proof.
    induction ns as [|n ns IH]; intros L; cbn [insert_trace insert_all fold_left]; [reflexivity|].
    destruct (insert conn L n) as [L' c] eqn:E. specialize (IH L').
    destruct (insert_trace conn L' ns) as [L'' cs]. cbn [fst] in *. exact IH.
  Qed.

  Lemma minsert_all_sim len : forall ns L,
    length L = S len -> lat_bounded L ->
    (forall n, In n ns -> (nbeg n < nend n)%nat /\ (nend n <= len)%nat /\ - K2 <= ncost n <= K2) ->
    (Z.of_nat len + 1) * (K1 + K2) < MAX32 ->
    minsert_all checked conn (embL L) ns =
      Ok (embL (fst (insert_trace conn L ns)), map embed (snd (insert_trace conn L ns))) /\
    lat_bounded (fst (insert_trace conn L ns)) /\ length (fst (insert_trace conn L ns)) = S len.
  Proof.
    induction ns as [|n ns IH]; intros L HL HB Hok Hsum; cbn [minsert_all insert_trace].
    - cbn. auto.
    - destruct (Hok n (or_introl eq_refl)) as (H1 & H2 & H3).
      rewrite (minsert_sim len L n HL HB H1 H2 H3 Hsum).
      pose proof (insert_bounded len L n HL HB H1 H2 H3) as HB'.
      pose proof (insert_length L n) as HL'.
      destruct (insert conn L n) as [L' c] eqn:E. cbn [fst snd] in *.
      destruct (IH L') as (E1 & E2 & E3); auto; [congruence|intros; apply Hok; cbn; auto|].
      rewrite E1. destruct (insert_trace conn L' ns) as [L'' cs]. cbn [fst snd map] in *. auto.
  Qed.

  (* i32_exact_if_bounded: in either overflow mode the machine lattice never panics and equals the exact lattice *)
  Theorem i32_exact_if_bounded len ns :
    (forall n, In n ns -> (nbeg n < nend n)%nat /\ (nend n <= len)%nat /\ - K2 <= ncost n <= K2) ->
    (Z.of_nat len + 1) * (K1 + K2) < MAX32 ->
    let L := insert_all conn (reset len) ns in
    exists cs, minsert_all checked conn (mreset len) ns = Ok (embL L, cs) /\
               mconnect_eos checked conn (embL L) = Ok (connect_eos conn L).
  Proof.
    intros Hok Hsum L.
    assert (Hr : mreset len = embL (reset len)).
    { unfold mreset, embL, reset. cbn. f_equal. clear. induction len; cbn; [reflexivity|f_equal; assumption]. }
    destruct (minsert_all_sim len ns (reset len)) as (E1 & E2 & E3); auto.
    { unfold reset. cbn. rewrite repeat_length. reflexivity. }
    { apply lat_bounded_reset. }
    rewrite insert_trace_fst in *. fold L in E1, E2, E3.
    eexists. split; [rewrite Hr; exact E1|].
    assert (Hlen : length (embL L) = length L) by (unfold embL; apply map_length).
    unfold mconnect_eos, connect_eos. rewrite Hlen, E3.
    cbn [Nat.sub]. rewrite Nat.sub_0_r.
    destruct (mconnect_sim len L len 0%N 0 E2) as (best & minc & -> & Hrel); auto; [lia|].
    destruct (connect_node conn L len 0%N 0) as [[j c]|]; cbn in Hrel.
    - destruct Hrel as (-> & -> & Hlt). replace (c =? MAX32) with false by (symmetry; apply Z.eqb_neq; lia). reflexivity.
    - destruct Hrel as (-> & ->). rewrite Z.eqb_refl. reflexivity.
  Qed.
End Sim.
