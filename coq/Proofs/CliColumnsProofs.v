(* The column format of the command-line tool is the documented one and loses nothing: the printed sentence is the
   morphemes' columns joined by tabs, one line per morpheme, closed by "EOS"; reading it back yields exactly the columns. *)
From Coq Require Import List NArith ZArith Bool Arith Lia ZifyBool ZifyNat ZifyN.
From SudachiVerif Require Import Model.Harness Model.Cli Model.CliColumns Proofs.CliProofs.
Import ListNotations.
Open Scope N_scope.
Ltac Zify.zify_post_hook ::= Z.div_mod_to_equations.
Arguments N.add : simpl never.
Arguments N.sub : simpl never.
Arguments N.eqb : simpl never.
Arguments N.leb : simpl never.
Arguments N.ltb : simpl never.
Arguments N.modulo : simpl never.
Arguments N.div : simpl never.

(* ---------- has ---------- *)
Lemma has_app b x y : has b (x ++ y) = has b x || has b y.
Proof. unfold has. apply existsb_app. Qed.

Lemma has_cons b a l : has b (a :: l) = (a =? b) || has b l.
Proof. reflexivity. Qed.

Definition ge32 (l : list N) : bool := forallb (fun x => 32 <=? x) l.

Lemma ge32_app x y : ge32 (x ++ y) = ge32 x && ge32 y.
Proof. unfold ge32. apply forallb_app. Qed.

Lemma ge32_has b l : b < 32 -> ge32 l = true -> has b l = false.
Proof.
  intros Hb. induction l as [|a l IH]; [reflexivity|].
  intros H. cbn [ge32 forallb] in H. apply andb_prop in H as [Ha Hl]. apply N.leb_le in Ha.
  rewrite has_cons, (IH Hl), orb_false_r. apply N.eqb_neq. lia.
Qed.

Lemma ge32_clean l : ge32 l = true -> clean_field l = true.
Proof.
  intros H. unfold clean_field. rewrite !ge32_has; [reflexivity| | assumption | | assumption]; unfold LF, TAB; lia.
Qed.

(* ---------- numbers ---------- *)
Lemma dec_fuel_ge32 f : forall n, ge32 (dec_fuel f n) = true.
Proof.
  induction f as [|f IH]; intros n; cbn [dec_fuel]; [reflexivity|].
  destruct (n <? 10).
  - cbn [ge32 forallb]. rewrite andb_true_r. apply N.leb_le. lia.
  - rewrite ge32_app, IH. cbn [ge32 forallb andb]. rewrite andb_true_r. apply N.leb_le. lia.
Qed.

Lemma dec_Z_ge32 z : ge32 (dec_Z z) = true.
Proof.
  unfold dec_Z, dec_N. destruct (z <? 0)%Z.
  - change (ge32 (45 :: ?l)) with ((32 <=? 45) && ge32 l). cbn [N.leb]. rewrite dec_fuel_ge32. reflexivity.
  - apply dec_fuel_ge32.
Qed.

Lemma intercalate_ge32 sep ls :
  ge32 sep = true -> forallb ge32 ls = true -> ge32 (intercalate sep ls) = true.
Proof.
  intros Hs. induction ls as [|a [|b t] IH]; cbn [intercalate forallb]; intros H.
  - reflexivity.
  - rewrite andb_true_r in H. exact H.
  - apply andb_prop in H as [Ha Ht]. rewrite !ge32_app, Ha, Hs. cbn [andb]. apply IH. exact Ht.
Qed.

Lemma debug_list_ge32 l : ge32 (debug_list l) = true.
Proof.
  unfold debug_list. rewrite !ge32_app. cbn [ge32 forallb]. rewrite intercalate_ge32; [reflexivity|reflexivity|].
  induction l as [|a l IH]; cbn [map forallb]; [reflexivity|]. rewrite IH, andb_true_r. unfold dec_N. apply dec_fuel_ge32.
Qed.

Lemma oov_mark_ge32 : ge32 oov_mark = true.
Proof. reflexivity. Qed.

(* ---------- the part-of-speech loop is a comma join ---------- *)
Lemma pos_loop_spec : forall ps idx len,
  (idx + List.length ps = len)%nat -> pos_loop len idx ps = intercalate [COMMA] ps.
Proof.
  induction ps as [|p t IH]; intros idx len H; cbn [pos_loop intercalate]; [reflexivity|].
  destruct t as [|q t'].
  - cbn [List.length] in H. replace (Nat.eqb (S idx) len) with true by (symmetry; apply Nat.eqb_eq; lia).
    cbn [pos_loop]. rewrite !app_nil_r. reflexivity.
  - cbn [List.length] in H. replace (Nat.eqb (S idx) len) with false by (symmetry; apply Nat.eqb_neq; lia).
    rewrite (IH (S idx) len) by (cbn [List.length]; lia). reflexivity.
Qed.

Theorem pos_joined_spec ps : pos_joined ps = intercalate [COMMA] ps.
Proof. unfold pos_joined. apply pos_loop_spec. lia. Qed.

Lemma clean_field_app x y : clean_field (x ++ y) = clean_field x && clean_field y.
Proof.
  unfold clean_field. rewrite !has_app.
  destruct (has TAB x), (has TAB y), (has LF x), (has LF y); reflexivity.
Qed.

Lemma intercalate_clean sep ls :
  clean_field sep = true -> forallb clean_field ls = true -> clean_field (intercalate sep ls) = true.
Proof.
  intros Hs. induction ls as [|a [|b t] IH]; intros H.
  - reflexivity.
  - cbn [intercalate forallb] in *. rewrite andb_true_r in H. exact H.
  - change (intercalate sep (a :: b :: t)) with (a ++ sep ++ intercalate sep (b :: t)).
    change (forallb clean_field (a :: b :: t)) with (clean_field a && forallb clean_field (b :: t)) in H.
    apply andb_prop in H as [Ha Ht]. rewrite !clean_field_app, Ha, Hs, (IH Ht). reflexivity.
Qed.

(* ---------- splitting ---------- *)
Lemma split_on_aux_nosep sep : forall a cur, has sep a = false -> split_on_aux sep cur a = [rev cur ++ a].
Proof.
  induction a as [|x a IH]; intros cur H; cbn [split_on_aux].
  - rewrite app_nil_r. reflexivity.
  - rewrite has_cons in H. apply orb_false_elim in H as [Hx Ha]. rewrite Hx, (IH _ Ha). cbn [rev].
    rewrite <- app_assoc. reflexivity.
Qed.

Lemma split_on_aux_sep sep : forall a cur rest, has sep a = false ->
  split_on_aux sep cur (a ++ sep :: rest) = (rev cur ++ a) :: split_on_aux sep [] rest.
Proof.
  induction a as [|x a IH]; intros cur rest H; cbn [split_on_aux app].
  - rewrite N.eqb_refl, app_nil_r. reflexivity.
  - rewrite has_cons in H. apply orb_false_elim in H as [Hx Ha]. rewrite Hx, (IH _ _ Ha). cbn [rev].
    rewrite <- app_assoc. reflexivity.
Qed.

Lemma split_on_sep sep a rest : has sep a = false -> split_on sep (a ++ sep :: rest) = a :: split_on sep rest.
Proof. intros H. unfold split_on. rewrite split_on_aux_sep by exact H. reflexivity. Qed.

Lemma split_on_nosep sep a : has sep a = false -> split_on sep a = [a].
Proof. intros H. unfold split_on. rewrite split_on_aux_nosep by exact H. reflexivity. Qed.

(* joining fields without the separator with the separator and splitting again gives the fields back *)
Lemma split_on_intercalate sep : forall fs, fs <> [] -> forallb (fun f => negb (has sep f)) fs = true ->
  split_on sep (intercalate [sep] fs) = fs.
Proof.
  induction fs as [|a [|b t] IH]; intros Hne H; [congruence| |].
  - cbn [intercalate]. cbn [forallb] in H. rewrite andb_true_r in H. apply negb_true_iff in H.
    apply split_on_nosep. exact H.
  - change (intercalate [sep] (a :: b :: t)) with (a ++ sep :: intercalate [sep] (b :: t)).
    change (forallb (fun f => negb (has sep f)) (a :: b :: t))
      with (negb (has sep a) && forallb (fun f => negb (has sep f)) (b :: t)) in H.
    apply andb_prop in H as [Ha Ht]. apply negb_true_iff in Ha.
    rewrite split_on_sep by exact Ha. f_equal. apply IH; [congruence|exact Ht].
Qed.

(* ---------- one line ---------- *)
Lemma line_is_joined all m : line all m = intercalate [TAB] (fields all m).
Proof.
  unfold line, basic, extended, fields. rewrite pos_joined_spec.
  destruct all; [destruct (m_oov m)|]; cbn [app intercalate];
    repeat (progress (rewrite <- ?app_assoc; cbn [app])); rewrite ?app_nil_r; reflexivity.
Qed.

Lemma clean_parts m : clean m = true ->
  clean_field (m_surface m) = true /\ clean_field (intercalate [COMMA] (m_pos m)) = true /\
  clean_field (m_norm m) = true /\ clean_field (m_dict m) = true /\ clean_field (m_reading m) = true.
Proof.
  unfold clean. intros H. apply andb_prop in H as [H H5]. apply andb_prop in H as [H H4].
  apply andb_prop in H as [H H3]. apply andb_prop in H as [H1 H2].
  repeat split; try assumption. apply intercalate_clean; [reflexivity|assumption].
Qed.

Lemma fields_clean all m : clean m = true -> forallb clean_field (fields all m) = true.
Proof.
  intros H. destruct (clean_parts m H) as (H1 & H2 & H3 & H4 & H5).
  unfold fields. rewrite forallb_app. cbn [forallb]. rewrite H1, H2, H3. cbn [andb].
  destruct all; [|reflexivity]. rewrite forallb_app. cbn [forallb]. rewrite H4, H5.
  rewrite (ge32_clean _ (dec_Z_ge32 _)), (ge32_clean _ (debug_list_ge32 _)). cbn [andb].
  destruct (m_oov m); [|reflexivity]. cbn [forallb]. rewrite (ge32_clean _ oov_mark_ge32). reflexivity.
Qed.

Lemma clean_field_tab f : clean_field f = true -> has TAB f = false.
Proof. unfold clean_field. intros H. apply andb_prop in H as [H _]. apply negb_true_iff in H. exact H. Qed.
Lemma clean_field_lf f : clean_field f = true -> has LF f = false.
Proof. unfold clean_field. intros H. apply andb_prop in H as [_ H]. apply negb_true_iff in H. exact H. Qed.

Lemma fields_nonempty all m : fields all m <> [].
Proof. unfold fields. cbn. congruence. Qed.

Theorem line_columns all m : clean m = true -> split_on TAB (line all m) = fields all m.
Proof.
  intros H. rewrite line_is_joined. apply split_on_intercalate; [apply fields_nonempty|].
  pose proof (fields_clean all m H) as Hc. rewrite forallb_forall in Hc. apply forallb_forall.
  intros f Hf. apply negb_true_iff. apply clean_field_tab. apply Hc. exact Hf.
Qed.

Lemma intercalate_has_false b sep : forall fs, has b sep = false -> forallb (fun f => negb (has b f)) fs = true ->
  has b (intercalate sep fs) = false.
Proof.
  intros fs Hs. induction fs as [|a [|c t] IH]; intros H.
  - reflexivity.
  - cbn [intercalate forallb] in *. rewrite andb_true_r in H. apply negb_true_iff in H. exact H.
  - change (intercalate sep (a :: c :: t)) with (a ++ sep ++ intercalate sep (c :: t)).
    change (forallb (fun f => negb (has b f)) (a :: c :: t))
      with (negb (has b a) && forallb (fun f => negb (has b f)) (c :: t)) in H.
    apply andb_prop in H as [Ha Ht]. apply negb_true_iff in Ha. rewrite !has_app, Ha, Hs, (IH Ht). reflexivity.
Qed.

Lemma line_no_lf all m : clean m = true -> has LF (line all m) = false.
Proof.
  intros H. rewrite line_is_joined. apply intercalate_has_false; [reflexivity|].
  pose proof (fields_clean all m H) as Hc. rewrite forallb_forall in Hc. apply forallb_forall.
  intros f Hf. apply negb_true_iff. apply clean_field_lf. apply Hc. exact Hf.
Qed.

(* a morpheme line always contains a tab, so it is never the "EOS" line *)
Lemma line_has_tab all m : has TAB (line all m) = true.
Proof.
  unfold line, basic. rewrite <- !app_assoc, has_app. cbn [app]. rewrite has_cons, N.eqb_refl. cbn. apply orb_true_r.
Qed.
Theorem line_is_not_eos all m : line all m <> eos_line.
Proof. intros E. pose proof (line_has_tab all m) as H. rewrite E in H. discriminate. Qed.

(* ---------- the whole sentence ---------- *)
Theorem simple_lines all : forall ms, forallb clean ms = true ->
  split_on LF (simple all ms) = map (line all) ms ++ [eos_line; []].
Proof.
  unfold simple. induction ms as [|m ms IH]; intros H.
  - reflexivity.
  - cbn [forallb] in H. apply andb_prop in H as [Hm Hms].
    cbn [map List.concat]. rewrite <- !app_assoc. cbn [app].
    rewrite split_on_sep by (apply line_no_lf; exact Hm). cbn [app]. f_equal.
    exact (IH Hms).
Qed.

Lemma list_eqb_bytes_refl l : list_eqb N.eqb l l = true.
Proof. induction l as [|a l IH]; cbn; [reflexivity|]. rewrite N.eqb_refl, IH. reflexivity. Qed.

Theorem read_back_simple all ms : forallb clean ms = true ->
  read_back (simple all ms) = Some (map (fields all) ms).
Proof.
  intros H. unfold read_back. rewrite simple_lines by exact H.
  rewrite rev_app_distr. cbn [rev app]. rewrite list_eqb_bytes_refl, rev_involutive, map_map.
  f_equal. apply map_ext_in. intros m Hm. apply line_columns.
  rewrite forallb_forall in H. apply H. exact Hm.
Qed.

(* two analyses print the same sentence only if they agree on every column of every morpheme *)
Theorem simple_injective all ms ms' :
  forallb clean ms = true -> forallb clean ms' = true ->
  simple all ms = simple all ms' -> map (fields all) ms = map (fields all) ms'.
Proof.
  intros H H' E. pose proof (read_back_simple all ms H) as R. rewrite E, (read_back_simple all ms' H') in R.
  injection R as R. symmetry. exact R.
Qed.

(* the number of printed lines is the number of morphemes plus the EOS line *)
Corollary simple_line_count all ms : forallb clean ms = true ->
  List.length (split_on LF (simple all ms)) = (List.length ms + 2)%nat.
Proof. intros H. rewrite simple_lines by exact H. rewrite app_length, map_length. reflexivity. Qed.
