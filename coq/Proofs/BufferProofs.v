(* Lemmas about Model/Buffer.v: the offset-map invariant through any number of edit batches (C08, C01). *)
From Coq Require Import String List NArith ZArith Bool Arith Lia.
From SudachiVerif Require Import Model.Buffer.
Import ListNotations.
Open Scope nat_scope.

(* ------------------------------------------------------------------ generic list facts *)
Lemma skipn_skipn' {A} : forall (a b : nat) (l : list A), skipn a (skipn b l) = skipn (b + a) l.
Proof.
  intros a b; revert a. induction b as [|b IH]; intros a l; [reflexivity|].
  destruct l as [|x l]; cbn [skipn plus]; [now rewrite skipn_nil | apply IH].
Qed.

Lemma nth_error_skipn' {A} : forall n (l : list A) i, nth_error (skipn n l) i = nth_error l (n + i).
Proof.
  induction n as [|n IH]; intros l i; [reflexivity|].
  destruct l as [|x l]; cbn [skipn plus nth_error]; [now destruct i | apply IH].
Qed.

Lemma nth_skipn' {A} : forall n (l : list A) i d, nth i (skipn n l) d = nth (n + i) l d.
Proof.
  induction n as [|n IH]; intros l i d; [reflexivity|].
  destruct l as [|x l]; cbn [skipn plus nth]; [now destruct i | apply IH].
Qed.

Lemma hd_skipn_nth {A} : forall n (l : list A) d, hd d (skipn n l) = nth n l d.
Proof.
  intros n l d. rewrite <- (Nat.add_0_r n) at 2. rewrite <- nth_skipn'. now destruct (skipn n l).
Qed.

Lemma firstn_all_ge {A} : forall n (l : list A), length l <= n -> firstn n l = l.
Proof. intros. now apply firstn_all2. Qed.

Lemma skipn_length' {A} : forall n (l : list A), length (skipn n l) = length l - n.
Proof. intros. apply skipn_length. Qed.

Lemma skipn_cons_nth {A} : forall n (l : list A) d, n < length l -> skipn n l = nth n l d :: skipn (S n) l.
Proof.
  induction n as [|n IH]; intros [|x l] d H; cbn [length] in H; try lia; [reflexivity|].
  cbn [skipn nth]. apply IH. lia.
Qed.


Lemma last_cons' {A} : forall (l : list A) x d, last (x :: l) d = last l x.
Proof.
  induction l as [|y l IH]; intros x d; [reflexivity|].
  change (last (x :: y :: l) d) with (last (y :: l) d). rewrite !IH. reflexivity.
Qed.

Lemma last_app_ne {A} : forall (u v : list A) d, v <> [] -> last (u ++ v) d = last v d.
Proof.
  induction u as [|x u IH]; intros v d Hne; [reflexivity|].
  cbn [app]. rewrite last_cons'. rewrite IH by auto. destruct v as [|y v]; [contradiction|]. now rewrite !last_cons'.
Qed.

(* ------------------------------------------------------------------ boundaries *)
Lemma is_boundary_le : forall t i, is_boundary t i = true -> i <= length t.
Proof.
  intros t i H. unfold is_boundary in H. destruct (nth_error t i) eqn:E.
  - apply Nat.lt_le_incl. apply nth_error_Some. congruence.
  - apply Nat.eqb_eq in H. lia.
Qed.

Lemma is_boundary_skipn : forall t a i, a <= length t -> is_boundary (skipn a t) i = is_boundary t (a + i).
Proof.
  intros t a i Ha. unfold is_boundary. rewrite nth_error_skipn', skipn_length'.
  destruct (nth_error t (a + i)); [reflexivity|].
  destruct (Nat.eqb_spec i (length t - a)), (Nat.eqb_spec (a + i) (length t)); auto; lia.
Qed.

Lemma is_boundary_0 : forall t, wf_text t = true -> is_boundary t 0 = true.
Proof. intros [|b t] H; [reflexivity | exact H]. Qed.

Lemma is_boundary_len : forall t, is_boundary t (length t) = true.
Proof.
  intros t. unfold is_boundary. destruct (nth_error t (length t)) eqn:E.
  - assert (length t < length t) by (apply nth_error_Some; congruence). lia.
  - apply Nat.eqb_refl.
Qed.

Lemma is_boundary_hd : forall t, is_boundary t 0 = wf_text t.
Proof. intros [|b t]; reflexivity. Qed.

(* ------------------------------------------------------------------ SortedFrom: a chain lo <= x1 <= x2 <= ... *)
Fixpoint SortedFrom (lo : nat) (l : list nat) : Prop :=
  match l with [] => True | x :: l' => lo <= x /\ SortedFrom x l' end.

Lemma sf_app : forall u v lo, SortedFrom lo (u ++ v) <-> SortedFrom lo u /\ SortedFrom (last u lo) v.
Proof.
  induction u as [|x u IH]; intros v lo; cbn [app SortedFrom].
  - cbn. tauto.
  - rewrite IH. assert (last (x :: u) lo = last u x) as ->.
    { clear. revert x. induction u as [|y u IH]; intros x; [reflexivity|]. cbn [last] in *. destruct u; [reflexivity|]. apply IH. }
    tauto.
Qed.

Lemma sf_weaken : forall l lo lo', lo' <= lo -> SortedFrom lo l -> SortedFrom lo' l.
Proof. intros [|x l] lo lo' H; cbn; [auto|]. intros [H1 H2]. split; [lia|auto]. Qed.

Lemma sf_last_ge : forall l lo, SortedFrom lo l -> lo <= last l lo.
Proof.
  induction l as [|x l IH]; intros lo H; [cbn; lia|].
  destruct H as [H1 H2]. specialize (IH x H2).
  assert (last (x :: l) lo = last l x) as ->.
  { clear. revert x. induction l as [|y u IH]; intros x; [reflexivity|]. cbn [last] in *. destruct u; [reflexivity|]. apply IH. }
  lia.
Qed.

Lemma sf_repeat : forall n x lo, lo <= x -> SortedFrom lo (repeat x n).
Proof. induction n as [|n IH]; intros x lo H; cbn; [auto|]. split; [auto|]. apply IH. lia. Qed.

Lemma last_repeat : forall n (x d : nat), last (repeat x n) d = match n with 0 => d | _ => x end.
Proof.
  induction n as [|n IH]; intros x d; [reflexivity|].
  cbn [repeat]. rewrite last_cons'. rewrite IH. destruct n; reflexivity.
Qed.

Lemma sf_nth_mono : forall l lo i j, SortedFrom lo l -> i <= j -> j < length l -> nth i l 0 <= nth j l 0.
Proof.
  induction l as [|x l IH]; intros lo i j H Hij Hj; cbn [length] in Hj; [lia|].
  destruct H as [H1 H2]. destruct j as [|j].
  - assert (i = 0) by lia. subst. lia.
  - destruct i as [|i]; cbn [nth].
    + clear IH Hij. revert x H2 j Hj H1. induction l as [|y l IHl]; intros x H2 j Hj H1; cbn [length] in Hj; [lia|].
      destruct H2 as [H3 H4]. destruct j; cbn [nth]; [lia|]. specialize (IHl y H4 j). lia.
    + apply (IH x); auto; lia.
Qed.

(* ------------------------------------------------------------------ BMap: text and map aligned, lead bytes and the end
   sentinel are mapped to character boundaries of the original *)
Definition R (o : list N) (b : N) (x : nat) : Prop := is_lead b = true -> is_boundary o x = true.

Inductive BMap (o : list N) : list N -> list nat -> Prop :=
| BM_end x : is_boundary o x = true -> BMap o [] [x]
| BM_cons b t x m : R o b x -> BMap o t m -> BMap o (b :: t) (x :: m).

Lemma BMap_length : forall o t m, BMap o t m -> length m = length t + 1.
Proof. induction 1; cbn [length]; lia. Qed.

Lemma BMap_app : forall o a ma t m, Forall2 (R o) a ma -> BMap o t m -> BMap o (a ++ t) (ma ++ m).
Proof. induction 1; intros; cbn [app]; [auto|]. constructor; auto. Qed.

Lemma BMap_split : forall o k t m, BMap o t m -> k <= length t ->
  Forall2 (R o) (firstn k t) (firstn k m) /\ BMap o (skipn k t) (skipn k m).
Proof.
  induction k as [|k IH]; intros t m H Hk; [cbn; split; [constructor|auto]|].
  destruct H as [x Hx | b t x m Hb H]; cbn [length] in Hk; [lia|].
  cbn [firstn skipn]. destruct (IH t m H) as [H1 H2]; [lia|]. split; [constructor; auto|auto].
Qed.

(* the map value in front of a suffix that starts on a boundary is a boundary of the original *)
Lemma BMap_hd : forall o t m, BMap o t m -> is_boundary t 0 = true -> is_boundary o (hd 0 m) = true.
Proof. intros o t m [x Hx | b t' x m' Hb H] Hb0; cbn [hd]; [auto|]. apply Hb. exact Hb0. Qed.

Lemma BMap_nth_boundary : forall o t m, BMap o t m -> forall p, is_boundary t p = true -> is_boundary o (nth p m 0) = true.
Proof.
  induction 1 as [x Hx | b t x m Hb H IH]; intros p Hp.
  - unfold is_boundary in Hp. destruct p; cbn in Hp; [auto | discriminate].
  - destruct p as [|p]; cbn [nth]; [apply Hb; exact Hp|]. apply IH. exact Hp.
Qed.

Lemma BMap_last : forall o t m, BMap o t m -> is_boundary o (last m 0) = true.
Proof.
  induction 1 as [x Hx | b t x m Hb H IH]; [exact Hx|].
  destruct m as [|y m]; [inversion H|]. exact IH.
Qed.

Lemma Forall2_R_all : forall o w rm, length w = length rm -> Forall (fun x => is_boundary o x = true) rm -> Forall2 (R o) w rm.
Proof.
  intros o w. induction w as [|b w IH]; intros [|x rm] Hl Hf; cbn [length] in Hl; try lia; constructor.
  - intros _. now inversion Hf.
  - apply IH; [lia | now inversion Hf].
Qed.

(* ------------------------------------------------------------------ resolve under a good configuration *)
Section Cfg.
Variable cfg : bcfg.
Hypothesis Hcfg : cfg_ok cfg = true.

Lemma cfg_fields :
  c_ident_from cfg = 0 /\ c_ident_extra cfg = 1 /\ c_first_forced cfg = 0 /\ c_first_sel cfg = "start"%string /\
  c_rest_sel cfg = "end"%string /\ c_rest_from cfg = 1 /\ c_b2c_inc cfg = 1 /\ c_ob2c_init cfg = 0 /\ c_ob2c_inc cfg = 1.
Proof.
  unfold cfg_ok in Hcfg. repeat rewrite andb_true_iff in Hcfg.
  destruct Hcfg as [[[[[[[[H1 H2] H3] H4] H5] H6] H7] H8] H9].
  apply Nat.eqb_eq in H1, H2, H3, H6, H7, H8, H9. apply String.eqb_eq in H4, H5. repeat split; assumption.
Qed.

Lemma add_replace_spec : forall smap s e w rb rm delta,
  add_replace cfg smap s e w = Some (rb, rm, delta) ->
  rb = w /\ (w = [] -> rm = []) /\
  (w <> [] -> exists xs xe, nth_error smap s = Some xs /\ nth_error smap e = Some xe /\ rm = xs :: repeat xe (length w - 1)).
Proof.
  intros smap s e w rb rm delta H. destruct cfg_fields as (_ & _ & _ & Hf & Hr & Hk & _).
  unfold add_replace in H. rewrite Hf, Hr, Hk in H. unfold sel in H. cbn [String.eqb Ascii.eqb Bool.eqb] in H.
  destruct w as [|b w].
  - inversion H; subst. repeat split; auto. intros C; now contradiction C.
  - destruct (nth_error smap s) as [xs|] eqn:E1; [|discriminate].
    destruct (nth_error smap e) as [xe|] eqn:E2; [|discriminate].
    inversion H; subst. repeat split; [discriminate|]. intros _. exists xs, xe. auto.
Qed.

Lemma resolve_ok : forall o src smap lo edits start cl t m l,
  length smap = length src + 1 ->
  start <= length src -> is_boundary src start = true ->
  edits_ok_from src start edits = true ->
  BMap o (skipn start src) (skipn start smap) ->
  SortedFrom lo (skipn start smap) ->
  resolve cfg src smap edits start cl = ROk t m l ->
  BMap o t m /\ SortedFrom lo m /\ last m 0 = last smap 0 /\ wf_text t = true.
Proof.
  intros o src smap lo edits. revert lo. induction edits as [|e rest IH]; intros lo start cl t m l Hlen Hst Hbst Hok HB HS Hres.
  - cbn [resolve] in Hres. unfold str_slice, vec_slice in Hres.
    rewrite Hbst, is_boundary_len in Hres.
    assert (E1 : (start <=? length src) = true) by (apply Nat.leb_le; lia).
    assert (E2 : (start <=? length smap) = true) by (apply Nat.leb_le; lia).
    rewrite E1, E2, !Nat.leb_refl in Hres. cbn [andb] in Hres.
    rewrite !firstn_all_ge in Hres by (rewrite skipn_length'; lia).
    inversion Hres; subst. repeat split; auto.
    + rewrite <- (firstn_skipn start smap) at 2. symmetry. apply last_app_ne.
      intros C. apply (f_equal (@length nat)) in C. rewrite skipn_length' in C. cbn in C. lia.
    + rewrite <- is_boundary_hd. rewrite is_boundary_skipn by lia. now rewrite Nat.add_0_r.
  - cbn [edits_ok_from] in Hok. repeat rewrite andb_true_iff in Hok.
    destruct Hok as [[[[[[Hs1 Hs2] Hs3] Hbs] Hbe] Hw] Hrest].
    apply Nat.leb_le in Hs1, Hs2, Hs3.
    set (s := e_s e) in *. set (en := e_e e) in *. set (w := e_w e) in *.
    cbn [resolve] in Hres. fold s en w in Hres.
    unfold str_slice, vec_slice in Hres. rewrite Hbst, Hbs in Hres.
    assert (E1 : (start <=? s) = true) by (apply Nat.leb_le; lia).
    assert (E2 : (s <=? length src) = true) by (apply Nat.leb_le; lia).
    assert (E3 : (s <=? length smap) = true) by (apply Nat.leb_le; lia).
    rewrite E1, E2, E3 in Hres. cbn [andb] in Hres.
    destruct (add_replace cfg smap s en w) as [[[rb rm] delta]|] eqn:Ear; [|discriminate].
    destruct (cmp_eval (c_resolve_cmp cfg) (cl + delta) (Z.of_N (c_resolve_limit cfg))); [discriminate|].
    destruct (resolve cfg src smap rest en (cl + delta)) as [t' m' l'| |] eqn:Erec; try discriminate.
    inversion Hres; subst t m l; clear Hres.
    set (k := s - start) in *.
    (* split the suffix at s *)
    destruct (BMap_split o k _ _ HB) as [HF1 HB1]; [rewrite skipn_length'; lia|].
    rewrite !skipn_skipn' in HB1. replace (start + k) with s in HB1 by lia.
    (* and at en *)
    destruct (BMap_split o (en - s) _ _ HB1) as [_ HB2]; [rewrite skipn_length'; lia|].
    rewrite !skipn_skipn' in HB2. replace (s + (en - s)) with en in HB2 by lia.
    set (xs := nth s smap 0). set (xe := nth en smap 0).
    assert (Hxs : is_boundary o xs = true).
    { unfold xs. rewrite <- hd_skipn_nth. apply (BMap_hd o _ _ HB1). rewrite is_boundary_skipn by lia. now rewrite Nat.add_0_r. }
    assert (Hxe : is_boundary o xe = true).
    { unfold xe. rewrite <- hd_skipn_nth. apply (BMap_hd o _ _ HB2). rewrite is_boundary_skipn by lia. now rewrite Nat.add_0_r. }
    (* sortedness of the pieces *)
    assert (Hsplit1 : skipn start smap = firstn k (skipn start smap) ++ skipn s smap).
    { rewrite <- (firstn_skipn k (skipn start smap)) at 1. rewrite skipn_skipn'. now replace (start + k) with s by lia. }
    assert (Hsplit2 : skipn s smap = firstn (en - s) (skipn s smap) ++ skipn en smap).
    { rewrite <- (firstn_skipn (en - s) (skipn s smap)) at 1. rewrite skipn_skipn'. now replace (s + (en - s)) with en by lia. }
    set (A := firstn k (skipn start smap)) in *.
    rewrite Hsplit1 in HS. apply sf_app in HS. destruct HS as [HSA HS1].
    assert (Hs_cons : skipn s smap = xs :: skipn (S s) smap) by (apply skipn_cons_nth; lia).
    assert (He_cons : skipn en smap = xe :: skipn (S en) smap) by (apply skipn_cons_nth; lia).
    assert (HlastA : last A lo <= xs). { rewrite Hs_cons in HS1. now destruct HS1. }
    assert (Hxsxe : xs <= xe).
    { rewrite Hsplit2 in HS1. apply sf_app in HS1. destruct HS1 as [HSD HSE].
      rewrite He_cons in HSE. destruct HSE as [HSE _].
      destruct (Nat.eq_dec en s) as [->|Hne]; [unfold xs, xe; lia|].
      assert (firstn (en - s) (skipn s smap) = xs :: firstn (en - s - 1) (skipn (S s) smap)) as Hd.
      { rewrite Hs_cons. destruct (en - s) eqn:E; [lia|]. cbn [firstn]. f_equal. f_equal. lia. }
      rewrite Hd in HSD, HSE. destruct HSD as [_ HSD]. apply sf_last_ge in HSD.
      assert (last (xs :: firstn (en - s - 1) (skipn (S s) smap)) (last A lo) = last (firstn (en - s - 1) (skipn (S s) smap)) xs) as Hl.
      { generalize (firstn (en - s - 1) (skipn (S s) smap)) as u. clear. intros u. generalize (last A lo) as d. revert xs.
        induction u as [|y u IHu]; intros xs d; [reflexivity|]. cbn [last] in *. destruct u; [reflexivity|]. apply IHu. }
      rewrite Hl in HSE. lia. }
    assert (HSE : SortedFrom xe (skipn en smap)).
    { rewrite Hsplit2 in HS1. apply sf_app in HS1. destruct HS1 as [_ HSE]. rewrite He_cons in HSE |- *. destruct HSE as [_ HSE]. split; [lia|auto]. }
    (* the recursive call *)
    destruct (IH xe en (cl + delta)%Z t' m' l' Hlen Hs3 Hbe Hrest HB2 HSE Erec) as (HBt & HSt & Hlast & Hwf).
    destruct (add_replace_spec _ _ _ _ _ _ _ Ear) as (-> & Hnil & Hcons).
    assert (Hwf' : wf_text (firstn k (skipn start src) ++ w ++ t') = true).
    { destruct (firstn k (skipn start src)) as [|b a'] eqn:Ea.
      - cbn [app]. destruct w as [|b w']; [exact Hwf | exact Hw].
      - cbn [app wf_text]. assert (is_boundary (skipn start src) 0 = true) as H0 by (rewrite is_boundary_skipn by lia; now rewrite Nat.add_0_r).
        destruct (skipn start src) as [|b' r]; [destruct k; discriminate|]. destruct k; [discriminate|]. cbn [firstn] in Ea. inversion Ea; subst. exact H0. }
    assert (Hm'ne : m' <> []).
    { intros C. apply BMap_length in HBt. subst m'. cbn in HBt. lia. }
    destruct w as [|b0 w0] eqn:Ew.
    + rewrite (Hnil eq_refl). cbn [app]. repeat split; auto.
      * apply BMap_app; auto.
      * apply sf_app. split; [auto|]. apply (sf_weaken _ xe); [lia | auto].
      * rewrite <- Hlast. apply last_app_ne. auto.
    + destruct Hcons as (xs' & xe' & Hn1 & Hn2 & ->); [discriminate|].
      assert (xs' = xs) as -> by (unfold xs; symmetry; now apply nth_error_nth).
      assert (xe' = xe) as -> by (unfold xe; symmetry; now apply nth_error_nth).
      repeat split; auto.
      * apply BMap_app; auto. apply BMap_app; auto.
        apply Forall2_R_all.
        { cbn [length]. rewrite repeat_length. lia. }
        { constructor; auto. apply Forall_forall. intros x Hx. apply repeat_spec in Hx. now subst. }
      * apply sf_app. split; [auto|]. apply sf_app. split.
        { cbn [SortedFrom]. split; [auto|]. apply sf_repeat. auto. }
        { apply (sf_weaken _ xe); [|auto]. rewrite last_cons', last_repeat. destruct (length (b0 :: w0) - 1); lia. }
      * rewrite <- Hlast. rewrite app_assoc. apply last_app_ne. auto.
Qed.

End Cfg.
