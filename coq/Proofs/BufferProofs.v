(* Lemmas about Model/Buffer.v: the offset-map invariant through any number of edit batches (C08, C01). *)
From Coq Require Import String List NArith ZArith Bool Arith Lia.
From SudachiVerif Require Import Model.Buffer.
Import ListNotations.
Open Scope nat_scope.

(* ------------------------------------------------------------------ generic list facts *)
Lemma skipn_skipn' {A} : forall (a b : nat) (l : list A), skipn a (skipn b l) = skipn (b + a) l.
Proof.
  intros a b; revert a. induction b as [|b IH]; intros a l; [reflexivity|].
  destruct l as [|x l]; cbn [skipn plus]; [now rewrite skipn_nil | apply IH].
Qed.

Lemma nth_error_skipn' {A} : forall n (l : list A) i, nth_error (skipn n l) i = nth_error l (n + i).
Proof.
  induction n as [|n IH]; intros l i; [reflexivity|].
  destruct l as [|x l]; cbn [skipn plus nth_error]; [now destruct i | apply IH].
Qed.

Lemma nth_skipn' {A} : forall n (l : list A) i d, nth i (skipn n l) d = nth (n + i) l d.
Proof.
  induction n as [|n IH]; intros l i d; [reflexivity|].
  destruct l as [|x l]; cbn [skipn plus nth]; [now destruct i | apply IH].
Qed.

Lemma hd_skipn_nth {A} : forall n (l : list A) d, hd d (skipn n l) = nth n l d.
Proof.
  intros n l d. rewrite <- (Nat.add_0_r n) at 2. rewrite <- nth_skipn'. now destruct (skipn n l).
Qed.

Lemma firstn_all_ge {A} : forall n (l : list A), length l <= n -> firstn n l = l.
Proof. intros. now apply firstn_all2. Qed.

Lemma skipn_length' {A} : forall n (l : list A), length (skipn n l) = length l - n.
Proof. intros. apply skipn_length. Qed.

Lemma skipn_cons_nth {A} : forall n (l : list A) d, n < length l -> skipn n l = nth n l d :: skipn (S n) l.
Proof.
  induction n as [|n IH]; intros [|x l] d H; cbn [length] in H; try lia; [reflexivity|].
  cbn [skipn nth]. apply IH. lia.
Qed.


Lemma last_cons' {A} : forall (l : list A) x d, last (x :: l) d = last l x.
Proof.
  induction l as [|y l IH]; intros x d; [reflexivity|].
  change (last (x :: y :: l) d) with (last (y :: l) d). rewrite !IH. reflexivity.
Qed.

Lemma last_app_ne {A} : forall (u v : list A) d, v <> [] -> last (u ++ v) d = last v d.
Proof.
  induction u as [|x u IH]; intros v d Hne; [reflexivity|].
  cbn [app]. rewrite last_cons'. rewrite IH by auto. destruct v as [|y v]; [contradiction|]. now rewrite !last_cons'.
Qed.


Lemma nth_error_firstn_lt {A} : forall k (l : list A) i, i < k -> nth_error (firstn k l) i = nth_error l i.
Proof.
  induction k as [|k IH]; intros l i H; [lia|].
  destruct l as [|x l]; [now destruct i|]. destruct i as [|i]; cbn [firstn nth_error]; [reflexivity|]. apply IH. lia.
Qed.

Lemma nth_firstn_lt {A} : forall k (l : list A) i d, i < k -> nth i (firstn k l) d = nth i l d.
Proof.
  induction k as [|k IH]; intros l i d H; [lia|].
  destruct l as [|x l]; [now destruct i|]. destruct i as [|i]; cbn [firstn nth]; [reflexivity|]. apply IH. lia.
Qed.

(* ------------------------------------------------------------------ boundaries *)
Lemma is_boundary_le : forall t i, is_boundary t i = true -> i <= length t.
Proof.
  intros t i H. unfold is_boundary in H. destruct (nth_error t i) eqn:E.
  - apply Nat.lt_le_incl. apply nth_error_Some. congruence.
  - apply Nat.eqb_eq in H. lia.
Qed.

Lemma is_boundary_skipn : forall t a i, a <= length t -> is_boundary (skipn a t) i = is_boundary t (a + i).
Proof.
  intros t a i Ha. unfold is_boundary. rewrite nth_error_skipn', skipn_length'.
  destruct (nth_error t (a + i)); [reflexivity|].
  destruct (Nat.eqb_spec i (length t - a)), (Nat.eqb_spec (a + i) (length t)); auto; lia.
Qed.

Lemma is_boundary_0 : forall t, wf_text t = true -> is_boundary t 0 = true.
Proof. intros [|b t] H; [reflexivity | exact H]. Qed.

Lemma is_boundary_len : forall t, is_boundary t (length t) = true.
Proof.
  intros t. unfold is_boundary. destruct (nth_error t (length t)) eqn:E.
  - assert (length t < length t) by (apply nth_error_Some; congruence). lia.
  - apply Nat.eqb_refl.
Qed.

Lemma is_boundary_hd : forall t, is_boundary t 0 = wf_text t.
Proof. intros [|b t]; reflexivity. Qed.

(* ------------------------------------------------------------------ SortedFrom: a chain lo <= x1 <= x2 <= ... *)
Fixpoint SortedFrom (lo : nat) (l : list nat) : Prop :=
  match l with [] => True | x :: l' => lo <= x /\ SortedFrom x l' end.

Lemma sf_app : forall u v lo, SortedFrom lo (u ++ v) <-> SortedFrom lo u /\ SortedFrom (last u lo) v.
Proof.
  induction u as [|x u IH]; intros v lo; cbn [app SortedFrom].
  - cbn. tauto.
  - rewrite IH. assert (last (x :: u) lo = last u x) as ->.
    { clear. revert x. induction u as [|y u IH]; intros x; [reflexivity|]. cbn [last] in *. destruct u; [reflexivity|]. apply IH. }
    tauto.
Qed.

Lemma sf_weaken : forall l lo lo', lo' <= lo -> SortedFrom lo l -> SortedFrom lo' l.
Proof. intros [|x l] lo lo' H; cbn; [auto|]. intros [H1 H2]. split; [lia|auto]. Qed.

Lemma sf_last_ge : forall l lo, SortedFrom lo l -> lo <= last l lo.
Proof.
  induction l as [|x l IH]; intros lo H; [cbn; lia|].
  destruct H as [H1 H2]. specialize (IH x H2).
  assert (last (x :: l) lo = last l x) as ->.
  { clear. revert x. induction l as [|y u IH]; intros x; [reflexivity|]. cbn [last] in *. destruct u; [reflexivity|]. apply IH. }
  lia.
Qed.

Lemma sf_repeat : forall n x lo, lo <= x -> SortedFrom lo (repeat x n).
Proof. induction n as [|n IH]; intros x lo H; cbn; [auto|]. split; [auto|]. apply IH. lia. Qed.

Lemma last_repeat : forall n (x d : nat), last (repeat x n) d = match n with 0 => d | _ => x end.
Proof.
  induction n as [|n IH]; intros x d; [reflexivity|].
  cbn [repeat]. rewrite last_cons'. rewrite IH. destruct n; reflexivity.
Qed.


Lemma sf_skipn : forall n l lo, SortedFrom lo l -> n < length l -> SortedFrom (nth n l 0) (skipn n l).
Proof.
  induction n as [|n IH]; intros [|x l] lo H Hn; cbn [length] in Hn; try lia.
  - cbn [nth skipn SortedFrom] in *. destruct H. split; [lia|auto].
  - cbn [nth skipn]. destruct H as [_ H]. apply (IH l x); [auto|lia].
Qed.

Lemma sf_hd_ge : forall l lo, SortedFrom lo l -> l <> [] -> lo <= nth 0 l 0.
Proof. intros [|x l] lo H Hne; [contradiction|]. now destruct H. Qed.

Lemma sf_nth_mono : forall l lo i j, SortedFrom lo l -> i <= j -> j < length l -> nth i l 0 <= nth j l 0.
Proof.
  induction l as [|x l IH]; intros lo i j H Hij Hj; cbn [length] in Hj; [lia|].
  destruct H as [H1 H2]. destruct j as [|j].
  - assert (i = 0) by lia. subst. lia.
  - destruct i as [|i]; cbn [nth].
    + clear IH Hij. revert x H2 j Hj H1. induction l as [|y l IHl]; intros x H2 j Hj H1; cbn [length] in Hj; [lia|].
      destruct H2 as [H3 H4]. destruct j; cbn [nth]; [lia|]. specialize (IHl y H4 j). lia.
    + apply (IH x); auto; lia.
Qed.

(* ------------------------------------------------------------------ BMap: text and map aligned, lead bytes and the end
   sentinel are mapped to character boundaries of the original *)
Definition R (o : list N) (b : N) (x : nat) : Prop := is_lead b = true -> is_boundary o x = true.

Inductive BMap (o : list N) : list N -> list nat -> Prop :=
| BM_end x : is_boundary o x = true -> BMap o [] [x]
| BM_cons b t x m : R o b x -> BMap o t m -> BMap o (b :: t) (x :: m).

Lemma BMap_length : forall o t m, BMap o t m -> length m = length t + 1.
Proof. induction 1; cbn [length]; lia. Qed.

Lemma BMap_app : forall o a ma t m, Forall2 (R o) a ma -> BMap o t m -> BMap o (a ++ t) (ma ++ m).
Proof. induction 1; intros; cbn [app]; [auto|]. constructor; auto. Qed.

Lemma BMap_split : forall o k t m, BMap o t m -> k <= length t ->
  Forall2 (R o) (firstn k t) (firstn k m) /\ BMap o (skipn k t) (skipn k m).
Proof.
  induction k as [|k IH]; intros t m H Hk; [cbn; split; [constructor|auto]|].
  destruct H as [x Hx | b t x m Hb H]; cbn [length] in Hk; [lia|].
  cbn [firstn skipn]. destruct (IH t m H) as [H1 H2]; [lia|]. split; [constructor; auto|auto].
Qed.

(* the map value in front of a suffix that starts on a boundary is a boundary of the original *)
Lemma BMap_hd : forall o t m, BMap o t m -> is_boundary t 0 = true -> is_boundary o (hd 0 m) = true.
Proof. intros o t m [x Hx | b t' x m' Hb H] Hb0; cbn [hd]; [auto|]. apply Hb. exact Hb0. Qed.

Lemma BMap_nth_boundary : forall o t m, BMap o t m -> forall p, is_boundary t p = true -> is_boundary o (nth p m 0) = true.
Proof.
  induction 1 as [x Hx | b t x m Hb H IH]; intros p Hp.
  - unfold is_boundary in Hp. destruct p; cbn in Hp; [auto | discriminate].
  - destruct p as [|p]; cbn [nth]; [apply Hb; exact Hp|]. apply IH. exact Hp.
Qed.

Lemma BMap_last : forall o t m, BMap o t m -> is_boundary o (last m 0) = true.
Proof.
  induction 1 as [x Hx | b t x m Hb H IH]; [exact Hx|].
  destruct m as [|y m]; [inversion H|]. exact IH.
Qed.

Lemma Forall2_R_all : forall o w rm, length w = length rm -> Forall (fun x => is_boundary o x = true) rm -> Forall2 (R o) w rm.
Proof.
  intros o w. induction w as [|b w IH]; intros [|x rm] Hl Hf; cbn [length] in Hl; try lia; constructor.
  - intros _. now inversion Hf.
  - apply IH; [lia | now inversion Hf].
Qed.


(* ------------------------------------------------------------------ code points *)
Lemma is_boundary_cons : forall x t k, is_boundary (x :: t) (S k) = is_boundary t k.
Proof. intros. unfold is_boundary. cbn [nth_error length]. reflexivity. Qed.

Lemma ob2c_nth : forall t cnt b, is_boundary t b = true ->
  nth_error (ob2c_scan t cnt ++ [Some (cnt + count_leads t)]) b = Some (Some (cnt + count_leads (firstn b t))).
Proof.
  induction t as [|x t IH]; intros cnt b Hb.
  - unfold is_boundary in Hb. destruct b; cbn in Hb; [reflexivity | discriminate].
  - destruct b as [|b].
    + unfold is_boundary in Hb. cbn [nth_error] in Hb. cbn [ob2c_scan firstn count_leads]. rewrite Hb. cbn [app nth_error].
      now rewrite Nat.add_0_r.
    + rewrite is_boundary_cons in Hb. cbn [ob2c_scan firstn count_leads]. destruct (is_lead x).
      * cbn [app nth_error]. replace (cnt + S (count_leads t)) with (S cnt + count_leads t) by lia.
        rewrite IH by auto. f_equal. f_equal. lia.
      * cbn [app nth_error]. now rewrite IH.
Qed.

Lemma c2b_nth_count : forall t i x, is_boundary t x = true ->
  nth (count_leads (firstn x t)) (c2b_scan t i ++ [i + length t]) 0 = i + x.
Proof.
  induction t as [|b t IH]; intros i x Hx.
  - unfold is_boundary in Hx. destruct x; cbn in Hx; [cbn; lia | discriminate].
  - destruct x as [|x].
    + unfold is_boundary in Hx. cbn [nth_error] in Hx. cbn [firstn count_leads c2b_scan]. rewrite Hx. cbn [app nth]. lia.
    + rewrite is_boundary_cons in Hx. cbn [firstn count_leads c2b_scan length].
      replace (i + S (length t)) with (S i + length t) by lia.
      destruct (is_lead b); cbn [app nth]; rewrite IH by auto; lia.
Qed.

Lemma c2b_boundary : forall t i ci p, nth_error (c2b_scan t i ++ [i + length t]) ci = Some p ->
  i <= p /\ is_boundary t (p - i) = true.
Proof.
  induction t as [|x t IH]; intros i ci p H.
  - cbn [c2b_scan app length] in H. destruct ci as [|ci]; cbn in H; [|destruct ci; discriminate].
    inversion H; subst. split; [lia|]. replace (i + 0 - i) with 0 by lia. reflexivity.
  - cbn [c2b_scan length] in H. replace (i + S (length t)) with (S i + length t) in H by lia.
    destruct (is_lead x) eqn:El.
    + destruct ci as [|ci]; cbn [app nth_error] in H.
      * inversion H; subst. split; [lia|]. replace (p - p) with 0 by lia. unfold is_boundary. cbn [nth_error]. exact El.
      * destruct (IH _ _ _ H) as [H1 H2]. split; [lia|]. replace (p - i) with (S (p - S i)) by lia. now rewrite is_boundary_cons.
    + destruct (IH _ _ _ H) as [H1 H2]. split; [lia|]. replace (p - i) with (S (p - S i)) by lia. now rewrite is_boundary_cons.
Qed.

Lemma cp_slice_byte_slice : forall o x y, is_boundary o x = true -> is_boundary o y = true ->
  cp_slice o (codepoints_before o x) (codepoints_before o y) = byte_slice o (x, y).
Proof.
  intros o x y Hx Hy. unfold cp_slice, codepoints_before.
  pose proof (c2b_nth_count o 0 x Hx) as E1. pose proof (c2b_nth_count o 0 y Hy) as E2.
  cbn [plus] in E1, E2. rewrite E1, E2. reflexivity.
Qed.

(* ------------------------------------------------------------------ chains of ranges (C01) *)
Lemma firstn_app_skipn {A} : forall a b (l : list A), firstn a l ++ firstn b (skipn a l) = firstn (a + b) l.
Proof.
  induction a as [|a IH]; intros b l; [reflexivity|].
  destruct l as [|x l]; cbn [firstn skipn plus app]; [now rewrite firstn_nil | now rewrite IH].
Qed.

Lemma chain_le : forall p from n, chain_b from n p = true -> from <= n.
Proof.
  induction p as [|[b e] r IH]; intros from n H; cbn [chain_b] in H.
  - apply Nat.eqb_eq in H. lia.
  - repeat rewrite andb_true_iff in H. destruct H as [[H1 H2] H3].
    apply Nat.eqb_eq in H1. apply Nat.leb_le in H2. apply IH in H3. lia.
Qed.

Lemma chain_concat : forall o p from n, chain_b from n p = true ->
  concat (map (byte_slice o) p) = firstn (n - from) (skipn from o).
Proof.
  intros o. induction p as [|[b e] r IH]; intros from n H; cbn [chain_b] in H.
  - apply Nat.eqb_eq in H. subst. now rewrite Nat.sub_diag.
  - repeat rewrite andb_true_iff in H. destruct H as [[H1 H2] H3].
    apply Nat.eqb_eq in H1. apply Nat.leb_le in H2. subst b. pose proof (chain_le _ _ _ H3) as Hle.
    cbn [map concat]. rewrite (IH _ _ H3). unfold byte_slice. cbn [fst snd].
    replace (skipn e o) with (skipn (e - from) (skipn from o)) by (rewrite skipn_skipn'; f_equal; lia).
    rewrite firstn_app_skipn. f_equal. lia.
Qed.

Lemma chain_map : forall (m : list nat) p from n,
  (forall i j, i <= j -> j <= n -> nth i m 0 <= nth j m 0) ->
  chain_b from n p = true -> chain_b (nth from m 0) (nth n m 0) (map (map_range m) p) = true.
Proof.
  intros m. induction p as [|[b e] r IH]; intros from n Hm H; cbn [chain_b map] in *.
  - apply Nat.eqb_eq in H. subst. apply Nat.eqb_refl.
  - repeat rewrite andb_true_iff in H. destruct H as [[H1 H2] H3].
    apply Nat.eqb_eq in H1. apply Nat.leb_le in H2. subst b. pose proof (chain_le _ _ _ H3) as Hle.
    unfold map_range at 1. cbn [fst snd]. rewrite Nat.eqb_refl. cbn [andb].
    rewrite (IH _ _ Hm H3). rewrite andb_true_r. apply Nat.leb_le. apply Hm; lia.
Qed.

(* ------------------------------------------------------------------ resolve under a good configuration *)
Section Cfg.
Variable cfg : bcfg.
Hypothesis Hcfg : cfg_ok cfg = true.

Lemma cfg_fields :
  c_ident_from cfg = 0 /\ c_ident_extra cfg = 1 /\ c_first_forced cfg = 0 /\ c_first_sel cfg = "start"%string /\
  c_rest_sel cfg = "end"%string /\ c_rest_from cfg = 1 /\ c_b2c_inc cfg = 1 /\ c_ob2c_init cfg = 0 /\ c_ob2c_inc cfg = 1.
Proof.
  unfold cfg_ok in Hcfg. repeat rewrite andb_true_iff in Hcfg.
  destruct Hcfg as [[[[[[[[H1 H2] H3] H4] H5] H6] H7] H8] H9].
  apply Nat.eqb_eq in H1, H2, H3, H6, H7, H8, H9. apply String.eqb_eq in H4, H5. repeat split; assumption.
Qed.

Lemma add_replace_spec : forall smap s e w rb rm delta,
  add_replace cfg smap s e w = Some (rb, rm, delta) ->
  rb = w /\ (w = [] -> rm = []) /\
  (w <> [] -> exists xs xe, nth_error smap s = Some xs /\ nth_error smap e = Some xe /\ rm = xs :: repeat xe (length w - 1)).
Proof.
  intros smap s e w rb rm delta H. destruct cfg_fields as (_ & _ & _ & Hf & Hr & Hk & _).
  unfold add_replace in H. rewrite Hf, Hr, Hk in H. unfold sel in H. cbn [String.eqb Ascii.eqb Bool.eqb] in H.
  destruct w as [|b w].
  - inversion H; subst. repeat split; auto. intros C; now contradiction C.
  - destruct (nth_error smap s) as [xs|] eqn:E1; [|discriminate].
    destruct (nth_error smap e) as [xe|] eqn:E2; [|discriminate].
    inversion H; subst. repeat split; [discriminate|]. intros _. exists xs, xe. auto.
Qed.

Lemma resolve_ok : forall o src smap lo edits start cl t m l,
  length smap = length src + 1 ->
  start <= length src -> is_boundary src start = true ->
  edits_ok_from src start edits = true ->
  BMap o (skipn start src) (skipn start smap) ->
  SortedFrom lo (skipn start smap) ->
  resolve cfg src smap edits start cl = ROk t m l ->
  BMap o t m /\ SortedFrom lo m /\ last m 0 = last smap 0 /\ wf_text t = true.
Proof.
  intros o src smap lo edits. revert lo. induction edits as [|e rest IH]; intros lo start cl t m l Hlen Hst Hbst Hok HB HS Hres.
  - cbn [resolve] in Hres. unfold str_slice, vec_slice in Hres.
    rewrite Hbst, is_boundary_len in Hres.
    assert (E1 : (start <=? length src) = true) by (apply Nat.leb_le; lia).
    assert (E2 : (start <=? length smap) = true) by (apply Nat.leb_le; lia).
    rewrite E1, E2, !Nat.leb_refl in Hres. cbn [andb] in Hres.
    rewrite !firstn_all_ge in Hres by (rewrite skipn_length'; lia).
    inversion Hres; subst. repeat split; auto.
    + rewrite <- (firstn_skipn start smap) at 2. symmetry. apply last_app_ne.
      intros C. apply (f_equal (@length nat)) in C. rewrite skipn_length' in C. cbn in C. lia.
    + rewrite <- is_boundary_hd. rewrite is_boundary_skipn by lia. now rewrite Nat.add_0_r.
  - cbn [edits_ok_from] in Hok. repeat rewrite andb_true_iff in Hok.
    destruct Hok as [[[[[[Hs1 Hs2] Hs3] Hbs] Hbe] Hw] Hrest].
    apply Nat.leb_le in Hs1, Hs2, Hs3.
    set (s := e_s e) in *. set (en := e_e e) in *. set (w := e_w e) in *.
    cbn [resolve] in Hres. fold s en w in Hres.
    unfold str_slice, vec_slice in Hres. rewrite Hbst, Hbs in Hres.
    assert (E1 : (start <=? s) = true) by (apply Nat.leb_le; lia).
    assert (E2 : (s <=? length src) = true) by (apply Nat.leb_le; lia).
    assert (E3 : (s <=? length smap) = true) by (apply Nat.leb_le; lia).
    rewrite E1, E2, E3 in Hres. cbn [andb] in Hres.
    destruct (add_replace cfg smap s en w) as [[[rb rm] delta]|] eqn:Ear; [|discriminate].
    destruct (cmp_eval (c_resolve_cmp cfg) (cl + delta) (Z.of_N (c_resolve_limit cfg))); [discriminate|].
    destruct (resolve cfg src smap rest en (cl + delta)) as [t' m' l'| |] eqn:Erec; try discriminate.
    inversion Hres; subst t m l; clear Hres.
    set (k := s - start) in *.
    (* split the suffix at s *)
    destruct (BMap_split o k _ _ HB) as [HF1 HB1]; [rewrite skipn_length'; lia|].
    rewrite !skipn_skipn' in HB1. replace (start + k) with s in HB1 by lia.
    (* and at en *)
    destruct (BMap_split o (en - s) _ _ HB1) as [_ HB2]; [rewrite skipn_length'; lia|].
    rewrite !skipn_skipn' in HB2. replace (s + (en - s)) with en in HB2 by lia.
    set (xs := nth s smap 0). set (xe := nth en smap 0).
    assert (Hxs : is_boundary o xs = true).
    { unfold xs. rewrite <- hd_skipn_nth. apply (BMap_hd o _ _ HB1). rewrite is_boundary_skipn by lia. now rewrite Nat.add_0_r. }
    assert (Hxe : is_boundary o xe = true).
    { unfold xe. rewrite <- hd_skipn_nth. apply (BMap_hd o _ _ HB2). rewrite is_boundary_skipn by lia. now rewrite Nat.add_0_r. }
    (* sortedness of the pieces *)
    assert (Hsplit1 : skipn start smap = firstn k (skipn start smap) ++ skipn s smap).
    { rewrite <- (firstn_skipn k (skipn start smap)) at 1. rewrite skipn_skipn'. now replace (start + k) with s by lia. }
    assert (Hsplit2 : skipn s smap = firstn (en - s) (skipn s smap) ++ skipn en smap).
    { rewrite <- (firstn_skipn (en - s) (skipn s smap)) at 1. rewrite skipn_skipn'. now replace (s + (en - s)) with en by lia. }
    set (A := firstn k (skipn start smap)) in *.
    rewrite Hsplit1 in HS. apply sf_app in HS. destruct HS as [HSA HS1].
    assert (Hs_cons : skipn s smap = xs :: skipn (S s) smap) by (apply skipn_cons_nth; lia).
    assert (He_cons : skipn en smap = xe :: skipn (S en) smap) by (apply skipn_cons_nth; lia).
    assert (HlastA : last A lo <= xs). { rewrite Hs_cons in HS1. now destruct HS1. }
    assert (Hxsxe : xs <= xe).
    { rewrite Hsplit2 in HS1. apply sf_app in HS1. destruct HS1 as [HSD HSE].
      rewrite He_cons in HSE. destruct HSE as [HSE _].
      destruct (Nat.eq_dec en s) as [->|Hne]; [unfold xs, xe; lia|].
      assert (firstn (en - s) (skipn s smap) = xs :: firstn (en - s - 1) (skipn (S s) smap)) as Hd.
      { rewrite Hs_cons. destruct (en - s) eqn:E; [lia|]. cbn [firstn]. f_equal. f_equal. lia. }
      rewrite Hd in HSD, HSE. destruct HSD as [_ HSD]. apply sf_last_ge in HSD.
      assert (last (xs :: firstn (en - s - 1) (skipn (S s) smap)) (last A lo) = last (firstn (en - s - 1) (skipn (S s) smap)) xs) as Hl.
      { generalize (firstn (en - s - 1) (skipn (S s) smap)) as u. clear. intros u. generalize (last A lo) as d. revert xs.
        induction u as [|y u IHu]; intros xs d; [reflexivity|]. cbn [last] in *. destruct u; [reflexivity|]. apply IHu. }
      rewrite Hl in HSE. lia. }
    assert (HSE : SortedFrom xe (skipn en smap)).
    { rewrite Hsplit2 in HS1. apply sf_app in HS1. destruct HS1 as [_ HSE]. rewrite He_cons in HSE |- *. destruct HSE as [_ HSE]. split; [lia|auto]. }
    (* the recursive call *)
    destruct (IH xe en (cl + delta)%Z t' m' l' Hlen Hs3 Hbe Hrest HB2 HSE Erec) as (HBt & HSt & Hlast & Hwf).
    destruct (add_replace_spec _ _ _ _ _ _ _ Ear) as (-> & Hnil & Hcons).
    assert (Hwf' : wf_text (firstn k (skipn start src) ++ w ++ t') = true).
    { destruct (firstn k (skipn start src)) as [|b a'] eqn:Ea.
      - cbn [app]. destruct w as [|b w']; [exact Hwf | exact Hw].
      - cbn [app wf_text]. assert (is_boundary (skipn start src) 0 = true) as H0 by (rewrite is_boundary_skipn by lia; now rewrite Nat.add_0_r).
        destruct (skipn start src) as [|b' r]; [destruct k; discriminate|]. destruct k; [discriminate|]. cbn [firstn] in Ea. inversion Ea; subst. exact H0. }
    assert (Hm'ne : m' <> []).
    { intros C. apply BMap_length in HBt. subst m'. cbn in HBt. lia. }
    destruct w as [|b0 w0] eqn:Ew.
    + rewrite (Hnil eq_refl). cbn [app]. repeat split; auto.
      * apply BMap_app; auto.
      * apply sf_app. split; [auto|]. apply (sf_weaken _ xe); [lia | auto].
      * rewrite <- Hlast. apply last_app_ne. auto.
    + destruct Hcons as (xs' & xe' & Hn1 & Hn2 & ->); [discriminate|].
      assert (xs' = xs) as -> by (unfold xs; symmetry; now apply nth_error_nth).
      assert (xe' = xe) as -> by (unfold xe; symmetry; now apply nth_error_nth).
      repeat split; auto.
      * apply BMap_app; auto. apply BMap_app; auto.
        apply Forall2_R_all.
        { cbn [length]. rewrite repeat_length. lia. }
        { constructor; auto. apply Forall_forall. intros x Hx. apply repeat_spec in Hx. now subst. }
      * apply sf_app. split; [auto|]. apply sf_app. split.
        { cbn [SortedFrom]. split; [auto|]. apply sf_repeat. auto. }
        { apply (sf_weaken _ xe); [|auto]. rewrite last_cons', last_repeat. destruct (length (b0 :: w0) - 1); lia. }
      * rewrite <- Hlast. rewrite app_assoc. apply last_app_ne. auto.
Qed.

(* ------------------------------------------------------------------ the invariant *)
Definition Inv (o : list N) (s : buf) : Prop :=
  orig s = o /\ BMap o (cur s) (m2o s) /\ SortedFrom 0 (m2o s) /\ hd 0 (m2o s) = 0 /\
  last (m2o s) 0 = length o /\ wf_text (cur s) = true /\ wf_text o = true.

Lemma seq_BMap : forall o t a, is_boundary o (a + length t) = true ->
  (forall i, i < length t -> nth_error o (a + i) = nth_error t i) ->
  BMap o t (seq a (length t + 1)).
Proof.
  intros o t. induction t as [|b t IH]; intros a Hend Hnth; cbn [length plus seq].
  - constructor. now rewrite Nat.add_0_r in Hend.
  - constructor.
    + intros Hl. unfold is_boundary. specialize (Hnth 0). rewrite Nat.add_0_r in Hnth. rewrite Hnth by (cbn; lia). exact Hl.
    + apply IH.
      * cbn [length] in Hend. now replace (S a + length t) with (a + S (length t)) by lia.
      * intros i Hi. specialize (Hnth (S i)). cbn [length nth_error] in Hnth. replace (S a + i) with (a + S i) by lia. apply Hnth. lia.
Qed.

Lemma seq_sorted : forall n a lo, lo <= a -> SortedFrom lo (seq a n).
Proof. induction n as [|n IH]; intros a lo H; cbn [seq SortedFrom]; [auto|]. split; [auto|]. apply IH. lia. Qed.

Lemma inv_start : forall o s, wf_text o = true -> start_build cfg o = Ok s -> Inv o s.
Proof.
  intros o s Hwf H. destruct cfg_fields as (Hf & He & _). unfold start_build in H. rewrite Hf, He in H.
  destruct (cmp_eval _ _ _); [discriminate|]. inversion H; subst; clear H.
  replace (length o + 1 - 0) with (length o + 1) by lia.
  unfold Inv; cbn [orig cur m2o]. repeat split; auto.
  - apply seq_BMap; [apply is_boundary_len | auto].
  - apply seq_sorted. lia.
  - rewrite Nat.add_1_r. reflexivity.
  - rewrite Nat.add_1_r. rewrite seq_S. rewrite last_last. lia.
Qed.

Lemma commit_inv : forall o s es s',
  Inv o s -> edits_ok (cur s) es = true -> commit cfg s es = Ok s' -> cur s' <> [] -> Inv o s'.
Proof.
  intros o s es s' (Ho & HB & HS & Hhd & Hlast & Hwf & Hwo) Hok Hc Hne.
  destruct cfg_fields as (_ & _ & Hff & _).
  unfold commit in Hc. destruct es as [|e es]; [inversion Hc; subst; repeat split; auto|].
  destruct (resolve cfg (cur s) (m2o s) (e :: es) 0 (Z.of_nat (length (cur s)))) as [t m l| |] eqn:Er; try discriminate.
  2:{ destruct (cmp_eval _ _ _); discriminate. }
  destruct (cmp_eval _ _ _); [discriminate|]. inversion Hc; subst s'; clear Hc. cbn [cur] in Hne.
  destruct (resolve_ok o (cur s) (m2o s) 0 (e :: es) 0 (Z.of_nat (length (cur s))) t m l) as (HBt & HSt & Hl & Hwt);
    [ apply (BMap_length o); assumption | lia | apply is_boundary_0; assumption | exact Hok | exact HB | exact HS | exact Er | ].
  pose proof (BMap_length _ _ _ HBt) as Hlen.
    unfold Inv; cbn [orig cur m2o]. unfold force_first. rewrite Hff.
    destruct m as [|x m]; [cbn in Hlen; lia|].
    assert (m <> []) as Hmne. { intros ->. cbn in Hlen. destruct t; [contradiction | cbn in Hlen; lia]. }
    split; [exact Ho|]. split; [|split; [|split; [reflexivity|split; [|split; [exact Hwt | exact Hwo]]]]].
    + inversion HBt; subst.
      * contradiction.
      * constructor; auto. intros _. now apply is_boundary_0.
    + destruct HSt as [Hx HSt]. split; [lia|]. apply (sf_weaken _ x); [lia|auto].
    + rewrite <- Hlast, <- Hl. rewrite !last_cons'. destruct m as [|y m]; [contradiction|]. now rewrite !last_cons'.
Qed.

(* every state reachable from start_build by well-formed batches that leave the text non-empty *)
Inductive Reach (o : list N) : buf -> Prop :=
| R_start s : start_build cfg o = Ok s -> Reach o s
| R_commit s es s' : Reach o s -> edits_ok (cur s) es = true -> commit cfg s es = Ok s' -> cur s' <> [] -> Reach o s'.

Lemma reach_inv : forall o s, wf_text o = true -> Reach o s -> Inv o s.
Proof. intros o s Hwf H. induction H; [now apply inv_start | eapply commit_inv; eauto]. Qed.

(* the invariant in terms of positions *)
Definition InvPos (o : list N) (s : buf) : Prop :=
  orig s = o /\
  length (m2o s) = length (cur s) + 1 /\
  nth 0 (m2o s) 0 = 0 /\
  nth (length (cur s)) (m2o s) 0 = length o /\
  (forall i j, i <= j -> j <= length (cur s) -> nth i (m2o s) 0 <= nth j (m2o s) 0) /\
  (forall p, is_boundary (cur s) p = true -> is_boundary o (nth p (m2o s) 0) = true).

Lemma inv_pos : forall o s, Inv o s -> InvPos o s.
Proof.
  intros o s (Ho & HB & HS & Hhd & Hlast & Hwf & Hwo).
  pose proof (BMap_length _ _ _ HB) as Hlen.
  unfold InvPos. repeat split; auto.
  - destruct (m2o s); [cbn in Hlen; lia | exact Hhd].
  - rewrite <- Hlast. rewrite <- (firstn_skipn (length (cur s)) (m2o s)) at 2.
    assert (skipn (length (cur s)) (m2o s) = [nth (length (cur s)) (m2o s) 0]) as E.
    { rewrite (skipn_cons_nth _ _ 0) by lia. f_equal. apply skipn_all2. lia. }
    rewrite E. now rewrite last_last.
  - intros i j Hij Hj. apply (sf_nth_mono _ 0); auto. lia.
  - apply BMap_nth_boundary. exact HB.
Qed.

Theorem inv_all_batches : forall o s, wf_text o = true -> Reach o s -> InvPos o s.
Proof. intros. apply inv_pos. now apply reach_inv. Qed.

(* ------------------------------------------------------------------ bytes that a batch does not replace *)
Lemma resolve_kept : forall o src smap edits start cl t m l,
  length smap = length src + 1 ->
  start <= length src -> is_boundary src start = true ->
  edits_ok_from src start edits = true ->
  BMap o (skipn start src) (skipn start smap) ->
  SortedFrom 0 smap ->
  resolve cfg src smap edits start cl = ROk t m l ->
  forall q, start <= q -> q < length src -> kept edits q = true ->
    nth_error t (newpos_from edits start q) = nth_error src q /\
    nth (newpos_from edits start q) m 0 = nth q smap 0 /\
    nth (S q) smap 0 <= nth (S (newpos_from edits start q)) m 0.
Proof.
  intros o src smap edits. induction edits as [|e rest IH]; intros start cl t m l Hlen Hst Hbst Hok HB HS Hres q Hq1 Hq2 Hk.
  - cbn [resolve] in Hres. unfold str_slice, vec_slice in Hres.
    rewrite Hbst, is_boundary_len in Hres.
    assert (E1 : (start <=? length src) = true) by (apply Nat.leb_le; lia).
    assert (E2 : (start <=? length smap) = true) by (apply Nat.leb_le; lia).
    rewrite E1, E2, !Nat.leb_refl in Hres. cbn [andb] in Hres.
    rewrite !firstn_all_ge in Hres by (rewrite skipn_length'; lia).
    inversion Hres; subst. cbn [newpos_from].
    rewrite nth_error_skipn', !nth_skipn'. replace (start + (q - start)) with q by lia.
    replace (start + S (q - start)) with (S q) by lia. repeat split; auto.
  - cbn [edits_ok_from] in Hok. repeat rewrite andb_true_iff in Hok.
    destruct Hok as [[[[[[Hs1 Hs2] Hs3] Hbs] Hbe] Hw] Hrest].
    apply Nat.leb_le in Hs1, Hs2, Hs3.
    cbn [kept forallb] in Hk. apply andb_true_iff in Hk. destruct Hk as [Hk1 Hk2]. fold (kept rest q) in Hk2.
    set (s := e_s e) in *. set (en := e_e e) in *. set (w := e_w e) in *.
    cbn [resolve newpos_from]. cbn [resolve] in Hres. fold s en w. fold s en w in Hres.
    unfold str_slice, vec_slice in Hres. rewrite Hbst, Hbs in Hres.
    assert (E1 : (start <=? s) = true) by (apply Nat.leb_le; lia).
    assert (E2 : (s <=? length src) = true) by (apply Nat.leb_le; lia).
    assert (E3 : (s <=? length smap) = true) by (apply Nat.leb_le; lia).
    rewrite E1, E2, E3 in Hres. cbn [andb] in Hres.
    destruct (add_replace cfg smap s en w) as [[[rb rm] delta]|] eqn:Ear; [|discriminate].
    destruct (cmp_eval (c_resolve_cmp cfg) (cl + delta) (Z.of_N (c_resolve_limit cfg))); [discriminate|].
    destruct (resolve cfg src smap rest en (cl + delta)) as [t' m' l'| |] eqn:Erec; try discriminate.
    inversion Hres; subst t m l; clear Hres.
    set (k := s - start) in *.
    destruct (BMap_split o k _ _ HB) as [_ HB1]; [rewrite skipn_length'; lia|].
    rewrite !skipn_skipn' in HB1. replace (start + k) with s in HB1 by lia.
    destruct (BMap_split o (en - s) _ _ HB1) as [_ HB2]; [rewrite skipn_length'; lia|].
    rewrite !skipn_skipn' in HB2. replace (s + (en - s)) with en in HB2 by lia.
    set (xs := nth s smap 0). set (xe := nth en smap 0).
    assert (Hxsxe : xs <= xe) by (apply (sf_nth_mono _ 0); auto; lia).
    assert (HSE : SortedFrom xe (skipn en smap)) by (apply (sf_skipn _ _ 0); auto; lia).
    destruct (resolve_ok o src smap xe rest en (cl + delta)%Z t' m' l' Hlen Hs3 Hbe Hrest HB2 HSE Erec) as (HBt & HSt & _ & _).
    assert (Hm'ne : m' <> []). { intros C. apply BMap_length in HBt. subst m'. cbn in HBt. lia. }
    destruct (add_replace_spec _ _ _ _ _ _ _ Ear) as (-> & Hnil & Hcons).
    assert (Hla : length (firstn k (skipn start src)) = k) by (rewrite firstn_length, skipn_length'; lia).
    assert (Hlb : length (firstn k (skipn start smap)) = k) by (rewrite firstn_length, skipn_length'; lia).
    assert (Hlrm : length rm = length w).
    { destruct w as [|b0 w0] eqn:Ew; [now rewrite (Hnil eq_refl)|].
      destruct Hcons as (xs' & xe' & _ & _ & ->); [discriminate|]. cbn [length]. rewrite repeat_length. lia. }
    assert (Hhd : xs <= nth 0 (rm ++ m') 0).
    { destruct w as [|b0 w0] eqn:Ew.
      - rewrite (Hnil eq_refl). cbn [app]. pose proof (sf_hd_ge _ _ HSt Hm'ne). lia.
      - destruct Hcons as (xs' & xe' & Hn1 & _ & ->); [discriminate|]. cbn [app nth].
        apply (nth_error_nth _ _ 0) in Hn1. fold xs in Hn1. lia. }
    destruct (Nat.ltb_spec q s) as [Hlt|Hge].
    + (* in the copied stretch *)
      assert (q - start < k) by lia.
      rewrite nth_error_app1 by lia. rewrite app_nth1 by lia.
      rewrite nth_error_firstn_lt, nth_firstn_lt by lia.
      rewrite nth_error_skipn', nth_skipn'. replace (start + (q - start)) with q by lia.
      split; [reflexivity|]. split; [reflexivity|].
      destruct (Nat.eq_dec (S q) s) as [Heq|Hne].
      * rewrite app_nth2 by lia. replace (S (q - start) - length (firstn k (skipn start smap))) with 0 by lia.
        rewrite Heq. fold xs. exact Hhd.
      * rewrite app_nth1 by lia. rewrite nth_firstn_lt by lia. rewrite nth_skipn'.
        replace (start + S (q - start)) with (S q) by lia. lia.
    + (* behind the edit *)
      cbn [orb] in Hk1. apply Nat.leb_le in Hk1.
      destruct (IH en (cl + delta)%Z t' m' l' Hlen Hs3 Hbe Hrest HB2 HS Erec q Hk1 Hq2 Hk2) as (I1 & I2 & I3).
      set (np := newpos_from rest en q) in *.
      rewrite nth_error_app2 by lia. rewrite nth_error_app2 by lia.
      rewrite app_nth2 by lia. rewrite app_nth2 by lia.
      replace (k + length w + np - length (firstn k (skipn start src)) - length w) with np by lia.
      replace (k + length w + np - length (firstn k (skipn start smap)) - length rm) with np by lia.
      split; [exact I1|]. split; [exact I2|].
      rewrite app_nth2 by lia. rewrite app_nth2 by lia.
      replace (S (k + length w + np) - length (firstn k (skipn start smap)) - length rm) with (S np) by lia.
      exact I3.
Qed.

Lemma newpos_succ : forall src es start q,
  edits_ok_from src start es = true -> start <= q -> kept es q = true -> kept es (S q) = true ->
  is_boundary src (S q) = false -> newpos_from es start (S q) = S (newpos_from es start q).
Proof.
  intros src es. induction es as [|e r IH]; intros start q Hok Hq Hk1 Hk2 Hnb; cbn [newpos_from]; [lia|].
  cbn [edits_ok_from] in Hok. repeat rewrite andb_true_iff in Hok.
  destruct Hok as [[[[[[Hs1 Hs2] Hs3] Hbs] Hbe] Hw] Hrest]. apply Nat.leb_le in Hs1, Hs2, Hs3.
  cbn [kept forallb] in Hk1, Hk2. apply andb_true_iff in Hk1, Hk2. destruct Hk1 as [Hk1 Hk1']. destruct Hk2 as [Hk2 Hk2'].
  destruct (Nat.ltb_spec q (e_s e)) as [Hlt|Hge]; destruct (Nat.ltb_spec (S q) (e_s e)) as [Hlt2|Hge2]; try lia.
  - assert (S q = e_s e) by lia. congruence.
  - cbn [orb] in Hk1. apply Nat.leb_le in Hk1. rewrite (IH (e_e e) q) by auto. lia.
Qed.

Lemma commit_kept : forall o s es s' q,
  Inv o s -> edits_ok (cur s) es = true -> commit cfg s es = Ok s' -> q < length (cur s) -> kept es q = true ->
  nth_error (cur s') (newpos es q) = nth_error (cur s) q /\
  nth (newpos es q) (m2o s') 0 = (if Nat.eqb (newpos es q) 0 then 0 else nth q (m2o s) 0) /\
  nth (S q) (m2o s) 0 <= nth (S (newpos es q)) (m2o s') 0.
Proof.
  intros o s es s' q (Ho & HB & HS & Hhd & Hlast & Hwf & Hwo) Hok Hc Hq Hk.
  destruct cfg_fields as (_ & _ & Hff & _).
  pose proof (BMap_length _ _ _ HB) as Hlen.
  unfold commit in Hc. destruct es as [|e es].
  - inversion Hc; subst s'. unfold newpos. cbn [newpos_from]. rewrite Nat.sub_0_r.
    split; [reflexivity|]. split; [|lia].
    destruct (Nat.eqb_spec q 0) as [->|]; [|reflexivity]. destruct (m2o s); [cbn in Hlen; lia | exact Hhd].
  - destruct (resolve cfg (cur s) (m2o s) (e :: es) 0 (Z.of_nat (length (cur s)))) as [t m l| |] eqn:Er; try discriminate.
    2:{ destruct (cmp_eval _ _ _); discriminate. }
    destruct (cmp_eval _ _ _); [discriminate|]. inversion Hc; subst s'; clear Hc. cbn [cur m2o].
    destruct (resolve_kept o (cur s) (m2o s) (e :: es) 0 (Z.of_nat (length (cur s))) t m l) with (q := q) as (K1 & K2 & K3);
      [ assumption | lia | apply is_boundary_0; assumption | exact Hok | exact HB | exact HS | exact Er | lia | exact Hq | exact Hk | ].
    fold (newpos (e :: es) q) in K1, K2, K3. set (p := newpos (e :: es) q) in *.
    unfold force_first. rewrite Hff. destruct m as [|x m].
    + split; [exact K1|]. destruct p; cbn [nth] in *; split; auto.
    + split; [exact K1|]. split.
      * destruct p as [|p]; cbn [nth Nat.eqb] in *; auto.
      * cbn [nth] in *. exact K3.
Qed.

(* a byte of the original followed through batches that do not replace it:
   Tracks o s q p ex = byte q of o sits at offset p of cur s; ex = it never became the first byte of the text *)
Inductive Tracks (o : list N) : buf -> nat -> nat -> bool -> Prop :=
| T_start s q : start_build cfg o = Ok s -> q < length o -> Tracks o s q q true
| T_commit s es s' q p ex : Tracks o s q p ex -> edits_ok (cur s) es = true -> commit cfg s es = Ok s' -> cur s' <> [] ->
    kept es p = true -> Tracks o s' q (newpos es p) (ex && negb (Nat.eqb (newpos es p) 0)).

Theorem unreplaced_maps_to_self : forall o s q p ex, wf_text o = true -> Tracks o s q p ex ->
  Reach o s /\
  nth_error (cur s) p = nth_error o q /\ q < length o /\
  nth p (m2o s) 0 <= q /\ S q <= nth (S p) (m2o s) 0 /\
  (ex = true \/ q = 0 -> nth p (m2o s) 0 = q).
Proof.
  intros o s q p ex Hwf H. induction H as [s q Hs Hq | s es s' q p ex H IH Hok Hc Hne Hk].
  - split; [now apply R_start|]. pose proof Hs as Hs'.
    destruct cfg_fields as (Hf & He & _). unfold start_build in Hs. rewrite Hf, He in Hs.
    destruct (cmp_eval _ _ _); [discriminate|]. inversion Hs; subst; clear Hs. cbn [cur m2o].
    replace (length o + 1 - 0) with (length o + 1) by lia.
    rewrite !seq_nth by lia. repeat split; auto; lia.
  - destruct IH as (HR & I1 & I2 & I3 & I4 & I5).
    pose proof (reach_inv _ _ Hwf HR) as HI.
    assert (Hp : p < length (cur s)). { apply nth_error_Some. rewrite I1. apply nth_error_Some. exact I2. }
    destruct (commit_kept _ _ _ _ _ HI Hok Hc Hp Hk) as (K1 & K2 & K3).
    split; [eapply R_commit; eauto|]. split; [congruence|]. split; [exact I2|].
    split; [rewrite K2; destruct (Nat.eqb (newpos es p) 0); lia|]. split; [lia|].
    intros [Hex|Hq0].
    + apply andb_true_iff in Hex. destruct Hex as [Hex Hnz]. rewrite K2.
      destruct (Nat.eqb (newpos es p) 0); [discriminate|]. apply I5. now left.
    + rewrite K2. destruct (Nat.eqb (newpos es p) 0); [lia|]. apply I5. now right.
Qed.

(* ------------------------------------------------------------------ code-point offsets under the invariant *)
Lemma orig_b2c_eq : forall t, orig_b2c cfg t = ob2c_scan t 0 ++ [Some (0 + count_leads t)].
Proof.
  intros t. destruct cfg_fields as (_ & _ & _ & _ & _ & _ & _ & Hi & Hc). unfold orig_b2c. rewrite Hi, Hc.
  do 3 f_equal. destruct (count_leads t); lia.
Qed.

Lemma orig_b2c_counts_codepoints : forall o b, is_boundary o b = true ->
  nth_error (orig_b2c cfg o) b = Some (Some (codepoints_before o b)).
Proof. intros o b Hb. rewrite orig_b2c_eq. rewrite ob2c_nth by auto. reflexivity. Qed.

Lemma to_orig_byte_idx_boundary : forall o s ci b, Inv o s -> to_orig_byte_idx s ci = Some b -> is_boundary o b = true.
Proof.
  intros o s ci b (Ho & HB & _) H. unfold to_orig_byte_idx, mod_c2b in H.
  destruct (nth_error (c2b_scan (cur s) 0 ++ [length (cur s)]) ci) as [p|] eqn:E; [|discriminate].
  destruct (c2b_boundary (cur s) 0 ci p E) as [_ Hp]. rewrite Nat.sub_0_r in Hp.
  apply (nth_error_nth _ _ 0) in H. subst b. now apply (BMap_nth_boundary o _ _ HB).
Qed.

Lemma begin_c_eq : forall o s ci b, Inv o s -> to_orig_byte_idx s ci = Some b ->
  to_orig_char_idx cfg s ci = Some (codepoints_before o b).
Proof.
  intros o s ci b HI H. pose proof (to_orig_byte_idx_boundary _ _ _ _ HI H) as Hb.
  unfold to_orig_char_idx. rewrite H. destruct HI as (Ho & _). rewrite Ho.
  now rewrite orig_b2c_counts_codepoints.
Qed.

Lemma char_slice_eq_byte_slice : forall o s ci cj bi bj, Inv o s ->
  to_orig_byte_idx s ci = Some bi -> to_orig_byte_idx s cj = Some bj ->
  exists ai aj, to_orig_char_idx cfg s ci = Some ai /\ to_orig_char_idx cfg s cj = Some aj /\
                cp_slice o ai aj = byte_slice o (bi, bj).
Proof.
  intros o s ci cj bi bj HI Hi Hj. exists (codepoints_before o bi), (codepoints_before o bj).
  split; [now apply begin_c_eq|]. split; [now apply begin_c_eq|].
  apply cp_slice_byte_slice; eapply to_orig_byte_idx_boundary; eauto.
Qed.

(* ------------------------------------------------------------------ surfaces (C01) *)
Lemma orig_slice_spec : forall o s a b, Inv o s -> is_boundary (cur s) a = true -> is_boundary (cur s) b = true -> a <= b ->
  orig_slice s a b = Some (byte_slice o (map_range (m2o s) (a, b))).
Proof.
  intros o s a b HI Ha Hb Hab. destruct (inv_pos _ _ HI) as (Ho & Hlen & _ & _ & Hmono & Hbnd).
  pose proof (is_boundary_le _ _ Ha) as La. pose proof (is_boundary_le _ _ Hb) as Lb.
  unfold orig_slice, to_orig. rewrite Ha, Hb. cbn [andb].
  rewrite (nth_error_nth' (m2o s) 0) by lia. rewrite (nth_error_nth' (m2o s) 0) by lia.
  unfold str_slice. rewrite Ho. rewrite (Hbnd _ Ha), (Hbnd _ Hb).
  assert (E1 : (nth a (m2o s) 0 <=? nth b (m2o s) 0) = true) by (apply Nat.leb_le; apply Hmono; lia).
  assert (E2 : (nth b (m2o s) 0 <=? length o) = true) by (apply Nat.leb_le; apply is_boundary_le; apply Hbnd; exact Hb).
  rewrite E1, E2. reflexivity.
Qed.

Lemma begin_char_eq_byte : forall s ci bb, nth_error (mod_c2b (cur s)) ci = Some bb ->
  to_orig_byte_idx s ci = nth_error (m2o s) bb.
Proof. intros s ci bb H. unfold to_orig_byte_idx. now rewrite H. Qed.

Theorem surfaces_partition : forall o s p, Inv o s -> path_ok_b (cur s) p = true ->
  partition_b o (map (map_range (m2o s)) p) = true.
Proof.
  intros o s p HI Hp. destruct (inv_pos _ _ HI) as (Ho & Hlen & H0 & Hend & Hmono & Hbnd).
  unfold path_ok_b in Hp. apply andb_true_iff in Hp. destruct Hp as [Hc Hf].
  unfold partition_b. apply andb_true_iff. split.
  - rewrite <- H0, <- Hend. apply chain_map; auto.
  - rewrite forallb_forall in *. intros r Hr. apply in_map_iff in Hr. destruct Hr as ([a b] & <- & Hin).
    specialize (Hf _ Hin). cbn [fst snd] in Hf. apply andb_true_iff in Hf. destruct Hf as [Ha Hb].
    unfold map_range. cbn [fst snd]. now rewrite (Hbnd _ Ha), (Hbnd _ Hb).
Qed.

Theorem concat_surfaces_eq_input : forall o s p, Inv o s -> path_ok_b (cur s) p = true ->
  concat (map (byte_slice o) (map (map_range (m2o s)) p)) = o.
Proof.
  intros o s p HI Hp. pose proof (surfaces_partition _ _ _ HI Hp) as H. unfold partition_b in H.
  apply andb_true_iff in H. destruct H as [Hc _]. rewrite (chain_concat _ _ _ _ Hc).
  rewrite Nat.sub_0_r. cbn [skipn]. now apply firstn_all.
Qed.

(* every surface reported through orig_slice is the corresponding slice of the original *)
Theorem surfaces_are_slices : forall o s p, Inv o s -> path_ok_b (cur s) p = true ->
  forall r, In r p -> orig_slice s (fst r) (snd r) = Some (byte_slice o (map_range (m2o s) r)).
Proof.
  intros o s p HI Hp [a b] Hin. unfold path_ok_b in Hp. apply andb_true_iff in Hp. destruct Hp as [Hc Hf].
  rewrite forallb_forall in Hf. specialize (Hf _ Hin). cbn [fst snd] in *. apply andb_true_iff in Hf. destruct Hf as [Ha Hb].
  apply orig_slice_spec; auto.
  clear - Hc Hin. revert Hc Hin. generalize 0 as from. induction p as [|[b' e'] r IH]; intros from Hc Hin; [contradiction|].
  cbn [chain_b] in Hc. repeat rewrite andb_true_iff in Hc. destruct Hc as [[H1 H2] H3].
  destruct Hin as [E|Hin]; [inversion E; subst; now apply Nat.leb_le | eapply IH; eauto].
Qed.

(* a non-empty text cannot be covered by the empty path; an empty one is only covered by empty ranges *)
Lemma empty_path_iff_empty_text : forall c, path_ok_b c [] = true <-> c = [].
Proof.
  intros c. unfold path_ok_b. cbn [chain_b forallb]. rewrite andb_true_r. rewrite Nat.eqb_eq.
  destruct c; cbn [length]; split; intros; auto; try lia; discriminate.
Qed.

(* ------------------------------------------------------------------ the accessors never panic on character indices *)
Lemma c2b_scan_length : forall t i, length (c2b_scan t i) = count_leads t.
Proof. induction t as [|b t IH]; intros i; cbn [c2b_scan count_leads]; [reflexivity|]. destruct (is_lead b); cbn [length]; now rewrite IH. Qed.

Lemma to_orig_byte_idx_total : forall o s ci, Inv o s -> ci <= count_leads (cur s) -> exists b, to_orig_byte_idx s ci = Some b.
Proof.
  intros o s ci HI Hci. pose proof HI as (_ & HB & _). apply BMap_length in HB.
  unfold to_orig_byte_idx, mod_c2b.
  destruct (nth_error (c2b_scan (cur s) 0 ++ [length (cur s)]) ci) as [p|] eqn:E.
  - destruct (c2b_boundary (cur s) 0 ci p E) as [_ Hp]. rewrite Nat.sub_0_r in Hp. apply is_boundary_le in Hp.
    destruct (nth_error (m2o s) p) eqn:E2; [eauto|]. apply nth_error_None in E2. lia.
  - apply nth_error_None in E. rewrite app_length, c2b_scan_length in E. cbn in E. lia.
Qed.

(* ------------------------------------------------------------------ statements over reachable states *)
Theorem begin_c_counts_codepoints : forall o s ci, wf_text o = true -> Reach o s -> ci <= count_leads (cur s) ->
  exists b, to_orig_byte_idx s ci = Some b /\ is_boundary o b = true /\
            to_orig_char_idx cfg s ci = Some (codepoints_before o b).
Proof.
  intros o s ci Hwf HR Hci. pose proof (reach_inv _ _ Hwf HR) as HI.
  destruct (to_orig_byte_idx_total _ _ _ HI Hci) as [b Hb]. exists b. split; [auto|]. split.
  - eapply to_orig_byte_idx_boundary; eauto.
  - now apply begin_c_eq.
Qed.

Theorem char_slice_eq_byte_slice_reach : forall o s ci cj, wf_text o = true -> Reach o s ->
  ci <= cj -> cj <= count_leads (cur s) ->
  exists bi bj ai aj, to_orig_byte_idx s ci = Some bi /\ to_orig_byte_idx s cj = Some bj /\
    to_orig_char_idx cfg s ci = Some ai /\ to_orig_char_idx cfg s cj = Some aj /\
    cp_slice o ai aj = byte_slice o (bi, bj).
Proof.
  intros o s ci cj Hwf HR Hij Hcj. pose proof (reach_inv _ _ Hwf HR) as HI.
  destruct (to_orig_byte_idx_total _ _ ci HI) as [bi Hbi]; [lia|].
  destruct (to_orig_byte_idx_total _ _ cj HI) as [bj Hbj]; [lia|].
  destruct (char_slice_eq_byte_slice _ _ _ _ _ _ HI Hbi Hbj) as (ai & aj & H1 & H2 & H3).
  exists bi, bj, ai, aj. auto.
Qed.

Theorem surfaces_partition_reach : forall o s p, wf_text o = true -> Reach o s -> path_ok_b (cur s) p = true ->
  partition_b o (map (map_range (m2o s)) p) = true /\
  concat (map (byte_slice o) (map (map_range (m2o s)) p)) = o /\
  (forall r, In r p -> orig_slice s (fst r) (snd r) = Some (byte_slice o (map_range (m2o s) r))).
Proof.
  intros o s p Hwf HR Hp. pose proof (reach_inv _ _ Hwf HR) as HI. split; [|split].
  - now apply surfaces_partition.
  - now apply concat_surfaces_eq_input.
  - now apply surfaces_are_slices.
Qed.

(* ------------------------------------------------------------------ the decidable invariant holds on reachable states *)
Lemma sorted_b_of_sf : forall l lo, SortedFrom lo l -> sorted_b l = true.
Proof.
  induction l as [|x l IH]; intros lo H; [reflexivity|]. destruct H as [_ H].
  destruct l as [|y l]; [reflexivity|]. change (sorted_b (x :: y :: l)) with ((x <=? y) && sorted_b (y :: l)). rewrite (IH x H). destruct H as [H _].
  apply Nat.leb_le in H. now rewrite H.
Qed.

Lemma inv_b_complete : forall o s, Inv o s -> inv_b o (cur s) (m2o s) = true.
Proof.
  intros o s HI. pose proof (inv_pos _ _ HI) as (Ho & Hlen & H0 & Hend & Hmono & Hbnd).
  destruct HI as (_ & HB & HS & Hhd & Hlast & Hwf & Hwo).
  unfold inv_b. rewrite Hlen, Nat.eqb_refl, H0, (sorted_b_of_sf _ _ HS), Hwf, Hlast, Nat.eqb_refl. cbn [andb Nat.eqb].
  assert (forallb (fun p => implb (is_boundary (cur s) p) (is_boundary o (nth p (m2o s) 0))) (seq 0 (length (cur s) + 1)) = true) as ->.
  { apply forallb_forall. intros p _. destruct (is_boundary (cur s) p) eqn:E; [|reflexivity]. cbn [implb]. now apply Hbnd. }
  destruct (cur s); rewrite ?Nat.eqb_refl; reflexivity.
Qed.

Theorem reachable_satisfies_inv_b : forall o s, wf_text o = true -> Reach o s -> inv_b o (cur s) (m2o s) = true.
Proof. intros. apply inv_b_complete. now apply reach_inv. Qed.

(* ------------------------------------------------------------------ lengths stay within u16 (guards) *)
Lemma cmp_gt : forall a b, cmp_eval ">" a b = Z.ltb b a.
Proof. reflexivity. Qed.

Lemma resolve_len : forall src smap edits start cl t m l,
  length smap = length src + 1 -> start <= length src -> is_boundary src start = true ->
  edits_ok_from src start edits = true ->
  resolve cfg src smap edits start cl = ROk t m l ->
  (Z.of_nat (length t) = l - cl + Z.of_nat (length src - start))%Z.
Proof.
  intros src smap edits. induction edits as [|e rest IH]; intros start cl t m l Hlen Hst Hbst Hok Hres.
  - cbn [resolve] in Hres. unfold str_slice, vec_slice in Hres.
    rewrite Hbst, is_boundary_len in Hres.
    assert (E1 : (start <=? length src) = true) by (apply Nat.leb_le; lia).
    assert (E2 : (start <=? length smap) = true) by (apply Nat.leb_le; lia).
    rewrite E1, E2, !Nat.leb_refl in Hres. cbn [andb] in Hres.
    inversion Hres; subst. rewrite firstn_length, skipn_length'. lia.
  - cbn [edits_ok_from] in Hok. repeat rewrite andb_true_iff in Hok.
    destruct Hok as [[[[[[Hs1 Hs2] Hs3] Hbs] Hbe] Hw] Hrest].
    apply Nat.leb_le in Hs1, Hs2, Hs3.
    cbn [resolve] in Hres. unfold str_slice, vec_slice in Hres. rewrite Hbst, Hbs in Hres.
    assert (E1 : (start <=? e_s e) = true) by (apply Nat.leb_le; lia).
    assert (E2 : (e_s e <=? length src) = true) by (apply Nat.leb_le; lia).
    assert (E3 : (e_s e <=? length smap) = true) by (apply Nat.leb_le; lia).
    rewrite E1, E2, E3 in Hres. cbn [andb] in Hres.
    destruct (add_replace cfg smap (e_s e) (e_e e) (e_w e)) as [[[rb rm] delta]|] eqn:Ear; [|discriminate].
    destruct (cmp_eval (c_resolve_cmp cfg) (cl + delta) (Z.of_N (c_resolve_limit cfg))); [discriminate|].
    destruct (resolve cfg src smap rest (e_e e) (cl + delta)) as [t' m' l'| |] eqn:Erec; try discriminate.
    inversion Hres; subst t m l; clear Hres.
    pose proof (IH _ _ _ _ _ Hlen Hs3 Hbe Hrest Erec) as Hi.
    destruct (add_replace_spec _ _ _ _ _ _ _ Ear) as (-> & _ & _).
    assert (delta = Z.of_nat (length (e_w e)) - Z.of_nat (e_e e - e_s e))%Z as Hd.
    { unfold add_replace in Ear. destruct (e_w e) as [|b0 w0].
      - inversion Ear. cbn [length]. lia.
      - destruct (nth_error smap _); [|discriminate]. destruct (nth_error smap _); [|discriminate]. now inversion Ear. }
    rewrite !app_length, firstn_length, skipn_length'. lia.
Qed.

Lemma resolve_final_len_bounded : forall src smap edits start cl t m l,
  c_resolve_cmp cfg = ">"%string -> edits <> [] ->
  resolve cfg src smap edits start cl = ROk t m l -> (l <= Z.of_N (c_resolve_limit cfg))%Z.
Proof.
  intros src smap edits. induction edits as [|e rest IH]; intros start cl t m l Hc Hne Hres; [contradiction|].
  cbn [resolve] in Hres.
  destruct (str_slice src start (e_s e)); [|discriminate]. destruct (vec_slice smap start (e_s e)); [|discriminate].
  destruct (add_replace cfg smap (e_s e) (e_e e) (e_w e)) as [[[rb rm] delta]|]; [|discriminate].
  rewrite Hc, cmp_gt in Hres. destruct (Z.ltb_spec (Z.of_N (c_resolve_limit cfg)) (cl + delta)) as [|Hle]; [discriminate|].
  destruct (resolve cfg src smap rest (e_e e) (cl + delta)) as [t' m' l'| |] eqn:Erec; try discriminate.
  inversion Hres; subst. destruct rest as [|e2 rest'].
  - cbn [resolve] in Erec. destruct (str_slice _ _ _); [|discriminate]. destruct (vec_slice _ _ _); [|discriminate].
    inversion Erec; subst. exact Hle.
  - eapply IH; eauto. discriminate.
Qed.

Theorem reach_len_u16 : forall o s, guards_ok cfg = true -> wf_text o = true -> Reach o s ->
  (N.of_nat (length (cur s)) <= 65535)%N.
Proof.
  intros o s Hg Hwf HR. unfold guards_ok in Hg. repeat rewrite andb_true_iff in Hg.
  destruct Hg as [[[G1 G2] G3] G4]. apply String.eqb_eq in G1, G3. apply N.leb_le in G2, G4.
  induction HR as [s Hs | s es s' HR IH Hok Hc Hne].
  - destruct cfg_fields as (Hf & He & _). unfold start_build in Hs. rewrite G1, cmp_gt in Hs.
    destruct (Z.ltb_spec (Z.of_N (c_start_limit cfg)) (Z.of_nat (length o))) as [|Hle]; [discriminate|].
    inversion Hs; subst. cbn [cur]. lia.
  - pose proof (reach_inv _ _ Hwf HR) as HI. destruct HI as (_ & HB & _ & _ & _ & Hwfc & _).
    pose proof (BMap_length _ _ _ HB) as Hlen.
    unfold commit in Hc. destruct es as [|e es]; [inversion Hc; subst; exact IH|].
    destruct (resolve cfg (cur s) (m2o s) (e :: es) 0 (Z.of_nat (length (cur s)))) as [t m l| |] eqn:Er; try discriminate.
    2:{ destruct (cmp_eval _ _ _); discriminate. }
    destruct (cmp_eval _ _ _); [discriminate|]. inversion Hc; subst s'; clear Hc. cbn [cur].
    pose proof (resolve_len _ _ _ _ _ _ _ _ Hlen (Nat.le_0_l _) (is_boundary_0 _ Hwfc) Hok Er) as Hl.
    assert (e :: es <> []) as Hne' by discriminate.
    pose proof (resolve_final_len_bounded _ _ _ _ _ _ _ _ G3 Hne' Er) as Hb.
    lia.
Qed.

(* ------------------------------------------------------------------ the size resolve_edits reports is a size in BYTES *)
(* byte-length delta of a batch: every edit replaces e_e - e_s bytes by the bytes of its replacement text (whatever
   ReplaceTgt variant carried it: the UTF-8 encoding of a char has 1..4 bytes, a string any number) *)
Definition delta_bytes (es : list edit) : Z :=
  fold_right (fun e a => (Z.of_nat (length (e_w e)) - Z.of_nat (e_e e - e_s e) + a)%Z) 0%Z es.

Lemma add_replace_delta smap s e w rb rm d :
  add_replace cfg smap s e w = Some (rb, rm, d) -> rb = w /\ d = (Z.of_nat (length w) - Z.of_nat (e - s))%Z.
Proof.
  unfold add_replace. destruct w as [|x w]; [intros H; inversion H; subst; split; [reflexivity | cbn; lia]|].
  destruct (nth_error smap _); [|discriminate]. destruct (nth_error smap _); [|discriminate].
  intros H. inversion H; subst. split; reflexivity.
Qed.

(* accepted batch: the reported size is the byte length of the rewritten text *)
Theorem resolve_reports_byte_length : forall src smap edits t m l,
  length smap = length src + 1 -> wf_text src = true -> edits_ok src edits = true ->
  resolve cfg src smap edits 0 (Z.of_nat (length src)) = ROk t m l ->
  l = Z.of_nat (length t) /\ l = (Z.of_nat (length src) + delta_bytes edits)%Z.
Proof.
  intros src smap edits t m l Hlen Hwf Hok Hr.
  pose proof (resolve_len _ _ _ _ _ _ _ _ Hlen (Nat.le_0_l _) (is_boundary_0 _ Hwf) Hok Hr) as Hl.
  split; [lia|]. clear Hl Hok Hwf Hlen.
  assert (G : forall es start cl t m l, resolve cfg src smap es start cl = ROk t m l -> l = (cl + delta_bytes es)%Z).
  { induction es as [|e rest IH]; intros start cl t' m' l' H; cbn [resolve delta_bytes fold_right] in *.
    - destruct (str_slice src start (length src)); [|discriminate]. destruct (vec_slice smap start (length smap)); [|discriminate].
      inversion H; lia.
    - destruct (str_slice src start (e_s e)); [|discriminate]. destruct (vec_slice smap start (e_s e)); [|discriminate].
      destruct (add_replace cfg smap (e_s e) (e_e e) (e_w e)) as [[[rb rm] d]|] eqn:Ea; [|discriminate].
      destruct (add_replace_delta _ _ _ _ _ _ _ Ea) as [_ ->].
      destruct (cmp_eval _ _ _); [discriminate|].
      destruct (resolve cfg src smap rest (e_e e) _) as [t2 m2 l2| |] eqn:Er; try discriminate.
      inversion H; subst. rewrite (IH _ _ _ _ _ Er). fold (delta_bytes rest). lia. }
  exact (G _ _ _ _ _ _ Hr).
Qed.

(* rejected batch: the reported size is the byte length the text has after the edits seen so far, and it is over the limit *)
Theorem resolve_too_long_is_byte_length : forall src smap edits start cl l,
  resolve cfg src smap edits start cl = RTooLong l ->
  exists es1 e es2, edits = es1 ++ e :: es2 /\ l = (cl + delta_bytes (es1 ++ [e]))%Z /\
                    cmp_eval (c_resolve_cmp cfg) l (Z.of_N (c_resolve_limit cfg)) = true.
Proof.
  intros src smap edits. induction edits as [|e rest IH]; intros start cl l H; cbn [resolve] in H.
  - destruct (str_slice src start (length src)); [|discriminate]. destruct (vec_slice smap start (length smap)); discriminate.
  - destruct (str_slice src start (e_s e)); [|discriminate]. destruct (vec_slice smap start (e_s e)); [|discriminate].
    destruct (add_replace cfg smap (e_s e) (e_e e) (e_w e)) as [[[rb rm] d]|] eqn:Ea; [|discriminate].
    destruct (add_replace_delta _ _ _ _ _ _ _ Ea) as [_ ->].
    destruct (cmp_eval (c_resolve_cmp cfg) _ _) eqn:Ec.
    + inversion H; subst. exists [], e, rest. split; [reflexivity|]. split; [cbn; lia | exact Ec].
    + destruct (resolve cfg src smap rest (e_e e) _) as [t2 m2 l2| |] eqn:Er; try discriminate.
      inversion H; subst. destruct (IH _ _ _ Er) as (es1 & e' & es2 & -> & Hl & Hc).
      exists (e :: es1), e', es2. split; [reflexivity|]. split; [|exact Hc].
      rewrite Hl. cbn [app delta_bytes fold_right]. fold (delta_bytes (es1 ++ [e'])). lia.
Qed.

End Cfg.

(* ------------------------------------------------------------------ a batch rejected by its closure is a no-op *)
Theorem failed_batch_is_noop : forall cfg s es,
  with_editor cfg s true es = Err /\
  cur (after s (with_editor cfg s true es)) = cur s /\ m2o (after s (with_editor cfg s true es)) = m2o s /\
  orig (after s (with_editor cfg s true es)) = orig s.
Proof. intros. cbn. auto. Qed.

(* reachability (hence every theorem stated over Reach) is closed under with_editor, whatever the closure answers, as long
   as an accepted batch is well formed and leaves the text non-empty; a rejected or refused batch changes nothing *)
Theorem reach_with_editor : forall cfg o s fails es,
  Reach cfg o s ->
  (fails = false -> edits_ok (cur s) es = true) ->
  (forall s', with_editor cfg s fails es = Ok s' -> cur s' <> []) ->
  Reach cfg o (after s (with_editor cfg s fails es)).
Proof.
  intros cfg o s fails es HR Hok Hne. unfold with_editor in *. destruct fails; [exact HR|].
  destruct (commit cfg s es) as [s'| |] eqn:E; cbn [after]; [|exact HR|exact HR].
  eapply R_commit; eauto.
Qed.
