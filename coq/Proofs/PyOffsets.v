(* Morpheme.begin() / end() / raw_surface() of the Python binding (python/src/morpheme.rs: begin_c, end_c, surface of
   the core morpheme -- read from the source into Generated/PyFacts.v) as a corollary of C08's morpheme_offsets. *)
From Coq Require Import List NArith Arith String.
From SudachiVerif Require Import Model.Buffer Proofs.BufferProofs Proofs.BufferCharProofs.
From SudachiVerif Require Generated.PyFacts.
Import ListNotations.
Open Scope nat_scope.

Module PF := Generated.PyFacts.

(* None = the accessor behind the Python method is no longer the one this model knows *)
Definition py_begin (cfg : bcfg) (s : buf) (n : rnode) : option nat :=
  if String.eqb PF.py_begin_is "begin_c" then morpheme_begin_c cfg s n else None.
Definition py_end (cfg : bcfg) (s : buf) (n : rnode) : option nat :=
  if String.eqb PF.py_end_is "end_c" then morpheme_end_c cfg s n else None.
Definition py_raw_surface (s : buf) (n : rnode) : option (list N) :=
  if String.eqb PF.py_raw_surface_is "surface" then morpheme_surface s n else None.

Definition py_offset_facts_ok : Prop :=
  PF.py_begin_is = "begin_c"%string /\ PF.py_end_is = "end_c"%string /\ PF.py_raw_surface_is = "surface"%string.

(* For every input text (any UTF-8 string), after any input-text rewriting, for every result node: begin() and end() are
   the numbers of code points of the ORIGINAL text before the node's byte offsets, begin <= end, raw_surface() is the
   original's bytes between them, and slicing the original string by code points -- Python's text[begin:end] -- gives
   exactly raw_surface(). *)
Theorem python_offsets cfg :
  cfg_ok cfg = true -> py_offset_facts_ok ->
  forall o s n, wf_text o = true -> Reach cfg o s -> rnode_ok (cur s) n ->
  exists b e,
    b <= e /\
    py_begin cfg s n = Some (codepoints_before o b) /\
    py_end cfg s n = Some (codepoints_before o e) /\
    codepoints_before o b <= codepoints_before o e /\
    py_raw_surface s n = Some (byte_slice o (b, e)) /\
    cp_slice o (codepoints_before o b) (codepoints_before o e) = byte_slice o (b, e).
Proof.
  intros Hcfg (H1 & H2 & H3) o s n Hwf HR Hn.
  destruct (morpheme_offsets cfg Hcfg o s n (reach_inv cfg Hcfg o s Hwf HR) Hn)
    as (b & e & _ & _ & Hle & _ & _ & Hb & He & Hs & Hc).
  exists b, e. unfold py_begin, py_end, py_raw_surface. rewrite H1, H2, H3. cbn [String.eqb Ascii.eqb Bool.eqb].
  repeat split; try assumption. apply codepoints_before_mono. exact Hle.
Qed.
