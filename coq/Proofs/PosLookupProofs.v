(* Grammar::get_part_of_speech_id returns the FIRST row of the POS table that EQUALS the requested six components;
   "*" is an ordinary component, not a wildcard. *)
From Coq Require Import List Bool Arith String Lia.
From SudachiVerif Require Import Model.PosLookup.
Import ListNotations.
Local Open Scope nat_scope.

Lemma zip_all_eq : forall a b, List.length a = List.length b -> (zip_all a b = true <-> a = b).
Proof.
  induction a as [|x a IH]; intros [|y b] H; cbn in H; try discriminate; cbn [zip_all]; [tauto|].
  rewrite andb_true_iff, String.eqb_eq, (IH b) by lia. split; [intros [-> ->]; reflexivity|intros E; injection E; auto].
Qed.

Lemma scan_spec key : forall tbl i0 r,
  Forall (fun row => List.length row = List.length key) tbl ->
  (scan key tbl i0 = Some r <->
   exists n, r = i0 + n /\ nth_error tbl n = Some key /\ forall j, j < n -> nth_error tbl j <> Some key).
Proof.
  induction tbl as [|row t IH]; intros i0 r HF; cbn [scan].
  - split; [discriminate|]. intros (n & _ & H & _). destruct n; discriminate.
  - inversion HF as [|? ? Hl Ht]; subst.
    destruct (zip_all key row) eqn:E.
    + apply zip_all_eq in E; [|auto]. subst row. split.
      * intros H. injection H as <-. exists 0. split; [lia|]. split; [reflexivity|]. intros j Hj. lia.
      * intros (n & -> & Hn & Hmin). destruct n as [|n]; [f_equal; lia|]. exfalso. apply (Hmin 0); [lia|reflexivity].
    + assert (Hne : row <> key) by (intros ->; rewrite (proj2 (zip_all_eq key key eq_refl) eq_refl) in E; discriminate).
      rewrite (IH (S i0) r Ht). split.
      * intros (n & -> & Hn & Hmin). exists (S n). split; [lia|]. split; [exact Hn|].
        intros [|j] Hj; cbn; [congruence|]. apply Hmin. lia.
      * intros (n & -> & Hn & Hmin). destruct n as [|n]; [cbn in Hn; congruence|].
        exists n. split; [lia|]. split; [exact Hn|]. intros j Hj. apply (Hmin (S j)). lia.
Qed.

Section Exact.
  Hypothesis Hcmp : PF.lookup_compares = "requested"%string.
  Hypothesis Hguard : PF.lookup_length_guard = true.

  (* for every POS table whose rows have POS_DEPTH components and every requested vector *)
  Theorem lookup_exact tbl p i :
    Forall (fun row => List.length row = PF.pos_depth) tbl ->
    (lookup tbl p = Some i <->
     List.length p = PF.pos_depth /\ nth_error tbl i = Some p /\ forall j, j < i -> nth_error tbl j <> Some p).
  Proof.
    intros HF. unfold lookup, compared. rewrite Hcmp, Hguard. cbn [String.eqb andb].
    change (String.eqb "requested" "requested") with true. cbn iota.
    destruct (Nat.eqb_spec (List.length p) PF.pos_depth) as [L|L]; cbn [negb].
    - assert (HF' : Forall (fun row => List.length row = List.length p) tbl).
      { rewrite Forall_forall in *. intros row Hr. rewrite (HF row Hr). symmetry. exact L. }
      rewrite (scan_spec p tbl 0 i HF'). split.
      + intros (n & -> & H1 & H2). auto.
      + intros (_ & H1 & H2). exists i. auto.
    - split; [discriminate|]. intros [H _]. contradiction.
  Qed.

  Theorem lookup_none tbl p :
    Forall (fun row => List.length row = PF.pos_depth) tbl ->
    (lookup tbl p = None <-> List.length p <> PF.pos_depth \/ ~ In p tbl).
  Proof.
    intros HF. destruct (lookup tbl p) as [i|] eqn:E.
    - apply (lookup_exact tbl p i HF) in E. destruct E as (L & Hn & _). split; [discriminate|].
      intros [H|H]; [contradiction|]. exfalso. apply H. eapply nth_error_In. exact Hn.
    - split; [|reflexivity]. intros _.
      destruct (Nat.eq_dec (List.length p) PF.pos_depth) as [L|L]; [|left; exact L]. right. intros Hin.
      (* the first occurrence exists *)
      assert (Hex : exists i, nth_error tbl i = Some p /\ forall j, j < i -> nth_error tbl j <> Some p).
      { clear E HF. induction tbl as [|row t IH]; [contradiction|].
        destruct (list_eq_dec string_dec row p) as [->|Hne].
        - exists 0. split; [reflexivity|]. intros j Hj. lia.
        - destruct Hin as [Hin|Hin]; [contradiction|]. destruct (IH Hin) as (i & H1 & H2).
          exists (S i). split; [exact H1|]. intros [|j] Hj; cbn; [congruence|]. apply H2. lia. }
      destruct Hex as (i & H1 & H2).
      assert (lookup tbl p = Some i) by (apply (lookup_exact tbl p i HF); auto). congruence.
  Qed.

  (* "*" is an ordinary component: the row that is returned has exactly the requested components, also at the levels where the
     request says "*" -- a row that specifies such a level differently is never returned, wherever it stands in the table *)
  Corollary star_is_ordinary tbl p i row :
    Forall (fun row => List.length row = PF.pos_depth) tbl ->
    lookup tbl p = Some i -> nth_error tbl i = Some row -> row = p.
  Proof. intros HF H Hr. apply (lookup_exact tbl p i HF) in H. destruct H as (_ & Hn & _). congruence. Qed.
End Exact.
