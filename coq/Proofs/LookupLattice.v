(* C04 + C02: the lattice nodes that LatticeBuilder::build_lattice makes from dictionary lookup results are well formed.

   build_lattice (analysis/stateful_tokenizer.rs), for every (ch_off, byte_off) of input.curr_byte_offsets():
       for e in lexicon.lookup(input_bytes, byte_off) {
           if (e.end < input_bytes.len()) && !input.can_bow(e.end) { continue; }
           let end_c = input.ch_idx(e.end);
           Node::new(ch_off, end_c, left_id, right_id, cost, e.word_id)  ... lattice.insert(node)
   Here: byte_off = mod_c2b[ch_off], ch_idx = mod_b2c (Model/Buffer.v), lookup = Model/LexSet.v.
   Result: every such node n satisfies node_wf (number of characters) ch_off n -- the dictionary half of the hypothesis
   `offered_wf` of C02_build_optimal (Proofs/BuildOptimal.v); the OOV half is Proofs/TotalitySimple.v / OovCreated.v. *)
From Coq Require Import List Arith NArith ZArith Bool Lia.
From SudachiVerif Require Model.Buffer Proofs.BufferProofs Proofs.PipelineProofs.
From SudachiVerif Require Import Model.Lattice Model.BuildLattice Proofs.BuildLatticeProofs Proofs.BuildOptimal.
From SudachiVerif Require Import Model.Trie Model.WordIdTable Model.LexSet Model.DictCands Proofs.TrieProofs Proofs.LexSetProofs.
Import ListNotations.
Open Scope nat_scope.

Module B := SudachiVerif.Model.Buffer.
Module BP := SudachiVerif.Proofs.BufferProofs.
Module PP := SudachiVerif.Proofs.PipelineProofs.

(* ---------- character structure of byte strings ---------- *)
Lemma cont_is_cont b : cont_byte b = B.is_cont b.
Proof. reflexivity. Qed.

Lemma lead_width_lead b w : lead_width b = S w -> B.is_lead b = true.
Proof.
  unfold lead_width, B.is_lead, B.is_cont.
  destruct (N.ltb b 128%N) eqn:E1; [intros _; apply N.ltb_lt in E1; destruct (N.leb 128%N b) eqn:E; [apply N.leb_le in E; lia|reflexivity]|].
  destruct (N.ltb b 192%N) eqn:E2; [discriminate|]. intros _. rewrite andb_false_r. reflexivity.
Qed.

Lemma chars_ok_go_sound : forall fuel t, chars_ok_go fuel t = true -> chars_ok t.
Proof.
  assert (Hstrip : forall n t r, strip_conts n t = Some r ->
            exists conts, t = conts ++ r /\ length conts = n /\ Forall (fun c => cont_byte c = true) conts).
  { induction n as [|n IH]; intros t r H; cbn [strip_conts] in H.
    - injection H as <-. exists []. repeat split. constructor.
    - destruct t as [|c t']; [discriminate|]. destruct (cont_byte c) eqn:Ec; [|discriminate].
      destruct (IH _ _ H) as (cs & -> & Hl & Hf). exists (c :: cs). repeat split; [cbn; lia|constructor; assumption]. }
  induction fuel as [|f IH]; intros t H; destruct t as [|b t']; try constructor; cbn [chars_ok_go] in H; [discriminate|].
  destruct (lead_width b) as [|w] eqn:Ew; [discriminate|].
  destruct (strip_conts w t') as [r|] eqn:Es; [|discriminate].
  destruct (Hstrip _ _ _ Es) as (cs & -> & Hl & Hf). constructor; [rewrite Hl; exact Ew|exact Hf|exact (IH r H)].
Qed.

Lemma chars_ok_b_sound t : chars_ok_b t = true -> chars_ok t.
Proof. apply chars_ok_go_sound. Qed.

Lemma chars_ok_head t : chars_ok t -> B.is_boundary t 0 = true.
Proof.
  intros [|b conts r Hw _ _]; [reflexivity|]. unfold B.is_boundary. cbn [nth_error]. exact (lead_width_lead b _ Hw).
Qed.

Lemma app_eq_len {A} : forall (a a' b b' : list A), length a = length a' -> a ++ b = a' ++ b' -> a = a' /\ b = b'.
Proof.
  induction a as [|x a IH]; intros [|y a'] b b' Hl He; cbn in *; try discriminate; [auto|].
  injection He as -> He. destruct (IH a' b b' ltac:(lia) He) as [-> ->]. auto.
Qed.

(* a valid string that starts with a valid string continues with a valid string *)
Lemma chars_ok_split k : chars_ok k -> forall s, chars_ok (k ++ s) -> chars_ok s.
Proof.
  induction 1 as [|b conts r Hw Hc Hr IH]; intros s Hs; [exact Hs|].
  cbn [app] in Hs. rewrite <- app_assoc in Hs.
  remember (b :: conts ++ r ++ s) as l eqn:El.
  destruct Hs as [|b0 conts0 r0 Hw0 Hc0 Hr0]; [discriminate|]. injection El as -> El.
  assert (Hl : length conts0 = length conts) by congruence.
  destruct (app_eq_len conts0 conts r0 (r ++ s) Hl El) as [-> ->]. exact (IH s Hr0).
Qed.

Lemma conts_boundary : forall conts r o, Forall (fun c => cont_byte c = true) conts ->
  B.is_boundary (conts ++ r) o = true -> length conts <= o /\ B.is_boundary r (o - length conts) = true.
Proof.
  induction conts as [|c cs IH]; intros r o Hf Hb; cbn [app length] in *.
  - rewrite Nat.sub_0_r. split; [lia|exact Hb].
  - inversion Hf as [|c' cs' Hc Hcs]; subst. destruct o as [|o].
    + unfold B.is_boundary in Hb. cbn [nth_error] in Hb. unfold B.is_lead in Hb. rewrite <- cont_is_cont, Hc in Hb. discriminate.
    + rewrite BP.is_boundary_cons in Hb. destruct (IH r o Hcs Hb) as [H1 H2]. split; [lia|exact H2].
Qed.

(* cutting a valid string at a character boundary leaves a valid string *)
Lemma chars_ok_skipn t : chars_ok t -> forall off, B.is_boundary t off = true -> chars_ok (skipn off t).
Proof.
  induction 1 as [|b conts r Hw Hc Hr IH]; intros off Hb.
  - destruct off; constructor.
  - destruct off as [|o]; [cbn [skipn]; constructor; assumption|].
    rewrite BP.is_boundary_cons in Hb. destruct (conts_boundary conts r o Hc Hb) as [Hle Hb'].
    cbn [skipn]. rewrite skipn_app. rewrite skipn_all2 by lia. cbn [app]. exact (IH _ Hb').
Qed.

(* the end of a valid key found at a character boundary of a valid text is a character boundary *)
Lemma prefix_end_boundary t off key :
  chars_ok t -> B.is_boundary t off = true -> is_prefix key (skipn off t) -> chars_ok key ->
  B.is_boundary t (off + length key) = true.
Proof.
  intros Ht Hb [suffix Hs] Hk.
  pose proof (BP.is_boundary_le t off Hb) as Hle.
  rewrite <- (BP.is_boundary_skipn t off (length key) Hle). rewrite Hs.
  assert (Hsuf : chars_ok suffix).
  { apply (chars_ok_split key Hk). rewrite <- Hs. exact (chars_ok_skipn t Ht off Hb). }
  replace (length key) with (length key + 0) by lia.
  rewrite <- (BP.is_boundary_skipn (key ++ suffix) (length key) 0) by (rewrite app_length; lia).
  rewrite skipn_length_app. exact (chars_ok_head suffix Hsuf).
Qed.

(* ---------- what lookup yields: ranges ---------- *)
(* for EVERY array: an entry found at byte offset off ends strictly after off and inside the text *)
Lemma traverse_range a text off v e :
  In (v, e) (traverse a text off) -> off < N.to_nat e <= length text.
Proof.
  intros Hin. apply traverse_in in Hin. destruct Hin as (key & Hne & _ & [suffix Hs] & ->).
  assert (Hl : length (skipn off text) = length key + length suffix) by (rewrite Hs, app_length; reflexivity).
  rewrite skipn_length in Hl. destruct key as [|k0 key]; [congruence|]. cbn [length] in *. lia.
Qed.

(* for a certified array whose keys are whole UTF-8 strings: found at a character boundary of a valid text, an entry ends at
   a character boundary *)
Lemma traverse_end_boundary a fuel ks text off v e :
  keys_of a fuel = Some ks -> (forall k v', In (k, v') ks -> chars_ok k) ->
  bytes text -> chars_ok text -> B.is_boundary text off = true ->
  In (v, e) (traverse a text off) -> B.is_boundary text (N.to_nat e) = true.
Proof.
  intros Hk Hutf Hb Ht Hoff Hin.
  apply (traverse_from_table a fuel ks text off Hk Hb) in Hin. destruct Hin as (key & _ & Hkin & Hp & ->).
  replace (N.to_nat (N.of_nat (off + length key))) with (off + length key) by lia.
  exact (prefix_end_boundary text off key Ht Hoff Hp (Hutf key v Hkin)).
Qed.

(* a lexicon whose trie is certified and whose keys are whole UTF-8 strings *)
Definition lex_keys_utf8 (L : lexicon) : Prop :=
  exists fuel ks, keys_of (lx_trie L) fuel = Some ks /\ forall k v, In (k, v) ks -> chars_ok k.

(* ... which the per-dictionary certificate establishes when the CSV surfaces are (as every Rust str is) valid UTF-8 *)
Lemma cert_keys_utf8 L rows fuel :
  cert_lex L rows fuel = true -> (forall r, In r rows -> chars_ok (fst r)) -> lex_keys_utf8 L.
Proof.
  intros Hc Hrows. destruct (cert_parts L rows fuel Hc) as (ks & Hk & Hks & _). exists fuel, ks. split; [exact Hk|].
  intros k v Hin. destruct (Hks k v Hin) as (Hne & _ & _).
  destruct (rows_with k rows) as [|i t] eqn:E; [congruence|].
  assert (Hi : In i (rows_with k rows)) by (rewrite E; left; reflexivity).
  apply rows_with_in in Hi. destruct Hi as (r & Hn & _ & <-). apply Hrows. exact (nth_error_In _ _ Hn).
Qed.

Lemma lex_lookup_wf L dic text off l w e :
  lex_keys_utf8 L -> bytes text -> chars_ok text -> B.is_boundary text off = true ->
  lex_lookup L dic text off = Some l -> In (w, e) l ->
  off < N.to_nat e <= length text /\ B.is_boundary text (N.to_nat e) = true.
Proof.
  intros (fuel & ks & Hk & Hutf) Hb Ht Hoff Hl Hin. unfold lex_lookup in Hl.
  apply (expand_in _ _ _ _ Hl w e) in Hin. destruct Hin as (v & ids & r & Hin & _).
  split; [exact (traverse_range _ _ _ _ _ Hin)|exact (traverse_end_boundary _ fuel ks _ _ _ _ Hk Hutf Hb Ht Hoff Hin)].
Qed.

Lemma lookup_set_wf lexs text off l w e :
  (forall L, In L lexs -> lex_keys_utf8 L) -> bytes text -> chars_ok text -> B.is_boundary text off = true ->
  lookup_set lexs text off = Some l -> In (w, e) l ->
  off < N.to_nat e <= length text /\ B.is_boundary text (N.to_nat e) = true.
Proof.
  intros Hall Hb Ht Hoff Hl Hin. apply (lookup_set_in lexs text off l Hl w e) in Hin.
  destruct Hin as (d & L & ld & Hn & Hld & Hin).
  exact (lex_lookup_wf L (N.of_nat d) text off ld w e (Hall L (nth_error_In _ _ Hn)) Hb Ht Hoff Hld Hin).
Qed.

(* ---------- byte offsets -> character indices ---------- *)
Lemma count_leads_app u v : B.count_leads (u ++ v) = B.count_leads u + B.count_leads v.
Proof. induction u as [|x u IH]; cbn [app B.count_leads]; [reflexivity|]. destruct (B.is_lead x); lia. Qed.

Lemma count_leads_firstn_le t e : B.count_leads (firstn e t) <= B.count_leads t.
Proof. rewrite <- (firstn_skipn e t) at 2. rewrite count_leads_app. lia. Qed.

Lemma count_leads_firstn_lt t off e :
  off < e -> off < length t -> B.is_boundary t off = true ->
  B.count_leads (firstn off t) < B.count_leads (firstn e t).
Proof.
  intros Hlt Hlen Hb. replace e with (off + (e - off)) by lia. rewrite <- BP.firstn_app_skipn, count_leads_app.
  unfold B.is_boundary in Hb. destruct (nth_error t off) as [x|] eqn:Ex; [|apply nth_error_None in Ex; lia].
  rewrite (BP.skipn_cons_nth off t x Hlen). rewrite (nth_error_nth _ _ x Ex).
  destruct (e - off) as [|k] eqn:Ek; [lia|]. cbn [firstn B.count_leads]. rewrite Hb. lia.
Qed.

Lemma b2c_scan_length : forall t cnt, length (B.b2c_scan t cnt) = length t.
Proof. induction t as [|b t IH]; intros cnt; cbn [B.b2c_scan length]; [reflexivity|]. rewrite IH. reflexivity. Qed.

Lemma b2c_scan_nth : forall t cnt p, p < length t -> B.is_boundary t p = true ->
  nth p (B.b2c_scan t cnt) 0 = cnt + B.count_leads (firstn p t).
Proof.
  induction t as [|b t IH]; intros cnt p Hp Hb; [cbn in Hp; lia|].
  destruct p as [|p].
  - unfold B.is_boundary in Hb. cbn [nth_error] in Hb. cbn [B.b2c_scan nth firstn B.count_leads]. rewrite Hb. lia.
  - rewrite BP.is_boundary_cons in Hb. cbn [length] in Hp. cbn [B.b2c_scan nth firstn B.count_leads].
    rewrite (IH _ p ltac:(lia) Hb). destruct (B.is_lead b); lia.
Qed.

Lemma c2b_scan_count : forall t i ci p, nth_error (B.c2b_scan t i) ci = Some p ->
  i <= p /\ p - i < length t /\ B.is_boundary t (p - i) = true /\ B.count_leads (firstn (p - i) t) = ci.
Proof.
  induction t as [|b t IH]; intros i ci p H; cbn [B.c2b_scan] in H; [destruct ci; discriminate|].
  destruct (B.is_lead b) eqn:El.
  - destruct ci as [|ci]; cbn [nth_error] in H.
    + injection H as <-. replace (i - i) with 0 by lia. cbn [length firstn B.count_leads].
      repeat split; try lia. unfold B.is_boundary. cbn [nth_error]. exact El.
    + destruct (IH _ _ _ H) as (H1 & H2 & H3 & H4). replace (p - i) with (S (p - S i)) by lia.
      cbn [length firstn B.count_leads]. rewrite El, BP.is_boundary_cons. repeat split; try lia; assumption.
  - destruct (IH _ _ _ H) as (H1 & H2 & H3 & H4). replace (p - i) with (S (p - S i)) by lia.
    cbn [length firstn B.count_leads]. rewrite El, BP.is_boundary_cons. repeat split; try lia; assumption.
Qed.

Section Adapter.
  Variable cfg : B.bcfg.
  Hypothesis Hcfg : B.cfg_ok cfg = true.

  (* InputBuffer::ch_idx on a character boundary = number of characters before it *)
  Lemma ch_idx_boundary t p : t <> [] -> B.wf_text t = true -> B.is_boundary t p = true ->
    nth p (B.mod_b2c cfg t) 0 = B.count_leads (firstn p t).
  Proof.
    intros Hne Hwf Hb. pose proof (BP.is_boundary_le t p Hb) as Hle. unfold B.mod_b2c.
    destruct (Nat.eq_dec p (length t)) as [->|Hn].
    - rewrite app_nth2 by (rewrite b2c_scan_length; lia). rewrite b2c_scan_length, Nat.sub_diag. cbn [nth].
      destruct (BP.cfg_fields cfg Hcfg) as (_ & _ & _ & _ & _ & _ & -> & _). rewrite firstn_all.
      destruct t as [|b t]; [congruence|]. cbn [B.wf_text] in Hwf. cbn [B.count_leads]. rewrite Hwf. lia.
    - rewrite app_nth1 by (rewrite b2c_scan_length; lia). rewrite b2c_scan_nth by (try lia; assumption). lia.
  Qed.

  (* character begin = ch_off, byte begin = mod_c2b[ch_off]; an entry with byte_off < end <= |t| on a boundary gives a
     well-formed node *)
  Lemma of_lookup_wf t ch_off e lft rgt cost :
    B.wf_text t = true -> ch_off < PP.nchars t ->
    nth ch_off (B.mod_c2b t) 0 < N.to_nat e <= length t -> B.is_boundary t (N.to_nat e) = true ->
    node_wf (PP.nchars t) ch_off (mkNode ch_off (nth (N.to_nat e) (B.mod_b2c cfg t) 0) lft rgt cost).
  Proof.
    intros Hwf Hch [Hlt Hle] Hb. unfold node_wf. cbn [nbeg nend].
    assert (Hn : PP.nchars t = B.count_leads t).
    { unfold PP.nchars, B.mod_c2b. rewrite app_length, BP.c2b_scan_length. cbn. lia. }
    assert (Hne : t <> []) by (intros ->; rewrite Hn in Hch; cbn in Hch; lia).
    destruct (nth_error (B.c2b_scan t 0) ch_off) as [off|] eqn:Eo.
    2:{ apply nth_error_None in Eo. rewrite BP.c2b_scan_length in Eo. lia. }
    assert (Hoff : nth ch_off (B.mod_c2b t) 0 = off).
    { unfold B.mod_c2b. rewrite app_nth1 by (rewrite BP.c2b_scan_length; lia). exact (nth_error_nth _ _ 0 Eo). }
    rewrite Hoff in Hlt. destruct (c2b_scan_count t 0 ch_off off Eo) as (_ & H2 & H3 & H4). rewrite Nat.sub_0_r in *.
    rewrite (ch_idx_boundary t (N.to_nat e) Hne Hwf Hb). split; [reflexivity|]. split.
    - rewrite <- H4. apply count_leads_firstn_lt; assumption.
    - rewrite Hn. apply count_leads_firstn_le.
  Qed.

  (* the dictionary candidates of build_lattice at character ch_off are Model/DictCands.v `dict_cands` *)
  Theorem dict_cands_wf lexs params bow t ch_off m :
    (forall L, In L lexs -> lex_keys_utf8 L) -> bytes t -> chars_ok t -> ch_off < PP.nchars t ->
    In m (dict_cands cfg lexs params bow t ch_off) -> node_wf (PP.nchars t) ch_off m.
  Proof.
    intros Hall Hb Ht Hch Hin. unfold dict_cands, dict_entries in Hin.
    destruct (lookup_set lexs t (nth ch_off (B.mod_c2b t) 0)) as [l|] eqn:El; [|contradiction].
    apply in_map_iff in Hin. destruct Hin as ([w ce] & <- & Hin). apply in_map_iff in Hin.
    destruct Hin as ([w' e] & Heq & Hf). injection Heq as -> <-. apply filter_In in Hf. destruct Hf as [Hf _].
    cbn [fst snd]. destruct (params w) as [[lft rgt] cost].
    assert (Hwf : B.wf_text t = true) by (rewrite <- BP.is_boundary_hd; exact (chars_ok_head t Ht)).
    destruct (PP.mod_c2b_props t ch_off ltac:(lia)) as [Hboff _].
    destruct (lookup_set_wf lexs t _ l w e Hall Hb Ht Hboff El Hf) as [Hr Hbe].
    exact (of_lookup_wf t ch_off e lft rgt cost Hwf Hch Hr Hbe).
  Qed.

  (* hence: with dictionary candidates from certified lexicons and any well-formed OOV candidates / fallback, the hypothesis
     offered_wf of C02_build_optimal holds for the candidate source  dictionary ++ OOV  of build_lattice *)
  Theorem offered_wf_from_lookup lexs params bow t (oov : nat -> list node) (fallback : nat -> option node) :
    (forall L, In L lexs -> lex_keys_utf8 L) -> bytes t -> chars_ok t ->
    (forall p m, In m (oov p) -> node_wf (PP.nchars t) p m) ->
    (forall p f, fallback p = Some f -> node_wf (PP.nchars t) p f) ->
    forall p m, p < PP.nchars t ->
      In m (offered (fun q => dict_cands cfg lexs params bow t q ++ oov q) fallback p) -> node_wf (PP.nchars t) p m.
  Proof.
    intros Hall Hb Ht Hoov Hfb p m Hp Hin. unfold offered in Hin.
    destruct (dict_cands cfg lexs params bow t p ++ oov p) as [|c cs] eqn:Ec.
    - destruct (fallback p) as [f|] eqn:Ef; [|contradiction]. destruct Hin as [<-|[]]. exact (Hfb p f Ef).
    - rewrite <- Ec in Hin. apply in_app_or in Hin. destruct Hin as [Hin|Hin].
      + exact (dict_cands_wf lexs params bow t p m Hall Hb Ht Hp Hin).
      + exact (Hoov p m Hin).
  Qed.

  (* C02's optimality theorem for the tokenizer loop with the dictionary half of its hypothesis discharged: the lattice built
     from lookup results of certified lexicons plus any well-formed OOV candidates yields the minimum cost over all chains of
     offered candidates *)
  Theorem build_optimal_with_dictionary conn lexs params bow t oov fallback L r i c :
    (forall L0, In L0 lexs -> lex_keys_utf8 L0) -> bytes t -> chars_ok t ->
    (forall p m, p < PP.nchars t -> In m (oov p) -> node_wf (PP.nchars t) p m) ->
    (forall p f, p < PP.nchars t -> fallback p = Some f -> node_wf (PP.nchars t) p f) ->
    0 < PP.nchars t ->
    build conn (lattice_cands cfg lexs params bow t oov) (lattice_fallback t fallback) (PP.nchars t) = Some (L, (r, i, c)) ->
    (exists p, chainP (Offered (lattice_cands cfg lexs params bow t oov) (lattice_fallback t fallback)) 0 (PP.nchars t) p
               /\ path_cost conn p = c) /\
    (forall p, chainP (Offered (lattice_cands cfg lexs params bow t oov) (lattice_fallback t fallback)) 0 (PP.nchars t) p ->
               (c <= path_cost conn p)%Z).
  Proof.
    intros Hall Hb Ht Hoov Hfb Hn Hbuild.
    refine (build_optimal conn (lattice_cands cfg lexs params bow t oov) (lattice_fallback t fallback) (PP.nchars t) _ L r i c Hn Hbuild).
    intros p m Hin. unfold offered, lattice_cands, lattice_fallback in Hin. change (nchars t) with (PP.nchars t) in Hin.
    destruct (p <? PP.nchars t) eqn:Ep; [|contradiction]. apply Nat.ltb_lt in Ep.
    destruct (dict_cands cfg lexs params bow t p ++ oov p) as [|c0 cs] eqn:Ec.
    - destruct (fallback p) as [f|] eqn:Ef; [|contradiction]. destruct Hin as [<-|[]]. exact (Hfb p f Ep Ef).
    - rewrite <- Ec in Hin. apply in_app_or in Hin. destruct Hin as [Hin|Hin].
      + exact (dict_cands_wf lexs params bow t p m Hall Hb Ht Ep Hin).
      + exact (Hoov p m Ep Hin).
  Qed.
End Adapter.
