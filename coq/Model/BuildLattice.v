(* Model of LatticeBuilder::build_lattice (analysis/stateful_tokenizer.rs) over abstract candidate sources:
   cands p   = dictionary words that pass the can_bow filter plus the nodes of all OOV providers at char position p
   fallback p = what the last OOV provider yields when nothing was created at p (SimpleOov: always one node) *)
From Coq Require Import List ZArith NArith Bool Arith.
From SudachiVerif Require Import Model.Lattice.
Import ListNotations.

Section Build.
  Variable conn : N -> N -> Z.
  Variable cands : nat -> list node.
  Variable fallback : nat -> option node.

  Definition has_previous_node (L : lattice) (i : nat) : bool :=
    match nth_error L i with Some (_ :: _) => true | _ => false end.

  (* one iteration of the `for (ch_off, byte_off)` loop; None = Err(EosBosDisconnect) *)
  Definition step (L : lattice) (p : nat) : option lattice :=
    if has_previous_node L p then
      let ns := match cands p with
                | [] => match fallback p with Some f => [f] | None => [] end
                | l => l
                end in
      match ns with
      | [] => None                          (* created.is_empty() after the fallback *)
      | _ => Some (insert_all conn L ns)
      end
    else Some L.

  Fixpoint loop (L : lattice) (p todo : nat) : option lattice :=
    match todo with
    | O => Some L
    | S t => match step L p with
             | None => None
             | Some L' => loop L' (S p) t
             end
    end.

  (* build_lattice for a text of n > 0 characters: Some (eos) or None = Err(EosBosDisconnect) *)
  Definition build (n : nat) : option (lattice * (nat * nat * Z)) :=
    match loop (reset n) 0 n with
    | None => None
    | Some L => match connect_eos conn L with
                | None => None
                | Some e => Some (L, e)
                end
    end.
End Build.
