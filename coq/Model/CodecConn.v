(* C05 — the connection matrix from text to lookup:
     writer  sudachi/src/dic/build/conn.rs  ConnBuffer::{read (zero-filled matrix of num_left*num_right cells),
             parse_line -> write_elem (coordinate guards, index formula, two checked byte stores), write_to}
     reader  sudachi/src/dic/grammar.rs     grammar_parser (le_i16 num_left, le_i16 num_right), Grammar::connect_cost
             sudachi/src/dic/connect.rs     ConnectionMatrix::{from_offset_size, index, cost}, util/cow_array.rs (i16 LE)
   The guards and BOTH index formulas are the regenerated ones (Generated/BuildGuards.v, Generated/ConnIndex.v).
   Cells are i16 values in Z; a rejected line (Err) and an out-of-range store (panic) are both None.
   Executable definitions only. *)
From Coq Require Import List ZArith NArith Bool.
From SudachiVerif Require Import Model.GuardLang Model.Codec.
From SudachiVerif Require Generated.ConnIndex Generated.BuildGuards.
Import ListNotations.
Open Scope Z_scope.

Definition cells := list Z.
Definition cline := (Z * Z * Z)%type.      (* left right cost, as parse_line hands them to write_elem *)

Fixpoint upd {A} (n : nat) (x : A) (l : list A) : list A :=
  match l, n with
  | [], _ => []
  | _ :: t, O => x :: t
  | h :: t, S k => h :: upd k x t
  end.

(* ConnBuffer::write_elem on the matrix seen as i16 cells: matrix[2*index], matrix[2*index+1] := cost.to_le_bytes() *)
Definition store (gl gr : list guard) (wi : iexp) (nl nr : Z) (m : cells) (t : cline) : option cells :=
  let '(l, r, c) := t in
  if accepted gl nl nr l && accepted gr nl nr r then
    let i := iexp_eval wi l r nl nr in
    if (0 <=? i) && (i <? Z.of_nat (List.length m)) then Some (upd (Z.to_nat i) c m) else None
  else None.

Fixpoint store_lines (gl gr : list guard) (wi : iexp) (nl nr : Z) (m : cells) (ls : list cline) : option cells :=
  match ls with
  | [] => Some m
  | t :: ls' => match store gl gr wi nl nr m t with
                | Some m' => store_lines gl gr wi nl nr m' ls'
                | None => None
                end
  end.

(* ConnBuffer::read after the header `nl nr`: matrix.resize(nl*nr*2, 0), then every non-blank line in order *)
Definition conn_compile_with (gl gr : list guard) (wi : iexp) (nl nr : Z) (ls : list cline) : option cells :=
  if (nl <? 0) || (nr <? 0) then None
  else store_lines gl gr wi nl nr (repeat 0 (Z.to_nat (nl * nr))) ls.

Definition conn_compile : Z -> Z -> list cline -> option cells :=
  conn_compile_with BuildGuards.write_elem_left_guards BuildGuards.write_elem_right_guards ConnIndex.write_elem_index.

(* ConnBuffer::write_to: i16 num_left, i16 num_right, the matrix bytes *)
Definition conn_section (nl nr : Z) (m : cells) : bytes :=
  le16 (i16_bits nl) ++ le16 (i16_bits nr) ++ flat_map (fun c => le16 (i16_bits c)) m.

(* Grammar::parse + ConnectionMatrix::cost(left, right) on the bytes from the matrix header on:
   data[index(left, right)], data = the i16 array after the two sizes.  An index outside the array is the
   debug_assert / out-of-bounds read: None *)
Definition section_cost_with (ri : iexp) (sec : bytes) (l r : Z) : option Z :=
  match sec with
  | a0 :: a1 :: b0 :: b1 :: data =>
      let nl := to_i16 (a0 + 256 * a1)%N in
      let nr := to_i16 (b0 + 256 * b1)%N in
      let i := iexp_eval ri l r nl nr in
      if (0 <=? i) && (i <? nl * nr) then
        match skipn (2 * Z.to_nat i) data with
        | lo :: hi :: _ => Some (to_i16 (lo + 256 * hi)%N)
        | _ => None
        end
      else None
  | _ => None
  end.
Definition section_cost : bytes -> Z -> Z -> option Z := section_cost_with ConnIndex.matrix_index.

(* what the matrix text declares for the pair (l, r): the last line naming it, 0 when no line does *)
Definition declared (ls : list cline) (l r : Z) : Z :=
  fold_left (fun acc (t : cline) => let '(l', r', c) := t in if (l' =? l) && (r' =? r) then c else acc) ls 0.

Definition in_i16 (z : Z) : bool := (-32768 <=? z) && (z <? 32768).
Definition cline_ok (t : cline) : bool := let '(l, r, c) := t in in_i16 l && in_i16 r && in_i16 c.

(* decidable obligations on the generated facts *)
Definition conn_facts_ok_with (gl gr : list guard) (wi ri : iexp) : bool :=
  covers_strict gl NumLeft && covers_strict gr NumRight && index_shape_ok wi && iexp_eqb wi ri.
Definition conn_facts_ok : bool :=
  conn_facts_ok_with BuildGuards.write_elem_left_guards BuildGuards.write_elem_right_guards
                     ConnIndex.write_elem_index ConnIndex.matrix_index.
