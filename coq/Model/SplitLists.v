(* MorphemeList::split_into with the lists as values: every list carries the dictionary it was created for, the input part it
   shares (modified text + field request) and its nodes.  Which list ResultNode::split gets its lexicon and input text from is
   read from Generated/SplitFacts.v (extracted from sudachi/src/analysis/mlist.rs on every run).  Executable definitions only. *)
From Coq Require Import List NArith Bool String.
From SudachiVerif Require Import Model.Harness Model.Split.
From SudachiVerif Require Generated.SplitFacts.
Import ListNotations.
Open Scope string_scope.
Open Scope list_scope.
Open Scope N_scope.

(* a dictionary as the split stage sees it: head_word_length of a word, and the (re-stamped) unit lists stored with a word *)
Record sdict := mkSDict { sd_hw : N -> N; sd_ua : N -> list N; sd_ub : N -> list N }.
Definition sd_units (d : sdict) (m : mode) : N -> list N :=
  match m with ModeA => sd_ua d | ModeB => sd_ub d | ModeC => fun _ => [] end.

Record mlist := mkMList { ml_dict : sdict; ml_text : list N; ml_subset : N; ml_nodes : list node }.

Inductive who := Self | Out.
Definition who_of (s : string) : who := if String.eqb s "self" then Self else Out.
Definition pick {A : Type} (w : who) (self out : A) : A := match w with Self => self | Out => out end.
Definition has (s : string) (l : list string) : bool := existsb (String.eqb s) l.

(* MorphemeList::split_into(&self, mode, index, out), parametrised by where the source takes lexicon and input text from and
   by whether the target is given the source's input part first (out.assign_input(self)).
     - num_splits and the unit list are the token's OWN word info: loaded from the dictionary of the list that holds the token
     - num_splits == 0 => Ok(false), target untouched
     - otherwise the iterator's nodes are appended to the target (not cleared) and Ok(true) is returned; None = panic *)
Definition split_into_lists_gen (lex inp : who) (assign : bool) (m : mode) (src : mlist) (idx : nat) (out : mlist)
  : option (bool * mlist) :=
  match nth_error (ml_nodes src) idx with
  | None => None
  | Some n =>
    let us := sd_units (ml_dict src) m (wid n) in
    if nothing_when (N.of_nat (List.length us)) then Some (false, out)
    else
      let out1 := if assign then mkMList (ml_dict out) (ml_text src) (ml_subset src) (ml_nodes out) else out in
      let L := ml_dict (pick lex src out1) in
      let T := ml_text (pick inp src out1) in
      match split_node (sd_hw L) T n us with
      | None => None
      | Some l => Some (true, mkMList (ml_dict out1) (ml_text out1) (ml_subset out1) (ml_nodes out1 ++ l))
      end
  end.

Definition split_into_lists : mode -> mlist -> nat -> mlist -> option (bool * mlist) :=
  split_into_lists_gen (who_of Generated.SplitFacts.split_into_lexicon_of) (who_of Generated.SplitFacts.split_into_input_of)
                       (has "assign_input" Generated.SplitFacts.split_into_target_ops).

(* the fact obligation: lexicon, field request and input text all come from the list that holds the token; the target is only
   given the source's input part and appended to; Morpheme::split_into is that function on (its list, its index) *)
Definition allowed_target_ops : list string := ["assign_input"; "nodes.mut_data"; "data.reserve"; "data.push"; "data.extend"]%string.
Definition sources_ok_of (lex sub inp : string) (ops : list string) (deleg : bool) : bool :=
  String.eqb lex "self" && String.eqb sub "self" && String.eqb inp "self" &&
  forallb (fun o => has o allowed_target_ops) ops && has "assign_input" ops &&
  (has "data.push" ops || has "data.extend" ops) && deleg.
Definition sources_ok : bool :=
  sources_ok_of Generated.SplitFacts.split_into_lexicon_of Generated.SplitFacts.split_into_subset_of
                Generated.SplitFacts.split_into_input_of Generated.SplitFacts.split_into_target_ops
                Generated.SplitFacts.morpheme_split_into_delegates.

(* ---- correspondence entry point: on-demand splits of the C tokens INTO A LIST OF ANOTHER DICTIONARY INSTANCE that already
   holds nodes; fa / fb = per C token (number of nodes the target held, (flag, nodes appended) as reported) ---- *)
Definition sdict_of (d : list dentry) : sdict := mkSDict (d_hw d) (d_units true d) (d_units false d).

Definition check_foreign (d df : list dentry) (t m2o : list N) (cp : list (N * N * N))
           (fa fb : list (nat * option (bool * list otoken))) : bool :=
  let cpath := map (fun x => let '(cb, ce, w) := x in mk_cnode t cb ce w) cp in
  let src := mkMList (sdict_of d) t 0 cpath in
  let one m i (rep : nat * option (bool * list otoken)) :=
      let prior := fst rep in
      let out := mkMList (sdict_of df) [] 0 (repeat (mkNode 0 0 0 0 0) prior) in
      same_split (match split_into_lists m src i out with
                  | Some (b, r) => Some (b, skipn prior (ml_nodes r))
                  | None => None
                  end) t m2o (snd rep) in
  Nat.eqb (List.length fa) (List.length cpath) && Nat.eqb (List.length fb) (List.length cpath) &&
  forallb (fun p => one ModeA (fst p) (snd p)) (combine (seq 0 (List.length cpath)) fa) &&
  forallb (fun p => one ModeB (fst p) (snd p)) (combine (seq 0 (List.length cpath)) fb).
