(* Reference evaluator for numerals: the control skeleton of NumericParser (same flags, same character table, same unit
   predicates, same separator rules) over EXACT DECIMALS instead of StringNumber.
   A reference number is empty, or a decimal (digits before the point, leading zeros kept; digits after the point)
   together with its "room" k: the number of trailing zero positions of the integer part below the last unit applied,
   into which a following smaller number may be written.  Executable definitions only. *)
From Coq Require Import List NArith ZArith Bool Arith.
From SudachiVerif Require Import Model.Numeric.
Import ListNotations.

Inductive rnum := REmpty | RNum (ip fp : list N) (k : nat).

Definition r_is_empty (r : rnum) : bool := match r with REmpty => true | _ => false end.

(* multiplication by 10^j; an empty number stands for 1 *)
Definition r_shift (r : rnum) (j : nat) : rnum :=
  match r with
  | REmpty => RNum (1%N :: repeat 0%N j) [] j
  | RNum ip fp k => let d := dshift (ip, fp) j in RNum (fst d) (snd d) (k + j - length fp)
  end.

(* a + b, defined when the integer part of b fits into the room of a: the low |ip b| digits of a (all zeros, see
   [rn_ok] and [r_add_exact] in Proofs/NumericRefProofs.v) are replaced by b *)
Definition r_add (a b : rnum) : option rnum :=
  match b with
  | REmpty => Some a
  | RNum ipn fpn kn =>
      match a with
      | REmpty => Some b
      | RNum ips fps ks =>
          if length ipn <=? ks then Some (RNum (firstn (length ips - length ipn) ips ++ ipn) fpn kn) else None
      end
  end.

Definition render_r (r : rnum) : list N :=
  match r with REmpty => [48%N] | RNum ip fp _ => render (ip, fp) end.

Record rparser := mkRP {
  rdl : nat; rfd : bool; rhc : bool; rhp : bool; rer : N;
  rtot : rnum; rsub : rnum;
  rip : list N;              (* digits of the number being read, before the point *)
  rfp : option (list N) }.   (* None: no point yet; Some f: digits after the point *)

Definition frac_of (o : option (list N)) : list N := match o with Some f => f | None => [] end.

Definition r_tmp (rp : rparser) : rnum :=
  match rip rp with [] => REmpty | _ :: _ => RNum (rip rp) (frac_of (rfp rp)) 0 end.

Definition r_set_er (rp : rparser) (e : N) : rparser :=
  mkRP (rdl rp) (rfd rp) (rhc rp) (rhp rp) e (rtot rp) (rsub rp) (rip rp) (rfp rp).

Section WithCfg.
Variable cfg : ncfg.

Definition r_new : rparser := mkRP 0 true false false E_NONE REmpty REmpty [] None.

Definition r_check_comma (rp : rparser) : bool :=
  if rfd rp then false
  else if negb (rhc rp) then
    cmp_nat (fg_cmp cfg) (rdl rp) (fg_len cfg) && negb (match rip rp with [] => true | _ => false end) &&
    negb (forallb (fun d => N.eqb d 0) (rip rp ++ frac_of (rfp rp)))
  else cmp_nat (ng_cmp cfg) (rdl rp) (ng_len cfg).

Definition r_append (rp : rparser) (c : N) : bool * rparser :=
  if N.eqb c (point_c cfg) then
    let rp := mkRP (rdl rp) (rfd rp) (rhc rp) true (rer rp) (rtot rp) (rsub rp) (rip rp) (rfp rp) in
    if rfd rp then (false, r_set_er rp E_POINT)
    else if rhc rp && negb (r_check_comma rp) then (false, r_set_er rp E_COMMA)
    else match rfp rp with
         | None => (true, mkRP (rdl rp) (rfd rp) false (rhp rp) (rer rp) (rtot rp) (rsub rp) (rip rp) (Some []))
         | Some _ => (false, r_set_er rp E_POINT)
         end
  else if N.eqb c (comma_c cfg) then
    if r_check_comma rp then (true, mkRP 0 (rfd rp) true (rhp rp) (rer rp) (rtot rp) (rsub rp) (rip rp) (rfp rp))
    else (false, r_set_er rp E_COMMA)
  else
    match lookup_char (table cfg) c with
    | None => (false, rp)
    | Some n =>
        if is_small_unit cfg n then
          match r_add (rsub rp) (r_shift (r_tmp rp) (Z.to_nat (- n))) with
          | Some s' => (true, mkRP 0 true false (rhp rp) (rer rp) (rtot rp) s' [] None)
          | None => (false, rp)
          end
        else if is_large_unit cfg n then
          match r_add (rsub rp) (r_tmp rp) with
          | None => (false, rp)
          | Some s' =>
              if r_is_empty s' then (false, rp)
              else match r_add (rtot rp) (r_shift s' (Z.to_nat (- n))) with
                   | Some tl => (true, mkRP 0 true false (rhp rp) (rer rp) tl REmpty [] None)
                   | None => (false, rp)
                   end
          end
        else
          let d := Z.to_N n in
          match rfp rp with
          | None => (true, mkRP (S (rdl rp)) false (rhc rp) false (rer rp) (rtot rp) (rsub rp) (rip rp ++ [d]) None)
          | Some f => (true, mkRP (S (rdl rp)) false (rhc rp) false (rer rp) (rtot rp) (rsub rp) (rip rp) (Some (f ++ [d])))
          end
    end.

(* done(): (accepted, error state, value) *)
Definition r_done (rp : rparser) : bool * N * rnum :=
  match r_add (rsub rp) (r_tmp rp) with
  | None => (false, rer rp, rtot rp)
  | Some s1 =>
      match r_add (rtot rp) s1 with
      | None => (false, rer rp, rtot rp)
      | Some tl =>
          if rhp rp then (false, E_POINT, tl)
          else if rhc rp && cmp_nat (lg_cmp cfg) (rdl rp) (lg_len cfg) then (false, E_COMMA, tl)
          else (true, rer rp, tl)
      end
  end.

Fixpoint r_feed (rp : rparser) (cs : list N) : bool * rparser :=
  match cs with
  | [] => (true, rp)
  | c :: cs' => let '(ok, rp') := r_append rp c in if ok then r_feed rp' cs' else (false, rp')
  end.

(* the reference evaluator: (accepted, error state, value) *)
Definition r_parse (cs : list N) : bool * N * rnum :=
  let '(ok, rp) := r_feed r_new cs in
  if ok then r_done rp else (false, rer rp, rtot rp).

End WithCfg.
