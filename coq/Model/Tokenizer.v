(* The whole tokenizer as one executable function: composition of the existing stage models, in the order of
   StatefulTokenizer::do_tokenize (analysis/stateful_tokenizer.rs):

     start_build                                   Model/Buffer.v
     for p in input_text_plugins { p.rewrite }     Model/Normalize.v edits, translated by Proofs/NormalizeBuffer.v, Buffer.commit
     build(grammar)                                character classes / can_bow / continuity: Model/Oov.v (mk_ctx)
     build_lattice                                 dictionary: Model/DictCands.v (LexSet lookup, can_bow filter, ch_idx)
                                                   OOV providers + fallback: Model/Oov.v (position_step)
                                                   loop + Viterbi: Model/BuildLattice.v, Model/Lattice.v
     resolve_best_path                             top_path; byte ranges through mod_c2b
     path_rewrite_plugins                          Model/Rewrite.v (run_plugins)
     split_path                                    Model/Split.v (tokenize_mode)
     Morpheme::{begin,end,begin_c,end_c,surface}   Model/Buffer.v, morpheme_begin etc.

   Nothing new is modelled here except the glue: word ids, which the lattice and rewrite models do not carry, are threaded
   along by position (`loop_ids`, `path_positions`, `wid_after`).  Executable definitions only.
   (NormalizeBuffer.v is a Proofs file, but it is where the plugin record and the edit translation are defined.) *)
From Coq Require Import String List NArith ZArith Bool Arith.
From SudachiVerif Require Import Model.Buffer Model.Lattice Model.BuildLattice Model.LexSet Model.DictCands.
From SudachiVerif Require Model.Normalize Proofs.NormalizeBuffer Proofs.PipelineFull Model.Oov Proofs.TotalitySimple
     Proofs.OovLattice Model.Rewrite Model.Split.
Import ListNotations.
Open Scope nat_scope.

Module Nz := SudachiVerif.Model.Normalize.
Module NB := SudachiVerif.Proofs.NormalizeBuffer.
Module PF := SudachiVerif.Proofs.PipelineFull.
Module O := SudachiVerif.Model.Oov.
Module OL := SudachiVerif.Proofs.OovLattice.
Module TS := SudachiVerif.Proofs.TotalitySimple.
Module Rw := SudachiVerif.Model.Rewrite.
Module Sp := SudachiVerif.Model.Split.

(* what a dictionary says about a word besides its lattice parameters: headword, stored normalized / dictionary / reading
   form (empty = same as the headword), part-of-speech id *)
Record winfo := mkWI { wi_surf : list N; wi_norm : list N; wi_dform : list N; wi_rform : list N; wi_pos : N }.

Record tokenizer := mkTok {
  tk_plugins : list NB.plugin;                 (* input-text plugins, in configuration order *)
  tk_cat : N -> N;                             (* CharacterCategory::get_category_types of a code point *)
  tk_lexs : list lexicon;                      (* system dictionary + user dictionaries *)
  tk_params : N -> N * N * Z;                  (* word id -> left id, right id, cost *)
  tk_winfo : N -> winfo;
  tk_provs : list O.provider;                  (* OOV providers, the last one is the fallback *)
  tk_conn : N -> N -> Z;                       (* connection matrix *)
  tk_rewrite : list Rw.plugin;                 (* path-rewrite plugins *)
  tk_mode : Sp.mode;
  tk_hw : N -> N;                              (* WordInfo::head_word_length *)
  tk_ua : N -> list N; tk_ub : N -> list N     (* A / B unit lists, global ids *)
}.

(* WordId::INVALID (concat_nodes) *)
Definition WID_INVALID : N := 4294967295%N.

(* ------------------------------------------------------------------ input-text plugins *)
(* every plugin reads the buffer's text as code points (t), its edits go to commit as byte edits; t is carried along *)
Fixpoint run_stack (cfg : bcfg) (ps : list NB.plugin) (s : buf) (t : list N) : res (buf * list N) :=
  match ps with
  | [] => Ok (s, t)
  | p :: r =>
      match commit cfg s (NB.tr_edits t (NB.plugin_edits p t)) with
      | Ok s' => match Nz.apply_edits t (NB.plugin_edits p t) with
                 | Some t' => run_stack cfg r s' t'
                 | None => Panic
                 end
      | Err => Err
      | Panic => Panic
      end
  end.

(* ------------------------------------------------------------------ candidates of one position, with their word ids *)
Section Cands.
  Variable cfg : bcfg.
  Variable tk : tokenizer.
  Variable t : list N.                         (* rewritten text, code points *)

  Definition tb : list N := PF.enc t.          (* ... as bytes *)
  Definition classes : list N := map (tk_cat tk) t.
  (* mod_bow at a byte offset on a character boundary = can_bow of that character *)
  Definition bow_at (byte : nat) : bool := nth (nth byte (mod_b2c cfg tb) 0) (O.can_bow classes) false.

  (* the loop of build_lattice visits the character positions 0 .. n-1 only *)
  Definition dict_ids (p : nat) : list (N * nat) :=
    if p <? length t then dict_entries cfg (tk_lexs tk) bow_at tb p else [].
  Definition dict_onodes (p : nat) : list O.node :=
    map (fun wc => let '(l, r, c) := tk_params tk (fst wc) in O.mkNode p (snd wc) l r c 0%N) (dict_ids p).

  (* what position p offers to the lattice (dictionary nodes, OOV nodes of every provider, fallback) *)
  Definition offered_at (p : nat) : list node := OL.oov_offered classes (tk_provs tk) dict_onodes p.

  (* ... and the word id of each: dictionary ids first, then WordId::oov(pos) of the provider nodes *)
  Definition offered_ids (p : nat) : list N :=
    match O.position_step (O.mk_ctx classes) (tk_provs tk) p (dict_onodes p) with
    | O.ROk buf => map fst (dict_ids p) ++ map (fun nd => oov_id (O.n_pos nd)) (skipn (length (dict_ids p)) buf)
    | _ => []
    end.

  (* LatticeBuilder::build_lattice, keeping (end row, word id) of every inserted node in insertion order *)
  Fixpoint loop_ids (L : lattice) (ids : list (nat * N)) (p todo : nat) : option (lattice * list (nat * N)) :=
    match todo with
    | O => Some (L, ids)
    | S k =>
        if has_previous_node L p then
          match offered_at p with
          | [] => None
          | ns => loop_ids (insert_all (tk_conn tk) L ns) (ids ++ combine (map nend ns) (offered_ids p)) (S p) k
          end
        else loop_ids L ids (S p) k
    end.

  (* fill_top_path with positions: (row, index) from the EOS predecessor back to the first node *)
  Fixpoint walk_pos (L : lattice) (fuel : nat) (p : nat * nat) : option (list (nat * nat)) :=
    match fuel with
    | O => None
    | S f =>
        match get L p with
        | None => None
        | Some e =>
            match eprev e with
            | None => None
            | Some q => if Nat.eqb (fst q) 0 then Some [p]
                        else match walk_pos L f q with
                             | None => None
                             | Some ps => Some (p :: ps)
                             end
            end
        end
    end.

  (* word id of the i-th node stored in row r *)
  Definition wid_at (ids : list (nat * N)) (pos : nat * nat) : N :=
    nth (snd pos) (map snd (filter (fun x => Nat.eqb (fst x) (fst pos)) ids)) WID_INVALID.

  (* ------------------------------------------------------------------ resolve_best_path *)
  (* a lattice node with its word id as the ResultNode the later stages see *)
  Definition result_node (nd : node) (w : N) : Rw.node :=
    let bb := nth (nbeg nd) (mod_c2b tb) 0 in
    let be := nth (nend nd) (mod_c2b tb) 0 in
    let isoov := is_oov w in
    let wi := tk_winfo tk w in
    let cats := match cat_of_range classes (nbeg nd) (nend nd) with Some c => c | None => 0%N end in
    Rw.mkN (nbeg nd) (nend nd) bb be
           (if isoov then firstn (nend nd - nbeg nd) (skipn (nbeg nd) t) else wi_surf wi)
           (if isoov then [] else wi_norm wi) (if isoov then [] else wi_dform wi) (if isoov then [] else wi_rform wi)
           0%N (if isoov then word_of w else wi_pos wi) isoov cats (nth (nbeg nd) classes 0%N).

  (* word id of a node after path rewriting: an unchanged node keeps its id, a rebuilt / merged one has none we track
     (WordId::INVALID for concat_nodes; concat_oov_nodes computes one that no later stage looks up) *)
  Definition wid_after (before : list (Rw.node * N)) (q : Rw.node) : N :=
    match find (fun x => Rw.node_eqb (fst x) q) before with
    | Some x => snd x
    | None => WID_INVALID
    end.

  Definition split_node_of (before : list (Rw.node * N)) (q : Rw.node) : Sp.node :=
    Sp.mkNode (N.of_nat (Rw.nb q)) (N.of_nat (Rw.ne q)) (N.of_nat (Rw.bb q)) (N.of_nat (Rw.be q)) (wid_after before q).
End Cands.

(* ------------------------------------------------------------------ what the API reports *)
Record morpheme := mkMo { mo_begin : nat; mo_end : nat; mo_begin_c : nat; mo_end_c : nat; mo_surface : list N; mo_wid : N }.

Definition report (cfg : bcfg) (s : buf) (n : Sp.node) : option morpheme :=
  let rn := mkRN (N.to_nat (Sp.nb n)) (N.to_nat (Sp.ne n)) (N.to_nat (Sp.bb n)) (N.to_nat (Sp.be n)) in
  match morpheme_begin s rn, morpheme_end s rn, morpheme_begin_c cfg s rn, morpheme_end_c cfg s rn, morpheme_surface s rn with
  | Some b, Some e, Some bc, Some ec, Some sf => Some (mkMo b e bc ec sf (Sp.wid n))
  | _, _, _, _, _ => None
  end.

Fixpoint report_all (cfg : bcfg) (s : buf) (ns : list Sp.node) : option (list morpheme) :=
  match ns with
  | [] => Some []
  | n :: r => match report cfg s n, report_all cfg s r with
              | Some m, Some ms => Some (m :: ms)
              | _, _ => None
              end
  end.

(* ------------------------------------------------------------------ the stages after the input-text plugins *)
(* everything up to the input of split_path *)
Record presplit := mkPre {
  pr_lattice : lattice; pr_eos : nat * nat * Z;         (* lattice and (row, index, cost) of the EOS predecessor *)
  pr_path : list (node * N);                            (* best path with word ids *)
  pr_result : list Rw.node;                             (* ResultNodes of the best path *)
  pr_rewritten : list Rw.node;                          (* after the path-rewrite plugins *)
  pr_split_in : list Sp.node                            (* ... as split_path sees them *)
}.

Definition pre_split (cfg : bcfg) (tk : tokenizer) (t : list N) : res presplit :=
  let n := length t in
  match loop_ids cfg tk t (reset n) [] 0 n with
  | None => Err                                          (* EosBosDisconnect *)
  | Some (L, ids) =>
    match connect_eos (tk_conn tk) L with
    | None => Err
    | Some (r, i, c) =>
      match walk_pos L (length L) (r, i) with
      | None => Panic
      | Some rps =>
        let path := flat_map (fun p => match get L p with
                                       | Some e => match enode e with Some nd => [(nd, wid_at ids p)] | None => [] end
                                       | None => [] end) (rev rps) in
        let result := map (fun x => result_node tk t (fst x) (snd x)) path in
        match Rw.run_plugins (tk_rewrite tk) result with
        | Some (Rw.Ok q) =>
            Ok (mkPre L (r, i, c) path result q (map (split_node_of (combine result (map snd path))) q))
        | _ => Panic
        end
      end
    end
  end.

Record analysis := mkAn { an_buf : buf; an_text : list N; an_pre : presplit; an_final : list Sp.node }.

Definition analyse (cfg : bcfg) (tk : tokenizer) (s : buf) (t : list N) : res analysis :=
  match pre_split cfg tk t with
  | Ok a => match Sp.tokenize_mode (tk_hw tk) t (tk_ua tk) (tk_ub tk) (tk_mode tk) (pr_split_in a) with
            | Some final => Ok (mkAn s t a final)
            | None => Panic
            end
  | Err => Err
  | Panic => Panic
  end.

(* StatefulTokenizer::do_tokenize + MorphemeList: Ok [] for a text whose normalised form is empty *)
Definition tokenize_model (cfg : bcfg) (tk : tokenizer) (t0 : list N) : res (list morpheme) :=
  match start_build cfg (PF.enc t0) with
  | Ok s0 =>
      match run_stack cfg (tk_plugins tk) s0 t0 with
      | Ok (s, t) =>
          match t with
          | [] => Ok []
          | _ => match analyse cfg tk s t with
                 | Ok a => match report_all cfg s (an_final a) with Some ms => Ok ms | None => Panic end
                 | Err => Err
                 | Panic => Panic
                 end
          end
      | Err => Err
      | Panic => Panic
      end
  | Err => Err
  | Panic => Panic
  end.

(* ------------------------------------------------------------------ correspondence entry: a tokenizer given by tables *)
Definition assoc {A} (l : list (N * A)) (d : A) (k : N) : A :=
  match find (fun x => N.eqb (fst x) k) l with Some x => snd x | None => d end.

(* the input-text plugins the end-to-end correspondence configures.  DefaultInputTextPlugin comes with the Unicode oracle
   values (std case mapping, unicode-normalization) of the code points of the case's text, the part of rewrite.def that can
   apply to it, and is_nfkc_quick of the whole text, exactly as C07's own cases do (Model/Normalize.v odata); it is
   configured as the FIRST plugin only, so the text it sees is the original one. *)
Inductive plugin_desc :=
| PD_psm (marks sym : list N)
| PD_default (o : Nz.odata) (tb : Nz.table) (ignl : list N) (qc_text : bool).
Definition plugin_of (d : plugin_desc) : NB.plugin :=
  match d with
  | PD_psm marks sym => NB.P_psm (Nz.mem_n marks) sym
  | PD_default o tb ignl qc =>
      NB.P_default (Nz.o_lower o) (Nz.o_nfkc o) (Nz.o_qc o) (Nz.o_upper o) tb (Nz.mem_n ignl) (fun _ => qc)
  end.

Definition mk_tokenizer (pls : list plugin_desc) (cats : list (N * N)) (lexs : list (string * string))
           (params : list (N * (N * N * Z))) (winfos : list (N * winfo)) (provs : list O.provider)
           (conn : list (list Z)) (rw : list Rw.plugin) (mode : Sp.mode)
           (hw : list (N * N)) (ua ub : list (N * list N)) : tokenizer :=
  mkTok (map plugin_of pls) (assoc cats 0%N) (map dec_lex lexs) (assoc params (0%N, 0%N, 0%Z))
        (assoc winfos (mkWI [] [] [] [] 0%N)) provs
        (fun l r => nth (N.to_nat r) (nth (N.to_nat l) conn []) 0%Z) rw mode (assoc hw 0%N) (assoc ua []) (assoc ub []).

Fixpoint same_morphemes (ms : list morpheme) (impl : list (N * N * N)) : bool :=
  match ms, impl with
  | [], [] => true
  | m :: ms', (b, e, w) :: impl' =>
      N.eqb (N.of_nat (mo_begin m)) b && N.eqb (N.of_nat (mo_end m)) e &&
      (N.eqb (mo_wid m) WID_INVALID || N.eqb (mo_wid m) w) && same_morphemes ms' impl'
  | _, _ => false
  end.

(* one case: the model tokenizer built from the same dictionary bytes / classes / matrix / plugin settings answers with
   the same morphemes (byte range in the original, word id of every morpheme that is a single lattice node) as the real
   tokenizer; None = the real tokenizer answered Err *)
Definition check_end_to_end (tk : tokenizer) (t0 : list N) (impl : option (list (N * N * N))) : bool :=
  match tokenize_model the_cfg tk t0, impl with
  | Ok ms, Some l => same_morphemes ms l
  | Err, None => true
  | _, _ => false
  end.
