(* Canonical writings of a VALUE as a Japanese numeral string (executable definitions only):
   (a) kanji units: groups of four digits, 千 百 十 inside a group, 万 億 兆 between groups, zero groups and zero digits
       skipped, coefficient 一 of 千/百/十 written or omitted (per group, per unit), coefficient digits kanji or Arabic;
   (b) mixed: each group as Arabic digits without leading zeros followed by its large unit (3億2000万);
       (a) and (b) may be chosen per group;
   (c) Arabic digits with thousands separators;  (d) a decimal fraction.
   Range of (a)/(b): 0 < n < 10^16 (four groups: 兆 億 万 and the ones group). *)
From Coq Require Import List NArith ZArith Bool Arith.
From SudachiVerif Require Import Model.Numeric.
Import ListNotations.
Open Scope N_scope.

(* ------------------------------------------------------------------ decimal digits of a value *)
(* the k low decimal digits of n, most significant first *)
Fixpoint digitsk (k : nat) (n : N) : list N :=
  match k with O => [] | S k' => digitsk k' (n / 10) ++ [n mod 10] end.

(* leading zeros removed *)
Fixpoint strip (l : list N) : list N :=
  match l with
  | [] => []
  | d :: t => if N.eqb d 0 then strip t else l
  end.

(* decimal rendering of 0 < n < 10^16: its 16 digits without the leading zeros *)
Definition dec16 (n : N) : list N := strip (digitsk 16 n).

(* ------------------------------------------------------------------ groups of four digits *)
Definition grp := (N * N * N * N)%type.
Definition gdig (g : grp) : list N := let '(a, b, c, d) := g in [a; b; c; d].
Definition sdig (g : grp) : list N := strip (gdig g).
Definition gz (g : grp) : bool := match sdig g with [] => true | _ => false end.

Definition grp_of (n : N) : grp := (n / 10 / 10 / 10 mod 10, n / 10 / 10 mod 10, n / 10 mod 10, n mod 10).

(* 兆 / 億 / 万 / ones groups of n *)
Definition groups16 (n : N) : grp * grp * grp * grp :=
  (grp_of (n / 10 ^ 12), grp_of (n / 10 ^ 8), grp_of (n / 10 ^ 4), grp_of n).

(* ------------------------------------------------------------------ characters *)
Definition kdigit (d : N) : N :=
  nth (N.to_nat d) [12295; 19968; 20108; 19977; 22235; 20116; 20845; 19971; 20843; 20061] 0.   (* 〇一二三四五六七八九 *)
Definition adigit (d : N) : N := 48 + d.
Definition cdigit (arabic : bool) (d : N) : N := if arabic then adigit d else kdigit d.
Definition U10 : N := 21313.    (* 十 *)
Definition U100 : N := 30334.   (* 百 *)
Definition U1000 : N := 21315.  (* 千 *)
Definition UMAN : N := 19975.   (* 万 *)
Definition UOKU : N := 20740.   (* 億 *)
Definition UCHO : N := 20806.   (* 兆 *)

(* ------------------------------------------------------------------ (a) one group with kanji units *)
Record gstyle := mkSty { one1000 : bool; one100 : bool; one10 : bool; arabic_coeff : bool }.

(* coefficient x of unit u: nothing for 0; for 1 the unit alone unless the leading 一 is written; otherwise digit + unit *)
Definition coef_text (explicit_one arabic : bool) (u x : N) : list N :=
  if N.eqb x 0 then []
  else if N.eqb x 1 && negb explicit_one then [u]
  else [cdigit arabic x; u].

Definition kanji_group (st : gstyle) (g : grp) : list N :=
  let '(a, b, c, d) := g in
  coef_text (one1000 st) (arabic_coeff st) U1000 a ++ coef_text (one100 st) (arabic_coeff st) U100 b ++
  coef_text (one10 st) (arabic_coeff st) U10 c ++ (if N.eqb d 0 then [] else [cdigit (arabic_coeff st) d]).

(* ------------------------------------------------------------------ (b) one group as Arabic digits *)
Definition arabic_group (g : grp) : list N := map adigit (sdig g).

(* ------------------------------------------------------------------ the whole numeral *)
Definition part (w : grp -> list N) (g : grp) (u : N) : list N := if gz g then [] else w g ++ [u].

(* w i = writer of the group at position i (3 = 兆 ... 0 = ones) *)
Definition wnum (w : nat -> grp -> list N) (gs : grp * grp * grp * grp) : list N :=
  let '(g3, g2, g1, g0) := gs in
  part (w 3%nat) g3 UCHO ++ part (w 2%nat) g2 UOKU ++ part (w 1%nat) g1 UMAN ++ (if gz g0 then [] else w 0%nat g0).

(* kinds i = true: group i in Arabic digits; otherwise kanji units with style sty i *)
Definition group_writer (kinds : nat -> bool) (sty : nat -> gstyle) (i : nat) : grp -> list N :=
  if kinds i then arabic_group else kanji_group (sty i).

Definition canon_of (kinds : nat -> bool) (sty : nat -> gstyle) (n : N) : list N :=
  wnum (group_writer kinds sty) (groups16 n).

(* standard spelling: 千百十 without 一, kanji digits *)
Definition std_style : gstyle := mkSty false false false false.
Definition kanji_of (n : N) : list N := canon_of (fun _ => false) (fun _ => std_style) n.
(* 3億2000万 *)
Definition mixed_of (n : N) : list N := canon_of (fun _ => true) (fun _ => std_style) n.

(* ------------------------------------------------------------------ (c) thousands separators, (d) fractions *)
Fixpoint chunk3 (l : list N) : list (list N) :=
  match l with
  | a :: b :: c :: t => [a; b; c] :: chunk3 t
  | _ => []
  end.

(* digit string (most significant first, no leading zero, more than three digits) -> first group, later groups *)
Definition groups3 (ds : list N) : list N * list (list N) :=
  let r := ((length ds - 1) mod 3 + 1)%nat in (firstn r ds, chunk3 (skipn r ds)).

Definition grouped_text (ds : list N) : list N :=
  let '(g0, gs) := groups3 ds in map adigit g0 ++ concat (map (fun g => 44 :: map adigit g) gs).

Definition fraction_text (ip fp : list N) : list N := map adigit ip ++ 46 :: map adigit fp.

(* ------------------------------------------------------------------ two groups with arbitrary large units *)
(* room below the last small unit of a group written with kanji units: 0 after a ones digit, 1 / 2 / 3 after 十 / 百 / 千 *)
Definition groom3 (a b c : N) : nat := if negb (N.eqb c 0) then 1%nat else if negb (N.eqb b 0) then 2%nat else 3%nat.
Definition groom (g : grp) : nat := let '(a, b, c, d) := g in if N.eqb d 0 then groom3 a b c else 0%nat.

(* <group 1> U1 <group 2> U2 ; accepted iff the digits of group 2 plus E2 fit into room(group 1) + E1; digits of the sum *)
Definition two_unit_text (w1 w2 : grp -> list N) g1 u1 g2 u2 : list N := (w1 g1 ++ [u1]) ++ (w2 g2 ++ [u2]).
Definition two_unit_fits (room1 : grp -> nat) g1 E1 g2 E2 : bool := (length (sdig g2) + E2 <=? room1 g1 + E1)%nat.
Definition two_unit_digits g1 E1 g2 E2 : list N :=
  firstn (length (sdig g1) + E1 - (length (sdig g2) + E2)) (sdig g1 ++ repeat 0 E1) ++ sdig g2 ++ repeat 0 E2.

(* ------------------------------------------------------------------ entry point of the correspondence shards *)
(* kinds / styles as bit masks: bit i of kinds = group i Arabic; bits 4i..4i+3 of styles = one1000, one100, one10,
   arabic coefficients of group i *)
Definition kinds_of (m : N) (i : nat) : bool := N.testbit m (N.of_nat i).
Definition styles_of (m : N) (i : nat) : gstyle :=
  mkSty (N.testbit m (N.of_nat (4 * i))) (N.testbit m (N.of_nat (4 * i + 1)))
        (N.testbit m (N.of_nat (4 * i + 2))) (N.testbit m (N.of_nat (4 * i + 3))).

(* the implementation was run on the string the harness built from n; here the string is REBUILT from n by canon_of:
   model = implementation on it, accepted, and the normalised form is the decimal rendering of n *)
Definition check_canon (kinds styles n : N) (input : list N) (ok : bool) (err : N) (norm : list N) : bool :=
  text_eqb input (canon_of (kinds_of kinds) (styles_of styles) n) &&
  check_parse input ok err norm && ok && text_eqb norm (map digit_char (dec16 n)).

Definition uchar_of (E : nat) : N :=
  if Nat.eqb E 4 then UMAN else if Nat.eqb E 8 then UOKU else if Nat.eqb E 12 then UCHO else 0.
Definition writer_of (arabic : bool) (st : N) : grp -> list N := if arabic then arabic_group else kanji_group (styles_of st 0).
Definition room_of (arabic : bool) : grp -> nat := if arabic then (fun _ => 0%nat) else groom.

(* <group 1> U1 <group 2> U2 with any two large units: the implementation accepts exactly when the theorem
   C15_unit_order_behaviour says so, and then with the digits of the sum *)
Definition check_two_units (ar1 : bool) (st1 : N) (ar2 : bool) (st2 : N) (g1 : grp) (E1 : nat) (g2 : grp) (E2 : nat)
           (input : list N) (ok : bool) (err : N) (norm : list N) : bool :=
  text_eqb input (two_unit_text (writer_of ar1 st1) (writer_of ar2 st2) g1 (uchar_of E1) g2 (uchar_of E2)) &&
  check_parse input ok err norm &&
  Bool.eqb ok (two_unit_fits (room_of ar1) g1 E1 g2 E2) &&
  (if ok then text_eqb norm (map digit_char (two_unit_digits g1 E1 g2 E2)) else N.eqb err 0).
