(* Model of the glue between the Python binding and the core library (C19):
   python/src/projection.rs (what Morpheme.surface() returns under each surface projection),
   SurfaceProjection::{try_from, required_subset} (sudachi/src/config.rs),
   parse_field_subset and Dictionary.create (python/src/dictionary.rs),
   Morpheme.begin / end / raw_surface (python/src/morpheme.rs).
   Executable definitions only; every table is read from Generated/PyFacts.v (re-extracted on every run). *)
From Coq Require Import List NArith ZArith Bool String.
From SudachiVerif Require Import Model.Codec.
From SudachiVerif Require Generated.PyFacts Generated.FieldOrder.
Import ListNotations.
Open Scope N_scope.

Module PF := Generated.PyFacts.
Module FO := Generated.FieldOrder.

(* ------------------------------------------------------------------ projection kinds and their names *)
Inductive pkind :=
  PSurface | PNormalized | PReading | PDictionary | PDictionaryAndSurface | PNormalizedAndSurface | PNormalizedNouns.

Definition all_kinds : list pkind :=
  [PSurface; PNormalized; PReading; PDictionary; PDictionaryAndSurface; PNormalizedAndSurface; PNormalizedNouns].

Definition variant_name (k : pkind) : string :=
  match k with
  | PSurface => "Surface" | PNormalized => "Normalized" | PReading => "Reading" | PDictionary => "Dictionary"
  | PDictionaryAndSurface => "DictionaryAndSurface" | PNormalizedAndSurface => "NormalizedAndSurface"
  | PNormalizedNouns => "NormalizedNouns"
  end.

Definition pkind_eqb (a b : pkind) : bool := String.eqb (variant_name a) (variant_name b).

Definition kind_of_variant (v : string) : option pkind :=
  find (fun k => String.eqb (variant_name k) v) all_kinds.

(* SurfaceProjection::try_from: None = Err(ConfigError::InvalidFormat) (the binding turns it into a SudachiError) *)
Definition kind_of_name (n : string) : option pkind :=
  match assoc n PF.projection_names with
  | Some v => kind_of_variant v
  | None => None
  end.

(* SurfaceProjection::required_subset as InfoSubset bits *)
Definition required_subset (k : pkind) : N :=
  match assoc (variant_name k) PF.required_flags with
  | Some flags => mask_of FO.subset_bits flags
  | None => 0
  end.

(* ------------------------------------------------------------------ what a projection sees of a morpheme *)
(* raw surface = the slice of the input text (Morpheme::surface()); the other strings are the WordInfo accessors *)
Record pym := mkPym { p_surface : text; p_pos : N; p_norm : text; p_reading : text; p_dicform : text }.

Inductive pacc := PA_surface | PA_norm | PA_reading | PA_dicform.
Definition pacc_of_name (s : string) : option pacc :=
  if String.eqb s "surface" then Some PA_surface
  else if String.eqb s "normalized_form" then Some PA_norm
  else if String.eqb s "reading_form" then Some PA_reading
  else if String.eqb s "dictionary_form" then Some PA_dicform
  else None.
Definition read (a : pacc) (m : pym) : text :=
  match a with PA_surface => p_surface m | PA_norm => p_norm m | PA_reading => p_reading m | PA_dicform => p_dicform m end.

(* the two POS matchers of projection.rs: make_matcher collects the ids of the POS tuples satisfying the predicate *)
Inductive mkind := MNone | MConjugating | MComponent.
Definition mkind_of_name (s : string) : option mkind :=
  if String.eqb s "" then Some MNone
  else if String.eqb s "conjugating" then Some MConjugating
  else if String.eqb s "component_equals" then Some MComponent
  else None.

(* pos[i] of a POS tuple; a missing component would be an index panic in Rust (grammar POS tuples have six components) *)
Definition component (p : list text) (i : N) : text := nth (N.to_nat i) p [].

Definition pos_pred (mk : mkind) (p : list text) : bool :=
  match mk with
  | MNone => false
  | MConjugating => existsb (text_eqb (component p PF.conjugating_index)) PF.conjugating_values
  | MComponent => text_eqb (component p PF.component_index) PF.component_value
  end.

Fixpoint matcher_ids_from (i : N) (pl : list (list text)) (mk : mkind) : list N :=
  match pl with
  | [] => []
  | p :: t => if pos_pred mk p then i :: matcher_ids_from (i + 1) t mk else matcher_ids_from (i + 1) t mk
  end.
(* make_matcher(dic, f): ids of dic.grammar().pos_list satisfying f *)
Definition matcher_ids (pl : list (list text)) (mk : mkind) : list N := matcher_ids_from 0 pl mk.
(* PosMatcher::matches_id *)
Definition matches (pl : list (list text)) (mk : mkind) (pid : N) : bool := existsb (N.eqb pid) (matcher_ids pl mk).

(* variant -> (matcher, accessor if the matcher accepts the POS id, accessor otherwise) *)
Definition impl_of (k : pkind) : option (mkind * pacc * pacc) :=
  match assoc (variant_name k) PF.projection_impl with
  | Some (mk, a, b) =>
      match mkind_of_name mk, pacc_of_name a, pacc_of_name b with
      | Some mk', Some a', Some b' => Some (mk', a', b')
      | _, _, _ => None
      end
  | None => None
  end.

(* MorphemeProjection::project; None = the generated tables no longer describe a projection this model knows *)
Definition project (pl : list (list text)) (k : pkind) (m : pym) : option text :=
  match impl_of k with
  | Some (MNone, a, _) => Some (read a m)
  | Some (mk, a, b) => Some (if matches pl mk (p_pos m) then read a m else read b m)
  | None => None
  end.

(* Morpheme.surface() in Python: no projection object = the raw surface *)
Definition py_surface (pl : list (list text)) (k : option pkind) (m : pym) : option text :=
  match k with
  | None => Some (p_surface m)
  | Some k => project pl k m
  end.

(* the morpheme as the binding sees it: raw surface + loaded word info *)
Definition view_of (surface : text) (i : winfo) : pym :=
  mkPym surface (as_num (accessor A_pos i)) (as_text (accessor A_norm i)) (as_text (accessor A_reading i))
        (as_text (accessor A_dicform i)).

(* ------------------------------------------------------------------ parse_field_subset and Dictionary.create *)
(* None (no fields argument) = InfoSubset::all(); an unknown name = error (outer None) *)
Definition field_bit (n : string) : option N :=
  match assoc n PF.field_names with
  | Some flag => match assoc flag FO.subset_bits with Some b => Some (N.shiftl 1 b) | None => None end
  | None => None
  end.

Fixpoint fields_mask (names : list string) : option N :=
  match names with
  | [] => Some 0
  | n :: t => match field_bit n, fields_mask t with
              | Some b, Some m => Some (N.lor b m)
              | _, _ => None
              end
  end.

Definition parse_field_subset (fields : option (list string)) : option N :=
  match fields with
  | None => Some ALL
  | Some names => fields_mask names
  end.

(* the subset Dictionary.create passes to PyTokenizer::new -> StatefulTokenizer::set_subset (mode C tokenizer), and what
   the tokenizer then loads *)
Definition create_subset (fields : N) (k : option pkind) : N :=
  N.lor fields (match k with Some k => required_subset k | None => 0 end).
Definition loaded_subset (fields : N) (k : option pkind) : N := normalize (create_subset fields k).

(* ------------------------------------------------------------------ entry points of the correspondence shards *)
Definition opt_text_eqb (a : option text) (b : text) : bool := match a with Some x => text_eqb x b | None => false end.

(* one tokenize call: the projection named [name] (None = no projection argument), the POS table of the dictionary, the
   morphemes as the library reports them (raw surface, POS id, normalised / reading / dictionary form) and the strings
   Morpheme.surface() returned in the interpreter *)
Definition check_projection (name : option string) (pl : list (list text)) (ms : list pym) (py : list text) : bool :=
  match (match name with None => Some None | Some n => option_map Some (kind_of_name n) end) with
  | None => false
  | Some k =>
      (Nat.eqb (List.length ms) (List.length py)) &&
      forallb (fun mp => opt_text_eqb (py_surface pl k (fst mp)) (snd mp)) (combine ms py)
  end.

(* the field names of a create() call: accepted, and the subset the harness computed for the library run is the model's *)
Definition check_fields (names : option (list string)) (name : option string) (subset : N) : bool :=
  match parse_field_subset names, (match name with None => Some None | Some n => option_map Some (kind_of_name n) end) with
  | Some f, Some k => N.eqb (create_subset f k) subset
  | _, _ => false
  end.
