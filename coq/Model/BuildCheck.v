(* Entry point of the C03 correspondence shards: the build_lattice model over the candidates the implementation created *)
From Coq Require Import List ZArith NArith Bool Arith.
From SudachiVerif Require Import Model.Harness Model.Lattice Model.BuildLattice Model.LatticeCheck.
Import ListNotations.
Open Scope Z_scope.

(* ns: every lattice node of one real tokenisation (verif hook), impl_eos: EOS cost or None (EosBosDisconnect) *)
Definition check_build (num_left : N) (data : list Z) (n : nat) (ns : list node) (impl_eos : option Z) : bool :=
  let conn := conn_canon num_left data in
  let cands p := filter (fun m => Nat.eqb (nbeg m) p) ns in
  forallb (fun m => Nat.ltb (nbeg m) (nend m) && Nat.leb (nend m) n) ns &&
  match build conn cands (fun _ => None) n, impl_eos with
  | Some (_, (_, _, c)), Some ic => c =? ic
  | None, None => true
  | _, _ => false
  end.
