(* C12: split references of layered dictionaries = builder B's resolution model (Model/CodecResolve.v: the first row of the
   dictionary being compiled with the named surface, POS and reading, else the first such word of the system dictionary)
   composed with the loader's re-stamping (Model/LexSet.v restamp).  Executable definitions only. *)
From Coq Require Import String List NArith ZArith Bool.
From SudachiVerif Require Import Model.Harness Model.Codec Model.CodecResolve Model.LexSet.
Import ListNotations.
Open Scope N_scope.

(* key of a row / of a system word as the resolvers hold it: reading = None when equal to the surface.
   POS are the interned POS values (Model/LexSet.v `pos`): within one build equal POS strings have equal ids. *)
Definition key3 (surface : text) (p : N) (reading : text) : rkey :=
  mkKey surface p (if text_eqb surface reading then None else Some reading).

(* what the word (d, .) of the loaded stack must report for the references `units` written in its CSV row:
   resolved at build time with the row's own dictionary as dictionary 1 (0 for the system dictionary itself),
   re-stamped with the dictionary's position d at load time *)
Definition loaded_refs (d : N) (own sys : list rkey) (units : list split_unit) : option (list N) :=
  match resolve_units (if d =? 0 then 0 else 1) own (if d =? 0 then [] else sys) units with
  | None => None
  | Some l => Some (restamp d l)
  end.

Definition check_resolved (sys : list rkey) (dict : N * list rkey * list (list split_unit * list N)) : bool :=
  match dict with
  | (d, own, rows) =>
      forallb (fun r => opt_eqb (list_eqb N.eqb) (loaded_refs d own sys (fst r)) (Some (snd r))) rows
  end.

(* correspondence-check entry for C12 (extends check_case_c12m): sys = keys of the system words,
   dicts = per loaded dictionary: its position, the keys of its rows, per row (references as written, references reported) *)
Definition check_case_c12r (sys_reqs : list pos) (sys_idx : list nat) (plugins : list (pos * bool))
           (us : list user_src) (loaded : bool) (obs : list obs_t) (mobs : list (N * Z)) (merged : list (N * list N))
           (sys : list rkey) (dicts : list (N * list rkey * list (list split_unit * list N))) : bool :=
  check_case_c12m sys_reqs sys_idx plugins us loaded obs mobs merged && forallb (check_resolved sys) dicts.
