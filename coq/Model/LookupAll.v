(* Model of MorphemeList::lookup (sudachi/src/analysis/mlist.rs) as reached through Dictionary.lookup of the Python binding
   (python/src/dictionary.rs): walk LexiconSet::lookup(query, offset), skip the entries that do not end at the end of the
   query, keep every other one -- no early exit.  Built over Model/LexSet.v (lexicons searched in LexFacts.lookup_reversed
   order, each lexicon = trie + word-id table).  The comparison that skips an entry and the offset are re-read from the
   source (Generated/LookupFacts.v).  No proofs here. *)
From Coq Require Import String List NArith ZArith Bool.
From SudachiVerif Require Generated.LexFacts Generated.LookupFacts.
From SudachiVerif Require Import Model.Harness Model.Trie Model.WordIdTable Model.LexSet.
Import ListNotations.
Open Scope N_scope.

Module LKF := Generated.LookupFacts.

(* the loop body: `if entry.end <skip_cmp> query.len() { continue; }` then push one node carrying entry.word_id *)
Fixpoint keep_full (n : N) (es : list (N * N)) : list N :=
  match es with
  | [] => []
  | (w, e) :: t => if cmp_eval LKF.skip_cmp e n then keep_full n t else w :: keep_full n t
  end.

Definition lookup_all (lexs : list lexicon) (q : list N) : option (list N) :=
  match lookup_set lexs q (N.to_nat LKF.lookup_offset) with
  | None => None
  | Some l => Some (keep_full (N.of_nat (length q)) l)
  end.

(* ---------- specification side ---------- *)
(* what lexicon L, carrying dictionary number dic, stores under the key q *)
Definition held (L : lexicon) (dic : N) (q : list N) : list N :=
  match accept_value (lx_trie L) q with
  | None => []
  | Some v => match entries (lx_table L) v with Some ids => map (stamp dic) ids | None => [] end
  end.

(* ... for the whole stack, in the order the dictionaries are searched *)
Definition held_all (lexs : list lexicon) (q : list N) : list N :=
  flat_map (fun dl => held (snd dl) (fst dl) q) (lookup_order (number 0 lexs)).

(* the same from the SOURCE rows: the indexed rows whose surface is the query, per dictionary in file order *)
Definition rows_answer (rowss : list (list row)) (q : list N) : list N :=
  flat_map (fun dr => map (stamp (fst dr)) (rows_with q (snd dr))) (lookup_order (number 0 rowss)).

(* ---------- correspondence-check entry (lookup stage of harness/src/c19.rs) ----------
   dics: rows (surface bytes, left id) of [system; user 1; user 2; ...]; obs: (query bytes, word ids the implementation returned) *)
Definition check_lookup (dics : list (list row)) (obs : list (list N * list N)) : bool :=
  forallb (fun o => list_eqb N.eqb (rows_answer dics (fst o)) (snd o)) obs.
