(* Model of Grammar::get_part_of_speech_id (sudachi/src/dic/grammar.rs): the lookup with which plugin set-up turns a
   configured part of speech -- JoinKatakanaOovPlugin's oovPOS, JoinNumericPlugin's 名詞,数詞,*,*,*,*, the OOV providers'
   oovPOS / unk.def columns (through handle_user_pos) -- into an id of the grammar's POS table.
   A part of speech is its vector of components (strings); "*" is a string like any other.
   Executable definitions only.  (Model/LexSet.v interns a part of speech as one number and therefore cannot say anything
   about its components; this file is the component-level model.) *)
From Coq Require Import List Bool Arith String.
From SudachiVerif Require Generated.PosLookupFacts.
Import ListNotations.
Local Open Scope nat_scope.

Module PF := Generated.PosLookupFacts.

Definition pos := list string.

(* a.iter().zip(b).all(|(x, y)| x == y): pairwise up to the shorter of the two *)
Fixpoint zip_all (a b : pos) : bool :=
  match a, b with
  | x :: a', y :: b' => String.eqb x y && zip_all a' b'
  | _, _ => true
  end.

(* the components before the first "*" (what a lookup that treats unspecified levels as wildcards would compare) *)
Fixpoint before_star (p : pos) : pos :=
  match p with
  | [] => []
  | x :: t => if String.eqb x "*" then [] else x :: before_star t
  end.

(* what the source compares with the rows of the table now (re-read on every run): the whole requested vector -- the
   documented behaviour -- or the part in front of the first "*" *)
Definition compared (p : pos) : pos :=
  if String.eqb PF.lookup_compares "requested" then p else before_star p.

Fixpoint scan (key : pos) (tbl : list pos) (i : nat) : option nat :=
  match tbl with
  | [] => None
  | row :: t => if zip_all key row then Some i else scan key t (S i)
  end.

Definition lookup (tbl : list pos) (p : pos) : option nat :=
  if PF.lookup_length_guard && negb (Nat.eqb (List.length p) PF.pos_depth) then None
  else scan (compared p) tbl 0.

(* ---- correspondence entry: the POS table of a loaded grammar, a requested part of speech, what the implementation
   answered; and the property with the constants of its statement: the answer is the first row EQUAL to the request ---- *)
Definition pos_eqb (a b : pos) : bool := Nat.eqb (List.length a) (List.length b) && zip_all a b.
Fixpoint first_equal (p : pos) (tbl : list pos) (i : nat) : option nat :=
  match tbl with
  | [] => None
  | row :: t => if pos_eqb p row then Some i else first_equal p t (S i)
  end.
Definition onat_eqb (a b : option nat) : bool :=
  match a, b with Some x, Some y => Nat.eqb x y | None, None => true | _, _ => false end.
Definition check_pos_lookup (tbl : list pos) (p : pos) (answer : option nat) : bool :=
  onat_eqb (lookup tbl p) answer && onat_eqb (if Nat.eqb (List.length p) 6 then first_equal p tbl 0 else None) answer.
