(* Machine-level copy of Model/Lattice.v: totals are i32 values, i32::MAX means "not connected to BOS",
   additions either panic on overflow (debug profile, overflow-checks) or wrap (release profile). *)
From Coq Require Import List ZArith NArith Bool Arith.
From SudachiVerif Require Import Model.Lattice.
Import ListNotations.
Open Scope Z_scope.

Definition MAX32 : Z := 2147483647.
Definition MIN32 : Z := -2147483648.
Definition wrap32 (z : Z) : Z := (z + 2147483648) mod 4294967296 - 2147483648.

Inductive res (A : Type) : Type := Ok (a : A) | Panic.
Arguments Ok {A} a.
Arguments Panic {A}.

(* i32 + i32: checked = true models overflow-checks (debug), false models wrapping (release) *)
Definition add32 (checked : bool) (a b : Z) : res Z :=
  let s := a + b in
  if (MIN32 <=? s) && (s <=? MAX32) then Ok s
  else if checked then Panic else Ok (wrap32 s).

Record mentry := mkM { mnode : option node; mtotal : Z; mprev : option (nat * nat) }.
Definition mright (e : mentry) : N := match mnode e with None => 0%N | Some m => nright m end.
Definition mlattice := list (list mentry).

Definition mbos : mentry := mkM None 0 None.
Definition mreset (length : nat) : mlattice := [mbos] :: repeat [] length.
Definition mrow (L : mlattice) (i : nat) : list mentry := nth i L [].

Section WithConn.
  Variable checked : bool.
  Variable conn : N -> N -> Z.

  Fixpoint mscan (es : list mentry) (i : nat) (lft : N) (cst : Z) (best : option nat) (minc : Z)
    : res (option nat * Z) :=
    match es with
    | [] => Ok (best, minc)
    | e :: es' =>
        if mtotal e =? MAX32 then mscan es' (S i) lft cst best minc      (* !is_connected_to_bos *)
        else match add32 checked (mtotal e) (conn (mright e) lft) with
             | Panic => Panic
             | Ok s1 =>
                 match add32 checked s1 cst with
                 | Panic => Panic
                 | Ok nc => if nc <? minc then mscan es' (S i) lft cst (Some i) nc
                            else mscan es' (S i) lft cst best minc
                 end
             end
    end.

  Definition mconnect_node (L : mlattice) (begin : nat) (lft : N) (cst : Z) : res (option nat * Z) :=
    mscan (mrow L begin) 0%nat lft cst None MAX32.

  Fixpoint mpush_row (L : mlattice) (i : nat) (e : mentry) : mlattice :=
    match L, i with
    | [], _ => []
    | r :: L', O => (r ++ [e]) :: L'
    | r :: L', S i' => r :: mpush_row L' i' e
    end.

  Definition minsert (L : mlattice) (n : node) : res (mlattice * Z) :=
    match mconnect_node L (nbeg n) (nleft n) (ncost n) with
    | Panic => Panic
    | Ok (best, c) =>
        Ok (mpush_row L (nend n) (mkM (Some n) c (option_map (fun i => (nbeg n, i)) best)), c)
    end.

  Fixpoint minsert_all (L : mlattice) (ns : list node) : res (mlattice * list Z) :=
    match ns with
    | [] => Ok (L, [])
    | n :: t => match minsert L n with
                | Panic => Panic
                | Ok (L', c) => match minsert_all L' t with
                                | Panic => Panic
                                | Ok (L'', cs) => Ok (L'', c :: cs)
                                end
                end
    end.

  (* connect_eos: Err(EosBosDisconnect) when the cost is i32::MAX *)
  Definition mconnect_eos (L : mlattice) : res (option (nat * nat * Z)) :=
    let len := (length L - 1)%nat in
    match mconnect_node L len 0%N 0 with
    | Panic => Panic
    | Ok (best, c) => if c =? MAX32 then Ok None
                      else Ok (match best with Some i => Some (len, i, c) | None => None end)
    end.
End WithConn.

(* embedding of the mathematical lattice *)
Definition embed (o : option Z) : Z := match o with None => MAX32 | Some z => z end.
Definition emb (e : entry) : mentry := mkM (enode e) (embed (etotal e)) (eprev e).
Definition embL (L : lattice) : mlattice := map (map emb) L.

(* ---- one case of the unit-level correspondence run (public Lattice API) ----
   impl_costs: what every Lattice::insert returned; impl_eos: None = Err(EosBosDisconnect), Some (cost, path as (end, index) list)
   conn is given as a row-major table through the index formula of ConnectionMatrix::index. *)
Definition conn_of (num_left : N) (index : N -> N -> N -> N) (data : list Z) (l r : N) : Z :=
  nth (N.to_nat (index l r num_left)) data 0.
