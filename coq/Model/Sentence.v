(* Model of sudachi/src/sentence_detector.rs (SentenceDetector::get_eos, NonBreakChecker::has_non_break_word and the
   fixed regex patterns, as hand matchers) and sudachi/src/sentence_splitter.rs (SentenceIter::next).
   Executable definitions only (no proofs) so that the model still runs when a proof breaks.

   Text is a list of Unicode scalar values; the model works on character indices and converts to the byte offsets
   the Rust code reports (UTF-8 widths) at the interface.  Character classes, repetition bounds, tag alternatives,
   the look-back length and the default window are read from Generated/SentenceFacts.v on every run. *)
From Coq Require Import List NArith ZArith Bool Arith.
From SudachiVerif Require Generated.SentenceFacts.
From SudachiVerif Require Export Model.SentenceRegex.
Import ListNotations.

Module F := Generated.SentenceFacts.

Definition text := list N.

(* ---------- UTF-8 widths and byte offsets ---------- *)
Definition width (c : N) : nat :=
  if (c <? 128)%N then 1 else if (c <? 2048)%N then 2 else if (c <? 65536)%N then 3 else 4.

Fixpoint blen (t : text) : nat :=
  match t with
  | [] => 0
  | c :: r => width c + blen r
  end.

(* &data[b..] / &data[..b]: None models the slice panic (b beyond the end or not on a character boundary) *)
Fixpoint split_bytes (b : nat) (t : text) : option (text * text) :=
  match t with
  | [] => if b =? 0 then Some ([], []) else None
  | c :: r =>
      if b =? 0 then Some ([], t)
      else if width c <=? b then
        match split_bytes (b - width c) r with
        | Some (x, y) => Some (c :: x, y)
        | None => None
        end
      else None
  end.

(* ---------- character classes (regex [...] over the generated range lists) ---------- *)
(* classes: cls, in_list, in_range, in_ranges come from Model/SentenceRegex.v *)
Definition is_period : N -> bool := in_ranges F.PERIODS.
Definition is_dot : N -> bool := in_ranges F.DOT.
Definition is_comma : N -> bool := in_ranges F.COMMA.
Definition is_an : N -> bool := in_ranges F.ALPHABET_OR_NUMBER.
Definition is_open : N -> bool := in_ranges F.OPEN_PARENTHESIS.
Definition is_close : N -> bool := in_ranges F.CLOSE_PARENTHESIS.
Definition is_cdot (c : N) : bool := (c =? F.CDOT)%N.
(* [DOT PERIODS]* after the terminator proper *)
Definition is_more (c : N) : bool := is_dot c || is_period c.
(* PROHIBITED_BOS: [CLOSE COMMA PERIODS] *)
Definition is_prohibited (c : N) : bool := is_close c || is_comma c || is_period c.
(* \s (is_ws, Unicode White_Space) comes from Model/SentenceRegex.v *)

(* length of the longest prefix whose characters satisfy p  (greedy X* / X+ with nothing to give back) *)
Fixpoint span (p : N -> bool) (t : text) : nat :=
  match t with
  | c :: r => if p c then S (span p r) else 0
  | [] => 0
  end.

Fixpoint starts_with (w t : text) : bool :=
  match w, t with
  | [], _ => true
  | a :: w', b :: t' => if (a =? b)%N then starts_with w' t' else false
  | _ :: _, [] => false
  end.

(* ---------- SENTENCE_BREAKER = ([PERIODS]|CDOTS+|(?<![AN])[DOT](?![AN COMMA]))[DOT PERIODS]*|BR_TAG ---------- *)
Definition or_else {A} (a b : option A) : option A := match a with Some _ => a | None => b end.

Definition m_period (t : text) : option nat :=
  match t with
  | c :: r => if is_period c then Some (S (span is_more r)) else None
  | [] => None
  end.

(* possessive run of at least CDOTS_MIN middle dots *)
Definition m_cdots (t : text) : option nat :=
  match t with
  | c :: _ =>
      if is_cdot c then
        let n := span is_cdot t in
        if F.CDOTS_MIN <=? n then Some (n + span is_more (skipn n t)) else None
      else None
  | [] => None
  end.

(* prev = the character before the candidate in the window, None at the start of the window *)
Definition m_dot (prev : option N) (t : text) : option nat :=
  match t with
  | c :: r =>
      if is_dot c then
        if (match prev with Some p => is_an p | None => false end) then None
        else if (match r with d :: _ => is_an d || is_comma d | [] => false end) then None
        else Some (S (span is_more r))
      else None
  | [] => None
  end.

Fixpoint first_tag (tags : list text) (t : text) : option nat :=
  match tags with
  | [] => None
  | w :: tl => if starts_with w t then Some (length w) else first_tag tl t
  end.

(* (tag|tag){n,} greedy: number of consecutive tags and their total length *)
Fixpoint tags_run (fuel : nat) (t : text) : nat * nat :=
  match fuel with
  | 0 => (0, 0)
  | S f =>
      match first_tag F.BR_TAGS t with
      | Some (S l) => let r := tags_run f (skipn (S l) t) in (S (fst r), S l + snd r)
      | _ => (0, 0)
      end
  end.

Definition m_br (t : text) : option nat :=
  match t with
  | c :: _ =>
      if existsb (fun w => match w with a :: _ => (a =? c)%N | [] => false end) F.BR_TAGS then
        let r := tags_run (length t) t in
        if F.BR_MIN <=? fst r then match snd r with 0 => None | S m => Some (S m) end else None
      else None
  | [] => None
  end.

(* length (>= 1) of the match that starts exactly at the head of t *)
Definition breaker_len (prev : option N) (t : text) : option nat :=
  or_else (or_else (or_else (m_period t) (m_cdots t)) (m_dot prev t)) (m_br t).

(* find_iter: leftmost match, next search starts at its end.  `skip` characters of the current match remain,
   i = index of the head of rest in the window.  Yields the END index of every match. *)
Fixpoint scan (skip : nat) (prev : option N) (i : nat) (rest : text) : list nat :=
  match rest with
  | [] => []
  | c :: tl =>
      match skip with
      | S k => scan k (Some c) (S i) tl
      | 0 =>
          match breaker_len prev rest with
          | Some (S m) => (i + S m) :: scan m (Some c) (S i) tl
          | _ => scan 0 (Some c) (S i) tl
          end
      end
  end.

Definition candidates (s : text) : list nat := scan 0 None 0 s.

Fixpoint first_some {A B} (f : A -> option B) (l : list A) : option B :=
  match l with
  | [] => None
  | x :: tl => match f x with Some r => Some r | None => first_some f tl end
  end.

(* the same enumeration fused with the search for the first accepted candidate (what the lazy iterator does;
   Proofs/SentenceProofs.v shows scan_find f = first_some f (scan ..)) *)
Fixpoint scan_find {B} (f : nat -> option B) (skip : nat) (prev : option N) (i : nat) (rest : text) : option B :=
  match rest with
  | [] => None
  | c :: tl =>
      match skip with
      | S k => scan_find f k (Some c) (S i) tl
      | 0 =>
          match breaker_len prev rest with
          | Some (S m) =>
              match f (i + S m) with
              | Some r => Some r
              | None => scan_find f m (Some c) (S i) tl
              end
          | _ => scan_find f 0 (Some c) (S i) tl
          end
      end
  end.

(* ---------- the vetoes ---------- *)
(* parenthesis_level: group 1 (open) is tried first; a close at level 0 is ignored *)
Fixpoint plevel (lv : nat) (t : text) : nat :=
  match t with
  | [] => lv
  | c :: r => plevel (if is_open c then S lv else if is_close c then pred lv else lv) r
  end.

Definition prohibited_bos (t : text) : nat := span is_prohibited t.

(* ^([AN])([DOT])$ on the whole window *)
Definition itemize_header (s : text) : bool :=
  match s with
  | [a; d] => is_an a && is_dot d
  | _ => false
  end.

(* the last character of t and the one before it *)
Fixpoint last2 (a : option N) (t : text) : option (option N * N) :=
  match t with
  | [] => None
  | c :: r => match r with [] => Some (a, c) | _ => last2 (Some c) r end
  end.

(* QUOTE_MARKER.find(&s[eos - last_char_len ..]) with mat.start() == 0: l = last character before eos, rest = s[eos..] *)
Definition quote_at (l : N) (rest : text) : bool :=
  (in_list F.QUOTE_FIRST l || is_close l) && existsb (fun w => starts_with w rest) F.QUOTE_SECOND.

(* EOS_ITEMIZE_HEADER.is_match(t): t ends with an alphanumeric followed by a dot *)
Fixpoint ends_an_dot (t : text) : bool :=
  match t with
  | a :: tl =>
      match tl with
      | d :: tl' => match tl' with [] => is_an a && is_dot d | _ :: _ => ends_an_dot tl end
      | [] => false
      end
  | [] => false
  end.

(* is_continuous_phrase(s, eos) for 0 < eos < |s| *)
Definition continuous (s : text) (eos : nat) : bool :=
  let rest := skipn eos s in
  match last2 None (firstn eos s), rest with
  | Some (_, l), c :: _ =>
      if quote_at l rest then true
      else in_list F.ITEM_FOLLOW c && ends_an_dot (firstn eos s)
  | _, _ => false
  end.

(* NonBreakChecker::has_non_break_word(input, k) with bos = 0 (the splitter never moves it):
   `lookup t` = character lengths of the dictionary words that are prefixes of t.
   Byte offsets i in max(L, eos_byte) - L .. eos_byte; only character boundaries can start a key. *)
Section Checker.
  Variable lookup : text -> list nat.

  (* a word of l characters starting `rem` characters before the candidate crosses it, or ends on it and is longer
     than one character *)
  Definition crosses (rem l : nat) : bool := (rem <? l) || ((l =? rem) && (1 <? l)).

  (* t = the input from a character `rem` characters before the candidate on; skipb = bytes still missing to reach
     lookup_start (0 = inside the look-back window) *)
  Fixpoint nb_scan (rem skipb : nat) (t : text) : bool :=
    match rem with
    | 0 => false
    | S rem' =>
        match t with
        | [] => false
        | c :: r =>
            if (match skipb with 0 => existsb (crosses rem) (lookup t) | S _ => false end) then true
            else nb_scan rem' (skipb - width c) r
        end
    end.

  Definition has_non_break_word (input : text) (k : nat) : bool :=
    nb_scan k (blen (firstn k input) - N.to_nat F.LOOKUP_BYTE_LENGTH) input.

  (* the property's own reading, without the look-back bound: any such word starting anywhere before the break *)
  Definition word_across_b (input : text) (k : nat) : bool := nb_scan k 0 input.
End Checker.

(* ---------- SPACES = .+\s+ (leftmost-first): end of the match ---------- *)
(* after the first non-newline character: the first newline ends `.+`, \s+ then takes the whitespace run;
   without a newline `.+` backs off to the last whitespace character *)
Fixpoint line_scan (i : nat) (t : text) (acc : option nat) : option nat :=
  match t with
  | [] => acc
  | c :: r => if (c =? 10)%N then Some (i + span is_ws t) else line_scan (S i) r (if is_ws c then Some (S i) else acc)
  end.

Fixpoint spaces_from (i : nat) (t : text) : option nat :=
  match t with
  | [] => None
  | c :: r => if (c =? 10)%N then spaces_from (S i) r else line_scan (S i) r None
  end.

Definition spaces_end (s : text) : option nat := spaces_from 0 s.

(* ---------- SentenceDetector::get_eos ---------- *)
Definition checker := option (text -> list nat).

(* body of the candidate loop for the match ending at e: None = continue, Some eos = return *)
Definition accept (ck : checker) (input s : text) (e : nat) : option nat :=
  if 0 <? plevel 0 (firstn e s) then None
  else
    let n := length s in
    let eos := if e <? n then e + prohibited_bos (skipn e s) else e in
    if itemize_header s then None
    else if (if eos <? n then continuous s eos else false) then None
    else match ck with
         | Some lk => if has_non_break_word lk input eos then None else Some eos
         | None => Some eos
         end.

(* result in bytes, sign as in the code; `limit` is the window in characters *)
Definition get_eos (limit : nat) (ck : checker) (input : text) : Z :=
  match input with
  | [] => 0%Z
  | _ =>
      let s := firstn limit input in
      match scan_find (accept ck input s) 0 None 0 s with
      | Some eos => Z.of_nat (blen (firstn eos s))
      | None =>
          match (if length s <? length input then spaces_end s else None) with
          | Some e => (- Z.of_nat (blen (firstn e s)))%Z
          | None => (- Z.of_nat (blen s))%Z
          end
      end
  end.

(* ---------- SentenceIter::next, for any detector ---------- *)
Inductive iter_res :=
| Done (rs : list (nat * nat * text))   (* (range.start, range.end, real_slice) in iteration order *)
| SlicePanic                            (* &self.data[range] out of range / off a boundary *)
| OutOfFuel.                            (* the iterator would still be running *)

Definition iter_cons (x : nat * nat * text) (r : iter_res) : iter_res :=
  match r with Done rs => Done (x :: rs) | other => other end.

Fixpoint iter (det : text -> Z) (fuel pos : nat) (rest : text) : iter_res :=
  match rest with
  | [] => Done []                                   (* position == data.len() *)
  | _ =>
      match fuel with
      | 0 => OutOfFuel
      | S f =>
          let rv := det rest in
          if (rv <? 0)%Z then Done [(pos, pos + blen rest, rest)]
          else
            match split_bytes (Z.to_nat rv) rest with
            | Some (a, b) => iter_cons (pos, pos + Z.to_nat rv, a) (iter det f (pos + Z.to_nat rv) b)
            | None => SlicePanic
            end
      end
  end.

(* one unit of fuel per character is enough for every detector that makes progress (proved) *)
Definition split_with (det : text -> Z) (data : text) : iter_res := iter det (length data) 0 data.

Definition split (limit : nat) (ck : checker) (data : text) : iter_res := split_with (get_eos limit ck) data.

(* ---------- a concrete lexicon: the dictionary as a list of surfaces ---------- *)
Definition lookup_lex (lex : list text) (t : text) : list nat :=
  map (@length N) (filter (fun w => starts_with w t) lex).

(* ---------- boolean forms of the property predicates, evaluated on the IMPLEMENTATION's output ---------- *)
(* ranges tile the text: start where the previous ended, non-empty, on character boundaries, end at |text| *)
Fixpoint tiles_b (pos : nat) (data : text) (rs : list (nat * nat)) : bool :=
  match rs with
  | [] => match data with [] => true | _ => false end
  | (b, e) :: tl =>
      if (b =? pos) && (b <? e) then
        match split_bytes (e - b) data with
        | Some (_, rest) => tiles_b e rest tl
        | None => false
        end
      else false
  end.

(* the sentence ends with a terminator followed only by closing brackets, commas and further terminators *)
Fixpoint all_cdot (n : nat) (t : text) : bool :=
  match n with
  | 0 => true
  | S k => match t with c :: r => if is_cdot c then all_cdot k r else false | [] => false end
  end.

(* reversed text starts with at least n reversed tags *)
Fixpoint rev_tags (fuel n : nat) (rt : text) : bool :=
  match n with
  | 0 => true
  | S k =>
      match fuel with
      | 0 => false
      | S f =>
          existsb (fun w => match w with
                            | [] => false
                            | _ => if starts_with (rev w) rt then rev_tags f k (skipn (length w) rt) else false
                            end) F.BR_TAGS
      end
  end.

Definition is_trailer (c : N) : bool := is_close c || is_comma c || is_period c || is_dot c.

Definition ends_after_terminator_b (t : text) : bool :=
  let rt := rev_append t [] in
  let k := span is_trailer rt in
  if existsb is_more (firstn k rt) then true
  else
    let h := skipn k rt in
    if all_cdot (Nat.max 1 F.CDOTS_MIN) h then true
    else rev_tags (length h) (Nat.max 1 F.BR_MIN) h.

(* every sentence but the last: ends after a terminator, no unclosed bracket, no multi-character word across the break
   (any word, not only those inside the look-back window: failures of that kind are the recorded finding) *)
Fixpoint sentences_ok (ck : checker) (data : text) (rs : list (nat * nat)) : bool :=
  match rs with
  | [] => true
  | [_] => true
  | (b, e) :: tl =>
      match split_bytes (e - b) data with
      | Some (sent, rest) =>
          ends_after_terminator_b sent
          && (plevel 0 sent =? 0)
          && match ck with Some lk => negb (word_across_b lk data (length sent)) | None => true end
          && sentences_ok ck rest tl
      | None => false
      end
  end.

Definition res_ranges (r : iter_res) : option (list (nat * nat)) :=
  match r with
  | Done rs => Some (map (fun x => (fst (fst x), snd (fst x))) rs)
  | _ => None
  end.

Definition ranges_eqb (a b : list (nat * nat)) : bool :=
  (length a =? length b) && forallb (fun p => (fst (fst p) =? fst (snd p)) && (snd (fst p) =? snd (snd p))) (combine a b).

(* one correspondence case: text, window, lexicon (None = no checker), implementation output
   (get_eos of the whole text, ranges of the iterator; None = error / panic / no termination) *)
Definition check_case (data : text) (limit : N) (lex : option (list text)) (out : option (Z * list (N * N))) : bool :=
  let ck : checker := option_map lookup_lex lex in
  let lim := N.to_nat limit in
  match out with
  | None => false
  | Some (eos, ranges) =>
      let rs := map (fun p => (N.to_nat (fst p), N.to_nat (snd p))) ranges in
      (get_eos lim ck data =? eos)%Z
      && match res_ranges (split lim ck data) with Some m => ranges_eqb m rs | None => false end
      && tiles_b 0 data rs
      && (length rs <=? length data)
      && sentences_ok ck data rs
  end.

(* a case of the command-line tool: one input line, the window of SentenceSplitter::new(), the dictionary words of the
   line as lexicon, the byte ranges of the sentences visible in the tool's output (None = they do not add up to the line) *)
Definition check_split (data : text) (limit : N) (lex : option (list text)) (out : option (list (N * N))) : bool :=
  let ck : checker := option_map lookup_lex lex in
  let lim := N.to_nat limit in
  match out with
  | None => false
  | Some ranges =>
      let rs := map (fun p => (N.to_nat (fst p), N.to_nat (snd p))) ranges in
      match res_ranges (split lim ck data) with Some m => ranges_eqb m rs | None => false end
      && tiles_b 0 data rs
      && (length rs <=? length data)
  end.
