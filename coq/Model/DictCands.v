(* Model of the dictionary half of LatticeBuilder::build_lattice (analysis/stateful_tokenizer.rs): for every
   (ch_off, byte_off) of input.curr_byte_offsets()
       for e in lexicon.lookup(input_bytes, byte_off) {
           if (e.end < input_bytes.len()) && !input.can_bow(e.end) { continue; }
           let end_c = input.ch_idx(e.end);
           Node::new(ch_off, end_c, left_id, right_id, cost, e.word_id) ... lattice.insert(node)
   byte_off = mod_c2b[ch_off], ch_idx = mod_b2c (Model/Buffer.v), lookup = Model/LexSet.v.  Executable definitions only. *)
From Coq Require Import String List Arith NArith ZArith Bool.
From SudachiVerif Require Model.Buffer.
From SudachiVerif Require Import Model.Harness Model.Lattice Model.Trie Model.WordIdTable Model.LexSet Model.IndexBuild.
Import ListNotations.
Open Scope nat_scope.

Module B := SudachiVerif.Model.Buffer.

Section WithCfg.
  Variable cfg : B.bcfg.

  (* (word id, character end) of the entries that become nodes at character ch_off *)
  Definition dict_entries (lexs : list lexicon) (bow : nat -> bool) (t : list N) (ch_off : nat) : list (N * nat) :=
    match lookup_set lexs t (nth ch_off (B.mod_c2b t) 0) with
    | None => []
    | Some l =>
        map (fun we => (fst we, nth (N.to_nat (snd we)) (B.mod_b2c cfg t) 0))
            (filter (fun we => negb (N.to_nat (snd we) <? length t) || bow (N.to_nat (snd we))) l)
    end.

  (* the lattice nodes (word parameters from the lexicon; the word id does not matter to the lattice model) *)
  Definition dict_cands (lexs : list lexicon) (params : N -> N * N * Z) (bow : nat -> bool) (t : list N) (ch_off : nat) : list node :=
    map (fun wc => let '(lft, rgt, cost) := params (fst wc) in mkNode ch_off (snd wc) lft rgt cost)
        (dict_entries lexs bow t ch_off).

  (* the candidate source of build_lattice: the loop visits the character positions 0 .. n-1 only *)
  Definition nchars (t : list N) : nat := length (B.mod_c2b t) - 1.
  Definition lattice_cands lexs params bow t (oov : nat -> list node) (p : nat) : list node :=
    if p <? nchars t then dict_cands lexs params bow t p ++ oov p else [].
  Definition lattice_fallback t (fallback : nat -> option node) (p : nat) : option node :=
    if p <? nchars t then fallback p else None.

  (* ---- correspondence: dictionary nodes of the implementation's lattice (hook Lattice::verif_nodes) ---- *)
  Definition wc_eqb (a b : N * N) : bool := (fst a =? fst b)%N && (snd a =? snd b)%N.

  (* t = text bytes; bowv = can_bow of every byte offset; obs = for every character position the loop processed (something
     ends there): the (word id, character end) of the non-OOV nodes that begin there *)
  Definition check_lattice (lexs : list lexicon) (t : list N) (bowv : list N) (obs : list (nat * list (N * N))) : bool :=
    let bow := fun i => (nth i bowv 0%N =? 1)%N in
    forallb (fun po =>
               let model := map (fun wc => (fst wc, N.of_nat (snd wc))) (dict_entries lexs bow t (fst po)) in
               perm_b wc_eqb (snd po) model
               && forallb (fun wc => (fst po <? N.to_nat (snd wc)) && (N.to_nat (snd wc) <=? nchars t)) (snd po))
            obs.
End WithCfg.

(* correspondence-check entry for C04 (extends check_case_c04i): lats = (text hex, can_bow table hex, observations) *)
Definition check_case_c04L (dics : list (string * string * list (string * Z))) (fuel : nat)
           (queries : list (string * list (list (N * N)))) (exacts : list (string * list N))
           (lats : list (string * string * list (nat * list (N * N)))) : bool :=
  check_case_c04i dics fuel queries exacts
  && (let lexs := map (fun d => dec_lex (fst d)) dics in
      forallb (fun l => check_lattice B.the_cfg lexs (hex_bytes (fst (fst l))) (hex_bytes (snd (fst l))) (snd l)) lats).

(* ... and the dictionary number of every entry of an exact-surface lookup as the public accessors report it:
   accs = (word id, Morpheme::dictionary_id(), Morpheme::is_oov()) *)
Definition check_case_c04M (dics : list (string * string * list (string * Z))) (fuel : nat)
           (queries : list (string * list (list (N * N)))) (exacts : list (string * list N))
           (lats : list (string * string * list (nat * list (N * N)))) (accs : list (N * Z * bool)) : bool :=
  check_case_c04L dics fuel queries exacts lats
  && forallb (fun a => Z.eqb (reported_dic (fst (fst a))) (snd (fst a)) && Bool.eqb (is_oov (fst (fst a))) (snd a)
                       && Z.eqb (snd (fst a)) (Z.of_N (dic_of (fst (fst a))))) accs.
