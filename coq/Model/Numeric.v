(* Model of sudachi/src/plugin/path_rewrite/join_numeric/numeric_parser/{string_number.rs, mod.rs}.
   Executable definitions only (no proofs).  Everything the proofs are sensitive to (character table, unit
   predicates, separators, group lengths, comparison operators, initial field values) is a field of [ncfg];
   [gen_cfg] is read from Generated/NumericFacts.v (re-extracted from the Rust source on every run), [std_cfg]
   is what the proofs were written for; Properties/C15.v carries the obligation [gen_cfg = std_cfg]. *)
From Coq Require Import List NArith ZArith Bool Arith.
From SudachiVerif Require Generated.NumericFacts.
Import ListNotations.

Module NF := Generated.NumericFacts.
Notation cmp := NF.cmp.

Definition cmp_nat (c : cmp) (a b : nat) : bool :=
  match c with
  | NF.CGe => Nat.leb b a
  | NF.CGt => Nat.ltb b a
  | NF.CLe => Nat.leb a b
  | NF.CLt => Nat.ltb a b
  | NF.CEq => Nat.eqb a b
  | NF.CNe => negb (Nat.eqb a b)
  end.

Record ncfg := mkCfg {
  table : list (N * Z);        (* CHAR_TO_NUM *)
  small_lo : Z; small_hi : Z;  (* is_small_unit n := small_lo <= n < small_hi *)
  large_below : Z;             (* is_large_unit n := n < large_below *)
  point_c : N; comma_c : N;
  fg_cmp : cmp; fg_len : nat;  (* first comma group: digit_length <cmp> len *)
  ng_cmp : cmp; ng_len : nat;  (* following groups *)
  lg_cmp : cmp; lg_len : nat;  (* done(): reject when has_comma && digit_length <cmp> len *)
  new_sc : nat; new_az : bool; (* StringNumber::new *)
  fit_cmp : cmp;               (* add: self.scale <cmp> length *)
  implicit : N;                (* shift_scale on an empty number *)
  norm_cmp : cmp               (* normalize_scale: n_scale <cmp> scale *)
}.

Definition gen_cfg : ncfg :=
  mkCfg (NF.char_to_num_kanji ++ NF.char_to_num_ascii)
        NF.small_unit_lo NF.small_unit_hi NF.large_unit_below NF.point_char NF.comma_char
        NF.first_group_cmp (N.to_nat NF.first_group_len) NF.next_group_cmp (N.to_nat NF.next_group_len)
        NF.last_group_reject_cmp (N.to_nat NF.last_group_len)
        (N.to_nat NF.new_scale) NF.new_all_zero NF.add_fit_cmp NF.implicit_coefficient NF.normalize_cmp.

Definition std_table : list (N * Z) :=
  [ (12295%N, 0%Z); (19968%N, 1%Z); (20108%N, 2%Z); (19977%N, 3%Z); (22235%N, 4%Z); (20116%N, 5%Z);
    (20845%N, 6%Z); (19971%N, 7%Z); (20843%N, 8%Z); (20061%N, 9%Z);
    (21313%N, (-1)%Z); (30334%N, (-2)%Z); (21315%N, (-3)%Z); (19975%N, (-4)%Z); (20740%N, (-8)%Z); (20806%N, (-12)%Z);
    (48%N, 0%Z); (49%N, 1%Z); (50%N, 2%Z); (51%N, 3%Z); (52%N, 4%Z); (53%N, 5%Z); (54%N, 6%Z); (55%N, 7%Z);
    (56%N, 8%Z); (57%N, 9%Z) ].

Definition std_cfg : ncfg :=
  mkCfg std_table (-3)%Z 0%Z (-3)%Z 46%N 44%N NF.CLe 3 NF.CEq 3 NF.CNe 3 0 true NF.CGe 1%N NF.CGt.

(* ------------------------------------------------------------------ StringNumber *)
(* significand: decimal digits (most significant first); scale: implied trailing zeros;
   point: None <-> the Rust field is negative (only -1 is ever stored); Some p <-> point = p. *)
Record snum := mkS { sg : list N; sc : nat; pt : option nat; az : bool }.

Section WithCfg.
Variable cfg : ncfg.

Definition s_new : snum := mkS [] (new_sc cfg) None (new_az cfg).

Definition s_is_zero (s : snum) : bool := match sg s with [] => true | _ => false end.

Definition s_append (s : snum) (i : N) : snum :=
  mkS (sg s ++ [i]) (sc s) (pt s) (if N.eqb i 0 then az s else false).

Definition s_shift (s : snum) (k : nat) : snum :=
  mkS (if s_is_zero s then sg s ++ [implicit cfg] else sg s) (sc s + k) (pt s) (az s).

Definition s_normalize (s : snum) : snum :=
  match pt s with
  | None => s
  | Some p =>
      let n := length (sg s) - p in
      if cmp_nat (norm_cmp cfg) n (sc s)
      then mkS (sg s) 0 (Some (p + sc s)) (az s)
      else mkS (sg s) (sc s - n) None (az s)
  end.

(* int_length(&mut self): normalises, then point or len + scale *)
Definition s_int_length (s : snum) : snum * nat :=
  let s1 := s_normalize s in
  (s1, match pt s1 with Some p => p | None => length (sg s1) + sc s1 end).

(* add(&mut self, number: &mut StringNumber) -> bool ; returns (result, self', number') *)
Definition s_add (self number : snum) : bool * snum * snum :=
  if s_is_zero number then (true, self, number)
  else if s_is_zero self then
    (true, mkS (sg self ++ sg number) (sc number) (pt number) (az self), number)
  else
    let self1 := s_normalize self in
    let '(number1, len) := s_int_length number in
    if cmp_nat (fit_cmp cfg) (sc self1) len then
      let sgz := sg self1 ++ repeat 0%N (sc self1 - len) in
      let p' := match pt number1 with Some p => Some (length sgz + p) | None => pt self1 end in
      (true, mkS (sgz ++ sg number1) (sc number1) p' (az self1), number1)
    else (false, self1, number1).

Definition s_set_point (s : snum) : bool * snum :=
  match sc s, pt s with
  | O, None => (true, mkS (sg s) (sc s) (Some (length (sg s))) (az s))
  | _, _ => (false, s)
  end.

Definition digit_char (d : N) : N := (48 + d)%N.

(* removes trailing '0' characters *)
Fixpoint strip_zeros (l : list N) : list N :=
  match l with
  | [] => []
  | x :: t => match strip_zeros t with
              | [] => if N.eqb x 48 then [] else [x]
              | r => x :: r
              end
  end.

Fixpoint drop_last_point (l : list N) : list N :=
  match l with
  | [] => []
  | [x] => if N.eqb x 46 then [] else [x]
  | x :: t => x :: drop_last_point t
  end.

Definition s_to_string (s : snum) : list N :=
  if s_is_zero s then [48%N]
  else
    let s1 := s_normalize s in
    match sc s1 with
    | S _ => map digit_char (sg s1 ++ repeat 0%N (sc s1))
    | O =>
        match pt s1 with
        | Some p =>
            let body := map digit_char (firstn p (sg s1)) ++ [46%N] ++ map digit_char (skipn p (sg s1)) in
            let body := match p with O => 48%N :: body | _ => body end in
            drop_last_point (strip_zeros body)
        | None => map digit_char (sg s1)
        end
    end.

(* ------------------------------------------------------------------ NumericParser *)
Definition E_NONE : N := 0%N.
Definition E_POINT : N := 1%N.
Definition E_COMMA : N := 2%N.

Record parser := mkP {
  dl : nat; fd : bool; hc : bool; hp : bool; er : N; tot : snum; sub : snum; tmp : snum }.

Definition p_new : parser := mkP 0 true false false E_NONE s_new s_new s_new.

Definition set_er (p : parser) (e : N) : parser := mkP (dl p) (fd p) (hc p) (hp p) e (tot p) (sub p) (tmp p).

Definition check_comma (p : parser) : bool :=
  if fd p then false
  else if negb (hc p) then
    cmp_nat (fg_cmp cfg) (dl p) (fg_len cfg) && negb (s_is_zero (tmp p)) && negb (az (tmp p))
  else cmp_nat (ng_cmp cfg) (dl p) (ng_len cfg).

Fixpoint lookup_char (t : list (N * Z)) (c : N) : option Z :=
  match t with
  | [] => None
  | (k, v) :: t' => if N.eqb k c then Some v else lookup_char t' c
  end.

Definition is_small_unit (n : Z) : bool := Z.leb (small_lo cfg) n && Z.ltb n (small_hi cfg).
Definition is_large_unit (n : Z) : bool := Z.ltb n (large_below cfg).

Definition p_append (p : parser) (c : N) : bool * parser :=
  if N.eqb c (point_c cfg) then
    let p := mkP (dl p) (fd p) (hc p) true (er p) (tot p) (sub p) (tmp p) in
    if fd p then (false, set_er p E_POINT)
    else if hc p && negb (check_comma p) then (false, set_er p E_COMMA)
    else
      let '(ok, t) := s_set_point (tmp p) in
      if ok then (true, mkP (dl p) (fd p) false (hp p) (er p) (tot p) (sub p) t)
      else (false, set_er p E_POINT)
  else if N.eqb c (comma_c cfg) then
    if check_comma p then (true, mkP 0 (fd p) true (hp p) (er p) (tot p) (sub p) (tmp p))
    else (false, set_er p E_COMMA)
  else
    match lookup_char (table cfg) c with
    | None => (false, p)
    | Some n =>
        if is_small_unit n then
          let t := s_shift (tmp p) (Z.to_nat (- n)) in
          let '(ok, s', t') := s_add (sub p) t in
          if ok then (true, mkP 0 true false (hp p) (er p) (tot p) s' s_new)
          else (false, mkP (dl p) (fd p) (hc p) (hp p) (er p) (tot p) s' t')
        else if is_large_unit n then
          let '(ok, s', t') := s_add (sub p) (tmp p) in
          if negb ok || s_is_zero s' then (false, mkP (dl p) (fd p) (hc p) (hp p) (er p) (tot p) s' t')
          else
            let s2 := s_shift s' (Z.to_nat (- n)) in
            let '(ok2, tl, s3) := s_add (tot p) s2 in
            if ok2 then (true, mkP 0 true false (hp p) (er p) tl s_new s_new)
            else (false, mkP (dl p) (fd p) (hc p) (hp p) (er p) tl s3 t')
        else
          (true, mkP (S (dl p)) false (hc p) false (er p) (tot p) (sub p) (s_append (tmp p) (Z.to_N n)))
    end.

Definition p_done (p : parser) : bool * parser :=
  let '(r1, s1, t1) := s_add (sub p) (tmp p) in
  let '(ret, tl, s2) := if r1 then s_add (tot p) s1 else (false, tot p, s1) in
  let p' := mkP (dl p) (fd p) (hc p) (hp p) (er p) tl s2 t1 in
  if negb ret then (false, p')   (* the number itself is malformed: no separator error is reported *)
  else if hp p then (false, set_er p' E_POINT)
  else if hc p && cmp_nat (lg_cmp cfg) (dl p) (lg_len cfg) then (false, set_er p' E_COMMA)
  else (ret, p').

Fixpoint p_feed (p : parser) (cs : list N) : bool * parser :=
  match cs with
  | [] => (true, p)
  | c :: cs' => let '(ok, p') := p_append p c in if ok then p_feed p' cs' else (false, p')
  end.

(* verif_parse_numeral: (accepted, error_state, get_normalized()) *)
Definition parse (cs : list N) : bool * N * list N :=
  let '(ok, p) := p_feed p_new cs in
  let '(ok2, p2) := if ok then p_done p else (false, p) in
  (ok2, er p2, s_to_string (tot p2)).

End WithCfg.

(* ------------------------------------------------------------------ reference: exact decimals as digit strings *)
(* digits before the point (leading zeros kept) and after it *)
Definition dec := (list N * list N)%type.

Definition dshift (d : dec) (k : nat) : dec :=
  (fst d ++ firstn k (snd d ++ repeat 0%N k), skipn k (snd d)).

Definition abs (s : snum) : dec :=
  match pt s with
  | None => (sg s ++ repeat 0%N (sc s), [])
  | Some p => dshift (firstn p (sg s), skipn p (sg s)) (sc s)
  end.

Fixpoint to_N_acc (a : N) (l : list N) : N :=
  match l with [] => a | d :: t => to_N_acc (10 * a + d)%N t end.
Definition to_N (l : list N) : N := to_N_acc 0 l.

(* value of d scaled by 10^f (f at least the number of fractional digits) *)
Definition dscaled (d : dec) (f : nat) : N :=
  (to_N (fst d ++ snd d) * 10 ^ N.of_nat (f - length (snd d)))%N.

(* rendering: integer digits, then '.' and the fractional digits without trailing zeros (nothing if none remain);
   an empty integer part is written "0" *)
Fixpoint strip_zero_digits (l : list N) : list N :=
  match l with
  | [] => []
  | x :: t => match strip_zero_digits t with
              | [] => if N.eqb x 0 then [] else [x]
              | r => x :: r
              end
  end.

Definition render (d : dec) : list N :=
  let ip := match fst d with [] => [48%N] | l => map digit_char l end in
  match strip_zero_digits (snd d) with
  | [] => ip
  | fp => ip ++ 46%N :: map digit_char fp
  end.

Definition is_digit (d : N) : bool := N.ltb d 10.

(* ------------------------------------------------------------------ entry points of the correspondence shards *)
Definition text_eqb (a b : list N) : bool :=
  (fix go l1 l2 := match l1, l2 with
                   | [], [] => true
                   | x :: t1, y :: t2 => N.eqb x y && go t1 t2
                   | _, _ => false
                   end) a b.

(* the model (with the facts of the current source) answers exactly what the implementation answered *)
Definition check_parse (input : list N) (ok : bool) (err : N) (norm : list N) : bool :=
  let '(mok, merr, mnorm) := parse gen_cfg input in
  Bool.eqb mok ok && N.eqb merr err && text_eqb mnorm norm.

(* a numeral generated from a value: model and implementation accept it and give the expected rendering *)
Definition check_wellformed (input : list N) (ok : bool) (err : N) (norm expected : list N) : bool :=
  check_parse input ok err norm && ok && text_eqb norm expected.

(* a malformed string: rejected with the given error by both *)
Definition check_rejected (input : list N) (ok : bool) (err : N) (norm : list N) (want_err : N) : bool :=
  check_parse input ok err norm && negb ok && N.eqb err want_err.

(* pipeline level: (surface, normalised form) of the tokens inside the numeral *)
Definition piece_ok (sn : list N * list N) : bool :=
  let '(mok, merr, mnorm) := parse gen_cfg (fst sn) in
  mok && N.eqb merr 0 && text_eqb mnorm (snd sn).

(* a well-formed numeral: exactly one token, covering it, whose normalised form is the expected rendering and what the
   model parser computes *)
Definition check_joined (num : list N) (pieces : list (list N * list N)) (expected : list N) : bool :=
  match pieces with
  | [sn] => text_eqb (fst sn) num && text_eqb (snd sn) expected && piece_ok sn
  | _ => false
  end.

(* a malformed string: every piece is an untouched dictionary token or a numeral normalised as the model says *)
Definition check_pieces (pieces : list (list N * list N)) : bool :=
  forallb (fun sn => text_eqb (fst sn) (snd sn) || piece_ok sn) pieces.
