(* Panicking-index model of sudachi/src/analysis/lattice.rs: the three parallel arrays `ends` / `ends_full` / `indices`
   as the code keeps them (BOS lives in `ends[0]` only; the outer vectors never shrink between resets), every `v[i]`,
   `unwrap`, usize subtraction, narrowing cast, debug assertion and i32 addition written out, returning a panic result
   with the SITE exactly where Rust would panic.  The i32 arithmetic is that of Model/LatticeM.v.
   Executable definitions only. *)
From Coq Require Import List ZArith NArith Bool Arith.
From SudachiVerif Require Import Model.Lattice Model.LatticeM.
From SudachiVerif Require Generated.ConnFacts.
Import ListNotations.
Local Open Scope nat_scope.

(* the panic-capable constructs of lattice.rs (and of ConnectionMatrix::index, which connect_node calls), by site *)
Inductive psite :=
| S_bos_ends0            (* connect_bos:      self.ends[0] *)
| S_eos_len              (* connect_eos:      len - 1  (usize) *)
| S_connect_ends_begin   (* connect_node:     self.ends[begin] *)
| S_conn_left            (* ConnectionMatrix::index: debug_assert!(uleft < self.num_left) *)
| S_conn_right           (*                          debug_assert!(uright < self.num_right) *)
| S_conn_index           (*                          debug_assert!(index < self.data.len()) *)
| S_add_overflow         (* connect_node:     l_node.total_cost() + connect_cost + node_cost  (overflow-checks) *)
| S_insert_ends_end      (* insert:           self.ends[end_idx] *)
| S_insert_indices_end   (*                   self.indices[end_idx] *)
| S_insert_full_end      (*                   self.ends_full[end_idx] *)
| S_node_full_row        (* node:             self.ends_full[id.end()] *)
| S_node_full_col        (*                   ..[id.index()] *)
| S_node_ends_row        (*                   self.ends[id.end()] *)
| S_node_ends_col        (*                   ..[id.index()] *)
| S_eos_unwrap           (* fill_top_path:    self.eos.unwrap() *)
| S_path_indices_row     (*                   self.indices[idx.end()] *)
| S_path_indices_col.    (*                   ..[idx.index()] *)

Definition psite_eqb (a b : psite) : bool :=
  match a, b with
  | S_bos_ends0, S_bos_ends0 | S_eos_len, S_eos_len | S_connect_ends_begin, S_connect_ends_begin
  | S_conn_left, S_conn_left | S_conn_right, S_conn_right | S_conn_index, S_conn_index
  | S_add_overflow, S_add_overflow | S_insert_ends_end, S_insert_ends_end
  | S_insert_indices_end, S_insert_indices_end | S_insert_full_end, S_insert_full_end
  | S_node_full_row, S_node_full_row | S_node_full_col, S_node_full_col | S_node_ends_row, S_node_ends_row
  | S_node_ends_col, S_node_ends_col | S_eos_unwrap, S_eos_unwrap | S_path_indices_row, S_path_indices_row
  | S_path_indices_col, S_path_indices_col => true
  | _, _ => false
  end.

(* POk | panic at a site | undefined behaviour (get_unchecked past the table without debug assertions) | the model's
   loop fuel ran out (fill_top_path did not come back to BOS within the number of stored entries) *)
Inductive pres (A : Type) : Type := POk (a : A) | PPanic (s : psite) | PUB | PFuel.
Arguments POk {A} a. Arguments PPanic {A} s. Arguments PUB {A}. Arguments PFuel {A}.

Definition pbind {A B} (x : pres A) (f : A -> pres B) : pres B :=
  match x with POk a => f a | PPanic s => PPanic s | PUB => PUB | PFuel => PFuel end.

(* v[i] *)
Definition idx {A} (s : psite) (v : list A) (i : nat) : pres A :=
  match nth_error v i with Some x => POk x | None => PPanic s end.

(* x as u16 *)
Definition U16 : N := 65536%N.
Definition as_u16 (x : nat) : nat := N.to_nat (N.of_nat x mod U16)%N.
Definition U16_MAX : nat := N.to_nat 65535%N.

Record vnode := mkV { v_total : Z; v_right : N }.
Definition nidx := (nat * nat)%type.                  (* NodeIdx { end, index } *)
Definition EMPTY_IDX : nidx := (U16_MAX, U16_MAX).         (* NodeIdx::empty() *)

Record plat := mkP {
  p_ends : list (list vnode);
  p_full : list (list node);
  p_idx : list (list nidx);
  p_eos : option (nidx * Z);
  p_size : nat }.

Definition pdefault : plat := mkP [] [] [] None 0.

(* reset_vec: clear every inner vector, grow the outer one to `target` (it never shrinks) *)
Definition reset_vec {A} (data : list (list A)) (target : nat) : list (list A) :=
  repeat [] (Nat.max (length data) target).

(* v[i].push(x) *)
Fixpoint push_at {A} (v : list (list A)) (i : nat) (x : A) : option (list (list A)) :=
  match v, i with
  | [], _ => None
  | r :: v', O => Some ((r ++ [x]) :: v')
  | r :: v', S i' => option_map (cons r) (push_at v' i' x)
  end.

Definition push_idx {A} (s : psite) (v : list (list A)) (i : nat) (x : A) : pres (list (list A)) :=
  match push_at v i x with Some v' => POk v' | None => PPanic s end.

Section WithConn.
  (* profile: debug assertions, overflow checks *)
  Variable dbg ovf : bool.
  (* ConnectionMatrix { data, num_left, num_right } *)
  Variable num_left num_right : N.
  Variable data : list Z.

  (* ConnectionMatrix::cost(left, right): index() with its three debug assertions, then get_unchecked *)
  Definition pconn (left right : N) : pres Z :=
    if dbg && negb (left <? num_left)%N then PPanic S_conn_left
    else if dbg && negb (right <? num_right)%N then PPanic S_conn_right
    else
      let i := N.to_nat (Generated.ConnFacts.conn_index left right num_left num_right) in
      if dbg && negb (i <? length data) then PPanic S_conn_index
      else match nth_error data i with Some c => POk c | None => PUB end.

  Definition padd (a b : Z) : pres Z :=
    match add32 ovf a b with Ok z => POk z | Panic => PPanic S_add_overflow end.

  (* reset + connect_bos *)
  Definition preset (L : plat) (length : nat) : pres plat :=
    let e := reset_vec (p_ends L) (length + 1) in
    let f := reset_vec (p_full L) (length + 1) in
    let i := reset_vec (p_idx L) (length + 1) in
    pbind (push_idx S_bos_ends0 e 0 (mkV Generated.ConnFacts.bos_total Generated.ConnFacts.bos_right))
          (fun e' => POk (mkP e' f i None (length + 1))).

  (* the loop of connect_node over self.ends[begin].iter().enumerate() *)
  Fixpoint pscan (es : list vnode) (i : nat) (begin : nat) (lft : N) (cst : Z) (best : nidx) (minc : Z) : pres (nidx * Z) :=
    match es with
    | [] => POk (best, minc)
    | l :: es' =>
        if (v_total l =? MAX32)%Z then pscan es' (S i) begin lft cst best minc
        else
          pbind (pconn (v_right l) lft) (fun cc =>
          pbind (padd (v_total l) cc) (fun s1 =>
          pbind (padd s1 cst) (fun nc =>
            if (nc <? minc)%Z then pscan es' (S i) begin lft cst (as_u16 begin, as_u16 i) nc
            else pscan es' (S i) begin lft cst best minc)))
    end.

  Definition pconnect_node (L : plat) (n : node) : pres (nidx * Z) :=
    pbind (idx S_connect_ends_begin (p_ends L) (nbeg n)) (fun r =>
      pscan r 0 (nbeg n) (nleft n) (ncost n) EMPTY_IDX MAX32).

  Definition pinsert (L : plat) (n : node) : pres (plat * Z) :=
    pbind (pconnect_node L n) (fun ic =>
    pbind (push_idx S_insert_ends_end (p_ends L) (nend n) (mkV (snd ic) (nright n))) (fun e =>
    pbind (push_idx S_insert_indices_end (p_idx L) (nend n) (fst ic)) (fun i =>
    pbind (push_idx S_insert_full_end (p_full L) (nend n) n) (fun f =>
      POk (mkP e f i (p_eos L) (p_size L), snd ic))))).

  Fixpoint pinsert_all (L : plat) (ns : list node) : pres (plat * list Z) :=
    match ns with
    | [] => POk (L, [])
    | n :: t => pbind (pinsert L n) (fun Lc => pbind (pinsert_all (fst Lc) t) (fun Lcs => POk (fst Lcs, snd Lc :: snd Lcs)))
    end.

  (* connect_eos: Ok(()) = Some eos, Err(EosBosDisconnect) = None; the lattice is returned in both cases *)
  Definition pconnect_eos (L : plat) : pres (plat * bool) :=
    (* len - 1: panics under overflow checks when size = 0 (a lattice that was never reset), wraps to usize::MAX otherwise *)
    let pos := match p_size L with
               | O => if ovf then None else Some U16_MAX
               | S k => Some (as_u16 k)
               end in
    match pos with
    | None => PPanic S_eos_len
    | Some p =>
        pbind (pconnect_node L (mkNode p p Generated.ConnFacts.eos_left Generated.ConnFacts.eos_right Generated.ConnFacts.eos_cost))
              (fun ic => if (snd ic =? MAX32)%Z then POk (L, false)
                         else POk (mkP (p_ends L) (p_full L) (p_idx L) (Some ic) (p_size L), true))
    end.

  (* node(id) *)
  Definition pnode (L : plat) (id : nidx) : pres (node * Z) :=
    pbind (idx S_node_full_row (p_full L) (fst id)) (fun fr =>
    pbind (idx S_node_full_col fr (snd id)) (fun n =>
    pbind (idx S_node_ends_row (p_ends L) (fst id)) (fun er =>
    pbind (idx S_node_ends_col er (snd id)) (fun v => POk (n, v_total v))))).

  (* the loop of fill_top_path; fuel bounds the model's recursion only (every step goes to an entry stored earlier, or - for
     well-formed nodes - to a lower row) *)
  Fixpoint ppath_loop (L : plat) (fuel : nat) (id : nidx) : pres (list nidx) :=
    match fuel with
    | O => PFuel
    | S f =>
        pbind (idx S_path_indices_row (p_idx L) (fst id)) (fun r =>
        pbind (idx S_path_indices_col r (snd id)) (fun prev =>
          if Nat.eqb (fst prev) 0 then POk []
          else pbind (ppath_loop L f prev) (fun rest => POk (prev :: rest))))
    end.

  Definition entries (L : plat) : nat := fold_right (fun r a => length r + a) 0 (p_idx L).

  (* fill_top_path: ids from EOS' predecessor back to the first word (the caller reverses) *)
  Definition pfill_top_path (L : plat) : pres (list nidx) :=
    match p_eos L with
    | None => POk []
    | Some (id, _) => pbind (ppath_loop L (S (p_size L + entries L)) id) (fun rest => POk (id :: rest))
    end.

  (* one analysis as the tokenizer (and the unit-level harness) drives the lattice:
     reset, inserts, connect_eos, fill_top_path, reverse, node(id) for every id.
     Result: the lattice, what every insert returned, and for a connected lattice (EOS cost, path, totals) *)
  Fixpoint pnodes (L : plat) (ids : list nidx) : pres (list (node * Z)) :=
    match ids with
    | [] => POk []
    | id :: t => pbind (pnode L id) (fun x => pbind (pnodes L t) (fun xs => POk (x :: xs)))
    end.

  Definition pround (L0 : plat) (len : nat) (ns : list node)
    : pres (plat * list Z * option (Z * list nidx * list Z)) :=
    pbind (preset L0 len) (fun L1 =>
    pbind (pinsert_all L1 ns) (fun Lcs =>
    pbind (pconnect_eos (fst Lcs)) (fun Lb =>
      if snd Lb then
        pbind (pfill_top_path (fst Lb)) (fun ids =>
        let ids := rev ids in
        pbind (pnodes (fst Lb) ids) (fun xs =>
          POk (fst Lb, snd Lcs, Some (match p_eos (fst Lb) with Some (_, c) => c | None => 0%Z end, ids, map snd xs))))
      else POk (fst Lb, snd Lcs, None)))).

  (* the same analysis, returning what resolve_best_path iterates over: the nodes of the best path in text order
     (empty when EOS is not connected) *)
  Definition pround_path (L0 : plat) (len : nat) (ns : list node) : pres (list node) :=
    pbind (preset L0 len) (fun L1 =>
    pbind (pinsert_all L1 ns) (fun Lcs =>
    pbind (pconnect_eos (fst Lcs)) (fun Lb =>
      if snd Lb then
        pbind (pfill_top_path (fst Lb)) (fun ids =>
        pbind (pnodes (fst Lb) (rev ids)) (fun xs => POk (map fst xs)))
      else POk []))).

  (* a tokenizer's life: the same Lattice object through any number of analyses *)
  Fixpoint prounds (L0 : plat) (rs : list (nat * list node)) : pres (plat * list (list Z * option (Z * list nidx * list Z))) :=
    match rs with
    | [] => POk (L0, [])
    | (len, ns) :: t =>
        pbind (pround L0 len ns) (fun x =>
        pbind (prounds (fst (fst x)) t) (fun y => POk (fst y, (snd (fst x), snd x) :: snd y)))
    end.
End WithConn.

(* ---- what the theorem quantifies over ---- *)
(* a candidate word of a text of len characters: begin < end <= len (Model/BuildLattice.node_wf without the position) *)
Definition pnode_wf (len : nat) (n : node) : bool := (nbeg n <? nend n) && (nend n <=? len).
Definition ids_ok (num_left num_right : N) (n : node) : bool := (nright n <? num_left)%N && (nleft n <? num_right)%N.
Definition count_end (e : nat) (ns : list node) : nat := length (filter (fun n => Nat.eqb (nend n) e) ns).
(* `i as u16` of an index into one row: at most 65535 words end at the same boundary *)
Definition rows_small (len : nat) (ns : list node) : bool :=
  forallb (fun e => (N.of_nat (count_end e ns) <=? 65535)%N) (seq 0 (S len)).

Definition round_wf (num_left num_right : N) (data : list Z) (r : nat * list node) : bool :=
  (1 <=? fst r) && (N.of_nat (fst r) <=? 65535)%N && forallb (pnode_wf (fst r)) (snd r) && forallb (ids_ok num_left num_right) (snd r)
  && rows_small (fst r) (snd r).

Definition matrix_ok (num_left num_right : N) (data : list Z) : bool :=
  (0 <? num_left)%N && (0 <? num_right)%N && (N.to_nat (num_left * num_right) =? length data).

(* ---- correspondence-check entry: one Lattice object through several rounds; impl = None where the implementation
   panicked (the session ends there), Some (costs, eos) otherwise; kind of the panic: 1 index out of bounds, 2 arithmetic
   overflow, 3 assertion failed, 0 not classified ---- *)
Definition panic_class (s : psite) : N :=
  match s with
  | S_add_overflow | S_eos_len => 2
  | S_conn_left | S_conn_right | S_conn_index => 3
  | S_eos_unwrap => 0
  | _ => 1
  end%N.

Definition zlist_eqb (a b : list Z) : bool :=
  (length a =? length b) && forallb (fun p => (fst p =? snd p)%Z) (combine a b).
Definition nidx_list_eqb (a b : list nidx) : bool :=
  (length a =? length b) && forallb (fun p => (fst (fst p) =? fst (snd p)) && (snd (fst p) =? snd (snd p))) (combine a b).

Definition round_eqb (m : list Z * option (Z * list nidx * list Z)) (i : list Z * option (Z * list nidx * list Z)) : bool :=
  zlist_eqb (fst m) (fst i) &&
  match snd m, snd i with
  | None, None => true
  | Some (c, p, t), Some (c', p', t') => (c =? c')%Z && nidx_list_eqb p p' && zlist_eqb t t'
  | _, _ => false
  end.

Fixpoint check_rounds (dbg ovf : bool) (nl nr : N) (data : list Z) (L : plat) (rs : list (nat * list node))
         (impl : list (option (list Z * option (Z * list nidx * list Z)))) (pclass : N) : bool :=
  match rs, impl with
  | [], [] => true
  | (len, ns) :: rs', Some i :: impl' =>
      match pround dbg ovf nl nr data L len ns with
      | POk (L', cs, e) => round_eqb (cs, e) i && check_rounds dbg ovf nl nr data L' rs' impl' pclass
      | _ => false
      end
  | (len, ns) :: _, [None] =>
      match pround dbg ovf nl nr data L len ns with
      | PPanic s => (pclass =? 0)%N || (panic_class s =? 0)%N || (panic_class s =? pclass)%N
      | _ => false
      end
  | _, _ => false
  end.

(* model says "no panic" exactly when the implementation does not panic, with the same results; and inside the scope of
   C03_lattice_no_index_panic the implementation may at most overflow *)
Definition check_lattice_panics (dbg ovf : bool) (nl nr : N) (data : list Z) (rs : list (nat * list node))
           (impl : list (option (list Z * option (Z * list nidx * list Z)))) (pclass : N) : bool :=
  check_rounds dbg ovf nl nr data pdefault rs impl pclass
  && (if matrix_ok nl nr data && forallb (round_wf nl nr data) rs
      then forallb (fun x => match x with Some _ => true | None => false end) impl || (pclass =? 2)%N
      else true).
