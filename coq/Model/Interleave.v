(* C18: threads with private tokenizer state over one shared, never-written dictionary value.
   step d s = (s', o): one analysis by one thread (deterministic function of the dictionary and the thread's own state,
   which includes its remaining input stream -- C10 makes the tokenizer such a function). *)
From Coq Require Import List Arith Bool NArith.
Import ListNotations.

Section NI.
  Variables (D St Out : Type).
  Variable step : D -> St -> St * Out.

  Fixpoint upd (st : list St) (t : nat) (s : St)   : list St :=
    match st, t with
    | [], _ => []
    | _ :: r, O => s :: r
    | x :: r, S t' => x :: upd r t' s
    end.

  (* any interleaving: the schedule names the thread that performs the next analysis *)
  Fixpoint run (d : D) (st : list St) (sched : list nat)   : list St * list (nat * Out) :=
    match sched with
    | [] => (st, [])
    | t :: rest =>
        match nth_error st t with
        | None => run d st rest
        | Some s =>
            let '(s', o) := step d s in
            let '(st', outs) := run d (upd st t s') rest in
            (st', (t, o) :: outs)
        end
    end.

  (* the same thread running alone *)
  Fixpoint solo (d : D) (s : St) (k : nat) : St * list Out :=
    match k with
    | O => (s, [])
    | S k' => let '(s', o) := step d s in
              let '(s'', os) := solo d s' k' in (s'', o :: os)
    end.

  Definition outputs_of (t : nat) (outs : list (nat * Out)) : list Out :=
    map snd (filter (fun p => Nat.eqb (fst p) t) outs).
End NI.

(* ---- correspondence entry: an observed concurrent run ----
   table: text id -> digest of the single-threaded result; streams: the text ids every thread analyses, in order;
   events: (thread, digest) in the global order in which analyses completed.
   The model's step pops the thread's next text and looks its result up in the (shared, read-only) table. *)
Definition tbl := list (N * N).
Fixpoint lookup (d : tbl) (k : N) : N :=
  match d with [] => 0%N | (a, b) :: r => if N.eqb a k then b else lookup r k end.
Definition tstep (d : tbl) (s : list N) : list N * N :=
  match s with [] => ([], 0%N) | x :: r => (r, lookup d x) end.

Definition ev_eqb (a b : nat * N) : bool := Nat.eqb (fst a) (fst b) && N.eqb (snd a) (snd b).
Fixpoint evs_eqb (a b : list (nat * N)) : bool :=
  match a, b with
  | [], [] => true
  | x :: a', y :: b' => ev_eqb x y && evs_eqb a' b'
  | _, _ => false
  end.

Definition check_interleave (d : tbl) (streams : list (list N)) (events : list (nat * N)) : bool :=
  evs_eqb (snd (run tbl (list N) N tstep d streams (map fst events))) events.

(* ---- the same protocol when a step MAY write the shared value (used to state what the read-only premise buys):
   stepw d s = (d', (s', o)); the shared value is threaded through the global order of steps. ---- *)
Section W.
  Variables (D St Out : Type).
  Variable stepw : D -> St -> D * (St * Out).

  Fixpoint runw (d : D) (st : list St) (sched : list nat) : D * (list St * list (nat * Out)) :=
    match sched with
    | [] => (d, (st, []))
    | t :: rest =>
        match nth_error st t with
        | None => runw d st rest
        | Some s =>
            let '(d', (s', o)) := stepw d s in
            let '(d'', (st', outs)) := runw d' (upd St st t s') rest in
            (d'', (st', (t, o) :: outs))
        end
    end.

  Definition read_only : Prop := forall d s, fst (stepw d s) = d.
  Definition proj_step (d : D) (s : St) : St * Out := snd (stepw d s).
End W.
