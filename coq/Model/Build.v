(* C06 — executable model of the dictionary compiler (dic/build): ConnBuffer::{read, parse_header, parse_line, write_elem}
   on whitespace-tokenised matrix text, LexiconReader::parse_record on classified CSV fields, validate_entries /
   validate_wid, DictBuilder::compile against a sink that fails at a byte offset.  Debug-profile semantics (overflow checks
   on).  Guards, limits and the index formula come in through a record of facts; `gen_bfacts` is the instance regenerated
   from the sources, `build` the model of the code as it is now.  No proofs here. *)
From Coq Require Import List ZArith NArith Bool String.
From SudachiVerif Require Import Model.GuardLang Model.Harness Model.Params Generated.BuildGuards Generated.ConnIndex.
Import ListNotations.
Open Scope list_scope.
Open Scope Z_scope.

Record bfacts := mkBFacts {
  b_left_g : list guard;  b_left_gi : list guard;     (* validate_entries on left_id: always / only for indexed entries *)
  b_right_g : list guard; b_right_gi : list guard;
  b_indexed : guard;                                   (* should_index: fires iff the entry is indexed *)
  b_wid_cmp : cmp;                                     (* validate_wid: error iff word cmp max *)
  b_list_len : guard;                                  (* parse_slash_list *)
  b_word_mask : Z;
  b_empty_panics : bool;                               (* ConnBuffer::read on input without a header line: todo!() *)
  b_nul_err : bool;                                    (* parse_record rejects a surface containing NUL (else yada asserts) *)
  b_empty_trie_err : bool;                             (* build_trie returns an error when no entry is indexed (else yada asserts) *)
  b_hdr_left_g : list guard; b_hdr_right_g : list guard;
  b_hdr_fields : nat; b_line_fields : nat;
  b_elem_left_g : list guard; b_elem_right_g : list guard;   (* write_elem *)
  b_elem_index : iexp;                                 (* write_elem index formula (in i16 units) *)
  b_matrix_index : iexp; b_arg_left : idkind; b_arg_right : idkind;  (* reader side: ConnectionMatrix::index, lattice roles *)
  b_index_len : guard;                                 (* write_u32_array: error iff the number of ids fires this guard *)
  b_index_checked : bool;                              (* build_word_id_table writes every id list through write_u32_array *)
  b_nul_raw_err : bool                                 (* parse_record rejects a surface whose CSV text contains a NUL byte (b_nul_err: whose DECODED
                                                          value contains U+0000, which includes the escaped spellings \u0000, \u{0}, ...) *)
}.

(* ---------------- connection matrix text ---------------- *)

(* a whitespace-separated token: a decimal integer literal (of any size) or something i16::from_str rejects *)
Inductive tok := TNum (z : Z) | TBad.
(* a line after trim() and splitting at whitespace; [] = blank line *)
Definition cline := list tok.

(* the matrix: dimensions and the stores performed, newest first, as (index in i16 units, cost) *)
Record conn := mkConn { c_nl : Z; c_nr : Z; c_stores : list (Z * Z) }.

Section WithFacts.
Variable F : bfacts.

Definition parse_i16 (t : tok) : option Z :=
  match t with TNum z => if in_ity I16 z then Some z else None | TBad => None end.

(* regex.splitn(line, n): at most n items, the last one being the unsplit remainder (which, containing whitespace,
   is no integer literal) *)
Definition splitn (n : nat) (l : cline) : cline :=
  if Nat.ltb n (List.length l) then firstn (Nat.pred n) l ++ [TBad] else l.

Fixpoint skip_blank (ls : list cline) : list cline :=
  match ls with [] :: t => skip_blank t | _ => ls end.

(* write_elem: guards (if any), then the checked byte stores matrix[2*index], matrix[2*index+1];
   a negative coordinate converted with `as usize` overflows the index arithmetic (debug profile: panic) *)
Definition write_elem (c : conn) (l r v : Z) : res conn :=
  if accepted (b_elem_left_g F) (c_nl c) (c_nr c) l && accepted (b_elem_right_g F) (c_nl c) (c_nr c) r then
    if (l <? 0) || (r <? 0) then Panic
    else let i := iexp_eval (b_elem_index F) l r (c_nl c) (c_nr c) in
         if (0 <=? i) && (2 * i + 1 <? 2 * (c_nl c * c_nr c)) then Ok (mkConn (c_nl c) (c_nr c) ((i, v) :: c_stores c))
         else Panic
  else Err.

Definition parse_line (c : conn) (ln : cline) : res conn :=
  match splitn (b_line_fields F) ln with
  | [a; b; d] =>
      match parse_i16 a, parse_i16 b, parse_i16 d with
      | Some l, Some r, Some v => write_elem c l r v
      | _, _, _ => Err
      end
  | _ => Err
  end.

Fixpoint read_lines (c : conn) (ls : list cline) : res conn :=
  match ls with
  | [] => Ok c
  | [] :: t => read_lines c t
  | ln :: t =>
      match parse_line c ln with
      | Ok c' => read_lines c' t
      | Err => Err
      | Panic => Panic
      end
  end.

Definition conn_read (ls : list cline) : res conn :=
  match skip_blank ls with
  | [] => if b_empty_panics F then Panic else Err
  | hdr :: rest =>
      match splitn (b_hdr_fields F) hdr with
      | [a; b] =>
          match parse_i16 a, parse_i16 b with
          | Some l, Some r =>
              if accepted (b_hdr_left_g F) 0 0 l && accepted (b_hdr_right_g F) 0 0 r then
                if (l <? 0) || (r <? 0) then Panic (* `left as usize * right as usize * 2` overflows / capacity overflow *)
                else read_lines (mkConn l r []) rest
              else Err
          | _, _ => Err
          end
      | _ => Err
      end
  end.

(* ---------------- lexicon records ---------------- *)

Inductive numf := NumLit (z : Z) | NumBad.
(* a word reference: `123` / `U123` (decimal value n), or text that is no word-id literal *)
Inductive widf := WLit (user : bool) (n : Z) | WBad.

Record rec := mkRec {
  r_ncols : Z;                    (* number of CSV columns of the row *)
  r_strings_ok : bool;            (* every string column within MAX_DIC_STRING_LEN and with valid \u escapes *)
  r_surface_empty : bool;
  r_left : numf; r_right : numf; r_cost : numf;
  r_dic_form : option widf;       (* None = `*` *)
  r_mode : option Z;              (* Some 0/1/2 = A/B/C, None = not a mode *)
  r_split_a : list widf; r_split_b : list widf; r_wstruct : list widf;   (* [] = `*` or empty *)
  r_syn_ok : bool;                (* synonym column absent, `*`, or at most MAX_ARRAY_LEN u32 literals *)
  r_splits_concat : bool;         (* surfaces of the split units concatenate to the headword (the compiler never looks) *)
  r_surface_nul : bool;           (* the surface contains U+0000 *)
  r_surface : N;                  (* which surface (column 0, after unescaping): equal numbers = byte-identical surfaces *)
  r_surface_nul_raw : bool        (* the CSV text of the surface contains a NUL byte (implies r_surface_nul) *)
}.

Definition wid := (bool * Z)%type.   (* (user dictionary?, word) *)
Record entry := mkEntry {
  e_left : Z; e_right : Z; e_cost : Z;
  e_dic_form : option wid; e_split_a : list wid; e_split_b : list wid; e_wstruct : list wid;
  e_splits_concat : bool; e_surface_nul : bool; e_surface : N
}.

Definition num16 (f : numf) : option Z := match f with NumLit z => if in_ity I16 z then Some z else None | NumBad => None end.
Definition parse_wid (w : widf) : option wid :=
  match w with
  | WLit u n => if (0 <=? n) && (n <=? b_word_mask F) && (n <=? 4294967295) then Some (u, n) else None
  | WBad => None
  end.
Fixpoint parse_wids (l : list widf) : option (list wid) :=
  match l with
  | [] => Some []
  | w :: t => match parse_wid w, parse_wids t with Some x, Some xs => Some (x :: xs) | _, _ => None end
  end.
Definition parse_wid_list (l : list widf) : option (list wid) :=
  match parse_wids l with
  | Some ws => if fires (b_list_len F) 0 0 (Z.of_nat (List.length ws)) then None else Some ws
  | None => None
  end.

Definition parse_record (r : rec) : option entry :=
  if (18 <=? r_ncols r) && r_strings_ok r && negb (r_surface_empty r) && r_syn_ok r && negb (r_surface_nul r && b_nul_err F)
     && negb (r_surface_nul_raw r && b_nul_raw_err F) then
    match num16 (r_left r), num16 (r_right r), num16 (r_cost r), r_mode r,
          parse_wid_list (r_split_a r), parse_wid_list (r_split_b r), parse_wid_list (r_wstruct r) with
    | Some l, Some rr, Some c, Some m, Some sa, Some sb, Some ws =>
        if (0 <=? m) && (m <=? 2) && negb ((m =? 0) && negb (match sa, sb with [], [] => true | _, _ => false end)) then
          match r_dic_form r with
          | None => Some (mkEntry l rr c None sa sb ws (r_splits_concat r) (r_surface_nul r) (r_surface r))
          | Some w => match parse_wid w with
                      | Some d => Some (mkEntry l rr c (Some d) sa sb ws (r_splits_concat r) (r_surface_nul r) (r_surface r))
                      | None => None
                      end
          end
        else None
    | _, _, _, _, _, _, _ => None
    end
  else None.

Fixpoint parse_records (rs : list rec) : option (list entry) :=
  match rs with
  | [] => Some []
  | r :: t => match parse_record r, parse_records t with Some e, Some es => Some (e :: es) | _, _ => None end
  end.

(* ---------------- validation ---------------- *)

Definition indexed (e : entry) : bool := fires (b_indexed F) 0 0 (e_left e).

(* validate_wid: Err iff word cmp max, max chosen by the dictionary part of the reference *)
Definition wid_ok (max0 max1 : Z) (w : wid) : bool :=
  negb (cmp_eval (b_wid_cmp F) (snd w) (if fst w then max1 else max0)).

Definition entry_ok (nl nr max0 max1 : Z) (e : entry) : bool :=
  accepted (b_left_g F) nl nr (e_left e) && accepted (b_right_g F) nl nr (e_right e)
  && (if indexed e then accepted (b_left_gi F) nl nr (e_left e) && accepted (b_right_gi F) nl nr (e_right e) else true)
  && match e_dic_form e with None => true | Some w => wid_ok max0 max1 w end
  && forallb (wid_ok max0 max1) (e_split_a e) && forallb (wid_ok max0 max1) (e_split_b e)
  && forallb (wid_ok max0 max1) (e_wstruct e).

(* write_index: the ids of all indexed entries with one surface form one array of the word-id table; IndexBuilder writes it
   through write_u32_array, whose length guard makes compile fail *)
Definition homographs (p : entry -> bool) (es : list entry) (s : N) : Z :=
  Z.of_nat (List.length (filter (fun e => p e && N.eqb (e_surface e) s) es)).
Definition index_err (es : list entry) : bool :=
  b_index_checked F && existsb (fun e => indexed e && fires (b_index_len F) 0 0 (homographs indexed es (e_surface e))) es.

(* what is offered to the builder: matrix text (system dictionary) or the system dictionary it extends (user dictionary:
   its matrix dimensions and number of words), and the rows of the lexicon *)
Inductive base := SystemDic (matrix : list cline) | UserDic (sys_nl sys_nr num_system : Z).
Record input := mkInput { i_base : base; i_recs : list rec }.

Record dict := mkDict { d_nl : Z; d_nr : Z; d_stores : list (Z * Z); d_user : bool; d_num_system : Z; d_entries : list entry }.

(* read_conn; read_lexicon; resolve; compile (validate_entries) with a sink that never fails *)
Definition build_with (inp : input) : res dict :=
  let after_conn : res (Z * Z * list (Z * Z) * bool * Z) :=
    match i_base inp with
    | SystemDic m => match conn_read m with
                     | Ok c => Ok (c_nl c, c_nr c, c_stores c, false, 0)
                     | Err => Err | Panic => Panic
                     end
    | UserDic a b n => Ok (a, b, [], true, n)
    end in
  match after_conn with
  | Ok (nl, nr, st, user, nsys) =>
      match parse_records (i_recs inp) with
      | Some es =>
          let n := Z.of_nat (List.length es) in
          let max0 := if user then nsys else n in
          let max1 := if user then n else 0 in
          if forallb (entry_ok nl nr max0 max1) es then
            if index_err es then Err else
            if existsb indexed es then
              if existsb (fun e => indexed e && e_surface_nul e) es then Panic else Ok (mkDict nl nr st user nsys es)
            else if b_empty_trie_err F then Err else Panic
          else Err
      | None => Err
      end
  | Err => Err
  | Panic => Panic
  end.

(* the same against a sink that accepts `k` bytes: every chunk goes through write_all, so the result is an error value as
   soon as fewer bytes are accepted than the `total` the compiler writes *)
Definition build_with_sink (inp : input) (total k : Z) : res dict :=
  match build_with inp with
  | Ok d => if k <? total then Err else Ok d
  | Err => Err
  | Panic => Panic
  end.

End WithFacts.

(* ---------------- repeated compile calls on one builder ---------------- *)

(* DictBuilder::compile takes &mut self and may be called again: after a success, or after a sink failure with another sink.
   What carries over between calls is the builder: the loaded input and whether ConnBuffer still holds the matrix bytes.
   `keeps_matrix` is the fact BuildGuards.conn_write_keeps_matrix: ConnBuffer::write_to writes `&self.matrix` and leaves it
   where it is (false: it moves the matrix out before writing it). *)
Record builder := mkBuilder { bl_inp : input; bl_matrix_held : bool }.
Definition fresh_builder (inp : input) : builder := mkBuilder inp true.

Section Session.
Variable F : bfacts.
Variable keeps_matrix : bool.

(* one compile call into a sink accepting k bytes; `total` = bytes of a complete dictionary, `moff` = offset of its first
   matrix byte.  A success carries the dictionary and whether the matrix bytes announced by its dimensions were written. *)
Definition compile_step (b : builder) (total moff k : Z) : builder * res (dict * bool) :=
  match build_with F (bl_inp b) with
  | Ok d =>
      let mbytes := 2 * (d_nl d * d_nr d) in
      let complete := bl_matrix_held b || d_user d || (mbytes =? 0) in
      let written := if complete then total else total - mbytes in
      let b' := if keeps_matrix || d_user d then b
                else if moff <=? k then mkBuilder (bl_inp b) false else b in
      (b', if k <? written then Err else Ok (d, complete))
  | Err => (b, Err)
  | Panic => (b, Panic)
  end.

Fixpoint run_session (b : builder) (total moff : Z) (ks : list Z) : list (res (dict * bool)) :=
  match ks with
  | [] => []
  | k :: t => let br := compile_step b total moff k in snd br :: run_session (fst br) total moff t
  end.

End Session.

(* ---------------- specification side ---------------- *)

Definition ref_exists (d : dict) (w : wid) : bool :=
  let n := Z.of_nat (List.length (d_entries d)) in
  (0 <=? snd w) && (snd w <? (if fst w then (if d_user d then n else 0) else (if d_user d then d_num_system d else n))).

Definition entry_refs (e : entry) : list wid :=
  (match e_dic_form e with Some w => [w] | None => [] end) ++ e_split_a e ++ e_split_b e ++ e_wstruct e.

(* an indexed entry's ids lie inside the matrix: left_id selects a row (num_right of them), right_id a column *)
Definition entry_ids_ok (d : dict) (e : entry) : bool :=
  if 0 <=? e_left e then (e_left e <? d_nr d) && (0 <=? e_right e) && (e_right e <? d_nl d) else true.

Definition entry_limits_ok (e : entry) : bool :=
  (Z.of_nat (List.length (e_split_a e)) <=? 127) && (Z.of_nat (List.length (e_split_b e)) <=? 127) && (Z.of_nat (List.length (e_wstruct e)) <=? 127)
  && (-32768 <=? e_cost e) && (e_cost e <=? 32767).

Definition dict_valid (d : dict) : bool :=
  forallb (fun e => entry_ids_ok d e && entry_limits_ok e && forallb (ref_exists d) (entry_refs e)) (d_entries d).

(* the arrays of the word-id table respect the format limit too: at most 127 indexed entries share a surface *)
Definition index_lists_ok (d : dict) : bool :=
  forallb (fun e => if 0 <=? e_left e then homographs (fun x => 0 <=? e_left x) (d_entries d) (e_surface e) <=? 127 else true) (d_entries d).

(* every store of the matrix text went to the cell it named *)
Definition stores_in_range (d : dict) : bool := forallb (fun s => (0 <=? fst s) && (fst s <? d_nl d * d_nr d)) (d_stores d).

(* the full validity the property asks for includes what analysis relies on: split units spell the headword *)
Definition dict_valid_full (d : dict) : bool := dict_valid d && forallb e_splits_concat (d_entries d).

(* what is offered must be a possible system dictionary: dimensions of a loaded grammar are non-negative i16 values *)
Definition input_wf (inp : input) : Prop :=
  match i_base inp with
  | SystemDic _ => True
  | UserDic a b n => 0 <= a <= 32767 /\ 0 <= b <= 32767 /\ 0 <= n
  end.

Definition entry_id (k : idkind) (e : entry) : Z := match k with KLeftId => e_left e | KRightId => e_right e end.

Definition bfacts_ok (F : bfacts) : bool :=
  (* left_id of every entry that passes is < num_right; right_id of every indexed entry is within 0..num_left *)
  existsb (fun g => rejects_all_ge g NumRight && plain_rhs g) (b_left_g F ++ b_left_gi F)
  && covers_strict (b_right_g F ++ b_right_gi F) NumLeft
  && (match b_indexed F with mkG CastNone CGe (OConst 0) => true | _ => false end)
  && (match b_wid_cmp F with CGe => true | _ => false end)
  && (match b_list_len F with mkG CastNone CGt (OConst c) => c <=? 127 | mkG CastNone CGe (OConst c) => c <=? 128 | _ => false end)
  && negb (b_empty_panics F) && b_nul_err F && b_empty_trie_err F
  && existsb (fun g => rejects_all_neg g NumLeft) (b_hdr_left_g F) && existsb (fun g => rejects_all_neg g NumRight) (b_hdr_right_g F)
  && covers_strict (b_elem_left_g F) NumLeft && covers_strict (b_elem_right_g F) NumRight
  && index_shape_ok (b_elem_index F) && index_shape_ok (b_matrix_index F)
  && idkind_eqb (b_arg_left F) KRightId && idkind_eqb (b_arg_right F) KLeftId
  && b_index_checked F
  && (match b_index_len F with mkG CastNone CGt (OConst c) => c <=? 127 | mkG CastNone CGe (OConst c) => c <=? 128 | _ => false end).

(* ---------------- instance regenerated from the sources ---------------- *)

Definition gen_bfacts : bfacts :=
  mkBFacts BuildGuards.validate_left_id_guards BuildGuards.validate_left_id_guards_indexed
           BuildGuards.validate_right_id_guards BuildGuards.validate_right_id_guards_indexed
           BuildGuards.should_index_guard BuildGuards.validate_wid_cmp BuildGuards.slash_list_len_guard BuildGuards.WORD_MASK
           BuildGuards.conn_empty_input_panics BuildGuards.nul_surface_is_error BuildGuards.empty_trie_is_error BuildGuards.conn_header_left_guards BuildGuards.conn_header_right_guards
           BuildGuards.conn_header_fields BuildGuards.conn_line_fields
           BuildGuards.write_elem_left_guards BuildGuards.write_elem_right_guards ConnIndex.write_elem_index
           ConnIndex.matrix_index ConnIndex.cost_arg_left ConnIndex.cost_arg_right
           BuildGuards.u32_array_len_guard BuildGuards.word_id_table_through_write_u32_array
           BuildGuards.raw_nul_surface_is_error.

Definition build := build_with gen_bfacts.
Definition session := run_session gen_bfacts BuildGuards.conn_write_keeps_matrix.
Definition build_sink := build_with_sink gen_bfacts.

(* panic sites of the builder files (Generated/BuildGuards.build_panic_sites) and why each cannot fire on any input;
   a site that is not listed here breaks the obligation panic_sites_classified in Properties/C06.v *)
Open Scope string_scope.
Definition classified_sites : list (string * string * string * N * string) :=
  [ ("mod.rs", "convert", "index", 1%N, "full-range slice &self[..] of an array");
    ("mod.rs", "grammar", "panic", 1%N, "NoDic is uninhabited");
    ("mod.rs", "lexicon", "panic", 1%N, "NoDic is uninhabited");
    ("lexicon.rs", "fmt", "index", 6%N, "constant indices 0..5 of a [_; 6] array");
    ("lexicon.rs", "format", "unwrap", 1%N, "pos id of a split unit was produced by pos_of of the same reader");
    ("lexicon.rs", "from_built_pos", "unwrap", 6%N, "POS of a loaded grammar have POS_DEPTH = 6 components (pos_list_parser)");
    ("lexicon.rs", "pos_obj", "assert", 1%N, "IndexMap value equals insertion index by construction of pos_of / preload_pos");
    ("lexicon.rs", "preload_pos", "assert", 1%N, "called once from new_user on a fresh reader");
    ("lexicon.rs", "validate_entries", "panic", 2%N, "compile checks check_if_resolved first: no Inline unit remains (inline units are outside the modelled stream, exercised by the run)");
    ("lexicon.rs", "validate_wid", "panic", 1%N, "parse_wordid builds dictionary part 0 or 1 only (fact: parse_wordid shape)");
    ("conn.rs", "<top>", "unwrap", 2%N, "lazy_static regexes of literal patterns");
    ("conn.rs", "write_elem", "index", 4%N, "modelled: guarded stores; bytes[0], bytes[1] of a [u8; 2]");
    ("parse.rs", "parse_slash_list", "unwrap", 1%N, "lazy_static regex of a literal pattern (attributed to the preceding fn)");
    ("parse.rs", "parse_u32_list", "unwrap", 1%N, "lazy_static regex of a literal pattern (attributed to the preceding fn)");
    ("parse.rs", "parse_wordid", "index", 1%N, "&data[1..] after starts_with(U): U is one byte");
    ("parse.rs", "unescape_slow", "index", 2%N, "slices between regex match boundaries of the same string");
    ("parse.rs", "unescape_slow", "unwrap", 2%N, "group 0 always exists; one of the two alternatives of the pattern matched");
    ("primitives.rs", "to_u32", "panic", 1%N, "as validate_entries: no Inline unit after resolve") ].
Close Scope string_scope.

(* a site list agrees with the classification when, per (file, function, kind), there are AT MOST as many sites as were
   classified (code that lost a site -- a destructuring instead of two index expressions -- needs no new argument), where the
   sites of a private helper without a classification of its own count as sites of its only caller (code moved into a helper
   of the same file is still that code) *)
Definition classified_here (f fn k : string) : bool :=
  existsb (fun c => let '(f2, g2, k2, _, _) := c in String.eqb f f2 && String.eqb fn g2 && String.eqb k k2) classified_sites.
Definition resolve_fn (f fn k : string) : string :=
  if classified_here f fn k then fn
  else match find (fun h => let '(f2, h2, _) := h in String.eqb f f2 && String.eqb fn h2) BuildGuards.build_private_helpers with
       | Some (_, _, g) => g
       | None => fn
       end.
Definition sites_total (f g k : string) : N :=
  fold_right (fun s acc => let '(f2, fn2, k2, n) := s in
                if String.eqb f f2 && String.eqb k k2 && String.eqb (resolve_fn f2 fn2 k2) g then (n + acc)%N else acc)
             0%N BuildGuards.build_panic_sites.
Definition panic_sites_ok : bool :=
  forallb (fun s => let '(f, fn, k, _) := s in
             let g := resolve_fn f fn k in
             existsb (fun c => let '(f2, g2, k2, n2, _) := c in
                        String.eqb f f2 && String.eqb g g2 && String.eqb k k2 && (sites_total f g k <=? n2)%N) classified_sites)
          BuildGuards.build_panic_sites.

(* ---------------- entry points of the correspondence shards ---------------- *)

Definition cell_of_stores (nl : Z) (stores : list (Z * Z)) (l r : Z) : Z :=
  match lookup_edit (r * nl + l) stores with Some v => v | None => 0 end.

(* impl_status: status of read_conn; read_lexicon; resolve; compile.  impl_dims / impl_cells: dimensions and cells read back
   from the loaded dictionary (only when it compiled and loaded).  loads_and_analyses: loading + analysing the probe texts
   in modes A/B/C raised no failure *)
Definition check_build (inp : input) (impl_status second_status : status) (second_same : bool)
           (impl_dims : Z * Z) (impl_cells : list (Z * Z * Z)) (loads_and_analyses : bool) : bool :=
  (* second_status / second_same: a second compile call on the same builder, and whether status and bytes equal the first *)
  match session (fresh_builder inp) 0 0 [0; 0] with
  | [Ok (d, c1); r2] =>
      status_eqb impl_status SOk
      && (if d_user d then true else (fst impl_dims =? d_nl d) && (snd impl_dims =? d_nr d))
      && (if d_user d then true else forallb (fun c => let '(l, r, v) := c in v =? cell_of_stores (d_nl d) (d_stores d) l r) impl_cells)
      && match r2 with
         | Ok (_, c2) => status_eqb second_status SOk && Bool.eqb second_same c2
         | Err => status_eqb second_status SErr
         | Panic => false
         end
      (* property predicate *)
      && dict_valid d && stores_in_range d && index_lists_ok d && c1
      && loads_and_analyses
      && second_same
  | [Err; r2] => status_eqb impl_status SErr && status_eqb second_status SErr && second_same
                 && match r2 with Err => true | _ => false end
  | _ => false
  end.

(* fault enumeration: the sink accepted k of the `total` bytes *)
Definition check_sink (inp : input) (total k : Z) (impl_status : status) : bool :=
  match build_sink inp total k with
  | Ok _ => status_eqb impl_status SOk && (total <=? k)
  | Err => status_eqb impl_status SErr
  | Panic => false
  end.

Definition check_sink_all (inp : input) (total : Z) (results : list (Z * status)) : bool :=
  forallb (fun ks => check_sink inp total (fst ks) (snd ks)) results.

(* fault enumeration with a retry: first compile into a sink accepting k bytes, then the same builder compiles again into a
   sink that accepts everything; `same`: the retry's bytes equal those of a fresh build of the same input *)
Definition check_retry (inp : input) (total moff : Z) (row : Z * status * status * bool) : bool :=
  let '(k, first, retry, same) := row in
  match session (fresh_builder inp) total moff [k; total] with
  | [r1; r2] =>
      match r1 with
      | Ok _ => status_eqb first SOk && (total <=? k)
      | Err => status_eqb first SErr
      | Panic => false
      end
      && match r2 with
         | Ok (_, c) => status_eqb retry SOk && Bool.eqb same c && same   (* success of the retry must be a complete dictionary *)
         | Err => status_eqb retry SErr
         | Panic => false
         end
  | _ => false
  end.

Definition check_retry_all (inp : input) (total moff : Z) (rows : list (Z * status * status * bool)) : bool :=
  forallb (check_retry inp total moff) rows.
