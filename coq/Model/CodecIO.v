(* Compact literals for the generated case files: byte strings and texts packed 7 bytes per primitive 63-bit integer
   (parsing N literals one by one costs ~100 us each; primitive integers are read natively).
   Used only by the correspondence cases, never by a theorem. *)
From Coq Require Import List NArith ZArith.
From Coq Require Export Uint63.
Import ListNotations.
Open Scope N_scope.

Definition byte_at (x : int) (k : int) : N := Z.to_N (Uint63.to_Z (Uint63.land (Uint63.lsr x k) 255%uint63)).
Definition bytes7 (x : int) : list N :=
  [byte_at x 0%uint63; byte_at x 8%uint63; byte_at x 16%uint63; byte_at x 24%uint63; byte_at x 32%uint63; byte_at x 40%uint63; byte_at x 48%uint63].
(* B n ws: the first n bytes packed in ws *)
Definition B (n : N) (ws : list int) : list N := firstn (N.to_nat n) (flat_map bytes7 ws).
Fixpoint cps_of_bytes (bs : list N) : list N :=
  match bs with
  | a :: b :: c :: t => (a + 256 * b + 65536 * c) :: cps_of_bytes t
  | _ => []
  end.
(* T n ws: n code points, 3 bytes each *)
Definition T (n : N) (ws : list int) : list N := cps_of_bytes (B (3 * n) ws).
