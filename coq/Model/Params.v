(* C20 — executable model of the load-time parameter checks: CheckParams (util/check_params.rs), the unk.def checks of
   MeCabOovPlugin, SimpleOovPlugin / RegexOovProvider settings, handle_user_pos, InhibitConnectionPlugin::{set_up,edit},
   ConnectionMatrix::{index,update} and the plugin phase of JapaneseDictionary::from_cfg_storage.
   Everything the proofs are sensitive to comes in through a record of facts; `gen_facts` (bottom) is the instance regenerated
   from the sources on every run, `load` the model of the code as it is now.  No proofs here. *)
From Coq Require Import List ZArith NArith Bool.
From SudachiVerif Require Import Model.GuardLang Model.Harness Generated.Guards Generated.ConnIndex.
Import ListNotations.
Open Scope Z_scope.

Record pfacts := mkFacts {
  f_left_g : list guard;            (* CheckParams::check_left_id *)
  f_right_g : list guard;           (* CheckParams::check_right_id *)
  f_cost_g : list guard;            (* CheckParams::check_cost *)
  f_json_ty : ity;                  (* type of leftId/rightId/cost in the JSON settings of simple/regex providers *)
  f_unk_ty : ity;                   (* type the unk.def columns are parsed into *)
  f_unk_left_g : list guard;        (* read_oov: checks after parsing *)
  f_unk_right_g : list guard;
  f_inh_ty : ity;                   (* element type of inhibitPair members *)
  f_inh_left_g : list guard;        (* InhibitConnectionPlugin::set_up *)
  f_inh_right_g : list guard;
  f_inhibited : Z;                  (* Grammar::INHIBITED_CONNECTION *)
  f_index : iexp;                   (* ConnectionMatrix::index *)
  f_dbg_left : bool; f_dbg_right : bool; f_dbg_len : bool;   (* its debug_assert!s *)
  f_arg_left : idkind; f_arg_right : idkind;                 (* conn.cost(l_node.<f_arg_left>(), r_node.<f_arg_right>()) *)
  f_pos_limit : guard               (* register_pos: too many POS *)
}.

Inductive res (A : Type) := Ok (a : A) | Err | Panic.
Arguments Ok {A} a. Arguments Err {A}. Arguments Panic {A}.

(* the grammar of the loaded system dictionary: matrix dimensions and the POS table (POS = abstract key) *)
Record gram := mkGram { nl : Z; nr : Z; pos : list N }.

(* a part of speech as written in a setting: does it have POS_DEPTH components, and its identity *)
Definition posreq := (bool * N)%type.

(* an OOV node template: left_id (u16), right_id (u16), cost (i16), POS id *)
Definition node := (Z * Z * Z * N)%type.

Inductive oov_cfg :=
| Simple (l r c : Z) (p : posreq) (allow : bool)
| Regex (l r c : Z) (p : posreq) (allow : bool)
| Mecab (lines : list (Z * Z * Z * posreq)) (allow : bool).

(* connectionCostPlugin: list of InhibitConnectionPlugin instances, each with its inhibitPair list; oovProviderPlugin list *)
Record config := mkCfg { c_inhibit : list (list (Z * Z)); c_oov : list oov_cfg }.

Fixpoint index_of (k : N) (l : list N) (i : N) : option N :=
  match l with
  | [] => None
  | x :: t => if N.eqb x k then Some i else index_of k t (N.succ i)
  end.

Section WithFacts.
Variable F : pfacts.

(* util/user_pos.rs handle_user_pos + Grammar::{get_part_of_speech_id, register_pos} *)
Definition handle_user_pos (tbl : list N) (p : posreq) (allow : bool) : res (N * list N) :=
  if negb (fst p) then Err
  else match index_of (snd p) tbl 0%N with
       | Some i => Ok (i, tbl)
       | None =>
           if allow then
             if fires (f_pos_limit F) 0 0 (Z.of_nat (length tbl)) then Err
             else Ok (N.of_nat (length tbl), tbl ++ [snd p])
           else Err
       end.

(* check_left_id / check_right_id / check_cost on a value of integer type `ty` *)
Definition check_value (ty : ity) (gs : list guard) (g : gram) (x : Z) : bool :=
  in_ity ty x && accepted gs (nl g) (nr g) x.

Definition oov_simple (g : gram) (tbl : list N) (l r c : Z) (p : posreq) (allow : bool) : res (node * list N) :=
  match handle_user_pos tbl p allow with
  | Ok (pid, tbl') =>
      if check_value (f_json_ty F) (f_left_g F) g l && check_value (f_json_ty F) (f_right_g F) g r
         && check_value (f_json_ty F) (f_cost_g F) g c
      then Ok ((as_u16 l, as_u16 r, as_i16 c, pid), tbl') else Err
  | Err => Err
  | Panic => Panic
  end.

(* one line of unk.def: columns parsed into f_unk_ty, POS handled, then the two id checks *)
Definition mecab_line (g : gram) (tbl : list N) (allow : bool) (ln : Z * Z * Z * posreq) : res (node * list N) :=
  let '(l, r, c, p) := ln in
  if in_ity (f_unk_ty F) l && in_ity (f_unk_ty F) r && in_ity (f_unk_ty F) c then
    match handle_user_pos tbl p allow with
    | Ok (pid, tbl') =>
        if accepted (f_unk_left_g F) (nl g) (nr g) l && accepted (f_unk_right_g F) (nl g) (nr g) r
        then Ok ((as_u16 l, as_u16 r, c, pid), tbl') else Err
    | Err => Err
    | Panic => Panic
    end
  else Err.

Fixpoint mecab_lines (g : gram) (tbl : list N) (allow : bool) (lines : list (Z * Z * Z * posreq)) : res (list node * list N) :=
  match lines with
  | [] => Ok ([], tbl)
  | ln :: t =>
      match mecab_line g tbl allow ln with
      | Ok (n, tbl') =>
          match mecab_lines g tbl' allow t with
          | Ok (ns, tbl'') => Ok (n :: ns, tbl'')
          | Err => Err
          | Panic => Panic
          end
      | Err => Err
      | Panic => Panic
      end
  end.

Definition oov_setup (g : gram) (tbl : list N) (o : oov_cfg) : res (list node * list N) :=
  match o with
  | Simple l r c p allow | Regex l r c p allow =>
      match oov_simple g tbl l r c p allow with
      | Ok (n, tbl') => Ok ([n], tbl')
      | Err => Err
      | Panic => Panic
      end
  | Mecab lines allow => mecab_lines g tbl allow lines
  end.

Fixpoint oov_setups (g : gram) (tbl : list N) (os : list oov_cfg) : res (list (list node) * list N) :=
  match os with
  | [] => Ok ([], tbl)
  | o :: t =>
      match oov_setup g tbl o with
      | Ok (ns, tbl') =>
          match oov_setups g tbl' t with
          | Ok (nss, tbl'') => Ok (ns :: nss, tbl'')
          | Err => Err
          | Panic => Panic
          end
      | Err => Err
      | Panic => Panic
      end
  end.

(* InhibitConnectionPlugin::set_up: serde typing of the members, then whatever guards set_up has *)
Definition inhibit_pair_ok (g : gram) (pr : Z * Z) : bool :=
  in_ity (f_inh_ty F) (fst pr) && in_ity (f_inh_ty F) (snd pr)
  && accepted (f_inh_left_g F) (nl g) (nr g) (fst pr) && accepted (f_inh_right_g F) (nl g) (nr g) (snd pr).

Definition inhibit_setup (g : gram) (pairs : list (Z * Z)) : bool := forallb (inhibit_pair_ok g) pairs.

(* ConnectionMatrix::index on u16 arguments; in the debug profile the debug_assert!s are live *)
Definition conn_index (debug : bool) (g : gram) (l r : Z) : res Z :=
  let i := iexp_eval (f_index F) l r (nl g) (nr g) in
  if debug && ((f_dbg_left F && negb (l <? nl g)) || (f_dbg_right F && negb (r <? nr g))
               || (f_dbg_len F && negb (i <? nl g * nr g)))
  then Panic else Ok i.

(* ConnectionMatrix::update = index + bounds-checked store; the matrix is kept as the list of stores, newest first *)
Definition matrix_update (debug : bool) (g : gram) (edits : list (Z * Z)) (l r v : Z) : res (list (Z * Z)) :=
  match conn_index debug g l r with
  | Ok i => if (0 <=? i) && (i <? nl g * nr g) then Ok ((i, v) :: edits) else Panic
  | Err => Err
  | Panic => Panic
  end.

(* InhibitConnectionPlugin::edit: set_connect_cost(left, right, INHIBITED) = update(left as u16, right as u16, ..) *)
Fixpoint inhibit_edit (debug : bool) (g : gram) (edits : list (Z * Z)) (pairs : list (Z * Z)) : res (list (Z * Z)) :=
  match pairs with
  | [] => Ok edits
  | (a, b) :: t =>
      match matrix_update debug g edits (as_u16 a) (as_u16 b) (f_inhibited F) with
      | Ok e' => inhibit_edit debug g e' t
      | Err => Err
      | Panic => Panic
      end
  end.

Record loaded := mkLoaded { l_nodes : list (list node); l_edits : list (Z * Z); l_pos : list N }.

(* plugin phase of from_cfg_storage: set_up of the connection-cost plugins, set_up of the OOV providers,
   NoOOVPluginProvided, then every connection-cost plugin edits the grammar *)
Definition load_with (debug : bool) (g : gram) (cfg : config) : res loaded :=
  if forallb (inhibit_setup g) (c_inhibit cfg) then
    match oov_setups g (pos g) (c_oov cfg) with
    | Ok (nss, tbl) =>
        match c_oov cfg with
        | [] => Err
        | _ =>
            match inhibit_edit debug g [] (concat (c_inhibit cfg)) with
            | Ok e => Ok (mkLoaded nss e tbl)
            | Err => Err
            | Panic => Panic
            end
        end
    | Err => Err
    | Panic => Panic
    end
  else Err.

(* value of matrix cell (l, r) after the recorded stores, `init` being the matrix stored in the dictionary *)
Fixpoint lookup_edit (i : Z) (edits : list (Z * Z)) : option Z :=
  match edits with
  | [] => None
  | (j, v) :: t => if i =? j then Some v else lookup_edit i t
  end.
Definition cell_after (g : gram) (init : Z -> Z -> Z) (edits : list (Z * Z)) (l r : Z) : Z :=
  match lookup_edit (iexp_eval (f_index F) l r (nl g) (nr g)) edits with
  | Some v => v
  | None => init l r
  end.

End WithFacts.

(* ---------------- specification side: independent of the guards ---------------- *)

(* a node's left_id is looked up against the `right` dimension and its right_id against the `left` dimension
   (lattice.rs: conn.cost(l_node.right_id(), r_node.left_id()); the proofs demand that the generated role facts say so) *)
Definition left_id_ok (g : gram) (x : Z) : bool := (0 <=? x) && (x <? nr g).
Definition right_id_ok (g : gram) (x : Z) : bool := (0 <=? x) && (x <? nl g).
Definition cost_ok (x : Z) : bool := (-32768 <=? x) && (x <=? 32767).

Definition oov_params_ok (g : gram) (o : oov_cfg) : bool :=
  match o with
  | Simple l r c p _ | Regex l r c p _ => left_id_ok g l && right_id_ok g r && cost_ok c && fst p
  | Mecab lines _ => forallb (fun ln => let '(l, r, c, p) := ln in left_id_ok g l && right_id_ok g r && cost_ok c && fst p) lines
  end.
(* an inhibited pair is (right_id of the left node, left_id of the right node) = (matrix `left`, matrix `right`) *)
Definition inhibit_pair_spec (g : gram) (pr : Z * Z) : bool := right_id_ok g (fst pr) && left_id_ok g (snd pr).

Definition spec_accepts (g : gram) (cfg : config) : bool :=
  forallb (oov_params_ok g) (c_oov cfg) && forallb (inhibit_pair_spec g) (concat (c_inhibit cfg))
  && negb (match c_oov cfg with [] => true | _ => false end).

Definition node_ok (g : gram) (n : node) : bool :=
  let '(l, r, c, _) := n in left_id_ok g l && right_id_ok g r && cost_ok c.

(* the cell value the property demands: inhibited iff named *)
Definition cell_spec (inhibited : Z) (init : Z -> Z -> Z) (pairs : list (Z * Z)) (l r : Z) : Z :=
  if existsb (fun pr => (fst pr =? l) && (snd pr =? r)) pairs then inhibited else init l r.

(* the matrix has at least the row / column of the BOS/EOS id 0, and its dimensions are i16 values *)
Definition wf_gram (g : gram) : Prop := 1 <= nl g <= 32767 /\ 1 <= nr g <= 32767.

(* conditions on the facts under which the theorems of Proofs/ParamsProofs.v hold; decided by vm_compute in Properties/C20.v *)
Definition facts_ok (F : pfacts) : bool :=
  covers (f_left_g F) NumRight && covers (f_right_g F) NumLeft && confines (f_cost_g F) (-32768) 32767
  && covers (f_unk_left_g F) NumRight && covers (f_unk_right_g F) NumLeft
  && covers (f_inh_left_g F) NumLeft && covers (f_inh_right_g F) NumRight
  && index_shape_ok (f_index F)
  && idkind_eqb (f_arg_left F) KRightId && idkind_eqb (f_arg_right F) KLeftId
  && match f_json_ty F with I16 | I32 | I64 | U16 | U32 => true end
  && match f_unk_ty F with I16 => true | _ => false end
  && match f_inh_ty F with I16 => true | _ => false end.

(* ---------------- the instance regenerated from the sources ---------------- *)

Definition gen_facts : pfacts :=
  mkFacts Guards.check_left_id_guards Guards.check_right_id_guards Guards.check_cost_guards
          Guards.simple_leftId_ty Guards.unk_left_id_ty Guards.unk_left_id_guards Guards.unk_right_id_guards
          Guards.inhibit_left_ty Guards.inhibit_left_guards Guards.inhibit_right_guards Guards.INHIBITED_CONNECTION
          ConnIndex.matrix_index ConnIndex.debug_asserts_left_lt_num_left ConnIndex.debug_asserts_right_lt_num_right
          ConnIndex.debug_asserts_index_lt_len ConnIndex.cost_arg_left ConnIndex.cost_arg_right
          Guards.register_pos_limit_guard.

(* the model uses one type per group of settings; the generated file must agree on it *)
Definition ity_eqb (a b : ity) : bool :=
  match a, b with I16, I16 | I32, I32 | I64, I64 | U16, U16 | U32, U32 => true | _, _ => false end.
Definition types_uniform : bool :=
  forallb (ity_eqb Guards.simple_leftId_ty)
    [Guards.simple_rightId_ty; Guards.simple_cost_ty; Guards.regex_leftId_ty; Guards.regex_rightId_ty; Guards.regex_cost_ty]
  && forallb (ity_eqb Guards.unk_left_id_ty) [Guards.unk_right_id_ty; Guards.unk_cost_ty]
  && ity_eqb Guards.inhibit_left_ty Guards.inhibit_right_ty.

Definition load := load_with gen_facts.

(* ---------------- userPOS written / not written ---------------- *)

(* a provider's settings either name the mode or do not mention it.  What the code does with an unmentioned mode is the
   regenerated Default of UserPosMode; what the property allows is only an EXPLICIT allow *)
Definition eff_mode (m : option bool) : bool := match m with Some b => b | None => Guards.user_pos_default_allow end.
Definition explicit_mode (m : option bool) : bool := match m with Some b => b | None => false end.

(* ---------------- entry point of the correspondence shards ---------------- *)

Inductive status := SOk | SErr | SPanic.
Definition status_eqb (a b : status) : bool :=
  match a, b with SOk, SOk | SErr, SErr | SPanic, SPanic => true | _, _ => false end.

(* matrix stored in the dictionaries the harness builds *)
Definition init_cost (l r : Z) : Z := (l * 7 + r * 13) mod 1000 - 500.

Definition node_eqb (a b : node) : bool :=
  let '(l1, r1, c1, p1) := a in let '(l2, r2, c2, p2) := b in
  (l1 =? l2) && (r1 =? r2) && (c1 =? c2) && N.eqb p1 p2.

(* impl_nodes: per OOV provider, the set of node templates it produced on the probe positions (subset of the configured ones,
   as a provider only fires for the character classes present); impl_cells: (l, r, cost) read back from the loaded grammar;
   analysis_ok: analysing the probe text did not panic *)
Definition check_load (debug : bool) (g : gram) (cfg : config) (impl_status : status)
           (impl_nodes : list (list node)) (impl_cells : list (Z * Z * Z)) (analysis_ok : bool) : bool :=
  let pairs := concat (c_inhibit cfg) in
  match load debug g cfg with
  | Ok L =>
      (* correspondence *)
      status_eqb impl_status SOk
      && list_eqb (fun (seen : list node) (model : list node) => forallb (fun n => existsb (node_eqb n) model) seen) impl_nodes (l_nodes L)
      && forallb (fun c => let '(l, r, v) := c in v =? cell_after gen_facts g init_cost (l_edits L) l r) impl_cells
      (* property predicate on the implementation's output *)
      && spec_accepts g cfg
      && forallb (forallb (node_ok g)) impl_nodes
      && forallb (fun c => let '(l, r, v) := c in v =? cell_spec 32767 init_cost pairs l r) impl_cells
      && analysis_ok
  | Err => status_eqb impl_status SErr
  | Panic => false (* whatever the implementation did: a model panic is a violation of "returns an error value" *)
  end.

(* configurations whose providers may leave userPOS out: `cfg_of M` is the configuration with every mode passed through M.
   Correspondence uses the mode the code gives (eff_mode); the property demands that an accepted configuration is also
   accepted when unmentioned modes count as forbid. *)
Definition check_load_m (debug : bool) (g : gram) (cfg_of : (option bool -> bool) -> config) (impl_status : status)
           (impl_nodes : list (list node)) (impl_cells : list (Z * Z * Z)) (analysis_ok : bool) : bool :=
  check_load debug g (cfg_of eff_mode) impl_status impl_nodes impl_cells analysis_ok
  && (if status_eqb impl_status SOk
      then match load debug g (cfg_of explicit_mode) with Ok _ => true | _ => false end
      else true).
