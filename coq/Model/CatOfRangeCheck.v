(* correspondence entry for InputBuffer::cat_of_range over the per-character classes a built buffer holds (C17) *)
From Coq Require Import List NArith Bool Arith.
From SudachiVerif Require Import Model.Buffer.
Import ListNotations.
Local Open Scope nat_scope.

(* obs = (begin, end, what InputBuffer::cat_of_range answered); the model must agree, and the answer must be the
   intersection of the characters' classes (the first character's classes folded with `&`), 0 for an empty range *)
Definition check_cat_of_range (cats : list N) (obs : list (nat * nat * N)) : bool :=
  forallb (fun x => let '(a, b, got) := x in
     match cat_of_range cats a b with
     | Some r => N.eqb r got && N.eqb got (if b <=? a then 0%N else fold_left N.land (firstn (b - a) (skipn a cats)) (nth a cats 0%N))
     | None => false
     end) obs.
