(* Model of CharacterCategory::read_character_definition (dic/character_category.rs): char.def text -> ranges.
   Text = list of bytes (N).  The model covers ASCII input; a byte >= 128 in a definition line, or a class token containing
   '|' or starting with "0x" (bitflags' composite / hex syntax), makes the answer `PUnmodelled`.
   Executable definitions only. *)
From Coq Require Import List NArith Bool Arith String Ascii.
From SudachiVerif Require Import Model.Harness Model.CharCat.
From SudachiVerif Require Generated.CategoryFacts.
Import ListNotations.
Open Scope N_scope.

Inductive presult := POk (rs : list crange) | PErr | PPanic | PUnmodelled.

Definition bytes_eqb : list N -> list N -> bool := list_eqb N.eqb.
Definition bytes_of (s : string) : list N := map (fun a => N_of_ascii a) (list_ascii_of_string s).

Definition is_ws (b : N) : bool := (b =? 9) || (b =? 10) || (b =? 11) || (b =? 12) || (b =? 13) || (b =? 32).

(* str::lines(): split at "\n"; the "\r" of "\r\n" is removed by the trim() that follows *)
Fixpoint lines_aux (cur : list N) (l : list N) : list (list N) :=
  match l with
  | [] => match cur with [] => [] | _ => [rev cur] end
  | b :: t => if b =? 10 then rev cur :: lines_aux [] t else lines_aux (b :: cur) t
  end.
Definition lines (t : list N) : list (list N) := lines_aux [] t.

Fixpoint drop_ws (l : list N) : list N :=
  match l with b :: t => if is_ws b then drop_ws t else l | [] => [] end.
Definition trim (l : list N) : list N := rev (drop_ws (rev (drop_ws l))).

(* split_whitespace *)
Fixpoint words_aux (cur : list N) (l : list N) : list (list N) :=
  match l with
  | [] => match cur with [] => [] | _ => [rev cur] end
  | b :: t => if is_ws b then (match cur with [] => words_aux [] t | _ => rev cur :: words_aux [] t end)
              else words_aux (b :: cur) t
  end.
Definition words (l : list N) : list (list N) := words_aux [] l.

Definition starts_with (p l : list N) : bool := bytes_eqb (firstn (List.length p) l) p.

Definition ZERO_X : list N := [48; 120].   (* "0x" *)

(* trim_start_matches("0x"): repeatedly *)
Fixpoint strip_0x (fuel : nat) (l : list N) : list N :=
  match fuel with
  | O => l
  | S f => if starts_with ZERO_X l then strip_0x f (skipn 2 l) else l
  end.

(* split("..") : first two pieces are all the code looks at; None for the second = no ".." present *)
Fixpoint split_dots (cur : list N) (l : list N) : list N * option (list N) :=
  match l with
  | [] => (rev cur, None)
  | b :: t =>
      match t with
      | b2 :: t2 => if (b =? 46) && (b2 =? 46) then (rev cur, Some (fst (split_dots [] t2)))
                    else split_dots (b :: cur) t
      | [] => split_dots (b :: cur) t
      end
  end.

Definition hex_digit (b : N) : option N :=
  if (48 <=? b) && (b <=? 57) then Some (b - 48)
  else if (97 <=? b) && (b <=? 102) then Some (b - 87)
  else if (65 <=? b) && (b <=? 70) then Some (b - 55)
  else None.

Fixpoint hex_acc (acc : N) (l : list N) : option N :=
  match l with
  | [] => Some acc
  | b :: t => match hex_digit b with Some d => hex_acc (acc * 16 + d) t | None => None end
  end.

Definition U32_MAX : N := 4294967295.

(* u32::from_str_radix(s, 16): optional leading '+', at least one digit, no overflow *)
Definition from_hex_u32 (l : list N) : option N :=
  let l := match l with b :: t => if b =? 43 then t else l | [] => l end in
  match l with
  | [] => None
  | _ => match hex_acc 0 l with
         | Some v => if v <=? U32_MAX then Some v else None
         | None => None
         end
  end.

(* char::from_u32(x).is_some() *)
Definition is_char (x : N) : bool := (x <? 55296) || ((57344 <=? x) && (x <=? 1114111)).

Definition lookup_class (tok : list N) : option N :=
  option_map snd (find (fun p => bytes_eqb (bytes_of (fst p)) tok) Generated.CategoryFacts.category_bits).

Inductive cres := COk (c : N) | CErr | CUnmodelled.
Fixpoint classes (toks : list (list N)) (acc : N) : cres :=
  match toks with
  | [] => COk acc
  | tok :: t =>
      if starts_with [35] tok then COk acc                    (* take_while(first char != '#') *)
      else if existsb (fun b => b =? 124) tok || starts_with ZERO_X tok then CUnmodelled
      else match lookup_class tok with
           | Some c => classes t (N.lor acc c)
           | None => CErr
           end
  end.

Inductive lres := LSkip | LRange (r : crange) | LErr | LPanic | LUnmodelled.

Definition first_byte (l : list N) : N := match l with b :: _ => b | [] => 0 end.

Definition parse_line (raw : list N) : lres :=
  let line := trim raw in
  match line with
  | [] => LSkip
  | _ =>
    if first_byte line =? 35 then LSkip
    else if 128 <=? first_byte line then LUnmodelled   (* could be Unicode white space that Rust's trim() removes *)
    else if negb (starts_with ZERO_X line) then LSkip
    else if existsb (fun b => 128 <=? b) line then LUnmodelled
    else
      match words line with
      | c0 :: ((_ :: _) as rest) =>
          let '(r0, r1) := split_dots [] c0 in
          match from_hex_u32 (strip_0x (List.length r0) r0) with
          | None => LErr
          | Some b =>
              let e_opt := match r1 with
                           | Some r => from_hex_u32 (strip_0x (List.length r) r)
                           | None => Some b
                           end in
              match e_opt with
              | None => LErr
              | Some ev =>
                  if ev =? U32_MAX then LPanic                     (* `+ 1` overflows (debug profile) *)
                  else if ev + 1 <=? b then LErr
                  else if negb (is_char b) then LErr
                  else if negb (is_char (ev + 1)) then LErr
                  else match classes rest 0 with
                       | COk c => LRange (mkR b (ev + 1) c)
                       | CErr => LErr
                       | CUnmodelled => LUnmodelled
                       end
              end
          end
      | _ => LErr                                             (* cols.len() < 2 *)
      end
  end.

Fixpoint parse_lines (ls : list (list N)) (acc : list crange) : presult :=
  match ls with
  | [] => POk (rev acc)
  | l :: t => match parse_line l with
              | LSkip => parse_lines t acc
              | LRange r => parse_lines t (r :: acc)
              | LErr => PErr
              | LPanic => PPanic
              | LUnmodelled => PUnmodelled
              end
  end.

Definition read_character_definition (text : list N) : presult := parse_lines (lines text) [].

(* ---- correspondence entry: the whole loader on the raw text ----
   status: 0 = loaded, 1 = Err, 2 = panicked; qs = (code point, classes reported by the implementation) *)
Definition check_text (text : list N) (status : N) (qs : list (N * N)) : bool :=
  match read_character_definition text with
  | PUnmodelled => true
  | PErr => status =? 1
  | PPanic => status =? 2
  | POk rs => (status =? 0) && check_case rs qs
  end.
