(* C05 — resolution of inline split references `surface,pos1..6,reading` (columns 15/16 of the lexicon CSV):
     sudachi/src/dic/build/lexicon.rs  parse_split (none_if_equal), resolve_splits / resolve_split
     sudachi/src/dic/build/resolve.rs  RawDictResolver (the lexicon being compiled), BinDictResolver (words of the
                                       system dictionary a user dictionary is compiled against), ChainedResolver
     sudachi/src/dic/build/mod.rs      resolve_impl (own entries first, then the system dictionary)
   A resolver is a hash map from surface to the (pos, reading, word id) triples in insertion order, searched for the
   first triple with equal pos and reading: the first entry, in id order, whose three components match.
   Executable definitions only. *)
From Coq Require Import List NArith ZArith Bool.
From SudachiVerif Require Import Model.Codec.
Import ListNotations.
Open Scope N_scope.

Inductive split_unit :=
| SRef (raw : N)                                               (* `123` / `U123`: already a word id *)
| SInline (surface : text) (pos : N) (reading : option text).  (* reading = None when equal to the surface *)

(* parse_split: SplitUnit::Inline { pos, reading: none_if_equal(&surface, reading), surface } *)
Definition inline_of (surface : text) (pos : N) (reading : text) : split_unit :=
  SInline surface pos (if text_eqb surface reading then None else Some reading).

(* one triple of a resolver together with its key *)
Record rkey := mkKey { k_surface : text; k_pos : N; k_reading : option text }.

Definition opt_text_eqb (a b : option text) : bool :=
  match a, b with
  | None, None => true
  | Some x, Some y => text_eqb x y
  | _, _ => false
  end.
Definition key_matches (k : rkey) (s : text) (p : N) (rd : option text) : bool :=
  text_eqb (k_surface k) s && (k_pos k =? p) && opt_text_eqb (k_reading k) rd.

(* index (counted from `from`) of the first matching key *)
Fixpoint find_key (ks : list rkey) (from : N) (s : text) (p : N) (rd : option text) : option N :=
  match ks with
  | [] => None
  | k :: t => if key_matches k s p rd then Some from else find_key t (N.succ from) s p rd
  end.

(* a row of the lexicon being compiled, as far as resolution is concerned *)
Record rrow := mkRow {
  r_surface : text;          (* RawLexiconEntry::surface(): the index form, column 0 *)
  r_entry : entry;           (* everything else; its split arrays are filled in by resolution *)
  r_a : list split_unit;     (* column 15 *)
  r_b : list split_unit      (* column 16 *)
}.
(* RawDictResolver::new: surface(), pos, reading() -- None when equal to the surface *)
Definition own_key (r : rrow) : rkey :=
  mkKey (r_surface r) (e_pos (r_entry r))
        (if text_eqb (r_surface r) (e_reading (r_entry r)) then None else Some (e_reading (r_entry r))).

(* BinDictResolver::new over the loaded system dictionary: WordInfo surface (the stored headword), pos id, stored
   reading form; None when the stored reading is empty or equal to the surface.  What is stored for an entry: *)
Definition stored_reading (e : entry) : text := if text_eqb (e_reading e) (e_headword e) then [] else e_reading e.
Definition bin_key (surface : text) (pos : N) (reading : text) : rkey :=
  mkKey surface pos (match reading with [] => None | _ => if text_eqb surface reading then None else Some reading end).
Definition sys_key (e : entry) : rkey := bin_key (e_headword e) (e_pos e) (stored_reading e).

Definition DIC : N := 268435456.   (* WordId::new(dic, word) = dic << 28 | word *)

(* ChainedResolver(own, system)::resolve_inline; for a system dictionary sys = [] *)
Definition resolve_inline (own_dic : N) (own sys : list rkey) (s : text) (p : N) (rd : option text) : option N :=
  match find_key own 0 s p rd with
  | Some i => Some (own_dic * DIC + i)
  | None => find_key sys 0 s p rd
  end.

Definition resolve_unit (own_dic : N) (own sys : list rkey) (u : split_unit) : option N :=
  match u with
  | SRef w => Some w
  | SInline s p rd => resolve_inline own_dic own sys s p rd
  end.

Fixpoint resolve_units (own_dic : N) (own sys : list rkey) (us : list split_unit) : option (list N) :=
  match us with
  | [] => Some []
  | u :: t => match resolve_unit own_dic own sys u with
              | Some w => option_map (cons w) (resolve_units own_dic own sys t)
              | None => None     (* InvalidSplitWordReference: the build fails *)
              end
  end.

Definition with_splits (e : entry) (a b : list N) : entry :=
  mkEntry (e_headword e) (e_surface_len e) (e_pos e) (e_norm e) (e_dic_form e) (e_reading e) a b
          (e_word_structure e) (e_synonyms e) (e_left e) (e_right e) (e_cost e).

Fixpoint resolve_rows_with (own_dic : N) (own sys : list rkey) (rows : list rrow) : option (list entry) :=
  match rows with
  | [] => Some []
  | r :: t =>
      match resolve_units own_dic own sys (r_a r), resolve_units own_dic own sys (r_b r) with
      | Some a, Some b => option_map (cons (with_splits (r_entry r) a b)) (resolve_rows_with own_dic own sys t)
      | _, _ => None
      end
  end.

(* DictBuilder::resolve: user = compiled against the system entries `sys` *)
Definition resolve_rows (user : bool) (rows : list rrow) (sys : list entry) : option (list entry) :=
  resolve_rows_with (if user then 1 else 0) (map own_key rows) (if user then map sys_key sys else []) rows.
