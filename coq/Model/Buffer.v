(* Model of sudachi/src/input_text/buffer/{mod.rs,edit.rs}: the offset map of InputBuffer.
   Executable definitions only (no proofs).

   Text is modelled as Rust stores it: a list of UTF-8 bytes (N).  A Rust `String` is always valid UTF-8; the only thing the
   offset map depends on is which bytes are continuation bytes (0x80..0xBF): `str::is_char_boundary`, `char_indices` and
   the number of code points are all functions of that.  "1-4 byte characters" are a lead byte followed by 0-3 continuation
   bytes; nothing below needs more of UTF-8 than this, so the theorems cover every byte string whose first byte is a lead.

   Offsets / indices are `nat`; `None` / `Panic` model Rust panics (slice out of range, off char boundary, debug_assert). *)
From Coq Require Import String List NArith ZArith Bool Arith.
From SudachiVerif Require Generated.Limits Generated.BufferFacts.
From SudachiVerif Require Import Model.Harness.
Import ListNotations.
Open Scope nat_scope.

Module BF := SudachiVerif.Generated.BufferFacts.

(* ------------------------------------------------------------------ configuration read from the source on every run *)
Record bcfg := mkCfg {
  c_start_cmp : string; c_start_limit : N;          (* start_build: original.len() <cmp> MAX_LENGTH => Err *)
  c_ident_from : nat; c_ident_extra : nat;          (* m2o.extend(from .. len + extra) *)
  c_commit_cmp : string; c_commit_limit : N;        (* commit: sz <cmp> REALLY_MAX_LENGTH => Err *)
  c_resolve_cmp : string; c_resolve_limit : N;      (* resolve_edits: cur_len <cmp> REALLY_MAX_LENGTH => early return *)
  c_first_forced : nat;                             (* first entry of the new map is overwritten with this *)
  c_first_sel : string; c_rest_sel : string;        (* add_replace: first byte -> map[what.<sel>], others -> map[what.<sel>] *)
  c_rest_from : nat;                                (* for _ in <from>..with.len() *)
  c_b2c_inc : nat;                                  (* mod_b2c sentinel last_chidx + inc *)
  c_ob2c_init : nat; c_ob2c_inc : nat               (* fill_orig_b2c: count = init; count = ch_idx + inc; sentinel = count *)
}.

Definition the_cfg : bcfg :=
  mkCfg BF.start_build_cmp BF.start_build_limit BF.ident_from BF.ident_extra BF.commit_cmp BF.commit_limit
        BF.resolve_cmp BF.resolve_limit BF.first_forced BF.repl_first_sel BF.repl_rest_sel BF.repl_rest_from
        BF.b2c_sentinel_inc BF.orig_b2c_count_init BF.orig_b2c_count_inc.

(* the values the theorems need (guards may be anything: a rejected input produces no offset map at all) *)
Definition cfg_ok (c : bcfg) : bool :=
  Nat.eqb (c_ident_from c) 0 && Nat.eqb (c_ident_extra c) 1 && Nat.eqb (c_first_forced c) 0 &&
  String.eqb (c_first_sel c) "start" && String.eqb (c_rest_sel c) "end" && Nat.eqb (c_rest_from c) 1 &&
  Nat.eqb (c_b2c_inc c) 1 && Nat.eqb (c_ob2c_init c) 0 && Nat.eqb (c_ob2c_inc c) 1.


(* the guards that keep every offset of the rewritten text inside u16 (what `as u16` in resolve_best_path,
   NodeSplitIterator and Node::new relies on): rejects every original longer than a limit <= 65535, and
   resolve_edits leaves early as soon as the running length exceeds a limit <= 65535 *)
Definition guards_ok (c : bcfg) : bool :=
  String.eqb (c_start_cmp c) ">" && N.leb (c_start_limit c) 65535 &&
  String.eqb (c_resolve_cmp c) ">" && N.leb (c_resolve_limit c) 65535.

Definition cmp_eval (op : string) (a b : Z) : bool :=
  if String.eqb op ">" then Z.ltb b a
  else if String.eqb op ">=" then Z.leb b a
  else if String.eqb op "<" then Z.ltb a b
  else if String.eqb op "<=" then Z.leb a b
  else if String.eqb op "==" then Z.eqb a b
  else negb (Z.eqb a b).

(* ------------------------------------------------------------------ bytes, boundaries, slices *)
Definition is_cont (b : N) : bool := (N.leb 128 b) && (N.ltb b 192).
Definition is_lead (b : N) : bool := negb (is_cont b).

(* str::is_char_boundary for a valid string (byte 0 of a non-empty valid string is never a continuation byte) *)
Definition is_boundary (t : list N) (i : nat) : bool :=
  match nth_error t i with
  | Some b => is_lead b
  | None => Nat.eqb i (length t)
  end.

(* non-empty text starts with a lead byte *)
Definition wf_text (t : list N) : bool := match t with [] => true | b :: _ => is_lead b end.

(* &s[a..b] : panics (None) unless a <= b <= len and both on char boundaries *)
Definition str_slice (t : list N) (a b : nat) : option (list N) :=
  if (a <=? b) && (b <=? length t) && is_boundary t a && is_boundary t b
  then Some (firstn (b - a) (skipn a t)) else None.

(* &v[a..b] on a Vec *)
Definition vec_slice {A} (v : list A) (a b : nat) : option (list A) :=
  if (a <=? b) && (b <=? length v) then Some (firstn (b - a) (skipn a v)) else None.

Fixpoint count_leads (t : list N) : nat :=
  match t with [] => 0 | b :: t' => if is_lead b then S (count_leads t') else count_leads t' end.

(* number of code points of t that start before byte offset b *)
Definition codepoints_before (t : list N) (b : nat) : nat := count_leads (firstn b t).

(* ------------------------------------------------------------------ state *)
Inductive res (A : Type) := Ok (a : A) | Err | Panic.
Arguments Ok {A} a. Arguments Err {A}. Arguments Panic {A}.

Record buf := mkBuf { orig : list N; cur : list N; m2o : list nat }.

Record edit := mkE { e_s : nat; e_e : nat; e_w : list N }.

Section WithCfg.
Variable cfg : bcfg.

Definition start_build (o : list N) : res buf :=
  if cmp_eval (c_start_cmp cfg) (Z.of_nat (length o)) (Z.of_N (c_start_limit cfg)) then Err
  else Ok (mkBuf o o (seq (c_ident_from cfg) (length o + c_ident_extra cfg - c_ident_from cfg))).

Definition sel (which : string) (s e : nat) : nat := if String.eqb which "start" then s else e.

(* add_replace: pieces appended to target / target_mapping and the length delta; None = index panic *)
Definition add_replace (smap : list nat) (s e : nat) (w : list N) : option (list N * list nat * Z) :=
  match w with
  | [] => Some ([], [], (- Z.of_nat (e - s))%Z)
  | _ =>
    match nth_error smap (sel (c_first_sel cfg) s e), nth_error smap (sel (c_rest_sel cfg) s e) with
    | Some a, Some pos =>
        Some (w, a :: repeat pos (length w - c_rest_from cfg), (Z.of_nat (length w) - Z.of_nat (e - s))%Z)
    | _, _ => None
    end
  end.

Inductive rres := ROk (t : list N) (m : list nat) (len : Z) | RTooLong (len : Z) | RPanic.

(* the loop of resolve_edits from the current `start` / `cur_len`; the pieces pushed so far are prepended by the caller *)
Fixpoint resolve (src : list N) (smap : list nat) (edits : list edit) (start : nat) (cur_len : Z) : rres :=
  match edits with
  | [] =>
      match str_slice src start (length src), vec_slice smap start (length smap) with
      | Some a, Some b => ROk a b cur_len
      | _, _ => RPanic
      end
  | e :: rest =>
      match str_slice src start (e_s e), vec_slice smap start (e_s e) with
      | Some a, Some b =>
          match add_replace smap (e_s e) (e_e e) (e_w e) with
          | None => RPanic
          | Some (rb, rm, delta) =>
              let cl := (cur_len + delta)%Z in
              if cmp_eval (c_resolve_cmp cfg) cl (Z.of_N (c_resolve_limit cfg)) then RTooLong cl
              else match resolve src smap rest (e_e e) cl with
                   | ROk t m l => ROk (a ++ rb ++ t) (b ++ rm ++ m) l
                   | r => r
                   end
          end
      | _, _ => RPanic
      end
  end.

Definition force_first (m : list nat) : list nat :=
  match m with [] => [] | _ :: t => c_first_forced cfg :: t end.

(* `cur_len as usize` *)
Definition as_usize (z : Z) : Z := (z mod 18446744073709551616)%Z.

(* with_editor(|_, r| { r.replace..(..)*; Ok(r) }) = commit of one batch *)
Definition commit (s : buf) (edits : list edit) : res buf :=
  match edits with
  | [] => Ok s
  | _ =>
    match resolve (cur s) (m2o s) edits 0 (Z.of_nat (length (cur s))) with
    | RPanic => Panic
    | RTooLong l => if cmp_eval (c_commit_cmp cfg) (as_usize l) (Z.of_N (c_commit_limit cfg)) then Err
                    else Panic (* unreachable when the two limits agree; kept distinguishable *)
    | ROk t m l => if cmp_eval (c_commit_cmp cfg) (as_usize l) (Z.of_N (c_commit_limit cfg)) then Err
                   else Ok (mkBuf (orig s) t (force_first m))
    end
  end.

(* a sequence of batches; a batch answered Err leaves the buffer as it was (rollback), a panic ends the run.
   statuses: 0 = Ok, 1 = Err, 2 = Panic *)
Fixpoint run_batches (s : buf) (bs : list (list edit)) : list N * option buf :=
  match bs with
  | [] => ([], Some s)
  | b :: bs' =>
      match commit s b with
      | Ok s' => let (st, r) := run_batches s' bs' in (0%N :: st, r)
      | Err => let (st, r) := run_batches s bs' in (1%N :: st, r)
      | Panic => ([2%N], None)
      end
  end.

(* ------------------------------------------------------------------ build(): char <-> byte tables of the modified text *)
Fixpoint c2b_scan (t : list N) (i : nat) : list nat :=
  match t with
  | [] => []
  | b :: t' => if is_lead b then i :: c2b_scan t' (S i) else c2b_scan t' (S i)
  end.
(* mod_c2b: byte offset of every char, then the sentinel mod_b2c.len() = modified.len() *)
Definition mod_c2b (t : list N) : list nat := c2b_scan t 0 ++ [length t].

(* cnt = number of lead bytes seen so far (including this one); every byte gets the index of the char it belongs to *)
Fixpoint b2c_scan (t : list N) (cnt : nat) : list nat :=
  match t with
  | [] => []
  | b :: t' => let cnt' := if is_lead b then S cnt else cnt in (cnt' - 1) :: b2c_scan t' cnt'
  end.
(* sentinel: last_chidx + 1 (last_chidx stays 0 for the empty text) *)
Definition mod_b2c (t : list N) : list nat := b2c_scan t 0 ++ [(count_leads t - 1) + c_b2c_inc cfg].

(* fill_orig_b2c: usize::MAX (None) off boundaries, char index on boundaries, the number of code points at the end *)
Fixpoint ob2c_scan (t : list N) (cnt : nat) : list (option nat) :=
  match t with
  | [] => []
  | b :: t' => if is_lead b then Some cnt :: ob2c_scan t' (S cnt) else None :: ob2c_scan t' cnt
  end.
Definition orig_b2c (t : list N) : list (option nat) :=
  ob2c_scan t 0 ++ [Some (match count_leads t with 0 => c_ob2c_init cfg | S k => k + c_ob2c_inc cfg end)].

(* ------------------------------------------------------------------ accessors (None = panic) *)
Definition to_orig_byte_idx (s : buf) (ci : nat) : option nat :=
  match nth_error (mod_c2b (cur s)) ci with
  | Some b => nth_error (m2o s) b
  | None => None
  end.

(* debug_assert_ne!(res, usize::MAX) *)
Definition to_orig_char_idx (s : buf) (ci : nat) : option nat :=
  match to_orig_byte_idx s ci with
  | Some b => match nth_error (orig_b2c (orig s)) b with Some (Some c) => Some c | _ => None end
  | None => None
  end.

Definition to_orig (s : buf) (a b : nat) : option (nat * nat) :=
  match nth_error (m2o s) a, nth_error (m2o s) b with
  | Some x, Some y => Some (x, y)
  | _, _ => None
  end.

(* orig_slice: debug asserts both ends on boundaries of the modified text, then slices the original *)
Definition orig_slice (s : buf) (a b : nat) : option (list N) :=
  if is_boundary (cur s) a && is_boundary (cur s) b then
    match to_orig s a b with Some (x, y) => str_slice (orig s) x y | None => None end
  else None.

End WithCfg.

(* ------------------------------------------------------------------ well-formed batches (what the property quantifies over) *)
(* sorted, non-overlapping, in range, both ends on boundaries, replacement a whole number of characters *)
Fixpoint edits_ok_from (src : list N) (start : nat) (es : list edit) : bool :=
  match es with
  | [] => true
  | e :: r => (start <=? e_s e) && (e_s e <=? e_e e) && (e_e e <=? length src) &&
              is_boundary src (e_s e) && is_boundary src (e_e e) && wf_text (e_w e) &&
              edits_ok_from src (e_e e) r
  end.
Definition edits_ok (src : list N) (es : list edit) : bool := edits_ok_from src 0 es.


(* ------------------------------------------------------------------ unreplaced bytes (C08, last clause) *)
(* byte offset q of the text a batch is applied to lies in no replaced range (an insertion at q goes in front of it) *)
Definition kept (es : list edit) (q : nat) : bool := forallb (fun e => (q <? e_s e) || (e_e e <=? q)) es.

(* its offset in the text produced by resolve_edits when the loop is at `start` *)
Fixpoint newpos_from (es : list edit) (start q : nat) : nat :=
  match es with
  | [] => q - start
  | e :: r => if q <? e_s e then q - start else (e_s e - start) + length (e_w e) + newpos_from r (e_e e) q
  end.
Definition newpos (es : list edit) (q : nat) : nat := newpos_from es 0 q.

(* follow a byte through accepted batches: its final offset and whether its mapped start is still exact
   (it never became the first byte of the rewritten text) *)
Fixpoint track_b (bs : list (list edit)) (p : nat) (ex : bool) : option (nat * bool) :=
  match bs with
  | [] => Some (p, ex)
  | b :: r => if kept b p then let p' := newpos b p in track_b r p' (ex && negb (Nat.eqb p' 0)) else None
  end.

(* every byte of the original that no batch replaced is still there, its mapped range contains its original range,
   and its mapped start is its original start unless it became the first byte of the text *)
Definition unreplaced_b (o c : list N) (m : list nat) (bs : list (list edit)) : bool :=
  forallb (fun q =>
    match track_b bs q true with
    | None => true
    | Some (p, ex) =>
        opt_eqb N.eqb (nth_error c p) (nth_error o q) &&
        (nth p m 0 <=? q) && (S q <=? nth (S p) m 0) && implb ex (Nat.eqb (nth p m 0) q)
    end) (seq 0 (length o)).

(* ------------------------------------------------------------------ the invariant as a decidable predicate (evaluated on
   the implementation's own output by the correspondence run) *)
Fixpoint sorted_b (l : list nat) : bool :=
  match l with
  | x :: ((y :: _) as t) => (x <=? y) && sorted_b t
  | _ => true
  end.

Definition inv_b (o c : list N) (m : list nat) : bool :=
  Nat.eqb (length m) (length c + 1) &&
  Nat.eqb (nth 0 m 0) 0 &&
  sorted_b m &&
  (match c with [] => true | _ => Nat.eqb (last m 0) (length o) end) &&
  forallb (fun p => implb (is_boundary c p) (is_boundary o (nth p m 0))) (seq 0 (length c + 1)) &&
  wf_text c.

(* ------------------------------------------------------------------ paths and surfaces (C01) *)
(* a chain of byte ranges over a text of length n: starts at `from`, contiguous, ends at n *)
Fixpoint chain_b (from n : nat) (p : list (nat * nat)) : bool :=
  match p with
  | [] => Nat.eqb from n
  | (b, e) :: r => Nat.eqb b from && (b <=? e) && chain_b e n r
  end.

Definition path_ok_b (c : list N) (p : list (nat * nat)) : bool :=
  chain_b 0 (length c) p && forallb (fun r => is_boundary c (fst r) && is_boundary c (snd r)) p.

(* the property predicate on reported original ranges: text order, first begins at 0, contiguous, last ends at |o|,
   every cut on a character boundary *)
Definition partition_b (o : list N) (p : list (nat * nat)) : bool :=
  chain_b 0 (length o) p && forallb (fun r => is_boundary o (fst r) && is_boundary o (snd r)) p.

Definition byte_slice (o : list N) (r : nat * nat) : list N := firstn (snd r - fst r) (skipn (fst r) o).

Definition map_range (m : list nat) (r : nat * nat) : nat * nat := (nth (fst r) m 0, nth (snd r) m 0).

(* slicing the original by code points [a, b) *)
Definition cp_slice (o : list N) (a b : nat) : list N :=
  let t := c2b_scan o 0 ++ [length o] in byte_slice o (nth a t 0, nth b t 0).

(* ------------------------------------------------------------------ correspondence entry points *)
Definition nat_list_eqb (a : list nat) (b : list N) : bool := list_eqb N.eqb (map N.of_nat a) b.
Definition onat_list_eqb (a : list (option nat)) (b : list (option N)) : bool :=
  list_eqb (opt_eqb N.eqb) (map (option_map N.of_nat) a) b.
Definition mk_edit (s e : N) (w : list N) : edit := mkE (N.to_nat s) (N.to_nat e) w.

(* does every batch satisfy edits_ok on the text it is applied to, and leave a non-empty text?  (model run) *)
Fixpoint batches_in_scope (s : buf) (bs : list (list edit)) : bool :=
  match bs with
  | [] => true
  | b :: bs' =>
      edits_ok (cur s) b &&
      match commit the_cfg s b with
      | Ok s' => (match cur s' with [] => false | _ => true end) && batches_in_scope s' bs'
      | Err => batches_in_scope s bs'
      | Panic => false
      end
  end.

(* what the harness recorded from the implementation after the last batch (and after build()) *)
Record dump := mkDump {
  d_cur : list N;               (* current() *)
  d_m2o : list N;               (* to_orig(i..i).start for i in 0..=len *)
  d_c2b : list N;               (* to_curr_byte_idx(c) for c in 0..=nchars *)
  d_b2c : list N;               (* ch_idx(i) for i in 0..=len *)
  d_obyte : list N;             (* to_orig_byte_idx(c) for c in 0..=nchars *)
  d_ochar : list (option N)     (* to_orig_char_idx(c) for c in 0..=nchars, None = panic *)
}.

Definition all_pairs (n : nat) : list (nat * nat) :=
  flat_map (fun i => map (fun j => (i, j)) (seq i (n - i))) (seq 0 n).

(* C08 on the implementation's output: Inv, code-point offsets = number of code points before the byte offset,
   slicing by code points = slicing by bytes for every pair of character positions *)
Definition c08_pred (o : list N) (d : dump) : bool :=
  let m := map N.to_nat (d_m2o d) in
  let ob := map N.to_nat (d_obyte d) in
  inv_b o (d_cur d) m &&
  list_eqb (opt_eqb N.eqb) (d_ochar d) (map (fun b => Some (N.of_nat (codepoints_before o b))) ob) &&
  forallb (fun ij =>
     let bi := nth (fst ij) ob 0 in let bj := nth (snd ij) ob 0 in
     list_eqb N.eqb (cp_slice o (codepoints_before o bi) (codepoints_before o bj)) (byte_slice o (bi, bj)))
    (all_pairs (length ob)).

Definition model_dump_eqb (s : buf) (d : dump) : bool :=
  let nch := count_leads (cur s) in
  list_eqb N.eqb (cur s) (d_cur d) &&
  nat_list_eqb (m2o s) (d_m2o d) &&
  nat_list_eqb (mod_c2b (cur s)) (d_c2b d) &&
  nat_list_eqb (mod_b2c the_cfg (cur s)) (d_b2c d) &&
  onat_list_eqb (map (to_orig_byte_idx s) (seq 0 (nch + 1))) (map Some (d_obyte d)) &&
  onat_list_eqb (map (to_orig_char_idx the_cfg s) (seq 0 (nch + 1))) (d_ochar d).

(* one unit case: original, batches, statuses answered by the implementation, final dump (None after a panic) *)
Definition check_c08 (o : list N) (bs : list (list edit)) (st : list N) (d : option dump) : bool :=
  match start_build the_cfg o with
  | Ok s0 =>
      let (mst, ms) := run_batches the_cfg s0 bs in
      list_eqb N.eqb mst st &&
      match ms, d with
      | Some s, Some dd =>
          model_dump_eqb s dd &&
          (if batches_in_scope s0 bs && wf_text o then
             c08_pred o dd &&
             (if forallb (N.eqb 0) st then unreplaced_b o (d_cur dd) (map N.to_nat (d_m2o dd)) bs else true)
           else true)
      | None, None => true
      | _, _ => false
      end
  | _ => false
  end.

(* length-limit cases: only the status of start_build / of one batch and the resulting length are compared
   (lists of tens of thousands of unary numbers are not materialised) *)
Definition check_c08_start (o : list N) (impl_ok : bool) : bool :=
  match start_build the_cfg o with Ok _ => impl_ok | Err => negb impl_ok | Panic => false end.

Definition check_c08_big (o : list N) (b : list edit) (st : N) (len : N) : bool :=
  match start_build the_cfg o with
  | Ok s0 =>
      match commit the_cfg s0 b with
      | Ok s => N.eqb st 0 && N.eqb (N.of_nat (length (cur s))) len && Nat.eqb (length (m2o s)) (length (cur s) + 1)
      | Err => N.eqb st 1
      | Panic => N.eqb st 2
      end
  | _ => false
  end.

(* ---- C01: one analysed sentence.  nodes = (begin_c, end_c, begin_b, end_b) in the modified text, in path order;
   morphs = (begin, end, begin_c, end_c, surface) reported for the original text *)
Record morph := mkM { m_b : N; m_e : N; m_bc : N; m_ec : N; m_surf : list N }.

Definition node_ok (c : list N) (nd : N * N * N * N) : bool :=
  let '(bc, ec, bb, eb) := nd in
  let t := mod_c2b c in
  (N.to_nat bc <? length t) && (N.to_nat ec <? length t) &&
  Nat.eqb (nth (N.to_nat bc) t 0) (N.to_nat bb) && Nat.eqb (nth (N.to_nat ec) t 0) (N.to_nat eb).

Definition morph_ok (o : list N) (s : buf) (nd : N * N * N * N) (mo : morph) : bool :=
  let '(bc, ec, bb, eb) := nd in
  opt_eqb N.eqb (option_map N.of_nat (to_orig_byte_idx s (N.to_nat bc))) (Some (m_b mo)) &&
  opt_eqb N.eqb (option_map N.of_nat (to_orig_byte_idx s (N.to_nat ec))) (Some (m_e mo)) &&
  opt_eqb N.eqb (option_map N.of_nat (to_orig_char_idx the_cfg s (N.to_nat bc))) (Some (m_bc mo)) &&
  opt_eqb N.eqb (option_map N.of_nat (to_orig_char_idx the_cfg s (N.to_nat ec))) (Some (m_ec mo)) &&
  opt_eqb (list_eqb N.eqb) (orig_slice s (N.to_nat bb) (N.to_nat eb)) (Some (m_surf mo)) &&
  (* the property itself, on the reported values *)
  list_eqb N.eqb (m_surf mo) (byte_slice o (N.to_nat (m_b mo), N.to_nat (m_e mo))) &&
  N.eqb (m_bc mo) (N.of_nat (codepoints_before o (N.to_nat (m_b mo)))) &&
  N.eqb (m_ec mo) (N.of_nat (codepoints_before o (N.to_nat (m_e mo)))) &&
  list_eqb N.eqb (cp_slice o (N.to_nat (m_bc mo)) (N.to_nat (m_ec mo))) (m_surf mo).

Fixpoint forallb2 {A B} (f : A -> B -> bool) (a : list A) (b : list B) : bool :=
  match a, b with
  | [], [] => true
  | x :: a', y :: b' => f x y && forallb2 f a' b'
  | _, _ => false
  end.

Definition check_c01 (o c : list N) (m : list N) (nodes : list (N * N * N * N)) (ms : list morph) : bool :=
  let s := mkBuf o c (map N.to_nat m) in
  let ranges := map (fun mo => (N.to_nat (m_b mo), N.to_nat (m_e mo))) ms in
  match c with
  | [] => match ms with [] => true | _ => false end          (* empty normalised form: no morphemes *)
  | _ =>
    inv_b o c (m2o s) &&
    path_ok_b c (map (fun nd => let '(_, _, bb, eb) := nd in (N.to_nat bb, N.to_nat eb)) nodes) &&
    forallb (node_ok c) nodes &&
    forallb2 (morph_ok o s) nodes ms &&
    partition_b o ranges &&
    list_eqb N.eqb (concat (map m_surf ms)) o &&
    (match ms with [] => false | _ => true end)
  end.

(* ---- C01, reuse sessions: what a reused MorphemeList reports after collect_results (the path in rewritten-text
   coordinates is not observable there): the report itself must be a partition of the original with lossless surfaces,
   and an empty normalised text must yield no morphemes *)
Definition report_ok (o : list N) (mo : morph) : bool :=
  list_eqb N.eqb (m_surf mo) (byte_slice o (N.to_nat (m_b mo), N.to_nat (m_e mo))) &&
  N.eqb (m_bc mo) (N.of_nat (codepoints_before o (N.to_nat (m_b mo)))) &&
  N.eqb (m_ec mo) (N.of_nat (codepoints_before o (N.to_nat (m_e mo)))) &&
  list_eqb N.eqb (cp_slice o (N.to_nat (m_bc mo)) (N.to_nat (m_ec mo))) (m_surf mo).

Definition check_c01_report (o c : list N) (m : list N) (ms : list morph) : bool :=
  let ranges := map (fun mo => (N.to_nat (m_b mo), N.to_nat (m_e mo))) ms in
  match c with
  | [] => match ms with [] => true | _ => false end
  | _ =>
    inv_b o c (map N.to_nat m) &&
    partition_b o ranges &&
    forallb (report_ok o) ms &&
    (* every reported cut is the image of a character boundary of the rewritten text *)
    forallb (fun r => existsb (fun p => is_boundary c p && Nat.eqb (nth p (map N.to_nat m) 0) (fst r)) (seq 0 (length c + 1))) ranges &&
    list_eqb N.eqb (concat (map m_surf ms)) o &&
    (match ms with [] => false | _ => true end)
  end.

(* ---- pipeline cases of C08 (first sentence of the property): for every reported morpheme the code-point offsets are
   the numbers of code points of the original before its byte offsets, both ends are character boundaries of the
   original, and slicing by code points = slicing by bytes = the surface.  Nothing about contiguity (that is C01). *)
Definition morph_cp_ok (o : list N) (mo : morph) : bool :=
  (N.to_nat (m_b mo) <=? N.to_nat (m_e mo)) &&
  is_boundary o (N.to_nat (m_b mo)) && is_boundary o (N.to_nat (m_e mo)) && report_ok o mo.

Definition check_c08_morphs (o c : list N) (m : list N) (ms : list morph) : bool :=
  (match c with [] => true | _ => inv_b o c (map N.to_nat m) end) && forallb (morph_cp_ok o) ms.

(* ---- on-demand splitting (Morpheme::split_into) of the morphemes of a mode-C analysis: (parent begin, parent end,
   sub-morphemes as reported).  C01: the sub-morphemes tile the parent's range with lossless surfaces; C08: their
   code-point offsets agree with their byte offsets *)
Definition check_c01_subs (o : list N) (l : list (N * N * list morph)) : bool :=
  forallb (fun x => let '(pb, pe, subs) := x in
     chain_b (N.to_nat pb) (N.to_nat pe) (map (fun mo => (N.to_nat (m_b mo), N.to_nat (m_e mo))) subs) &&
     forallb (morph_cp_ok o) subs &&
     list_eqb N.eqb (concat (map m_surf subs)) (byte_slice o (N.to_nat pb, N.to_nat pe))) l.

Definition check_c08_subs (o : list N) (l : list (N * N * list morph)) : bool :=
  forallb (fun x => let '(_, _, subs) := x in forallb (morph_cp_ok o) subs) l.

(* ================================================================== character-level accessors of the built (RO) buffer
   (input_text/buffer/mod.rs; the InputTextIndex methods the plugins, the lattice builder and Morpheme use).
   None = a Rust panic (index out of range, slice off a boundary, `end - cpt` underflow in debug). *)
From SudachiVerif Require Generated.CategoryFacts.

(* mod_chars.len() *)
Definition char_len (t : list N) : nat := count_leads t.

(* ch_idx: self.mod_b2c[idx] *)
Definition ch_idx (cfg : bcfg) (t : list N) (i : nat) : option nat := nth_error (mod_b2c cfg t) i.

(* to_curr_byte_idx: self.mod_c2b[index] *)
Definition to_curr_byte_idx (t : list N) (ci : nat) : option nat := nth_error (mod_c2b t) ci.

(* curr_slice_c: &self.modified[mod_c2b[start] .. mod_c2b[end]] *)
Definition curr_slice_c (t : list N) (a b : nat) : option (list N) :=
  match to_curr_byte_idx t a, to_curr_byte_idx t b with
  | Some x, Some y => str_slice t x y
  | _, _ => None
  end.

(* curr_slice: &self.modified[range] *)
Definition curr_slice (t : list N) (a b : nat) : option (list N) := str_slice t a b.

(* orig_slice_c: &self.original[to_orig_byte_idx(start) .. to_orig_byte_idx(end)] *)
Definition orig_slice_c (s : buf) (a b : nat) : option (list N) :=
  match to_orig_byte_idx s a, to_orig_byte_idx s b with
  | Some x, Some y => str_slice (orig s) x y
  | _, _ => None
  end.

(* char_distance: let end = (cpt + offset).min(mod_chars.len()); end - cpt *)
Definition char_distance (t : list N) (cpt off : nat) : option nat :=
  let e := Nat.min (cpt + off) (char_len t) in if e <? cpt then None else Some (e - cpt).

(* CategoryType::all(): the union of all declared flags (re-read from category_type.rs) *)
Definition cat_all : N := fold_left N.lor (map snd Generated.CategoryFacts.category_bits) 0%N.

(* cat_of_range: empty range => CategoryType::empty(); else mod_cat[range].iter().fold(all(), |a, b| a & *b) *)
Definition cat_of_range (cats : list N) (a b : nat) : option N :=
  if b <=? a then Some 0%N
  else match vec_slice cats a b with
       | Some l => Some (fold_left N.land l cat_all)
       | None => None
       end.

(* get_word_candidate_length: for i in (char_idx + 1)..char_len { if can_bow(mod_c2b[i]) { return i - char_idx } }
   char_len - char_idx.   `starts` = byte offsets of the characters behind char_idx; None = mod_bow index out of range *)
Fixpoint first_bow (starts : list nat) (bow : list bool) : option nat :=
  match starts with
  | [] => Some 0
  | p :: r => match nth_error bow p with
              | None => None
              | Some true => Some 0
              | Some false => option_map S (first_bow r bow)
              end
  end.

Definition word_candidate_length (t : list N) (bow : list bool) (ci : nat) : option nat :=
  if char_len t <? ci then None
  else if Nat.eqb ci (char_len t) then Some 0
  else option_map S (first_bow (skipn (S ci) (c2b_scan t 0)) bow).

(* Morpheme::{begin, end, begin_c, end_c, surface} of a result node with character range [nbc, nec) and byte range
   [nbb, neb) in the rewritten text (analysis/morpheme.rs) *)
Record rnode := mkRN { rn_bc : nat; rn_ec : nat; rn_bb : nat; rn_eb : nat }.
Definition morpheme_begin (s : buf) (n : rnode) : option nat := to_orig_byte_idx s (rn_bc n).
Definition morpheme_end (s : buf) (n : rnode) : option nat := to_orig_byte_idx s (rn_ec n).
Definition morpheme_begin_c (cfg : bcfg) (s : buf) (n : rnode) : option nat := to_orig_char_idx cfg s (rn_bc n).
Definition morpheme_end_c (cfg : bcfg) (s : buf) (n : rnode) : option nat := to_orig_char_idx cfg s (rn_ec n).
Definition morpheme_surface (s : buf) (n : rnode) : option (list N) := orig_slice s (rn_bb n) (rn_eb n).

(* ---- correspondence entry: the character-level accessors of one built buffer.
   bow = can_bow(i) for every byte, cats = cat_at_char(c) for every character (inputs: they depend on char.def);
   pairs = (a, b, curr_slice_c(a..b), orig_slice_c(a..b), cat_of_range(a..b)); dists = (cpt, off, char_distance);
   wcl = get_word_candidate_length(c) for every character index c (None = panic) *)
Definition obytes_eqb (a : option (list N)) (b : option (list N)) : bool := opt_eqb (list_eqb N.eqb) a b.

Definition check_c08_chars (o c : list N) (m : list N) (bow : list bool) (cats : list N)
           (pairs : list (N * N * option (list N) * option (list N) * option N))
           (dists : list (N * N * option N)) (wcl : list (option N)) : bool :=
  let s := mkBuf o c (map N.to_nat m) in
  forallb (fun x => let '(a, b, cs, os, cr) := x in
     obytes_eqb (curr_slice_c c (N.to_nat a) (N.to_nat b)) cs &&
     obytes_eqb (orig_slice_c s (N.to_nat a) (N.to_nat b)) os &&
     opt_eqb N.eqb (cat_of_range cats (N.to_nat a) (N.to_nat b)) cr) pairs &&
  forallb (fun x => let '(cpt, off, d) := x in
     opt_eqb N.eqb (option_map N.of_nat (char_distance c (N.to_nat cpt) (N.to_nat off))) d) dists &&
  list_eqb (opt_eqb N.eqb) (map (fun ci => option_map N.of_nat (word_candidate_length c bow ci)) (seq 0 (length wcl))) wcl &&
  (* ch_idx o to_curr_byte_idx = identity on a non-empty text *)
  (match c with
   | [] => true
   | _ => forallb (fun ci => match to_curr_byte_idx c ci with
                             | Some p => opt_eqb Nat.eqb (ch_idx the_cfg c p) (Some ci)
                             | None => false
                             end) (seq 0 (char_len c + 1))
   end).

(* ================================================================== with_editor with a closure that may fail
   with_editor(func): `match func(self, editor) { Ok(_) => self.commit(), Err(e) => { self.rollback(); Err(e) } }`.
   A closure that records replacements and then answers Err is a REJECTED batch: the recorded replacements are dropped
   (rollback), the buffer is as it was, the caller sees Err.  fails = the closure answers Err. *)
Definition with_editor (cfg : bcfg) (s : buf) (fails : bool) (es : list edit) : res buf :=
  if fails then Err else commit cfg s es.

(* the buffer after a call of with_editor that did not panic *)
Definition after (s : buf) (r : res buf) : buf := match r with Ok s' => s' | _ => s end.

(* ---- correspondence entry: one InputBuffer object used for several texts in a row (reset + new text), every text
   rewritten by batches some of which are rejected by their closure after recording edits; after EVERY batch the
   implementation's status (0 Ok, 1 Err, 2 panic), current() and the offset map are compared with the model *)
Fixpoint check_steps (s : buf) (bs : list (bool * list edit)) (obs : list (N * list N * list N)) : bool :=
  match bs, obs with
  | [], [] => true
  | (fl, es) :: bs', (st, c, m) :: obs' =>
      match with_editor the_cfg s fl es with
      | Panic => N.eqb st 2 && match obs' with [] => true | _ => false end
      | r => let s' := after s r in
             N.eqb st (match r with Ok _ => 0%N | _ => 1%N end) &&
             list_eqb N.eqb (cur s') c && nat_list_eqb (m2o s') m && check_steps s' bs' obs'
      end
  | _, _ => false
  end.

Definition check_c08_session (phases : list (list N * list (bool * list edit) * list (N * list N * list N))) : bool :=
  forallb (fun ph => let '(o, bs, obs) := ph in
                     match start_build the_cfg o with
                     | Ok s0 => check_steps s0 bs obs
                     | _ => match obs with [] => true | _ => false end
                     end) phases.
